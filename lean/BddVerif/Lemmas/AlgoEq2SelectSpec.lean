import BddVerif.Lemmas.AlgoEq2SelectWalk
import BddVerif.Lemmas.AlgoEq2SelectTable
import BddVerif.Lemmas.AlgoEq2SelectNec
import BddVerif.Lemmas.AlgoEq2SelectRandom
import BddVerif.Props.C11
import BddVerif.Drive.Algo2
/-!
# The selectors of `_impl_valuation_utils.rs`: statements about the TRANSLATED code

For each of the eleven selectors this file
* chains the equivalence "translated Rust (`B.Gen.Algo2.<fn>`) = hand model" with the specification theorem of
  `Props/C11.lean`, so that the specification (`first_valuation_least`, `most_positive_spec`,
  `necessary_clause_exact`, …) is a statement about the code that is regenerated from the Rust source on every run:
  `Bdd_<fn>_spec`, for every canonical array (`Can A n`) of at most `2^32` nodes and every fuel `≥ len`
  (`necessary_clause`: no fuel, at most `2^16` variables);
* restates it for the fuel the replay driver passes (`B.Drive.Algo.fuel1 A = 8·(len + num_vars + 8)`, see
  `Drive/Algo2.lean`, keys `C11.sel` / `C11.rand`): `*_driver`; the driver pads the recorded coin flips with `false`s
  (`padFlips`), which the hand models do not notice (`randomValuation_pad`, `randomClause_pad`);
* ends with non-vacuity examples.
-/
namespace B.AlgoEq2Sel
open B B.Gen B.Select B.AlgoEqUtil B.Props.C11

attribute [local instance 10000] Rust.monadOutcomeInline

theorem Can.pos {A : Arr} {n : Nat} (h : Can A n) : 0 < A.size := by have := h.size2; omega

/-! ## specifications of the translated code -/

/-- translated `first_valuation` returns the least satisfying valuation -/
theorem Bdd_first_valuation_spec {A : Arr} {n : Nat} (h : Can A n) (hs : A.size ≤ 4294967296)
    (fuel : Nat) (hfuel : A.size ≤ fuel) :
    ∃ v : Array Bool, Algo2.Bdd_first_valuation fuel A = .ok (some v) ∧ v.size = n ∧
      den A (fn v.toList) = true ∧
      ∀ w : List Bool, w.length = n → den A (fn w) = true → v.toList ≤ w := by
  obtain ⟨v, hv, hlen, hden, hle⟩ := first_valuation_least h
  exact ⟨v.toArray, Bdd_first_valuation_some A v hv (Can.pos h) hs fuel hfuel, by simpa using hlen, hden, hle⟩

/-- translated `last_valuation` returns the greatest satisfying valuation -/
theorem Bdd_last_valuation_spec {A : Arr} {n : Nat} (h : Can A n) (hs : A.size ≤ 4294967296)
    (fuel : Nat) (hfuel : A.size ≤ fuel) :
    ∃ v : Array Bool, Algo2.Bdd_last_valuation fuel A = .ok (some v) ∧ v.size = n ∧
      den A (fn v.toList) = true ∧
      ∀ w : List Bool, w.length = n → den A (fn w) = true → w ≤ v.toList := by
  obtain ⟨v, hv, hlen, hden, hle⟩ := last_valuation_greatest h
  exact ⟨v.toArray, Bdd_last_valuation_some A v hv (Can.pos h) hs fuel hfuel, by simpa using hlen, hden, hle⟩

/-- translated `first_clause` returns a path that takes the `false` branch wherever it diverges from another path -/
theorem Bdd_first_clause_spec {A : Arr} {n : Nat} (h : Can A n) (hs : A.size ≤ 4294967296)
    (fuel : Nat) (hfuel : A.size ≤ fuel) :
    ∃ (c : Array (Option Bool)) (ds : List (Nat × Bool)), Algo2.Bdd_first_clause fuel A = .ok (some c) ∧
      IsPath A (root A) ds 1 ∧ (∀ k, getC c.toList k = ds.lookup k) ∧
      ∀ ds', IsPath A (root A) ds' 1 → ds' = ds ∨
        ∃ pre x r r', ds = pre ++ (x, false) :: r ∧ ds' = pre ++ (x, true) :: r' := by
  obtain ⟨c, ds, hc, hp, hg, hd⟩ := first_clause_path h
  exact ⟨c.toArray, ds, Bdd_first_clause_some A c hc (Can.pos h) hs fuel hfuel, hp, hg, hd⟩

/-- translated `last_clause` returns a path that takes the `true` branch wherever it diverges from another path -/
theorem Bdd_last_clause_spec {A : Arr} {n : Nat} (h : Can A n) (hs : A.size ≤ 4294967296)
    (fuel : Nat) (hfuel : A.size ≤ fuel) :
    ∃ (c : Array (Option Bool)) (ds : List (Nat × Bool)), Algo2.Bdd_last_clause fuel A = .ok (some c) ∧
      IsPath A (root A) ds 1 ∧ (∀ k, getC c.toList k = ds.lookup k) ∧
      ∀ ds', IsPath A (root A) ds' 1 → ds' = ds ∨
        ∃ pre x r r', ds = pre ++ (x, true) :: r ∧ ds' = pre ++ (x, false) :: r' := by
  obtain ⟨c, ds, hc, hp, hg, hd⟩ := last_clause_path h
  exact ⟨c.toArray, ds, Bdd_last_clause_some A c hc (Can.pos h) hs fuel hfuel, hp, hg, hd⟩

/-- translated `most_positive_valuation`: satisfying, maximal number of `true` variables, and the least such -/
theorem Bdd_most_positive_valuation_spec {A : Arr} {n : Nat} (h : Can A n) (hs : A.size ≤ 4294967296)
    (fuel : Nat) (hfuel : A.size ≤ fuel) :
    ∃ v : Array Bool, Algo2.Bdd_most_positive_valuation fuel A = .ok (some v) ∧ v.size = n ∧
      den A (fn v.toList) = true ∧
      (∀ w : List Bool, w.length = n → den A (fn w) = true → count true (fn w) n ≤ count true (fn v.toList) n) ∧
      (∀ w : List Bool, w.length = n → den A (fn w) = true →
        count true (fn w) n = count true (fn v.toList) n → v.toList ≤ w) := by
  obtain ⟨v, hv, hlen, hden, hmax, hle⟩ := most_positive_spec h
  exact ⟨v.toArray, Bdd_most_positive_valuation_some A v hv (Can.pos h) hs fuel hfuel, by simpa using hlen, hden,
    hmax, hle⟩

/-- translated `most_negative_valuation`: satisfying, maximal number of `false` variables, and the least such -/
theorem Bdd_most_negative_valuation_spec {A : Arr} {n : Nat} (h : Can A n) (hs : A.size ≤ 4294967296)
    (fuel : Nat) (hfuel : A.size ≤ fuel) :
    ∃ v : Array Bool, Algo2.Bdd_most_negative_valuation fuel A = .ok (some v) ∧ v.size = n ∧
      den A (fn v.toList) = true ∧
      (∀ w : List Bool, w.length = n → den A (fn w) = true → count false (fn w) n ≤ count false (fn v.toList) n) ∧
      (∀ w : List Bool, w.length = n → den A (fn w) = true →
        count false (fn w) n = count false (fn v.toList) n → v.toList ≤ w) := by
  obtain ⟨v, hv, hlen, hden, hmax, hle⟩ := most_negative_spec h
  exact ⟨v.toArray, Bdd_most_negative_valuation_some A v hv (Can.pos h) hs fuel hfuel, by simpa using hlen, hden,
    hmax, hle⟩

/-- translated `most_fixed_clause` returns a path with the maximal number of fixed variables among all paths -/
theorem Bdd_most_fixed_clause_spec {A : Arr} {n : Nat} (h : Can A n) (hs : A.size ≤ 4294967296)
    (fuel : Nat) (hfuel : A.size ≤ fuel) :
    ∃ c : Array (Option Bool), Algo2.Bdd_most_fixed_clause fuel A = .ok (some c) ∧ IsPathClause A c.toList ∧
      ∀ c', IsPathClause A c' → numFixed c' ≤ numFixed c.toList := by
  obtain ⟨c, hc, hp, hm⟩ := most_fixed_spec h
  exact ⟨c.toArray, Bdd_most_fixed_clause_some A c hc (Can.pos h) hs fuel hfuel, hp, hm⟩

/-- translated `most_free_clause` returns a path with the minimal number of fixed variables among all paths -/
theorem Bdd_most_free_clause_spec {A : Arr} {n : Nat} (h : Can A n) (hs : A.size ≤ 4294967296)
    (fuel : Nat) (hfuel : A.size ≤ fuel) :
    ∃ c : Array (Option Bool), Algo2.Bdd_most_free_clause fuel A = .ok (some c) ∧ IsPathClause A c.toList ∧
      ∀ c', IsPathClause A c' → numFixed c.toList ≤ numFixed c' := by
  obtain ⟨c, hc, hp, hm⟩ := most_free_spec h
  exact ⟨c.toArray, Bdd_most_free_clause_some A c hc (Can.pos h) hs fuel hfuel, hp, hm⟩

/-- translated `necessary_clause` returns a clause (it does not reach its `unreachable!()`), every literal of which
    is shared by all satisfying valuations -/
theorem Bdd_necessary_clause_sound {A : Arr} {n : Nat} (h : Can A n) (hs : A.size ≤ 4294967296)
    (hn : n ≤ 65536) :
    ∃ c : Array (Option Bool), Algo2.Bdd_necessary_clause A = .ok (some c) ∧
      ∀ k b, getC c.toList k = some b → ∀ w : Nat → Bool, den A w = true → w k = b := by
  obtain ⟨c, hc, hsound⟩ := Props.C11.necessary_clause_sound h
  exact ⟨c.toArray, Bdd_necessary_clause_some A c hc (Can.pos h) hs (by rw [h.numVars]; exact hn), hsound⟩

/-- translated `necessary_clause` is exactly the set of literals shared by all satisfying valuations -/
theorem Bdd_necessary_clause_exact {A : Arr} {n : Nat} (h : Can A n) (hno : NoOrphan A)
    (hs : A.size ≤ 4294967296) (hn : n ≤ 65536) :
    ∃ c : Array (Option Bool), Algo2.Bdd_necessary_clause A = .ok (some c) ∧
      ∀ k b, k < n → (getC c.toList k = some b ↔ ∀ w : Nat → Bool, den A w = true → w k = b) := by
  obtain ⟨c, hc, hex⟩ := Props.C11.necessary_clause_exact h hno
  exact ⟨c.toArray, Bdd_necessary_clause_some A c hc (Can.pos h) hs (by rw [h.numVars]; exact hn), hex⟩

/-- translated `random_valuation` returns a satisfying valuation whatever the generator yields -/
theorem Bdd_random_valuation_spec {A : Arr} {n : Nat} (h : Can A n) (hs : A.size ≤ 4294967296)
    (flips : List Bool) :
    ∃ (v : Array Bool) (rest : List Bool), Algo2.Bdd_random_valuation A flips = .ok (some v, rest) ∧ v.size = n ∧
      den A (fn v.toList) = true := by
  obtain ⟨v, hv, hlen, hden⟩ := random_valuation_sat h flips
  obtain ⟨rest, hr⟩ := Bdd_random_valuation_some A flips v hv (Can.pos h) hs
  exact ⟨v.toArray, rest, hr, by simpa using hlen, hden⟩

/-- translated `random_clause` returns a path of the diagram whatever the generator yields -/
theorem Bdd_random_clause_spec {A : Arr} {n : Nat} (h : Can A n) (hs : A.size ≤ 4294967296)
    (flips : List Bool) (fuel : Nat) (hfuel : A.size ≤ fuel) :
    ∃ (c : Array (Option Bool)) (rest : List Bool) (ds : List (Nat × Bool)),
      Algo2.Bdd_random_clause fuel A flips = .ok (some c, rest) ∧ IsPath A (root A) ds 1 ∧
      ∀ k, getC c.toList k = ds.lookup k := by
  obtain ⟨c, ds, hc, hp, hg⟩ := random_clause_path h flips
  obtain ⟨rest, hr⟩ := Bdd_random_clause_some A flips c hc (Can.pos h) hs fuel hfuel
  exact ⟨c.toArray, rest, ds, hr, hp, hg⟩

/-- all translated selectors return `None` on the contradiction, at every fuel and for every list of flips -/
theorem Bdd_selectors_none_on_false (n fuel : Nat) (fl : List Bool) :
    Algo2.Bdd_first_valuation fuel (mkFalse n) = .ok none ∧ Algo2.Bdd_last_valuation fuel (mkFalse n) = .ok none ∧
    Algo2.Bdd_first_clause fuel (mkFalse n) = .ok none ∧ Algo2.Bdd_last_clause fuel (mkFalse n) = .ok none ∧
    Algo2.Bdd_most_positive_valuation fuel (mkFalse n) = .ok none ∧
    Algo2.Bdd_most_negative_valuation fuel (mkFalse n) = .ok none ∧
    Algo2.Bdd_most_fixed_clause fuel (mkFalse n) = .ok none ∧ Algo2.Bdd_most_free_clause fuel (mkFalse n) = .ok none ∧
    Algo2.Bdd_necessary_clause (mkFalse n) = .ok none ∧
    Algo2.Bdd_random_valuation (mkFalse n) fl = .ok (none, fl) ∧
    Algo2.Bdd_random_clause fuel (mkFalse n) fl = .ok (none, fl) := by
  have h1 : (mkFalse n).size = 1 := rfl
  obtain ⟨a, b, c, d⟩ := Bdd_walks_none _ h1 fuel
  obtain ⟨e, f, g, i⟩ := Bdd_tables_none _ h1 fuel
  obtain ⟨j, k⟩ := Bdd_random_none _ fl h1 fuel
  exact ⟨a, b, c, d, e, f, g, i, Bdd_necessary_clause_none _ h1, j, k⟩

/-! ## the fuel of the replay driver -/

open B.Drive.Algo in
theorem fuel1_ge (A : Arr) : A.size ≤ fuel1 A := by unfold fuel1; omega

open B.Drive.Algo in
/-- the eight fuelled deterministic selectors as the driver calls them (`C11.sel`): translated code = hand model,
    whenever the hand model returns -/
theorem selectors_eq_model_driver (A : Arr) (h0 : 0 < A.size) (hs : A.size ≤ 4294967296) :
    (∀ v, firstValuation A = Sel.some v → Algo2.Bdd_first_valuation (fuel1 A) A = .ok (some v.toArray)) ∧
    (∀ v, lastValuation A = Sel.some v → Algo2.Bdd_last_valuation (fuel1 A) A = .ok (some v.toArray)) ∧
    (∀ v, mostPositiveValuation A = Sel.some v →
      Algo2.Bdd_most_positive_valuation (fuel1 A) A = .ok (some v.toArray)) ∧
    (∀ v, mostNegativeValuation A = Sel.some v →
      Algo2.Bdd_most_negative_valuation (fuel1 A) A = .ok (some v.toArray)) ∧
    (∀ c, firstClause A = Sel.some c → Algo2.Bdd_first_clause (fuel1 A) A = .ok (some c.toArray)) ∧
    (∀ c, lastClause A = Sel.some c → Algo2.Bdd_last_clause (fuel1 A) A = .ok (some c.toArray)) ∧
    (∀ c, mostFixedClause A = Sel.some c → Algo2.Bdd_most_fixed_clause (fuel1 A) A = .ok (some c.toArray)) ∧
    (∀ c, mostFreeClause A = Sel.some c → Algo2.Bdd_most_free_clause (fuel1 A) A = .ok (some c.toArray)) :=
  ⟨fun v h => Bdd_first_valuation_some A v h h0 hs _ (fuel1_ge A),
   fun v h => Bdd_last_valuation_some A v h h0 hs _ (fuel1_ge A),
   fun v h => Bdd_most_positive_valuation_some A v h h0 hs _ (fuel1_ge A),
   fun v h => Bdd_most_negative_valuation_some A v h h0 hs _ (fuel1_ge A),
   fun c h => Bdd_first_clause_some A c h h0 hs _ (fuel1_ge A),
   fun c h => Bdd_last_clause_some A c h h0 hs _ (fuel1_ge A),
   fun c h => Bdd_most_fixed_clause_some A c h h0 hs _ (fuel1_ge A),
   fun c h => Bdd_most_free_clause_some A c h h0 hs _ (fuel1_ge A)⟩

/-! ### padding the flips with `false` (what the driver does) is invisible to the hand models -/

/-- two lists of flips that yield the same coins for ever -/
def EqFl (a b : List Bool) : Prop := ∀ i, a.getD i false = b.getD i false

theorem EqFl.coin {a b : List Bool} (h : EqFl a b) : (coin a).1 = (coin b).1 ∧ EqFl (coin a).2 (coin b).2 := by
  constructor
  · have := h 0
    cases a <;> cases b <;> simp [Select.coin] at this ⊢ <;> exact this
  · intro i
    have := h (i + 1)
    cases a <;> cases b <;> simp [Select.coin] at this ⊢ <;> exact this

theorem EqFl.randChild {a b : List Bool} (h : EqFl a b) (nd : Node) :
    (randChild nd a).1 = (randChild nd b).1 ∧ EqFl (randChild nd a).2 (randChild nd b).2 := by
  unfold Select.randChild
  by_cases hl : nd.low = 0
  · rw [if_pos hl, if_pos hl]; exact ⟨rfl, h⟩
  · by_cases hh : nd.high = 0
    · rw [if_neg hl, if_neg hl, if_pos hh, if_pos hh]; exact ⟨rfl, h⟩
    · rw [if_neg hl, if_neg hl, if_neg hh, if_neg hh]; exact h.coin

theorem randValLoop_eqFl (A : Arr) : ∀ (k i p : Nat) (a b : List Bool), EqFl a b →
    randValLoop A k i p a = randValLoop A k i p b := by
  intro k
  induction k with
  | zero => intro i p a b _; rfl
  | succ k ih =>
    intro i p a b h
    unfold randValLoop
    cases A[p]? with
    | none => rfl
    | some nd =>
      simp only
      by_cases hv : nd.var = i
      · simp only [hv, ne_eq, not_true_eq_false, if_false]
        rw [(h.randChild nd).1, ih _ _ _ _ (h.randChild nd).2]
      · simp only [hv, ne_eq, not_false_eq_true, if_true]
        rw [h.coin.1, ih _ _ _ _ h.coin.2]

theorem randClauseLoop_eqFl (A : Arr) : ∀ (f p : Nat) (a b : List Bool), EqFl a b →
    randClauseLoop A f p a = randClauseLoop A f p b := by
  intro f
  induction f with
  | zero => intro p a b _; rfl
  | succ f ih =>
    intro p a b h
    unfold randClauseLoop
    by_cases hp : p = 1
    · simp [hp]
    · simp only [hp, if_false]
      cases A[p]? with
      | none => rfl
      | some nd =>
        simp only
        rw [(h.randChild nd).1, ih _ _ _ (h.randChild nd).2]

theorem eqFl_pad (fl : List Bool) (k : Nat) : EqFl (fl ++ List.replicate k false) fl := by
  intro i
  by_cases hi : i < fl.length
  · simp [List.getD_eq_getElem?_getD, List.getElem?_append_left hi]
  · have h1 : fl.length ≤ i := by omega
    rw [List.getD_eq_getElem?_getD, List.getD_eq_getElem?_getD, List.getElem?_append_right h1,
      List.getElem?_eq_none h1]
    by_cases h2 : i - fl.length < k
    · simp [h2]
    · simp [h2]

theorem randomValuation_pad (A : Arr) (fl : List Bool) :
    randomValuation A (Drive.Algo2.padFlips fl) = randomValuation A fl := by
  unfold randomValuation Drive.Algo2.padFlips
  rw [randValLoop_eqFl A _ _ _ _ _ (eqFl_pad fl 4096)]

theorem randomClause_pad (A : Arr) (fl : List Bool) :
    randomClause A (Drive.Algo2.padFlips fl) = randomClause A fl := by
  unfold randomClause Drive.Algo2.padFlips
  rw [randClauseLoop_eqFl A _ _ _ _ (eqFl_pad fl 4096)]

open B.Drive.Algo B.Drive.Algo2 in
/-- the two random selectors as the driver calls them (`C11.rand`: flips padded with `false`, first component):
    translated code = hand model ON THE RECORDED FLIPS, whenever the hand model returns -/
theorem random_eq_model_driver (A : Arr) (fl : List Bool) (h0 : 0 < A.size) (hs : A.size ≤ 4294967296) :
    selV ((Algo2.Bdd_random_valuation A (padFlips fl)).map (·.1)) = randomValuation A fl ∧
    (∀ c, randomClause A fl = Sel.some c →
      (Algo2.Bdd_random_clause (fuel1 A) A (padFlips fl)).map (·.1) = .ok (some c.toArray)) := by
  refine ⟨by rw [Bdd_random_valuation_eq_model A _ h0 hs, randomValuation_pad], ?_⟩
  intro c hc
  obtain ⟨rest, hr⟩ := Bdd_random_clause_some A (padFlips fl) c (by rw [randomClause_pad]; exact hc) h0 hs _
    (fuel1_ge A)
  rw [hr]; rfl

/-- `necessary_clause` as the driver calls it: translated code = hand model -/
theorem necessary_clause_eq_model_driver (A : Arr) (h0 : 0 < A.size) (hs : A.size ≤ 4294967296)
    (hv : numVars A ≤ 65536) : selC (Algo2.Bdd_necessary_clause A) = necessaryClause A :=
  Bdd_necessary_clause_eq_model A h0 hs hv

/-! ## non-vacuity -/

-- the hypotheses hold on concrete non-trivial diagrams (`exGap`: `(x0 ∧ x2) ∨ (¬x0 ∧ x3)` over five variables)
example : Can exGap 5 ∧ NoOrphan exGap ∧ exGap.size ≤ 4294967296 ∧ (5 : Nat) ≤ 65536 :=
  ⟨exGap_can, exGap_noOrphan, by decide, by decide⟩

-- … and there the TRANSLATED functions compute (theorem + `decide` on the specification side), at the driver's fuel
example : Algo2.Bdd_first_valuation (Drive.Algo.fuel1 exGap) exGap = .ok (some #[false, false, false, true, false]) :=
  Bdd_first_valuation_some exGap _ (by decide) (by decide) (by decide) _ (fuel1_ge _)
example : Algo2.Bdd_last_valuation (Drive.Algo.fuel1 exGap) exGap = .ok (some #[true, true, true, true, true]) :=
  Bdd_last_valuation_some exGap _ (by decide) (by decide) (by decide) _ (fuel1_ge _)
example : Algo2.Bdd_most_positive_valuation 5 exGap = .ok (some #[true, true, true, true, true]) :=
  Bdd_most_positive_valuation_some exGap _ (by decide) (by decide) (by decide) _ (by decide)
example : Algo2.Bdd_most_negative_valuation 5 exGap = .ok (some #[false, false, false, true, false]) :=
  Bdd_most_negative_valuation_some exGap _ (by decide) (by decide) (by decide) _ (by decide)
example : Algo2.Bdd_first_clause 5 exGap = .ok (some #[some false, none, none, some true]) :=
  Bdd_first_clause_some exGap _ (by decide) (by decide) (by decide) _ (by decide)
example : Algo2.Bdd_most_fixed_clause 5 exGap = .ok (some #[some false, none, none, some true]) :=
  Bdd_most_fixed_clause_some exGap _ (by decide) (by decide) (by decide) _ (by decide)
example : Algo2.Bdd_necessary_clause exGap = .ok (some #[]) :=
  Bdd_necessary_clause_some exGap _ (by decide) (by decide) (by decide) (by decide)
example : Algo2.Bdd_necessary_clause exVal = .ok (some #[some true, some false, some true]) :=
  Bdd_necessary_clause_some exVal _ (by decide) (by decide) (by decide) (by decide)
example : ∃ rest, Algo2.Bdd_random_valuation exGap [true, false, true] =
    .ok (some #[true, false, true, true, false], rest) :=
  Bdd_random_valuation_some exGap _ _ (by decide) (by decide) (by decide)

-- direct runs of the GENERATED code by kernel reduction (`decide +kernel`; no hash maps in these functions)
theorem run_first_valuation :
    selV (Algo2.Bdd_first_valuation 5 exGap) = Sel.some [false, false, false, true, false] := by decide +kernel
theorem run_most_free_clause :
    selC (Algo2.Bdd_most_free_clause 5 exGap) = Sel.some [some false, none, none, some true] := by decide +kernel
theorem run_necessary_clause :
    selC (Algo2.Bdd_necessary_clause exVal) = Sel.some [some true, some false, some true] := by decide +kernel
theorem run_random_clause :
    selC ((Algo2.Bdd_random_clause 5 exGap [true]).map (·.1)) = Sel.some [some true, none, some true] := by
  decide +kernel
-- too little fuel: the translated code reports it (the hand model, with its fuel `len`, is not affected)
theorem run_fuel : selV (Algo2.Bdd_first_valuation 1 exGap) = Sel.panic := by decide +kernel

end B.AlgoEq2Sel
