import BddVerif.Model.Valuation
import BddVerif.Core.Canon
/-!
`Bdd::from(BddValuation)`: the chain built by the loop is a reduced post-order array whose root
denotes "the valuation agrees with `v` on every variable".
-/
namespace B.Val.TotalVal
open B

/-- invariant of the loop when the variables `k … n-1` have been pushed -/
structure ChainInv (v : TotalVal) (n k : Nat) (A : Arr) : Prop where
  red : Red A n
  pre : Prefix (mkTrue n) A
  size : A.size + k = n + 2
  vars : ∀ p nd, 2 ≤ p → A[p]? = some nd → k ≤ nd.var
  sem : ∀ w : Nat → Bool, ev A w (root A) = true ↔ ∀ i, k ≤ i → i < n → w i = v.getD i false

theorem chainInv_init (v : TotalVal) (n : Nat) : ChainInv v n n (mkTrue n) := by
  refine ⟨red_mkTrue n, Prefix.refl _, by rw [mkTrue_size]; omega, ?_, ?_⟩
  · intro p nd hp hnd
    have : (mkTrue n)[p]? = none := Array.getElem?_eq_none (by rw [mkTrue_size]; omega)
    rw [this] at hnd; cases hnd
  · intro w
    have : root (mkTrue n) = 1 := rfl
    rw [this, ev_one]
    exact ⟨fun _ i h1 h2 => by omega, fun _ => rfl⟩

theorem varOf_root_ge {v : TotalVal} {n k : Nat} {A : Arr} (h : ChainInv v n (k + 1) A) :
    k + 1 ≤ varOf A n (root A) := by
  have hs2 := h.red.size2
  unfold varOf
  split
  · have := h.size; omega
  · split
    · rename_i nd hnd; exact h.vars (root A) nd (by omega) hnd
    · have := h.size; omega

theorem chainInv_step {v : TotalVal} {n k : Nat} {A : Arr} (hk : k < n) (h : ChainInv v n (k + 1) A) :
    ChainInv v n k (A.push (valNode v k (root A))) := by
  have hs := h.size
  have hs2 := h.red.size2
  have hroot : root A < A.size := by unfold root; omega
  have hroot1 : 1 ≤ root A := by unfold root; omega
  have hvr := varOf_root_ge h
  have hv0 : varOf A n 0 = n := by simp [varOf]
  -- the pushed node
  have hnd : ∃ nd, nd = valNode v k (root A) ∧ nd.var = k ∧
      ((v.getD k false = true ∧ nd.low = 0 ∧ nd.high = root A) ∨
       (v.getD k false = false ∧ nd.low = root A ∧ nd.high = 0)) := by
    refine ⟨_, rfl, ?_, ?_⟩
    · unfold valNode; split <;> rfl
    · unfold valNode
      cases hvk : v.getD k false
      · right; simp
      · left; simp
  obtain ⟨nd, hnd_eq, hvar, hlinks⟩ := hnd
  rw [← hnd_eq]
  have hlow : nd.low < A.size := by rcases hlinks with ⟨_, e, _⟩ | ⟨_, e, _⟩ <;> rw [e] <;> omega
  have hhigh : nd.high < A.size := by rcases hlinks with ⟨_, _, e⟩ | ⟨_, _, e⟩ <;> rw [e] <;> omega
  have hne : nd.low ≠ nd.high := by rcases hlinks with ⟨_, e1, e2⟩ | ⟨_, e1, e2⟩ <;> rw [e1, e2] <;> omega
  have hvl : nd.var < varOf A n nd.low := by
    rcases hlinks with ⟨_, e, _⟩ | ⟨_, e, _⟩ <;> rw [e, hvar] <;> omega
  have hvh : nd.var < varOf A n nd.high := by
    rcases hlinks with ⟨_, _, e⟩ | ⟨_, _, e⟩ <;> rw [e, hvar] <;> omega
  have hfresh : findNode A nd = none := by
    cases hf : findNode A nd with
    | none => rfl
    | some i =>
      obtain ⟨hi2, hi⟩ := findNode_some hf
      have := h.vars i nd hi2 hi
      omega
  have hred' : Red (A.push nd) n := Red.push h.red nd (by omega) hlow hhigh hne hvl hvh hfresh
  have hpre' : Prefix A (A.push nd) := Prefix.push A nd
  refine ⟨hred', Prefix.trans h.pre hpre', by simp; omega, ?_, ?_⟩
  · intro p nd' hp hnd'
    rw [Array.getElem?_push] at hnd'
    split at hnd'
    · cases hnd'; omega
    · have := h.vars p nd' hp hnd'; omega
  · intro w
    have hr : root (A.push nd) = A.size := by simp [root]
    rw [hr]
    have hget : (A.push nd)[A.size]? = some nd := by simp
    rw [ev_node hred' w A.size (by omega) nd hget, hvar]
    have hev : ev (A.push nd) w (root A) = ev A w (root A) := ev_prefix h.red hred' hpre' w _ hroot
    have hev0 : ev (A.push nd) w 0 = false := ev_zero _ _
    have hsem := h.sem w
    rcases hlinks with ⟨hvk, e1, e2⟩ | ⟨hvk, e1, e2⟩
    · rw [e1, e2, hev0, hev]
      constructor
      · intro hh
        by_cases hwk : w k = true
        · rw [if_pos hwk] at hh
          intro i h1 h2
          by_cases hik : i = k
          · subst hik; rw [hwk, hvk]
          · exact hsem.1 hh i (by omega) h2
        · rw [if_neg hwk] at hh; cases hh
      · intro hall
        have hwk : w k = true := by rw [hall k (Nat.le_refl _) hk, hvk]
        rw [if_pos hwk]
        exact hsem.2 (fun i h1 h2 => hall i (by omega) h2)
    · rw [e1, e2, hev0, hev]
      constructor
      · intro hh
        by_cases hwk : w k = true
        · rw [if_pos hwk] at hh; cases hh
        · rw [if_neg hwk] at hh
          intro i h1 h2
          by_cases hik : i = k
          · subst hik; rw [hvk]; simpa using hwk
          · exact hsem.1 hh i (by omega) h2
      · intro hall
        have hwk : ¬ w k = true := by rw [hall k (Nat.le_refl _) hk, hvk]; simp
        rw [if_neg hwk]
        exact hsem.2 (fun i h1 h2 => hall i (by omega) h2)

theorem chainInv_pushDown (v : TotalVal) (n : Nat) : ∀ k A, k ≤ n → ChainInv v n k A →
    ChainInv v n 0 (pushDown v k A) := by
  intro k
  induction k with
  | zero => intro A _ h; exact h
  | succ k ih =>
    intro A hk h
    show ChainInv v n 0 (pushDown v k (A.push (valNode v k (root A))))
    exact ih _ (by omega) (chainInv_step (by omega) h)

/-- the array built by `Bdd::from(valuation)` -/
theorem chainInv_toBdd (v : TotalVal) : ChainInv v (numVars v) 0 (toBdd v) :=
  chainInv_pushDown v (numVars v) (numVars v) _ (Nat.le_refl _) (chainInv_init v (numVars v))

end B.Val.TotalVal
