import BddVerif.Core.ApplyCanon
import BddVerif.Model.NormalForm
/-!
Lemmas for C10, part 1 (own copies of the bridge between the two denotations, so that the C10 proofs depend
on the frozen core only): `Sem n A f` — "`A` is the canonical array of the Boolean function `f` of the first
`n` variables" — is closed under `apply_with_flip` with consistent tables (one input flip allowed, for the
one-variable quantifiers), and the semantics of raw partial valuations (`PVal`).
-/
namespace B.NF
open B

/-- `f` only looks at the first `n` variables -/
def Dep (n : Nat) (f : (Nat → Bool) → Bool) : Prop :=
  ∀ v w : Nat → Bool, (∀ i, i < n → v i = w i) → f v = f w

/-- a reduced array with exact terminals is well-formed as an operand -/
theorem wfo_of_red {A : Arr} {n : Nat} (h : Red A n) (h0 : A[0]? = some ⟨n, 0, 0⟩) (h1 : A[1]? = some ⟨n, 1, 1⟩) :
    WFo A n := by
  refine ⟨h0, fun _ => h1, ?_⟩
  intro p nd hp hnd
  have hps : p < A.size := by
    rcases Nat.lt_or_ge p A.size with h' | h'
    · exact h'
    · simp [Array.getElem?_eq_none h'] at hnd
  obtain ⟨a, b, c, _, d, e⟩ := h.inner p nd hp hnd
  exact ⟨a, by omega, by omega, d, e⟩

/-- on such an array the two evaluators agree -/
theorem evW_eq_ev {A : Arr} {n : Nat} (h : Red A n) (hw : WFo A n) (v : Nat → Bool) (p : Nat) (hp : p < A.size) :
    evW A n v p = ev A v p := by
  unfold evW ev
  have hv := hw.varOf_le p
  rw [← evalF_fuel h v p (p + n + 1) hp (by omega)]
  exact evalF_level hw v _ _ _ hp (by omega) (by omega)

theorem wfo_mkFalse (n : Nat) : WFo (mkFalse n) n := by
  refine ⟨rfl, ?_, ?_⟩
  · intro h; simp [mkFalse] at h
  · intro p nd hp hnd
    have : (mkFalse n)[p]? = none := Array.getElem?_eq_none (by simp [mkFalse]; omega)
    rw [this] at hnd; cases hnd

/-- an array that extends `mkTrue n` and is reduced is a well-formed operand -/
theorem wfo_of_prefix {A : Arr} {n : Nat} (h : Red A n) (hp : Prefix (mkTrue n) A) : WFo A n :=
  wfo_of_red h (by rw [hp.2 0 (by simp [mkTrue])]; rfl) (by rw [hp.2 1 (by simp [mkTrue])]; rfl)

theorem canon_wfo (n : Nat) (f : (Nat → Bool) → Bool) (hdep : Dep n f) : WFo (canon n f) n := by
  have hdep' : ∀ v w : Nat → Bool, (∀ i, 0 ≤ i → i < n → v i = w i) → f v = f w :=
    fun v w h => hdep v w (fun i hi => h i (Nat.zero_le _) hi)
  rcases canon_spec n f hdep with ⟨e, _⟩ | ⟨hred, heq, _, _⟩
  · rw [e]; exact wfo_mkFalse n
  · obtain ⟨_, hpre, _, _, _⟩ := ins_spec n 0 f (mkTrue n) (red_mkTrue n) (by omega) hdep'
    rw [heq] at hred ⊢
    exact wfo_of_prefix hred hpre

theorem root_mkFalse (n : Nat) : root (mkFalse n) = 0 := rfl

theorem canon_evW (n : Nat) (f : (Nat → Bool) → Bool) (hdep : Dep n f) (v : Nat → Bool) :
    evW (canon n f) n v (root (canon n f)) = f v := by
  rcases canon_spec n f hdep with ⟨e, hf⟩ | ⟨hred, _, _, hev⟩
  · rw [e, root_mkFalse, evW_zero, hf]
  · have hw := canon_wfo n f hdep
    rw [evW_eq_ev hred hw v _ (root_lt hw)]
    exact hev v

/-- `A` is the canonical array of the Boolean function `f` of the first `n` variables -/
structure Sem (n : Nat) (A : Arr) (f : (Nat → Bool) → Bool) : Prop where
  eq : A = canon n f
  dep : Dep n f

theorem Sem.wfo {n A f} (h : Sem n A f) : WFo A n := by rw [h.eq]; exact canon_wfo n f h.dep
theorem Sem.evW {n A f} (h : Sem n A f) (v : Nat → Bool) : B.evW A n v (root A) = f v := by
  rw [h.eq]; exact canon_evW n f h.dep v
theorem Sem.den {n A f} (h : Sem n A f) (v : Nat → Bool) : den A v = f v := by
  rw [h.eq]; exact den_canon n f h.dep v
theorem Sem.numVars {n A f} (h : Sem n A f) : numVars A = n := numVars_of_wf h.wfo
theorem Sem.congr {n A f g} (h : Sem n A f) (hfg : ∀ v, f v = g v) : Sem n A g := by
  have : f = g := funext hfg
  rw [← this]; exact h
/-- the canonical array is unique -/
theorem Sem.unique {n A B f g} (h : Sem n A f) (h' : Sem n B g) (hfg : ∀ v, f v = g v) : A = B := by
  rw [h.eq, h'.eq]; exact canon_congr hfg

/-- the shape of a canonical array: the one-node `false`, or a reduced array extending the two terminals -/
theorem Sem.cases {n A f} (h : Sem n A f) :
    (A = mkFalse n ∧ ∀ v, f v = false) ∨ (Red A n ∧ Prefix (mkTrue n) A ∧ ∀ v, ev A v (root A) = f v) := by
  have hdep' : ∀ v w : Nat → Bool, (∀ i, 0 ≤ i → i < n → v i = w i) → f v = f w :=
    fun v w hh => h.dep v w (fun i hi => hh i (Nat.zero_le _) hi)
  rcases canon_spec n f h.dep with ⟨e, hf⟩ | ⟨hred, heq, _, hev⟩
  · left; exact ⟨h.eq.trans e, hf⟩
  · right
    obtain ⟨_, hpre, _, _, _⟩ := ins_spec n 0 f (mkTrue n) (red_mkTrue n) (by omega) hdep'
    rw [← heq, ← h.eq] at hpre
    rw [← h.eq] at hred hev
    exact ⟨hred, hpre, hev⟩

theorem dep_inv {n : Nat} {f : (Nat → Bool) → Bool} (h : Dep n f) (fo : Option Nat) :
    Dep n (fun v => f (inv fo v)) :=
  fun v w hvw => h _ _ (fun i hi => inv_agree fo v w i (hvw i hi))

/-- `apply_with_flip` with an optional flip of the right operand on two canonical arrays -/
theorem Sem.apply {n A B f g} (hA : Sem n A f) (hB : Sem n B g) (op : Op2) (c : Bool → Bool → Bool)
    (hc : Consistent op c) (fr : Option Nat) (hfr : ∀ x, fr = some x → x < n) :
    Sem n (applyWithFlip A B op none fr none) (fun v => c (f v) (g (inv fr v))) := by
  refine ⟨?_, ?_⟩
  · rw [applyWithFlip_eq_canon A B n op c none fr none hA.wfo hB.wfo hA.numVars hc (by simp) hfr (by simp)]
    apply canon_congr
    intro v
    simp only [inv]
    rw [hA.evW, hB.evW]
  · intro v w hvw
    have e1 := hA.dep v w hvw
    have e2 := dep_inv hB.dep fr v w hvw
    simp only at e2
    show c (f v) (g (inv fr v)) = c (f w) (g (inv fr w))
    rw [e1, e2]

theorem or_consistent : Consistent Gen.or_ (fun a b => a || b) := by constructor <;> decide
theorem and_consistent : Consistent Gen.and_ (fun a b => a && b) := by constructor <;> decide
theorem and_not_consistent : Consistent Gen.and_not_ (fun a b => a && !b) := by constructor <;> decide

theorem Sem.or {n A B f g} (hA : Sem n A f) (hB : Sem n B g) : Sem n (bddOr A B) (fun v => f v || g v) :=
  Sem.apply hA hB Gen.or_ _ or_consistent none (by simp)
theorem Sem.and {n A B f g} (hA : Sem n A f) (hB : Sem n B g) : Sem n (bddAnd A B) (fun v => f v && g v) :=
  Sem.apply hA hB Gen.and_ _ and_consistent none (by simp)
theorem Sem.andNot {n A B f g} (hA : Sem n A f) (hB : Sem n B g) :
    Sem n (bddAndNot A B) (fun v => f v && !g v) :=
  Sem.apply hA hB Gen.and_not_ _ and_not_consistent none (by simp)

theorem sem_mkFalse (n : Nat) : Sem n (mkFalse n) (fun _ => false) := by
  refine ⟨?_, fun _ _ _ => rfl⟩
  unfold canon
  rw [ins_false (red_mkTrue n) n 0 _ (by omega) (fun _ => rfl)]
  rfl

theorem sem_mkTrue (n : Nat) : Sem n (mkTrue n) (fun _ => true) := by
  refine ⟨?_, fun _ _ _ => rfl⟩
  unfold canon
  rw [ins_found (red_mkTrue n) n 0 _ 1 (by omega) (by simp [mkTrue]) (by simp [varOf])
    (fun v => by rw [ev_one])]
  rfl

/-! ### raw partial valuations -/

theorem get_nil (x : Nat) : PVal.get [] x = none := by simp [PVal.get]

/-- reading after a write -/
theorem get_set (pv : PVal) (x : Nat) (b : Bool) (y : Nat) :
    (pv.set x b).get y = if y = x then some b else pv.get y := by
  unfold PVal.get PVal.set
  rw [List.getElem?_set]
  by_cases hyx : y = x
  · subst hyx
    have : y < pv.length + (y + 1 - pv.length) := by omega
    simp [this]
  · have hxy : ¬ x = y := fun e => hyx e.symm
    simp only [hxy, hyx, if_false]
    rcases Nat.lt_or_ge y pv.length with hlt | hge
    · rw [List.getElem?_append_left hlt]
    · rw [List.getElem?_append_right hge, List.getElem?_eq_none hge]
      rw [List.getElem?_replicate]
      split <;> rfl

/-- reading after `unset_value` -/
theorem get_unset (pv : PVal) (x : Nat) (y : Nat) :
    (pvUnset pv x).get y = if y = x then none else pv.get y := by
  unfold PVal.get pvUnset
  rw [List.getElem?_set]
  by_cases hyx : y = x
  · subst hyx
    have : y < pv.length + (y + 1 - pv.length) := by omega
    simp [this]
  · have hxy : ¬ x = y := fun e => hyx e.symm
    simp only [hxy, hyx, if_false]
    rcases Nat.lt_or_ge y pv.length with hlt | hge
    · rw [List.getElem?_append_left hlt]
    · rw [List.getElem?_append_right hge, List.getElem?_eq_none hge]
      rw [List.getElem?_replicate]
      split <;> rfl

theorem mem_toValuesFrom (pv : PVal) : ∀ i x b,
    (x, b) ∈ PVal.toValuesFrom i pv ↔ i ≤ x ∧ pv[x - i]? = some (some b) := by
  induction pv with
  | nil => intro i x b; simp [PVal.toValuesFrom]
  | cons o t ih =>
    intro i x b
    have shift : i + 1 ≤ x → (o :: t)[x - i]? = t[x - (i + 1)]? := by
      intro h
      have : x - i = (x - (i + 1)) + 1 := by omega
      rw [this, List.getElem?_cons_succ]
    cases o with
    | none =>
      simp only [PVal.toValuesFrom]
      rw [ih]
      constructor
      · intro ⟨h1, h2⟩; exact ⟨by omega, by rw [shift h1]; exact h2⟩
      · intro ⟨h1, h2⟩
        by_cases hx : x = i
        · subst hx; simp at h2
        · have : i + 1 ≤ x := by omega
          exact ⟨this, by rw [← shift this]; exact h2⟩
    | some c =>
      simp only [PVal.toValuesFrom, List.mem_cons, Prod.mk.injEq]
      rw [ih]
      constructor
      · rintro (⟨rfl, rfl⟩ | ⟨h1, h2⟩)
        · simp
        · exact ⟨by omega, by rw [shift h1]; exact h2⟩
      · intro ⟨h1, h2⟩
        by_cases hx : x = i
        · subst hx; simp at h2; left; exact ⟨rfl, h2.symm⟩
        · have : i + 1 ≤ x := by omega
          right; exact ⟨this, by rw [← shift this]; exact h2⟩

theorem mem_toValues (pv : PVal) (x : Nat) (b : Bool) : (x, b) ∈ pv.toValues ↔ pv.get x = some b := by
  unfold PVal.toValues PVal.get
  rw [mem_toValuesFrom]
  simp only [Nat.zero_le, true_and, Nat.sub_zero]
  cases h : pv[x]? with
  | none => simp
  | some o => simp

/-- the conjunctive reading of a clause: every fixed variable has its value -/
def conjFn (c : PVal) (v : Nat → Bool) : Bool := c.toValues.all fun l => v l.1 == l.2
/-- the disjunctive reading: some fixed variable has its value -/
def disjFn (c : PVal) (v : Nat → Bool) : Bool := c.toValues.any fun l => v l.1 == l.2
/-- a list of conjunctive clauses -/
def dnfFn (cs : List PVal) (v : Nat → Bool) : Bool := cs.any fun c => conjFn c v
/-- a list of disjunctive clauses -/
def cnfFn (cs : List PVal) (v : Nat → Bool) : Bool := cs.all fun c => disjFn c v

/-- the clause only fixes variables below `n` (what `mk_conjunctive_clause` asserts) -/
def InRange (n : Nat) (c : PVal) : Prop := ∀ x b, c.get x = some b → x < n

theorem conjFn_iff (c : PVal) (v : Nat → Bool) : conjFn c v = true ↔ ∀ x b, c.get x = some b → v x = b := by
  unfold conjFn
  rw [List.all_eq_true]
  constructor
  · intro h x b hg
    have := h (x, b) ((mem_toValues c x b).2 hg)
    simpa using this
  · intro h l hl
    obtain ⟨x, b⟩ := l
    have := h x b ((mem_toValues c x b).1 hl)
    simp [this]

theorem disjFn_iff (c : PVal) (v : Nat → Bool) : disjFn c v = true ↔ ∃ x b, c.get x = some b ∧ v x = b := by
  unfold disjFn
  rw [List.any_eq_true]
  constructor
  · rintro ⟨⟨x, b⟩, hl, hv⟩
    exact ⟨x, b, (mem_toValues c x b).1 hl, by simpa using hv⟩
  · rintro ⟨x, b, hg, hv⟩
    exact ⟨(x, b), (mem_toValues c x b).2 hg, by simp [hv]⟩

/-- the readings only depend on what `get_value` returns -/
theorem conjFn_congr {c d : PVal} (h : ∀ i, c.get i = d.get i) (v : Nat → Bool) : conjFn c v = conjFn d v := by
  rw [Bool.eq_iff_iff, conjFn_iff, conjFn_iff]
  constructor
  · intro hh x b hg; exact hh x b (by rw [h]; exact hg)
  · intro hh x b hg; exact hh x b (by rw [← h]; exact hg)

theorem disjFn_congr {c d : PVal} (h : ∀ i, c.get i = d.get i) (v : Nat → Bool) : disjFn c v = disjFn d v := by
  rw [Bool.eq_iff_iff, disjFn_iff, disjFn_iff]
  constructor
  · rintro ⟨x, b, hg, hv⟩; exact ⟨x, b, by rw [← h]; exact hg, hv⟩
  · rintro ⟨x, b, hg, hv⟩; exact ⟨x, b, by rw [h]; exact hg, hv⟩

theorem conjFn_nil (v : Nat → Bool) : conjFn [] v = true := rfl
theorem disjFn_nil (v : Nat → Bool) : disjFn [] v = false := rfl

/-- fixing a variable that was free adds one literal to the conjunction -/
theorem conjFn_set (c : PVal) (x : Nat) (b : Bool) (v : Nat → Bool) (hfree : c.get x = none) :
    conjFn (c.set x b) v = (conjFn c v && (v x == b)) := by
  rw [Bool.eq_iff_iff, Bool.and_eq_true, conjFn_iff, conjFn_iff]
  constructor
  · intro h
    refine ⟨?_, ?_⟩
    · intro y d hg
      have hy : y ≠ x := by intro e; subst e; rw [hfree] at hg; cases hg
      exact h y d (by rw [get_set, if_neg hy]; exact hg)
    · have := h x b (by rw [get_set, if_pos rfl]); simp [this]
  · intro ⟨h1, h2⟩ y d hg
    rw [get_set] at hg
    split at hg
    · rename_i hy; subst hy; cases hg; simpa using h2
    · exact h1 y d hg

/-- … and one literal to the disjunction -/
theorem disjFn_set (c : PVal) (x : Nat) (b : Bool) (v : Nat → Bool) (hfree : c.get x = none) :
    disjFn (c.set x b) v = (disjFn c v || (v x == b)) := by
  rw [Bool.eq_iff_iff, Bool.or_eq_true, disjFn_iff, disjFn_iff]
  constructor
  · rintro ⟨y, d, hg, hv⟩
    rw [get_set] at hg
    split at hg
    · rename_i hy; subst hy; cases hg; right; simp [hv]
    · left; exact ⟨y, d, hg, hv⟩
  · rintro (⟨y, d, hg, hv⟩ | h2)
    · have hy : y ≠ x := by intro e; subst e; rw [hfree] at hg; cases hg
      exact ⟨y, d, by rw [get_set, if_neg hy]; exact hg, hv⟩
    · exact ⟨x, b, by rw [get_set, if_pos rfl], by simpa using h2⟩

theorem conjFn_dep {n : Nat} {c : PVal} (h : InRange n c) : Dep n (conjFn c) := by
  have key : ∀ v w : Nat → Bool, (∀ i, i < n → v i = w i) → conjFn c v = true → conjFn c w = true := by
    intro v w hvw hc
    rw [conjFn_iff] at hc ⊢
    intro x b hg
    rw [← hvw x (h x b hg)]; exact hc x b hg
  intro v w hvw
  rw [Bool.eq_iff_iff]
  exact ⟨key v w hvw, key w v (fun i hi => (hvw i hi).symm)⟩

theorem disjFn_dep {n : Nat} {c : PVal} (h : InRange n c) : Dep n (disjFn c) := by
  have key : ∀ v w : Nat → Bool, (∀ i, i < n → v i = w i) → disjFn c v = true → disjFn c w = true := by
    intro v w hvw hc
    rw [disjFn_iff] at hc ⊢
    obtain ⟨x, b, hg, hv⟩ := hc
    exact ⟨x, b, hg, by rw [← hvw x (h x b hg)]; exact hv⟩
  intro v w hvw
  rw [Bool.eq_iff_iff]
  exact ⟨key v w hvw, key w v (fun i hi => (hvw i hi).symm)⟩

end B.NF
