import BddVerif.Lemmas.AlgoEq4OwnedDriver
import BddVerif.Lemmas.AlgoEq4Display
import BddVerif.Lemmas.AlgoEq4MiscDriver
import BddVerif.Lemmas.AlgoEq4Names
import BddVerif.Lemmas.AlgoEq4Support
/-! Axiom audit of the theorems about the fourth generated file (`Gen/Algo4.lean`): owned iterator twins = borrowed translated
    iterators = hand model, `Display` impls, `to_nodes`, `BddValuationIterator`, `op_function`, `IntoBdd`/`From`/`Default` impls,
    `variable_name_assignment`, `BooleanExpression::support_set`. -/
open B.AlgoEq4


-- Owned
#print axioms OwnedBddPathIterator_next_eq_borrowed
#print axioms OwnedBddPathIterator_new_eq_borrowed
#print axioms OwnedBddPathIterator_from_eq_new
#print axioms OwnedBddPathIterator_from_eq_borrowed
#print axioms Bdd_into_sat_clauses_eq_new
#print axioms Bdd_into_sat_clauses_eq_borrowed
#print axioms bdd_path_iterator__Bdd_from_eq
#print axioms OwnedBddSatisfyingValuations_next_eq_borrowed
#print axioms Bdd_into_sat_valuations_eq_borrowed
#print axioms empty_both_panic
#print axioms OwnedBddSatisfyingValuations_from_eq
#print axioms bdd_satisfying_valuations__Bdd_from_eq
#print axioms bdd_satisfying_valuations__Bdd_from_zero
#print axioms loopI_inv
#print axioms nxStep_bdd
#print axioms OwnedBddPathIterator_next_bdd
#print axioms OwnedBddPathIterator_new_bdd
#print axioms OwnedBddSatisfyingValuations_next_bdd
#print axioms Bdd_into_sat_valuations_bdd
#print axioms takeK_inv
#print axioms owned_returns_bdd_translated

-- OwnedChain
#print axioms ownSatOf_eq_ownSt
#print axioms from_ownPathOf
#print axioms from_ownSatOf
#print axioms owned_path_new_eq_model
#print axioms owned_path_next_eq_model
#print axioms owned_sat_next_eq_model
#print axioms ownedSatInit_of_satInit
#print axioms ownedSatNext_of_satNext
#print axioms owned_sat_next_step
#print axioms owned_sat_init
#print axioms owned_sat_iter_translated
#print axioms owned_path_iter_translated
#print axioms takeK_eq_model
#print axioms takeK_of_collect
#print axioms owned_sat_take_translated
#print axioms owned_path_take_translated
#print axioms owned_iter_translated_false

-- OwnedDriver
#print axioms takeLoop_eq
#print axioms takePost_true_fst
#print axioms map_id'
#print axioms takeVals_some
#print axioms takePaths_some
#print axioms takeVals_none
#print axioms takePaths_none
#print axioms owned_vals_driver
#print axioms owned_paths_driver
#print axioms owned_vals_back_driver
#print axioms owned_paths_back_driver
#print axioms owned_back_driver_any

-- Display
#print axioms BddPointer_fmt_eq
#print axioms BddVariable_fmt_eq
#print axioms joinLoop_eq
#print axioms bit_toString
#print axioms joinTail_bits
#print axioms BddValuation_fmt_eq
#print axioms joinTail_append
#print axioms joinTail_intercalate
#print axioms BddVariableSet_fmt_eq

-- Misc
#print axioms Bdd_to_nodes_eq_model
#print axioms from_nodes_to_nodes_translated
#print axioms nodes_op_driver
#print axioms BddValuation_vector_eq
#print axioms BddValuation_index_eq
#print axioms BddPartialValuation_index_eq
#print axioms BddPartialValuation_index_eq_get_value
#print axioms BddPartialValuation_default_eq
#print axioms new_unconstrained_eq_model
#print axioms BddValuationIterator_new_eq
#print axioms BddValuationIterator_next_eq
#print axioms BddValuationIterator_translated_eq
#print axioms op_function__and_eq
#print axioms op_function__or_eq
#print axioms op_function__imp_eq
#print axioms op_function__iff_eq
#print axioms op_function__xor_eq
#print axioms op_function__and_not_eq
#print axioms connectives_via_op_function
#print axioms BddVariable_into_bdd_eq
#print axioms Bdd_into_bdd_eq
#print axioms macro_bdd__Bdd_into_bdd_eq
#print axioms str_into_bdd_eq
#print axioms str_into_bdd_rel
#print axioms BddVariableSetBuilder_default_eq

-- MiscDriver
#print axioms genValIter_eq_collect
#print axioms BddValuationIterator_driver

-- Names
#print axioms allNames_oneCalls
#print axioms from_iter_loop
#print axioms BddVariableSet_from_iter_eq_protocol
#print axioms BddVariableSet_from_iter_eq_new
#print axioms BddVariableSet_from_iter_ok
#print axioms BddVariableSet_from_iter_panic_iff
#print axioms from_iter_boundary
#print axioms BddVariableSet_from_eq
#print axioms bdd_variable_set__BddVariableSet_from_eq
#print axioms foldl_zip_range'
#print axioms variable_name_assignment_getElem?

-- Support
#print axioms insertAll_append
#print axioms mem_insertAll
#print axioms gnames_var
#print axioms gnames_not
#print axioms gnames_const
#print axioms gnames_and
#print axioms gnames_or
#print axioms gnames_xor
#print axioms gnames_imp
#print axioms gnames_iff
#print axioms gnames_cond
#print axioms support_set_rec_eq
#print axioms support_set_rec_fuel_panic
#print axioms BooleanExpression_support_set_eq
#print axioms BooleanExpression_support_set_fuel_panic
#print axioms BooleanExpression_support_set_mem
#print axioms BooleanExpression_support_set_ofE
