import BddVerif.Lemmas.AlgoEq2RelPick
/-!
Equivalence "translated Rust = hand-written model", second generated file (`Gen/Algo2.lean`), part 4:
the recursive `r_pick` of `Bdd::pick` and of `Bdd::pick_random`, and the two public methods
(src/_impl_bdd/_impl_relation_ops.rs:111-137) versus `B.pick`, `B.pickRandom`, `B.pickO`, `B.pickRandomO`.

See the header of Lemmas/AlgoEq2RelPick.lean for the fuel plumbing and for `PickBound S A coins` (all arrays of the hand
model's run have at most `S` nodes). Bounds: `3 ≤ S`, `S² + 2 ≤ 2^32`, `3·S² + #distinct variables + 1 ≤ fuel`.
-/
namespace B.AlgoEq2Rel
open B B.Gen Std
attribute [local instance 10000] Rust.monadOutcomeInline

/-! ### `r_pick` of `pick` -/

/-- the translated `r_pick` on the slice whose elements are `l` LAST FIRST, against `rPickG` with all coins `false` -/
theorem r_pick_eq_G (n S : Nat) (hS3 : 3 ≤ S) (hS : S * S + 2 ≤ 2 ^ 32) :
    ∀ (l : List Nat) (A : Arr) (fuel : Nat), WFo A n → (∀ x ∈ l, x < n) →
      PickBound S A (l.map fun x => (x, false)) → 3 * (S * S) + l.length + 1 ≤ fuel →
      Algo2.Bdd_pick__r_pick fuel A l.reverse.toArray = .ok (Rel.rPickG A (l.map fun x => (x, false))) := by
  intro l
  induction l with
  | nil =>
    intro A fuel _ _ _ hf
    obtain ⟨f, rfl⟩ : ∃ f, fuel = f + 1 := ⟨fuel - 1, by omega⟩
    rw [Algo2.Bdd_pick__r_pick]
    rfl
  | cons x rest ih =>
    intro A fuel hA hl hb hf
    simp only [List.length_cons] at hf
    obtain ⟨f, rfl⟩ : ∃ f, fuel = f + 1 := ⟨fuel - 1, by omega⟩
    have hx : x < n := hl x List.mem_cons_self
    have hrest : ∀ p ∈ rest.map (fun x => (x, false)), p.1 < n := by
      intro p hp
      rw [List.mem_map] at hp
      obtain ⟨y, hy, rfl⟩ := hp
      exact hl y (List.mem_cons_of_mem _ hy)
    obtain ⟨e1, hE, e3, _, e5⟩ := level_ops A n x false (rest.map fun x => (x, false)) S hS3 hS hA hx hrest hb f (by omega)
    have eih := ih (Rel.varExists A x) f hE (fun y hy => hl y (List.mem_cons_of_mem _ hy)) hb.2.2.2.2 (by omega)
    rw [Algo2.Bdd_pick__r_pick]
    simp only [List.reverse_cons, splitLast_snoc]
    rw [e1]
    simp only [AlgoEqA.bind_ok]
    rw [eih]
    simp only [AlgoEqA.bind_ok]
    rw [e3 rfl]
    simp only [AlgoEqA.bind_ok]
    rw [e5]
    rfl

/-- **`r_pick` of `pick` as translated = `B.rPick`** -/
theorem r_pick_eq_model (n S : Nat) (hS3 : 3 ≤ S) (hS : S * S + 2 ≤ 2 ^ 32) (l : List Nat) (A : Arr) (fuel : Nat)
    (hA : WFo A n) (hl : ∀ x ∈ l, x < n) (hb : PickBound S A (l.map fun x => (x, false)))
    (hfuel : 3 * (S * S) + l.length + 1 ≤ fuel) :
    Algo2.Bdd_pick__r_pick fuel A l.reverse.toArray = .ok (rPick A l) := by
  rw [r_pick_eq_G n S hS3 hS l A fuel hA hl hb hfuel, Rel.rPick_eq]

/-! ### `r_pick` of `pick_random` -/

theorem r_pick_random_eq_G (n S : Nat) (hS3 : 3 ≤ S) (hS : S * S + 2 ≤ 2 ^ 32) :
    ∀ (l : List Nat) (A : Arr) (fuel : Nat) (flips : List Bool), WFo A n → (∀ x ∈ l, x < n) →
      PickBound S A (Rel.assignCoins l flips).1 → 3 * (S * S) + l.length + 1 ≤ fuel →
      Algo2.Bdd_pick_random__r_pick fuel A l.reverse.toArray flips =
        .ok (Rel.rPickG A (Rel.assignCoins l flips).1, (Rel.assignCoins l flips).2) := by
  intro l
  induction l with
  | nil =>
    intro A fuel flips _ _ _ hf
    obtain ⟨f, rfl⟩ : ∃ f, fuel = f + 1 := ⟨fuel - 1, by omega⟩
    rw [Algo2.Bdd_pick_random__r_pick]
    rfl
  | cons x rest ih =>
    intro A fuel flips hA hl hb hf
    simp only [List.length_cons] at hf
    obtain ⟨f, rfl⟩ : ∃ f, fuel = f + 1 := ⟨fuel - 1, by omega⟩
    have hx : x < n := hl x List.mem_cons_self
    have hl' : ∀ y ∈ rest, y < n := fun y hy => hl y (List.mem_cons_of_mem _ hy)
    have hrest : ∀ p ∈ (Rel.assignCoins rest flips).1, p.1 < n := by
      intro p hp
      have : p.1 ∈ (Rel.assignCoins rest flips).1.map (·.1) := List.mem_map_of_mem hp
      rw [Rel.assignCoins_fst] at this
      exact hl' _ this
    have hb' : PickBound S A ((x, (drawCoin (Rel.assignCoins rest flips).2).1) :: (Rel.assignCoins rest flips).1) := hb
    obtain ⟨e1, hE, _, e4, e5⟩ := level_ops A n x _ _ S hS3 hS hA hx hrest hb' f (by omega)
    have eih := ih (Rel.varExists A x) f flips hE hl' hb'.2.2.2.2 (by omega)
    rw [Algo2.Bdd_pick_random__r_pick]
    simp only [List.reverse_cons, splitLast_snoc]
    rw [e1]
    simp only [AlgoEqA.bind_ok]
    rw [eih]
    simp only [AlgoEqA.bind_ok]
    rw [e4 _ rfl]
    simp only [AlgoEqA.bind_ok]
    rw [e5]
    rfl

/-- **`r_pick` of `pick_random` as translated = `B.rPickRandom`** (set and unconsumed coins) -/
theorem r_pick_random_eq_model (n S : Nat) (hS3 : 3 ≤ S) (hS : S * S + 2 ≤ 2 ^ 32) (l : List Nat) (A : Arr) (fuel : Nat)
    (flips : List Bool) (hA : WFo A n) (hl : ∀ x ∈ l, x < n) (hb : PickBound S A (Rel.assignCoins l flips).1)
    (hfuel : 3 * (S * S) + l.length + 1 ≤ fuel) :
    Algo2.Bdd_pick_random__r_pick fuel A l.reverse.toArray flips = .ok (rPickRandom A l flips) := by
  rw [r_pick_random_eq_G n S hS3 hS l A fuel flips hA hl hb hfuel, Rel.rPickRandom_eq]

/-! ### `pick`, `pick_random` -/

theorem dedupAdj_length_le : ∀ l : List Nat, (dedupAdj l).length ≤ l.length
  | [] => Nat.le_refl _
  | [_] => Nat.le_refl _
  | a :: b :: t => by
    have ih := dedupAdj_length_le (b :: t)
    simp only [dedupAdj]
    split
    · simp only [List.length_cons] at ih ⊢; omega
    · simp only [List.length_cons] at ih ⊢; omega

/-- `sorted` never lengthens the slice -/
theorem sortedVars_length_le (vars : List Nat) : (sortedVars vars).length ≤ vars.length := by
  unfold sortedVars
  have := dedupAdj_length_le (vars.mergeSort fun a b => decide (a ≤ b))
  rw [List.length_mergeSort] at this
  exact this

theorem sorted_mem_lt {n : Nat} {vars : List Nat} (hv : ∀ x ∈ vars, x < n) :
    ∀ x ∈ (sortedVars vars).reverse, x < n := by
  intro x hx
  rw [List.mem_reverse, Rel.mem_sortedVars] at hx
  exact hv x hx

section pick
variable (A : Arr) (n : Nat) (vars : Array Nat) (S : Nat) (hA : WFo A n) (hv : ∀ x ∈ vars.toList, x < n)
  (hS3 : 3 ≤ S) (hS : S * S + 2 ≤ 2 ^ 32)
include hA hv hS3 hS

/-- **`Bdd::pick` as translated = `B.pick`** -/
theorem Bdd_pick_eq_model
    (hb : PickBound S A ((sortedVars vars.toList).reverse.map fun x => (x, false)))
    (fuel : Nat) (hfuel : 3 * (S * S) + (sortedVars vars.toList).length + 1 ≤ fuel) :
    Algo2.Bdd_pick fuel A vars = .ok (pick A vars.toList) := by
  have h := r_pick_eq_model n S hS3 hS (sortedVars vars.toList).reverse A fuel hA (sorted_mem_lt hv) hb
    (by rw [List.length_reverse]; exact hfuel)
  rw [List.reverse_reverse] at h
  unfold Algo2.Bdd_pick
  rw [sorted_eq_model, h]
  rfl

/-- the same with the length of the slice in place of the number of distinct variables -/
theorem Bdd_pick_eq_model'
    (hb : PickBound S A ((sortedVars vars.toList).reverse.map fun x => (x, false)))
    (fuel : Nat) (hfuel : 3 * (S * S) + vars.size + 1 ≤ fuel) :
    Algo2.Bdd_pick fuel A vars = .ok (pick A vars.toList) := by
  have h1 := sortedVars_length_le vars.toList
  have h2 : vars.toList.length = vars.size := Array.length_toList
  exact Bdd_pick_eq_model A n vars S hA hv hS3 hS hb fuel (by omega)

/-- chained with `Props.C06.pick_spec` / `pick_canon`: THE TRANSLATED `pick` returns a well-formed array (canonical
    when the list is non-empty) that is a subset of the operand and contains exactly one valuation of the `n` variables
    from every non-empty class of operand valuations agreeing outside `vars` -/
theorem Bdd_pick_spec
    (hb : PickBound S A ((sortedVars vars.toList).reverse.map fun x => (x, false)))
    (fuel : Nat) (hfuel : 3 * (S * S) + (sortedVars vars.toList).length + 1 ≤ fuel) :
    ∃ r, Algo2.Bdd_pick fuel A vars = .ok r ∧ WFo r n ∧ (vars.toList ≠ [] → r = canon n (Rel.sem r)) ∧
      (∀ v, Rel.sem r v = true → Rel.sem A v = true) ∧
      (∀ v, Rel.sem A v = true → ∃ w, Rel.sem r w = true ∧ ∀ i, i ∉ vars.toList → w i = v i) ∧
      (∀ w w', Rel.sem r w = true → Rel.sem r w' = true →
        (∀ i, i < n → i ∉ vars.toList → w i = w' i) → ∀ i, i < n → w i = w' i) :=
  ⟨_, Bdd_pick_eq_model A n vars S hA hv hS3 hS hb fuel hfuel, (Props.C06.pick_canon hA _ hv).1,
    (Props.C06.pick_canon hA _ hv).2, Props.C06.pick_spec hA _ hv⟩

/-- **`Bdd::pick_random` as translated = `B.pickRandom`**, together with the unconsumed coins (one coin per distinct
    variable is drawn) -/
theorem Bdd_pick_random_eq_model (flips : List Bool)
    (hb : PickBound S A (Rel.assignCoins (sortedVars vars.toList).reverse flips).1)
    (fuel : Nat) (hfuel : 3 * (S * S) + (sortedVars vars.toList).length + 1 ≤ fuel) :
    Algo2.Bdd_pick_random fuel A vars flips =
      .ok (pickRandom A vars.toList flips, flips.drop (pickRandomDraws vars.toList)) := by
  have h := r_pick_random_eq_model n S hS3 hS (sortedVars vars.toList).reverse A fuel flips hA (sorted_mem_lt hv) hb
    (by rw [List.length_reverse]; exact hfuel)
  rw [List.reverse_reverse] at h
  unfold Algo2.Bdd_pick_random
  simp only []
  rw [sorted_eq_model, h]
  simp only [AlgoEqA.bind_ok]
  rw [← Props.C06.pick_random_draws A vars.toList flips]
  rfl

theorem Bdd_pick_random_spec (flips : List Bool)
    (hb : PickBound S A (Rel.assignCoins (sortedVars vars.toList).reverse flips).1)
    (fuel : Nat) (hfuel : 3 * (S * S) + (sortedVars vars.toList).length + 1 ≤ fuel) :
    ∃ r rest, Algo2.Bdd_pick_random fuel A vars flips = .ok (r, rest) ∧
      rest = flips.drop (sortedVars vars.toList).length ∧
      WFo r n ∧ (vars.toList ≠ [] → r = canon n (Rel.sem r)) ∧
      (∀ v, Rel.sem r v = true → Rel.sem A v = true) ∧
      (∀ v, Rel.sem A v = true → ∃ w, Rel.sem r w = true ∧ ∀ i, i ∉ vars.toList → w i = v i) ∧
      (∀ w w', Rel.sem r w = true → Rel.sem r w' = true →
        (∀ i, i < n → i ∉ vars.toList → w i = w' i) → ∀ i, i < n → w i = w' i) :=
  ⟨_, _, Bdd_pick_random_eq_model A n vars S hA hv hS3 hS flips hb fuel hfuel, rfl,
    (Props.C06.pick_random_canon hA _ hv flips).1, (Props.C06.pick_random_canon hA _ hv flips).2,
    Props.C06.pick_random_spec hA _ hv flips⟩

/-- with the fuel the driver passes (`fuelBig A`), provided it covers the bound (a decidable, per-case checkable
    hypothesis: the sizes of the intermediate sets have no realistic closed-form bound) -/
theorem Bdd_pick_eq_model_driver
    (hb : PickBound S A ((sortedVars vars.toList).reverse.map fun x => (x, false)))
    (hdrv : 3 * (S * S) + (sortedVars vars.toList).length + 1 ≤ Drive.Algo2.fuelBig A) :
    Algo2.Bdd_pick (Drive.Algo2.fuelBig A) A vars = .ok (pick A vars.toList) :=
  Bdd_pick_eq_model A n vars S hA hv hS3 hS hb _ hdrv

theorem Bdd_pick_random_eq_model_driver (flips : List Bool)
    (hb : PickBound S A (Rel.assignCoins (sortedVars vars.toList).reverse flips).1)
    (hdrv : 3 * (S * S) + (sortedVars vars.toList).length + 1 ≤ Drive.Algo2.fuelBig A) :
    Algo2.Bdd_pick_random (Drive.Algo2.fuelBig A) A vars flips =
      .ok (pickRandom A vars.toList flips, flips.drop (pickRandomDraws vars.toList)) :=
  Bdd_pick_random_eq_model A n vars S hA hv hS3 hS flips hb _ hdrv

end pick

/-- NOT PROVED (not expected to hold for all operands: the intermediate sets are not bounded by a polynomial in `|A|`):
    the driver's fuel always suffices for `pick` -/
def Bdd_pick_eq_model_driver_statement : Prop :=
  ∀ (A : Arr) (n : Nat) (vars : Array Nat), WFo A n → (∀ x ∈ vars.toList, x < n) →
    Algo2.Bdd_pick (Drive.Algo2.fuelBig A) A vars = .ok (pick A vars.toList)

end B.AlgoEq2Rel
