import BddVerif.Lemmas.NormalFormChain
/-!
Lemmas for C10, part 3: the single-clause constructors are chain diagrams (or panic on a foreign variable),
`PartialEq` of raw partial valuations, and the recursion of `mk_dnf` / `mk_cnf`.
-/
namespace B.NF
open B

/-! ### the literal lists of a raw vector -/

/-- increasing variables, at least `lo` -/
def Asc : Nat → List (Nat × Bool) → Prop
  | _, [] => True
  | lo, (x, _) :: t => lo ≤ x ∧ Asc (x + 1) t

theorem Asc.mono {lo lo' : Nat} {l : List (Nat × Bool)} (h : Asc lo l) (hle : lo' ≤ lo) : Asc lo' l := by
  cases l with
  | nil => trivial
  | cons p t => obtain ⟨x, b⟩ := p; exact ⟨Nat.le_trans hle h.1, h.2⟩

theorem asc_toValuesFrom (pv : PVal) : ∀ i, Asc i (PVal.toValuesFrom i pv) := by
  induction pv with
  | nil => intro i; trivial
  | cons o t ih =>
    intro i
    cases o with
    | none => exact (ih (i + 1)).mono (Nat.le_succ i)
    | some b => exact ⟨Nat.le_refl _, ih (i + 1)⟩

theorem asc_map (g : Bool → Bool) : ∀ (l : List (Nat × Bool)) lo, Asc lo l → Asc lo (l.map fun p => (p.1, g p.2))
  | [], _, _ => trivial
  | (_, _) :: t, _, h => ⟨h.1, asc_map g t _ h.2⟩

theorem sortedFrom_of {n : Nat} : ∀ (l : List (Nat × Bool)) k, Asc k l → (∀ p ∈ l, p.1 < n) → k ≤ n →
    SortedFrom n k l
  | [], _, _, _, hk => hk
  | (x, b) :: t, _, h, hlt, _ =>
    have hx : x < n := hlt (x, b) (List.mem_cons_self ..)
    ⟨h.1, hx, sortedFrom_of t (x + 1) h.2 (fun p hp => hlt p (List.mem_cons_of_mem _ hp)) hx⟩

theorem inRange_iff (n : Nat) (c : PVal) : InRange n c ↔ ∀ p ∈ c.toValues, p.1 < n := by
  constructor
  · intro h p hp
    obtain ⟨x, b⟩ := p
    exact h x b ((mem_toValues c x b).1 hp)
  · intro h x b hg
    exact h (x, b) ((mem_toValues c x b).2 hg)

theorem chainFn_false_eq (lits : List (Nat × Bool)) (v : Nat → Bool) :
    chainFn false lits v = lits.all fun l => v l.1 == l.2 := by
  induction lits with
  | nil => rfl
  | cons l t ih =>
    obtain ⟨x, b⟩ := l
    simp only [chainFn, List.all_cons, ih]
    by_cases h : v x = b <;> simp [h]

theorem chainFn_true_eq (lits : List (Nat × Bool)) (v : Nat → Bool) :
    chainFn true (lits.map fun p => (p.1, !p.2)) v = lits.any fun l => v l.1 == l.2 := by
  induction lits with
  | nil => rfl
  | cons l t ih =>
    obtain ⟨x, b⟩ := l
    simp only [List.map_cons, chainFn, List.any_cons, ih]
    cases hv : v x <;> cases b <;> simp

theorem root_chainArr_false (n : Nat) (lits : List (Nat × Bool)) :
    root (chainArr n false lits).1 = (chainArr n false lits).2 := by
  cases lits with
  | nil => rfl
  | cons l t => obtain ⟨x, go⟩ := l; simp [chainArr, root]

/-! ### `mk_partial_valuation`, `mk_conjunctive_clause`, `mk_disjunctive_clause` -/

theorem clauseArr_eq_chain (n : Nat) (lits : List (Nat × Bool)) : clauseArr n lits = (chainArr n false lits).1 := by
  induction lits with
  | nil => rfl
  | cons l t ih =>
    obtain ⟨x, b⟩ := l
    simp only [clauseArr, chainArr]
    rw [ih, root_chainArr_false]
    rfl

/-- `mk_partial_valuation` of a clause over the variable set is the canonical array of its conjunction -/
theorem sem_mkPartialValuation {n : Nat} {c : PVal} (h : InRange n c) :
    Sem n (mkPartialValuation n c) (conjFn c) := by
  unfold mkPartialValuation
  rw [clauseArr_eq_chain]
  have hs : SortedFrom n 0 c.toValues :=
    sortedFrom_of _ 0 (asc_toValuesFrom c 0) ((inRange_iff n c).1 h) (Nat.zero_le _)
  have hne : (chainArr n false c.toValues).2 ≠ 0 := (chain_ins n false _ 0 hs).2.2.2.2.2.1
  exact (sem_chainArr n false _ hs hne).congr (fun v => chainFn_false_eq _ v)

/-- the loop of `mk_conjunctive_clause`: the chain, or the assertion -/
theorem conjFrom_eq (n : Nat) : ∀ (l : List (Option Bool)) (i : Nat),
    conjFrom n i l =
      if (PVal.toValuesFrom i l).all (fun p => decide (p.1 < n)) then .ok (chainArr n false (PVal.toValuesFrom i l)).1
      else .panic assertIndex := by
  intro l
  induction l with
  | nil => intro i; rfl
  | cons o t ih =>
    intro i
    cases o with
    | none =>
      simp only [conjFrom, PVal.toValuesFrom, ih (i + 1)]
      by_cases hall : (PVal.toValuesFrom (i + 1) t).all (fun p => decide (p.1 < n)) = true
      · simp only [hall, if_true]
      · simp only [hall]; rfl
    | some b =>
      simp only [conjFrom, PVal.toValuesFrom, ih (i + 1), List.all_cons]
      by_cases hall : (PVal.toValuesFrom (i + 1) t).all (fun p => decide (p.1 < n)) = true
      · simp only [hall, if_true, Bool.and_true]
        by_cases hi : i < n
        · simp only [hi, decide_true, if_true]
          simp only [chainArr]
          rw [root_chainArr_false]
          rfl
        · simp [hi]
      · simp [hall]

theorem mkConjClause_inRange {n : Nat} {c : PVal} (h : InRange n c) :
    mkConjClause n c = .ok (mkPartialValuation n c) := by
  unfold mkConjClause mkPartialValuation PVal.toValues
  rw [conjFrom_eq, clauseArr_eq_chain]
  have : (PVal.toValuesFrom 0 c).all (fun p => decide (p.1 < n)) = true := by
    rw [List.all_eq_true]
    intro p hp
    simpa using (inRange_iff n c).1 h p hp
  rw [if_pos this]

theorem mkConjClause_foreign {n : Nat} {c : PVal} (h : ¬ InRange n c) :
    mkConjClause n c = .panic assertIndex := by
  unfold mkConjClause
  rw [conjFrom_eq]
  have : ¬ ((PVal.toValuesFrom 0 c).all (fun p => decide (p.1 < n)) = true) := by
    intro hall
    apply h
    rw [inRange_iff]
    intro p hp
    rw [List.all_eq_true] at hall
    simpa using hall p hp
  rw [if_neg this]

/-- the loop of `mk_disjunctive_clause` with its shadow root: the dual chain, or the assertion -/
theorem disjFrom_eq (n : Nat) : ∀ (l : List (Option Bool)) (i : Nat),
    disjFrom n i l =
      if (PVal.toValuesFrom i l).all (fun p => decide (p.1 < n)) then
        .ok (chainArr n true ((PVal.toValuesFrom i l).map fun p => (p.1, !p.2)))
      else .panic assertIndex := by
  intro l
  induction l with
  | nil => intro i; rfl
  | cons o t ih =>
    intro i
    cases o with
    | none =>
      simp only [disjFrom, PVal.toValuesFrom, ih (i + 1)]
      by_cases hall : (PVal.toValuesFrom (i + 1) t).all (fun p => decide (p.1 < n)) = true
      · simp only [hall, if_true]
      · simp only [hall]; rfl
    | some b =>
      simp only [disjFrom, PVal.toValuesFrom, ih (i + 1), List.all_cons, List.map_cons]
      by_cases hall : (PVal.toValuesFrom (i + 1) t).all (fun p => decide (p.1 < n)) = true
      · simp only [hall, if_true, Bool.and_true]
        by_cases hi : i < n
        · simp only [hi, decide_true, if_true]
          simp only [chainArr, root_push]
          cases b <;> rfl
        · simp [hi]
      · simp [hall]

theorem toValuesFrom_eq_nil (l : List (Option Bool)) : ∀ i, PVal.toValuesFrom i l = [] ↔ isEmptyClause l = true := by
  induction l with
  | nil => intro i; simp [PVal.toValuesFrom, isEmptyClause]
  | cons o t ih =>
    intro i
    cases o with
    | none =>
      have := ih (i + 1)
      simp only [PVal.toValuesFrom, isEmptyClause, List.all_cons, Option.isNone_none, Bool.true_and] at this ⊢
      exact this
    | some b => simp [PVal.toValuesFrom, isEmptyClause]

theorem disjFn_of_empty {c : PVal} (h : isEmptyClause c = true) (v : Nat → Bool) : disjFn c v = false := by
  unfold disjFn PVal.toValues
  rw [(toValuesFrom_eq_nil c 0).2 h]; rfl

/-- `mk_disjunctive_clause` of a clause over the variable set is the canonical array of its disjunction -/
theorem mkDisjClause_inRange {n : Nat} {c : PVal} (h : InRange n c) :
    ∃ r, mkDisjClause n c = .ok r ∧ Sem n r (disjFn c) := by
  unfold mkDisjClause
  by_cases hemp : isEmptyClause c = true
  · rw [if_pos hemp]
    exact ⟨_, rfl, (sem_mkFalse n).congr (fun v => (disjFn_of_empty hemp v).symm)⟩
  · rw [if_neg hemp, disjFrom_eq]
    have hall : (PVal.toValuesFrom 0 c).all (fun p => decide (p.1 < n)) = true := by
      rw [List.all_eq_true]
      intro p hp
      simpa using (inRange_iff n c).1 h p hp
    rw [if_pos hall]
    refine ⟨_, rfl, ?_⟩
    have hs : SortedFrom n 0 (c.toValues.map fun p => (p.1, !p.2)) := by
      apply sortedFrom_of _ 0 (asc_map _ _ _ (asc_toValuesFrom c 0)) _ (Nat.zero_le _)
      intro p hp
      rw [List.mem_map] at hp
      obtain ⟨q, hq, rfl⟩ := hp
      exact (inRange_iff n c).1 h q hq
    have hnil : (c.toValues.map fun p => (p.1, !p.2)) ≠ [] := by
      intro e
      rw [List.map_eq_nil_iff] at e
      exact hemp ((toValuesFrom_eq_nil c 0).1 e)
    obtain ⟨_, _, hpre, _, _, _, hlast⟩ := chain_ins n true _ 0 hs
    have hne : (chainArr n true (c.toValues.map fun p => (p.1, !p.2))).2 ≠ 0 := by
      have h1 := hlast hnil
      have h2 : 2 ≤ (chainArr n true (c.toValues.map fun p => (p.1, !p.2))).1.size := by
        have := hpre.1; simpa [mkTrue] using this
      omega
    exact (sem_chainArr n true _ hs hne).congr (fun v => chainFn_true_eq _ v)

theorem mkDisjClause_foreign {n : Nat} {c : PVal} (h : ¬ InRange n c) :
    mkDisjClause n c = .panic assertIndex := by
  unfold mkDisjClause
  have hall : ¬ ((PVal.toValuesFrom 0 c).all (fun p => decide (p.1 < n)) = true) := by
    intro hall
    apply h
    rw [inRange_iff]
    intro p hp
    rw [List.all_eq_true] at hall
    simpa using hall p hp
  have hemp : ¬ isEmptyClause c = true := by
    intro he
    apply hall
    have : PVal.toValuesFrom 0 c = [] := (toValuesFrom_eq_nil c 0).2 he
    rw [this]; rfl
  rw [if_neg hemp, disjFrom_eq, if_neg hall]
  rfl

/-! ### `PartialEq` -/

theorem get_eq_getElem (a : PVal) (i : Nat) (h : i < a.length) : a.get i = a[i] := by
  simp [PVal.get, h]

theorem get_of_le (a : PVal) (i : Nat) (h : a.length ≤ i) : a.get i = none := by
  simp [PVal.get, List.getElem?_eq_none h]

/-- vectors that answer `get_value` identically are equal under `PartialEq` -/
theorem clauseEq_of_get {a b : PVal} (h : ∀ i, a.get i = b.get i) : clauseEq a b = true := by
  unfold clauseEq
  simp only [Bool.and_eq_true, beq_iff_eq, List.all_eq_true]
  refine ⟨⟨?_, ?_⟩, ?_⟩
  · apply List.ext_getElem?
    intro i
    rw [List.getElem?_take, List.getElem?_take]
    split
    · rename_i hi
      have h1 : i < a.length := by omega
      have h2 : i < b.length := by omega
      have := h i
      rw [get_eq_getElem a i h1, get_eq_getElem b i h2] at this
      simp [h1, h2, this]
    · rfl
  · intro x hx
    obtain ⟨j, hj, rfl⟩ := List.mem_iff_getElem.1 hx
    simp only [List.length_drop] at hj
    rw [List.getElem_drop]
    have h1 : min a.length b.length + j < a.length := by omega
    have hb : b.length ≤ min a.length b.length + j := by omega
    have := h (min a.length b.length + j)
    rw [get_eq_getElem a _ h1, get_of_le b _ hb] at this
    rw [this]; rfl
  · intro x hx
    obtain ⟨j, hj, rfl⟩ := List.mem_iff_getElem.1 hx
    simp only [List.length_drop] at hj
    rw [List.getElem_drop]
    have h1 : min a.length b.length + j < b.length := by omega
    have ha : a.length ≤ min a.length b.length + j := by omega
    have := h (min a.length b.length + j)
    rw [get_eq_getElem b _ h1, get_of_le a _ ha] at this
    rw [← this]; rfl

/-! ### the three-way split -/

theorem any_split (cs : List PVal) (x : Nat) (p : PVal → Bool) :
    cs.any p = (((splitNone cs x).any p || (splitTrue cs x).any p) || (splitFalse cs x).any p) := by
  rw [Bool.eq_iff_iff]
  simp only [Bool.or_eq_true, List.any_eq_true, splitNone, splitTrue, splitFalse, List.mem_filter, beq_iff_eq]
  constructor
  · rintro ⟨c, hc, hp⟩
    rcases hg : c.get x with _ | b
    · left; left; exact ⟨c, ⟨hc, hg⟩, hp⟩
    · cases b
      · right; exact ⟨c, ⟨hc, hg⟩, hp⟩
      · left; right; exact ⟨c, ⟨hc, hg⟩, hp⟩
  · rintro ((⟨c, ⟨hc, _⟩, hp⟩ | ⟨c, ⟨hc, _⟩, hp⟩) | ⟨c, ⟨hc, _⟩, hp⟩) <;> exact ⟨c, hc, hp⟩

theorem all_split (cs : List PVal) (x : Nat) (p : PVal → Bool) :
    cs.all p = (((splitNone cs x).all p && (splitTrue cs x).all p) && (splitFalse cs x).all p) := by
  rw [Bool.eq_iff_iff]
  simp only [Bool.and_eq_true, List.all_eq_true, splitNone, splitTrue, splitFalse, List.mem_filter, beq_iff_eq]
  constructor
  · intro h
    exact ⟨⟨fun c hc => h c hc.1, fun c hc => h c hc.1⟩, fun c hc => h c hc.1⟩
  · rintro ⟨⟨h1, h2⟩, h3⟩ c hc
    rcases hg : c.get x with _ | b
    · exact h1 c ⟨hc, hg⟩
    · cases b
      · exact h3 c ⟨hc, hg⟩
      · exact h2 c ⟨hc, hg⟩

/-- the clauses of the current group answer `get_value` identically below `m` -/
def Agree (m : Nat) (cs : List PVal) : Prop := ∀ c ∈ cs, ∀ d ∈ cs, ∀ i, i < m → c.get i = d.get i

theorem Agree.filter {m : Nat} {cs : List PVal} (h : Agree m cs) (o : Option Bool) :
    Agree (m + 1) (cs.filter fun c => c.get m == o) := by
  intro c hc d hd i hi
  rw [List.mem_filter] at hc hd
  by_cases him : i = m
  · subst him
    have h1 := hc.2; have h2 := hd.2
    simp only [beq_iff_eq] at h1 h2
    rw [h1, h2]
  · exact h c hc.1 d hd.1 i (by omega)

theorem Agree.skip {m : Nat} {cs : List PVal} (h : Agree m cs)
    (hno : (cs.any fun c => (c.get m).isSome) = false) : Agree (m + 1) cs := by
  intro c hc d hd i hi
  by_cases him : i = m
  · subst him
    have hn : ∀ c ∈ cs, c.get i = none := by
      intro c hc
      rcases hg : c.get i with _ | b
      · rfl
      · exfalso
        have : (cs.any fun c => (c.get i).isSome) = true := by
          rw [List.any_eq_true]; exact ⟨c, hc, by simp [hg]⟩
        rw [hno] at this; cases this
    rw [hn c hc, hn d hd]
  · exact h c hc d hd i (by omega)

/-- at `var == num_vars` all remaining clauses over the variable set are duplicates of the first -/
theorem allDuplicates_of_agree {n : Nat} {cs : List PVal} (hr : ∀ c ∈ cs, InRange n c) (ha : Agree n cs) :
    allDuplicates cs = true := by
  cases cs with
  | nil => rfl
  | cons c rest =>
    simp only [allDuplicates, List.all_eq_true]
    intro cx hcx
    apply clauseEq_of_get
    intro i
    by_cases hi : i < n
    · exact ha cx (List.mem_cons_of_mem _ hcx) c (List.mem_cons_self ..) i hi
    · have h1 : cx.get i = none := by
        rcases hg : cx.get i with _ | b
        · rfl
        · exact absurd (hr cx (List.mem_cons_of_mem _ hcx) i b hg) hi
      have h2 : c.get i = none := by
        rcases hg : c.get i with _ | b
        · rfl
        · exact absurd (hr c (List.mem_cons_self ..) i b hg) hi
      rw [h1, h2]

theorem get_eq_of_agree {n : Nat} {cs : List PVal} (hr : ∀ c ∈ cs, InRange n c) (ha : Agree n cs)
    {c d : PVal} (hc : c ∈ cs) (hd : d ∈ cs) (i : Nat) : c.get i = d.get i := by
  by_cases hi : i < n
  · exact ha c hc d hd i hi
  · have h1 : c.get i = none := by
      rcases hg : c.get i with _ | b
      · rfl
      · exact absurd (hr c hc i b hg) hi
    have h2 : d.get i = none := by
      rcases hg : d.get i with _ | b
      · rfl
      · exact absurd (hr d hd i b hg) hi
    rw [h1, h2]

theorem dnfFn_dep {n : Nat} {cs : List PVal} (hr : ∀ c ∈ cs, InRange n c) : Dep n (dnfFn cs) := by
  intro v w hvw
  unfold dnfFn
  induction cs with
  | nil => rfl
  | cons c t ih =>
    simp only [List.any_cons]
    rw [conjFn_dep (hr c (List.mem_cons_self ..)) v w hvw, ih (fun d hd => hr d (List.mem_cons_of_mem _ hd))]

theorem cnfFn_dep {n : Nat} {cs : List PVal} (hr : ∀ c ∈ cs, InRange n c) : Dep n (cnfFn cs) := by
  intro v w hvw
  unfold cnfFn
  induction cs with
  | nil => rfl
  | cons c t ih =>
    simp only [List.all_cons]
    rw [disjFn_dep (hr c (List.mem_cons_self ..)) v w hvw, ih (fun d hd => hr d (List.mem_cons_of_mem _ hd))]

/-! ### `mk_dnf` -/

theorem mkDnfRec_spec (n : Nat) : ∀ (k : Nat) (cs : List PVal), k ≤ n → (∀ c ∈ cs, InRange n c) →
    Agree (n - k) cs → ∃ r, mkDnfRec n k cs = .ok r ∧ Sem n r (dnfFn cs) := by
  intro k
  induction k with
  | zero =>
    intro cs _ hr ha
    cases cs with
    | nil => exact ⟨_, rfl, sem_mkFalse n⟩
    | cons c t =>
      have hd := allDuplicates_of_agree hr ha
      simp only [mkDnfRec, hd, if_true]
      refine ⟨_, rfl, (sem_mkPartialValuation (hr c (List.mem_cons_self ..))).congr ?_⟩
      intro v
      unfold dnfFn
      rw [Bool.eq_iff_iff, List.any_eq_true]
      constructor
      · intro h; exact ⟨c, List.mem_cons_self .., h⟩
      · rintro ⟨d, hd', hv⟩
        rw [conjFn_congr (fun i => get_eq_of_agree hr ha (List.mem_cons_self ..) hd' i)]
        exact hv
  | succ k ih =>
    intro cs hk hr ha
    match cs, hr, ha with
    | [], _, _ => exact ⟨_, rfl, sem_mkFalse n⟩
    | [c], hr, _ =>
      refine ⟨_, rfl, (sem_mkPartialValuation (hr c (List.mem_cons_self ..))).congr ?_⟩
      intro v; simp [dnfFn]
    | c1 :: c2 :: t, hr, ha =>
      have hvar : n - (k + 1) + 1 = n - k := by omega
      simp only [mkDnfRec]
      by_cases hno : ((c1 :: c2 :: t).any fun c => (c.get (n - (k + 1))).isSome) = false
      · simp only [hno, Bool.not_false, if_true]
        exact ih _ (by omega) hr (by rw [← hvar]; exact ha.skip hno)
      · simp only [Bool.not_eq_false] at hno
        simp only [hno, Bool.not_true, Bool.false_eq_true, if_false]
        have hsub : ∀ o, ∀ c ∈ (c1 :: c2 :: t).filter (fun c => c.get (n - (k + 1)) == o), InRange n c :=
          fun o c hc => hr c (List.mem_filter.1 hc).1
        obtain ⟨r1, e1, s1⟩ := ih (splitNone (c1 :: c2 :: t) (n - (k + 1))) (by omega) (hsub none)
          (by rw [← hvar]; exact ha.filter none)
        obtain ⟨r2, e2, s2⟩ := ih (splitTrue (c1 :: c2 :: t) (n - (k + 1))) (by omega) (hsub (some true))
          (by rw [← hvar]; exact ha.filter (some true))
        obtain ⟨r3, e3, s3⟩ := ih (splitFalse (c1 :: c2 :: t) (n - (k + 1))) (by omega) (hsub (some false))
          (by rw [← hvar]; exact ha.filter (some false))
        rw [e1, e2, e3]
        refine ⟨_, rfl, ((s1.or s2).or s3).congr ?_⟩
        intro v
        exact (any_split (c1 :: c2 :: t) (n - (k + 1)) (fun c => conjFn c v)).symm

/-! ### `mk_cnf` -/

theorem mkCnfRec_spec (n : Nat) : ∀ (k : Nat) (cs : List PVal), k ≤ n → (∀ c ∈ cs, InRange n c) →
    Agree (n - k) cs → ∃ r, mkCnfRec n k cs = .ok r ∧ Sem n r (cnfFn cs) := by
  intro k
  induction k with
  | zero =>
    intro cs _ hr ha
    cases cs with
    | nil => exact ⟨_, rfl, sem_mkTrue n⟩
    | cons c t =>
      have hd := allDuplicates_of_agree hr ha
      simp only [mkCnfRec, hd, if_true]
      obtain ⟨r, e, s⟩ := mkDisjClause_inRange (hr c (List.mem_cons_self ..))
      refine ⟨r, e, s.congr ?_⟩
      intro v
      unfold cnfFn
      rw [Bool.eq_iff_iff, List.all_eq_true]
      constructor
      · intro h d hd'
        rw [← disjFn_congr (fun i => get_eq_of_agree hr ha (List.mem_cons_self ..) hd' i)]
        exact h
      · intro h; exact h c (List.mem_cons_self ..)
  | succ k ih =>
    intro cs hk hr ha
    match cs, hr, ha with
    | [], _, _ => exact ⟨_, rfl, sem_mkTrue n⟩
    | [c], hr, _ =>
      obtain ⟨r, e, s⟩ := mkDisjClause_inRange (hr c (List.mem_cons_self ..))
      refine ⟨r, e, s.congr ?_⟩
      intro v; simp [cnfFn]
    | c1 :: c2 :: t, hr, ha =>
      have hvar : n - (k + 1) + 1 = n - k := by omega
      simp only [mkCnfRec]
      by_cases hno : ((c1 :: c2 :: t).any fun c => (c.get (n - (k + 1))).isSome) = false
      · simp only [hno, Bool.not_false, if_true]
        exact ih _ (by omega) hr (by rw [← hvar]; exact ha.skip hno)
      · simp only [Bool.not_eq_false] at hno
        simp only [hno, Bool.not_true, Bool.false_eq_true, if_false]
        have hsub : ∀ o, ∀ c ∈ (c1 :: c2 :: t).filter (fun c => c.get (n - (k + 1)) == o), InRange n c :=
          fun o c hc => hr c (List.mem_filter.1 hc).1
        obtain ⟨r1, e1, s1⟩ := ih (splitNone (c1 :: c2 :: t) (n - (k + 1))) (by omega) (hsub none)
          (by rw [← hvar]; exact ha.filter none)
        obtain ⟨r2, e2, s2⟩ := ih (splitTrue (c1 :: c2 :: t) (n - (k + 1))) (by omega) (hsub (some true))
          (by rw [← hvar]; exact ha.filter (some true))
        obtain ⟨r3, e3, s3⟩ := ih (splitFalse (c1 :: c2 :: t) (n - (k + 1))) (by omega) (hsub (some false))
          (by rw [← hvar]; exact ha.filter (some false))
        rw [e1, e2, e3]
        refine ⟨_, rfl, ((s1.and s2).and s3).congr ?_⟩
        intro v
        exact (all_split (c1 :: c2 :: t) (n - (k + 1)) (fun c => disjFn c v)).symm

end B.NF
