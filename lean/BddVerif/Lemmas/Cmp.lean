import BddVerif.Model.Valuation
import BddVerif.Lemmas.Count
import BddVerif.Lemmas.CanonicalStruct
import BddVerif.Lemmas.OpConsistent
/-!
The comparators of `_impl_sort.rs`: `cmp_structural` is a linear order on node vectors whose `Equal`
is identity; `cmp_cardinality(_strict)` compare the exact model counts; `cmp_implies` decides pointwise
implication through the size of the canonical result.
-/
namespace B.Cmp
open B B.Count

/-! ### the derived order of a node triple -/

/-- `x` is lexicographically below `y` as `(var, low, high)` -/
def ltNode (x y : Node) : Prop :=
  x.var < y.var ∨ (x.var = y.var ∧ (x.low < y.low ∨ (x.low = y.low ∧ x.high < y.high)))

theorem node_ext {x y : Node} (h1 : x.var = y.var) (h2 : x.low = y.low) (h3 : x.high = y.high) : x = y := by
  cases x; cases y; simp_all

theorem cmpNode_cases (x y : Node) :
    (cmpNode x y = .lt ∧ ltNode x y) ∨ (cmpNode x y = .eq ∧ x = y) ∨ (cmpNode x y = .gt ∧ ltNode y x) := by
  unfold cmpNode ltNode
  rcases Nat.lt_trichotomy x.var y.var with h1 | h1 | h1
  · left; rw [Nat.compare_eq_lt.2 h1]; exact ⟨rfl, Or.inl h1⟩
  · rw [Nat.compare_eq_eq.2 h1]
    rcases Nat.lt_trichotomy x.low y.low with h2 | h2 | h2
    · left; rw [Nat.compare_eq_lt.2 h2]; exact ⟨rfl, Or.inr ⟨h1, Or.inl h2⟩⟩
    · rw [Nat.compare_eq_eq.2 h2]
      rcases Nat.lt_trichotomy x.high y.high with h3 | h3 | h3
      · left; rw [Nat.compare_eq_lt.2 h3]; exact ⟨rfl, Or.inr ⟨h1, Or.inr ⟨h2, h3⟩⟩⟩
      · right; left; rw [Nat.compare_eq_eq.2 h3]; exact ⟨rfl, node_ext h1 h2 h3⟩
      · right; right; rw [Nat.compare_eq_gt.2 h3]; exact ⟨rfl, Or.inr ⟨h1.symm, Or.inr ⟨h2.symm, h3⟩⟩⟩
    · right; right; rw [Nat.compare_eq_gt.2 h2]; exact ⟨rfl, Or.inr ⟨h1.symm, Or.inl h2⟩⟩
  · right; right; rw [Nat.compare_eq_gt.2 h1]; exact ⟨rfl, Or.inl h1⟩

theorem ltNode_irrefl (x : Node) : ¬ ltNode x x := by unfold ltNode; omega
theorem ltNode_asymm {x y : Node} (h : ltNode x y) : ¬ ltNode y x := by unfold ltNode at *; omega
theorem ltNode_trans {x y z : Node} (h1 : ltNode x y) (h2 : ltNode y z) : ltNode x z := by
  unfold ltNode at *; omega

theorem cmpNode_lt_iff (x y : Node) : cmpNode x y = .lt ↔ ltNode x y := by
  rcases cmpNode_cases x y with ⟨e, h⟩ | ⟨e, h⟩ | ⟨e, h⟩
  · simp [e, h]
  · subst h; simp [e, ltNode_irrefl]
  · simp [e, ltNode_asymm h]

theorem cmpNode_eq_iff (x y : Node) : cmpNode x y = .eq ↔ x = y := by
  rcases cmpNode_cases x y with ⟨e, h⟩ | ⟨e, h⟩ | ⟨e, h⟩
  · simp only [e]; constructor
    · intro h'; cases h'
    · intro h'; subst h'; exact absurd h (ltNode_irrefl x)
  · exact ⟨fun _ => h, fun _ => e⟩
  · simp only [e]; constructor
    · intro h'; cases h'
    · intro h'; subst h'; exact absurd h (ltNode_irrefl x)

theorem cmpNode_gt_iff (x y : Node) : cmpNode x y = .gt ↔ ltNode y x := by
  rcases cmpNode_cases x y with ⟨e, h⟩ | ⟨e, h⟩ | ⟨e, h⟩
  · simp [e, ltNode_asymm h]
  · subst h; simp [e, ltNode_irrefl]
  · simp [e, h]

theorem cmpNode_swap (x y : Node) : cmpNode y x = (cmpNode x y).swap := by
  rcases cmpNode_cases x y with ⟨e, h⟩ | ⟨e, h⟩ | ⟨e, h⟩
  · rw [e, (cmpNode_gt_iff y x).2 h]; rfl
  · subst h; rw [e]; rfl
  · rw [e, (cmpNode_lt_iff y x).2 h]; rfl

/-! ### the lexicographic order of node lists (`Iterator::cmp`) -/

theorem cmpNodes_cons (x y : Node) (xs ys : List Node) :
    cmpNodes (x :: xs) (y :: ys) = match cmpNode x y with
      | .eq => cmpNodes xs ys
      | o => o := by
  rw [cmpNodes]
  cases cmpNode x y <;> rfl

theorem cmpNodes_eq_iff : ∀ (a b : List Node), cmpNodes a b = .eq ↔ a = b := by
  intro a
  induction a with
  | nil => intro b; cases b <;> simp [cmpNodes]
  | cons x xs ih =>
    intro b
    cases b with
    | nil => simp [cmpNodes]
    | cons y ys =>
      rw [cmpNodes_cons]
      rcases cmpNode_cases x y with ⟨e, h⟩ | ⟨e, h⟩ | ⟨e, h⟩
      · rw [e]; simp only
        constructor
        · intro h'; cases h'
        · intro h'; cases h'; exact absurd h (ltNode_irrefl x)
      · rw [e]; simp only; rw [ih, h]; simp
      · rw [e]; simp only
        constructor
        · intro h'; cases h'
        · intro h'; cases h'; exact absurd h (ltNode_irrefl x)

theorem cmpNodes_swap : ∀ (a b : List Node), cmpNodes b a = (cmpNodes a b).swap := by
  intro a
  induction a with
  | nil => intro b; cases b <;> simp [cmpNodes]
  | cons x xs ih =>
    intro b
    cases b with
    | nil => simp [cmpNodes]
    | cons y ys =>
      rw [cmpNodes_cons, cmpNodes_cons, cmpNode_swap x y]
      rcases cmpNode_cases x y with ⟨e, _⟩ | ⟨e, _⟩ | ⟨e, _⟩ <;> rw [e] <;> simp [ih]

theorem cmpNodes_lt_trans : ∀ (a b c : List Node), cmpNodes a b = .lt → cmpNodes b c = .lt → cmpNodes a c = .lt := by
  intro a
  induction a with
  | nil =>
    intro b c h1 h2
    cases b with
    | nil => simp [cmpNodes] at h1
    | cons y ys =>
      cases c with
      | nil => simp [cmpNodes] at h2
      | cons z zs => simp [cmpNodes]
  | cons x xs ih =>
    intro b c h1 h2
    cases b with
    | nil => simp [cmpNodes] at h1
    | cons y ys =>
      cases c with
      | nil => simp [cmpNodes] at h2
      | cons z zs =>
        rw [cmpNodes_cons] at h1 h2 ⊢
        rcases cmpNode_cases x y with ⟨e1, l1⟩ | ⟨e1, l1⟩ | ⟨e1, l1⟩
        · rcases cmpNode_cases y z with ⟨e2, l2⟩ | ⟨e2, l2⟩ | ⟨e2, l2⟩
          · rw [(cmpNode_lt_iff x z).2 (ltNode_trans l1 l2)]
          · subst l2; rw [e1]
          · rw [e2] at h2; cases h2
        · subst l1
          rcases cmpNode_cases x z with ⟨e2, l2⟩ | ⟨e2, l2⟩ | ⟨e2, l2⟩
          · rw [e2]
          · rw [e1] at h1; rw [e2] at h2 ⊢; exact ih _ _ h1 h2
          · rw [e2] at h2; cases h2
        · rw [e1] at h1; cases h1

/-! ### cmp_structural -/

theorem cmpStructural_eq_iff (a b : Arr) : cmpStructural a b = .eq ↔ a = b := by
  unfold cmpStructural; rw [cmpNodes_eq_iff, Array.toList_inj]

theorem cmpStructural_swap (a b : Arr) : cmpStructural b a = (cmpStructural a b).swap :=
  cmpNodes_swap _ _

theorem cmpStructural_lt_trans (a b c : Arr) (h1 : cmpStructural a b = .lt) (h2 : cmpStructural b c = .lt) :
    cmpStructural a c = .lt := cmpNodes_lt_trans _ _ _ h1 h2

/-! ### cmp_cardinality / cmp_cardinality_strict -/

theorem cmpCardinality_wfo {a b : Arr} {n m : Nat} (ha : WFo a n) (hb : WFo b m) :
    cmpCardinality a b = .ok (compare (cnt n (fun v => evW a n v (root a))) (cnt m (fun v => evW b m v (root b)))) := by
  unfold cmpCardinality
  rw [exactCardO_wfo ha, exactCardO_wfo hb]; rfl

/-! ### cmp_implies -/

/-- the size test of `cmp_implies` decides pointwise implication -/
theorem impliesB_iff {a b : Arr} {n : Nat} (ha : WFo a n) (hb : WFo b n) :
    impliesB a b = true ↔ ∀ v, evW a n v (root a) = true → evW b n v (root b) = true := by
  unfold impliesB
  rw [applyWithFlip_eq_canon a b n Gen.imp_ _ none none none ha hb (numVars_of_wf ha) imp_consistent
    (by simp) (by simp) (by simp)]
  have hdep : DepBelow n (specFn a b n (fun x y => !x || y) none none none) :=
    specFn_dep a b n _ none none none ha hb
  have := canon_size_two_iff n (specFn a b n (fun x y => !x || y) none none none) hdep
  simp only [beq_iff_eq]
  show (canon n (specFn a b n (fun x y => !x || y) none none none)).size = 2 ↔ _
  rw [this]
  constructor
  · intro h v hv
    have := h v
    simp only [specFn, inv] at this
    rw [hv] at this; simpa using this
  · intro h v
    simp only [specFn, inv]
    cases hv : evW a n v (root a)
    · rfl
    · rw [h v hv]; rfl

end B.Cmp
