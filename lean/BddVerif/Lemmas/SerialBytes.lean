import BddVerif.Model.Serial
/-! Binary format lemmas for C12: little-endian fields, the regenerated record layout, decoding of a byte
stream record by record. Everything about the layout goes through `LayoutOk`, which is checked by `decide`
against the regenerated `Gen.recordLen` / `Gen.fieldLayout`. -/
namespace B.Serial

theorem leBytes_length : ∀ w x, (leBytes w x).length = w := by
  intro w
  induction w with
  | zero => intro x; rfl
  | succ w ih => intro x; simp [leBytes, ih]

theorem leVal_leBytes : ∀ w x, leVal (leBytes w x) = x % 256 ^ w := by
  intro w
  induction w with
  | zero => intro x; simp [leBytes, leVal, Nat.mod_one]
  | succ w ih =>
    intro x
    simp only [leBytes, leVal, ih]
    have h1 : (x % 256).toUInt8.toNat = x % 256 := by
      simp [Nat.toUInt8, UInt8.toNat_ofNat']
    rw [h1, Nat.pow_succ, Nat.mul_comm (256 ^ w) 256, Nat.mod_mul]

theorem leVal_leBytes_of_lt {w x : Nat} (h : x < 256 ^ w) : leVal (leBytes w x) = x := by
  rw [leVal_leBytes, Nat.mod_eq_of_lt h]

/-- what the proofs need from the regenerated layout: the three fields are adjacent, in the order
    var, low, high, and fill the record -/
structure LayoutOk : Prop where
  off0 : (fieldAt 0).1 = 0
  off1 : (fieldAt 1).1 = varW
  off2 : (fieldAt 2).1 = varW + lowW
  total : Gen.recordLen = varW + lowW + highW
  w0 : (fieldAt 0).2 = varW
  w1 : (fieldAt 1).2 = lowW
  w2 : (fieldAt 2).2 = highW

theorem layout_ok : LayoutOk := ⟨by decide, by decide, by decide, by decide, rfl, rfl, rfl⟩

/-- the fields fit the widths of the record -/
def FitsBytes (nd : Node) : Prop := nd.var < 256 ^ varW ∧ nd.low < 256 ^ lowW ∧ nd.high < 256 ^ highW

theorem encodeNode_length (nd : Node) : (encodeNode nd).length = Gen.recordLen := by
  simp [encodeNode, nodeBytePieces, leBytes_length, layout_ok.total, Nat.add_assoc]

theorem decodeNode_encodeNode {nd : Node} (h : FitsBytes nd) : decodeNode (encodeNode nd) = nd := by
  obtain ⟨h1, h2, h3⟩ := h
  have L := layout_ok
  have e : encodeNode nd = leBytes varW nd.var ++ (leBytes lowW nd.low ++ leBytes highW nd.high) := by
    simp [encodeNode, nodeBytePieces]
  have s0 : slice (encodeNode nd) (fieldAt 0) = leBytes varW nd.var := by
    unfold slice; rw [L.off0, L.w0, e, List.drop_zero]
    exact List.take_left' (leBytes_length _ _)
  have s1 : slice (encodeNode nd) (fieldAt 1) = leBytes lowW nd.low := by
    unfold slice; rw [L.off1, L.w1, e, List.drop_left' (leBytes_length _ _)]
    exact List.take_left' (leBytes_length _ _)
  have s2 : slice (encodeNode nd) (fieldAt 2) = leBytes highW nd.high := by
    unfold slice; rw [L.off2, L.w2, e, ← List.append_assoc,
      List.drop_left' (by simp [leBytes_length])]
    rw [List.take_of_length_le (by simp [leBytes_length])]
  unfold decodeNode
  rw [s0, s1, s2, leVal_leBytes_of_lt h1, leVal_leBytes_of_lt h2, leVal_leBytes_of_lt h3]

theorem writeBytes_eq (A : Arr) : writeBytes A = A.toList.flatMap encodeNode := by
  unfold writeBytes bytePieces encodeNode
  induction A.toList with
  | nil => rfl
  | cons nd l ih => simp only [List.flatMap_cons, List.flatten_append, ih]

theorem flatMap_encode_length (l : List Node) : (l.flatMap encodeNode).length = Gen.recordLen * l.length := by
  induction l with
  | nil => rfl
  | cons nd l ih => simp [List.flatMap_cons, encodeNode_length, ih, Nat.mul_succ, Nat.add_comm]

/-- decode a byte stream record by record; a trailing partial record is ignored -/
def decodeRecs (data : List UInt8) (acc : Arr) : Arr :=
  if _h : Gen.recordLen ≤ data.length then
    decodeRecs (data.drop Gen.recordLen) (acc.push (decodeNode (data.take Gen.recordLen)))
  else acc
termination_by data.length
decreasing_by
  have := recordLen_pos
  simp only [List.length_drop]; omega

theorem decodeRecs_short {data : List UInt8} {acc : Arr} (h : data.length < Gen.recordLen) :
    decodeRecs data acc = acc := by
  rw [decodeRecs]; simp [Nat.not_le.mpr h]

theorem decodeRecs_long {data : List UInt8} {acc : Arr} (h : Gen.recordLen ≤ data.length) :
    decodeRecs data acc =
      decodeRecs (data.drop Gen.recordLen) (acc.push (decodeNode (data.take Gen.recordLen))) := by
  rw [decodeRecs]; simp [h]

theorem decodeRecs_encode : ∀ (l : List Node) (acc : Arr), (∀ nd ∈ l, FitsBytes nd) →
    decodeRecs (l.flatMap encodeNode) acc = acc ++ l.toArray := by
  intro l
  induction l with
  | nil => intro acc _; rw [decodeRecs_short (by simpa using recordLen_pos)]; simp
  | cons nd l ih =>
    intro acc h
    rw [List.flatMap_cons, decodeRecs_long (by simp [encodeNode_length]),
      List.drop_left' (encodeNode_length nd), List.take_left' (encodeNode_length nd),
      decodeNode_encodeNode (h nd (by simp)), ih _ (fun x hx => h x (by simp [hx]))]
    apply Array.ext'; simp

end B.Serial
