import BddVerif.Core.ApplyCanon
import BddVerif.Model.Relation
/-!
Basic facts for the C06 proofs (own copies, so that this file depends on the frozen core only):
the whole-array denotation `sem` (exactly what the driver's `evalArr` computes), canonical arrays are
well-formed operands whose `sem` is the function they were built from, the regenerated tables are
consistent with their connectives, and the generic "apply = canon of the pointwise connective" rule in
terms of `sem`.
-/
namespace B.Rel
open B Std

/-- denotation of a whole array as an operand: evaluate the root (last node) with fuel `num_vars + 1`;
    literally `Drive.evalArr` -/
def sem (A : Arr) (v : Nat → Bool) : Bool := evW A (numVars A) v (root A)

/-- `f` looks only at the variables below `n` -/
def DepN (n : Nat) (f : (Nat → Bool) → Bool) : Prop :=
  ∀ v w : Nat → Bool, (∀ i, i < n → v i = w i) → f v = f w

theorem sem_eq {A : Arr} {n : Nat} (h : WFo A n) (v : Nat → Bool) : sem A v = evW A n v (root A) := by
  unfold sem; rw [numVars_of_wf h]

theorem sem_dep {A : Arr} {n : Nat} (h : WFo A n) : DepN n (sem A) := by
  intro v w hvw
  rw [sem_eq h, sem_eq h]
  exact evW_indep h n _ (root_lt h) (by omega) v w (fun i _ hin => hvw i hin)

theorem wfo_mkFalse (n : Nat) : WFo (mkFalse n) n := by
  refine ⟨rfl, ?_, ?_⟩
  · intro h; rw [mkFalse_size] at h; omega
  · intro p nd hp hnd
    have : (mkFalse n)[p]? = none := Array.getElem?_eq_none (by rw [mkFalse_size]; omega)
    rw [this] at hnd; cases hnd

theorem wfo_mkTrue (n : Nat) : WFo (mkTrue n) n := by
  refine ⟨rfl, fun _ => rfl, ?_⟩
  intro p nd hp hnd
  have : (mkTrue n)[p]? = none := Array.getElem?_eq_none (by rw [mkTrue_size]; omega)
  rw [this] at hnd; cases hnd

/-- a post-order reduced array with exact terminals is a well-formed operand -/
theorem wfo_of_red {A : Arr} {n : Nat} (h : Red A n) (t0 : A[0]? = some ⟨n, 0, 0⟩)
    (t1 : A[1]? = some ⟨n, 1, 1⟩) : WFo A n := by
  refine ⟨t0, fun _ => t1, ?_⟩
  intro p nd hp hnd
  have hps : p < A.size := by
    rcases Nat.lt_or_ge p A.size with h' | h'
    · exact h'
    · simp [Array.getElem?_eq_none h'] at hnd
  obtain ⟨a, b, c, _, e, f⟩ := h.inner p nd hp hnd
  exact ⟨a, by omega, by omega, e, f⟩

/-- on such arrays the index-fuelled and the level-fuelled evaluation agree -/
theorem ev_eq_evW {A : Arr} {n : Nat} (h : Red A n) (hw : WFo A n) (v : Nat → Bool) :
    ∀ p, p < A.size → ev A v p = evW A n v p := by
  intro p
  induction p using Nat.strongRecOn with
  | _ p ih =>
    intro hp
    by_cases h0 : p = 0
    · subst h0; rw [ev_zero, evW_zero]
    by_cases h1 : p = 1
    · subst h1; rw [ev_one, evW_one]
    have hp2 : 2 ≤ p := by omega
    have hnd : A[p]? = some A[p] := by simp [hp]
    obtain ⟨_, hl, hh, _, _, _⟩ := h.inner p A[p] hp2 hnd
    rw [ev_node h v p hp2 _ hnd, evW_node hw v p hp2 _ hnd]
    rw [ih _ hl (by omega), ih _ hh (by omega)]

/-- the canonical array of a function of the first `n` variables is a well-formed operand and denotes
    the function -/
theorem canon_wfo_sem {n : Nat} {f : (Nat → Bool) → Bool} (hdep : DepN n f) :
    WFo (canon n f) n ∧ ∀ v, sem (canon n f) v = f v := by
  rcases canon_spec n f hdep with ⟨e, hf⟩ | ⟨hred, e, _, hev⟩
  · rw [e]
    refine ⟨wfo_mkFalse n, ?_⟩
    intro v; rw [hf v, sem_eq (wfo_mkFalse n)]; exact evW_zero _ _ _
  · have hdep' : ∀ v w : Nat → Bool, (∀ i, 0 ≤ i → i < n → v i = w i) → f v = f w :=
      fun v w h => hdep v w (fun i hi => h i (Nat.zero_le _) hi)
    obtain ⟨_, hpre, _, _, _⟩ := ins_spec n 0 f (mkTrue n) (red_mkTrue n) (by omega) hdep'
    rw [← e] at hpre
    have t0 : (canon n f)[0]? = some ⟨n, 0, 0⟩ := by rw [hpre.2 0 (by rw [mkTrue_size]; omega)]; rfl
    have t1 : (canon n f)[1]? = some ⟨n, 1, 1⟩ := by rw [hpre.2 1 (by rw [mkTrue_size]; omega)]; rfl
    have hw := wfo_of_red hred t0 t1
    refine ⟨hw, ?_⟩
    intro v
    rw [sem_eq hw, ← ev_eq_evW hred hw v _ (root_lt hw)]
    exact hev v

theorem canon_wfo {n : Nat} {f : (Nat → Bool) → Bool} (hdep : DepN n f) : WFo (canon n f) n :=
  (canon_wfo_sem hdep).1

theorem sem_canon {n : Nat} {f : (Nat → Bool) → Bool} (hdep : DepN n f) (v : Nat → Bool) :
    sem (canon n f) v = f v := (canon_wfo_sem hdep).2 v

/-- `canon` of its own denotation: canonical arrays are fixed points -/
theorem canon_sem_canon {n : Nat} {f : (Nat → Bool) → Bool} (hdep : DepN n f) :
    canon n (sem (canon n f)) = canon n f := canon_congr (sem_canon hdep)

/-! ### the regenerated tables -/

theorem and_consistent : Consistent Gen.and_ (fun a b => a && b) := by constructor <;> decide
theorem or_consistent : Consistent Gen.or_ (fun a b => a || b) := by constructor <;> decide
theorem and_not_consistent : Consistent Gen.and_not_ (fun a b => a && !b) := by constructor <;> decide

/-! ### valuations with one flipped / overwritten variable -/

/-- flip variable `x` -/
def flipV (x : Nat) (v : Nat → Bool) : Nat → Bool := inv (some x) v

theorem flipV_at (x : Nat) (v : Nat → Bool) : flipV x v x = !(v x) := by simp [flipV, inv]
theorem flipV_ne (x : Nat) (v : Nat → Bool) (i : Nat) (h : i ≠ x) : flipV x v i = v i := by
  simp [flipV, inv, h]
theorem flipV_flipV (x : Nat) (v : Nat → Bool) : flipV x (flipV x v) = v := by
  funext i
  by_cases h : i = x
  · subst h; simp [flipV_at]
  · simp [flipV_ne _ _ _ h]

theorem inv_none (v : Nat → Bool) : inv none v = v := rfl

/-! ### apply in terms of `sem` -/

theorem apply_dep {L R : Arr} {n : Nat} (hL : WFo L n) (hR : WFo R n) (c : Bool → Bool → Bool)
    (fl fr fo : Option Nat) :
    DepN n (fun v => c (sem L (inv fl (inv fo v))) (sem R (inv fr (inv fo v)))) := by
  intro v w hvw
  have := specFn_dep L R n c fl fr fo hL hR v w hvw
  simp only [specFn] at this
  simp only [sem_eq hL, sem_eq hR]
  exact this

/-- the central rule, in terms of `sem` -/
theorem apply_canon {L R : Arr} {n : Nat} {op : Op2} {c : Bool → Bool → Bool} {fl fr fo : Option Nat}
    (hL : WFo L n) (hR : WFo R n) (hc : Consistent op c)
    (hfl : ∀ x, fl = some x → x < n) (hfr : ∀ x, fr = some x → x < n) (hfo : ∀ x, fo = some x → x < n) :
    applyWithFlip L R op fl fr fo =
      canon n (fun v => c (sem L (inv fl (inv fo v))) (sem R (inv fr (inv fo v)))) := by
  rw [applyWithFlip_eq_canon L R n op c fl fr fo hL hR (numVars_of_wf hL) hc hfl hfr hfo]
  apply canon_congr
  intro v
  rw [sem_eq hL, sem_eq hR]

/-- conjunction -/
theorem bddAnd_canon {L R : Arr} {n : Nat} (hL : WFo L n) (hR : WFo R n) :
    bddAnd L R = canon n (fun v => sem L v && sem R v) := by
  unfold bddAnd
  rw [apply_canon hL hR and_consistent (by simp) (by simp) (by simp)]
  rfl

theorem and_dep {f g : (Nat → Bool) → Bool} {n : Nat} (hf : DepN n f) (hg : DepN n g) :
    DepN n (fun v => f v && g v) := by
  intro v w h; simp only [hf v w h, hg v w h]

/-- a value `A` known to be `canon n f` with `f` below `n`: the shape in which results are passed on -/
structure IsCanon (A : Arr) (n : Nat) (f : (Nat → Bool) → Bool) : Prop where
  eq : A = canon n f
  dep : DepN n f

theorem IsCanon.wfo {A : Arr} {n : Nat} {f} (h : IsCanon A n f) : WFo A n := by
  rw [h.eq]; exact canon_wfo h.dep
theorem IsCanon.sem {A : Arr} {n : Nat} {f} (h : IsCanon A n f) (v : Nat → Bool) : sem A v = f v := by
  rw [h.eq]; exact sem_canon h.dep v
theorem IsCanon.congr {A : Arr} {n : Nat} {f g} (h : IsCanon A n f) (hfg : ∀ v, f v = g v) : IsCanon A n g := by
  have : f = g := funext hfg
  rw [← this]; exact h

theorem bddAnd_isCanon {L R : Arr} {n : Nat} (hL : WFo L n) (hR : WFo R n) :
    IsCanon (bddAnd L R) n (fun v => sem L v && sem R v) :=
  ⟨bddAnd_canon hL hR, and_dep (sem_dep hL) (sem_dep hR)⟩

end B.Rel
