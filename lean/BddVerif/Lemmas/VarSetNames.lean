import BddVerif.Model.VarSet
import Std.Data.String.ToNat
/-!
The name ↔ variable maps of `BddVariableSet::new`, `new_anonymous` and the builder: the hash map built by
`buildIndex` sends every name of a duplicate-free list to its position and nothing else to anything; its size
tells whether the list had a duplicate.
-/
namespace B.VS
open Std

theorem validName_iff (s : String) : validName s = true ↔ ∀ c ∈ s.toList, c ∉ Gen.notInVarName := by
  unfold validName
  simp only [Bool.not_eq_true', List.any_eq_false, List.contains_iff_mem]

/-! ### `buildIndex` -/

theorem buildIndex_mem : ∀ (l : List String) (i : Nat) (m : HashMap String Nat) (s : String),
    s ∈ buildIndex l i m ↔ s ∈ m ∨ s ∈ l
  | [], _, _, _ => by simp [buildIndex]
  | a :: t, i, m, s => by
    rw [buildIndex, buildIndex_mem t (i + 1) (m.insert a i) s, HashMap.mem_insert]
    simp only [beq_iff_eq, List.mem_cons]
    constructor
    · rintro ((h | h) | h)
      · exact Or.inr (Or.inl h.symm)
      · exact Or.inl h
      · exact Or.inr (Or.inr h)
    · rintro (h | h | h)
      · exact Or.inl (Or.inr h)
      · exact Or.inl (Or.inl h.symm)
      · exact Or.inr h

theorem buildIndex_size_le : ∀ (l : List String) (i : Nat) (m : HashMap String Nat),
    (buildIndex l i m).size ≤ m.size + l.length
  | [], _, _ => by simp [buildIndex]
  | a :: t, i, m => by
    have := buildIndex_size_le t (i + 1) (m.insert a i)
    rw [buildIndex]
    have hs : (m.insert a i).size ≤ m.size + 1 := by
      rw [HashMap.size_insert]; split <;> omega
    simp only [List.length_cons]; omega

/-- the size test of `new`: the map has as many entries as there are names iff no name repeats -/
theorem buildIndex_size_eq : ∀ (l : List String) (i : Nat) (m : HashMap String Nat),
    (buildIndex l i m).size = m.size + l.length ↔ (l.Nodup ∧ ∀ s ∈ l, s ∉ m)
  | [], _, _ => by simp [buildIndex]
  | a :: t, i, m => by
    have ih := buildIndex_size_eq t (i + 1) (m.insert a i)
    have hle := buildIndex_size_le t (i + 1) (m.insert a i)
    rw [buildIndex]
    have hs : (m.insert a i).size = if a ∈ m then m.size else m.size + 1 := HashMap.size_insert
    simp only [List.length_cons, List.nodup_cons, List.mem_cons]
    constructor
    · intro h
      have ham : a ∉ m := by
        intro ham; rw [if_pos ham] at hs; omega
      rw [if_neg ham] at hs
      have := ih.1 (by omega)
      obtain ⟨hnd, hdis⟩ := this
      refine ⟨⟨?_, hnd⟩, ?_⟩
      · intro hat
        exact hdis a hat (HashMap.mem_insert.2 (Or.inl (by simp)))
      · rintro s (rfl | hs')
        · exact ham
        · intro hsm; exact hdis s hs' (HashMap.mem_insert.2 (Or.inr hsm))
    · rintro ⟨⟨hat, hnd⟩, hdis⟩
      have ham : a ∉ m := hdis a (Or.inl rfl)
      rw [if_neg ham] at hs
      have := ih.2 ⟨hnd, by
        intro s hs' hsm
        rcases HashMap.mem_insert.1 hsm with h | h
        · simp only [beq_iff_eq] at h; subst h; exact hat hs'
        · exact hdis s (Or.inr hs') h⟩
      omega

/-- names outside the list keep their old entry -/
theorem buildIndex_get_other : ∀ (l : List String) (i : Nat) (m : HashMap String Nat) (s : String),
    s ∉ l → (buildIndex l i m)[s]? = m[s]?
  | [], _, _, _, _ => by simp [buildIndex]
  | a :: t, i, m, s, h => by
    have hsa : ¬ a = s := fun e => h (by simp [e])
    have hst : s ∉ t := fun e => h (by simp [e])
    rw [buildIndex, buildIndex_get_other t (i + 1) (m.insert a i) s hst, HashMap.getElem?_insert]
    simp [hsa]

/-- the `j`-th name of a duplicate-free list is sent to `i + j` -/
theorem buildIndex_get_mem : ∀ (l : List String) (i : Nat) (m : HashMap String Nat), l.Nodup →
    ∀ j (h : j < l.length), (buildIndex l i m)[l[j]]? = some (i + j)
  | [], _, _, _, j, h => by simp at h
  | a :: t, i, m, hnd, j, h => by
    rw [List.nodup_cons] at hnd
    rw [buildIndex]
    cases j with
    | zero =>
      simp only [List.getElem_cons_zero, Nat.add_zero]
      rw [buildIndex_get_other t (i + 1) (m.insert a i) a hnd.1, HashMap.getElem?_insert_self]
    | succ j =>
      simp only [List.getElem_cons_succ]
      rw [buildIndex_get_mem t (i + 1) (m.insert a i) hnd.2 j (by simpa using h)]
      congr 1; omega

/-! ### faithful variable sets -/

/-- "the set maps names to variables bijectively in declaration order" -/
structure Faithful (vs : VarSet) (names : List String) : Prop where
  numVars : vs.numVars = names.length
  variables : vs.variables = List.range names.length
  variableNames : vs.variableNames = names
  /-- `var_by_name(name_of(v)) = v` -/
  byName : ∀ j (h : j < names.length), vs.varByName names[j] = some j
  /-- unknown names give `None` -/
  unknown : ∀ s, s ∉ names → vs.varByName s = none
  nameOf : ∀ j (h : j < names.length), vs.nameOf j = .ok names[j]
  /-- a variable that is not in the set is an out-of-bounds index -/
  nameOfOut : ∀ j, names.length ≤ j → ∃ m, vs.nameOf j = .panic m

/-- the other direction of the bijection: a successful look-up returns the position of the name -/
theorem Faithful.byName_inv {vs : VarSet} {names : List String} (h : Faithful vs names) (s : String) (j : Nat)
    (hs : vs.varByName s = some j) : ∃ hj : j < names.length, names[j] = s := by
  by_cases hmem : s ∈ names
  · obtain ⟨i, hi, rfl⟩ := List.getElem_of_mem hmem
    rw [h.byName i hi] at hs
    cases hs
    exact ⟨hi, rfl⟩
  · rw [h.unknown s hmem] at hs; cases hs

theorem faithful_of_index (names : List String) (hnd : names.Nodup) :
    Faithful ⟨names.length, names.toArray, buildIndex names 0 {}⟩ names := by
  refine ⟨rfl, rfl, by simp [VarSet.variableNames], ?_, ?_, ?_, ?_⟩
  · intro j h
    show (buildIndex names 0 {})[names[j]]? = some j
    rw [buildIndex_get_mem names 0 {} hnd j h]; simp
  · intro s hs
    show (buildIndex names 0 {})[s]? = none
    rw [buildIndex_get_other names 0 {} s hs]
    exact HashMap.getElem?_empty
  · intro j h
    simp [VarSet.nameOf, h]
  · intro j h
    have : names.toArray[j]? = none := by simp [h]
    simp only [VarSet.nameOf, this]
    exact ⟨_, rfl⟩

/-- what `new` accepts -/
def Acceptable (maxLen : Nat) (names : List String) : Prop :=
  names.length ≤ maxLen ∧ (∀ s ∈ names, validName s = true) ∧ names.Nodup

theorem empty_size : ({} : HashMap String Nat).size = 0 := HashMap.size_empty

theorem new_ok (names : List String) (h : Acceptable 65533 names) :
    ∃ vs, VS.new names = .ok vs ∧ Faithful vs names := by
  obtain ⟨hlen, hvalid, hnd⟩ := h
  unfold VS.new
  rw [if_neg (by unfold limit; omega)]
  have hany : (names.any fun s => !validName s) = false := by
    rw [List.any_eq_false]; intro s hs; simp [hvalid s hs]
  rw [hany]
  have hsize : (buildIndex names 0 {}).size = names.length := by
    have := (buildIndex_size_eq names 0 {}).2 ⟨hnd, fun s _ => HashMap.not_mem_empty⟩
    rw [empty_size] at this; omega
  simp only [Bool.false_eq_true, if_false, hsize, ne_eq, not_true_eq_false]
  exact ⟨_, rfl, faithful_of_index names hnd⟩

theorem new_panic (names : List String) (h : ¬ Acceptable 65533 names) : ∃ m, VS.new names = .panic m := by
  unfold VS.new
  by_cases h1 : names.length ≥ limit
  · rw [if_pos h1]; exact ⟨_, rfl⟩
  rw [if_neg h1]
  by_cases h2 : (names.any fun s => !validName s) = true
  · rw [if_pos h2]; exact ⟨_, rfl⟩
  rw [if_neg h2]
  by_cases h3 : (buildIndex names 0 {}).size ≠ names.length
  · rw [if_pos h3]; exact ⟨_, rfl⟩
  · exfalso
    apply h
    refine ⟨by unfold limit at h1; omega, ?_, ?_⟩
    · intro s hs
      simp only [List.any_eq_true, Bool.not_eq_true', not_exists, not_and, Bool.not_eq_false] at h2
      exact h2 s hs
    · have h3' : (buildIndex names 0 {}).size = names.length := by
        rcases Nat.decEq (buildIndex names 0 {}).size names.length with e | e
        · exact absurd e h3
        · exact e
      exact ((buildIndex_size_eq names 0 {}).1 (by rw [empty_size]; omega)).1

/-! ### anonymous sets -/

theorem anonName_inj {i j : Nat} (h : anonName i = anonName j) : i = j := by
  unfold anonName at h
  rw [String.append_right_inj] at h
  exact Nat.repr_injective h

theorem anon_nodup (k : Nat) : ((List.range k).map anonName).Nodup := by
  rw [List.Nodup, List.pairwise_map]
  exact List.Pairwise.imp (fun h e => h (anonName_inj e)) List.nodup_range

theorem newAnonymous_ok (k : Nat) (hk : k ≤ 65533) :
    ∃ vs, newAnonymous k = .ok vs ∧ Faithful vs ((List.range k).map anonName) := by
  unfold newAnonymous
  rw [if_neg (by unfold limit; omega)]
  refine ⟨_, rfl, ?_⟩
  have := faithful_of_index ((List.range k).map anonName) (anon_nodup k)
  simpa using this

theorem newAnonymous_panic (k : Nat) (hk : 65533 < k) : ∃ m, newAnonymous k = .panic m := by
  unfold newAnonymous
  rw [if_pos (by unfold limit; omega)]
  exact ⟨_, rfl⟩

/-! ### the builder -/

/-- the set of the builder mirrors its name vector -/
def Builder.Inv (b : Builder) : Prop := ∀ s, b.set.contains s = true ↔ s ∈ b.names.toList

theorem Builder.inv_empty : Builder.empty.Inv := by
  intro s; simp [Builder.empty]

/-- what a sequence of `make_variable` calls accepts, starting from a builder with names `b.names` -/
def BAcceptable (b : Builder) (l : List String) : Prop :=
  b.names.size + l.length ≤ limit ∧ (∀ s ∈ l, validName s = true) ∧ l.Nodup ∧ ∀ s ∈ l, s ∉ b.names.toList

theorem makeVariables_ok : ∀ (l : List String) (b : Builder), b.Inv → BAcceptable b l →
    ∃ b', b.makeVariables l = .ok (b', List.range' b.names.size l.length) ∧
      b'.names = b.names ++ l.toArray ∧ b'.Inv
  | [], b, hinv, _ => ⟨b, by simp [Builder.makeVariables], by simp, hinv⟩
  | a :: t, b, hinv, h => by
    obtain ⟨hlen, hvalid, hnd, hdis⟩ := h
    rw [List.nodup_cons] at hnd
    simp only [List.length_cons] at hlen
    have hstep : b.makeVariable a = .ok (⟨b.names.push a, b.set.insert a⟩, b.names.size) := by
      unfold Builder.makeVariable
      have h1 : ¬ b.names.size ≥ limit := by omega
      have h2 : b.set.contains a = false := by
        cases hc : b.set.contains a with
        | false => rfl
        | true => exact absurd ((hinv a).1 hc) (hdis a (by simp))
      simp [h1, h2, hvalid a (by simp)]
    have hinv1 : Builder.Inv ⟨b.names.push a, b.set.insert a⟩ := by
      intro s
      simp only [HashSet.contains_insert, Bool.or_eq_true, beq_iff_eq, Array.toList_push, List.mem_append,
        List.mem_singleton]
      rw [hinv s]
      constructor
      · rintro (h | h)
        · exact Or.inr h.symm
        · exact Or.inl h
      · rintro (h | h)
        · exact Or.inr h
        · exact Or.inl h.symm
    have hacc1 : BAcceptable ⟨b.names.push a, b.set.insert a⟩ t := by
      refine ⟨by simp; omega, fun s hs => hvalid s (by simp [hs]), hnd.2, ?_⟩
      intro s hs
      simp only [Array.toList_push, List.mem_append, List.mem_singleton, not_or]
      exact ⟨hdis s (by simp [hs]), fun e => hnd.1 (e ▸ hs)⟩
    obtain ⟨b', hb', hnames, hinv'⟩ := makeVariables_ok t _ hinv1 hacc1
    refine ⟨b', ?_, ?_, hinv'⟩
    · simp only [Builder.makeVariables, hstep, hb']
      simp [List.range'_succ]
    · rw [hnames]; simp

theorem makeVariables_panic : ∀ (l : List String) (b : Builder), b.Inv → b.names.size ≤ limit → ¬ BAcceptable b l →
    ∃ m, b.makeVariables l = .panic m
  | [], b, _, hsz, h => by
    exfalso; apply h
    exact ⟨by simpa using hsz, by simp, by simp, by simp⟩
  | a :: t, b, hinv, hsz, h => by
    simp only [Builder.makeVariables]
    by_cases h1 : b.names.size ≥ limit
    · have : b.makeVariable a = .panic "Too many BDD variables." := by simp [Builder.makeVariable, h1]
      rw [this]; exact ⟨_, rfl⟩
    by_cases h2 : b.set.contains a = true
    · have : b.makeVariable a = .panic "BDD variable already exists." := by simp [Builder.makeVariable, h1, h2]
      rw [this]; exact ⟨_, rfl⟩
    by_cases h3 : validName a = true
    · have hstep : b.makeVariable a = .ok (⟨b.names.push a, b.set.insert a⟩, b.names.size) := by
        simp [Builder.makeVariable, h1, h2, h3]
      have hinv1 : Builder.Inv ⟨b.names.push a, b.set.insert a⟩ := by
        intro s
        simp only [HashSet.contains_insert, Bool.or_eq_true, beq_iff_eq, Array.toList_push, List.mem_append,
          List.mem_singleton]
        rw [hinv s]
        constructor
        · rintro (h | h)
          · exact Or.inr h.symm
          · exact Or.inl h
        · rintro (h | h)
          · exact Or.inr h
          · exact Or.inl h.symm
      have hnot : ¬ BAcceptable ⟨b.names.push a, b.set.insert a⟩ t := by
        rintro ⟨hlen, hvalid, hnd, hdis⟩
        apply h
        simp only [Array.size_push, Array.toList_push, List.mem_append, List.mem_singleton, not_or] at hlen hdis
        refine ⟨by simp only [List.length_cons]; omega, ?_, ?_, ?_⟩
        · intro s hs
          rcases List.mem_cons.1 hs with rfl | hs
          · exact h3
          · exact hvalid s hs
        · rw [List.nodup_cons]
          exact ⟨fun hat => (hdis a hat).2 rfl, hnd⟩
        · intro s hs
          rcases List.mem_cons.1 hs with rfl | hs
          · intro hmem; exact h2 ((hinv s).2 hmem)
          · exact (hdis s hs).1
      obtain ⟨m, hm⟩ := makeVariables_panic t _ hinv1 (by simp only [Array.size_push]; omega) hnot
      rw [hstep]
      simp only [hm]
      exact ⟨_, rfl⟩
    · have : b.makeVariable a = .panic "Variable name is invalid." := by simp [Builder.makeVariable, h1, h2, h3]
      rw [this]; exact ⟨_, rfl⟩

theorem bacceptable_empty (names : List String) : BAcceptable Builder.empty names ↔ Acceptable 65534 names := by
  unfold BAcceptable Acceptable
  simp [Builder.empty, limit]

theorem viaBuilder_ok (names : List String) (h : Acceptable 65534 names) :
    ∃ vs, viaBuilder names = .ok (vs, List.range names.length) ∧ Faithful vs names := by
  obtain ⟨b', hb', hnames, _⟩ := makeVariables_ok names Builder.empty Builder.inv_empty ((bacceptable_empty names).2 h)
  have hn : b'.names = names.toArray := by rw [hnames]; simp [Builder.empty]
  refine ⟨b'.build, ?_, ?_⟩
  · unfold viaBuilder
    rw [hb']
    simp [Builder.empty, List.range_eq_range']
  · unfold Builder.build
    rw [hn]
    have := faithful_of_index names h.2.2
    simpa using this

theorem viaBuilder_panic (names : List String) (h : ¬ Acceptable 65534 names) : ∃ m, viaBuilder names = .panic m := by
  obtain ⟨m, hm⟩ := makeVariables_panic names Builder.empty Builder.inv_empty (by simp [Builder.empty])
    (fun hb => h ((bacceptable_empty names).1 hb))
  unfold viaBuilder
  rw [hm]
  exact ⟨_, rfl⟩

end B.VS
