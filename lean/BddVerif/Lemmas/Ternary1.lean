import BddVerif.Core.ApplyCanon
import BddVerif.Model.Ternary
namespace B
open Std

/-! Simulation of the ternary model (`Model/Ternary.lean`) by the reference builder, part 1:
    consistency of a partial ternary table, task function, invariant, contracts, `solve3`. -/

/-- `a` is a completion of the partially known argument `x` -/
def Fits (x : Option Bool) (a : Bool) : Prop := ∀ b, x = some b → a = b

theorem Fits.some (a : Bool) : Fits (some a) a := fun _ h => by cases h; rfl
theorem Fits.none (a : Bool) : Fits none a := fun _ h => by cases h

/-- consistency of a partial ternary table with a connective: the table answers whenever all three
    arguments are known, and whenever it answers (with any arguments unknown) every completion of
    the unknown arguments has that value -/
structure Consistent3 (op : Op3) (c : Bool → Bool → Bool → Bool) : Prop where
  total : ∀ x y z, op (some x) (some y) (some z) = some (c x y z)
  sound : ∀ x y z r, op x y z = some r → ∀ a b d, Fits x a → Fits y b → Fits z d → c a b d = r

structure Ctx3.Ok (Γ : Ctx3) (c : Bool → Bool → Bool → Bool) : Prop where
  wfA : WFo Γ.A Γ.n
  wfB : WFo Γ.B Γ.n
  wfC : WFo Γ.C Γ.n
  cons : Consistent3 Γ.op c
  hfa : ∀ x, Γ.fa = some x → x < Γ.n
  hfb : ∀ x, Γ.fb = some x → x < Γ.n
  hfc : ∀ x, Γ.fc = some x → x < Γ.n

def Ctx3.F (Γ : Ctx3) (c : Bool → Bool → Bool → Bool) (a b e : Nat) (u : Nat → Bool) : Bool :=
  c (evW Γ.A Γ.n (inv Γ.fa u) a) (evW Γ.B Γ.n (inv Γ.fb u) b) (evW Γ.C Γ.n (inv Γ.fc u) e)
def Ctx3.G (Γ : Ctx3) (c : Bool → Bool → Bool → Bool) (a b e : Nat) (v : Nat → Bool) : Bool :=
  Γ.F c a b e (inv Γ.fo v)

/-- decision level of a task -/
def Ctx3.lvl (Γ : Ctx3) (a b e : Nat) : Nat :=
  min (varOf Γ.A Γ.n a) (min (varOf Γ.B Γ.n b) (varOf Γ.C Γ.n e))

theorem Ctx3.G_indep (Γ : Ctx3) (c : Bool → Bool → Bool → Bool) (ok : Γ.Ok c) (a b e : Nat)
    (ha : a < Γ.A.size) (hb : b < Γ.B.size) (he : e < Γ.C.size) (k : Nat)
    (hka : k ≤ varOf Γ.A Γ.n a) (hkb : k ≤ varOf Γ.B Γ.n b) (hke : k ≤ varOf Γ.C Γ.n e) (v w : Nat → Bool)
    (hvw : ∀ i, k ≤ i → i < Γ.n → v i = w i) : Γ.G c a b e v = Γ.G c a b e w := by
  unfold Ctx3.G Ctx3.F
  congr 1
  · apply evW_indep ok.wfA Γ.n a ha (by omega)
    intro i hi hin
    exact inv_agree _ _ _ _ (inv_agree _ _ _ _ (hvw i (by omega) hin))
  · apply evW_indep ok.wfB Γ.n b hb (by omega)
    intro i hi hin
    exact inv_agree _ _ _ _ (inv_agree _ _ _ _ (hvw i (by omega) hin))
  · apply evW_indep ok.wfC Γ.n e he (by omega)
    intro i hi hin
    exact inv_agree _ _ _ _ (inv_agree _ _ _ _ (hvw i (by omega) hin))

/-- Shannon step of the task function through `kids` (with input and output flips) -/
theorem Ctx3.G_split (Γ : Ctx3) (c : Bool → Bool → Bool → Bool) (ok : Γ.Ok c) (a b e : Nat)
    (ha : a < Γ.A.size) (hb : b < Γ.B.size) (he : e < Γ.C.size) (d : Nat)
    (hda : d ≤ varOf Γ.A Γ.n a) (hdb : d ≤ varOf Γ.B Γ.n b) (hde : d ≤ varOf Γ.C Γ.n e) (hdn : d < Γ.n)
    (t : Bool) (v : Nat → Bool) :
    Γ.G c a b e (upd v d t) =
      Γ.G c (sel (if Γ.fo = some d then !t else t) (kids Γ.A a d Γ.fa))
          (sel (if Γ.fo = some d then !t else t) (kids Γ.B b d Γ.fb))
          (sel (if Γ.fo = some d then !t else t) (kids Γ.C e d Γ.fc)) v := by
  unfold Ctx3.G Ctx3.F
  rw [inv_upd]
  rw [(evW_kids ok.wfA a ha d hda hdn Γ.fa _ _).1, (evW_kids ok.wfB b hb d hdb hdn Γ.fb _ _).1,
    (evW_kids ok.wfC e he d hde hdn Γ.fc _ _).1]

structure Inv3 (Γ : Ctx3) (c : Bool → Bool → Bool → Bool) (s : St3) : Prop where
  red : Red s.res Γ.n
  ex : ∀ (nd : Node) (i : Nat), nd.var < Γ.n → (s.existing[nd]? = some i ↔ 2 ≤ i ∧ s.res[i]? = some nd)
  fin : ∀ (a b e p : Nat), s.finished[(a, b, e)]? = some p →
      p < s.res.size ∧ Γ.lvl a b e ≤ varOf s.res Γ.n p ∧
      ∀ v, ev s.res v p = Γ.G c a b e v
  ne : ∀ (a b e p : Nat), s.finished[(a, b, e)]? = some p → p ≠ 0 → s.nonEmpty = true

/-- what a (sub-)computation on task (a, b, e), entered at level k from state s, must deliver -/
structure Out3 (Γ : Ctx3) (c : Bool → Bool → Bool → Bool) (s : St3) (a b e k : Nat) (out : St3 × Nat) : Prop where
  inv : Inv3 Γ c out.1
  eq : (out.1.res, out.2) = ins Γ.n (Γ.n - k) k (Γ.G c a b e) s.res
  neFalse : (∀ v, Γ.G c a b e v = false) → out.1.nonEmpty = s.nonEmpty
  neTrue : 2 ≤ out.2 → out.1.nonEmpty = true
  mono : s.nonEmpty = true → out.1.nonEmpty = true

/-- contract of a genuine task computation (`applyStep3`, not a bare terminal look-up) -/
structure OutR3 (Γ : Ctx3) (c : Bool → Bool → Bool → Bool) (s : St3) (a b e k : Nat) (out : St3 × Nat) : Prop
    extends Out3 Γ c s a b e k out where
  nz : out.2 ≠ 0 → out.1.nonEmpty = true

def Spec3 (Γ : Ctx3) (c : Bool → Bool → Bool → Bool) (rec : Nat → Nat → Nat → St3 → St3 × Nat) (k : Nat) : Prop :=
  ∀ a b e s, Inv3 Γ c s → a < Γ.A.size → b < Γ.B.size → e < Γ.C.size →
    k ≤ varOf Γ.A Γ.n a → k ≤ varOf Γ.B Γ.n b → k ≤ varOf Γ.C Γ.n e →
    OutR3 Γ c s a b e k (rec a b e s)

theorem fits_asBool (L : Arr) (n : Nat) (p : Nat) (v : Nat → Bool) : Fits (asBool p) (evW L n v p) :=
  fun x h => asBool_some p x h v

/-- a terminal look-up that answers determines the task function -/
theorem Ctx3.G_const (Γ : Ctx3) (c : Bool → Bool → Bool → Bool) (ok : Γ.Ok c) (a b e : Nat) (t : Bool)
    (h : Γ.op (asBool a) (asBool b) (asBool e) = some t) (v) : Γ.G c a b e v = t :=
  ok.cons.sound _ _ _ t h _ _ _ (fits_asBool _ _ _ _) (fits_asBool _ _ _ _) (fits_asBool _ _ _ _)

/-- `solve3` meets the output contract at level k if `rec` does -/
theorem solve3_out (Γ : Ctx3) (c : Bool → Bool → Bool → Bool) (ok : Γ.Ok c) (rec) (k : Nat) (hk : k ≤ Γ.n)
    (hrec : Spec3 Γ c rec k)
    (a b e : Nat) (s : St3) (hs : Inv3 Γ c s) (ha : a < Γ.A.size) (hb : b < Γ.B.size) (he : e < Γ.C.size)
    (hka : k ≤ varOf Γ.A Γ.n a) (hkb : k ≤ varOf Γ.B Γ.n b) (hke : k ≤ varOf Γ.C Γ.n e) :
    Out3 Γ c s a b e k (solve3 Γ.op rec a b e s) := by
  unfold solve3
  cases hop : Γ.op (asBool a) (asBool b) (asBool e) with
  | none => exact (hrec a b e s hs ha hb he hka hkb hke).toOut3
  | some t =>
    have hG := Γ.G_const c ok a b e t hop
    refine ⟨hs, ?_, fun _ => rfl, ?_, fun h => h⟩
    · have := ins_found hs.red (Γ.n - k) k (Γ.G c a b e) (ofBool t) (by omega) (ofBool_lt hs.red t)
        (by have : varOf s.res Γ.n (ofBool t) = Γ.n := by cases t <;> simp [varOf, ofBool]
            omega)
        (fun v => by rw [hG, ev_ofBool])
      exact this.symm
    · intro h2; cases t <;> simp [ofBool] at h2

end B
