import BddVerif.Lemmas.AlgoEqRealign
import BddVerif.Lemmas.AlgoEqNestedModel
/-!
`inner_apply`: the function GENERATED from the Rust text (`B.Gen.Algo.inner_apply`: explicit task stack, caches passed by
`&mut` and returned in a tuple, fuel-bounded loop) computes the hand-written recursive model `B.innerApply`.

* `inner_desugar`: the generated `do` block is `loopN (iStep op) fuel` of a hand-written step function.
* `iloop_all`: simulation of the recursion by the loop, with the iteration count `≤ 3 * (new cache entries) + 1`.
* `inner_apply_eq_model`.
-/
namespace B.AlgoEq
open B B.Gen Std
attribute [local instance 10000] Rust.monadOutcomeInline

theorem as_bool_eq (p : Nat) : Algo.BddPointer_as_bool p = asBool p := by
  unfold Algo.BddPointer_as_bool asBool
  match p with
  | 0 => rfl
  | 1 => rfl
  | p + 2 => simp

theorem from_bool_eq (b : Bool) : Algo.BddPointer_from_bool b = ofBool b := by
  cases b <;> rfl

abbrev Task := Nat × Nat
/-- loop state of `inner_apply`: `bdd`, `node_cache`, `task_cache`, `output`, `stack` -/
abbrev IS := Arr × HashMap Node Nat × HashMap Task Nat × Nat × Array Task

/-- terminal look-up, then cache look-up (L128-L133) -/
def lookup (op : Op2) (tc : HashMap Task Nat) (a b : Nat) : Option Nat :=
  match op (asBool a) (asBool b) with
  | some c => some (ofBool c)
  | none => tc[(a, b)]?

/-- children `(low, high)` of pointer `p` with node `nd` when expanding on `d` (L106-L115) -/
def kidsOf (p : Nat) (nd : Node) (d : Nat) : Nat × Nat := if nd.var ≠ d then (p, p) else (nd.low, nd.high)

/-- stack after L159-L164 -/
def pushMissing (st : Array Task) (lo hi : Option Nat) (tl th : Task) : Array Task :=
  let st1 := if lo.isNone then st.push tl else st
  if hi.isNone then st1.push th else st1

/-- L136-L157 on the loop state -/
def finishL (bdd : Arr) (nc : HashMap Node Nat) (d lo hi : Nat) : Arr × HashMap Node Nat × Nat :=
  if lo = hi then (bdd, nc, lo)
  else match nc[(⟨d, lo, hi⟩ : Node)]? with
    | some i => (bdd, nc, i)
    | none => (bdd.push ⟨d, lo, hi⟩, nc.insert ⟨d, lo, hi⟩ (Rust.asU32 bdd.size), Rust.asU32 bdd.size)

/-- one iteration of the loop of `inner_apply` (L93-L166), written by hand -/
def iStep (op : Op2) (σ : IS) : Outcome (ForInStep IS) :=
  match σ.2.2.2.2.back? with
  | none => .ok (.done σ)
  | some t =>
    match σ.2.2.1[t]? with
    | some saved => .ok (.yield (σ.1, σ.2.1, σ.2.2.1, saved, σ.2.2.2.2.pop))
    | none =>
      Outcome.bind (Rust.idx σ.1 t.1) fun nl =>
      Outcome.bind (Rust.idx σ.1 t.2) fun nr =>
      let d := min nl.var nr.var
      let kl := kidsOf t.1 nl d
      let kr := kidsOf t.2 nr d
      let lo := lookup op σ.2.2.1 kl.1 kr.1
      let hi := lookup op σ.2.2.1 kl.2 kr.2
      match lo, hi with
      | some lo, some hi =>
        let f := finishL σ.1 σ.2.1 d lo hi
        .ok (.yield (f.1, f.2.1, σ.2.2.1.insert t f.2.2, f.2.2, σ.2.2.2.2.pop))
      | _, _ => .ok (.yield (σ.1, σ.2.1, σ.2.2.1, σ.2.2.2.1, pushMissing σ.2.2.2.2 lo hi (kl.1, kr.1) (kl.2, kr.2)))

theorem lookup_eq (op : Op2) (tc : HashMap Task Nat) (a b : Nat) :
    ((op (Algo.BddPointer_as_bool a) (Algo.BddPointer_as_bool b)).map Algo.BddPointer_from_bool).orElse
      (fun _ => tc[(a, b)]?) = lookup op tc a b := by
  unfold lookup
  rw [as_bool_eq, as_bool_eq]
  cases op (asBool a) (asBool b) with
  | none => rfl
  | some c => simp [from_bool_eq]

theorem inner_desugar (fuel : Nat) (bdd : Arr) (l r : Nat) (nc : HashMap Node Nat) (tc : HashMap Task Nat) (op : Op2) :
    Algo.inner_apply fuel bdd l r nc tc op =
      (Algo.Bdd_num_vars bdd).bind fun _ =>
      (loopN (iStep op) fuel (bdd, nc, tc, 0, #[(l, r)])).bind fun σ =>
      match σ.2.2.2.2.back? with
      | some _ => .panic "fuel"
      | none => .ok (σ.2.2.2.1, σ.1, σ.2.1, σ.2.2.1) := by
  unfold Algo.inner_apply
  simp only []
  cases hn : Algo.Bdd_num_vars bdd with
  | err m => rfl
  | panic m => rfl
  | ok n =>
    simp only [bind_ok, Outcome.bind]
    rw [forIn_range_eq_loopN _ _ _ (iStep op)]
    · have ei : (bdd, nc, tc, Algo.BddPointer_zero, (Rust.vecWithCapacity n).push (l, r)) = ((bdd, nc, tc, 0, #[(l, r)]) : IS) := rfl
      rw [ei]
      cases loopN (iStep op) fuel (bdd, nc, tc, 0, #[(l, r)]) with
      | err m => rfl
      | panic m => rfl
      | ok σ =>
        simp only [bind_ok]
        cases σ.2.2.2.2.back? <;> rfl
    · intro i σ
      obtain ⟨bdd, nc, tc, out, st⟩ := σ
      unfold iStep
      simp only []
      cases hb : st.back? with
      | none => rfl
      | some t =>
        simp only []
        cases hc : tc[t]? with
        | some saved => rfl
        | none =>
          simp only [Algo.BddPointer_to_index, Algo.Bdd_low_link_of, Algo.Bdd_high_link_of, Algo.Bdd_var_of]
          cases h1 : Rust.idx bdd t.1 with
          | err m => rfl
          | panic m => rfl
          | ok nl =>
            cases h2 : Rust.idx bdd t.2 with
            | err m => rfl
            | panic m => rfl
            | ok nr =>
              simp only [bind_ok, pure_eq, Outcome.bind, lookup_eq]
              have hrp : ∀ nd', Algo.Bdd_root_pointer (Array.push bdd nd') = .ok (Rust.asU32 bdd.size) := by
                intro nd'
                simp [Algo.Bdd_root_pointer, Rust.sub, Algo.BddPointer_from_index, pure_eq, bind_ok]
              have tail : ∀ (tl th : Task),
                  (match lookup op tc tl.1 tl.2, lookup op tc th.1 th.2 with
                    | some lo, some hi =>
                      Outcome.ok (ForInStep.yield
                        ((finishL bdd nc (min nl.var nr.var) lo hi).fst, (finishL bdd nc (min nl.var nr.var) lo hi).snd.fst,
                          tc.insert t (finishL bdd nc (min nl.var nr.var) lo hi).snd.snd,
                          (finishL bdd nc (min nl.var nr.var) lo hi).snd.snd, st.pop))
                    | _, _ => Outcome.ok (ForInStep.yield (bdd, nc, tc, out,
                        pushMissing st (lookup op tc tl.1 tl.2) (lookup op tc th.1 th.2) tl th))) =
                  (match lookup op tc tl.1 tl.2, lookup op tc th.1 th.2 with
                    | some lo, some hi =>
                      if lo = hi then Outcome.ok (ForInStep.yield (bdd, nc, tc.insert t lo, lo, st.pop))
                      else match nc[(⟨min nl.var nr.var, lo, hi⟩ : Node)]? with
                        | some i => Outcome.ok (ForInStep.yield (bdd, nc, tc.insert t i, i, st.pop))
                        | none => Outcome.ok (ForInStep.yield (bdd.push ⟨min nl.var nr.var, lo, hi⟩,
                            nc.insert ⟨min nl.var nr.var, lo, hi⟩ (Rust.asU32 bdd.size), tc.insert t (Rust.asU32 bdd.size),
                            Rust.asU32 bdd.size, st.pop))
                    | lo, hi => Outcome.ok (ForInStep.yield (bdd, nc, tc, out,
                        if hi.isNone then (if lo.isNone then st.push tl else st).push th
                        else (if lo.isNone then st.push tl else st)))) := by
                intro tl th
                cases lookup op tc tl.1 tl.2 <;> cases lookup op tc th.1 th.2 <;> simp only [pushMissing]
                rename_i lo hi
                unfold finishL
                by_cases he : lo = hi
                · simp only [he, if_true]
                · simp only [he, if_false]
                  cases nc[(⟨min nl.var nr.var, lo, hi⟩ : Node)]? <;> rfl
              generalize min nl.var nr.var = d at tail ⊢
              by_cases c1 : nl.var = d <;> by_cases c2 : nr.var = d
              all_goals
                have tl := tail ((kidsOf t.fst nl d).fst, (kidsOf t.snd nr d).fst)
                  ((kidsOf t.fst nl d).snd, (kidsOf t.snd nr d).snd)
                simp only [] at tl
                rw [tl]
                simp only [kidsOf, bne_iff_ne, ne_eq, c1, c2, not_true_eq_false, not_false_eq_true, if_true, if_false,
                  hrp, bind_ok, Algo.BddNode_mk_node, Algo.Bdd_push_node, beq_iff_eq]
              · generalize lookup op tc nl.low nr.low = lo
                generalize lookup op tc nl.high nr.high = hi
                cases lo <;> cases hi <;> simp only [Option.isNone_none, Option.isNone_some, if_true, if_false, Bool.false_eq_true]
                try (
                  rename_i lo hi
                  by_cases he : lo = hi
                  · simp only [he, if_true]
                  · simp only [he, if_false]
                    cases nc[(⟨d, lo, hi⟩ : Node)]? <;> rfl)
              · generalize lookup op tc nl.low t.2 = lo
                generalize lookup op tc nl.high t.2 = hi
                cases lo <;> cases hi <;> simp only [Option.isNone_none, Option.isNone_some, if_true, if_false, Bool.false_eq_true]
                try (
                  rename_i lo hi
                  by_cases he : lo = hi
                  · simp only [he, if_true]
                  · simp only [he, if_false]
                    cases nc[(⟨d, lo, hi⟩ : Node)]? <;> rfl)
              · generalize lookup op tc t.1 nr.low = lo
                generalize lookup op tc t.1 nr.high = hi
                cases lo <;> cases hi <;> simp only [Option.isNone_none, Option.isNone_some, if_true, if_false, Bool.false_eq_true]
                try (
                  rename_i lo hi
                  by_cases he : lo = hi
                  · simp only [he, if_true]
                  · simp only [he, if_false]
                    cases nc[(⟨d, lo, hi⟩ : Node)]? <;> rfl)
              · generalize lookup op tc t.1 t.2 = lo
                cases lo <;> simp only [Option.isNone_none, if_true]

theorem kidsOf_eq (A : Arr) (p d : Nat) : kids A p d none = kidsOf p (nodeAt A p) d := by
  unfold kids kidsOf
  by_cases h : (nodeAt A p).var = d <;> simp [h]

theorem nodeAt_eq (A : Arr) (p : Nat) (h : p < A.size) : nodeAt A p = A[p] := by
  simp [nodeAt, h]

theorem nodeAt_prefix {A A' : Arr} (hp : Prefix A A') (p : Nat) (h : p < A.size) : nodeAt A' p = nodeAt A p := by
  unfold nodeAt; rw [hp.2 p h]

theorem kids_prefix {A A' : Arr} (hp : Prefix A A') (p d : Nat) (h : p < A.size) : kids A' p d none = kids A p d none := by
  unfold kids; rw [nodeAt_prefix hp p h]

theorem iStep_cached (op : Op2) (bdd : Arr) (nc : HashMap Node Nat) (tc : HashMap Task Nat) (out : Nat)
    (rest : Array Task) (t : Task) (v : Nat) (h : tc[t]? = some v) :
    iStep op (bdd, nc, tc, out, rest.push t) = .ok (.yield (bdd, nc, tc, v, rest)) := by
  unfold iStep
  simp [h]

theorem iStep_uncached (op : Op2) (bdd : Arr) (nc : HashMap Node Nat) (tc : HashMap Task Nat) (out : Nat)
    (rest : Array Task) (a b : Nat) (ha : a < bdd.size) (hb : b < bdd.size) (hc : tc[(a, b)]? = none) :
    iStep op (bdd, nc, tc, out, rest.push (a, b)) =
      match lookup op tc (kids bdd a (min (nodeAt bdd a).var (nodeAt bdd b).var) none).1
              (kids bdd b (min (nodeAt bdd a).var (nodeAt bdd b).var) none).1,
            lookup op tc (kids bdd a (min (nodeAt bdd a).var (nodeAt bdd b).var) none).2
              (kids bdd b (min (nodeAt bdd a).var (nodeAt bdd b).var) none).2 with
      | some lo, some hi =>
        .ok (.yield ((finishL bdd nc (min (nodeAt bdd a).var (nodeAt bdd b).var) lo hi).1,
          (finishL bdd nc (min (nodeAt bdd a).var (nodeAt bdd b).var) lo hi).2.1,
          tc.insert (a, b) (finishL bdd nc (min (nodeAt bdd a).var (nodeAt bdd b).var) lo hi).2.2,
          (finishL bdd nc (min (nodeAt bdd a).var (nodeAt bdd b).var) lo hi).2.2, rest))
      | lo, hi =>
        .ok (.yield (bdd, nc, tc, out, pushMissing (rest.push (a, b)) lo hi
          ((kids bdd a (min (nodeAt bdd a).var (nodeAt bdd b).var) none).1,
            (kids bdd b (min (nodeAt bdd a).var (nodeAt bdd b).var) none).1)
          ((kids bdd a (min (nodeAt bdd a).var (nodeAt bdd b).var) none).2,
            (kids bdd b (min (nodeAt bdd a).var (nodeAt bdd b).var) none).2))) := by
  unfold iStep
  simp only [Array.back?_push, hc, idx_eq _ _ ha, idx_eq _ _ hb, Outcome.bind, kidsOf_eq, nodeAt_eq _ _ ha,
    nodeAt_eq _ _ hb, Array.pop_push]
  split <;> simp_all


/-- loop state against model state: same array, caches equivalent as maps -/
structure ILRel (bdd : Arr) (nc : HashMap Node Nat) (tc : HashMap Task Nat) (s : NSt) : Prop where
  res : bdd = s.res
  nodes : nc.Equiv s.nodes
  inner : tc.Equiv s.inner

theorem lookup_equiv (op : Op2) {tc tc' : HashMap Task Nat} (h : tc.Equiv tc') (x y : Nat) :
    lookup op tc x y = lookup op tc' x y := by
  unfold lookup; rw [h.getElem?_eq]

theorem finish_rel (s2 : NSt) (bdd : Arr) (nc : HashMap Node Nat) (tc : HashMap Task Nat) (hrel : ILRel bdd nc tc s2)
    (a b d lo hi : Nat) (h32 : (innerFinish s2 a b d lo hi).1.res.size ≤ 4294967296) :
    (finishL bdd nc d lo hi).2.2 = (innerFinish s2 a b d lo hi).2 ∧
    ILRel (finishL bdd nc d lo hi).1 (finishL bdd nc d lo hi).2.1
      (tc.insert (a, b) (finishL bdd nc d lo hi).2.2) (innerFinish s2 a b d lo hi).1 := by
  obtain ⟨hres, hn, hi'⟩ := hrel
  subst hres
  unfold finishL innerFinish at *
  by_cases he : lo = hi
  · simp only [he, if_true]
    exact ⟨trivial, rfl, hn, hi'.insert _ _⟩
  · simp only [he, if_false] at h32 ⊢
    unfold nFindOrPush at *
    rw [hn.getElem?_eq]
    cases hc : s2.nodes[(⟨d, lo, hi⟩ : Node)]? with
    | some i =>
      simp only
      exact ⟨trivial, rfl, hn, hi'.insert _ _⟩
    | none =>
      simp only [hc, Array.size_push] at h32 ⊢
      rw [asU32_of_lt _ (by omega)]
      exact ⟨rfl, rfl, hn.insert _ _, hi'.insert _ _⟩

theorem innerFinish_res_size (s : NSt) (l r d lo hi : Nat) : s.res.size ≤ (innerFinish s l r d lo hi).1.res.size := by
  unfold innerFinish
  split
  · exact Nat.le_refl _
  · unfold nFindOrPush; split
    · exact Nat.le_refl _
    · simp


section
variable {Γ : NCtx} {n : Nat} {c dop : Bool → Bool → Bool}

theorem innerRec_cached (op : Op2) (f : Nat) (hf : 0 < f) (x y : Nat) (s : NSt) (v : Nat)
    (h : s.inner[(x, y)]? = some v) : innerRec op f x y s = (s, v) := by
  obtain ⟨f', rfl⟩ : ∃ f', f = f' + 1 := ⟨f - 1, by omega⟩
  show innerStep op (innerRec op f') x y s = (s, v)
  unfold innerStep
  simp [h]

theorem lookup_mono (op : Op2) {m m' : HashMap Task Nat} (hm : ∀ (key : Task) (q : Nat), m[key]? = some q → m'[key]? = some q)
    (x y v : Nat) (h : lookup op m x y = some v) : lookup op m' x y = some v := by
  unfold lookup at *
  cases hop : op (asBool x) (asBool y) with
  | some cc => rw [hop] at h; exact h
  | none => rw [hop] at h; exact hm _ _ h

/-- model-side facts about one sub-task `(x, y)` of a task with decision level `d` -/
theorem nsolve_model (ok : NOk Γ n c dop) (f d x y : Nat) (s : NSt) (hs : NInv Γ n c dop s)
    (hv : Γ.inner (asBool x) (asBool y) = none →
      x < s.res.size ∧ y < s.res.size ∧ d + 1 ≤ varOf s.res n x ∧ d + 1 ≤ varOf s.res n y ∧ n - (d + 1) < f) :
    NInv Γ n c dop (nSolve Γ.inner (innerRec Γ.inner f) x y s).1 ∧
    Prefix s.res (nSolve Γ.inner (innerRec Γ.inner f) x y s).1.res ∧
    IOut2 Γ n s x y (d + 1) (nSolve Γ.inner (innerRec Γ.inner f) x y s) ∧
    lookup Γ.inner (nSolve Γ.inner (innerRec Γ.inner f) x y s).1.inner x y =
      some (nSolve Γ.inner (innerRec Γ.inner f) x y s).2 := by
  unfold nSolve
  cases hop : Γ.inner (asBool x) (asBool y) with
  | some cc =>
    simp only
    exact ⟨hs, Prefix.refl _, IOut2.refl_of_term s x y _ cc hop, by unfold lookup; rw [hop]⟩
  | none =>
    simp only
    obtain ⟨hx, hy, hlx, hly, hf⟩ := hv hop
    have S := innerRec_spec ok f (d + 1) hf x y s hs hx hy hlx hly
    have T := innerRec_spec2 ok f (d + 1) hf x y s hs hx hy hlx hly
    exact ⟨S.inv, S.pre, T, by unfold lookup; rw [hop]; exact T.cached hop⟩

variable (Γ n c dop) in
/-- the simulation statement at model fuel `f` -/
def ILoop (f : Nat) : Prop :=
  ∀ k, n - k < f → ∀ (a b : Nat) (s : NSt) (bdd : Arr) (nc : HashMap Node Nat) (tc : HashMap Task Nat),
    NInv Γ n c dop s → ILRel bdd nc tc s → a < s.res.size → b < s.res.size →
    k ≤ varOf s.res n a → k ≤ varOf s.res n b →
    (innerRec Γ.inner f a b s).1.res.size ≤ 4294967296 →
    ∃ (t : Nat) (nc' : HashMap Node Nat) (tc' : HashMap Task Nat),
      ILRel (innerRec Γ.inner f a b s).1.res nc' tc' (innerRec Γ.inner f a b s).1 ∧
      t + 3 * s.inner.size ≤ 3 * (innerRec Γ.inner f a b s).1.inner.size + 1 ∧
      ∀ (e out : Nat) (rest : Array Task),
        loopN (iStep Γ.inner) (t + e) (bdd, nc, tc, out, rest.push (a, b)) =
          loopN (iStep Γ.inner) e ((innerRec Γ.inner f a b s).1.res, nc', tc', (innerRec Γ.inner f a b s).2, rest)

/-- loop-side run of one sub-task: it is on the stack iff `pushed` -/
theorem isub_call {f : Nat} (ih : ILoop Γ n c dop f) (d x y : Nat) (s : NSt)
    (bdd : Arr) (nc : HashMap Node Nat) (tc : HashMap Task Nat) (hs : NInv Γ n c dop s) (hrel : ILRel bdd nc tc s)
    (hv : Γ.inner (asBool x) (asBool y) = none →
      x < s.res.size ∧ y < s.res.size ∧ d + 1 ≤ varOf s.res n x ∧ d + 1 ≤ varOf s.res n y ∧ n - (d + 1) < f)
    (pushed : Bool) (hp : pushed = false → ∃ v, lookup Γ.inner s.inner x y = some v)
    (hp' : pushed = true → Γ.inner (asBool x) (asBool y) = none)
    (h32 : (nSolve Γ.inner (innerRec Γ.inner f) x y s).1.res.size ≤ 4294967296) :
    ∃ (t : Nat) (nc' : HashMap Node Nat) (tc' : HashMap Task Nat),
      ILRel (nSolve Γ.inner (innerRec Γ.inner f) x y s).1.res nc' tc' (nSolve Γ.inner (innerRec Γ.inner f) x y s).1 ∧
      t + 3 * s.inner.size ≤ 3 * (nSolve Γ.inner (innerRec Γ.inner f) x y s).1.inner.size + (if pushed then 1 else 0) ∧
      ∀ (e out : Nat) (stack : Array Task), ∃ out' : Nat,
        loopN (iStep Γ.inner) (t + e) (bdd, nc, tc, out, if pushed then stack.push (x, y) else stack) =
          loopN (iStep Γ.inner) e ((nSolve Γ.inner (innerRec Γ.inner f) x y s).1.res, nc', tc', out', stack) := by
  have hres := hrel.res
  unfold nSolve at *
  cases hop : Γ.inner (asBool x) (asBool y) with
  | some cc =>
    simp only
    have hpf : pushed = false := by
      cases pushed with
      | false => rfl
      | true => have := hp' rfl; rw [hop] at this; cases this
    subst hpf
    exact ⟨0, nc, tc, hres ▸ hrel, by simp, fun e out stack => ⟨out, by simp [hres]⟩⟩
  | none =>
    simp only [hop] at h32 ⊢
    obtain ⟨hx, hy, hlx, hly, hf⟩ := hv hop
    cases pushed with
    | true =>
      obtain ⟨t, nc', tc', h1, h2, h3⟩ := ih (d + 1) hf x y s bdd nc tc hs hrel hx hy hlx hly h32
      exact ⟨t, nc', tc', h1, by simpa using h2, fun e out stack => ⟨_, by simpa using h3 e out stack⟩⟩
    | false =>
      obtain ⟨v, hv'⟩ := hp rfl
      have hcv : s.inner[(x, y)]? = some v := by unfold lookup at hv'; rw [hop] at hv'; exact hv'
      rw [innerRec_cached Γ.inner f (by omega) x y s v hcv]
      exact ⟨0, nc, tc, hres ▸ hrel, by simp, fun e out stack => ⟨out, by simp [hres]⟩⟩


theorem iloop_succ (ok : NOk Γ n c dop) (f : Nat) (ih : ILoop Γ n c dop f) : ILoop Γ n c dop (f + 1) := by
  intro k hk a b s bdd nc tc hs hrel ha hb hka hkb h32
  have hres := hrel.res
  subst hres
  have hW := hs.rt.wfo
  have hstep : innerRec Γ.inner (f + 1) a b s = innerStep Γ.inner (innerRec Γ.inner f) a b s := rfl
  rw [hstep] at h32 ⊢
  unfold innerStep at h32 ⊢
  cases hfin : s.inner[(a, b)]? with
  | some p =>
    simp only
    have hc : tc[(a, b)]? = some p := by rw [hrel.inner.getElem?_eq]; exact hfin
    refine ⟨1, nc, tc, hrel, by omega, fun e out rest => ?_⟩
    rw [Nat.add_comm, loopN_yield (iStep_cached Γ.inner s.res nc tc out rest (a, b) p hc)]
  | none =>
    simp only [hfin] at h32 ⊢
    have hc : tc[(a, b)]? = none := by rw [hrel.inner.getElem?_eq]; exact hfin
    have hstepL := fun out rest => iStep_uncached Γ.inner s.res nc tc out rest a b ha hb hc
    have hdv : min (nodeAt s.res a).var (nodeAt s.res b).var = ilvl s.res n a b := by
      rw [nodeAt_var hW a ha, nodeAt_var hW b hb]; rfl
    generalize hd : min (nodeAt s.res a).var (nodeAt s.res b).var = d at h32 hstepL hdv ⊢
    have hdk : k ≤ d := by rw [hdv]; unfold ilvl; omega
    -- validity of the four children (conditional on the terminal look-up failing)
    have hkids : ∀ bb : Bool,
        Γ.inner (asBool (sel bb (kids s.res a d none))) (asBool (sel bb (kids s.res b d none))) = none →
        sel bb (kids s.res a d none) < s.res.size ∧ sel bb (kids s.res b d none) < s.res.size ∧
        d + 1 ≤ varOf s.res n (sel bb (kids s.res a d none)) ∧ d + 1 ≤ varOf s.res n (sel bb (kids s.res b d none)) ∧
        n - (d + 1) < f := by
      intro bb hnone
      by_cases hdn : d < n
      · have v0 : Nat → Bool := fun _ => false
        have ka := ev_kids hs.rt a ha d (by rw [hdv]; unfold ilvl; omega) hdn bb v0
        have kb := ev_kids hs.rt b hb d (by rw [hdv]; unfold ilvl; omega) hdn bb v0
        exact ⟨ka.2.1, kb.2.1, ka.2.2, kb.2.2, by omega⟩
      · exfalso
        have hva := varOf_le hs.rt.red a
        have hvb := varOf_le hs.rt.red b
        have hde : d = n := by rw [hdv] at hdn ⊢; unfold ilvl at *; omega
        have ha2 := hW.terminal_of_varOf a ha (by rw [hdv] at hde; unfold ilvl at hde; omega)
        have hb2 := hW.terminal_of_varOf b hb (by rw [hdv] at hde; unfold ilvl at hde; omega)
        rw [kids_terminal hW a ha ha2, kids_terminal hW b hb hb2] at hnone
        obtain ⟨x, hx, _⟩ := asBool_terminal a ha2
        obtain ⟨y, hy, _⟩ := asBool_terminal b hb2
        have : sel bb (a, a) = a := by cases bb <;> rfl
        rw [this] at hnone
        have : sel bb (b, b) = b := by cases bb <;> rfl
        rw [this, hx, hy, ok.consI.total] at hnone
        cases hnone
    have hk1 := hkids true
    have hk2 := hkids false
    simp only [sel_true, sel_false] at hk1 hk2
    clear hkids
    generalize hka2 : (kids s.res a d none).1 = a2 at *
    generalize hka1 : (kids s.res a d none).2 = a1 at *
    generalize hkb2 : (kids s.res b d none).1 = b2 at *
    generalize hkb1 : (kids s.res b d none).2 = b1 at *
    -- model facts
    obtain ⟨I1, P1, T1, L1⟩ := nsolve_model ok f d a1 b1 s hs hk1
    have hk2' : Γ.inner (asBool a2) (asBool b2) = none →
        a2 < (nSolve Γ.inner (innerRec Γ.inner f) a1 b1 s).1.res.size ∧
        b2 < (nSolve Γ.inner (innerRec Γ.inner f) a1 b1 s).1.res.size ∧
        d + 1 ≤ varOf (nSolve Γ.inner (innerRec Γ.inner f) a1 b1 s).1.res n a2 ∧
        d + 1 ≤ varOf (nSolve Γ.inner (innerRec Γ.inner f) a1 b1 s).1.res n b2 ∧ n - (d + 1) < f := by
      intro h
      obtain ⟨x1, x2, x3, x4, x5⟩ := hk2 h
      have := P1.1
      exact ⟨by omega, by omega, by rw [varOf_prefix P1 _ x1]; exact x3, by rw [varOf_prefix P1 _ x2]; exact x4, x5⟩
    obtain ⟨I2, P2, T2, L2⟩ := nsolve_model ok f d a2 b2 _ I1 hk2'
    have hsz1 := P1.1
    have hsz2 := P2.1
    have hfs := innerFinish_res_size (nSolve Γ.inner (innerRec Γ.inner f) a2 b2
      (nSolve Γ.inner (innerRec Γ.inner f) a1 b1 s).1).1 a b d
      (nSolve Γ.inner (innerRec Γ.inner f) a2 b2 (nSolve Γ.inner (innerRec Γ.inner f) a1 b1 s).1).2
      (nSolve Γ.inner (innerRec Γ.inner f) a1 b1 s).2
    -- loop runs of the two sub-tasks
    obtain ⟨t1, nc1, tc1, R1, c1, l1⟩ := isub_call ih d a1 b1 s s.res nc tc hs hrel hk1
      (lookup Γ.inner tc a1 b1).isNone
      (by
        intro hf
        cases hx : lookup Γ.inner tc a1 b1 with
        | none => rw [hx] at hf; cases hf
        | some v => exact ⟨v, by rw [← lookup_equiv _ hrel.inner]; exact hx⟩)
      (by
        intro hf
        cases hop : Γ.inner (asBool a1) (asBool b1) with
        | none => rfl
        | some cc => unfold lookup at hf; rw [hop] at hf; cases hf)
      (by omega)
    obtain ⟨t2, nc2, tc2, R2, c2, l2⟩ := isub_call ih d a2 b2 _ _ nc1 tc1 I1 R1 hk2'
      (lookup Γ.inner tc a2 b2).isNone
      (by
        intro hf
        cases hx : lookup Γ.inner tc a2 b2 with
        | none => rw [hx] at hf; cases hf
        | some v =>
          exact ⟨v, lookup_mono _ T1.mono _ _ _ (by rw [← lookup_equiv _ hrel.inner]; exact hx)⟩)
      (by
        intro hf
        cases hop : Γ.inner (asBool a2) (asBool b2) with
        | none => rfl
        | some cc => unfold lookup at hf; rw [hop] at hf; cases hf)
      (by omega)
    have L1' := lookup_mono Γ.inner T2.mono _ _ _ L1
    generalize nSolve Γ.inner (innerRec Γ.inner f) a1 b1 s = o1 at *
    generalize nSolve Γ.inner (innerRec Γ.inner f) a2 b2 o1.1 = o2 at *
    -- the finishing step on the state after both sub-tasks
    have hmono : ∀ (key : Nat × Nat) (q : Nat), s.inner[key]? = some q → o2.1.inner[key]? = some q :=
      fun key q h => T2.mono key q (T1.mono key q h)
    have hframe : ∀ (a' b' : Nat), a' < s.res.size → b' < s.res.size → ilvl s.res n a' b' < d + 1 →
        o2.1.inner[(a', b')]? = s.inner[(a', b')]? := by
      intro a' b' ha' hb' hl
      rw [T2.frame a' b' (by omega) (by omega)
        (by unfold ilvl; rw [varOf_prefix P1 _ ha', varOf_prefix P1 _ hb']; exact hl)]
      exact T1.frame a' b' ha' hb' hl
    obtain ⟨_, hsize⟩ := innerFinish_out2 (Γ := Γ) (n := n) (s := s) (s2 := o2.1) a b d o2.2 o1.2 k ha hb hdv hdk hfin
      hmono hframe (Nat.le_trans T1.isz T2.isz)
    have hc2 : tc2[(a, b)]? = none := by
      rw [R2.inner.getElem?_eq, hframe a b ha hb (by rw [hdv]; omega)]; exact hfin
    have hP := P1.trans P2
    have hfinL := fun out rest => iStep_uncached Γ.inner o2.1.res nc2 tc2 out rest a b (by omega) (by omega) hc2
    rw [nodeAt_prefix hP a ha, nodeAt_prefix hP b hb, hd] at hfinL
    simp only [kids_prefix hP a d ha, kids_prefix hP b d hb, hka1, hka2, hkb1, hkb2, lookup_equiv Γ.inner R2.inner,
      L2, L1'] at hfinL
    obtain ⟨hfp, hfrel⟩ := finish_rel o2.1 o2.1.res nc2 tc2 R2 a b d o2.2 o1.2 h32
    generalize finishL o2.1.res nc2 d o2.2 o1.2 = fl at hfp hfrel hfinL
    have hfres := hfrel.res
    generalize innerFinish o2.1 a b d o2.2 o1.2 = o at *
    by_cases hboth : (lookup Γ.inner tc a2 b2).isNone = false ∧ (lookup Γ.inner tc a1 b1).isNone = false
    · obtain ⟨hb2', hb1'⟩ := hboth
      rw [hb1'] at l1 c1; rw [hb2'] at l2 c2
      simp only [Bool.false_eq_true, if_false] at l1 l2 c1 c2
      refine ⟨t1 + t2 + 1, fl.2.1, tc2.insert (a, b) fl.2.2, hfres ▸ hfrel, by omega, fun e out rest => ?_⟩
      obtain ⟨out1, e1⟩ := l1 (t2 + 1 + e) out (rest.push (a, b))
      obtain ⟨out2, e2⟩ := l2 (1 + e) out1 (rest.push (a, b))
      rw [show t1 + t2 + 1 + e = t1 + (t2 + 1 + e) by omega, e1, show t2 + 1 + e = t2 + (1 + e) by omega, e2,
        Nat.add_comm, loopN_yield (hfinL out2 rest), hfres, hfp]
    · have hpush : ∀ (out : Nat) (rest : Array Task), iStep Γ.inner (s.res, nc, tc, out, rest.push (a, b)) =
          Outcome.ok (ForInStep.yield (s.res, nc, tc, out,
            if (lookup Γ.inner tc a1 b1).isNone = true then
              (if (lookup Γ.inner tc a2 b2).isNone = true then (rest.push (a, b)).push (a2, b2) else rest.push (a, b)).push (a1, b1)
            else (if (lookup Γ.inner tc a2 b2).isNone = true then (rest.push (a, b)).push (a2, b2) else rest.push (a, b)))) := by
        intro out rest
        rw [hstepL out rest]
        cases hlo : lookup Γ.inner tc a2 b2 <;> cases hhi : lookup Γ.inner tc a1 b1
        · simp [pushMissing]
        · simp [pushMissing]
        · simp [pushMissing]
        · exfalso; apply hboth; simp [hlo, hhi]
      refine ⟨1 + t1 + t2 + 1, fl.2.1, tc2.insert (a, b) fl.2.2, hfres ▸ hfrel, ?_, fun e out rest => ?_⟩
      · have : (if (lookup Γ.inner tc a1 b1).isNone = true then 1 else 0) +
            (if (lookup Γ.inner tc a2 b2).isNone = true then 1 else 0) ≤ 2 := by
          split <;> split <;> omega
        omega
      obtain ⟨out1, e1⟩ := l1 (t2 + 1 + e) out
        (if (lookup Γ.inner tc a2 b2).isNone = true then (rest.push (a, b)).push (a2, b2) else rest.push (a, b))
      obtain ⟨out2, e2⟩ := l2 (1 + e) out1 (rest.push (a, b))
      rw [show 1 + t1 + t2 + 1 + e = (t1 + t2 + 1 + e) + 1 by omega, loopN_yield (hpush out rest),
        show t1 + t2 + 1 + e = t1 + (t2 + 1 + e) by omega, e1, show t2 + 1 + e = t2 + (1 + e) by omega, e2,
        Nat.add_comm, loopN_yield (hfinL out2 rest), hfres, hfp]


theorem iloop_all (ok : NOk Γ n c dop) : ∀ f, ILoop Γ n c dop f
  | 0 => fun k hk => by omega
  | f + 1 => iloop_succ ok f (iloop_all ok f)

theorem iStep_empty (op : Op2) (bdd : Arr) (nc : HashMap Node Nat) (tc : HashMap Task Nat) (out : Nat) :
    iStep op (bdd, nc, tc, out, #[]) = .ok (.done (bdd, nc, tc, out, #[])) := rfl

/-- **`inner_apply` = `innerApply`**: from any state of a `nested_apply` run (invariant `NInv`), with caches that are
    equivalent as maps to the model's, the generated function returns the model's pointer, array and (equivalent)
    caches, for every fuel `≥ 3 * (new inner-cache entries) + 1`. -/
theorem inner_apply_eq_model (ok : NOk Γ n c dop) (s : NSt) (hs : NInv Γ n c dop s) (a b : Nat)
    (ha : a < s.res.size) (hb : b < s.res.size) (nc : HashMap Node Nat) (tc : HashMap Task Nat)
    (hnc : nc.Equiv s.nodes) (htc : tc.Equiv s.inner)
    (h32 : (innerApply Γ.inner a b s).1.res.size ≤ 4294967296) (fuel : Nat)
    (hfuel : 3 * ((innerApply Γ.inner a b s).1.inner.size - s.inner.size) + 1 ≤ fuel) :
    ∃ (nc' : HashMap Node Nat) (tc' : HashMap Task Nat),
      Algo.inner_apply fuel s.res a b nc tc Γ.inner =
        .ok ((innerApply Γ.inner a b s).2, (innerApply Γ.inner a b s).1.res, nc', tc') ∧
      nc'.Equiv (innerApply Γ.inner a b s).1.nodes ∧ tc'.Equiv (innerApply Γ.inner a b s).1.inner := by
  have hs2 := hs.rt.red.size2
  unfold innerApply at *
  rw [hs.rt.numVars] at *
  obtain ⟨t, nc', tc', R, cst, run⟩ := iloop_all ok (n + 2) 0 (by omega) a b s s.res nc tc hs ⟨rfl, hnc, htc⟩ ha hb
    (Nat.zero_le _) (Nat.zero_le _) h32
  refine ⟨nc', tc', ?_, R.nodes, R.inner⟩
  rw [inner_desugar, num_vars_eq _ (by omega)]
  obtain ⟨e, rfl⟩ : ∃ e, fuel = t + e := ⟨fuel - t, by omega⟩
  simp only [Outcome.bind]
  rw [show (#[(a, b)] : Array Task) = (#[] : Array Task).push (a, b) from rfl, run e 0 #[],
    loopN_fix (iStep_empty Γ.inner _ _ _ _)]
  rfl

end

end B.AlgoEq
