import BddVerif.Lemmas.NormalFormSem
/-!
Lemmas for C10, part 5: a variable that labels a decision node of a canonical array is a variable the function
really depends on (one half of "the support set is exact"), and membership in `supportSorted`.
-/
namespace B.NF
open B

/-- `f` really depends on variable `x` -/
def DependsOn (f : (Nat → Bool) → Bool) (x : Nat) : Prop := ∃ v, f (upd v x true) ≠ f (upd v x false)

/-- `f` ignores variable `x` -/
def Ind (f : (Nat → Bool) → Bool) (x : Nat) : Prop := ∀ v b, f (upd v x b) = f v

theorem upd_upd_same (v : Nat → Bool) (x : Nat) (a b : Bool) : upd (upd v x a) x b = upd v x b := by
  funext j; by_cases h : j = x <;> simp [upd, h]

theorem upd_comm (v : Nat → Bool) {x y : Nat} (h : x ≠ y) (a b : Bool) :
    upd (upd v x a) y b = upd (upd v y b) x a := by
  funext j
  by_cases h1 : j = x
  · subst h1; simp [upd, h]
  · by_cases h2 : j = y
    · subst h2; simp [upd, h1]
    · simp [upd, h1, h2]

theorem upd_self (v : Nat → Bool) (x : Nat) : upd v x (v x) = v := by
  funext j; by_cases h : j = x
  · subst h; simp [upd]
  · simp [upd, h]

theorem not_dependsOn_of_ind {f : (Nat → Bool) → Bool} {x : Nat} (h : Ind f x) : ¬ DependsOn f x := by
  rintro ⟨v, hv⟩
  exact hv (by rw [h v true, h v false])

theorem ind_of_not_dependsOn {f : (Nat → Bool) → Bool} {x : Nat} (h : ¬ DependsOn f x) : Ind f x := by
  intro v b
  have key : f (upd v x true) = f (upd v x false) := by
    apply Classical.byContradiction
    intro hne
    exact h ⟨v, hne⟩
  have hself : f v = f (upd v x (v x)) := by rw [upd_self]
  rw [hself]
  cases b <;> cases v x <;> simp [key]

/-- dependence of a cofactor is dependence of the function -/
theorem dependsOn_of_cofactor {f : (Nat → Bool) → Bool} {k x : Nat} {c : Bool}
    (h : DependsOn (fun v => f (upd v k c)) x) : DependsOn f x := by
  obtain ⟨v, hv⟩ := h
  by_cases hxk : x = k
  · subst hxk
    simp only [upd_upd_same] at hv
    exact absurd rfl hv
  · refine ⟨upd v k c, ?_⟩
    simp only [upd_comm v hxk] at hv
    exact hv

/-- every node that the reference builder adds is labelled by a variable the function depends on -/
theorem ins_new_dep {n : Nat} :
    ∀ fuel k (f : (Nat → Bool) → Bool) (A : Arr), Red A n → fuel + k = n →
      (∀ v w : Nat → Bool, (∀ i, k ≤ i → i < n → v i = w i) → f v = f w) →
      ∀ p nd, A.size ≤ p → (ins n fuel k f A).1[p]? = some nd → DependsOn f nd.var := by
  intro fuel
  induction fuel with
  | zero =>
    intro k f A _ _ _ p nd hp hnd
    simp only [ins] at hnd
    rw [Array.getElem?_eq_none hp] at hnd; cases hnd
  | succ fuel ih =>
    intro k f A h hk hdep p nd hp hnd
    have dep1 : ∀ b, ∀ v w : Nat → Bool, (∀ i, k+1 ≤ i → i < n → v i = w i) →
        f (upd v k b) = f (upd w k b) := by
      intro b v w hvw
      apply hdep
      intro i h1 h2
      by_cases hik : i = k
      · simp [upd, hik]
      · simp [upd, hik]; exact hvw i (by omega) h2
    obtain ⟨r1red, r1pre, r1lt, r1var, r1ev⟩ :=
      ins_spec fuel (k+1) (fun v => f (upd v k true)) A h (by omega) (dep1 true)
    have ih1 := ih (k+1) (fun v => f (upd v k true)) A h (by omega) (dep1 true)
    generalize hr1 : ins n fuel (k+1) (fun v => f (upd v k true)) A = r1 at r1red r1pre r1lt r1var r1ev ih1
    obtain ⟨r2red, r2pre, r2lt, _, _⟩ :=
      ins_spec fuel (k+1) (fun v => f (upd v k false)) r1.1 r1red (by omega) (dep1 false)
    have ih2 := ih (k+1) (fun v => f (upd v k false)) r1.1 r1red (by omega) (dep1 false)
    have hfound : (∀ v, f (upd v k false) = f (upd v k true)) →
        ins n fuel (k+1) (fun v => f (upd v k false)) r1.1 = (r1.1, r1.2) := by
      intro heq
      apply ins_found r1red fuel (k+1) _ r1.2 (by omega) r1lt r1var
      intro v; rw [heq v]; exact (r1ev v).symm
    generalize hr2 : ins n fuel (k+1) (fun v => f (upd v k false)) r1.1 = r2 at r2red r2pre r2lt ih2 hfound
    obtain ⟨A1, p1⟩ := r1
    obtain ⟨A2, p2⟩ := r2
    simp only at r1red r1pre r1lt r1var r1ev ih1 r2red r2pre r2lt ih2 hfound
    -- a node of A2 beyond A
    have hold : ∀ q md, A.size ≤ q → A2[q]? = some md → DependsOn f md.var := by
      intro q md hq hmd
      by_cases hq1 : q < A1.size
      · rw [r2pre.2 q hq1] at hmd
        exact dependsOn_of_cofactor (ih1 q md hq hmd)
      · exact dependsOn_of_cofactor (ih2 q md (by omega) hmd)
    rw [ins_succ' hr1 hr2] at hnd
    by_cases heq : p2 = p1
    · simp only [heq, if_true] at hnd
      exact hold p nd hp hnd
    · simp only [heq, if_false] at hnd
      rcases hfn : findNode A2 ⟨k, p2, p1⟩ with _ | i
      · simp only [hfn] at hnd
        rw [Array.getElem?_push] at hnd
        split at hnd
        · cases hnd
          show DependsOn f k
          apply Classical.byContradiction
          intro hnot
          have hind := ind_of_not_dependsOn hnot
          have := hfound (fun v => by rw [hind v false, hind v true])
          simp only [Prod.mk.injEq] at this
          exact heq this.2
        · exact hold p nd hp hnd
      · simp only [hfn] at hnd
        exact hold p nd hp hnd

/-- a decision node of a canonical array is labelled by a variable its function depends on -/
theorem Sem.node_dep {n : Nat} {A : Arr} {f : (Nat → Bool) → Bool} (h : Sem n A f) (p : Nat) (nd : Node)
    (hp : 2 ≤ p) (hnd : A[p]? = some nd) : DependsOn f nd.var ∧ nd.var < n := by
  have hdep' : ∀ v w : Nat → Bool, (∀ i, 0 ≤ i → i < n → v i = w i) → f v = f w :=
    fun v w hh => h.dep v w (fun i hi => hh i (Nat.zero_le _) hi)
  rcases canon_spec n f h.dep with ⟨e, _⟩ | ⟨hred, heq, _, _⟩
  · rw [h.eq, e] at hnd
    have : (mkFalse n)[p]? = none := Array.getElem?_eq_none (by simp [mkFalse]; omega)
    rw [this] at hnd; cases hnd
  · rw [h.eq] at hnd
    refine ⟨?_, (hred.inner p nd hp hnd).1⟩
    rw [heq] at hnd
    exact ins_new_dep n 0 f (mkTrue n) (red_mkTrue n) (by omega) hdep' p nd (by simpa [mkTrue] using hp) hnd

/-! ### `support_set` -/

theorem mem_insSorted (x y : Nat) : ∀ l : List Nat, y ∈ insSorted x l ↔ y = x ∨ y ∈ l := by
  intro l
  induction l with
  | nil => simp [insSorted]
  | cons z t ih =>
    simp only [insSorted]
    split
    · simp
    · split
      · rename_i hxz; subst hxz; simp
      · simp only [List.mem_cons, ih]
        constructor
        · rintro (h | h | h)
          · right; left; exact h
          · left; exact h
          · right; right; exact h
        · rintro (h | h | h)
          · right; left; exact h
          · left; exact h
          · right; right; exact h

theorem mem_foldl_insSorted (nodes : List Node) : ∀ (acc : List Nat) (y : Nat),
    y ∈ nodes.foldl (fun acc nd => insSorted nd.var acc) acc ↔ y ∈ acc ∨ ∃ nd ∈ nodes, nd.var = y := by
  induction nodes with
  | nil => intro acc y; simp
  | cons nd t ih =>
    intro acc y
    simp only [List.foldl_cons, ih, mem_insSorted, List.mem_cons]
    constructor
    · rintro ((h | h) | ⟨md, hm, hv⟩)
      · right; exact ⟨nd, Or.inl rfl, h.symm⟩
      · left; exact h
      · right; exact ⟨md, Or.inr hm, hv⟩
    · rintro (h | ⟨md, hm | hm, hv⟩)
      · left; right; exact h
      · subst hm; left; left; exact hv.symm
      · right; exact ⟨md, hm, hv⟩

/-- a member of the sorted support labels some decision node -/
theorem mem_supportSorted {A : Arr} {y : Nat} (h : y ∈ supportSorted A) :
    ∃ p nd, 2 ≤ p ∧ A[p]? = some nd ∧ nd.var = y := by
  unfold supportSorted at h
  rw [mem_foldl_insSorted] at h
  rcases h with h | ⟨nd, hnd, hv⟩
  · cases h
  · obtain ⟨j, hj, hget⟩ := List.mem_iff_getElem.1 hnd
    rw [List.getElem_drop] at hget
    refine ⟨2 + j, nd, by omega, ?_, hv⟩
    simp only [List.length_drop, Array.length_toList] at hj
    have hlt : 2 + j < A.size := by omega
    simp only [Array.getElem_toList] at hget
    rw [Array.getElem?_eq_getElem hlt, hget]

theorem supportSorted_ne_nil {A : Arr} (h : 3 ≤ A.size) : supportSorted A ≠ [] := by
  intro e
  have hlt : 2 < A.size := by omega
  have : A[2].var ∈ supportSorted A := by
    unfold supportSorted
    rw [mem_foldl_insSorted]
    right
    refine ⟨A[2], ?_, rfl⟩
    rw [List.mem_iff_getElem]
    refine ⟨0, by simp; omega, ?_⟩
    rw [List.getElem_drop]
    simp
  rw [e] at this; cases this

end B.NF
