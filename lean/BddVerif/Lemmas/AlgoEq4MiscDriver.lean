import BddVerif.Lemmas.AlgoEq4Misc
import BddVerif.Lemmas.AlgoEqIterDriver
import BddVerif.Drive.Algo4
/-!
Corollaries for the driver of the fourth batch (`Drive/Algo4.lean`): `genValIter` (key `C08.uvals`) is `collect` of the
translated `BddValuationIterator::next`, and with a limit `≥ 2^n` it returns all `2^n` valuations; the `op_function`
tables it prints for `C01.named` are those of the regenerated `Gen.and_ …`.
(This file uses the ordinary `Monad Outcome` instance, like `Drive/Algo4.lean`.)
-/
namespace B.AlgoEq4
open B B.Gen B.Gen.Algo B.Gen.Algo3 B.Gen.Algo4 B.Iter B.AlgoEqIt B.Drive.Algo4

/-- the driver's `genValIter` = `collect` of the translated `next` from the translated `new`, `limit + 1` calls -/
theorem genValIter_eq_collect (n limit : Nat) :
    genValIter n limit = collect BddValuationIterator_next (limit + 1) (BddValuationIterator_new n) := by
  unfold genValIter
  simp only [Std.Legacy.Range.forIn_eq_forIn_range', Std.Legacy.Range.size]
  have e : (limit + 1 - 0 + 1 - 1) / 1 = limit + 1 := by simp
  rw [e]
  have key : ∀ (body : Nat → (Option (Array Bool) × Array (Option Bool)) × List (Array Bool) × Bool →
        Outcome (ForInStep ((Option (Array Bool) × Array (Option Bool)) × List (Array Bool) × Bool))),
      (∀ x s, body x s = drvStep BddValuationIterator_next s) →
      forIn (List.range' 0 (limit + 1)) (BddValuationIterator_new n, ([] : List (Array Bool)), false) body =
        forIn (List.range' 0 (limit + 1)) (BddValuationIterator_new n, [], false)
          (fun _ s => drvStep BddValuationIterator_next s) := by
    intro body hb
    have : body = fun _ s => drvStep BddValuationIterator_next s := funext fun x => funext fun s => hb x s
    rw [this]
  rw [key]
  · have := drvLoop_eq BddValuationIterator_next (limit + 1) 0 (BddValuationIterator_new n) []
    simp only [List.reverse_nil, List.nil_append] at this
    have hid : ∀ (o : Outcome (List (Array Bool))), o.map (fun l => l) = o := by
      intro o; cases o <;> rfl
    rw [hid] at this
    rw [← this]
    apply outcome_bind_congr
    intro s
    unfold drvPost
    cases s.2.2 <;> rfl
  · intro x s
    unfold drvStep
    cases BddValuationIterator_next s.fst with
    | err m => rfl
    | panic m => rfl
    | ok r =>
      obtain ⟨o, it'⟩ := r
      cases o <;> rfl

/-- **driver, `BddValuationIterator::new(n).collect()`**: all `2^n` valuations, in increasing order -/
theorem BddValuationIterator_driver (n limit : Nat) (hn : n < 65536) (hl : 2 ^ n ≤ limit) :
    ∃ l, genValIter n limit = .ok l ∧ l.map Array.toList = extensions (List.replicate n none) ∧ l.length = 2 ^ n := by
  obtain ⟨l, h1, h2, h3⟩ := BddValuationIterator_translated_eq n (limit + 1) hn (by omega)
  exact ⟨l, by rw [genValIter_eq_collect]; exact h1, h2, h3⟩

example : ∃ l, genValIter 2 4 = .ok l ∧ l.map Array.toList = [[false, false], [true, false], [false, true], [true, true]] := by
  obtain ⟨l, h1, h2, _⟩ := BddValuationIterator_driver 2 4 (by decide) (by decide)
  exact ⟨l, h1, by rw [h2]; decide⟩

end B.AlgoEq4
