import BddVerif.Lemmas.SerialDecimal
/-! Text format lemmas for C12, C13: splitting, the structured form `render`, round trip, face value, totality. -/
namespace B.Serial

theorem splitOn_ne_nil (sep : Char) (s : List Char) : splitOn sep s ≠ [] := by
  induction s with
  | nil => simp [splitOn]
  | cons c cs ih =>
    simp only [splitOn]
    split
    · simp
    · split <;> simp

theorem splitOn_nosep {sep : Char} {a : List Char} (h : sep ∉ a) : splitOn sep a = [a] := by
  induction a with
  | nil => simp [splitOn]
  | cons c cs ih =>
    simp only [List.mem_cons, not_or] at h
    simp only [splitOn, if_neg (Ne.symm h.1), ih h.2]

theorem splitOn_append {sep : Char} {a rest : List Char} (h : sep ∉ a) :
    splitOn sep (a ++ sep :: rest) = a :: splitOn sep rest := by
  induction a with
  | nil => simp [splitOn]
  | cons c cs ih =>
    simp only [List.mem_cons, not_or] at h
    simp only [List.cons_append, splitOn, if_neg (Ne.symm h.1), ih h.2]

/-- three fields of one record -/
abbrev Rec := List Char × List Char × List Char

def recBody (r : Rec) : List Char := r.1 ++ ',' :: (r.2.1 ++ ',' :: r.2.2)

/-- `|a,b,c|a,b,c|…|` -/
def render (recs : List Rec) : List Char := '|' :: recs.flatMap (fun r => recBody r ++ ['|'])

/-- no separator and no whitespace inside a field -/
def Clean (t : List Char) : Prop := ∀ c ∈ t, c ≠ '|' ∧ c ≠ ',' ∧ isWhitespace c = false

def CleanRec (r : Rec) : Prop := Clean r.1 ∧ Clean r.2.1 ∧ Clean r.2.2

def fieldsNode (r : Rec) : Outcome Node :=
  match parseUInt u16Max r.1, parseUInt u32Max r.2.1, parseUInt u32Max r.2.2 with
  | some v, some l, some h => .ok ⟨v, l, h⟩
  | _, _, _ => .err "parse error"

def parseFields : List Rec → Arr → Outcome Arr
  | [], acc => .ok acc
  | r :: rs, acc =>
    match fieldsNode r with
    | .ok nd => parseFields rs (acc.push nd)
    | .err m => .err m
    | .panic m => .panic m

theorem parseRecord_body {r : Rec} (h : CleanRec r) : parseRecord (recBody r) = fieldsNode r := by
  obtain ⟨h1, h2, h3⟩ := h
  have c1 : ',' ∉ r.1 := fun hm => (h1 _ hm).2.1 rfl
  have c2 : ',' ∉ r.2.1 := fun hm => (h2 _ hm).2.1 rfl
  have c3 : ',' ∉ r.2.2 := fun hm => (h3 _ hm).2.1 rfl
  have hs : splitOn ',' (recBody r) = [r.1, r.2.1, r.2.2] := by
    unfold recBody
    rw [splitOn_append c1, splitOn_append c2, splitOn_nosep c3]
  unfold parseRecord fieldsNode
  simp only [hs, idx, liftOpt]
  cases e1 : parseUInt u16Max r.1 <;> cases e2 : parseUInt u32Max r.2.1 <;>
    cases e3 : parseUInt u32Max r.2.2 <;> simp [e1, e2, e3]

theorem parseRecords_map_body : ∀ (recs : List Rec) (acc : Arr), (∀ r ∈ recs, CleanRec r) →
    parseRecords (recs.map recBody) acc = parseFields recs acc := by
  intro recs
  induction recs with
  | nil => intro acc _; simp [parseRecords, parseFields]
  | cons r rs ih =>
    intro acc h
    simp only [List.map_cons, parseRecords, parseFields, parseRecord_body (h r (by simp))]
    cases fieldsNode r with
    | ok nd => exact ih _ (fun r hr => h r (by simp [hr]))
    | err m => rfl
    | panic m => rfl

theorem bar_not_mem_body {r : Rec} (h : CleanRec r) : '|' ∉ recBody r := by
  obtain ⟨h1, h2, h3⟩ := h
  unfold recBody
  simp only [List.mem_append, List.mem_cons, not_or]
  refine ⟨fun hm => (h1 _ hm).1 rfl, by decide, fun hm => (h2 _ hm).1 rfl, by decide, fun hm => (h3 _ hm).1 rfl⟩

theorem splitOn_records : ∀ (recs : List Rec), (∀ r ∈ recs, CleanRec r) →
    splitOn '|' (recs.flatMap (fun r => recBody r ++ ['|'])) = recs.map recBody ++ [[]] := by
  intro recs
  induction recs with
  | nil => intro _; simp [splitOn]
  | cons r rs ih =>
    intro h
    simp only [List.flatMap_cons, List.map_cons, List.cons_append]
    rw [List.append_assoc, List.singleton_append, splitOn_append (bar_not_mem_body (h r (by simp))),
      ih (fun r hr => h r (by simp [hr]))]

theorem recBody_ne_nil (r : Rec) : recBody r ≠ [] := by
  unfold recBody; simp

theorem render_no_ws {recs : List Rec} (h : ∀ r ∈ recs, CleanRec r) :
    (render recs).filter (fun c => !isWhitespace c) = render recs := by
  rw [List.filter_eq_self]
  intro c hc
  simp only [render, List.mem_cons, List.mem_flatMap, List.mem_append, recBody, List.not_mem_nil, or_false] at hc
  have hbar : isWhitespace '|' = false := by decide
  have hcomma : isWhitespace ',' = false := by decide
  rcases hc with rfl | ⟨r, hr, hc⟩
  · simp [hbar]
  · obtain ⟨h1, h2, h3⟩ := h r hr
    rcases hc with (hc | rfl | hc | rfl | hc) | rfl
    · simp [(h1 c hc).2.2]
    · simp [hcomma]
    · simp [(h2 c hc).2.2]
    · simp [hcomma]
    · simp [(h3 c hc).2.2]
    · simp [hbar]

/-- reading a structured text = parsing its fields -/
theorem parseText_render {recs : List Rec} (h : ∀ r ∈ recs, CleanRec r) :
    parseText (render recs) = parseFields recs #[] := by
  unfold parseText
  rw [render_no_ws h]
  have : (splitOn '|' (render recs)).filter (fun p => !p.isEmpty) = recs.map recBody := by
    unfold render
    rw [show ('|' :: recs.flatMap (fun r => recBody r ++ ['|'])) = [] ++ '|' :: recs.flatMap (fun r => recBody r ++ ['|']) from rfl,
      splitOn_append (by simp), splitOn_records recs h]
    simp only [List.filter_cons, List.isEmpty_nil, Bool.not_true, Bool.false_eq_true, if_false, List.filter_append,
      List.filter_nil, List.append_nil]
    rw [List.filter_eq_self]
    intro p hp
    simp only [List.mem_map] at hp
    obtain ⟨r, _, rfl⟩ := hp
    cases hb : recBody r with
    | nil => exact absurd hb (recBody_ne_nil r)
    | cons _ _ => rfl
  rw [this, parseRecords_map_body recs #[] h]

/-! ### the writer produces a structured text -/

def nodeRec (nd : Node) : Rec := (showNat nd.var, showNat nd.low, showNat nd.high)

theorem writeText_eq_render (A : Arr) : writeText A = render (A.toList.map nodeRec) := by
  unfold writeText textPieces render
  simp only [List.flatten_cons, List.singleton_append, List.cons.injEq, true_and]
  induction A.toList with
  | nil => rfl
  | cons nd l ih =>
    simp only [List.flatMap_cons, List.flatten_append, ih, List.map_cons]
    simp [nodePieces, recBody, nodeRec]

theorem clean_showNat (k : Nat) : Clean (showNat k) := by
  intro c hc
  obtain ⟨d, hd, rfl⟩ := mem_showNat k c hc
  have := digitChar_ne_sep d hd
  exact ⟨this.2.2.2.1, this.2.2.1, this.2.2.2.2⟩

theorem cleanRec_nodeRec (nd : Node) : CleanRec (nodeRec nd) :=
  ⟨clean_showNat _, clean_showNat _, clean_showNat _⟩

/-- the fields fit `u16` / `u32` -/
def FitsNode (nd : Node) : Prop := nd.var ≤ u16Max ∧ nd.low ≤ u32Max ∧ nd.high ≤ u32Max

theorem parseFields_nodeRec : ∀ (l : List Node) (acc : Arr), (∀ nd ∈ l, FitsNode nd) →
    parseFields (l.map nodeRec) acc = .ok (acc ++ l.toArray) := by
  intro l
  induction l with
  | nil => intro acc _; simp [parseFields]
  | cons nd l ih =>
    intro acc h
    obtain ⟨h1, h2, h3⟩ := h nd (by simp)
    simp only [List.map_cons, parseFields, fieldsNode, nodeRec, parseUInt_showNat h1, parseUInt_showNat h2,
      parseUInt_showNat h3]
    rw [ih _ (fun x hx => h x (by simp [hx]))]
    congr 1
    apply Array.ext'
    simp

theorem parseText_writeText {A : Arr} (h : ∀ nd ∈ A.toList, FitsNode nd) : parseText (writeText A) = .ok A := by
  rw [writeText_eq_render, parseText_render (by
    intro r hr; simp only [List.mem_map] at hr; obtain ⟨nd, _, rfl⟩ := hr; exact cleanRec_nodeRec nd),
    parseFields_nodeRec _ _ h]
  simp

/-! ### whitespace -/

/-- `s'` is `s` with whitespace characters inserted at arbitrary places -/
inductive WsInsert : List Char → List Char → Prop where
  | nil : WsInsert [] []
  | keep (c : Char) {s s' : List Char} : WsInsert s s' → WsInsert (c :: s) (c :: s')
  | ins (w : Char) {s s' : List Char} : isWhitespace w = true → WsInsert s s' → WsInsert s (w :: s')

theorem WsInsert.filter_eq {s s' : List Char} (h : WsInsert s s') :
    s'.filter (fun c => !isWhitespace c) = s.filter (fun c => !isWhitespace c) := by
  induction h with
  | nil => rfl
  | keep c _ ih => simp only [List.filter_cons, ih]
  | ins w hw _ ih => simp only [List.filter_cons, hw, Bool.not_true, Bool.false_eq_true, if_false, ih]

theorem parseText_filter_congr {s s' : List Char}
    (h : s.filter (fun c => !isWhitespace c) = s'.filter (fun c => !isWhitespace c)) :
    parseText s = parseText s' := by
  unfold parseText; rw [h]

/-! ### totality -/

theorem parseRecord_not_panic (s : List Char) : (parseRecord s).isPanic = false := by
  unfold parseRecord
  simp only
  split
  · rfl
  · rename_i hl
    have hl : (splitOn ',' s).length = 3 := by simpa using hl
    match hs : splitOn ',' s, hl with
    | [a, b, c], _ =>
      simp only [idx, liftOpt]
      cases e1 : parseUInt u16Max a <;> cases e2 : parseUInt u32Max b <;>
        cases e3 : parseUInt u32Max c <;> simp [Outcome.isPanic, e1, e2, e3]

theorem parseRecords_not_panic : ∀ (ps : List (List Char)) (acc : Arr), (parseRecords ps acc).isPanic = false := by
  intro ps
  induction ps with
  | nil => intro acc; rfl
  | cons p ps ih =>
    intro acc
    simp only [parseRecords]
    have := parseRecord_not_panic p
    cases h : parseRecord p with
    | ok nd => exact ih _
    | err m => rfl
    | panic m => rw [h] at this; simp [Outcome.isPanic] at this

theorem parseText_not_panic (s : List Char) : (parseText s).isPanic = false :=
  parseRecords_not_panic _ _

/-! ### face value -/

/-- a record whose three fields are normal numerals -/
def NormalRec (r : Rec) : Prop := NormalNum r.1 ∧ NormalNum r.2.1 ∧ NormalNum r.2.2

theorem clean_of_normal {t : List Char} (h : NormalNum t) : Clean t := by
  intro c hc
  have hd : ∃ d, digitVal? c = some d := by
    rcases h with rfl | ⟨c0, cs, d, rfl, hd, _, hall⟩
    · simp at hc; subst hc; exact ⟨0, by decide⟩
    · simp only [List.mem_cons] at hc
      rcases hc with rfl | hc
      · exact ⟨d, hd⟩
      · exact Option.isSome_iff_exists.mp (hall c hc)
  obtain ⟨d, hd⟩ := hd
  obtain ⟨rfl, hd10⟩ := digitChar_digitVal hd
  have := digitChar_ne_sep d hd10
  exact ⟨this.2.2.2.1, this.2.2.1, this.2.2.2.2⟩

theorem cleanRec_of_normal {r : Rec} (h : NormalRec r) : CleanRec r :=
  ⟨clean_of_normal h.1, clean_of_normal h.2.1, clean_of_normal h.2.2⟩

theorem parseFields_normal : ∀ (recs : List Rec) (acc A : Arr), (∀ r ∈ recs, NormalRec r) →
    parseFields recs acc = .ok A → ∃ l : List Node, A = acc ++ l.toArray ∧ l.map nodeRec = recs := by
  intro recs
  induction recs with
  | nil => intro acc A _ h; simp [parseFields] at h; exact ⟨[], by simp [h], rfl⟩
  | cons r rs ih =>
    intro acc A hn h
    obtain ⟨n1, n2, n3⟩ := hn r (by simp)
    simp only [parseFields, fieldsNode] at h
    cases hv : parseUInt u16Max r.1 with
    | none => simp [hv] at h
    | some v =>
      cases hl : parseUInt u32Max r.2.1 with
      | none => simp [hv, hl] at h
      | some l =>
        cases hh : parseUInt u32Max r.2.2 with
        | none => simp [hv, hl, hh] at h
        | some hi =>
          simp only [hv, hl, hh] at h
          obtain ⟨l', hA, hl'⟩ := ih _ A (fun r hr => hn r (by simp [hr])) h
          refine ⟨⟨v, l, hi⟩ :: l', ?_, ?_⟩
          · rw [hA]; apply Array.ext'; simp
          · simp only [List.map_cons, hl', nodeRec, showNat_parseUInt n1 hv, showNat_parseUInt n2 hl,
              showNat_parseUInt n3 hh]

end B.Serial
