import BddVerif.Lemmas.AlgoEqIterDriver
/-! axiom audit: translated iterators (`continue_path`, `make_clause`, `BddPathIterator::new/next`,
`BddValuation::next`, `ValuationsOfClauseIterator::new/next`) = hand models of `Model/Iter.lean` -/
#print axioms B.AlgoEqIt.forIn_range_eq_loopI
#print axioms B.AlgoEqIt.continue_path_desugar
#print axioms B.AlgoEqIt.continue_path_sim
#print axioms B.AlgoEqIt.continue_path_eq_model
#print axioms B.AlgoEqIt.make_clause_desugar
#print axioms B.AlgoEqIt.make_clause_sim
#print axioms B.AlgoEqIt.make_clause_eq_model
#print axioms B.AlgoEqIt.path_new_eq_model
#print axioms B.AlgoEqIt.path_next_desugar
#print axioms B.AlgoEqIt.path_next_eq_model
#print axioms B.AlgoEqIt.path_next_redundant_panics
#print axioms B.AlgoEqIt.collect_eq_model
#print axioms B.AlgoEqIt.path_next_step
#print axioms B.AlgoEqIt.path_iter_translated
#print axioms B.AlgoEqIt.path_iter_translated_false
#print axioms B.AlgoEqIt.genPaths_eq_collect
#print axioms B.AlgoEqIt.path_iter_translated_driver
#print axioms B.AlgoEqIt.BddValuation_next_desugar
#print axioms B.AlgoEqIt.BddValuation_next_sim
#print axioms B.AlgoEqIt.BddValuation_next_eq_model
#print axioms B.AlgoEqIt.ValuationsOfClauseIterator_new_desugar
#print axioms B.AlgoEqIt.ValuationsOfClauseIterator_new_sim
#print axioms B.AlgoEqIt.ValuationsOfClauseIterator_next_sim
#print axioms B.AlgoEqIt.collect_sim
#print axioms B.AlgoEqIt.clause_vals_translated_eq
#print axioms B.AlgoEqIt.ValuationsOfClauseIterator_new_panics
#print axioms B.AlgoEqIt.unconstrained_translated_eq
#print axioms B.AlgoEqIt.genClauseVals_eq_collect
#print axioms B.AlgoEqIt.clause_vals_translated_driver
