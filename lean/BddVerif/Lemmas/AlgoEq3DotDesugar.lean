import BddVerif.Gen.Algo3
import BddVerif.Lemmas.AlgoEq2Bytes
import BddVerif.Model.Dot
/-!
# Desugaring of the translated `write_bdd_as_dot` (`Gen/Algo3.lean`, `src/_impl_bdd/_impl_export_dot.rs:36`)

`write_bdd_as_dot_desugar`: for a non-empty node vector of at most `2^32` nodes and a name vector of the right
length, the translated function is `dotSkel`:

* the `write_all(..)?` calls of the preamble (`prePieces`: one call per fragment of the `writeln!` format strings),
* then the loop over `bdd.pointers().skip(2)` with the hand-written body `nodeStep` (look the node up, look its
  name up — both may panic —, then the `write_all(..)?` calls `nodePieces` of the vertex line and of the one or two
  edge lines),
* then the closing brace.

The proof unfolds `B.Gen.Algo3.write_bdd_as_dot` and steps through it (`wstep`: one `write_all(..)?` per step — the
generated text is not copied; the fragments of the format strings appear in `preStrs` / `nodeStrs` because they ARE
the statement). A change of the Rust text changes the generated term and breaks `write_bdd_as_dot_desugar`.
-/
namespace B.AlgoEq3Dot
open B B.Gen B.AlgoEqUtil B.AlgoEq2Bytes
attribute [local instance 10000] Rust.monadOutcomeInline

/-- `Result<(), io::Error>` and the `&mut dyn Write` afterwards -/
abbrev Ret := Except Rust.IoError Unit × Rust.Writer
/-- loop state of the translated `for`: the early-return slot and the writer -/
abbrev St := Option Ret × Rust.Writer

theorem ws_err {w : Rust.Writer} {b : Array Nat} {ps : List (Array Nat)} {e : Rust.IoError}
    (h : (Rust.writeAll w b).fst = .error e) :
    writeSeq w (b :: ps) = (.error e, (Rust.writeAll w b).snd) := by
  rw [writeSeq]
  rcases hx : Rust.writeAll w b with ⟨r, w1⟩
  rw [hx] at h
  simp only at h
  subst h
  rfl

theorem ws_ok {w : Rust.Writer} {b : Array Nat} {ps : List (Array Nat)}
    (h : ∀ e, (Rust.writeAll w b).fst = .error e → False) :
    writeSeq w (b :: ps) = writeSeq (Rust.writeAll w b).snd ps := by
  rw [writeSeq]
  rcases hx : Rust.writeAll w b with ⟨r, w1⟩
  rw [hx] at h
  cases r with
  | error e => exact absurd rfl (fun hh => h e hh)
  | ok v => rfl

/-- continue with `k` after a sequence of `write_all(..)?` calls -/
def wThen (r : Ret) (k : Rust.Writer → Outcome Ret) : Outcome Ret :=
  match r with
  | (.error e, w1) => .ok (.error e, w1)
  | (.ok _, w1) => k w1

/-- the loop step after the writes of one node: go on, or leave the loop with the `Err` -/
def stepOf (r : Ret) : Outcome (ForInStep St) :=
  match r with
  | (.ok _, w') => .ok (.yield (none, w'))
  | (.error e, w') => .ok (.done (some (.error e, w'), w'))

/-- the fragments written before the loop -/
def preStrs (A : Arr) (zp : Bool) : List String :=
  ["digraph G {\n", "init__ [label=\"\", style=invis, height=0, width=0];\n",
   "init__ -> ", toString (root A), ";\n"] ++
  (if zp then [] else ["0 [shape=box, label=\"0\", style=filled, shape=box, height=0.3, width=0.3];\n"]) ++
  ["1 [shape=box, label=\"1\", style=filled, shape=box, height=0.3, width=0.3];\n"]

/-- the fragments written for decision node `p = nd` whose variable is called `name` -/
def nodeStrs (zp : Bool) (p : Nat) (nd : Node) (name : String) : List String :=
  [toString p, "[label=\"", name, "\"];\n"] ++
  (if !zp || nd.high != 0 then [toString p, " -> ", toString nd.high, " [style=filled];\n"] else []) ++
  (if !zp || nd.low != 0 then [toString p, " -> ", toString nd.low, " [style=dotted];\n"] else [])

def prePieces (A : Arr) (zp : Bool) : List (Array Nat) := (preStrs A zp).map Rust.utf8Bytes
def nodePieces (zp : Bool) (p : Nat) (nd : Node) (name : String) : List (Array Nat) :=
  (nodeStrs zp p nd name).map Rust.utf8Bytes
def footPieces : List (Array Nat) := ["}\n"].map Rust.utf8Bytes

/-- the body of `for node_pointer in bdd.pointers().skip(2)` -/
def nodeStep (A : Arr) (names : Array String) (zp : Bool) (p : Nat) (s : St) : Outcome (ForInStep St) :=
  match A[p]? with
  | none => .panic "index out of bounds"
  | some nd =>
    match names[nd.var]? with
    | none => .panic "index out of bounds"
    | some name => stepOf (writeSeq s.2 (nodePieces zp p nd name))

/-- after the loop: the early return, or the closing brace -/
def finish (s : St) : Outcome Ret :=
  match s.1 with
  | some r => .ok r
  | none => .ok (writeSeq s.2 footPieces)

/-- `write_bdd_as_dot` after its two entry checks -/
def dotSkel (w : Rust.Writer) (A : Arr) (names : Array String) (zp : Bool) : Outcome Ret :=
  wThen (writeSeq w (prePieces A zp)) fun w1 =>
    iterL (nodeStep A names zp) (Dot.innerPtrs A) (none, w1) >>= finish

/-- one `write_all(..)?` of the generated code against one piece of `writeSeq` -/
local macro "wstep" : tactic => `(tactic| (
  split; (· rename_i e he; rw [ws_err he]; rfl); (rename_i hx; rw [ws_ok hx])))

theorem skip_pointers (A : Arr) (hs : A.size ≤ 4294967296) :
    (Rust.skip (Algo.Bdd_pointers A) 2).toList = Dot.innerPtrs A := by
  rw [pointers_eq A hs]
  unfold Rust.skip Dot.innerPtrs
  simp [List.range_eq_range', List.drop_range']

theorem wThen_nil (w : Rust.Writer) (k : Rust.Writer → Outcome Ret) : wThen (writeSeq w []) k = k w := rfl

theorem finish_eq (g : St → Outcome Ret) (hg : ∀ s, g s = finish s) (x : Outcome St) :
    (x >>= g) = (x >>= finish) := by
  have : g = finish := funext hg
  rw [this]

/-- **desugaring** (any scripted writer) -/
theorem write_bdd_as_dot_desugar (w : Rust.Writer) (A : Arr) (names : Array String) (zp : Bool) (h0 : 0 < A.size)
    (hs : A.size ≤ 4294967296) (hn : names.size = numVars A) :
    Algo3.write_bdd_as_dot w A names zp = dotSkel w A names zp := by
  unfold Algo3.write_bdd_as_dot dotSkel
  have hne : (names.size != numVars A) = false := by simp [hn]
  cases zp
  · simp only [forIn_array_eq_iterL, skip_pointers A hs, num_vars_eq A h0, root_pointer_eq A h0 hs, bind_ok, hne,
      Bool.false_eq_true, if_false, prePieces, preStrs, List.cons_append, List.nil_append, if_true, Bool.not_false,
      List.map_cons, List.map_nil]
    rw [iterL_congr _ (nodeStep A names false) _ (by
      intro p _ s
      simp only [var_of_eq, high_link_eq, low_link_eq, idx_eq, nodeStep]
      cases hA : A[p]? with
      | none => rfl
      | some nd =>
        simp only [bind_ok]
        cases hN : names[nd.var]? with
        | none => rfl
        | some name =>
          simp only [bind_ok, nodePieces, nodeStrs, Bool.not_false, Bool.true_or, if_true, List.cons_append,
            List.nil_append, List.map_cons, List.map_nil]
          repeat wstep
          rfl)]
    repeat wstep
    rw [wThen_nil]
    apply finish_eq
    intro s
    unfold finish
    cases s.1 with
    | some r => rfl
    | none =>
      simp only [footPieces, List.map_cons, List.map_nil]
      wstep
      rfl
  · simp only [forIn_array_eq_iterL, skip_pointers A hs, num_vars_eq A h0, root_pointer_eq A h0 hs, bind_ok, hne,
      Bool.false_eq_true, if_false, prePieces, preStrs, List.cons_append, List.nil_append, if_true, Bool.not_true,
      List.map_cons, List.map_nil]
    rw [iterL_congr _ (nodeStep A names true) _ (by
      intro p _ s
      simp only [var_of_eq, high_link_eq, low_link_eq, idx_eq, is_zero_eq, nodeStep]
      cases hA : A[p]? with
      | none => rfl
      | some nd =>
        simp only [bind_ok]
        cases hN : names[nd.var]? with
        | none => rfl
        | some name =>
          by_cases hh : nd.high = 0 <;> by_cases hl : nd.low = 0 <;>
          · simp only [bind_ok, nodePieces, nodeStrs, Bool.not_true, Bool.false_or, hh, hl, decide_true, decide_false,
              bne_self_eq_false, Bool.false_eq_true, if_false, if_true, List.cons_append, List.nil_append,
              List.append_nil, bne_iff_ne, ne_eq, not_false_eq_true, Bool.not_false, List.map_cons, List.map_nil]
            repeat wstep
            rfl)]
    repeat wstep
    rw [wThen_nil]
    apply finish_eq
    intro s
    unfold finish
    cases s.1 with
    | some r => rfl
    | none =>
      simp only [footPieces, List.map_cons, List.map_nil]
      wstep
      rfl

/-! ### the two entry checks -/

/-- `self.0[0]` on an empty node vector (not constructible through the API) -/
theorem write_bdd_as_dot_empty (w : Rust.Writer) (A : Arr) (names : Array String) (zp : Bool) (h0 : A.size = 0) :
    Algo3.write_bdd_as_dot w A names zp = .panic "index out of bounds" := by
  unfold Algo3.write_bdd_as_dot
  rw [num_vars_empty A h0]
  rfl

/-- `var_names.len() != bdd.num_vars()` -/
theorem write_bdd_as_dot_mismatch (w : Rust.Writer) (A : Arr) (names : Array String) (zp : Bool) (h0 : 0 < A.size)
    (hn : names.size ≠ numVars A) :
    Algo3.write_bdd_as_dot w A names zp =
      .panic "Bdd is incompatible with the variable set ({} vs. {} variables)" := by
  unfold Algo3.write_bdd_as_dot
  have hne : (names.size != numVars A) = true := by simp [hn]
  rw [num_vars_eq A h0]
  simp only [bind_ok, hne, if_true, bind_panic]

end B.AlgoEq3Dot
