import BddVerif.Lemmas.NormalFormMk
/-!
Lemmas for C10, part 7: which inputs make `mk_cnf` panic. Every group of the recursive split ends in
`mk_disjunctive_clause` of its first clause, after the duplicate check; so a clause that fixes a variable
`≥ num_vars` always ends in a failed assertion (the range assertion, or the duplicate assertion if it shares its
group with a different clause).
-/
namespace B.NF
open B

/-- `PartialEq` is exactly "`get_value` answers identically" -/
theorem get_of_clauseEq {a b : PVal} (h : clauseEq a b = true) (i : Nat) : a.get i = b.get i := by
  unfold clauseEq at h
  simp only [Bool.and_eq_true, beq_iff_eq, List.all_eq_true] at h
  obtain ⟨⟨htake, ha⟩, hb⟩ := h
  by_cases hi : i < min a.length b.length
  · have h1 : (a.take (min a.length b.length))[i]? = (b.take (min a.length b.length))[i]? := by rw [htake]
    rw [List.getElem?_take, List.getElem?_take, if_pos hi, if_pos hi] at h1
    unfold PVal.get; rw [h1]
  · have hnone : ∀ (c : PVal), (∀ x ∈ c.drop (min a.length b.length), x.isNone = true) → c.get i = none := by
      intro c hc
      by_cases hic : i < c.length
      · rw [get_eq_getElem c i hic]
        have hmem : c[i] ∈ c.drop (min a.length b.length) := by
          rw [List.mem_iff_getElem]
          refine ⟨i - min a.length b.length, by simp; omega, ?_⟩
          rw [List.getElem_drop]
          congr 1; omega
        have := hc _ hmem
        cases hci : c[i] with
        | none => rfl
        | some x => rw [hci] at this; cases this
      · exact get_of_le c i (by omega)
    rw [hnone a ha, hnone b hb]

theorem inRange_congr {n : Nat} {a b : PVal} (h : ∀ i, a.get i = b.get i) (ha : InRange n a) : InRange n b :=
  fun x bb hg => ha x bb (by rw [h]; exact hg)

theorem mkDisjClause_total (n : Nat) (c : PVal) :
    (mkDisjClause n c).isErr = false ∧ (¬ InRange n c → (mkDisjClause n c).isPanic = true) := by
  by_cases h : InRange n c
  · obtain ⟨r, e, _⟩ := mkDisjClause_inRange h
    rw [e]; exact ⟨rfl, fun h' => absurd h h'⟩
  · rw [mkDisjClause_foreign h]; exact ⟨rfl, fun _ => rfl⟩

theorem mem_split (cs : List PVal) (x : Nat) (d : PVal) (hd : d ∈ cs) :
    d ∈ splitNone cs x ∨ d ∈ splitTrue cs x ∨ d ∈ splitFalse cs x := by
  simp only [splitNone, splitTrue, splitFalse, List.mem_filter, beq_iff_eq]
  rcases hg : d.get x with _ | b
  · left; exact ⟨hd, rfl⟩
  · cases b
    · right; right; exact ⟨hd, rfl⟩
    · right; left; exact ⟨hd, rfl⟩

/-- `mk_cnf::_rec` never returns `Err`, and panics as soon as one clause fixes a foreign variable -/
theorem mkCnfRec_total (n : Nat) : ∀ (k : Nat) (cs : List PVal),
    (mkCnfRec n k cs).isErr = false ∧ ((∃ c ∈ cs, ¬ InRange n c) → (mkCnfRec n k cs).isPanic = true) := by
  intro k
  induction k with
  | zero =>
    intro cs
    cases cs with
    | nil => exact ⟨rfl, fun ⟨c, hc, _⟩ => by cases hc⟩
    | cons c t =>
      simp only [mkCnfRec]
      by_cases hd : allDuplicates (c :: t) = true
      · simp only [hd, if_true]
        refine ⟨(mkDisjClause_total n c).1, ?_⟩
        rintro ⟨d, hdm, hfor⟩
        apply (mkDisjClause_total n c).2
        rcases List.mem_cons.1 hdm with rfl | hdt
        · exact hfor
        · intro hc
          apply hfor
          simp only [allDuplicates, List.all_eq_true] at hd
          exact inRange_congr (fun i => (get_of_clauseEq (hd d hdt) i).symm) hc
      · simp only [hd]
        exact ⟨rfl, fun _ => rfl⟩
  | succ k ih =>
    intro cs
    match cs with
    | [] => exact ⟨rfl, fun ⟨c, hc, _⟩ => by cases hc⟩
    | [c] =>
      simp only [mkCnfRec]
      refine ⟨(mkDisjClause_total n c).1, ?_⟩
      rintro ⟨d, hdm, hfor⟩
      rw [List.mem_singleton] at hdm; subst hdm
      exact (mkDisjClause_total n d).2 hfor
    | c1 :: c2 :: t =>
      simp only [mkCnfRec]
      by_cases hno : ((c1 :: c2 :: t).any fun c => (c.get (n - (k + 1))).isSome) = false
      · simp only [hno, Bool.not_false, if_true]
        exact ih _
      · simp only [Bool.not_eq_false] at hno
        simp only [hno, Bool.not_true, Bool.false_eq_true, if_false]
        obtain ⟨e1, p1⟩ := ih (splitNone (c1 :: c2 :: t) (n - (k + 1)))
        obtain ⟨e2, p2⟩ := ih (splitTrue (c1 :: c2 :: t) (n - (k + 1)))
        obtain ⟨e3, p3⟩ := ih (splitFalse (c1 :: c2 :: t) (n - (k + 1)))
        have hfor : (∃ c ∈ c1 :: c2 :: t, ¬ InRange n c) →
            (mkCnfRec n k (splitNone (c1 :: c2 :: t) (n - (k + 1)))).isPanic = true ∨
            (mkCnfRec n k (splitTrue (c1 :: c2 :: t) (n - (k + 1)))).isPanic = true ∨
            (mkCnfRec n k (splitFalse (c1 :: c2 :: t) (n - (k + 1)))).isPanic = true := by
          rintro ⟨d, hdm, hf⟩
          rcases mem_split _ (n - (k + 1)) d hdm with h | h | h
          · left; exact p1 ⟨d, h, hf⟩
          · right; left; exact p2 ⟨d, h, hf⟩
          · right; right; exact p3 ⟨d, h, hf⟩
        generalize mkCnfRec n k (splitNone (c1 :: c2 :: t) (n - (k + 1))) = r1 at e1 hfor
        generalize mkCnfRec n k (splitTrue (c1 :: c2 :: t) (n - (k + 1))) = r2 at e2 hfor
        generalize mkCnfRec n k (splitFalse (c1 :: c2 :: t) (n - (k + 1))) = r3 at e3 hfor
        cases r1 <;> cases r2 <;> cases r3 <;> simp_all [Outcome.isErr, Outcome.isPanic]

end B.NF
