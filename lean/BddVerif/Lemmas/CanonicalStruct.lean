import BddVerif.Lemmas.Canonical
/-!
Structure of canonical arrays.

* `canon_eq_mkFalse_iff`, `canon_eq_mkTrue_iff`, `canon_size_one_iff`, `canon_size_two_iff` —
  the one-node array is exactly the constant false, the two-node array exactly the constant true
  (so testing `is_false`/`is_true` by size is exact on canonical arrays).
* `canon_restrict` — the reference builder looks at its function only on valuations that are false
  beyond `n`; hence `Canonical.depBelow`: the denotation of a canonical array depends only on its own
  variables.
* `Reach`, `ins_reach`, `canon_nonconst` — a non-constant canonical array is `Red`, its root is its
  last node and every decision node is reachable from the root.
-/
namespace B

/-! ### constants -/

theorem den_mkTrue (n : Nat) (v : Nat → Bool) : den (mkTrue n) v = true := by
  simp [den, root, mkTrue, ev_one]

theorem canon_of_false (n : Nat) (f : (Nat → Bool) → Bool) (hf : ∀ v, f v = false) :
    canon n f = mkFalse n := by
  unfold canon
  rw [ins_false (red_mkTrue n) n 0 f (by omega) hf]
  simp

theorem canon_of_true (n : Nat) (f : (Nat → Bool) → Bool) (hf : ∀ v, f v = true) :
    canon n f = mkTrue n := by
  unfold canon
  have : ins n n 0 f (mkTrue n) = (mkTrue n, 1) := by
    apply ins_found (red_mkTrue n) n 0 f 1 (by omega) (by rw [mkTrue_size]; omega)
    · simp [varOf]
    · intro v; rw [hf, ev_one]
  rw [this]
  simp

theorem canonical_mkFalse (n : Nat) : Canonical (mkFalse n) := by
  unfold Canonical
  rw [numVars_mkFalse, canon_of_false n _ (den_mkFalse n)]

theorem canonical_mkTrue (n : Nat) : Canonical (mkTrue n) := by
  unfold Canonical
  rw [numVars_mkTrue, canon_of_true n _ (den_mkTrue n)]

theorem mkFalse_ne_mkTrue (n m : Nat) : mkFalse n ≠ mkTrue m := by
  intro h; have := congrArg Array.size h; simp [mkFalse, mkTrue] at this

theorem canon_eq_mkFalse_iff (n : Nat) (f : (Nat → Bool) → Bool) (hdep : DepBelow n f) :
    canon n f = mkFalse n ↔ ∀ v, f v = false := by
  constructor
  · intro h v
    rw [← den_canon n f hdep v, h, den_mkFalse]
  · exact canon_of_false n f

theorem canon_eq_mkTrue_iff (n : Nat) (f : (Nat → Bool) → Bool) (hdep : DepBelow n f) :
    canon n f = mkTrue n ↔ ∀ v, f v = true := by
  constructor
  · intro h v
    rw [← den_canon n f hdep v, h, den_mkTrue]
  · exact canon_of_true n f

/-- the builder's output extends the two-terminal array unless the function is constantly false -/
theorem canon_cases (n : Nat) (f : (Nat → Bool) → Bool) (hdep : DepBelow n f) :
    (canon n f = mkFalse n ∧ ∀ v, f v = false) ∨
    (Red (canon n f) n ∧ Prefix (mkTrue n) (canon n f) ∧ 1 ≤ root (canon n f) ∧
      (∀ v, ev (canon n f) v (root (canon n f)) = f v) ∧ ∃ v, f v = true) := by
  rcases canon_spec n f hdep with h | ⟨hred, e, hroot, hev⟩
  · exact Or.inl h
  · right
    have hdep' : ∀ v w : Nat → Bool, (∀ i, 0 ≤ i → i < n → v i = w i) → f v = f w :=
      fun v w h => hdep v w (fun i hi => h i (Nat.zero_le _) hi)
    obtain ⟨_, hpre, _, _, hev'⟩ := ins_spec n 0 f (mkTrue n) (red_mkTrue n) (by omega) hdep'
    have hne : (ins n n 0 f (mkTrue n)).2 ≠ 0 := by
      intro h0
      have : canon n f = mkFalse n := by unfold canon; simp [h0]
      have hs := hred.size2
      rw [this, mkFalse_size] at hs; omega
    refine ⟨hred, by rw [e]; exact hpre, by rw [hroot]; omega, hev, ?_⟩
    -- not constantly false, otherwise the builder would have returned pointer 0
    apply Classical.byContradiction
    intro hno
    have hf : ∀ v, f v = false := by
      intro v
      cases hfv : f v
      · rfl
      · exact absurd ⟨v, hfv⟩ hno
    rw [ins_false (red_mkTrue n) n 0 f (by omega) hf] at hne
    exact hne rfl

theorem canon_size_one_iff (n : Nat) (f : (Nat → Bool) → Bool) (hdep : DepBelow n f) :
    (canon n f).size = 1 ↔ ∀ v, f v = false := by
  constructor
  · intro h
    rcases canon_cases n f hdep with ⟨_, hf⟩ | ⟨hred, _⟩
    · exact hf
    · have := hred.size2; omega
  · intro hf; rw [canon_of_false n f hf]; rfl

theorem eq_mkTrue_of_prefix {A : Arr} {n : Nat} (h : Prefix (mkTrue n) A) (hs : A.size = 2) :
    A = mkTrue n := by
  apply Array.ext_getElem?
  intro i
  by_cases hi : i < 2
  · exact h.2 i (by rw [mkTrue_size]; exact hi)
  · rw [Array.getElem?_eq_none (by omega), Array.getElem?_eq_none (by rw [mkTrue_size]; omega)]

theorem canon_size_two_iff (n : Nat) (f : (Nat → Bool) → Bool) (hdep : DepBelow n f) :
    (canon n f).size = 2 ↔ ∀ v, f v = true := by
  constructor
  · intro h
    rcases canon_cases n f hdep with ⟨e, _⟩ | ⟨_, hpre, _, _, _⟩
    · rw [e, mkFalse_size] at h; omega
    · exact (canon_eq_mkTrue_iff n f hdep).1 (eq_mkTrue_of_prefix hpre h)
  · intro hf; rw [canon_of_true n f hf]; rfl

/-! ### the builder only looks at valuations that are false beyond `n` -/

/-- cut a valuation off at `n` -/
def restr (n : Nat) (v : Nat → Bool) : Nat → Bool := fun i => if i < n then v i else false

theorem ins_congr_on {n : Nat} :
    ∀ fuel k (f g : (Nat → Bool) → Bool) (A : Arr), fuel + k = n →
      (∀ v : Nat → Bool, (∀ i, n ≤ i → v i = false) → f v = g v) →
      ins n fuel k f A = ins n fuel k g A := by
  intro fuel
  induction fuel with
  | zero =>
    intro k f g A _ hfg
    simp only [ins]
    rw [hfg (fun _ => false) (fun _ _ => rfl)]
  | succ fuel ih =>
    intro k f g A hk hfg
    have step : ∀ b, ∀ v : Nat → Bool, (∀ i, n ≤ i → v i = false) →
        (fun v => f (upd v k b)) v = (fun v => g (upd v k b)) v := by
      intro b v hv
      apply hfg
      intro i hi
      have : i ≠ k := by omega
      simp [upd, this, hv i hi]
    have e1 := fun A => ih (k+1) (fun v => f (upd v k true)) (fun v => g (upd v k true)) A (by omega) (step true)
    have e2 := fun A => ih (k+1) (fun v => f (upd v k false)) (fun v => g (upd v k false)) A (by omega) (step false)
    simp only [ins, e1, e2]

theorem canon_restrict (n : Nat) (f : (Nat → Bool) → Bool) :
    canon n f = canon n (fun v => f (restr n v)) := by
  unfold canon
  rw [ins_congr_on n 0 f (fun v => f (restr n v)) (mkTrue n) (by omega)]
  intro v hv
  congr 1
  funext i
  unfold restr
  split
  · rfl
  · exact hv i (by omega)

theorem depBelow_restr (n : Nat) (f : (Nat → Bool) → Bool) : DepBelow n (fun v => f (restr n v)) := by
  intro v w h
  simp only
  congr 1
  funext i
  unfold restr
  split
  · exact h i ‹_›
  · rfl

/-- the denotation of a canonical array depends only on the array's own variables -/
theorem Canonical.depBelow {A : Arr} (h : Canonical A) : DepBelow (numVars A) (den A) := by
  have e : A = canon (numVars A) (fun v => den A (restr (numVars A) v)) := by
    have := canon_restrict (numVars A) (den A)
    rw [← this]; exact h
  have hd : ∀ v, den A v = den A (restr (numVars A) v) := by
    intro v
    have := den_canon (numVars A) _ (depBelow_restr (numVars A) (den A)) v
    rw [← e] at this
    exact this
  intro v w hvw
  rw [hd v, hd w]
  exact depBelow_restr (numVars A) (den A) v w hvw

/-- `Canonical` is closed under the builder without side conditions on the function -/
theorem canon_canonical' (n : Nat) (f : (Nat → Bool) → Bool) : Canonical (canon n f) := by
  rw [canon_restrict]
  exact canon_canonical n _ (depBelow_restr n f)

/-- case analysis of a canonical array -/
theorem Canonical.cases {A : Arr} (h : Canonical A) :
    (A = mkFalse (numVars A) ∧ ∀ v, den A v = false) ∨
    (Red A (numVars A) ∧ Prefix (mkTrue (numVars A)) A ∧ ∃ v, den A v = true) := by
  rcases canon_cases (numVars A) (den A) h.depBelow with ⟨e, hf⟩ | ⟨hred, hpre, _, _, hex⟩
  · left; exact ⟨by rw [← h] at e; exact e, hf⟩
  · right; rw [← h] at hred hpre; exact ⟨hred, hpre, hex⟩

theorem Canonical.size_one_iff {A : Arr} (h : Canonical A) : A.size = 1 ↔ ∀ v, den A v = false := by
  have := canon_size_one_iff (numVars A) (den A) h.depBelow
  rw [← h] at this; exact this

theorem Canonical.size_two_iff {A : Arr} (h : Canonical A) : A.size = 2 ↔ ∀ v, den A v = true := by
  have := canon_size_two_iff (numVars A) (den A) h.depBelow
  rw [← h] at this; exact this

/-! ### reachability -/

/-- `q` is reachable from `p` through low/high links of decision nodes -/
inductive Reach (A : Arr) : Nat → Nat → Prop
  | refl (p : Nat) : Reach A p p
  | low {p q : Nat} {nd : Node} : 2 ≤ p → A[p]? = some nd → Reach A nd.low q → Reach A p q
  | high {p q : Nat} {nd : Node} : 2 ≤ p → A[p]? = some nd → Reach A nd.high q → Reach A p q

theorem Reach.mono {A A' : Arr} (hp : Prefix A A') {p q : Nat} (h : Reach A p q) : Reach A' p q := by
  induction h with
  | refl p => exact Reach.refl p
  | low h2 hnd _ ih =>
    refine Reach.low h2 ?_ ih
    rw [hp.2 _ (by
      rcases Nat.lt_or_ge _ A.size with h' | h'
      · exact h'
      · simp [Array.getElem?_eq_none h'] at hnd)]
    exact hnd
  | high h2 hnd _ ih =>
    refine Reach.high h2 ?_ ih
    rw [hp.2 _ (by
      rcases Nat.lt_or_ge _ A.size with h' | h'
      · exact h'
      · simp [Array.getElem?_eq_none h'] at hnd)]
    exact hnd

/-- every node pushed by the reference builder is reachable from the pointer it returns -/
theorem ins_reach {n : Nat} :
    ∀ fuel k (f : (Nat → Bool) → Bool) (A : Arr), Red A n → fuel + k = n →
      (∀ v w : Nat → Bool, (∀ i, k ≤ i → i < n → v i = w i) → f v = f w) →
      ∀ q, A.size ≤ q → q < (ins n fuel k f A).1.size →
        Reach (ins n fuel k f A).1 (ins n fuel k f A).2 q := by
  intro fuel
  induction fuel with
  | zero => intro k f A _ _ _ q h1 h2; simp [ins] at h2; omega
  | succ fuel ih =>
    intro k f A h hk hdep q hq1 hq2
    have dep1 : ∀ b, ∀ v w : Nat → Bool, (∀ i, k+1 ≤ i → i < n → v i = w i) →
        f (upd v k b) = f (upd w k b) := by
      intro b v w hvw
      apply hdep
      intro i h1 h2
      by_cases hik : i = k
      · simp [upd, hik]
      · simp [upd, hik]; exact hvw i (by omega) h2
    have l1 := ih (k+1) (fun v => f (upd v k true)) A h (by omega) (dep1 true)
    obtain ⟨r1red, r1pre, r1lt, _, _⟩ := ins_spec fuel (k+1) (fun v => f (upd v k true)) A h (by omega) (dep1 true)
    generalize hr1 : ins n fuel (k+1) (fun v => f (upd v k true)) A = r1 at l1 r1red r1pre r1lt
    have l2 := ih (k+1) (fun v => f (upd v k false)) r1.1 r1red (by omega) (dep1 false)
    obtain ⟨r2red, r2pre, r2lt, _, _⟩ := ins_spec fuel (k+1) (fun v => f (upd v k false)) r1.1 r1red (by omega) (dep1 false)
    generalize hr2 : ins n fuel (k+1) (fun v => f (upd v k false)) r1.1 = r2 at l2 r2red r2pre r2lt
    obtain ⟨A1, p1⟩ := r1
    obtain ⟨A2, p2⟩ := r2
    simp only at l1 l2 r1red r1pre r1lt r2red r2pre r2lt
    rw [ins_succ' hr1 hr2] at hq2 ⊢
    -- reachability inside `A2` from one of the two sub-results
    have inA2 : q < A2.size → Reach A2 p1 q ∨ Reach A2 p2 q := by
      intro hq
      by_cases hqa : q < A1.size
      · exact Or.inl ((l1 q hq1 hqa).mono r2pre)
      · exact Or.inr (l2 q (by omega) hq)
    by_cases heq : p2 = p1
    · simp only [heq, if_true] at hq2 ⊢
      rcases inA2 hq2 with r | r
      · exact r
      · rw [heq] at r; exact r
    · simp only [heq, if_false] at hq2 ⊢
      rcases hfn : findNode A2 ⟨k, p2, p1⟩ with _ | i
      · simp only [hfn] at hq2 ⊢
        have hpre := Prefix.push A2 ⟨k, p2, p1⟩
        have hs2 := r2red.size2
        have hnd : (A2.push ⟨k, p2, p1⟩)[A2.size]? = some ⟨k, p2, p1⟩ := by simp
        by_cases hqa : q < A2.size
        · rcases inA2 hqa with r | r
          · exact Reach.high (by omega) hnd (r.mono hpre)
          · exact Reach.low (by omega) hnd (r.mono hpre)
        · have : q = A2.size := by simp at hq2; omega
          subst this; exact Reach.refl _
      · simp only [hfn] at hq2 ⊢
        obtain ⟨hi2, hind⟩ := findNode_some hfn
        rcases inA2 hq2 with r | r
        · exact Reach.high hi2 hind r
        · exact Reach.low hi2 hind r

/-- a canonical array of a non-constant function: reduced, at least three nodes, the root (last
    node) denotes the function, and every decision node is reachable from the root -/
theorem canon_nonconst (n : Nat) (f : (Nat → Bool) → Bool) (hdep : DepBelow n f)
    (hnf : ¬ ∀ v, f v = false) (hnt : ¬ ∀ v, f v = true) :
    Red (canon n f) n ∧ 3 ≤ (canon n f).size ∧
    (∀ v, ev (canon n f) v (root (canon n f)) = f v) ∧
    ∀ q, 2 ≤ q → q < (canon n f).size → Reach (canon n f) (root (canon n f)) q := by
  rcases canon_spec n f hdep with ⟨_, hf⟩ | ⟨hred, e, hroot, hev⟩
  · exact absurd hf hnf
  · have hs3 : 3 ≤ (canon n f).size := by
      have h2 := hred.size2
      rcases Nat.lt_or_ge (canon n f).size 3 with hlt | hge
      · exact absurd ((canon_size_two_iff n f hdep).1 (by omega)) hnt
      · exact hge
    refine ⟨hred, hs3, hev, ?_⟩
    intro q hq2 hqs
    have hdep' : ∀ v w : Nat → Bool, (∀ i, 0 ≤ i → i < n → v i = w i) → f v = f w :=
      fun v w h => hdep v w (fun i hi => h i (Nat.zero_le _) hi)
    have := ins_reach n 0 f (mkTrue n) (red_mkTrue n) (by omega) hdep' q
      (by rw [mkTrue_size]; exact hq2) (by rw [← e]; exact hqs)
    rw [← e, ← hroot] at this
    exact this

/-- the same for any canonical array with at least three nodes -/
theorem Canonical.reach {A : Arr} (h : Canonical A) (hs : 3 ≤ A.size) :
    Red A (numVars A) ∧ ∀ q, 2 ≤ q → q < A.size → Reach A (root A) q := by
  have hnf : ¬ ∀ v, den A v = false := fun hf => by have := h.size_one_iff.2 hf; omega
  have hnt : ¬ ∀ v, den A v = true := fun hf => by have := h.size_two_iff.2 hf; omega
  obtain ⟨hred, _, _, hr⟩ := canon_nonconst (numVars A) (den A) h.depBelow hnf hnt
  rw [← h] at hred hr
  exact ⟨hred, hr⟩

end B
