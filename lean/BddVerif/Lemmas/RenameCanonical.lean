import BddVerif.Lemmas.RenameSpec
import BddVerif.Lemmas.NestedBasic
import BddVerif.Lemmas.CanonicalComplete
/-! Canonicity is transported along a relabelling that keeps validity, reducedness and the links:
    the post-order test of `isCanon` only reads the links, and its fuel is irrelevant above the level bound. -/
namespace B.Ren
open B B.Drive

/-- in a valid diagram the post-order walk does not depend on the fuel beyond the level bound -/
theorem postOrder_fuel {A : Arr} {n : Nat} (h : WFo A n) :
    ∀ f1 f2 p st, p < A.size → n - varOf A n p < f1 → n - varOf A n p < f2 →
      postOrder A f1 p st = postOrder A f2 p st := by
  intro f1
  induction f1 with
  | zero => intro f2 p st _ h1; omega
  | succ f1 ih =>
    intro f2 p st hp h1 h2
    obtain ⟨f2', rfl⟩ : ∃ f2', f2 = f2' + 1 := ⟨f2 - 1, by omega⟩
    rw [postOrder, postOrder]
    by_cases hp2 : p < 2
    · rw [if_pos hp2, if_pos hp2]
    · rw [if_neg hp2, if_neg hp2]
      have hnd : A[p]? = some A[p] := by simp [hp]
      obtain ⟨hv, hl, hh, hvl, hvh⟩ := h.inner p A[p] (by omega) hnd
      have hvar : varOf A n p = A[p].var := varOf_node p _ (by omega) hnd
      have e : A[p]?.getD default = A[p] := by rw [hnd]; rfl
      rw [e]
      split
      · rfl
      · simp only
        rw [ih f2' A[p].high st hh (by omega) (by omega)]
        cases postOrder A f2' A[p].high st with
        | none => rfl
        | some st1 =>
          simp only
          rw [ih f2' A[p].low st1 hl (by omega) (by omega)]

theorem canonical_wfo {A : Arr} (h : Canonical A) : WFo A (numVars A) := by
  have := (canon_wfo (numVars A) (den A) h.depBelow).1
  rw [← h] at this; exact this

/-- on canonical arrays the index-fuel denotation `den` is the evaluator of the drivers -/
theorem canonical_den_eq_evalArr {A : Arr} (h : Canonical A) (v : Nat → Bool) : den A v = evalArr A v := by
  have := (canon_wfo (numVars A) (den A) h.depBelow).2 v
  rw [← h] at this
  rw [evalArr_of_wf (canonical_wfo h), this]

/-- a valid relabelling with the same links, reduced whenever the original is, of a canonical array is
    canonical -/
theorem canonical_transport {b r : Arr} {m : Nat} (hc : Canonical b) (hw : WFo r m)
    (hred : Red b (numVars b) → Red r m) (hl : SameLinks r b) : Canonical r := by
  have hnr : numVars r = m := numVars_of_wf hw
  have hsz : r.size = b.size := hl.1
  rcases hc.cases with ⟨e, _⟩ | ⟨hredb, hpre, _⟩
  · -- the one-node array
    have h1 : r.size = 1 := by rw [hsz, e]; rfl
    have : r = mkFalse m := by
      apply Array.ext_getElem?
      intro i
      match i with
      | 0 => rw [hw.zero]; rfl
      | i + 1 => rw [Array.getElem?_eq_none (by omega), Array.getElem?_eq_none (by rw [mkFalse_size]; omega)]
    rw [this]; exact canonical_mkFalse m
  · have hs2 := hredb.size2
    by_cases hs : b.size = 2
    · have : r = mkTrue m := by
        apply Array.ext_getElem?
        intro i
        match i with
        | 0 => rw [hw.zero]; rfl
        | 1 => rw [hw.one (by omega)]; rfl
        | i + 2 => rw [Array.getElem?_eq_none (by omega), Array.getElem?_eq_none (by rw [mkTrue_size]; omega)]
      rw [this]; exact canonical_mkTrue m
    · have hs3 : 3 ≤ b.size := by omega
      -- the post-order test accepts `b` with any fuel above its variable count
      have hdep := hc.depBelow
      have hdep' : ∀ v w : Nat → Bool, (∀ i, 0 ≤ i → i < numVars b → v i = w i) → den b v = den b w :=
        fun v w h => hdep v w (fun i hi => h i (Nat.zero_le _) hi)
      have hpob : ∃ vis', postOrder b (numVars b + m + 2) (root b) (Array.replicate b.size false, 2) =
          some (vis', b.size) := by
        rcases canon_spec (numVars b) (den b) hdep with ⟨e, _⟩ | ⟨_, e, hroot, _⟩
        · rw [← hc] at e; rw [e, mkFalse_size] at hs3; omega
        · rw [← hc] at e hroot
          have hinv : PInv b (Array.replicate b.size false) (mkTrue (numVars b)).size := by
            rw [mkTrue_size]
            refine ⟨by simp, by omega, by omega, ?_⟩
            intro q hq2 hqs
            rw [Array.getD_eq_getD_getElem?, Array.getElem?_replicate, if_pos hqs]
            simp; omega
          obtain ⟨vis', hpo, _⟩ := ins_postOrder (A := b) (numVars b) 0 (den b) (mkTrue (numVars b))
            (red_mkTrue _) (by omega) hdep' (by rw [← e]; exact Prefix.refl b) (numVars b + m + 2) _ hinv (by omega)
          rw [← e, ← hroot, mkTrue_size] at hpo
          exact ⟨vis', hpo⟩
      obtain ⟨vis', hpob⟩ := hpob
      have hroot : root r = root b := by unfold root; rw [hsz]
      have hrl : root r < r.size := by unfold root; omega
      have hpor : postOrder r (numVars r + 2) (root r) (Array.replicate r.size false, 2) = some (vis', r.size) := by
        rw [hnr, postOrder_fuel hw (m + 2) (numVars b + m + 2) (root r) _ hrl (by omega) (by omega),
          postOrder_sameLinks hl, hroot, hsz]
        exact hpob
      exact canonical_of_postOrder (by rw [hnr]; exact hred hredb) (by rw [hnr]; exact hw.zero)
        (by rw [hnr]; exact hw.one (by omega)) (by omega) hpor

end B.Ren
