import BddVerif.Lemmas.NormalFormExt
import BddVerif.Lemmas.NormalFormSupport
import BddVerif.Lemmas.RelRestrict
/-!
Lemmas for C10, part 6: `to_optimized_dnf`. Semantics of the building blocks on canonical arrays
(`var_for_all`, `var_exists`, `var_restrict` — the last one through `Rel.restriction_eq_canon` of the C06
lemma files), preservation of "ignores variable `y`", the invariants of the two greedy loops, and the
recursion itself: it never runs out of fuel, no assertion fires, `partial_clause` is restored, and the clauses
appended denote `partial_clause ∧ bdd`.
-/
namespace B.NF
open B

/-! ### building blocks -/

theorem sem_varForAll {n A f} (h : Sem n A f) {x : Nat} (hx : x < n) :
    Sem n (varForAll A x) (fun v => f v && f (inv (some x) v)) :=
  Sem.apply h h Gen.and_ _ and_consistent (some x) (by intro y hy; cases hy; exact hx)

theorem sem_varExists {n A f} (h : Sem n A f) {x : Nat} (hx : x < n) :
    Sem n (varExists A x) (fun v => f v || f (inv (some x) v)) :=
  Sem.apply h h Gen.or_ _ or_consistent (some x) (by intro y hy; cases hy; exact hx)

theorem ovr_single (x : Nat) (b : Bool) (v : Nat → Bool) : Rel.ovr (fromValues [(x, b)]) v = upd v x b := by
  funext i
  have : fromValues [(x, b)] = PVal.set [] x b := rfl
  unfold Rel.ovr
  rw [this, get_set]
  by_cases h : i = x
  · simp [h, upd]
  · simp [h, upd, get_nil]

theorem dep_upd {n : Nat} {f : (Nat → Bool) → Bool} (h : Dep n f) (x : Nat) (b : Bool) :
    Dep n (fun v => f (upd v x b)) := by
  intro v w hvw
  apply h
  intro i hi
  by_cases hix : i = x
  · simp [upd, hix]
  · simp [upd, hix, hvw i hi]

theorem sem_varRestrict {n A f} (h : Sem n A f) (x : Nat) (b : Bool) :
    Sem n (varRestrict A x b) (fun v => f (upd v x b)) := by
  refine ⟨?_, dep_upd h.dep x b⟩
  unfold varRestrict restrict
  rw [Rel.restriction_eq_canon h.wfo]
  apply canon_congr
  intro v
  rw [ovr_single]
  unfold Rel.sem
  rw [h.numVars]
  exact h.evW _

/-! ### valid (level-ordered) operands that need not be canonical -/

/-- `A` is a well-formed operand over `n` variables (`WFo`: what `validate()` guarantees — exact terminals,
    variables `< n`, links in range, variables strictly increasing along links; duplicates, redundant tests,
    unreachable nodes and any numbering allowed) and `f` is its function, evaluated by level (`evW`, which is
    what `Drive.evalArr` / `eval_in` compute) -/
structure Opnd (n : Nat) (A : Arr) (f : (Nat → Bool) → Bool) : Prop where
  wfo : WFo A n
  ev : ∀ v, evW A n v (root A) = f v

theorem Sem.opnd {n A f} (h : Sem n A f) : Opnd n A f := ⟨h.wfo, h.evW⟩

theorem Opnd.dep {n A f} (h : Opnd n A f) : Dep n f := by
  intro v w hvw
  rw [← h.ev v, ← h.ev w]
  exact evW_indep h.wfo n _ (root_lt h.wfo) (by omega) v w (fun i _ hin => hvw i hin)

theorem Opnd.numVars {n A f} (h : Opnd n A f) : numVars A = n := numVars_of_wf h.wfo

/-- `apply_with_flip` (optional flip of the right operand) on two valid operands returns the canonical array
    of the connective -/
theorem Opnd.apply {n A B f g} (hA : Opnd n A f) (hB : Opnd n B g) (op : Op2) (c : Bool → Bool → Bool)
    (hc : Consistent op c) (fr : Option Nat) (hfr : ∀ x, fr = some x → x < n) :
    Sem n (applyWithFlip A B op none fr none) (fun v => c (f v) (g (inv fr v))) := by
  refine ⟨?_, ?_⟩
  · rw [applyWithFlip_eq_canon A B n op c none fr none hA.wfo hB.wfo hA.numVars hc (by simp) hfr (by simp)]
    apply canon_congr
    intro v
    simp only [inv]
    rw [hA.ev, hB.ev]
  · intro v w hvw
    have e1 := hA.dep v w hvw
    have e2 := dep_inv hB.dep fr v w hvw
    simp only at e2
    show c (f v) (g (inv fr v)) = c (f w) (g (inv fr w))
    rw [e1, e2]

theorem opnd_varForAll {n A f} (h : Opnd n A f) {x : Nat} (hx : x < n) :
    Sem n (varForAll A x) (fun v => f v && f (inv (some x) v)) :=
  Opnd.apply h h Gen.and_ _ and_consistent (some x) (by intro y hy; cases hy; exact hx)

theorem opnd_varRestrict {n A f} (h : Opnd n A f) (x : Nat) (b : Bool) :
    Sem n (varRestrict A x b) (fun v => f (upd v x b)) := by
  refine ⟨?_, dep_upd h.dep x b⟩
  unfold varRestrict restrict
  rw [Rel.restriction_eq_canon h.wfo]
  apply canon_congr
  intro v
  rw [ovr_single]
  unfold Rel.sem
  rw [h.numVars]
  exact h.ev _

theorem Opnd.size_one {n A f} (h : Opnd n A f) (hs : A.size = 1) (v : Nat → Bool) : f v = false := by
  rw [← h.ev v]
  have : root A = 0 := by unfold root; omega
  rw [this]; exact evW_zero A n v

theorem Opnd.size_two {n A f} (h : Opnd n A f) (hs : A.size = 2) (v : Nat → Bool) : f v = true := by
  rw [← h.ev v]
  have : root A = 1 := by unfold root; omega
  rw [this]; exact evW_one A n v

/-! ### "ignores variable `y`" is preserved -/

theorem ind_inv {f : (Nat → Bool) → Bool} {y : Nat} (h : Ind f y) (x : Nat) :
    Ind (fun v => f (inv (some x) v)) y := by
  intro v b
  show f (inv (some x) (upd v y b)) = f (inv (some x) v)
  rw [inv_upd, h]

theorem ind_comb {f g : (Nat → Bool) → Bool} {y : Nat} (c : Bool → Bool → Bool) (hf : Ind f y) (hg : Ind g y) :
    Ind (fun v => c (f v) (g v)) y := by
  intro v b
  show c (f (upd v y b)) (g (upd v y b)) = c (f v) (g v)
  rw [hf, hg]

theorem ind_upd_other {f : (Nat → Bool) → Bool} {y : Nat} (h : Ind f y) (x : Nat) (c : Bool) :
    Ind (fun v => f (upd v x c)) y := by
  intro v b
  show f (upd (upd v y b) x c) = f (upd v x c)
  by_cases hxy : y = x
  · subst hxy; rw [upd_upd_same]
  · rw [upd_comm v hxy, h]

theorem ind_upd_self (f : (Nat → Bool) → Bool) (x : Nat) (c : Bool) : Ind (fun v => f (upd v x c)) x := by
  intro v b
  show f (upd (upd v x b) x c) = f (upd v x c)
  rw [upd_upd_same]

theorem inv_inv (x : Nat) (v : Nat → Bool) : inv (some x) (inv (some x) v) = v := by
  funext j
  by_cases h : j = x
  · subst h; simp [inv]
  · simp [inv, h]

theorem upd_eq_or (v : Nat → Bool) (x : Nat) (b : Bool) : upd v x b = v ∨ upd v x b = inv (some x) v := by
  by_cases h : v x = b
  · left; rw [← h]; exact upd_self v x
  · right
    funext j
    by_cases hj : j = x
    · subst hj; cases hb : b <;> cases hv : v j <;> simp_all [upd, inv]
    · simp [upd, inv, hj]

/-- if nothing of `f` is left outside its universal projection on `x`, then `f` ignores `x` -/
theorem ind_of_remaining_false {f : (Nat → Bool) → Bool} {x : Nat}
    (h : ∀ v, (f v && !(f v && f (inv (some x) v))) = false) : Ind f x := by
  have himp : ∀ v, f v = true → f (inv (some x) v) = true := by
    intro v hv
    have := h v
    rw [hv] at this
    cases hf : f (inv (some x) v)
    · rw [hf] at this; simp at this
    · rfl
  have heq : ∀ v, f (inv (some x) v) = f v := by
    intro v
    cases hv : f v
    · cases hf : f (inv (some x) v)
      · rfl
      · have := himp _ hf
        rw [inv_inv, hv] at this; cases this
    · exact himp v hv
  intro v b
  rcases upd_eq_or v x b with e | e
  · rw [e]
  · rw [e, heq]

/-! ### the greedy loops -/

theorem foldl_pick {α : Type} (step : Nat × α → Nat → Nat × α)
    (hstep : ∀ best var, step best var = best ∨ (step best var).1 = var) :
    ∀ (l : List Nat) (init : Nat × α), (l.foldl step init).1 = init.1 ∨ (l.foldl step init).1 ∈ l := by
  intro l
  induction l with
  | nil => intro init; left; rfl
  | cons a t ih =>
    intro init
    simp only [List.foldl_cons, List.mem_cons]
    rcases ih (step init a) with h | h
    · rcases hstep init a with e | e
      · left; rw [h, e]
      · right; left; rw [h, e]
    · right; right; exact h

theorem bestCore_mem (card : Arr → Nat) (bdd : Arr) (support : List Nat) (s0 : Nat) (h0 : s0 ∈ support) :
    (bestCore card bdd support s0).1 ∈ support := by
  have key : (bestCore card bdd support s0).1 = s0 ∨ (bestCore card bdd support s0).1 ∈ support := by
    unfold bestCore
    refine foldl_pick (α := Nat) _ ?_ support (s0, 0)
    intro best var
    dsimp only
    split
    · right; rfl
    · left; rfl
  rcases key with h | h
  · rw [h]; exact h0
  · exact h

theorem bestBranch_mem (rest : Arr) (support : List Nat) (s0 : Nat) (h0 : s0 ∈ support) :
    (bestBranch rest support s0).1 ∈ support := by
  have key : (bestBranch rest support s0).1 = s0 ∨ (bestBranch rest support s0).1 ∈ support := by
    unfold bestBranch
    refine foldl_pick (α := Nat) _ ?_ support (s0, usizeMax)
    intro best var
    dsimp only
    split
    · right; rfl
    · left; rfl
  rcases key with h | h
  · rw [h]; exact h0
  · exact h

/-- what is known of the `remaining` diagram of lines 254-272 -/
def RestOk (n : Nat) (f coreF : (Nat → Bool) → Bool) (rem : Arr) : Prop :=
  ∃ g, Sem n rem g ∧ (∀ v, (g v || coreF v) = f v) ∧ (∀ y, Ind f y → Ind g y)

theorem prune_ok {n : Nat} {f coreF : (Nat → Bool) → Bool} {bdd core : Arr}
    (hb : Opnd n bdd f) (hc : Sem n core coreF) :
    ∀ (vars : List Nat) (rem : Arr), (∀ x ∈ vars, x < n) → RestOk n f coreF rem →
      RestOk n f coreF (pruneRemaining bdd core rem vars) := by
  intro vars
  induction vars with
  | nil => intro rem _ h; exact h
  | cons x t ih =>
    intro rem hlt h
    unfold pruneRemaining
    simp only [List.foldl_cons]
    apply ih _ (fun y hy => hlt y (List.mem_cons_of_mem _ hy))
    obtain ⟨g, hg, hor, hind⟩ := h
    by_cases heq : (bddOr (varExists rem x) core == bdd) = true
    · simp only [heq, if_true]
      have hx : x < n := hlt x (List.mem_cons_self ..)
      have hs := sem_varExists hg hx
      refine ⟨_, hs, ?_, ?_⟩
      · intro v
        have e := eq_of_beq heq
        have h1 := (hs.or hc).evW v
        rw [e, hb.ev v] at h1
        exact h1.symm
      · intro y hy
        exact ind_comb (fun a b => a || b) (hind y hy) (ind_inv (hind y hy) x)
    · simp only [heq]
      exact ⟨g, hg, hor, hind⟩

/-! ### the recursion -/

/-- what a recursive call delivers on a canonical `bdd` whose function ignores every variable outside `S`
    and every variable fixed in `partial_clause` -/
def RecOk (n : Nat) (rec : Arr → PVal → List PVal → Outcome (PVal × List PVal)) (m : Nat) : Prop :=
  ∀ (bdd : Arr) (pc : PVal) (res : List PVal) (f : (Nat → Bool) → Bool) (S : List Nat),
    Sem n bdd f → S.length < m → (∀ x, x ∉ S → Ind f x) → (∀ y, pc.get y ≠ none → Ind f y) →
    ∃ pc' R, rec bdd pc res = .ok (pc', res ++ R) ∧ (∀ i, pc'.get i = pc.get i) ∧
      (∀ v, dnfFn R v = (conjFn pc v && f v)) ∧
      (∀ c ∈ R, ∀ x b, c.get x = some b → x < n ∨ pc.get x = some b)

theorem length_erase_lt {S : List Nat} {x m : Nat} (hx : x ∈ S) (h : S.length < m + 1) : (S.erase x).length < m := by
  rw [List.length_erase_of_mem hx]
  have : 0 < S.length := List.length_pos_of_mem hx
  omega

theorem not_mem_of_erase {S : List Nat} {x y : Nat} (h : y ∉ S.erase x) (hne : y ≠ x) : y ∉ S := by
  intro hy
  exact h ((List.mem_erase_of_ne hne).2 hy)

theorem optAfterCore_spec {n m : Nat} (card : Arr → Nat)
    {rec : Arr → PVal → List PVal → Outcome (PVal × List PVal)} (hrec : RecOk n rec m)
    {bdd : Arr} {pc : PVal} {res : List PVal} {f : (Nat → Bool) → Bool} {S : List Nat}
    (hs : Opnd n bdd f) (hS : S.length < m + 1) (hSind : ∀ x, x ∉ S → Ind f x)
    (hpc : ∀ y, pc.get y ≠ none → Ind f y)
    (support : List Nat) (s0 : Nat) (h0 : s0 ∈ support)
    (hsup : ∀ y ∈ support, DependsOn f y ∧ y < n) :
    ∃ pc1 R1 rest g, optAfterCore card rec bdd pc res support s0 = .ok (pc1, res ++ R1, rest) ∧
      (∀ i, pc1.get i = pc.get i) ∧ Opnd n rest g ∧ (∀ y, Ind f y → Ind g y) ∧
      (∀ v, (dnfFn R1 v || (conjFn pc v && g v)) = (conjFn pc v && f v)) ∧
      (∀ c ∈ R1, ∀ x b, c.get x = some b → x < n ∨ pc.get x = some b) := by
  unfold optAfterCore
  by_cases hbest : (bestCore card bdd support s0).2 ≠ 0
  · simp only [hbest, ne_eq, not_false_eq_true, if_true]
    have hx := hsup _ (bestCore_mem card bdd support s0 h0)
    generalize (bestCore card bdd support s0).1 = x at hx
    obtain ⟨hxdep, hxn⟩ := hx
    have hcore := opnd_varForAll hs hxn
    have hxS : x ∈ S := by
      apply Classical.byContradiction
      intro hnot
      exact not_dependsOn_of_ind (hSind x hnot) hxdep
    have hcoreInd : ∀ y, Ind f y → Ind (fun v => f v && f (inv (some x) v)) y :=
      fun y hy => ind_comb (fun a b => a && b) hy (ind_inv hy x)
    have hcoreX : Ind (fun v => f v && f (inv (some x) v)) x := by
      intro v b
      show (f (upd v x b) && f (inv (some x) (upd v x b))) = (f v && f (inv (some x) v))
      rcases upd_eq_or v x b with e | e
      · rw [e]
      · rw [e, inv_inv, Bool.and_comm]
    obtain ⟨pc1, R1, hrun, hext, hR1, hr1⟩ := hrec (varForAll bdd x) pc res _ (S.erase x) hcore
      (length_erase_lt hxS hS)
      (by
        intro y hy
        by_cases hyx : y = x
        · rw [hyx]; exact hcoreX
        · exact hcoreInd y (hSind y (not_mem_of_erase hy hyx)))
      (fun y hy => hcoreInd y (hpc y hy))
    rw [hrun]
    simp only
    have hrem : Sem n (bddAndNot bdd (varForAll bdd x)) (fun v => f v && !(f v && f (inv (some x) v))) :=
      Opnd.apply hs hcore.opnd Gen.and_not_ _ and_not_consistent none (by simp)
    have hsize : ¬ (bddAndNot bdd (varForAll bdd x)).size = 1 := by
      intro h1
      rcases hrem.cases with ⟨_, hfalse⟩ | ⟨hred, _, _⟩
      · exact not_dependsOn_of_ind (ind_of_remaining_false hfalse) hxdep
      · have := hred.size2; omega
    rw [if_neg hsize]
    have hinit : RestOk n f (fun v => f v && f (inv (some x) v)) (bddAndNot bdd (varForAll bdd x)) := by
      refine ⟨_, hrem, ?_, ?_⟩
      · intro v
        show ((f v && !(f v && f (inv (some x) v))) || (f v && f (inv (some x) v))) = f v
        cases f v <;> cases f (inv (some x) v) <;> rfl
      · intro y hy
        exact ind_comb (fun a b => a && !b) hy (hcoreInd y hy)
    have hvars : ∀ y ∈ supportSorted (varForAll bdd x), y < n := by
      intro y hy
      obtain ⟨p, nd, hp, hnd, hv⟩ := mem_supportSorted hy
      rw [← hv]; exact (hcore.node_dep p nd hp hnd).2
    obtain ⟨g, hg, hor, hgind⟩ := prune_ok hs hcore _ _ hvars hinit
    refine ⟨pc1, R1, _, g, rfl, hext, hg.opnd, hgind, ?_, hr1⟩
    intro v
    rw [hR1 v, ← hor v]
    dsimp only
    cases conjFn pc v <;> cases g v <;> cases f v <;> cases f (inv (some x) v) <;> rfl
  · simp only [hbest, if_false]
    refine ⟨pc, [], bdd, f, by simp, fun _ => rfl, hs, fun _ h => h, ?_, fun c hc => by cases hc⟩
    intro v; simp [dnfFn]

theorem optBranch_spec {n m : Nat}
    {rec : Arr → PVal → List PVal → Outcome (PVal × List PVal)} (hrec : RecOk n rec m)
    {rest : Arr} {pc : PVal} {res : List PVal} {f g : (Nat → Bool) → Bool} {S : List Nat}
    (hg : Opnd n rest g) (hgind : ∀ y, Ind f y → Ind g y)
    (hS : S.length < m + 1) (hSind : ∀ x, x ∉ S → Ind f x)
    (hpc : ∀ y, pc.get y ≠ none → Ind f y)
    (support : List Nat) (s0 : Nat) (h0 : s0 ∈ support)
    (hsup : ∀ y ∈ support, DependsOn f y ∧ y < n) :
    ∃ pc' R, optBranch rec rest pc res support s0 = .ok (pc', res ++ R) ∧
      (∀ i, pc'.get i = pc.get i) ∧
      (∀ v, dnfFn R v = (conjFn pc v && g v)) ∧
      (∀ c ∈ R, ∀ x b, c.get x = some b → x < n ∨ pc.get x = some b) := by
  unfold optBranch
  have hx := hsup _ (bestBranch_mem rest support s0 h0)
  generalize (bestBranch rest support s0).1 = x at hx
  dsimp only
  obtain ⟨hxdep, hxn⟩ := hx
  have hxS : x ∈ S := by
    apply Classical.byContradiction
    intro hnot
    exact not_dependsOn_of_ind (hSind x hnot) hxdep
  have hnone : pc.get x = none := by
    rcases hq : pc.get x with _ | b
    · rfl
    · exact absurd (hpc x (by rw [hq]; simp)) (fun hi => not_dependsOn_of_ind hi hxdep)
  have hSer : ∀ c, ∀ y, y ∉ S.erase x → Ind (fun v => g (upd v x c)) y := by
    intro c y hy
    by_cases hyx : y = x
    · rw [hyx]; exact ind_upd_self g x c
    · exact ind_upd_other (hgind y (hSind y (not_mem_of_erase hy hyx))) x c
  -- the `true` branch
  obtain ⟨pc2, R2, hrun2, hext2, hR2, hr2⟩ := hrec (varRestrict rest x true) (pc.set x true) res _ (S.erase x)
    (opnd_varRestrict hg x true) (length_erase_lt hxS hS) (hSer true)
    (by
      intro y hy
      rw [get_set] at hy
      by_cases hyx : y = x
      · rw [hyx]; exact ind_upd_self g x true
      · rw [if_neg hyx] at hy
        exact ind_upd_other (hgind y (hpc y hy)) x true)
  rw [hrun2]
  simp only
  -- the `false` branch
  have hget2 : ∀ i, (pc2.set x false).get i = (pc.set x false).get i := by
    intro i
    rw [get_set, get_set]
    split
    · rfl
    · rename_i hi; rw [hext2, get_set, if_neg hi]
  obtain ⟨pc3, R3, hrun3, hext3, hR3, hr3⟩ := hrec (varRestrict rest x false) (pc2.set x false) (res ++ R2) _
    (S.erase x) (opnd_varRestrict hg x false) (length_erase_lt hxS hS) (hSer false)
    (by
      intro y hy
      rw [hget2, get_set] at hy
      by_cases hyx : y = x
      · rw [hyx]; exact ind_upd_self g x false
      · rw [if_neg hyx] at hy
        exact ind_upd_other (hgind y (hpc y hy)) x false)
  rw [hrun3]
  simp only
  refine ⟨pvUnset pc3 x, R2 ++ R3, by rw [List.append_assoc], ?_, ?_, ?_⟩
  · intro i
    rw [get_unset]
    split
    · rename_i hi; rw [hi, hnone]
    · rename_i hi; rw [hext3, hget2, get_set, if_neg hi]
  · intro v
    unfold dnfFn at hR2 hR3 ⊢
    rw [List.any_append, hR2 v, hR3 v, conjFn_congr hget2 v, conjFn_set _ _ _ _ hnone, conjFn_set _ _ _ _ hnone]
    have hshannon : g v = if v x then g (upd v x true) else g (upd v x false) := by
      cases hv : v x
      · simp only [Bool.false_eq_true, if_false]; rw [← hv, upd_self]
      · simp only [if_true]; rw [← hv, upd_self]
    rw [hshannon]
    cases v x <;> cases conjFn pc v <;> simp
  · intro c hc y b hgy
    rw [List.mem_append] at hc
    rcases hc with hc | hc
    · rcases hr2 c hc y b hgy with hy | hy
      · left; exact hy
      · rw [get_set] at hy
        split at hy
        · rename_i hyx; left; rw [hyx]; exact hxn
        · right; exact hy
    · rcases hr3 c hc y b hgy with hy | hy
      · left; exact hy
      · rw [hget2, get_set] at hy
        split at hy
        · rename_i hyx; left; rw [hyx]; exact hxn
        · right; exact hy

/-- one call of `_rec` on a VALID operand (not necessarily canonical) all of whose syntactic support variables
    are variables its function depends on, given that the recursive calls (always on canonical arrays) work -/
theorem optRec_step {n m : Nat} (card : Arr → Nat) (ih : RecOk n (optRec card m) m)
    {bdd : Arr} {pc : PVal} {res : List PVal} {f : (Nat → Bool) → Bool} {S : List Nat}
    (hs : Opnd n bdd f) (hS : S.length < m + 1) (hSind : ∀ x, x ∉ S → Ind f x)
    (hpc : ∀ y, pc.get y ≠ none → Ind f y)
    (hmem : ∀ y ∈ supportSorted bdd, DependsOn f y ∧ y < n) :
    ∃ pc' R, optRec card (m + 1) bdd pc res = .ok (pc', res ++ R) ∧ (∀ i, pc'.get i = pc.get i) ∧
      (∀ v, dnfFn R v = (conjFn pc v && f v)) ∧
      (∀ c ∈ R, ∀ x b, c.get x = some b → x < n ∨ pc.get x = some b) := by
  by_cases h1 : bdd.size = 1
  · refine ⟨pc, [], ?_, fun _ => rfl, ?_, fun c hc => by cases hc⟩
    · simp [optRec, h1]
    · intro v; simp [dnfFn, hs.size_one h1 v]
  by_cases h2 : bdd.size = 2
  · refine ⟨pc, [pc], ?_, fun _ => rfl, ?_, ?_⟩
    · simp [optRec, h2]
    · intro v; simp [dnfFn, hs.size_two h2 v]
    · intro c hc x b hg
      rw [List.mem_singleton] at hc; subst hc
      right; exact hg
  · have h3 : 3 ≤ bdd.size := by have := hs.wfo.size_pos; omega
    rcases hsp : supportSorted bdd with _ | ⟨s0, tl⟩
    · exact absurd hsp (supportSorted_ne_nil h3)
    · rw [hsp] at hmem
      have h0 : s0 ∈ s0 :: tl := List.mem_cons_self ..
      obtain ⟨pc1, R1, rest, g, hcore, hext1, hg, hgind, hR1, hr1⟩ :=
        optAfterCore_spec card ih hs hS hSind hpc (s0 :: tl) s0 h0 hmem (res := res)
      have hpc1 : ∀ y, pc1.get y ≠ none → Ind f y := fun y hy => hpc y (by rw [← hext1]; exact hy)
      obtain ⟨pc', R, hbr, hext, hR, hr⟩ :=
        optBranch_spec ih hg hgind hS hSind hpc1 (s0 :: tl) s0 h0 hmem (res := res ++ R1)
      refine ⟨pc', R1 ++ R, ?_, ?_, ?_, ?_⟩
      · simp only [optRec, h1, h2, if_false, hsp]
        rw [hcore]
        simp only
        rw [hbr, List.append_assoc]
      · intro i; rw [hext, hext1]
      · intro v
        unfold dnfFn at hR hR1 ⊢
        rw [List.any_append, hR v, conjFn_congr hext1 v]
        exact hR1 v
      · intro c hc x b hgx
        rw [List.mem_append] at hc
        rcases hc with hc | hc
        · exact hr1 c hc x b hgx
        · rcases hr c hc x b hgx with hx | hx
          · left; exact hx
          · right; rw [← hext1]; exact hx

/-- `_rec` with fuel `m` handles every canonical diagram whose function lives on fewer than `m` variables -/
theorem optRec_ok {n : Nat} (card : Arr → Nat) : ∀ m, RecOk n (optRec card m) m := by
  intro m
  induction m with
  | zero => intro _ _ _ _ S _ h; omega
  | succ m ih =>
    intro bdd pc res f S hs hS hSind hpc
    apply optRec_step card ih hs.opnd hS hSind hpc
    intro y hy
    obtain ⟨p, nd, hp, hnd, hv⟩ := mem_supportSorted hy
    rw [← hv]; exact hs.node_dep p nd hp hnd

/-- `to_optimized_dnf` of a VALID operand (`WFo`; duplicates, non-post-order numbering … allowed) whose decision
    nodes — reachable or not — are all labelled by variables the function depends on: no panic, fuel suffices,
    the clauses are over the variable set and denote the function. (If some node is labelled by a variable the
    function ignores, the code panics: `toOptimizedDnf_spurious_panics`.) -/
theorem toOptimizedDnfWith_wfo {n : Nat} (card : Arr → Nat) {b : Arr} {f : (Nat → Bool) → Bool} (hs : Opnd n b f)
    (hmem : ∀ y ∈ supportSorted b, DependsOn f y) :
    ∃ cs, toOptimizedDnfWith card b = .ok cs ∧ (∀ c ∈ cs, InRange n c) ∧ ∀ v, dnfFn cs v = f v := by
  unfold toOptimizedDnfWith
  by_cases h1 : b.size = 1
  · refine ⟨[], by simp [h1], (fun c hc => by cases hc), ?_⟩
    intro v; rw [hs.size_one h1 v]; rfl
  by_cases h2 : b.size = 2
  · refine ⟨[[]], by simp [h2], ?_, ?_⟩
    · intro c hc x bb hg
      rw [List.mem_singleton] at hc; subst hc
      rw [get_nil] at hg; cases hg
    · intro v; rw [hs.size_two h2 v]; rfl
  · simp only [h1, h2, if_false]
    have hmem' : ∀ y ∈ supportSorted b, DependsOn f y ∧ y < n := by
      intro y hy
      refine ⟨hmem y hy, ?_⟩
      obtain ⟨p, nd, hp, hnd, hv⟩ := mem_supportSorted hy
      rw [← hv]; exact (hs.wfo.inner p nd hp hnd).1
    obtain ⟨pc', R, hrun, _, hR, hr⟩ := optRec_step card (optRec_ok card (n + 1)) (S := List.range n)
      (pc := []) (res := []) hs
      (by rw [List.length_range]; omega)
      (by
        intro x hx
        have hxn : n ≤ x := by
          rcases Nat.lt_or_ge x n with h | h
          · exact absurd (List.mem_range.2 h) hx
          · exact h
        intro v bb
        apply hs.dep
        intro i hi
        have : i ≠ x := by omega
        simp [upd, this])
      (by intro y hy; rw [get_nil] at hy; exact absurd rfl hy) hmem'
    rw [hs.numVars, hrun]
    simp only [List.nil_append]
    refine ⟨R, rfl, ?_, ?_⟩
    · intro c hc x bb hg
      rcases hr c hc x bb hg with hx | hx
      · exact hx
      · rw [get_nil] at hx; cases hx
    · intro v; rw [hR v, conjFn_nil]; rfl

/-- `to_optimized_dnf` of a canonical array (for ANY cardinality function steering the greedy choice): it
    returns a clause list over the variable set that denotes the function of the array -/
theorem toOptimizedDnfWith_sem {n : Nat} (card : Arr → Nat) {b : Arr} {f : (Nat → Bool) → Bool} (hs : Sem n b f) :
    ∃ cs, toOptimizedDnfWith card b = .ok cs ∧ (∀ c ∈ cs, InRange n c) ∧ ∀ v, dnfFn cs v = f v := by
  unfold toOptimizedDnfWith
  rcases hs.cases with ⟨e, hfalse⟩ | ⟨hred, _, hev⟩
  · refine ⟨[], by rw [e]; simp [mkFalse], (fun c hc => by cases hc), ?_⟩
    intro v; rw [hfalse v]; rfl
  have h1 : ¬ b.size = 1 := by have := hred.size2; omega
  by_cases h2 : b.size = 2
  · have htrue : ∀ v, f v = true := by
      intro v
      rw [← hev v]
      unfold root; rw [h2]
      exact ev_one b v
    refine ⟨[[]], by simp [h2], ?_, ?_⟩
    · intro c hc x bb hg
      rw [List.mem_singleton] at hc; subst hc
      rw [get_nil] at hg; cases hg
    · intro v; rw [htrue v]; rfl
  · simp only [h1, h2, if_false]
    obtain ⟨pc', R, hrun, _, hR, hr⟩ := optRec_ok card (numVars b + 2) b [] [] f (List.range n) hs
      (by rw [hs.numVars, List.length_range]; omega)
      (by
        intro x hx
        have hxn : n ≤ x := by
          rcases Nat.lt_or_ge x n with h | h
          · exact absurd (List.mem_range.2 h) hx
          · exact h
        intro v bb
        apply hs.dep
        intro i hi
        have : i ≠ x := by omega
        simp [upd, this])
      (by intro y hy; rw [get_nil] at hy; exact absurd rfl hy)
    rw [hrun]
    simp only [List.nil_append]
    refine ⟨R, rfl, ?_, ?_⟩
    · intro c hc x bb hg
      rcases hr c hc x bb hg with hx | hx
      · exact hx
      · rw [get_nil] at hx; cases hx
    · intro v; rw [hR v, conjFn_nil]; rfl

end B.NF
