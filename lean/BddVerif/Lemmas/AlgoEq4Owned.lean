import BddVerif.Gen.Algo4
import BddVerif.Lemmas.AlgoEq3SatChain
/-!
# The OWNED iterator twins of `Gen/Algo4.lean` = the BORROWED translated iterators (`Gen/Algo.lean`, `Gen/Algo3.lean`)

`OwnedBddPathIterator` / `OwnedBddSatisfyingValuations` are hand-maintained textual copies of the borrowed iterators
in the Rust source and are translated independently of them. This file ties the translated twins to each other,
statement for statement about the GENERATED definitions (nothing is copied):

* `OwnedBddPathIterator_next_eq_borrowed`, `OwnedBddPathIterator_new_eq_borrowed` — the translated owned `next`/`new`
  ARE the translated borrowed ones (as functions, every fuel, every state — the owned state `(bdd, stack)` is the
  borrowed state `(&bdd, stack)`); `from`, `into_sat_clauses` likewise;
* `OwnedBddSatisfyingValuations_next_eq_borrowed`, `Bdd_into_sat_valuations_eq_borrowed` — the owned valuation
  iterator stores `num_vars` where the borrowed one stores `&bdd`: under the state correspondence
  `ownSt (bdd, paths, vals) = (num_vars(bdd), paths, vals)` every step and the constructor agree, for every
  non-empty array (for the EMPTY array both constructors panic, at different statements; `empty_both_panic`);
* `…_bdd` lemmas, `owned_returns_bdd_translated` — UNCONDITIONALLY (every array, every state, every fuel): whenever
  the translated owned `new`/`next` returns, the `bdd` component (and the stored `num_vars`) is the one it started
  with, so `Bdd::from(iterator)` after any number of `next` calls returns the Bdd the iterator was made from — the
  translated counterpart of `Props.C08.owned_returns_bdd`.
-/
namespace B.AlgoEq4
open B B.Gen B.Gen.Algo B.Gen.Algo3 B.Gen.Algo4 B.Iter B.AlgoEqIt B.AlgoEq3Sat
attribute [local instance 10000] Rust.monadOutcomeInline

/-- state of the translated `OwnedBddPathIterator`: `(bdd, stack)` -/
abbrev OPath := Arr × Array Nat
/-- state of the translated `OwnedBddSatisfyingValuations`: `(num_vars, paths, valuations)` -/
abbrev OSt := Nat × (Arr × Array Nat) × (Option (Array Bool) × Array (Option Bool))

/-! ## the path iterator: the two translations coincide -/

/-- **`OwnedBddPathIterator::next` = `BddPathIterator::next`** as translated functions (all fuels, all states) -/
theorem OwnedBddPathIterator_next_eq_borrowed : OwnedBddPathIterator_next = BddPathIterator_next := rfl

/-- **`OwnedBddPathIterator::new` = `BddPathIterator::new`** as translated functions -/
theorem OwnedBddPathIterator_new_eq_borrowed : OwnedBddPathIterator_new = BddPathIterator_new := rfl

theorem OwnedBddPathIterator_from_eq_new (fuel : Nat) (A : Arr) :
    OwnedBddPathIterator_from fuel A = OwnedBddPathIterator_new fuel A := rfl

/-- `OwnedBddPathIterator::from(bdd)` = the borrowed `BddPathIterator::new(&bdd)` -/
theorem OwnedBddPathIterator_from_eq_borrowed (fuel : Nat) (A : Arr) :
    OwnedBddPathIterator_from fuel A = BddPathIterator_new fuel A := by
  rw [OwnedBddPathIterator_from_eq_new, OwnedBddPathIterator_new_eq_borrowed]

theorem Bdd_into_sat_clauses_eq_new (fuel : Nat) (A : Arr) :
    Bdd_into_sat_clauses fuel A = OwnedBddPathIterator_new fuel A := rfl

/-- **`Bdd::into_sat_clauses` = `Bdd::sat_clauses`** as translated functions -/
theorem Bdd_into_sat_clauses_eq_borrowed (fuel : Nat) (A : Arr) :
    Bdd_into_sat_clauses fuel A = Bdd_sat_clauses fuel A := by
  rfl

/-- `impl From<OwnedBddPathIterator> for Bdd` gives the `bdd` field -/
theorem bdd_path_iterator__Bdd_from_eq (A : Arr) (stk : Array Nat) : bdd_path_iterator__Bdd_from (A, stk) = A := rfl

/-! ## the valuation iterator: `num_vars` stored instead of `&bdd` -/

/-- **the state correspondence**: the owned iterator keeps `bdd.num_vars()` where the borrowed one keeps `&bdd` -/
def ownSt (g : GSt) : OSt := (numVars g.1, g.2.1, g.2.2)

/-- **`OwnedBddSatisfyingValuations::next` = `BddSatisfyingValuations::next`** under the state correspondence: for
    every array `A` whose `num_vars()` is `n` (i.e. every non-empty array), every path-iterator state `p`, every
    clause-iterator state `cv` and every fuel, the translated owned `next` from `(n, p, cv)` is the translated
    borrowed `next` from `(A, p, cv)` with `A` replaced by `n` in the state returned. -/
theorem OwnedBddSatisfyingValuations_next_eq_borrowed (fuel : Nat) (A : Arr) (n : Nat) (hn : Bdd_num_vars A = .ok n)
    (p : Arr × Array Nat) (cv : Option (Array Bool) × Array (Option Bool)) :
    OwnedBddSatisfyingValuations_next fuel (n, p, cv) =
      (BddSatisfyingValuations_next fuel (A, p, cv)).map (fun r => (r.1, (n, r.2.2.1, r.2.2.2))) := by
  unfold OwnedBddSatisfyingValuations_next BddSatisfyingValuations_next
  rw [OwnedBddPathIterator_next_eq_borrowed]
  dsimp only
  cases h1 : ValuationsOfClauseIterator_next cv with
  | err m => rfl
  | panic m => rfl
  | ok x =>
    obtain ⟨o, cv1⟩ := x
    cases o with
    | some v => rfl
    | none =>
      simp only [ok_bind, Option.isSome_none, Bool.false_eq_true, if_false]
      cases h2 : BddPathIterator_next fuel p with
      | err m => rfl
      | panic m => rfl
      | ok y =>
        obtain ⟨op, p'⟩ := y
        cases op with
        | none => rfl
        | some c =>
          simp only [ok_bind, hn]
          cases h3 : ValuationsOfClauseIterator_new c n with
          | err m => rfl
          | panic m => rfl
          | ok cv2 =>
            simp only [ok_bind]
            cases h4 : ValuationsOfClauseIterator_next cv2 with
            | err m => rfl
            | panic m => rfl
            | ok z => rfl

/-- **`Bdd::into_sat_valuations` = `Bdd::sat_valuations`** under the state correspondence, on every non-empty array -/
theorem Bdd_into_sat_valuations_eq_borrowed (fuel : Nat) (A : Arr) (hA : 0 < A.size) :
    Bdd_into_sat_valuations fuel A = (Bdd_sat_valuations fuel A).map ownSt := by
  have hn := num_vars_eq A hA
  unfold Bdd_into_sat_valuations Bdd_sat_valuations
  rw [OwnedBddPathIterator_new_eq_borrowed, OwnedBddPathIterator_next_eq_borrowed]
  simp only [hn, ok_bind]
  cases BddPathIterator_new fuel A with
  | err m => rfl
  | panic m => rfl
  | ok st =>
    simp only [ok_bind]
    cases BddPathIterator_next fuel st with
    | err m => rfl
    | panic m => rfl
    | ok y =>
      obtain ⟨op, p'⟩ := y
      cases op with
      | none => rfl
      | some c =>
        simp only [ok_bind]
        cases ValuationsOfClauseIterator_new c (numVars A) with
        | err m => rfl
        | panic m => rfl
        | ok cv2 => rfl

/-- on the EMPTY array (not a Bdd) both constructors panic — the owned one at `self.num_vars()`, the borrowed one at
    `root_pointer()` -/
theorem empty_both_panic (fuel : Nat) (A : Arr) (h0 : A.size = 0) :
    (Bdd_into_sat_valuations fuel A).isPanic = true ∧ (Bdd_sat_valuations fuel A).isPanic = true := by
  constructor
  · unfold Bdd_into_sat_valuations
    rw [AlgoEqUtil.num_vars_empty A h0]; rfl
  · obtain ⟨m, hm⟩ := root_pointer_empty A h0
    unfold Bdd_sat_valuations BddPathIterator_new Bdd_is_false
    simp [h0, hm, Outcome.isPanic]

theorem OwnedBddSatisfyingValuations_from_eq (fuel : Nat) (A : Arr) :
    OwnedBddSatisfyingValuations_from fuel A = Bdd_into_sat_valuations fuel A := by
  unfold OwnedBddSatisfyingValuations_from
  cases Bdd_into_sat_valuations fuel A <;> rfl

/-- `impl From<OwnedBddSatisfyingValuations> for Bdd`: `value.paths.into()` (the translator gives the trait call
    `.into()` one unit of fuel) -/
theorem bdd_satisfying_valuations__Bdd_from_eq (fuel : Nat) (s : OSt) :
    bdd_satisfying_valuations__Bdd_from (fuel + 1) s = .ok s.2.1.1 := rfl

theorem bdd_satisfying_valuations__Bdd_from_zero (s : OSt) :
    bdd_satisfying_valuations__Bdd_from 0 s = .panic "fuel" := rfl

/-! ## the owned iterators never change the Bdd they own (all inputs, all fuels) -/

theorem loopI_inv {σ : Type} (P : σ → Prop) (step : Nat → σ → Outcome (ForInStep σ))
    (hstep : ∀ i s s', P s → (step i s = .ok (.yield s') ∨ step i s = .ok (.done s')) → P s') :
    ∀ n a s s', P s → loopI step a n s = .ok s' → P s' := by
  intro n
  induction n with
  | zero =>
    intro a s s' hP h
    rw [loopI_zero] at h
    cases h; exact hP
  | succ n ih =>
    intro a s s' hP h
    rw [loopI_succ] at h
    cases hs : step a s with
    | err m => simp [hs] at h
    | panic m => simp [hs] at h
    | ok x =>
      cases x with
      | done t =>
        simp only [hs] at h
        cases h
        exact hstep a s _ hP (Or.inr hs)
      | yield t =>
        simp only [hs] at h
        exact ih _ t s' (hstep a s t hP (Or.inl hs)) h

theorem nxStep_bdd (fuel : Nat) (s : NxSt) (x : ForInStep NxSt) (h : nxStep fuel s = .ok x) :
    (match x with | .yield t => t | .done t => t).1.1 = s.1.1 := by
  unfold nxStep at h
  split at h
  · cases h; rfl
  · split at h
    · cases h
    · split at h
      · split at h
        · cases h; rfl
        · split at h
          · cases h
          · rw [bind_eq_match] at h
            split at h
            · cases h; rfl
            · cases h
            · cases h
      · split at h
        · cases h; rfl
        · cases h

/-- **`OwnedBddPathIterator::next` returns the Bdd it was given**, on every state and with every fuel -/
theorem OwnedBddPathIterator_next_bdd (fuel : Nat) (st : OPath) (r : Option (Array (Option Bool)) × OPath)
    (h : OwnedBddPathIterator_next fuel st = .ok r) : r.2.1 = st.1 := by
  obtain ⟨A, stk⟩ := st
  rw [OwnedBddPathIterator_next_eq_borrowed, path_next_desugar] at h
  by_cases he : stk.isEmpty
  · simp only [he, if_true] at h
    cases h; rfl
  · simp only [he, Bool.false_eq_true, if_false] at h
    cases hm : make_clause A stk with
    | err m => simp [hm] at h
    | panic m => simp [hm] at h
    | ok item =>
      simp only [hm, ok_bind] at h
      cases hu : Rust.unwrap stk.back? with
      | err m => simp [hu] at h
      | panic m => simp [hu] at h
      | ok last =>
        simp only [hu, ok_bind] at h
        cases hl : loopI (fun _ s => nxStep fuel s) 0 fuel ((A, stk.pop), last, false) with
        | err m => simp [hl] at h
        | panic m => simp [hl] at h
        | ok s' =>
          simp only [hl, ok_bind] at h
          have hb : s'.1.1 = A :=
            loopI_inv (fun s : NxSt => s.1.1 = A) (fun _ s => nxStep fuel s)
              (by
                intro i s t hP hs
                rcases hs with hs | hs
                · have := nxStep_bdd fuel s _ hs; simp only at this; rw [this]; exact hP
                · have := nxStep_bdd fuel s _ hs; simp only at this; rw [this]; exact hP)
              fuel 0 _ s' rfl hl
          unfold nxPost at h
          split at h
          · cases h; exact hb
          · cases h

/-- **`OwnedBddPathIterator::new` stores the Bdd it was given**, on every array and with every fuel -/
theorem OwnedBddPathIterator_new_bdd (fuel : Nat) (A : Arr) (st : OPath) (h : OwnedBddPathIterator_new fuel A = .ok st) :
    st.1 = A := by
  unfold OwnedBddPathIterator_new at h
  split at h
  · cases h; rfl
  · cases hr : Bdd_root_pointer A with
    | err m => simp [hr] at h
    | panic m => simp [hr] at h
    | ok root =>
      simp only [hr, ok_bind] at h
      cases hc : continue_path fuel A #[root] with
      | err m => simp [hc] at h
      | panic m => simp [hc] at h
      | ok p =>
        simp only [hc, ok_bind] at h
        cases h; rfl

/-- **`OwnedBddSatisfyingValuations::next` keeps the Bdd and the stored `num_vars`**, on every state, every fuel -/
theorem OwnedBddSatisfyingValuations_next_bdd (fuel : Nat) (st : OSt) (r : Option (Array Bool) × OSt)
    (h : OwnedBddSatisfyingValuations_next fuel st = .ok r) : r.2.2.1.1 = st.2.1.1 ∧ r.2.1 = st.1 := by
  obtain ⟨n, p, cv⟩ := st
  unfold OwnedBddSatisfyingValuations_next at h
  cases h1 : ValuationsOfClauseIterator_next cv with
  | err m => simp [h1] at h
  | panic m => simp [h1] at h
  | ok x =>
    obtain ⟨o, cv1⟩ := x
    simp only [h1, ok_bind] at h
    cases o with
    | some v => cases h; exact ⟨rfl, rfl⟩
    | none =>
      simp only [Option.isSome_none, Bool.false_eq_true, if_false] at h
      cases h2 : OwnedBddPathIterator_next fuel p with
      | err m => simp [h2] at h
      | panic m => simp [h2] at h
      | ok y =>
        obtain ⟨op, p'⟩ := y
        have hb := OwnedBddPathIterator_next_bdd fuel p _ h2
        simp only [h2, ok_bind] at h
        cases op with
        | none => cases h; exact ⟨hb, rfl⟩
        | some c =>
          simp only at h
          cases h3 : ValuationsOfClauseIterator_new c n with
          | err m => simp [h3] at h
          | panic m => simp [h3] at h
          | ok cv2 =>
            simp only [h3, ok_bind] at h
            cases h4 : ValuationsOfClauseIterator_next cv2 with
            | err m => simp [h4] at h
            | panic m => simp [h4] at h
            | ok z =>
              simp only [h4, ok_bind] at h
              cases h; exact ⟨hb, rfl⟩

/-- **`Bdd::into_sat_valuations` stores the Bdd it was given and its `num_vars()`**, every array, every fuel -/
theorem Bdd_into_sat_valuations_bdd (fuel : Nat) (A : Arr) (st : OSt) (h : Bdd_into_sat_valuations fuel A = .ok st) :
    st.2.1.1 = A ∧ st.1 = numVars A := by
  unfold Bdd_into_sat_valuations at h
  cases hn : Bdd_num_vars A with
  | err m => simp [hn] at h
  | panic m => simp [hn] at h
  | ok n =>
    have hA : 0 < A.size := by
      rcases Nat.eq_zero_or_pos A.size with h0 | h0
      · rw [AlgoEqUtil.num_vars_empty A h0] at hn; cases hn
      · exact h0
    rw [num_vars_eq A hA] at hn
    cases hn
    simp only [num_vars_eq A hA, ok_bind] at h
    cases h1 : OwnedBddPathIterator_new fuel A with
    | err m => simp [h1] at h
    | panic m => simp [h1] at h
    | ok p =>
      have hp := OwnedBddPathIterator_new_bdd fuel A p h1
      simp only [h1, ok_bind] at h
      cases h2 : OwnedBddPathIterator_next fuel p with
      | err m => simp [h2] at h
      | panic m => simp [h2] at h
      | ok y =>
        obtain ⟨op, p'⟩ := y
        have hb := OwnedBddPathIterator_next_bdd fuel p _ h2
        simp only [h2, ok_bind] at h
        cases op with
        | none => cases h; exact ⟨by rw [← hp]; exact hb, rfl⟩
        | some c =>
          simp only at h
          cases h3 : ValuationsOfClauseIterator_new c (numVars A) with
          | err m => simp [h3] at h
          | panic m => simp [h3] at h
          | ok cv2 =>
            simp only [h3, ok_bind] at h
            cases h; exact ⟨by rw [← hp]; exact hb, rfl⟩

/-- running `takeK` keeps every quantity that each step keeps -/
theorem takeK_inv {σ α β : Type} (step : σ → Outcome (Option α × σ)) (q : σ → β)
    (hstep : ∀ s r, step s = .ok r → q r.2 = q s) :
    ∀ k s l s', takeK step k s = .ok (l, s') → q s' = q s := by
  intro k
  induction k with
  | zero => intro s l s' h; simp only [takeK] at h; cases h; rfl
  | succ k ih =>
    intro s l s' h
    simp only [takeK] at h
    cases hs : step s with
    | err m => simp [hs] at h
    | panic m => simp [hs] at h
    | ok r =>
      obtain ⟨o, s1⟩ := r
      have h1 := hstep s _ hs
      cases o with
      | none =>
        simp only [hs] at h
        cases h; exact h1
      | some a =>
        simp only [hs] at h
        cases hk : takeK step k s1 with
        | err m => simp [hk] at h
        | panic m => simp [hk] at h
        | ok x =>
          obtain ⟨l2, s2⟩ := x
          simp only [hk] at h
          cases h
          rw [ih s1 l2 _ hk]; exact h1

/-- **The translated owned iterators give back the Bdd they were made from, whatever number of items has been
    taken** — `Props.C08.owned_returns_bdd` for the translated code, with no hypothesis on the array, the fuel or
    the number of items: `Bdd::from(OwnedBddPathIterator::new(b) …next()ᵏ) = b`, the same through `from`/
    `into_sat_clauses`, and `Bdd::from(b.into_sat_valuations() …next()ᵏ) = b` (also through
    `OwnedBddSatisfyingValuations::from`). -/
theorem owned_returns_bdd_translated (fuel : Nat) (A : Arr) :
    (∀ st, OwnedBddPathIterator_new fuel A = .ok st → bdd_path_iterator__Bdd_from st = A) ∧
    (∀ st, OwnedBddPathIterator_from fuel A = .ok st → bdd_path_iterator__Bdd_from st = A) ∧
    (∀ st, Bdd_into_sat_clauses fuel A = .ok st → bdd_path_iterator__Bdd_from st = A) ∧
    (∀ st f', Bdd_into_sat_valuations fuel A = .ok st → bdd_satisfying_valuations__Bdd_from (f' + 1) st = .ok A) ∧
    (∀ st f', OwnedBddSatisfyingValuations_from fuel A = .ok st →
      bdd_satisfying_valuations__Bdd_from (f' + 1) st = .ok A) ∧
    (∀ k (st : OPath) l st', takeK (OwnedBddPathIterator_next fuel) k st = .ok (l, st') →
      bdd_path_iterator__Bdd_from st' = bdd_path_iterator__Bdd_from st) ∧
    (∀ k (st : OSt) l st' f', takeK (OwnedBddSatisfyingValuations_next fuel) k st = .ok (l, st') →
      bdd_satisfying_valuations__Bdd_from (f' + 1) st' = bdd_satisfying_valuations__Bdd_from (f' + 1) st) := by
  refine ⟨?_, ?_, ?_, ?_, ?_, ?_, ?_⟩
  · intro st h; exact OwnedBddPathIterator_new_bdd fuel A st h
  · intro st h; rw [OwnedBddPathIterator_from_eq_new] at h; exact OwnedBddPathIterator_new_bdd fuel A st h
  · intro st h; rw [Bdd_into_sat_clauses_eq_new] at h; exact OwnedBddPathIterator_new_bdd fuel A st h
  · intro st f' h
    rw [bdd_satisfying_valuations__Bdd_from_eq, (Bdd_into_sat_valuations_bdd fuel A st h).1]
  · intro st f' h
    rw [OwnedBddSatisfyingValuations_from_eq] at h
    rw [bdd_satisfying_valuations__Bdd_from_eq, (Bdd_into_sat_valuations_bdd fuel A st h).1]
  · intro k st l st' h
    exact takeK_inv (OwnedBddPathIterator_next fuel) (fun s => s.1)
      (fun s r hr => OwnedBddPathIterator_next_bdd fuel s r hr) k st l st' h
  · intro k st l st' f' h
    rw [bdd_satisfying_valuations__Bdd_from_eq, bdd_satisfying_valuations__Bdd_from_eq]
    exact congrArg Outcome.ok (takeK_inv (OwnedBddSatisfyingValuations_next fuel) (fun s => s.2.1.1)
      (fun s r hr => (OwnedBddSatisfyingValuations_next_bdd fuel s r hr).1) k st l st' h)

end B.AlgoEq4
