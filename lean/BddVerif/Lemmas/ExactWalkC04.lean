import BddVerif.Drive.C04
import BddVerif.Lemmas.ExactWalkC07
/-!
# Soundness of the exact walk `walk2` of `Drive/C04.lean`

`Drive.C04.walk2 X L R n c fl fr fo fuel x l r seen` is a recursive memoised side-by-side walk of the result
`X` and the operands `L`, `R` with the three flips applied per level. **Soundness of an accepting answer**: for
`X`, `L`, `R` ordered by level over `n` variables (`WFo`; `handle` tests `wfoB` on the operands, the result of the
real library is checked by the same predicate) an answer `(true, _)` from the roots with the empty memo table —
for ANY fuel — implies the bit-inversion identity of `Props/C04.lean` (`fused2_spec`) for EVERY valuation:
`X(v) = c (L (inv fl (inv fo v))) (R (inv fr (inv fo v)))`. No reducedness, no bound on the flip variables.
-/
namespace B.ExactWalk
open B B.Drive

abbrev T3 := Nat × Nat × Nat

theorem invV_eq_inv (f : Option Nat) (v : Nat → Bool) : C04.invV f v = inv f v := by
  cases f with
  | none => rfl
  | some x => funext j; simp [C04.invV, inv]

theorem inv_at (f : Option Nat) (v : Nat → Bool) (d : Nat) : inv f v d = (v d != C04.isF f d) := by
  cases f with
  | none => simp [inv, C04.isF]
  | some x =>
    by_cases h : d = x
    · subst h; simp [inv, C04.isF]
    · have hb : (x == d) = false := by simpa using fun e : x = d => h e.symm
      simp [inv, C04.isF, h, hb]

theorem cof_spec {A : Arr} {n : Nat} (hA : WFo A n) {p : Nat} (hp : p < A.size) (d : Nat) (hd : d < n)
    (hle : d ≤ varOf A n p) (β : Bool) :
    C04.cof A n p d β < A.size ∧ d < varOf A n (C04.cof A n p d β) ∧
      ∀ w : Nat → Bool, w d = β → evW A n w p = evW A n w (C04.cof A n p d β) := by
  unfold C04.cof
  by_cases hvd : (varOf A n p == d) = true
  · have hvd' : varOf A n p = d := by simpa using hvd
    have h2 : 2 ≤ p := by
      rcases Nat.lt_or_ge p 2 with h | h
      · have : varOf A n p = n := by simp [varOf, h]
        omega
      · exact h
    have hnd : A[p]? = some A[p] := by simp [hp]
    have hna : nodeAt A p = A[p] := by simp [nodeAt, hp]
    have hv := varOf_node (n := n) p _ h2 hnd
    obtain ⟨i1, i2, i3, i4, i5⟩ := hA.inner p _ h2 hnd
    simp only [hvd, if_true, hna]
    refine ⟨by split <;> assumption, by split <;> omega, ?_⟩
    intro w hw
    rw [evW_node hA w p h2 _ hnd, ← hv, hvd', hw]
    cases β <;> simp
  · have hvd' : varOf A n p ≠ d := by simpa using hvd
    simp only [hvd, if_false, Bool.false_eq_true]
    exact ⟨hp, by omega, by simp⟩

section
variable (X L R : Arr) (n : Nat) (c : Bool → Bool → Bool) (fl fr fo : Option Nat)

def E3 (t : T3) : Prop :=
  ∀ v, evW X n v t.1 = c (evW L n (inv fl (inv fo v)) t.2.1) (evW R n (inv fr (inv fo v)) t.2.2)

def lev3 (t : T3) : Nat := min (varOf X n t.1) (min (varOf L n t.2.1) (varOf R n t.2.2))

def mu3 (t : T3) : Nat := n - lev3 X L R n t

def InB3 (t : T3) : Prop := t.1 < X.size ∧ t.2.1 < L.size ∧ t.2.2 < R.size

def kid3 (t : T3) (β : Bool) : T3 :=
  (C04.cof X n t.1 (lev3 X L R n t) β,
    C04.cof L n t.2.1 (lev3 X L R n t) ((β != C04.isF fo (lev3 X L R n t)) != C04.isF fl (lev3 X L R n t)),
    C04.cof R n t.2.2 (lev3 X L R n t) ((β != C04.isF fo (lev3 X L R n t)) != C04.isF fr (lev3 X L R n t)))

/-- known correct, or memoised -/
def M3 (S : Std.HashSet T3) (t : T3) : Prop := E3 X L R n c fl fr fo t ∨ S.contains t = true

def Loc3 (S : Std.HashSet T3) (s : T3) : Prop :=
  ∃ y1 y2, M3 X L R n c fl fr fo S y1 ∧ M3 X L R n c fl fr fo S y2 ∧ mu3 X L R n y1 < mu3 X L R n s ∧
    mu3 X L R n y2 < mu3 X L R n s ∧ (E3 X L R n c fl fr fo y1 → E3 X L R n c fl fr fo y2 → E3 X L R n c fl fr fo s)

/-- what an accepting call guarantees -/
def Post3 (S : Std.HashSet T3) (t : T3) (S' : Std.HashSet T3) : Prop :=
  (∀ s, S.contains s = true → S'.contains s = true) ∧ M3 X L R n c fl fr fo S' t ∧
    ∀ s, S'.contains s = true → S.contains s = false → Loc3 X L R n c fl fr fo S' s
end

theorem M3.mono {X L R : Arr} {n : Nat} {c : Bool → Bool → Bool} {fl fr fo : Option Nat}
    {S S' : Std.HashSet T3} (h : ∀ s, S.contains s = true → S'.contains s = true) {t : T3}
    (ht : M3 X L R n c fl fr fo S t) : M3 X L R n c fl fr fo S' t := by
  rcases ht with ht | ht
  · exact Or.inl ht
  · exact Or.inr (h t ht)

theorem Loc3.mono {X L R : Arr} {n : Nat} {c : Bool → Bool → Bool} {fl fr fo : Option Nat}
    {S S' : Std.HashSet T3} (h : ∀ s, S.contains s = true → S'.contains s = true) {t : T3}
    (ht : Loc3 X L R n c fl fr fo S t) : Loc3 X L R n c fl fr fo S' t := by
  obtain ⟨y1, y2, h1, h2, rest⟩ := ht
  exact ⟨y1, y2, M3.mono h h1, M3.mono h h2, rest⟩

theorem kid3_spec {X L R : Arr} {n : Nat} (c : Bool → Bool → Bool) (fl fr fo : Option Nat)
    (hX : WFo X n) (hL : WFo L n) (hR : WFo R n) {t : T3} (ht : InB3 X L R t) (hd : lev3 X L R n t < n) :
    (∀ β, InB3 X L R (kid3 X L R n fl fr fo t β) ∧ mu3 X L R n (kid3 X L R n fl fr fo t β) < mu3 X L R n t) ∧
      (E3 X L R n c fl fr fo (kid3 X L R n fl fr fo t true) → E3 X L R n c fl fr fo (kid3 X L R n fl fr fo t false) →
        E3 X L R n c fl fr fo t) := by
  obtain ⟨x, l, r⟩ := t
  obtain ⟨hx, hl, hr⟩ := ht
  simp only at hx hl hr
  generalize hdd : lev3 X L R n (x, l, r) = d at hd
  have hle : d ≤ varOf X n x ∧ d ≤ varOf L n l ∧ d ≤ varOf R n r := by
    simp only [lev3] at hdd; omega
  have sx := cof_spec hX hx d hd hle.1
  have sl := cof_spec hL hl d hd hle.2.1
  have sr := cof_spec hR hr d hd hle.2.2
  have hkid : ∀ β, kid3 X L R n fl fr fo (x, l, r) β = (C04.cof X n x d β,
      C04.cof L n l d ((β != C04.isF fo d) != C04.isF fl d), C04.cof R n r d ((β != C04.isF fo d) != C04.isF fr d)) := by
    intro β; simp only [kid3, hdd]
  refine ⟨?_, ?_⟩
  · intro β
    rw [hkid]
    refine ⟨⟨(sx _).1, (sl _).1, (sr _).1⟩, ?_⟩
    have := (sx β).2.1
    have := (sl ((β != C04.isF fo d) != C04.isF fl d)).2.1
    have := (sr ((β != C04.isF fo d) != C04.isF fr d)).2.1
    simp only [mu3, lev3] at hdd ⊢
    omega
  · rw [hkid, hkid]
    intro hT hF v
    have e1 := (sx (v d)).2.2 v rfl
    have e2 := (sl ((v d != C04.isF fo d) != C04.isF fl d)).2.2 (inv fl (inv fo v)) (by rw [inv_at, inv_at])
    have e3 := (sr ((v d != C04.isF fo d) != C04.isF fr d)).2.2 (inv fr (inv fo v)) (by rw [inv_at, inv_at])
    simp only
    rw [e1, e2, e3]
    cases hvd : v d
    · exact hvd ▸ hF v
    · exact hvd ▸ hT v

theorem term3_E {X L R : Arr} (n : Nat) (c : Bool → Bool → Bool) (fl fr fo : Option Nat) {t : T3}
    (h1 : t.1 < 2) (h2 : t.2.1 < 2) (h3 : t.2.2 < 2) (he : ((t.1 == 1) == c (t.2.1 == 1) (t.2.2 == 1)) = true) :
    E3 X L R n c fl fr fo t := by
  obtain ⟨x, l, r⟩ := t
  simp only at h1 h2 h3 he
  intro v
  simp only
  rw [evW_term X n v h1, evW_term L n _ h2, evW_term R n _ h3]
  have he' : (x == 1) = c (l == 1) (r == 1) := by simpa using he
  have a1 : decide (x = 1) = (x == 1) := rfl
  have a2 : decide (l = 1) = (l == 1) := rfl
  have a3 : decide (r = 1) = (r == 1) := rfl
  rw [a1, a2, a3, he']

/-- every accepting call establishes `Post3` -/
theorem walk2_post {X L R : Arr} {n : Nat} (c : Bool → Bool → Bool) (fl fr fo : Option Nat)
    (hX : WFo X n) (hL : WFo L n) (hR : WFo R n) :
    ∀ (fuel x l r : Nat) (S : Std.HashSet T3), InB3 X L R (x, l, r) →
      (C04.walk2 X L R n c fl fr fo fuel x l r S).1 = true →
      Post3 X L R n c fl fr fo S (x, l, r) (C04.walk2 X L R n c fl fr fo fuel x l r S).2 := by
  intro fuel
  induction fuel with
  | zero => intro x l r S _ h; simp [C04.walk2] at h
  | succ fuel ih =>
    intro x l r S ht h
    rw [C04.walk2] at h ⊢
    by_cases hterm : (decide (x < 2) && decide (l < 2) && decide (r < 2)) = true
    · rw [if_pos hterm] at h ⊢
      simp only [Bool.and_eq_true, decide_eq_true_eq] at hterm
      exact ⟨fun _ h => h, Or.inl (term3_E n c fl fr fo hterm.1.1 hterm.1.2 hterm.2 h),
        fun s h1 h2 => by simp [h1] at h2⟩
    · rw [if_neg hterm] at h ⊢
      by_cases hseen : S.contains (x, l, r) = true
      · rw [if_pos hseen] at h ⊢
        exact ⟨fun _ h => h, Or.inr hseen, fun s h1 h2 => by simp [h1] at h2⟩
      · rw [if_neg hseen] at h ⊢
        have hdeq : min (varOf X n x) (min (varOf L n l) (varOf R n r)) = lev3 X L R n (x, l, r) := rfl
        simp only [hdeq] at h ⊢
        by_cases hdn : lev3 X L R n (x, l, r) ≥ n
        · rw [if_pos hdn] at h; simp at h
        · rw [if_neg hdn] at h ⊢
          obtain ⟨kin, kE⟩ := kid3_spec c fl fr fo hX hL hR ht (by omega)
          have ihT := ih _ _ _ (S.insert (x, l, r)) (kin true).1
          have ihF := fun S1 => ih _ _ _ S1 (kin false).1
          generalize hr1 : C04.walk2 X L R n c fl fr fo fuel _ _ _ (S.insert (x, l, r)) = r1 at h ihT ⊢
          by_cases hr1t : r1.1 = true
          · simp only [hr1t, Bool.not_true, Bool.false_eq_true, if_false] at h ⊢
            obtain ⟨p1, p2, p3⟩ := ihT hr1t
            obtain ⟨q1, q2, q3⟩ := ihF r1.2 h
            generalize C04.walk2 X L R n c fl fr fo fuel _ _ _ r1.2 = r2 at h q1 q2 q3 ⊢
            have hins : ∀ s, S.contains s = true → (S.insert (x, l, r)).contains s = true := by
              intro s hs; simp [Std.HashSet.contains_insert, hs]
            have hself : (S.insert (x, l, r)).contains (x, l, r) = true := by
              simp [Std.HashSet.contains_insert]
            refine ⟨fun s hs => q1 s (p1 s (hins s hs)), Or.inr (q1 _ (p1 _ hself)), ?_⟩
            intro s hs2 hsS
            by_cases hs1 : r1.2.contains s = true
            · by_cases hs0 : (S.insert (x, l, r)).contains s = true
              · -- `s` is the triple just inserted
                rw [Std.HashSet.contains_insert, hsS, Bool.or_false] at hs0
                have : s = (x, l, r) := (beq_iff_eq.1 hs0).symm
                subst this
                exact ⟨_, _, M3.mono q1 p2, q2, (kin true).2, (kin false).2, kE⟩
              · exact Loc3.mono q1 (p3 s hs1 (by simpa using hs0))
            · exact q3 s hs2 (by simpa using hs1)
          · have : r1.1 = false := by simpa using hr1t
            simp only [this, Bool.not_false, if_true] at h
            simp at h

/-- **Soundness of `Drive.C04.walk2`** from the roots with an empty memo table. -/
theorem walk2_sound {X L R : Arr} {n : Nat} (c : Bool → Bool → Bool) (fl fr fo : Option Nat)
    (hX : WFo X n) (hL : WFo L n) (hR : WFo R n) (fuel : Nat)
    (h : (C04.walk2 X L R n c fl fr fo fuel (root X) (root L) (root R) {}).1 = true) :
    ∀ v, evalArr X v = c (evalArr L (inv fl (inv fo v))) (evalArr R (inv fr (inv fo v))) := by
  have hroot : InB3 X L R (root X, root L, root R) := ⟨root_lt hX, root_lt hL, root_lt hR⟩
  obtain ⟨_, p2, p3⟩ := walk2_post c fl fr fo hX hL hR fuel _ _ _ {} hroot h
  generalize (C04.walk2 X L R n c fl fr fo fuel (root X) (root L) (root R) {}).2 = S' at p2 p3
  have hE := closed_sound_gen (E3 X L R n c fl fr fo) (mu3 X L R n) (M3 X L R n c fl fr fo S')
    (by
      intro z hz
      rcases hz with hz | hz
      · exact Or.inl hz
      · exact Or.inr (p3 z hz (by simp))) _ p2
  intro v
  have e1 : evalArr X v = evW X n v (root X) := by unfold evalArr evW; rw [numVars_of_wf hX]
  have e2 : ∀ w, evalArr L w = evW L n w (root L) := by intro w; unfold evalArr evW; rw [numVars_of_wf hL]
  have e3 : ∀ w, evalArr R w = evW R n w (root R) := by intro w; unfold evalArr evW; rw [numVars_of_wf hR]
  rw [e1, e2, e3]; exact hE v

/-- in the driver's own terms: the clause `checkBin` evaluates on wide operands -/
theorem walk2_sound_driver {X L R : Arr} {n : Nat} (c : Bool → Bool → Bool) (fl fr fo : Option Nat)
    (hX : wfoB X n = true) (hL : wfoB L n = true) (hR : wfoB R n = true)
    (h : (C04.walk2 X L R n c fl fr fo (n + 2) (root X) (root L) (root R) {}).1 = true) :
    ∀ v, evalArr X v = c (evalArr L (C04.invV fl (C04.invV fo v))) (evalArr R (C04.invV fr (C04.invV fo v))) := by
  intro v
  simp only [invV_eq_inv]
  exact walk2_sound c fl fr fo (wfoB_sound hX) (wfoB_sound hL) (wfoB_sound hR) (n + 2) h v

/-! ### the ternary walk `walk3` -/

section
variable (X A B C : Arr) (n : Nat) (c : Bool → Bool → Bool → Bool) (fa fb fc fo : Option Nat)

def E4 (t : T) : Prop :=
  ∀ v, evW X n v t.1 = c (evW A n (inv fa (inv fo v)) t.2.1) (evW B n (inv fb (inv fo v)) t.2.2.1)
    (evW C n (inv fc (inv fo v)) t.2.2.2)

def lev4 (t : T) : Nat :=
  min (min (varOf X n t.1) (varOf A n t.2.1)) (min (varOf B n t.2.2.1) (varOf C n t.2.2.2))

def mu4 (t : T) : Nat := n - lev4 X A B C n t

def InB4 (t : T) : Prop := t.1 < X.size ∧ t.2.1 < A.size ∧ t.2.2.1 < B.size ∧ t.2.2.2 < C.size

def kid4 (t : T) (β : Bool) : T :=
  (C04.cof X n t.1 (lev4 X A B C n t) β,
    C04.cof A n t.2.1 (lev4 X A B C n t) ((β != C04.isF fo (lev4 X A B C n t)) != C04.isF fa (lev4 X A B C n t)),
    C04.cof B n t.2.2.1 (lev4 X A B C n t) ((β != C04.isF fo (lev4 X A B C n t)) != C04.isF fb (lev4 X A B C n t)),
    C04.cof C n t.2.2.2 (lev4 X A B C n t) ((β != C04.isF fo (lev4 X A B C n t)) != C04.isF fc (lev4 X A B C n t)))

def M4 (S : Std.HashSet T) (t : T) : Prop := E4 X A B C n c fa fb fc fo t ∨ S.contains t = true

def Loc4 (S : Std.HashSet T) (s : T) : Prop :=
  ∃ y1 y2, M4 X A B C n c fa fb fc fo S y1 ∧ M4 X A B C n c fa fb fc fo S y2 ∧
    mu4 X A B C n y1 < mu4 X A B C n s ∧ mu4 X A B C n y2 < mu4 X A B C n s ∧
    (E4 X A B C n c fa fb fc fo y1 → E4 X A B C n c fa fb fc fo y2 → E4 X A B C n c fa fb fc fo s)

def Post4 (S : Std.HashSet T) (t : T) (S' : Std.HashSet T) : Prop :=
  (∀ s, S.contains s = true → S'.contains s = true) ∧ M4 X A B C n c fa fb fc fo S' t ∧
    ∀ s, S'.contains s = true → S.contains s = false → Loc4 X A B C n c fa fb fc fo S' s
end

theorem M4.mono {X A B C : Arr} {n : Nat} {c : Bool → Bool → Bool → Bool} {fa fb fc fo : Option Nat}
    {S S' : Std.HashSet T} (h : ∀ s, S.contains s = true → S'.contains s = true) {t : T}
    (ht : M4 X A B C n c fa fb fc fo S t) : M4 X A B C n c fa fb fc fo S' t := by
  rcases ht with ht | ht
  · exact Or.inl ht
  · exact Or.inr (h t ht)

theorem Loc4.mono {X A B C : Arr} {n : Nat} {c : Bool → Bool → Bool → Bool} {fa fb fc fo : Option Nat}
    {S S' : Std.HashSet T} (h : ∀ s, S.contains s = true → S'.contains s = true) {t : T}
    (ht : Loc4 X A B C n c fa fb fc fo S t) : Loc4 X A B C n c fa fb fc fo S' t := by
  obtain ⟨y1, y2, h1, h2, rest⟩ := ht
  exact ⟨y1, y2, M4.mono h h1, M4.mono h h2, rest⟩

theorem kid4_spec {X A B C : Arr} {n : Nat} (c : Bool → Bool → Bool → Bool) (fa fb fc fo : Option Nat)
    (hX : WFo X n) (hA : WFo A n) (hB : WFo B n) (hC : WFo C n) {t : T} (ht : InB4 X A B C t)
    (hd : lev4 X A B C n t < n) :
    (∀ β, InB4 X A B C (kid4 X A B C n fa fb fc fo t β) ∧
        mu4 X A B C n (kid4 X A B C n fa fb fc fo t β) < mu4 X A B C n t) ∧
      (E4 X A B C n c fa fb fc fo (kid4 X A B C n fa fb fc fo t true) →
        E4 X A B C n c fa fb fc fo (kid4 X A B C n fa fb fc fo t false) → E4 X A B C n c fa fb fc fo t) := by
  obtain ⟨x, p, q, r⟩ := t
  obtain ⟨hx, hp, hq, hr⟩ := ht
  simp only at hx hp hq hr
  generalize hdd : lev4 X A B C n (x, p, q, r) = d at hd
  have hle : d ≤ varOf X n x ∧ d ≤ varOf A n p ∧ d ≤ varOf B n q ∧ d ≤ varOf C n r := by
    simp only [lev4] at hdd; omega
  have sx := cof_spec hX hx d hd hle.1
  have sa := cof_spec hA hp d hd hle.2.1
  have sb := cof_spec hB hq d hd hle.2.2.1
  have sc := cof_spec hC hr d hd hle.2.2.2
  have hkid : ∀ β, kid4 X A B C n fa fb fc fo (x, p, q, r) β = (C04.cof X n x d β,
      C04.cof A n p d ((β != C04.isF fo d) != C04.isF fa d), C04.cof B n q d ((β != C04.isF fo d) != C04.isF fb d),
      C04.cof C n r d ((β != C04.isF fo d) != C04.isF fc d)) := by
    intro β; simp only [kid4, hdd]
  refine ⟨?_, ?_⟩
  · intro β
    rw [hkid]
    refine ⟨⟨(sx _).1, (sa _).1, (sb _).1, (sc _).1⟩, ?_⟩
    have := (sx β).2.1
    have := (sa ((β != C04.isF fo d) != C04.isF fa d)).2.1
    have := (sb ((β != C04.isF fo d) != C04.isF fb d)).2.1
    have := (sc ((β != C04.isF fo d) != C04.isF fc d)).2.1
    simp only [mu4, lev4] at hdd ⊢
    omega
  · rw [hkid, hkid]
    intro hT hF v
    have e1 := (sx (v d)).2.2 v rfl
    have e2 := (sa ((v d != C04.isF fo d) != C04.isF fa d)).2.2 (inv fa (inv fo v)) (by rw [inv_at, inv_at])
    have e3 := (sb ((v d != C04.isF fo d) != C04.isF fb d)).2.2 (inv fb (inv fo v)) (by rw [inv_at, inv_at])
    have e4 := (sc ((v d != C04.isF fo d) != C04.isF fc d)).2.2 (inv fc (inv fo v)) (by rw [inv_at, inv_at])
    simp only
    rw [e1, e2, e3, e4]
    cases hvd : v d
    · exact hvd ▸ hF v
    · exact hvd ▸ hT v

theorem term4_E {X A B C : Arr} (n : Nat) (c : Bool → Bool → Bool → Bool) (fa fb fc fo : Option Nat) {t : T}
    (h1 : t.1 < 2) (h2 : t.2.1 < 2) (h3 : t.2.2.1 < 2) (h4 : t.2.2.2 < 2)
    (he : ((t.1 == 1) == c (t.2.1 == 1) (t.2.2.1 == 1) (t.2.2.2 == 1)) = true) :
    E4 X A B C n c fa fb fc fo t := by
  obtain ⟨x, p, q, r⟩ := t
  simp only at h1 h2 h3 h4 he
  intro v
  simp only
  rw [evW_term X n v h1, evW_term A n _ h2, evW_term B n _ h3, evW_term C n _ h4]
  have he' : (x == 1) = c (p == 1) (q == 1) (r == 1) := by simpa using he
  have a1 : decide (x = 1) = (x == 1) := rfl
  have a2 : decide (p = 1) = (p == 1) := rfl
  have a3 : decide (q = 1) = (q == 1) := rfl
  have a4 : decide (r = 1) = (r == 1) := rfl
  rw [a1, a2, a3, a4, he']

theorem walk3_post {X A B C : Arr} {n : Nat} (c : Bool → Bool → Bool → Bool) (fa fb fc fo : Option Nat)
    (hX : WFo X n) (hA : WFo A n) (hB : WFo B n) (hC : WFo C n) :
    ∀ (fuel x p q r : Nat) (S : Std.HashSet T), InB4 X A B C (x, p, q, r) →
      (C04.walk3 X A B C n c fa fb fc fo fuel x p q r S).1 = true →
      Post4 X A B C n c fa fb fc fo S (x, p, q, r) (C04.walk3 X A B C n c fa fb fc fo fuel x p q r S).2 := by
  intro fuel
  induction fuel with
  | zero => intro x p q r S _ h; simp [C04.walk3] at h
  | succ fuel ih =>
    intro x p q r S ht h
    rw [C04.walk3] at h ⊢
    by_cases hterm : (decide (x < 2) && decide (p < 2) && decide (q < 2) && decide (r < 2)) = true
    · rw [if_pos hterm] at h ⊢
      simp only [Bool.and_eq_true, decide_eq_true_eq] at hterm
      exact ⟨fun _ h => h, Or.inl (term4_E n c fa fb fc fo hterm.1.1.1 hterm.1.1.2 hterm.1.2 hterm.2 h),
        fun s h1 h2 => by simp [h1] at h2⟩
    · rw [if_neg hterm] at h ⊢
      by_cases hseen : S.contains (x, p, q, r) = true
      · rw [if_pos hseen] at h ⊢
        exact ⟨fun _ h => h, Or.inr hseen, fun s h1 h2 => by simp [h1] at h2⟩
      · rw [if_neg hseen] at h ⊢
        have hdeq : min (min (varOf X n x) (varOf A n p)) (min (varOf B n q) (varOf C n r)) =
            lev4 X A B C n (x, p, q, r) := rfl
        simp only [hdeq] at h ⊢
        by_cases hdn : lev4 X A B C n (x, p, q, r) ≥ n
        · rw [if_pos hdn] at h; simp at h
        · rw [if_neg hdn] at h ⊢
          obtain ⟨kin, kE⟩ := kid4_spec c fa fb fc fo hX hA hB hC ht (by omega)
          have ihT := ih _ _ _ _ (S.insert (x, p, q, r)) (kin true).1
          have ihF := fun S1 => ih _ _ _ _ S1 (kin false).1
          generalize hr1 : C04.walk3 X A B C n c fa fb fc fo fuel _ _ _ _ (S.insert (x, p, q, r)) = r1 at h ihT ⊢
          by_cases hr1t : r1.1 = true
          · simp only [hr1t, Bool.not_true, Bool.false_eq_true, if_false] at h ⊢
            obtain ⟨p1, p2, p3⟩ := ihT hr1t
            obtain ⟨q1, q2, q3⟩ := ihF r1.2 h
            generalize C04.walk3 X A B C n c fa fb fc fo fuel _ _ _ _ r1.2 = r2 at h q1 q2 q3 ⊢
            have hins : ∀ s, S.contains s = true → (S.insert (x, p, q, r)).contains s = true := by
              intro s hs; simp [Std.HashSet.contains_insert, hs]
            have hself : (S.insert (x, p, q, r)).contains (x, p, q, r) = true := by
              simp [Std.HashSet.contains_insert]
            refine ⟨fun s hs => q1 s (p1 s (hins s hs)), Or.inr (q1 _ (p1 _ hself)), ?_⟩
            intro s hs2 hsS
            by_cases hs1 : r1.2.contains s = true
            · by_cases hs0 : (S.insert (x, p, q, r)).contains s = true
              · rw [Std.HashSet.contains_insert, hsS, Bool.or_false] at hs0
                have : s = (x, p, q, r) := (beq_iff_eq.1 hs0).symm
                subst this
                exact ⟨_, _, M4.mono q1 p2, q2, (kin true).2, (kin false).2, kE⟩
              · exact Loc4.mono q1 (p3 s hs1 (by simpa using hs0))
            · exact q3 s hs2 (by simpa using hs1)
          · have : r1.1 = false := by simpa using hr1t
            simp only [this, Bool.not_false, if_true] at h
            simp at h

/-- **Soundness of `Drive.C04.walk3`** from the roots with an empty memo table. -/
theorem walk3_sound {X A B C : Arr} {n : Nat} (c : Bool → Bool → Bool → Bool) (fa fb fc fo : Option Nat)
    (hX : WFo X n) (hA : WFo A n) (hB : WFo B n) (hC : WFo C n) (fuel : Nat)
    (h : (C04.walk3 X A B C n c fa fb fc fo fuel (root X) (root A) (root B) (root C) {}).1 = true) :
    ∀ v, evalArr X v = c (evalArr A (inv fa (inv fo v))) (evalArr B (inv fb (inv fo v)))
      (evalArr C (inv fc (inv fo v))) := by
  have hroot : InB4 X A B C (root X, root A, root B, root C) := ⟨root_lt hX, root_lt hA, root_lt hB, root_lt hC⟩
  obtain ⟨_, p2, p3⟩ := walk3_post c fa fb fc fo hX hA hB hC fuel _ _ _ _ {} hroot h
  generalize (C04.walk3 X A B C n c fa fb fc fo fuel (root X) (root A) (root B) (root C) {}).2 = S' at p2 p3
  have hE := closed_sound_gen (E4 X A B C n c fa fb fc fo) (mu4 X A B C n) (M4 X A B C n c fa fb fc fo S')
    (by
      intro z hz
      rcases hz with hz | hz
      · exact Or.inl hz
      · exact Or.inr (p3 z hz (by simp))) _ p2
  intro v
  have e1 : evalArr X v = evW X n v (root X) := by unfold evalArr evW; rw [numVars_of_wf hX]
  have e2 : ∀ w, evalArr A w = evW A n w (root A) := by intro w; unfold evalArr evW; rw [numVars_of_wf hA]
  have e3 : ∀ w, evalArr B w = evW B n w (root B) := by intro w; unfold evalArr evW; rw [numVars_of_wf hB]
  have e4 : ∀ w, evalArr C w = evW C n w (root C) := by intro w; unfold evalArr evW; rw [numVars_of_wf hC]
  rw [e1, e2, e3, e4]; exact hE v

/-- in the driver's own terms: the clause `checkTer` evaluates on wide operands -/
theorem walk3_sound_driver {X A B C : Arr} {n : Nat} (c : Bool → Bool → Bool → Bool) (fa fb fc fo : Option Nat)
    (hX : wfoB X n = true) (hA : wfoB A n = true) (hB : wfoB B n = true) (hC : wfoB C n = true)
    (h : (C04.walk3 X A B C n c fa fb fc fo (n + 2) (root X) (root A) (root B) (root C) {}).1 = true) :
    ∀ v, evalArr X v = c (evalArr A (C04.invV fa (C04.invV fo v))) (evalArr B (C04.invV fb (C04.invV fo v)))
      (evalArr C (C04.invV fc (C04.invV fo v))) := by
  intro v
  simp only [invV_eq_inv]
  exact walk3_sound c fa fb fc fo (wfoB_sound hX) (wfoB_sound hA) (wfoB_sound hB) (wfoB_sound hC) (n + 2) h v

/-! ### non-vacuity -/

section Examples
/-- `x0 ∧ x1` and `x1` over 2 variables; flipping `x1` in the left operand and `x0` on the output of `∧` gives
    `¬x0 ∧ ¬x1 ∧ x1`… the concrete instance evaluated in ExactWalkAudit.lean is `and` with `fl = some 1` -/
def ex4L : Arr := #[⟨2, 0, 0⟩, ⟨2, 1, 1⟩, ⟨1, 0, 1⟩, ⟨0, 0, 2⟩]
def ex4R : Arr := #[⟨2, 0, 0⟩, ⟨2, 1, 1⟩, ⟨0, 0, 1⟩]
/-- `x0 ∧ ¬x1` = `(ex4L with x1 inverted) ∧ ex4R` -/
def ex4X : Arr := #[⟨2, 0, 0⟩, ⟨2, 1, 1⟩, ⟨1, 1, 0⟩, ⟨0, 0, 2⟩]
example : wfoB ex4L 2 = true ∧ wfoB ex4R 2 = true ∧ wfoB ex4X 2 = true := by decide
example : ∀ i, i < 4 → evalArr ex4X (valOfIndex 2 i) =
    (evalArr ex4L (inv (some 1) (inv none (valOfIndex 2 i))) && evalArr ex4R (inv none (inv none (valOfIndex 2 i)))) := by
  decide
end Examples

end B.ExactWalk
