import BddVerif.Lemmas.NormalFormOpt
import BddVerif.Lemmas.Count
/-!
Lemmas for C10, part 9: where `to_optimized_dnf` REFUSES a valid operand. `support_set()` collects the variables
of all decision nodes, reachable or not. If one of them is a variable the function ignores (a redundant test
`(v, p, p)`, a duplicated sub-diagram under a test, an unreachable node) and the function is satisfiable, then
the universal projection on that variable is the function itself, it has the largest possible cardinality, the
greedy loop picks such a variable as the "common core", and `remaining = bdd.and_not(core)` is `false`:
`assert!(!remaining.is_false())` fires. Uses the C09 theorem `exactCard_wfo` (`exact_cardinality` = number of
satisfying assignments).
-/
namespace B.NF
open B B.Count

/-! ### counting -/

theorem cnt_zero_false {n : Nat} {h : (Nat → Bool) → Bool} (hdep : Dep n h) (h0 : cnt n h = 0) (v : Nat → Bool) :
    h v = false := by
  obtain ⟨u, hu, huv⟩ := allVals_complete n v
  rw [cnt_eq_filter_length] at h0
  have hnil : (allVals n).filter h = [] := List.eq_nil_of_length_eq_zero h0
  have : h u = false := by
    cases hh : h u
    · rfl
    · have : u ∈ (allVals n).filter h := List.mem_filter.2 ⟨hu, hh⟩
      rw [hnil] at this; cases this
  rw [← this]
  exact hdep v u (fun i hi => (huv i hi).symm)

/-- a sub-function with the same count is the same function -/
theorem eq_of_le_of_cnt_eq {n : Nat} {f g : (Nat → Bool) → Bool} (hf : Dep n f) (hg : Dep n g)
    (hle : ∀ v, g v = true → f v = true) (hc : cnt n f ≤ cnt n g) (v : Nat → Bool) : g v = f v := by
  have hsum := cntV_or_and g (fun w => f w && !g w) n 0 (fun _ => false)
  have e1 : cntV (fun w => g w || (f w && !g w)) n 0 (fun _ => false) = cntV f n 0 (fun _ => false) := by
    apply cnt_congr
    intro w
    cases hgw : g w
    · simp
    · simp [hle w hgw]
  have e2 : cntV (fun w => g w && (f w && !g w)) n 0 (fun _ => false) = 0 := by
    have : cntV (fun w => g w && (f w && !g w)) n 0 (fun _ => false) = cntV (fun _ => false) n 0 (fun _ => false) := by
      apply cnt_congr
      intro w; cases g w <;> simp
    rw [this]; exact cntV_false n 0 _
  have hc' : cntV f n 0 (fun _ => false) ≤ cntV g n 0 (fun _ => false) := hc
  have hz : cnt n (fun w => f w && !g w) = 0 := by
    show cntV (fun w => f w && !g w) n 0 (fun _ => false) = 0
    omega
  have hdep : Dep n (fun w => f w && !g w) := by
    intro a b hab
    show (f a && !g a) = (f b && !g b)
    rw [hf a b hab, hg a b hab]
  have := cnt_zero_false hdep hz v
  cases hgv : g v
  · rw [hgv] at this; simpa using this
  · exact (hle v hgv).symm

/-! ### the choice of the common core -/

theorem foldl_best (c : Nat → Nat) : ∀ (l : List Nat) (init : Nat × Nat),
    let r := l.foldl (fun best var => if c var > best.2 then (var, c var) else best) init
    init.2 ≤ r.2 ∧ (∀ y ∈ l, c y ≤ r.2) ∧ (r = init ∨ (r.1 ∈ l ∧ r.2 = c r.1)) := by
  intro l
  induction l with
  | nil => intro init; exact ⟨Nat.le_refl _, (fun y hy => by cases hy), Or.inl rfl⟩
  | cons a t ih =>
    intro init
    simp only [List.foldl_cons]
    by_cases h : c a > init.2
    · simp only [h, if_true]
      obtain ⟨h1, h2, h3⟩ := ih (a, c a)
      refine ⟨by simp only at h1; omega, ?_, ?_⟩
      · intro y hy
        rcases List.mem_cons.1 hy with rfl | hy
        · exact h1
        · exact h2 y hy
      · rcases h3 with e | ⟨e1, e2⟩
        · right; rw [e]; exact ⟨List.mem_cons_self .., rfl⟩
        · right; exact ⟨List.mem_cons_of_mem _ e1, e2⟩
    · simp only [h, if_false]
      obtain ⟨h1, h2, h3⟩ := ih init
      refine ⟨h1, ?_, ?_⟩
      · intro y hy
        rcases List.mem_cons.1 hy with rfl | hy
        · omega
        · exact h2 y hy
      · rcases h3 with e | ⟨e1, e2⟩
        · left; exact e
        · right; exact ⟨List.mem_cons_of_mem _ e1, e2⟩

theorem bestCore_max (card : Arr → Nat) (bdd : Arr) (support : List Nat) (s0 : Nat) :
    (∀ y ∈ support, card (varForAll bdd y) ≤ (bestCore card bdd support s0).2) ∧
    ((bestCore card bdd support s0).2 = 0 ∨
      ((bestCore card bdd support s0).1 ∈ support ∧
       (bestCore card bdd support s0).2 = card (varForAll bdd (bestCore card bdd support s0).1))) := by
  have := foldl_best (fun y => card (varForAll bdd y)) support (s0, 0)
  obtain ⟨_, h2, h3⟩ := this
  refine ⟨h2, ?_⟩
  rcases h3 with e | e
  · left
    show (bestCore card bdd support s0).2 = 0
    unfold bestCore
    exact congrArg Prod.snd e
  · right; exact e

/-! ### the refusal -/

theorem optRec_succ (card : Arr → Nat) (m : Nat) (bdd : Arr) (pc : PVal) (res : List PVal) :
    optRec card (m + 1) bdd pc res =
      if bdd.size = 1 then .ok (pc, res)
      else if bdd.size = 2 then .ok (pc, res ++ [pc])
      else
        match supportSorted bdd with
        | [] => .panic "assertion failed: !support.is_empty()"
        | s0 :: tl =>
          match optAfterCore card (optRec card m) bdd pc res (s0 :: tl) s0 with
          | .ok (pc1, res1, rest) => optBranch (optRec card m) rest pc1 res1 (s0 :: tl) s0
          | .err m => .err m
          | .panic m => .panic m := rfl

def assertRemaining : String := "assertion failed: !remaining.is_false()"

/-- `to_optimized_dnf` panics on every valid operand with at least one decision node, a satisfiable function,
    and a decision node (reachable or not) labelled by a variable the function ignores -/
theorem toOptimizedDnf_spurious_panics {n : Nat} {b : Arr} {f : (Nat → Bool) → Bool} (hs : Opnd n b f)
    (h3 : 3 ≤ b.size) (hsat : ∃ v, f v = true) (hsp : ∃ x ∈ supportSorted b, Ind f x) :
    toOptimizedDnf b = .panic assertRemaining := by
  have h1 : ¬ b.size = 1 := by omega
  have h2 : ¬ b.size = 2 := by omega
  rcases hsup : supportSorted b with _ | ⟨s0, tl⟩
  · exact absurd hsup (supportSorted_ne_nil h3)
  have hlt : ∀ y ∈ s0 :: tl, y < n := by
    intro y hy
    rw [← hsup] at hy
    obtain ⟨p, nd, hp, hnd, hv⟩ := mem_supportSorted hy
    rw [← hv]; exact (hs.wfo.inner p nd hp hnd).1
  -- cardinalities of the universal projections
  have hcard : ∀ y, y < n → exactCard (varForAll b y) = cnt n (fun v => f v && f (inv (some y) v)) := by
    intro y hy
    have hc := opnd_varForAll hs hy
    rw [exactCard_wfo hc.wfo]
    exact cnt_congr n _ _ (fun v => hc.evW v)
  have hle : ∀ y, cnt n (fun v => f v && f (inv (some y) v)) ≤ cnt n f :=
    fun y => cntV_mono _ _ (fun w hw => by cases hfw : f w <;> simp_all) n 0 _
  have hpos : 0 < cnt n f := by
    rcases Nat.eq_zero_or_pos (cnt n f) with h0 | h0
    · obtain ⟨v, hv⟩ := hsat
      rw [cnt_zero_false hs.dep h0 v] at hv; cases hv
    · exact h0
  obtain ⟨x, hxs, hxind⟩ := hsp
  rw [hsup] at hxs
  have hxcard : exactCard (varForAll b x) = cnt n f := by
    rw [hcard x (hlt x hxs)]
    apply cnt_congr
    intro v
    have : f (inv (some x) v) = f v := by
      rcases upd_eq_or v x (!v x) with e | e
      · have := congrFun e x; simp [upd] at this
      · rw [← e, hxind]
    rw [this, Bool.and_self]
  obtain ⟨hmax, hbest⟩ := bestCore_max exactCard b (s0 :: tl) s0
  have hge : cnt n f ≤ (bestCore exactCard b (s0 :: tl) s0).2 := by rw [← hxcard]; exact hmax x hxs
  have hne : (bestCore exactCard b (s0 :: tl) s0).2 ≠ 0 := by omega
  rcases hbest with h0 | ⟨hmemb, hval⟩
  · exact absurd h0 hne
  generalize hz : (bestCore exactCard b (s0 :: tl) s0).1 = z at hmemb hval
  have hzn := hlt z hmemb
  have hcore := opnd_varForAll hs hzn
  -- the chosen core is the function itself
  have hsame : ∀ v, (f v && f (inv (some z) v)) = f v := by
    apply eq_of_le_of_cnt_eq hs.dep hcore.dep (fun v hv => by cases hfv : f v <;> simp_all)
    rw [← hcard z hzn, ← hval]; exact hge
  -- the recursive call on the core succeeds
  obtain ⟨pc1, R1, hrun, _⟩ := optRec_ok exactCard (n + 1) (varForAll b z) [] [] _ (List.range n) hcore
    (by rw [List.length_range]; omega)
    (by
      intro y hy
      have hyn : n ≤ y := by
        rcases Nat.lt_or_ge y n with h | h
        · exact absurd (List.mem_range.2 h) hy
        · exact h
      intro v bb
      apply hcore.dep
      intro i hi
      have : i ≠ y := by omega
      simp [upd, this])
    (by intro y hy; rw [get_nil] at hy; exact absurd rfl hy)
  -- the remaining diagram is `false`
  have hrem : Sem n (bddAndNot b (varForAll b z)) (fun v => f v && !(f v && f (inv (some z) v))) :=
    Opnd.apply hs hcore.opnd Gen.and_not_ _ and_not_consistent none (by simp)
  have hremF : bddAndNot b (varForAll b z) = mkFalse n := by
    rw [(hrem.congr (g := fun _ => false) (fun v => by rw [hsame v]; cases f v <;> rfl)).eq, ← (sem_mkFalse n).eq]
  have hA : optAfterCore exactCard (optRec exactCard (n + 1)) b [] [] (s0 :: tl) s0 = .panic assertRemaining := by
    unfold optAfterCore
    simp only [hne, ne_eq, not_false_eq_true, if_true, hz]
    rw [hrun]
    simp only
    rw [hremF]
    rfl
  unfold toOptimizedDnf toOptimizedDnfWith
  rw [if_neg h1, if_neg h2, hs.numVars]
  have hrec : optRec exactCard (n + 2) b [] [] = .panic assertRemaining := by
    show optRec exactCard (n + 1 + 1) b [] [] = _
    rw [optRec_succ, if_neg h1, if_neg h2, hsup]
    simp only
    rw [hA]
  rw [hrec]

/-! ### a valid operand whose function is unsatisfiable (a non-canonical `false`) -/

theorem sem_false_eq {n : Nat} {A : Arr} {g : (Nat → Bool) → Bool} (h : Sem n A g) (hg : ∀ v, g v = false) :
    A = mkFalse n := by
  rw [(h.congr (g := fun _ => false) hg).eq, ← (sem_mkFalse n).eq]

theorem exactCard_mkFalse (n : Nat) : exactCard (mkFalse n) = 0 := by
  rw [exactCard_wfo (wfo_mkFalse n)]
  have : cnt n (fun v => evW (mkFalse n) n v (root (mkFalse n))) = cnt n (fun _ => false) :=
    cnt_congr n _ _ (fun v => by rw [root_mkFalse, evW_zero])
  rw [this]; exact cntV_false n 0 _

theorem optRec_mkFalse (card : Arr → Nat) (m n : Nat) (pc : PVal) (res : List PVal) :
    optRec card (m + 1) (mkFalse n) pc res = .ok (pc, res) := by
  rw [optRec_succ]; simp [mkFalse]

/-- no universal projection is satisfiable, so there is no common core; both restrictions on the branching
    variable are `false`; nothing is emitted -/
theorem toOptimizedDnf_unsat {n : Nat} {b : Arr} {f : (Nat → Bool) → Bool} (hs : Opnd n b f)
    (hf : ∀ v, f v = false) : toOptimizedDnf b = .ok [] := by
  unfold toOptimizedDnf toOptimizedDnfWith
  by_cases h1 : b.size = 1
  · rw [if_pos h1]
  rw [if_neg h1]
  by_cases h2 : b.size = 2
  · have := hs.size_two h2 (fun _ => false); rw [hf] at this; cases this
  rw [if_neg h2, hs.numVars]
  have h3 : 3 ≤ b.size := by have := hs.wfo.size_pos; omega
  rcases hsup : supportSorted b with _ | ⟨s0, tl⟩
  · exact absurd hsup (supportSorted_ne_nil h3)
  have hlt : ∀ y ∈ s0 :: tl, y < n := by
    intro y hy
    rw [← hsup] at hy
    obtain ⟨p, nd, hp, hnd, hv⟩ := mem_supportSorted hy
    rw [← hv]; exact (hs.wfo.inner p nd hp hnd).1
  have hc0 : ∀ y ∈ s0 :: tl, exactCard (varForAll b y) = 0 := by
    intro y hy
    rw [sem_false_eq (opnd_varForAll hs (hlt y hy)) (fun v => by simp [hf])]
    exact exactCard_mkFalse n
  have hb0 : (bestCore exactCard b (s0 :: tl) s0).2 = 0 := by
    obtain ⟨_, hbest⟩ := bestCore_max exactCard b (s0 :: tl) s0
    rcases hbest with h0 | ⟨hm, hv⟩
    · exact h0
    · rw [hv]; exact hc0 _ hm
  have hA : optAfterCore exactCard (optRec exactCard (n + 1)) b [] [] (s0 :: tl) s0 = .ok ([], [], b) := by
    unfold optAfterCore
    simp [hb0]
  have hr : ∀ x c, varRestrict b x c = mkFalse n :=
    fun x c => sem_false_eq (opnd_varRestrict hs x c) (fun v => hf _)
  have hB : ∀ pc res, optBranch (optRec exactCard (n + 1)) b pc res (s0 :: tl) s0 =
      .ok (pvUnset ((pc.set (bestBranch b (s0 :: tl) s0).1 true).set (bestBranch b (s0 :: tl) s0).1 false)
        (bestBranch b (s0 :: tl) s0).1, res) := by
    intro pc res
    unfold optBranch
    simp only [hr, optRec_mkFalse]
  have hrec : ∃ pc', optRec exactCard (n + 2) b [] [] = .ok (pc', []) := by
    refine ⟨pvUnset ((PVal.set [] (bestBranch b (s0 :: tl) s0).1 true).set (bestBranch b (s0 :: tl) s0).1 false)
      (bestBranch b (s0 :: tl) s0).1, ?_⟩
    show optRec exactCard (n + 1 + 1) b [] [] = _
    rw [optRec_succ, if_neg h1, if_neg h2, hsup]
    simp only
    rw [hA]
    simp only
    rw [hB]
  obtain ⟨pc', hrec⟩ := hrec
  rw [hrec]


end B.NF
