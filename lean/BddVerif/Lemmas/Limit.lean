import BddVerif.Model.Limit
import BddVerif.Core.Sim5
/-!
Helper lemmas for C05, part 1: the size-limited recursion is the unrestricted recursion cut off at the first
push that makes the array larger than the limit (`guardLim`), for arbitrary operands, tables and flips; the
`is_not_empty` flag can only be `false` while nothing has been pushed.
-/
namespace B.Lim
open Std

/-- `none` iff something was pushed on the way from `s` to `out` and the array is now larger than `lim` -/
def guardLim (lim : Nat) (s : St) (out : St × Nat) : Option (St × Nat) :=
  if s.res.size < out.1.res.size ∧ lim < out.1.res.size then none else some out

def MonoRec (rec : Nat → Nat → St → St × Nat) : Prop := ∀ a b s, s.res.size ≤ (rec a b s).1.res.size

def RelLim (lim : Nat) (recLim : Nat → Nat → St → Option (St × Nat)) (rec : Nat → Nat → St → St × Nat) : Prop :=
  ∀ a b s, recLim a b s = guardLim lim s (rec a b s)

/-- the node created by `finish` -/
def nodeOf (f : Bool) (d lo hi : Nat) : Node := if f then ⟨d, hi, lo⟩ else ⟨d, lo, hi⟩

theorem finish_unfold (s : St) (l r d lo hi : Nat) (f : Bool) :
    finish s l r d lo hi f =
      if lo = hi then ({ flagSt s lo hi with finished := (flagSt s lo hi).finished.insert (l, r) lo }, lo)
      else
        ({ (findOrPush (flagSt s lo hi) (nodeOf f d lo hi)).1 with
            finished := (findOrPush (flagSt s lo hi) (nodeOf f d lo hi)).1.finished.insert (l, r)
              (findOrPush (flagSt s lo hi) (nodeOf f d lo hi)).2 },
         (findOrPush (flagSt s lo hi) (nodeOf f d lo hi)).2) := rfl

theorem finishLim_unfold (lim : Nat) (s : St) (l r d lo hi : Nat) (f : Bool) :
    finishLim lim s l r d lo hi f =
      if lo = hi then some ({ flagSt s lo hi with finished := (flagSt s lo hi).finished.insert (l, r) lo }, lo)
      else
        match (flagSt s lo hi).existing[nodeOf f d lo hi]? with
        | some i => some ({ flagSt s lo hi with finished := (flagSt s lo hi).finished.insert (l, r) i }, i)
        | none =>
          if ((flagSt s lo hi).res.push (nodeOf f d lo hi)).size > lim then none
          else
            some ({ flagSt s lo hi with
                      res := (flagSt s lo hi).res.push (nodeOf f d lo hi),
                      existing := (flagSt s lo hi).existing.insert (nodeOf f d lo hi) (flagSt s lo hi).res.size,
                      finished := (flagSt s lo hi).finished.insert (l, r) (flagSt s lo hi).res.size },
                  (flagSt s lo hi).res.size) := rfl

theorem findOrPush_cases (s : St) (nd : Node) :
    (∃ i, s.existing[nd]? = some i ∧ findOrPush s nd = (s, i)) ∨
    (s.existing[nd]? = none ∧
      findOrPush s nd = ({ s with res := s.res.push nd, existing := s.existing.insert nd s.res.size }, s.res.size)) := by
  unfold findOrPush
  cases h : s.existing[nd]? with
  | some i => left; exact ⟨i, rfl, rfl⟩
  | none => right; exact ⟨rfl, rfl⟩

theorem finish_size (s : St) (l r d lo hi : Nat) (f : Bool) :
    (finish s l r d lo hi f).1.res.size = s.res.size ∨ (finish s l r d lo hi f).1.res.size = s.res.size + 1 := by
  rw [finish_unfold]
  by_cases h : lo = hi
  · rw [if_pos h]; left; simp only [flagSt_res]
  · rw [if_neg h]
    rcases findOrPush_cases (flagSt s lo hi) (nodeOf f d lo hi) with ⟨i, _, e⟩ | ⟨_, e⟩
    · rw [e]; left; simp only [flagSt_res]
    · rw [e]; right; simp only [flagSt_res, Array.size_push]

theorem solve_mono (op : Op2) (rec) (h : MonoRec rec) (a b : Nat) (s : St) :
    s.res.size ≤ (solve op rec a b s).1.res.size := by
  unfold solve
  split
  · exact Nat.le_refl _
  · exact h a b s

theorem applyStep_mono (Γ : Ctx) (rec) (h : MonoRec rec) : MonoRec (applyStep Γ rec) := by
  intro l r s
  unfold applyStep
  split
  · exact Nat.le_refl _
  · simp only
    split
    · have h1 := solve_mono Γ.op rec h (kids Γ.L l (min (nodeAt Γ.L l).var (nodeAt Γ.R r).var) Γ.fl).1
        (kids Γ.R r (min (nodeAt Γ.L l).var (nodeAt Γ.R r).var) Γ.fr).1 s
      generalize solve Γ.op rec _ _ s = o1 at h1 ⊢
      have h2 := solve_mono Γ.op rec h (kids Γ.L l (min (nodeAt Γ.L l).var (nodeAt Γ.R r).var) Γ.fl).2
        (kids Γ.R r (min (nodeAt Γ.L l).var (nodeAt Γ.R r).var) Γ.fr).2 o1.1
      generalize solve Γ.op rec _ _ o1.1 = o2 at h2 ⊢
      have h3 := finish_size o2.1 l r (min (nodeAt Γ.L l).var (nodeAt Γ.R r).var) o1.2 o2.2 true
      omega
    · have h1 := solve_mono Γ.op rec h (kids Γ.L l (min (nodeAt Γ.L l).var (nodeAt Γ.R r).var) Γ.fl).2
        (kids Γ.R r (min (nodeAt Γ.L l).var (nodeAt Γ.R r).var) Γ.fr).2 s
      generalize solve Γ.op rec _ _ s = o1 at h1 ⊢
      have h2 := solve_mono Γ.op rec h (kids Γ.L l (min (nodeAt Γ.L l).var (nodeAt Γ.R r).var) Γ.fl).1
        (kids Γ.R r (min (nodeAt Γ.L l).var (nodeAt Γ.R r).var) Γ.fr).1 o1.1
      generalize solve Γ.op rec _ _ o1.1 = o2 at h2 ⊢
      have h3 := finish_size o2.1 l r (min (nodeAt Γ.L l).var (nodeAt Γ.R r).var) o2.2 o1.2 false
      omega

theorem applyRec_mono (Γ : Ctx) : ∀ fuel, MonoRec (applyRec Γ fuel) := by
  intro fuel
  induction fuel with
  | zero => intro a b s; exact Nat.le_refl _
  | succ fuel ih => exact applyStep_mono Γ _ ih

theorem guardLim_same (lim : Nat) (s : St) (out : St × Nat) (h : out.1.res.size = s.res.size) :
    guardLim lim s out = some out := by
  unfold guardLim
  have : ¬ (s.res.size < out.1.res.size ∧ lim < out.1.res.size) := by omega
  rw [if_neg this]

theorem solveLim_guard (lim : Nat) (op : Op2) (recLim rec) (h : RelLim lim recLim rec) (a b : Nat) (s : St) :
    solveLim op recLim a b s = guardLim lim s (solve op rec a b s) := by
  unfold solveLim solve
  cases op (asBool a) (asBool b) with
  | some c => exact (guardLim_same lim s _ rfl).symm
  | none => exact h a b s

theorem finishLim_guard (lim : Nat) (s : St) (l r d lo hi : Nat) (f : Bool) :
    finishLim lim s l r d lo hi f = guardLim lim s (finish s l r d lo hi f) := by
  rw [finish_unfold, finishLim_unfold]
  by_cases h : lo = hi
  · rw [if_pos h, if_pos h]
    exact (guardLim_same lim s _ (by simp only [flagSt_res])).symm
  · rw [if_neg h, if_neg h]
    rcases findOrPush_cases (flagSt s lo hi) (nodeOf f d lo hi) with ⟨i, e1, e⟩ | ⟨e1, e⟩
    · rw [e, e1]
      exact (guardLim_same lim s _ (by simp only [flagSt_res])).symm
    · rw [e, e1]
      simp only [Array.size_push]
      unfold guardLim
      simp only [Array.size_push, flagSt_res]
      by_cases hl : s.res.size + 1 > lim
      · have : s.res.size < s.res.size + 1 ∧ lim < s.res.size + 1 := by omega
        rw [if_pos hl, if_pos this]
      · have : ¬ (s.res.size < s.res.size + 1 ∧ lim < s.res.size + 1) := by omega
        rw [if_neg hl, if_neg this]

/-- pure arithmetic of the three guarded stages of one step -/
theorem guard_chain (lim : Nat) (s : St) (o1 : St × Nat) (f2 : St → St × Nat) (f3 : St × Nat → St × Nat → St × Nat)
    (h1 : s.res.size ≤ o1.1.res.size) (h2 : ∀ t, t.res.size ≤ (f2 t).1.res.size)
    (h3 : ∀ a b : St × Nat, b.1.res.size ≤ (f3 a b).1.res.size) :
    (match guardLim lim s o1 with
     | none => none
     | some r1 =>
       match guardLim lim r1.1 (f2 r1.1) with
       | none => none
       | some r2 => guardLim lim r2.1 (f3 r1 r2)) = guardLim lim s (f3 o1 (f2 o1.1)) := by
  have a2 := h2 o1.1
  have a3 := h3 o1 (f2 o1.1)
  unfold guardLim
  by_cases c1 : s.res.size < o1.1.res.size ∧ lim < o1.1.res.size
  · have : s.res.size < (f3 o1 (f2 o1.1)).1.res.size ∧ lim < (f3 o1 (f2 o1.1)).1.res.size := by omega
    simp [c1, this]
  · simp only [c1, if_false]
    by_cases c2 : o1.1.res.size < (f2 o1.1).1.res.size ∧ lim < (f2 o1.1).1.res.size
    · have : s.res.size < (f3 o1 (f2 o1.1)).1.res.size ∧ lim < (f3 o1 (f2 o1.1)).1.res.size := by omega
      simp [c2, this]
    · simp only [c2, if_false]
      by_cases c3 : (f2 o1.1).1.res.size < (f3 o1 (f2 o1.1)).1.res.size ∧ lim < (f3 o1 (f2 o1.1)).1.res.size
      · have : s.res.size < (f3 o1 (f2 o1.1)).1.res.size ∧ lim < (f3 o1 (f2 o1.1)).1.res.size := by omega
        simp [c3, this]
      · have : ¬ (s.res.size < (f3 o1 (f2 o1.1)).1.res.size ∧ lim < (f3 o1 (f2 o1.1)).1.res.size) := by omega
        simp [c3, this]

theorem finish_mono (s : St) (l r d lo hi : Nat) (f : Bool) : s.res.size ≤ (finish s l r d lo hi f).1.res.size := by
  have := finish_size s l r d lo hi f; omega

theorem applyStepLim_guard (Γ : Ctx) (lim : Nat) (recLim rec) (h : RelLim lim recLim rec) (hm : MonoRec rec) :
    RelLim lim (applyStepLim Γ lim recLim) (applyStep Γ rec) := by
  intro l r s
  unfold applyStepLim applyStep
  cases hfin : s.finished[(l, r)]? with
  | some p => exact (guardLim_same lim s _ rfl).symm
  | none =>
    simp only
    generalize min (nodeAt Γ.L l).var (nodeAt Γ.R r).var = d
    by_cases hfo : Γ.fo = some d
    · rw [if_pos hfo, if_pos hfo]
      simp only [solveLim_guard lim Γ.op recLim rec h, finishLim_guard]
      exact guard_chain lim s (solve Γ.op rec (kids Γ.L l d Γ.fl).1 (kids Γ.R r d Γ.fr).1 s)
        (fun t => solve Γ.op rec (kids Γ.L l d Γ.fl).2 (kids Γ.R r d Γ.fr).2 t)
        (fun r1 r2 => finish r2.1 l r d r1.2 r2.2 true)
        (solve_mono _ _ hm _ _ _) (fun t => solve_mono _ _ hm _ _ t) (fun a b => finish_mono _ _ _ _ _ _ _)
    · rw [if_neg hfo, if_neg hfo]
      simp only [solveLim_guard lim Γ.op recLim rec h, finishLim_guard]
      exact guard_chain lim s (solve Γ.op rec (kids Γ.L l d Γ.fl).2 (kids Γ.R r d Γ.fr).2 s)
        (fun t => solve Γ.op rec (kids Γ.L l d Γ.fl).1 (kids Γ.R r d Γ.fr).1 t)
        (fun r1 r2 => finish r2.1 l r d r2.2 r1.2 false)
        (solve_mono _ _ hm _ _ _) (fun t => solve_mono _ _ hm _ _ t) (fun a b => finish_mono _ _ _ _ _ _ _)

theorem applyRecLim_guard (Γ : Ctx) (lim : Nat) : ∀ fuel, RelLim lim (applyRecLim Γ lim fuel) (applyRec Γ fuel) := by
  intro fuel
  induction fuel with
  | zero => intro a b s; simp [applyRecLim, applyRec, guardLim]
  | succ fuel ih => exact applyStepLim_guard Γ lim _ _ ih (applyRec_mono Γ fuel)

/-! ### while `is_not_empty` is false nothing has been pushed -/

/-- invariant: a state whose flag is still `false` has the two-terminal array and only terminal results -/
def FlagInv (s : St) : Prop :=
  s.nonEmpty = false → s.res.size = 2 ∧ ∀ (l r p : Nat), s.finished[(l, r)]? = some p → p < 2

def FlagSpec (rec : Nat → Nat → St → St × Nat) : Prop :=
  ∀ a b s, FlagInv s → FlagInv (rec a b s).1 ∧ ((rec a b s).1.nonEmpty = false → (rec a b s).2 < 2 ∧ s.nonEmpty = false)

theorem solve_flag (op : Op2) (rec) (h : FlagSpec rec) (a b : Nat) (s : St) (hs : FlagInv s) :
    FlagInv (solve op rec a b s).1 ∧
      ((solve op rec a b s).1.nonEmpty = false → (solve op rec a b s).2 < 2 ∧ s.nonEmpty = false) := by
  unfold solve
  split
  · rename_i c _
    refine ⟨hs, fun h => ⟨?_, h⟩⟩
    cases c <;> simp [ofBool]
  · exact h a b s hs

theorem findOrPush_nonEmpty (s : St) (nd : Node) : (findOrPush s nd).1.nonEmpty = s.nonEmpty := by
  rcases findOrPush_cases s nd with ⟨i, _, e⟩ | ⟨_, e⟩ <;> rw [e]

theorem finish_nonEmpty (s : St) (l r d lo hi : Nat) (f : Bool) :
    (finish s l r d lo hi f).1.nonEmpty = (s.nonEmpty || decide (lo = 1 ∨ hi = 1)) := by
  rw [finish_unfold]
  by_cases h : lo = hi
  · rw [if_pos h]; simp only [flagSt_nonEmpty]
  · rw [if_neg h]; simp only [findOrPush_nonEmpty, flagSt_nonEmpty]

theorem finish_flag (s : St) (l r d lo hi : Nat) (f : Bool) (hs : FlagInv s)
    (hlo : s.nonEmpty = false → lo < 2) (hhi : s.nonEmpty = false → hi < 2) :
    FlagInv (finish s l r d lo hi f).1 ∧
      ((finish s l r d lo hi f).1.nonEmpty = false → (finish s l r d lo hi f).2 < 2 ∧ s.nonEmpty = false) := by
  have hflag := finish_nonEmpty s l r d lo hi f
  by_cases hne : (finish s l r d lo hi f).1.nonEmpty = true
  · constructor
    · intro h; rw [hne] at h; cases h
    · intro h; rw [hne] at h; cases h
  · have hne' : (finish s l r d lo hi f).1.nonEmpty = false := by simpa using hne
    rw [hne'] at hflag
    have hs0 : s.nonEmpty = false := by
      cases hsn : s.nonEmpty with
      | false => rfl
      | true => rw [hsn] at hflag; simp at hflag
    have hno : ¬ (lo = 1 ∨ hi = 1) := by
      intro hc; rw [hs0] at hflag; simp [hc] at hflag
    have l2 := hlo hs0; have h2 := hhi hs0
    have hlo0 : lo = 0 := by omega
    have hhi0 : hi = 0 := by omega
    subst hlo0; subst hhi0
    obtain ⟨hsz, hfin⟩ := hs hs0
    have hfl : flagSt s 0 0 = s := by unfold flagSt; simp
    have e : finish s l r d 0 0 f = ({ s with finished := s.finished.insert (l, r) 0 }, 0) := by
      rw [finish_unfold, if_pos rfl, hfl]
    rw [e]
    refine ⟨fun _ => ⟨hsz, ?_⟩, fun _ => ⟨by omega, hs0⟩⟩
    intro l' r' p hp
    simp only [HashMap.getElem?_insert] at hp
    split at hp
    · cases hp; omega
    · exact hfin l' r' p hp

theorem applyStep_flag (Γ : Ctx) (rec) (h : FlagSpec rec) : FlagSpec (applyStep Γ rec) := by
  intro l r s hs
  unfold applyStep
  split
  · rename_i p hp
    exact ⟨hs, fun hf => ⟨(hs hf).2 l r p hp, hf⟩⟩
  · simp only
    generalize min (nodeAt Γ.L l).var (nodeAt Γ.R r).var = d
    split
    · have h1 := solve_flag Γ.op rec h (kids Γ.L l d Γ.fl).1 (kids Γ.R r d Γ.fr).1 s hs
      generalize solve Γ.op rec (kids Γ.L l d Γ.fl).1 (kids Γ.R r d Γ.fr).1 s = o1 at h1 ⊢
      have h2 := solve_flag Γ.op rec h (kids Γ.L l d Γ.fl).2 (kids Γ.R r d Γ.fr).2 o1.1 h1.1
      generalize solve Γ.op rec (kids Γ.L l d Γ.fl).2 (kids Γ.R r d Γ.fr).2 o1.1 = o2 at h2 ⊢
      have h3 := finish_flag o2.1 l r d o1.2 o2.2 true h2.1
        (fun hf => (h1.2 (h2.2 hf).2).1) (fun hf => (h2.2 hf).1)
      exact ⟨h3.1, fun hf => ⟨(h3.2 hf).1, (h1.2 (h2.2 (h3.2 hf).2).2).2⟩⟩
    · have h1 := solve_flag Γ.op rec h (kids Γ.L l d Γ.fl).2 (kids Γ.R r d Γ.fr).2 s hs
      generalize solve Γ.op rec (kids Γ.L l d Γ.fl).2 (kids Γ.R r d Γ.fr).2 s = o1 at h1 ⊢
      have h2 := solve_flag Γ.op rec h (kids Γ.L l d Γ.fl).1 (kids Γ.R r d Γ.fr).1 o1.1 h1.1
      generalize solve Γ.op rec (kids Γ.L l d Γ.fl).1 (kids Γ.R r d Γ.fr).1 o1.1 = o2 at h2 ⊢
      have h3 := finish_flag o2.1 l r d o2.2 o1.2 false h2.1
        (fun hf => (h2.2 hf).1) (fun hf => (h1.2 (h2.2 hf).2).1)
      exact ⟨h3.1, fun hf => ⟨(h3.2 hf).1, (h1.2 (h2.2 (h3.2 hf).2).2).2⟩⟩

theorem applyRec_flag (Γ : Ctx) : ∀ fuel, FlagSpec (applyRec Γ fuel) := by
  intro fuel
  induction fuel with
  | zero => intro a b s hs; exact ⟨hs, fun hf => ⟨by simp [applyRec], hf⟩⟩
  | succ fuel ih => exact applyStep_flag Γ _ ih

theorem flagInv_initSt (n : Nat) : FlagInv (initSt n) := by
  intro _
  refine ⟨rfl, ?_⟩
  intro l r p h
  have : (initSt n).finished[(l, r)]? = none := HashMap.getElem?_emptyWithCapacity
  rw [this] at h; cases h

/-- the array of a run started on the initial state has at least the two terminals -/
theorem applyRec_init_size (Γ : Ctx) (fuel l r : Nat) (n : Nat) :
    2 ≤ (applyRec Γ fuel l r (initSt n)).1.res.size := by
  have := applyRec_mono Γ fuel l r (initSt n)
  simpa [initSt, mkTrue] using this

/-- every result of `apply_with_flip` has at least one node -/
theorem applyWithFlip_size_pos (L R : Arr) (op : Op2) (fl fr fo : Option Nat) :
    1 ≤ (applyWithFlip L R op fl fr fo).size := by
  unfold applyWithFlip
  simp only
  split
  · have := applyRec_init_size ⟨L, R, numVars L, op, fl, fr, fo⟩ (numVars L + 2) (root L) (root R) (numVars L)
    omega
  · simp [mkFalse]

/-- array-level specification of `apply_with_flip_and_limit`, for ALL operands, tables, flips and limits -/
theorem applyLimit_eq (lim : Nat) (L R : Arr) (op : Op2) (fl fr fo : Option Nat) :
    applyLimit lim L R op fl fr fo =
      if (applyWithFlip L R op fl fr fo).size ≤ lim then some (applyWithFlip L R op fl fr fo) else none := by
  have hpos := applyWithFlip_size_pos L R op fl fr fo
  unfold applyLimit
  simp only
  by_cases h0 : lim = 0
  · subst h0
    have : ¬ (applyWithFlip L R op fl fr fo).size ≤ 0 := by omega
    simp [this]
  · simp only [h0, if_false]
    rw [applyRecLim_guard ⟨L, R, numVars L, op, fl, fr, fo⟩ lim (numVars L + 2) (root L) (root R) (initSt (numVars L))]
    have hflag := (applyRec_flag ⟨L, R, numVars L, op, fl, fr, fo⟩ (numVars L + 2) (root L) (root R)
      (initSt (numVars L)) (flagInv_initSt _)).1
    have hsz := applyRec_init_size ⟨L, R, numVars L, op, fl, fr, fo⟩ (numVars L + 2) (root L) (root R) (numVars L)
    unfold applyWithFlip
    simp only
    generalize applyRec ⟨L, R, numVars L, op, fl, fr, fo⟩ (numVars L + 2) (root L) (root R) (initSt (numVars L)) = out
      at hflag hsz
    have hinit : (initSt (numVars L)).res.size = 2 := rfl
    unfold guardLim
    rw [hinit]
    by_cases hne : out.1.nonEmpty = true
    · simp only [hne, if_true]
      by_cases hbig : lim < out.1.res.size
      · have : ¬ out.1.res.size ≤ lim := by omega
        by_cases h2 : 2 < out.1.res.size
        · simp [h2, hbig, this]
        · simp [h2, hbig, this, hne]
      · have : out.1.res.size ≤ lim := by omega
        simp [hbig, this, hne]
    · have hne' : out.1.nonEmpty = false := by simpa using hne
      have hs2 := (hflag hne').1
      have : ¬ (2 < out.1.res.size ∧ lim < out.1.res.size) := by omega
      have h1 : (mkFalse (numVars L)).size ≤ lim := by simp [mkFalse]; omega
      simp [this, hne', h1]

end B.Lim
