import BddVerif.Gen.Algo2
import BddVerif.Lemmas.AlgoEqApply
import BddVerif.Lemmas.AlgoEqRestrictThm
import BddVerif.Lemmas.AlgoEqUtilSpec
import BddVerif.Props.C10
/-!
# Equivalence "translated Rust = hand-written model" for `mk_dnf` / `mk_cnf`, part 1: the generic simulation

`Bdd::mk_dnf::_rec` (src/_impl_bdd/_impl_dnf.rs:11) and `Bdd::mk_cnf::_rec` (src/_impl_bdd/_impl_cnf.rs:10) are the same
recursion up to the value of the empty list, the constructor of a single clause and the connective. This file

* bounds the size of a canonical array: `canon_size_le : (canon n f).size ≤ 2^n + 1`;
* relates the shim's `Rust.pvalEq` to the model's `clauseEq`, `BddPartialValuation::get_value` to `PVal.get`;
* evaluates the three inner loops of `_rec` (duplicate check, `any`, three-way split) in closed form, for any loop
  body that is pointwise equal to a hand-written one;
* defines the common shape of both functions: `Cfg` (the parameters), `nfStep` (one round of the `loop` of `_rec`),
  `tRec` (the translated recursion: `fuel` = recursion depth AND iteration bound, as the translator emits it) and
  `genRec` (the common shape of the hand models `mkDnfRec` / `mkCnfRec`);
* proves `tRec_eq_genRec`: whenever the hand model returns `.ok r` and every combination it performs is one on which the
  translated connective agrees with the model connective (`CombOK`), `tRec` returns `.ok r` for every fuel
  `≥ k + 2 + M` (`k` = number of variables still to look at, `M` = fuel needed by one combination).

Part 2 (`AlgoEq2NFMk.lean`) ties `tRec` to the GENERATED definitions `B.Gen.Algo2.Bdd_mk_dnf___rec` / `Bdd_mk_cnf___rec`.
-/
namespace B.AlgoEq2NF
open B B.NF B.Gen B.Gen.Algo B.Gen.Algo2 B.AlgoEqUtil

attribute [local instance 10000] Rust.monadOutcomeInline

/-! ### the size of a canonical array -/

theorem ins_size_le (n : Nat) : ∀ (fuel k : Nat) (f : (Nat → Bool) → Bool) (A : Arr),
    (ins n fuel k f A).1.size + 1 ≤ A.size + 2 ^ fuel := by
  intro fuel
  induction fuel with
  | zero => intro k f A; simp [ins]
  | succ fuel ih =>
    intro k f A
    have h1 := ih (k + 1) (fun v => f (upd v k true)) A
    have h2 := ih (k + 1) (fun v => f (upd v k false)) (ins n fuel (k + 1) (fun v => f (upd v k true)) A).1
    have hp : 2 ^ (fuel + 1) = 2 ^ fuel + 2 ^ fuel := by rw [Nat.pow_succ]; omega
    simp only [ins]
    split
    · simp only; omega
    · split
      · simp only; omega
      · simp only [Array.size_push]; omega

/-- a reduced ordered diagram over `n` variables has at most `2^n + 1` nodes (terminals included) -/
theorem canon_size_le (n : Nat) (f : (Nat → Bool) → Bool) : (canon n f).size ≤ 2 ^ n + 1 := by
  unfold canon
  have h := ins_size_le n n 0 f (mkTrue n)
  rw [mkTrue_size] at h
  simp only
  split
  · rw [mkFalse_size]; have : 0 < 2 ^ n := Nat.two_pow_pos n; omega
  · omega

/-! ### `BddPartialValuation`: `get_value`, `has_value`, `PartialEq` -/

theorem get_value_eq (pv : Array (Option Bool)) (x : Nat) :
    BddPartialValuation_get_value pv x = .ok (PVal.get pv.toList x) := by
  unfold BddPartialValuation_get_value PVal.get
  by_cases h : x < pv.size
  · simp [h, Rust.idx]
  · simp [h]

theorem has_value_eq (pv : Array (Option Bool)) (x : Nat) :
    BddPartialValuation_has_value pv x = .ok (PVal.get pv.toList x).isSome := by
  unfold BddPartialValuation_has_value
  rw [get_value_eq]
  rfl

theorem pvalEq_iff (a b : Array (Option Bool)) :
    Rust.pvalEq a b = true ↔ ∀ i, PVal.get a.toList i = PVal.get b.toList i := by
  unfold Rust.pvalEq
  simp only [List.all_eq_true, List.mem_range, beq_iff_eq, AlgoEqR.pvalIndex_eq]
  constructor
  · intro h i
    by_cases hi : i < max a.size b.size
    · exact h i hi
    · rw [get_of_le _ _ (by simp only [Array.length_toList]; omega),
        get_of_le _ _ (by simp only [Array.length_toList]; omega)]
  · intro h i _; exact h i

theorem pvalEq_eq_clauseEq (a b : Array (Option Bool)) : Rust.pvalEq a b = clauseEq a.toList b.toList := by
  rw [Bool.eq_iff_iff, pvalEq_iff]
  exact ⟨clauseEq_of_get, fun h i => get_of_clauseEq h i⟩

/-! ### the three inner loops -/

def dupMsg : String := "assertion failed: assert_eq!(*cx, c);"

/-- body of `for cx in &dnf[1..] { assert_eq!(*cx, c); }` -/
def dupBody (c cx : Array (Option Bool)) (_ : PUnit) : Outcome (ForInStep PUnit) :=
  if (!Rust.pvalEq cx c) = true then .panic dupMsg else .ok (.yield PUnit.unit)

theorem dup_loop_list (c : Array (Option Bool)) : ∀ (l : List (Array (Option Bool))),
    forIn l PUnit.unit (dupBody c) =
      if l.all (fun cx => clauseEq cx.toList c.toList) = true then Outcome.ok PUnit.unit else .panic dupMsg := by
  intro l
  induction l with
  | nil => rfl
  | cons a t ih =>
    rw [List.forIn_cons]
    unfold dupBody
    rw [pvalEq_eq_clauseEq]
    by_cases h : clauseEq a.toList c.toList = true
    · simp only [h, Bool.not_true, Bool.false_eq_true, if_false, List.all_cons, Bool.true_and]
      exact ih
    · simp only [Bool.not_eq_true] at h
      simp only [h, Bool.not_false, if_true, List.all_cons, Bool.false_and, Bool.false_eq_true, if_false]
      rfl

theorem dup_loop (c : Array (Option Bool)) (rest : Array (Array (Option Bool))) :
    forIn rest PUnit.unit (dupBody c) =
      if rest.toList.all (fun cx => clauseEq cx.toList c.toList) = true then Outcome.ok PUnit.unit
      else .panic dupMsg := by
  rw [← Array.forIn_toList]; exact dup_loop_list c _

/-- body of `dnf.iter().any(|val| val.has_value(variable))` -/
def anyBody (var : Nat) (val : Array (Option Bool)) (s : Bool) : Outcome (ForInStep Bool) :=
  (BddPartialValuation_has_value val var).bind fun b => if b = true then .ok (.done true) else .ok (.yield s)

theorem any_loop_list (var : Nat) : ∀ (l : List (Array (Option Bool))),
    forIn l false (anyBody var) = Outcome.ok (l.any fun c => (PVal.get c.toList var).isSome) := by
  intro l
  induction l with
  | nil => rfl
  | cons a t ih =>
    rw [List.forIn_cons]
    unfold anyBody
    rw [has_value_eq]
    by_cases h : (PVal.get a.toList var).isSome = true
    · simp only [Outcome.bind, h, if_true, List.any_cons, Bool.true_or]; rfl
    · simp only [Bool.not_eq_true] at h
      simp only [Outcome.bind, h, Bool.false_eq_true, if_false, List.any_cons, Bool.false_or]
      exact ih

theorem any_loop (var : Nat) (cl : Array (Array (Option Bool))) :
    forIn cl false (anyBody var) = Outcome.ok (cl.toList.any fun c => (PVal.get c.toList var).isSome) := by
  rw [← Array.forIn_toList]; exact any_loop_list var _

abbrev Cl := Array (Array (Option Bool))
abbrev A3 := Cl × Cl × Cl

/-- body of the three-way split `for c in dnf { match c.get_value(var) { … } }` -/
def splitBody (var : Nat) (c : Array (Option Bool)) (s : A3) : Outcome (ForInStep A3) :=
  (BddPartialValuation_get_value c var).bind fun o =>
    match o with
    | none => .ok (.yield (s.1.push c, s.2.1, s.2.2))
    | some true => .ok (.yield (s.1, s.2.1.push c, s.2.2))
    | some false => .ok (.yield (s.1, s.2.1, s.2.2.push c))

/-- the clause list of the model -/
def toL (cl : Cl) : List PVal := cl.toList.map Array.toList

def splitA (cl : List (Array (Option Bool))) (var : Nat) (o : Option Bool) : Cl :=
  (cl.filter fun c => PVal.get c.toList var == o).toArray

theorem split_loop_list (var : Nat) : ∀ (l : List (Array (Option Bool))) (s : A3),
    forIn l s (splitBody var) =
      Outcome.ok (s.1 ++ splitA l var none, s.2.1 ++ splitA l var (some true), s.2.2 ++ splitA l var (some false)) := by
  intro l
  induction l with
  | nil => intro s; simp [splitA]
  | cons a t ih =>
    intro s
    rw [List.forIn_cons]
    unfold splitBody
    rw [get_value_eq]
    rcases hg : PVal.get a.toList var with _ | b
    · simp only [Outcome.bind]
      refine (ih _).trans ?_
      simp [splitA, hg]
    · cases b
      · simp only [Outcome.bind]
        refine (ih _).trans ?_
        simp [splitA, hg]
      · simp only [Outcome.bind]
        refine (ih _).trans ?_
        simp [splitA, hg]

theorem split_loop (var : Nat) (cl : Cl) :
    forIn cl ((#[], #[], #[]) : A3) (splitBody var) =
      Outcome.ok (splitA cl.toList var none, splitA cl.toList var (some true), splitA cl.toList var (some false)) := by
  rw [← Array.forIn_toList, split_loop_list]
  simp

theorem toL_splitA (cl : Cl) (var : Nat) (o : Option Bool) :
    toL (splitA cl.toList var o) = (toL cl).filter (fun c => c.get var == o) := by
  unfold toL splitA
  simp only [List.filter_map]
  rfl

theorem mem_splitA {cl : Cl} {var : Nat} {o : Option Bool} {c : Array (Option Bool)}
    (h : c ∈ (splitA cl.toList var o).toList) : c ∈ cl.toList := by
  unfold splitA at h
  simp only [List.mem_filter] at h
  exact h.1

/-! ### the common shape of `mk_dnf::_rec` and `mk_cnf::_rec` -/

/-- what distinguishes the two functions -/
structure Cfg where
  /-- `num_vars` -/
  n : Nat
  /-- result on the empty list -/
  empty : Arr
  /-- translated constructor of a single clause -/
  leaf : Array (Option Bool) → Outcome Arr
  /-- translated connective (with fuel) -/
  comb : Nat → Arr → Arr → Outcome Arr
  /-- message of `assert!(var < num_vars)` -/
  msg : String
  /-- model constructor of a single clause -/
  leafM : PVal → Outcome Arr
  /-- model connective -/
  combM : Arr → Arr → Arr

abbrev LSt := Option Arr × Nat

/-- one round of the `loop` of `_rec` (state: early-return slot, `var`); `recf` is the recursive call -/
def nfStep (g : Cfg) (cl : Cl) (recf : Nat → Cl → Outcome Arr) (comb : Arr → Arr → Outcome Arr) (st : LSt) :
    Outcome (ForInStep LSt) :=
  if cl.isEmpty = true then .ok (.done (some g.empty, st.2))
  else if (st.2 == g.n || cl.size == 1) = true then
    (Rust.idx cl 0).bind fun c =>
    (Rust.sliceFrom cl 1).bind fun rest =>
    (forIn rest PUnit.unit (dupBody c)).bind fun _ =>
    (g.leaf c).bind fun r => .ok (.done (some r, st.2))
  else if (!decide (st.2 < g.n)) = true then .panic g.msg
  else
    (forIn cl false (anyBody st.2)).bind fun b =>
    if (!b) = true then .ok (.yield (none, st.2 + 1))
    else
      (forIn cl ((#[], #[], #[]) : A3) (splitBody st.2)).bind fun s =>
      (recf (st.2 + 1) s.1).bind fun dc =>
      (recf (st.2 + 1) s.2.1).bind fun ht =>
      (recf (st.2 + 1) s.2.2).bind fun hf =>
      (comb dc ht).bind fun x =>
      (comb x hf).bind fun r => .ok (.done (some r, st.2))

/-- after the loop: the early-return slot, or fuel exhaustion -/
def nfPost (st : LSt) : Outcome Arr :=
  match st.1 with
  | some r => .ok r
  | none => .panic "fuel"

/-- the translated recursion -/
def tRec (g : Cfg) : Nat → Nat → Cl → Outcome Arr
  | 0, _, _ => .panic "fuel"
  | fuel + 1, var, cl => (iter (nfStep g cl (tRec g fuel) (g.comb fuel)) fuel (none, var)).bind nfPost

/-- the common shape of the hand models `mkDnfRec` / `mkCnfRec` -/
def genRec (g : Cfg) : Nat → List PVal → Outcome Arr
  | 0, cs =>
    match cs with
    | [] => .ok g.empty
    | c :: _ => if allDuplicates cs then g.leafM c else .panic assertDup
  | k + 1, cs =>
    match cs with
    | [] => .ok g.empty
    | [c] => g.leafM c
    | _ :: _ :: _ =>
      let var := g.n - (k + 1)
      if !(cs.any fun c => (c.get var).isSome) then genRec g k cs
      else
        match genRec g k (splitNone cs var) with
        | .ok dc =>
          match genRec g k (splitTrue cs var) with
          | .ok ht =>
            match genRec g k (splitFalse cs var) with
            | .ok hf => .ok (g.combM (g.combM dc ht) hf)
            | e => e
          | e => e
        | e => e

/-- every combination performed by `genRec g k cs` is on a pair of operands satisfying `P` -/
def CombOK (g : Cfg) (P : Arr → Arr → Prop) : Nat → List PVal → Prop
  | 0, _ => True
  | k + 1, cs =>
    match cs with
    | [] => True
    | [_] => True
    | _ :: _ :: _ =>
      let var := g.n - (k + 1)
      match cs.any fun c => (c.get var).isSome with
      | false => CombOK g P k cs
      | true =>
        CombOK g P k (splitNone cs var) ∧ CombOK g P k (splitTrue cs var) ∧ CombOK g P k (splitFalse cs var) ∧
        ∀ dc ht hf, genRec g k (splitNone cs var) = .ok dc → genRec g k (splitTrue cs var) = .ok ht →
          genRec g k (splitFalse cs var) = .ok hf → P dc ht ∧ P (g.combM dc ht) hf

/-! ### the simulation -/

theorem toL_nil {cl : Cl} (h : toL cl = []) : cl.isEmpty = true := by
  unfold toL at h
  simp only [List.map_eq_nil_iff, Array.toList_eq_nil_iff] at h
  simp [h]

theorem toL_cons {cl : Cl} {c : PVal} {t : List PVal} (h : toL cl = c :: t) :
    cl.isEmpty = false ∧ ∃ h0 : 0 < cl.size, cl[0].toList = c ∧ toL (cl.extract 1 cl.size) = t ∧
      cl.size = t.length + 1 := by
  unfold toL at h
  have hl : cl.toList.length = t.length + 1 := by
    have := congrArg List.length h
    simpa using this
  have h0 : 0 < cl.size := by simp only [Array.length_toList] at hl; omega
  have hemp : cl.isEmpty = decide (cl.size = 0) := rfl
  refine ⟨by rw [hemp, decide_eq_false_iff_not]; omega, h0, ?_, ?_, by simpa using hl⟩
  · have := congrArg (fun l => l[0]?) h
    simp only [List.getElem?_map, List.getElem?_cons_zero, Array.getElem?_toList] at this
    rw [Array.getElem?_eq_getElem h0] at this
    simpa using this
  · unfold toL
    rw [Array.toList_extract]
    have := congrArg List.tail h
    simp only [List.tail_cons, ← List.map_tail] at this
    rw [← this]
    congr 1
    simp only [List.extract_eq_take_drop, List.drop_one]
    exact List.take_of_length_le (by simp)

/-- the leaf round of the loop (lines 16-23) -/
theorem nfStep_leaf (g : Cfg) (cl : Cl) (recf : Nat → Cl → Outcome Arr) (comb : Arr → Arr → Outcome Arr) (var : Nat)
    (c : PVal) (t : List PVal) (h : toL cl = c :: t) (hcond : var = g.n ∨ t = [])
    (hdup : allDuplicates (c :: t) = true) (r : Arr)
    (hleaf : ∀ x, x ∈ cl.toList → ∀ r, g.leafM x.toList = .ok r → g.leaf x = .ok r) (hr : g.leafM c = .ok r) :
    nfStep g cl recf comb (none, var) = .ok (.done (some r, var)) := by
  obtain ⟨hne, h0, hc, ht, hsz⟩ := toL_cons h
  unfold nfStep
  have hc2 : (var == g.n || cl.size == 1) = true := by
    rcases hcond with e | e
    · simp [e]
    · subst e; simp at hsz; simp [hsz]
  simp only [hne, Bool.false_eq_true, if_false, hc2, if_true]
  have hidx : Rust.idx cl 0 = .ok cl[0] := by simp [Rust.idx, h0]
  have hsl : Rust.sliceFrom cl 1 = .ok (cl.extract 1 cl.size) := by
    unfold Rust.sliceFrom; rw [if_pos (by omega)]
  rw [hidx, hsl]
  simp only [Outcome.bind]
  rw [dup_loop]
  have hall : (cl.extract 1 cl.size).toList.all (fun cx => clauseEq cx.toList cl[0].toList) = true := by
    simp only [allDuplicates] at hdup
    unfold toL at ht
    rw [← ht, List.all_map] at hdup
    rw [hc]
    exact hdup
  rw [if_pos hall]
  simp only []
  rw [hleaf _ (by simp) r (by rw [hc]; exact hr)]

/-- the empty round (lines 13-15) -/
theorem nfStep_empty (g : Cfg) (cl : Cl) (recf : Nat → Cl → Outcome Arr) (comb : Arr → Arr → Outcome Arr) (var : Nat)
    (h : toL cl = []) : nfStep g cl recf comb (none, var) = .ok (.done (some g.empty, var)) := by
  unfold nfStep
  rw [if_pos (toL_nil h)]

/-- a round on at least two clauses below `num_vars` -/
theorem nfStep_inner (g : Cfg) (cl : Cl) (recf : Nat → Cl → Outcome Arr) (comb : Arr → Arr → Outcome Arr) (var : Nat)
    (c1 c2 : PVal) (t : List PVal) (h : toL cl = c1 :: c2 :: t) (hv : var < g.n) :
    nfStep g cl recf comb (none, var) =
      if (!((toL cl).any fun c => (c.get var).isSome)) = true then .ok (.yield (none, var + 1))
      else
        (recf (var + 1) (splitA cl.toList var none)).bind fun dc =>
        (recf (var + 1) (splitA cl.toList var (some true))).bind fun ht =>
        (recf (var + 1) (splitA cl.toList var (some false))).bind fun hf =>
        (comb dc ht).bind fun x =>
        (comb x hf).bind fun r => .ok (.done (some r, var)) := by
  obtain ⟨hne, h0, hc, ht, hsz⟩ := toL_cons h
  unfold nfStep
  have hc2 : (var == g.n || cl.size == 1) = false := by
    simp only [List.length_cons] at hsz
    simp only [Bool.or_eq_false_iff, beq_eq_false_iff_ne, ne_eq]
    omega
  have hlt : (!decide (var < g.n)) = false := by simp [hv]
  simp only [hne, Bool.false_eq_true, if_false, hc2, hlt]
  rw [any_loop, split_loop]
  have : (cl.toList.any fun c => (PVal.get c.toList var).isSome) = ((toL cl).any fun c => (c.get var).isSome) := by
    unfold toL; rw [List.any_map]; rfl
  rw [this]
  rfl

theorem genRec_nil (g : Cfg) (k : Nat) : genRec g k [] = .ok g.empty := by
  cases k <;> rfl

/-- MAIN SIMULATION (generic): the loop of the translated `_rec`, started at `var = n - k` with `j ≥ k + 1`
    iterations and recursion fuel `fuel ≥ k + 1 + M`, returns what the hand model returns, provided the model returns
    normally, the clause constructors agree on the members of the list (whenever the model constructor returns normally), and the translated connective agrees with the
    model connective (fuel `≥ M`) on every pair of operands the model combines. -/
theorem loop_eq_genRec (g : Cfg) (P : Arr → Arr → Prop) (M : Nat)
    (hcomb : ∀ f A B, P A B → M ≤ f → g.comb f A B = .ok (g.combM A B)) :
    ∀ (k fuel j var : Nat) (cl : Cl) (r : Arr), var + k = g.n → k + 1 ≤ j → k + 1 + M ≤ fuel →
      (∀ x, x ∈ cl.toList → ∀ r, g.leafM x.toList = .ok r → g.leaf x = .ok r) → CombOK g P k (toL cl) → genRec g k (toL cl) = .ok r →
      (iter (nfStep g cl (tRec g fuel) (g.comb fuel)) j (none, var)).bind nfPost = .ok r := by
  intro k
  induction k with
  | zero =>
    intro fuel j var cl r hvk hj _ hleaf _ hr
    obtain ⟨j, rfl⟩ : ∃ j', j = j' + 1 := ⟨j - 1, by omega⟩
    rw [iter_succ]
    rcases hcs : toL cl with _ | ⟨c, t⟩
    · rw [nfStep_empty g cl _ _ var hcs]
      rw [hcs] at hr
      simp only [genRec] at hr
      cases hr; rfl
    · rw [hcs] at hr
      simp only [genRec] at hr
      by_cases hd : allDuplicates (c :: t) = true
      · rw [if_pos hd] at hr
        rw [nfStep_leaf g cl _ _ var c t hcs (Or.inl (by omega)) hd r hleaf hr]
        rfl
      · rw [if_neg hd] at hr; cases hr
  | succ k ih =>
    intro fuel j var cl r hvk hj hfuel hleaf hok hr
    obtain ⟨j, rfl⟩ : ∃ j', j = j' + 1 := ⟨j - 1, by omega⟩
    rw [iter_succ]
    match hcs : toL cl with
    | [] =>
      rw [nfStep_empty g cl _ _ var hcs]
      rw [hcs, genRec_nil] at hr
      cases hr; rfl
    | [c] =>
      rw [hcs] at hr
      simp only [genRec] at hr
      rw [nfStep_leaf g cl _ _ var c [] hcs (Or.inr rfl) (by simp [allDuplicates]) r hleaf hr]
      rfl
    | c1 :: c2 :: t =>
      have hvar : g.n - (k + 1) = var := by omega
      rw [nfStep_inner g cl _ _ var c1 c2 t hcs (by omega)]
      rw [hcs] at hr hok
      simp only [genRec, hvar] at hr
      simp only [CombOK, hvar] at hok
      rw [hcs]
      rcases hany : ((c1 :: c2 :: t).any fun c => (c.get var).isSome) with _ | _
      · rw [hany] at hr hok
        simp only [Bool.not_false, if_true] at hr hok ⊢
        rw [← hcs] at hr hok
        exact ih fuel j (var + 1) cl r (by omega) (by omega) (by omega) hleaf hok hr
      · rw [hany] at hr hok
        simp only [Bool.not_true, Bool.false_eq_true, if_false] at hr hok ⊢
        obtain ⟨ok1, ok2, ok3, hP⟩ := hok
        rcases e1 : genRec g k (splitNone (c1 :: c2 :: t) var) with dc | m | m
        · rw [e1] at hr
          rcases e2 : genRec g k (splitTrue (c1 :: c2 :: t) var) with ht | m | m
          · rw [e2] at hr
            rcases e3 : genRec g k (splitFalse (c1 :: c2 :: t) var) with hf | m | m
            · rw [e3] at hr
              simp only [Outcome.ok.injEq] at hr
              obtain ⟨fuel, rfl⟩ : ∃ f', fuel = f' + 1 := ⟨fuel - 1, by omega⟩
              have hsub : ∀ (o : Option Bool) (res : Arr), CombOK g P k ((c1 :: c2 :: t).filter fun c => c.get var == o) →
                  genRec g k ((c1 :: c2 :: t).filter fun c => c.get var == o) = .ok res →
                  tRec g (fuel + 1) (var + 1) (splitA cl.toList var o) = .ok res := by
                intro o res hok' hres
                rw [← hcs, ← toL_splitA] at hok' hres
                exact ih fuel fuel (var + 1) (splitA cl.toList var o) res (by omega) (by omega) (by omega)
                  (fun x hx => hleaf x (mem_splitA hx)) hok' hres
              rw [hsub none dc ok1 e1, hsub (some true) ht ok2 e2, hsub (some false) hf ok3 e3]
              obtain ⟨p1, p2⟩ := hP dc ht hf e1 e2 e3
              simp only [Outcome.bind]
              rw [hcomb _ _ _ p1 (by omega)]
              simp only []
              rw [hcomb _ _ _ p2 (by omega)]
              simp only [nfPost, hr]
            · rw [e3] at hr; cases hr
            · rw [e3] at hr; cases hr
          · rw [e2] at hr; cases hr
          · rw [e2] at hr; cases hr
        · rw [e1] at hr; cases hr
        · rw [e1] at hr; cases hr

/-- the translated recursion returns what the hand model returns, for every fuel `≥ k + 2 + M` -/
theorem tRec_eq_genRec (g : Cfg) (P : Arr → Arr → Prop) (M : Nat)
    (hcomb : ∀ f A B, P A B → M ≤ f → g.comb f A B = .ok (g.combM A B))
    (k fuel var : Nat) (cl : Cl) (r : Arr) (hvk : var + k = g.n) (hfuel : k + 2 + M ≤ fuel)
    (hleaf : ∀ x, x ∈ cl.toList → ∀ r, g.leafM x.toList = .ok r → g.leaf x = .ok r) (hok : CombOK g P k (toL cl))
    (hr : genRec g k (toL cl) = .ok r) : tRec g fuel var cl = .ok r := by
  obtain ⟨fuel, rfl⟩ : ∃ f', fuel = f' + 1 := ⟨fuel - 1, by omega⟩
  exact loop_eq_genRec g P M hcomb k fuel fuel var cl r hvk (by omega) (by omega) hleaf hok hr

end B.AlgoEq2NF
