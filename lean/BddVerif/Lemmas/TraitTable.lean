import BddVerif.Gen.TraitImpls
/-!
The regenerated table of trait implementations (`Gen/TraitImpls.lean`, rewritten from the current sources on every
run by `tools/gen_lean.py`) has the two features the hand models and the translated models rely on (only these are
stated, so that an unrelated new trait implementation does not break a proof obligation):

* every `impl Iterator for …` of the crate defines `next` and nothing else — `count`, `last`, `nth`, `size_hint`, `fold`, …
  are the standard library's provided methods over `next`, so the theorems about the `next` sequences (C08) determine them
  (a hand-written `count()` "optimisation" that ignores how far the iterator has advanced breaks this table);
* the memo keys `Task` of the apply engines, `BddPointer`, `BddVariable`, `BddNode`, `Bdd`, `BddValuation` DERIVE their
  `PartialEq`/`Eq`/`Hash`(/`Ord`): equality and hashing are structural, which is what the `Std.HashMap` keys of the models
  assume (a hand-written lossy `Eq`/`Hash` for a key type breaks this table); the only hand-written `PartialEq`/`Hash` is
  `BddPartialValuation`'s, which is modelled and proved (C18: `pv_eq_iff`, `pv_hash_congr`).

A harmless change of this kind (a correct `size_hint`, a hand-written but faithful `PartialEq`) breaks these `decide`
proofs too; the runner then searches for a failing input and reports accordingly.
-/
namespace B.TraitTable

set_option maxRecDepth 16384 in
/-- every iterator of the crate defines `next` only -/
theorem iterators_define_only_next :
    ∀ e ∈ Gen.traitImpls, e.2.1 = "Iterator" → e.2.2.2 = "next" := by decide

set_option maxRecDepth 16384 in
/-- the key types of the memo tables (`Task`, twice: binary and ternary engine) and the pointer/variable/node/diagram
    types derive structural `PartialEq`, `Eq` and `Hash` -/
theorem key_types_derive_eq_hash :
    ("src/_impl_bdd/mod.rs", "Task", "Clone,Copy,Eq,Hash,PartialEq") ∈ Gen.derivedTraits ∧
    ("src/_impl_bdd/_impl_ternary_ops.rs", "Task", "Clone,Copy,Eq,Hash,PartialEq") ∈ Gen.derivedTraits ∧
    ("src/lib.rs", "BddPointer", "Clone,Copy,Debug,Eq,Hash,Ord,PartialEq,PartialOrd") ∈ Gen.derivedTraits ∧
    ("src/lib.rs", "BddVariable", "Clone,Copy,Debug,Eq,Hash,Ord,PartialEq,PartialOrd") ∈ Gen.derivedTraits ∧
    ("src/lib.rs", "BddNode", "Clone,Copy,Debug,Eq,Hash,PartialEq") ∈ Gen.derivedTraits ∧
    ("src/lib.rs", "Bdd", "Clone,Debug,Eq,Hash,PartialEq") ∈ Gen.derivedTraits ∧
    (∀ e ∈ Gen.traitImpls, e.2.1 = "PartialEq" ∨ e.2.1 = "Hash" ∨ e.2.1 = "Eq" ∨ e.2.1 = "Ord" ∨ e.2.1 = "PartialOrd" →
      e.2.2.1 = "BddPartialValuation") := by
  decide

end B.TraitTable
