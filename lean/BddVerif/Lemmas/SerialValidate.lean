import BddVerif.Lemmas.SerialNodes
/-! `validate` (C13): the DFS terminates within its fuel, never indexes out of bounds after the range checks,
and `Ok` implies well-formedness by level plus reachability of every decision node. -/
namespace B.Serial
open B

/-- `q` is reachable from `p` along low/high links -/
inductive Reach (A : Arr) : Nat → Nat → Prop where
  | refl (p : Nat) : Reach A p p
  | low {p q : Nat} {nd : Node} : A[p]? = some nd → Reach A nd.low q → Reach A p q
  | high {p q : Nat} {nd : Node} : A[p]? = some nd → Reach A nd.high q → Reach A p q

/-- every decision node is reachable from the root (the last node) -/
def AllReachable (A : Arr) : Prop := ∀ p, 2 ≤ p → p < A.size → Reach A (A.size - 1) p

/-- the child-ordering test of the DFS holds at `p` -/
def OrderedAt (A : Arr) (p : Nat) : Prop :=
  ∃ nd lc hc, A[p]? = some nd ∧ A[nd.low]? = some lc ∧ A[nd.high]? = some hc ∧ nd.var < lc.var ∧ nd.var < hc.var

theorem dfs_nil (A : Arr) (fuel : Nat) (vis : Array Bool) : dfs A fuel [] vis = some (.ok vis) := by
  cases fuel <;> simp [dfs]

theorem dfs_ok (A : Arr) : ∀ (fuel : Nat) (stack : List Nat) (vis vis' : Array Bool),
    dfs A fuel stack vis = some (.ok vis') →
    vis'.size = vis.size ∧ (∀ p : Nat, vis[p]? = some true → vis'[p]? = some true) ∧
    (∀ p : Nat, vis'[p]? = some true → vis[p]? = some true ∨ (OrderedAt A p ∧ ∃ s ∈ stack, Reach A s p)) := by
  intro fuel
  induction fuel with
  | zero =>
    intro stack vis vis' h
    cases stack with
    | nil => simp [dfs] at h; subst h; exact ⟨rfl, fun _ h => h, fun _ h => .inl h⟩
    | cons t s => simp [dfs] at h
  | succ fuel ih =>
    intro stack vis vis' h
    cases stack with
    | nil => simp [dfs] at h; subst h; exact ⟨rfl, fun _ h => h, fun _ h => .inl h⟩
    | cons top stack =>
      simp only [dfs] at h
      cases hv : aidx vis top with
      | panic m => simp [hv] at h
      | err m => simp [hv] at h
      | ok b =>
        have hvt := aidx_eq_ok.mp hv
        cases b with
        | true =>
          simp only [hv] at h
          obtain ⟨i1, i2, i3⟩ := ih stack vis vis' h
          refine ⟨i1, i2, fun p hp => ?_⟩
          rcases i3 p hp with h' | ⟨ho, s, hs, hr⟩
          · exact .inl h'
          · exact .inr ⟨ho, s, List.mem_cons_of_mem _ hs, hr⟩
        | false =>
          simp only [hv] at h
          cases hn : aidx A top with
          | panic m => simp [hn] at h
          | err m => simp [hn] at h
          | ok node =>
            simp only [hn] at h
            cases hl : aidx A node.low with
            | panic m => simp [hl] at h
            | err m => simp [hl] at h
            | ok lc =>
              simp only [hl] at h
              cases hh : aidx A node.high with
              | panic m => simp [hh] at h
              | err m => simp [hh] at h
              | ok hc =>
                simp only [hh] at h
                split at h
                · simp at h
                · rename_i hord
                  simp only [Bool.or_eq_true, decide_eq_true_eq, not_or, Nat.not_le] at hord
                  have hnode := aidx_eq_ok.mp hn
                  have hordAt : OrderedAt A top :=
                    ⟨node, lc, hc, hnode, aidx_eq_ok.mp hl, aidx_eq_ok.mp hh, hord.1, hord.2⟩
                  have htop : top < vis.size := by
                    rcases Nat.lt_or_ge top vis.size with h' | h'
                    · exact h'
                    · rw [Array.getElem?_eq_none h'] at hvt; simp at hvt
                  obtain ⟨i1, i2, i3⟩ := ih _ _ vis' h
                  rw [Array.size_setIfInBounds] at i1
                  refine ⟨i1, fun p hp => ?_, fun p hp => ?_⟩
                  · apply i2
                    rw [Array.getElem?_setIfInBounds]
                    split
                    · simp [htop]
                    · exact hp
                  · rcases i3 p hp with h' | ⟨ho, s, hs, hr⟩
                    · rw [Array.getElem?_setIfInBounds] at h'
                      split at h'
                      · rename_i heq; subst heq
                        exact .inr ⟨hordAt, top, by simp, Reach.refl _⟩
                      · exact .inl h'
                    · refine .inr ⟨ho, ?_⟩
                      simp only [List.mem_cons] at hs
                      rcases hs with rfl | rfl | hs
                      · exact ⟨top, by simp, Reach.high hnode hr⟩
                      · exact ⟨top, by simp, Reach.low hnode hr⟩
                      · exact ⟨s, by simp [hs], hr⟩

/-- after the range checks the DFS neither runs out of fuel nor indexes out of bounds -/
theorem dfs_total (A : Arr) (hlinks : ∀ p nd, 2 ≤ p → A[p]? = some nd → nd.low < A.size ∧ nd.high < A.size) :
    ∀ (fuel : Nat) (stack : List Nat) (vis : Array Bool) (U : List Nat), vis.size = A.size →
      (∀ s ∈ stack, s < A.size) → vis[0]? = some true → vis[1]? = some true →
      (∀ p : Nat, vis[p]? = some false → p ∈ U) → stack.length + 2 * U.length ≤ fuel →
      ∃ o, dfs A fuel stack vis = some o ∧ o.isPanic = false := by
  intro fuel
  induction fuel with
  | zero =>
    intro stack vis U _ _ _ _ _ hf
    have : stack = [] := List.eq_nil_of_length_eq_zero (by omega)
    subst this
    exact ⟨_, dfs_nil A 0 vis, rfl⟩
  | succ fuel ih =>
    intro stack vis U hsz hst h0 h1 hU hf
    cases stack with
    | nil => exact ⟨_, dfs_nil A _ vis, rfl⟩
    | cons top stack =>
      have htop : top < A.size := hst top (by simp)
      simp only [dfs]
      rw [aidx_of_lt (by omega : top < vis.size)]
      have hvt : vis[top]? = some vis[top] := by simp [show top < vis.size by omega]
      cases hb : vis[top] with
      | true =>
        simp only
        exact ih stack vis U hsz (fun s hs => hst s (by simp [hs])) h0 h1 hU (by simp at hf; omega)
      | false =>
        simp only
        rw [hb] at hvt
        have htop2 : 2 ≤ top := by
          rcases Nat.lt_or_ge top 2 with h' | h'
          · have : top = 0 ∨ top = 1 := by omega
            rcases this with rfl | rfl
            · rw [h0] at hvt; simp at hvt
            · rw [h1] at hvt; simp at hvt
          · exact h'
        rw [aidx_of_lt htop]
        simp only
        obtain ⟨hlo, hhi⟩ := hlinks top A[top] htop2 (by simp [htop])
        rw [aidx_of_lt hlo, aidx_of_lt hhi]
        simp only
        split
        · exact ⟨_, rfl, rfl⟩
        · have hmem : top ∈ U := hU top hvt
          have hlen : (U.erase top).length = U.length - 1 := List.length_erase_of_mem hmem
          have hpos : 0 < U.length := List.length_pos_of_mem hmem
          apply ih _ _ (U.erase top)
          · rw [Array.size_setIfInBounds]; exact hsz
          · intro s hs
            simp only [List.mem_cons] at hs
            rcases hs with rfl | rfl | hs
            · exact hhi
            · exact hlo
            · exact hst s (by simp [hs])
          · rw [Array.getElem?_setIfInBounds]; rw [if_neg (by omega)]; exact h0
          · rw [Array.getElem?_setIfInBounds]; rw [if_neg (by omega)]; exact h1
          · intro p hp
            rw [Array.getElem?_setIfInBounds] at hp
            split at hp
            · rename_i heq; subst heq
              simp [show top < vis.size by omega] at hp
            · rename_i hne
              exact (List.mem_erase_of_ne (fun h => hne h.symm)).mpr (hU p hp)
          · simp only [List.length_cons] at hf ⊢
            omega

theorem rangeLoop_spec (size n : Nat) : ∀ l : List Node,
    (rangeLoop size n l = .ok () ↔ ∀ nd ∈ l, nd.var < n ∧ nd.low < size ∧ nd.high < size) ∧
    (rangeLoop size n l).isPanic = false := by
  intro l
  induction l with
  | nil => simp [rangeLoop, Outcome.isPanic]
  | cons nd rest ih =>
    unfold rangeLoop
    by_cases h1 : nd.var ≥ n
    · simp only [h1, if_true]
      exact ⟨⟨fun h => by simp at h, fun h => by have := (h nd (by simp)).1; omega⟩, rfl⟩
    by_cases h2 : nd.low ≥ size
    · simp only [h1, h2, if_true, if_false]
      exact ⟨⟨fun h => by simp at h, fun h => by have := (h nd (by simp)).2.1; omega⟩, rfl⟩
    by_cases h3 : nd.high ≥ size
    · simp only [h1, h2, h3, if_true, if_false]
      exact ⟨⟨fun h => by simp at h, fun h => by have := (h nd (by simp)).2.2; omega⟩, rfl⟩
    simp only [h1, h2, h3, if_false]
    refine ⟨?_, ih.2⟩
    rw [ih.1]
    constructor
    · intro h x hx
      rcases List.mem_cons.mp hx with rfl | hx
      · exact ⟨by omega, by omega, by omega⟩
      · exact h x hx
    · intro h x hx; exact h x (List.mem_cons_of_mem _ hx)


/-- the initial `visited` vector of `validate` -/
def vis0 (A : Arr) : Array Bool := ((Array.replicate A.size false).setIfInBounds 0 true).setIfInBounds 1 true

theorem vis0_size (A : Arr) : (vis0 A).size = A.size := by simp [vis0]

theorem vis0_get (A : Arr) (p : Nat) : (vis0 A)[p]? = if p < A.size then some (decide (p < 2)) else none := by
  unfold vis0
  rw [Array.getElem?_setIfInBounds, Array.getElem?_setIfInBounds]
  by_cases hp : p < A.size
  · by_cases h1 : 1 = p
    · subst h1; simp [hp]
    · by_cases h0 : 0 = p
      · subst h0; simp [hp]
      · have : ¬ p < 2 := by omega
        simp [hp, h1, h0, this]
  · have : ¬ (1 = p ∧ 1 < A.size) := by omega
    by_cases h1 : 1 = p
    · subst h1; simp [hp]
    · by_cases h0 : 0 = p
      · subst h0; simp [hp]
      · simp [hp, h1, h0]

/-- `validate` returned `Ok` on an array with at least three nodes: what the code checked -/
theorem validate_ok_big {A : Arr} (h3 : 3 ≤ A.size) (h : validate A = some (.ok ())) :
    A[0]? = some ⟨numVars A, 0, 0⟩ ∧ A[1]? = some ⟨numVars A, 1, 1⟩ ∧
    (∀ nd ∈ A.toList.drop 2, nd.var < numVars A ∧ nd.low < A.size ∧ nd.high < A.size) ∧
    (∀ p, 2 ≤ p → p < A.size → OrderedAt A p ∧ Reach A (A.size - 1) p) := by
  unfold validate at h
  have hs0 : ¬ A.size = 0 := by omega
  have hs1 : ¬ A.size = 1 := by omega
  have hs2 : ¬ A.size = 2 := by omega
  have hs3 : ¬ A.size < 2 := by omega
  have hnv : numVars A = A[0].var := by simp [numVars, show 0 < A.size by omega]
  simp only [hs0, hs1, hs2, hs3, if_false] at h
  rw [aidx_of_lt (by omega : 0 < A.size), aidx_of_lt (by omega : 1 < A.size)] at h
  simp only at h
  split at h
  · simp at h
  · rename_i hterm
    simp only [Bool.or_eq_true, bne_iff_ne, ne_eq, not_or, Decidable.not_not] at hterm
    obtain ⟨ht0, ht1⟩ := hterm
    obtain ⟨hr1, _⟩ := rangeLoop_spec A.size A[0].var (A.toList.drop 2)
    cases hrange : rangeLoop A.size A[0].var (A.toList.drop 2) with
    | panic m => simp [hrange] at h
    | err m => simp [hrange] at h
    | ok u =>
      simp only [hrange] at h
      have hr := hr1.mp (by rw [hrange])
      cases hd : dfs A (dfsFuel A) [A.size - 1] (vis0 A) with
      | none => simp only [vis0] at hd; simp [hd] at h
      | some o =>
        cases o with
        | panic m => simp only [vis0] at hd; simp [hd] at h
        | err m => simp only [vis0] at hd; simp [hd] at h
        | ok vis' =>
          have hd' := hd
          simp only [vis0] at hd
          simp only [hd] at h
          split at h
          · rename_i hall
            obtain ⟨i1, _, i3⟩ := dfs_ok A _ _ _ _ hd'
            rw [vis0_size] at i1
            refine ⟨?_, ?_, ?_, ?_⟩
            · rw [hnv, ← ht0]; simp [show 0 < A.size by omega]
            · rw [hnv, ← ht1]; simp [show 1 < A.size by omega]
            · rw [hnv]; exact hr
            · intro p hp2 hps
              rw [Array.all_eq_true] at hall
              have hv : vis'[p]? = some true := by
                have := hall p (by omega)
                simp only [id] at this
                simp [show p < vis'.size by omega, this]
              rcases i3 p hv with h' | ⟨ho, s, hs, hreach⟩
              · rw [vis0_get] at h'
                simp [hps, show ¬ p < 2 by omega] at h'
              · simp only [List.mem_singleton] at hs
                subst hs
                exact ⟨ho, hreach⟩
          · simp at h

theorem wfo_of_validate_big {A : Arr} (h3 : 3 ≤ A.size) (h : validate A = some (.ok ())) :
    WFo A (numVars A) ∧ AllReachable A := by
  obtain ⟨h0, h1, hr, hord⟩ := validate_ok_big h3 h
  refine ⟨⟨h0, fun _ => h1, ?_⟩, fun p hp hps => (hord p hp hps).2⟩
  intro p nd hp hpn
  have hps : p < A.size := by
    rcases Nat.lt_or_ge p A.size with h' | h'
    · exact h'
    · rw [Array.getElem?_eq_none h'] at hpn; simp at hpn
  obtain ⟨c1, c2, c3⟩ := hr nd (mem_drop_two.mpr ⟨p, hp, hpn⟩)
  obtain ⟨⟨nd', lc, hc, e1, e2, e3, o1, o2⟩, _⟩ := hord p hp hps
  rw [hpn] at e1
  simp only [Option.some.injEq] at e1
  subst e1
  refine ⟨c1, c2, c3, ?_, ?_⟩
  · unfold varOf; split
    · exact c1
    · rw [e2]; exact o1
  · unfold varOf; split
    · exact c1
    · rw [e3]; exact o2

/-- `validate() == Ok(())` implies well-formedness by level and reachability of every decision node -/
theorem wfo_of_validate {A : Arr} (h : validate A = some (.ok ())) : WFo A (numVars A) ∧ AllReachable A := by
  rcases Nat.lt_or_ge A.size 3 with hlt | hge
  · unfold validate at h
    by_cases hs0 : A.size = 0
    · simp [hs0] at h
    simp only [hs0, if_false] at h
    have hnv : numVars A = A[0].var := by simp [numVars, show 0 < A.size by omega]
    rw [aidx_of_lt (by omega : 0 < A.size)] at h
    simp only at h
    have hreach : AllReachable A := fun p hp hps => by omega
    by_cases hs1 : A.size = 1
    · simp only [hs1, if_true] at h
      split at h
      · simp at h
      · rename_i hne
        simp only [bne_iff_ne, ne_eq, Decidable.not_not] at hne
        refine ⟨⟨?_, fun h2 => by omega, ?_⟩, hreach⟩
        · rw [hnv]; conv => lhs; rw [hne]
          simp
        · intro p nd hp hpn
          rw [Array.getElem?_eq_none (by omega)] at hpn; simp at hpn
    · have hs2 : A.size = 2 := by omega
      simp only [hs1, if_false] at h
      simp only [hs2, if_true] at h
      split at h
      · simp at h
      · rename_i hne
        simp only [bne_iff_ne, ne_eq, Decidable.not_not] at hne
        refine ⟨⟨?_, fun _ => ?_, ?_⟩, hreach⟩
        · rw [hnv]; conv => lhs; rw [hne]
          simp
        · rw [hnv]; conv => lhs; rw [hne]
          simp
        · intro p nd hp hpn
          rw [Array.getElem?_eq_none (by omega)] at hpn; simp at hpn
  · exact wfo_of_validate_big hge h

/-- `validate` always terminates within its fuel and never panics -/
theorem validate_total (A : Arr) : ∃ o, validate A = some o ∧ o.isPanic = false := by
  unfold validate
  by_cases hs0 : A.size = 0
  · simp only [hs0, if_true]; exact ⟨_, rfl, rfl⟩
  simp only [hs0, if_false]
  rw [aidx_of_lt (by omega : 0 < A.size)]
  simp only
  by_cases hs1 : A.size = 1
  · simp only [hs1, if_true]; split <;> exact ⟨_, rfl, rfl⟩
  by_cases hs2 : A.size = 2
  · simp only [hs1, if_false]; simp only [hs2, if_true]; split <;> exact ⟨_, rfl, rfl⟩
  simp only [hs1, hs2, if_false]
  rw [aidx_of_lt (by omega : 1 < A.size)]
  simp only
  split
  · exact ⟨_, rfl, rfl⟩
  · obtain ⟨hr1, hr2⟩ := rangeLoop_spec A.size A[0].var (A.toList.drop 2)
    cases hrange : rangeLoop A.size A[0].var (A.toList.drop 2) with
    | panic m => rw [hrange] at hr2; simp [Outcome.isPanic] at hr2
    | err m => exact ⟨_, rfl, rfl⟩
    | ok u =>
      simp only
      have hr := hr1.mp (by rw [hrange])
      have hs3 : ¬ A.size < 2 := by omega
      simp only [hs3, if_false]
      have hlinks : ∀ p nd, 2 ≤ p → A[p]? = some nd → nd.low < A.size ∧ nd.high < A.size := by
        intro p nd hp hpn
        exact (hr nd (mem_drop_two.mpr ⟨p, hp, hpn⟩)).2
      obtain ⟨o, ho, hop⟩ := dfs_total A hlinks (dfsFuel A) [A.size - 1] (vis0 A) (List.range' 2 (A.size - 2))
        (vis0_size A) (by intro s hs; simp at hs; omega)
        (by rw [vis0_get]; simp [show 0 < A.size by omega]) (by rw [vis0_get]; simp [show 1 < A.size by omega])
        (by
          intro p hp
          rw [vis0_get] at hp
          split at hp
          · simp only [Option.some.injEq, decide_eq_false_iff_not] at hp
            rw [List.mem_range']; exact ⟨p - 2, by omega, by omega⟩
          · simp at hp)
        (by simp [dfsFuel]; omega)
      simp only [vis0] at ho
      rw [ho]
      cases o with
      | panic m => simp [Outcome.isPanic] at hop
      | err m => exact ⟨_, rfl, rfl⟩
      | ok vis' => simp only; split <;> exact ⟨_, rfl, rfl⟩

/-! ### `eval_in` -/

theorem evalLoop_spec {A : Arr} {n : Nat} (h : WFo A n) (val : Array Bool) (hval : n ≤ val.size) :
    ∀ fuel p, p < A.size → n - varOf A n p < fuel →
      evalLoop A val fuel p = some (.ok (evalF A (fun i => val.getD i false) fuel p)) := by
  intro fuel
  induction fuel with
  | zero => intro p _ hf; omega
  | succ fuel ih =>
    intro p hp hf
    match p, hp with
    | 0, _ => simp [evalLoop, evalF_zero]
    | 1, _ => simp [evalLoop, evalF_one]
    | q + 2, hp =>
      have hnd : A[q + 2]? = some A[q + 2] := by simp [hp]
      obtain ⟨hv, hl, hh, hvl, hvh⟩ := h.inner (q + 2) A[q + 2] (by omega) hnd
      have hvar : varOf A n (q + 2) = A[q + 2].var := varOf_node (q + 2) _ (by omega) hnd
      simp only [evalLoop]
      rw [aidx_of_lt hp]
      simp only
      rw [aidx_of_lt (by omega : A[q + 2].var < val.size)]
      simp only
      rw [evalF_succ A _ fuel (q + 2) (by omega) _ hnd]
      have hb : val.getD A[q + 2].var false = val[A[q + 2].var]'(by omega) := by
        simp [Array.getD, show A[q + 2].var < val.size by omega]
      rw [hb]
      cases hbv : val[A[q + 2].var]'(by omega) with
      | true => simp only [if_true]; exact ih _ hh (by omega)
      | false => simp only [Bool.false_eq_true, if_false]; exact ih _ hl (by omega)

end B.Serial
