import BddVerif.Lemmas.AlgoEqRealignLoop
import BddVerif.Gen.Algo
import BddVerif.Lemmas.NestedRealign
/-!
`fix_bdd_alignment`: the function GENERATED from the Rust text (`B.Gen.Algo.fix_bdd_alignment`, explicit DFS stack,
`pointer_map` vector, fuel-bounded loop) computes the hand-written recursive model `B.realign`.

* `fix_desugar`: the generated `do` block is `loopN (rStep A) fuel` of a hand-written step function (desugaring only).
* `realign_loop`: simulation — with `p` on top of the stack the loop reaches, after at most
  `3 * (unmapped pointers consumed) + 1` iterations, the state in which `p` is popped and the rest of the state is the
  recursive model's result on `p`.
* `fix_bdd_alignment_eq_model`: the equivalence for `Red` arrays with at most `2^32` nodes, fuel `≥ 3 * A.size`.
-/
namespace B.AlgoEq
open B B.Gen Std
attribute [local instance 10000] Rust.monadOutcomeInline

abbrev RS := Arr × Array (Option Nat) × Array Nat

/-- one iteration of the loop of `fix_bdd_alignment` (L196-L228), written by hand -/
def rStep (A : Arr) (σ : RS) : Outcome (ForInStep RS) :=
  match σ.2.2.back? with
  | none => .ok (.done σ)
  | some top =>
    Outcome.bind (Rust.idx σ.2.1 top) fun m =>
    if m.isSome then .ok (.yield (σ.1, σ.2.1, σ.2.2.pop))
    else
      Outcome.bind (Rust.idx A top) fun nd =>
      Outcome.bind (Rust.idx σ.2.1 nd.low) fun nl =>
      Outcome.bind (Rust.idx σ.2.1 nd.high) fun nh =>
      match nl, nh with
      | some l, some h =>
        Outcome.bind (Rust.setIdx σ.2.1 top (some (Rust.asU32 σ.1.size))) fun pm' =>
        .ok (.yield (σ.1.push ⟨nd.var, l, h⟩, pm', σ.2.2.pop))
      | _, _ =>
        let st1 := if nl.isNone then σ.2.2.push nd.low else σ.2.2
        let st2 := if nh.isNone then st1.push nd.high else st1
        .ok (.yield (σ.1, σ.2.1, st2))

theorem fix_desugar (fuel : Nat) (A : Arr) (r : Nat) :
    Algo.fix_bdd_alignment fuel A r =
      if r = 0 then (Algo.Bdd_num_vars A).bind fun n => .ok (mkFalse n)
      else if r = 1 then (Algo.Bdd_num_vars A).bind fun n => .ok (mkTrue n)
      else (Algo.Bdd_num_vars A).bind fun n =>
        (Rust.setIdx (Array.replicate A.size (none : Option Nat)) 0 (some 0)).bind fun pm0 =>
        (Rust.setIdx pm0 1 (some 1)).bind fun pm1 =>
        (loopN (rStep A) fuel (mkTrue n, pm1, #[r])).bind fun σ =>
        match σ.2.2.back? with
        | some _ => .panic "fuel"
        | none => .ok σ.1 := by
  unfold Algo.fix_bdd_alignment
  by_cases h0 : r = 0
  · subst h0; rfl
  by_cases h1 : r = 1
  · subst h1; rfl
  have e0 : Algo.BddPointer_is_zero r = false := by simp [Algo.BddPointer_is_zero, h0]
  have e1 : Algo.BddPointer_is_one r = false := by simp [Algo.BddPointer_is_one, h1]
  simp only [e0, e1, h0, h1, if_false, Bool.false_eq_true]
  cases hn : Algo.Bdd_num_vars A with
  | err m => rfl
  | panic m => rfl
  | ok n =>
    simp only [bind_ok, Rust.vecRepeat, Algo.BddPointer_zero, Algo.BddPointer_one]
    cases hp0 : Rust.setIdx (Array.replicate A.size (none : Option Nat)) 0 (some 0) with
    | err m => rfl
    | panic m => rfl
    | ok pm0 =>
      simp only [bind_ok, Outcome.bind]
      cases hp1 : Rust.setIdx pm0 1 (some 1) with
      | err m => rfl
      | panic m => rfl
      | ok pm1 =>
        simp only [bind_ok]
        rw [forIn_range_eq_loopN _ _ _ (rStep A)]
        · have ei : (Algo.Bdd_mk_true n, pm1, (Rust.vecWithCapacity n).push r) = (mkTrue n, pm1, #[r]) := by
            rfl
          rw [ei]
          cases loopN (rStep A) fuel (mkTrue n, pm1, #[r]) with
          | err m => rfl
          | panic m => rfl
          | ok σ =>
            simp only [bind_ok]
            cases σ.2.2.back? <;> rfl
        · intro i σ
          obtain ⟨out, pm, st⟩ := σ
          unfold rStep
          simp only []
          cases hb : st.back? with
          | none => rfl
          | some top =>
            simp only [Algo.BddPointer_to_index, Algo.Bdd_low_link_of, Algo.Bdd_high_link_of, Algo.Bdd_var_of]
            cases h1 : Rust.idx pm top with
            | err m => rfl
            | panic m => rfl
            | ok m =>
              simp only [bind_ok, Outcome.bind]
              by_cases hm : m.isSome = true
              · simp only [hm, if_true]; rfl
              simp only [hm]
              cases h2 : Rust.idx A top with
              | err m => rfl
              | panic m => rfl
              | ok nd =>
                simp only [bind_ok, pure_eq]
                cases h3 : Rust.idx pm nd.low with
                | err m => rfl
                | panic m => rfl
                | ok nl =>
                  simp only [bind_ok]
                  cases h4 : Rust.idx pm nd.high with
                  | err m => rfl
                  | panic m => rfl
                  | ok nh =>
                    simp only [bind_ok]
                    have hrp : ∀ nd', Algo.Bdd_root_pointer (Algo.Bdd_push_node out nd') = .ok (Rust.asU32 out.size) := by
                      intro nd'
                      simp [Algo.Bdd_root_pointer, Algo.Bdd_push_node, Rust.sub, Algo.BddPointer_from_index, pure_eq, bind_ok]
                    cases nl <;> cases nh <;> simp only [hrp, bind_ok, Option.isNone_none, Option.isNone_some, if_true, if_false, Bool.false_eq_true] <;> rfl

/-- number of pointers without a translation -/
def cntN (pm : Array (Option Nat)) : Nat := pm.countP (·.isNone)

theorem cntN_set (pm : Array (Option Nat)) (p : Nat) (h : p < pm.size) (hp : pm[p] = none) (x : Nat) :
    cntN (pm.set p (some x)) + 1 = cntN pm := by
  unfold cntN
  rw [Array.countP_set]
  have hpos : 0 < Array.countP (·.isNone) pm := by
    rw [Array.countP_pos_iff]
    exact ⟨pm[p], Array.getElem_mem h, by simp [hp]⟩
  simp [hp]
  omega

/-- the `pointer_map` vector of the loop against the hash map of the model -/
structure PMRel (A : Arr) (pm : Array (Option Nat)) (s : RSt) : Prop where
  size : pm.size = A.size
  get : ∀ (p : Nat) (h : p < pm.size), s.map[p]? = pm[p]
  bal : s.out.size + cntN pm = A.size

theorem rStep_mapped (A : Arr) (out : Arr) (pm : Array (Option Nat)) (rest : Array Nat) (p q : Nat)
    (hp : p < pm.size) (hq : pm[p] = some q) :
    rStep A (out, pm, rest.push p) = .ok (.yield (out, pm, rest)) := by
  unfold rStep
  simp [idx_eq _ _ hp, hq, Outcome.bind]

theorem rStep_build (A : Arr) (out : Arr) (pm : Array (Option Nat)) (rest : Array Nat) (p l h : Nat)
    (hp : p < pm.size) (hq : pm[p] = none) (hpA : p < A.size)
    (hl : A[p].low < pm.size) (hh : A[p].high < pm.size) (hlm : pm[A[p].low] = some l) (hhm : pm[A[p].high] = some h) :
    rStep A (out, pm, rest.push p) =
      .ok (.yield (out.push ⟨A[p].var, l, h⟩, pm.set p (some (Rust.asU32 out.size)), rest)) := by
  unfold rStep
  simp [idx_eq _ _ hp, hq, Outcome.bind, idx_eq _ _ hpA, idx_eq _ _ hl, idx_eq _ _ hh, hlm, hhm, setIdx_eq _ _ _ hp]

theorem rStep_push (A : Arr) (out : Arr) (pm : Array (Option Nat)) (rest : Array Nat) (p : Nat)
    (hp : p < pm.size) (hq : pm[p] = none) (hpA : p < A.size)
    (hl : A[p].low < pm.size) (hh : A[p].high < pm.size) (hne : pm[A[p].low] = none ∨ pm[A[p].high] = none) :
    rStep A (out, pm, rest.push p) =
      .ok (.yield (out, pm,
        if pm[A[p].high].isNone then (if pm[A[p].low].isNone then (rest.push p).push A[p].low else rest.push p).push A[p].high
        else (if pm[A[p].low].isNone then (rest.push p).push A[p].low else rest.push p))) := by
  unfold rStep
  simp only [Array.back?_push, idx_eq _ _ hp, hq, Outcome.bind, idx_eq _ _ hpA, idx_eq _ _ hl, idx_eq _ _ hh]
  rcases hne with h | h
  · simp [h]
  · simp [h]


theorem realignRec_mapped (A : Arr) : ∀ (f p : Nat) (s : RSt) (q : Nat), s.map[p]? = some q → realignRec A f p s = s
  | 0, _, _, _, _ => rfl
  | f + 1, p, s, q, h => by
    show realignStep A (realignRec A f) p s = s
    unfold realignStep
    simp [h]

/-- the simulation statement at model fuel `f` -/
def RLoop (A : Arr) (n f : Nat) : Prop :=
  ∀ k, n - k < f → ∀ (p : Nat) (s : RSt) (pm : Array (Option Nat)), RInv A n s → PMRel A pm s → p < A.size →
    k ≤ varOf A n p →
    ∃ (t : Nat) (pm' : Array (Option Nat)), PMRel A pm' (realignRec A f p s) ∧ t + 3 * cntN pm' ≤ 3 * cntN pm + 1 ∧
      ∀ (e : Nat) (rest : Array Nat), loopN (rStep A) (t + e) (s.out, pm, rest.push p) =
        loopN (rStep A) e ((realignRec A f p s).out, pm', rest)

theorem sub_call {A : Arr} {n f : Nat} (h : RLoop A n f) (k : Nat) (hk : n - k < f) (q : Nat) (s : RSt)
    (pm : Array (Option Nat)) (hs : RInv A n s) (hrel : PMRel A pm s) (hq : q < A.size) (hlev : k ≤ varOf A n q)
    (pushed : Bool) (hm : pushed = false → ∃ x : Nat, s.map[q]? = some x) :
    ∃ (t : Nat) (pm' : Array (Option Nat)), PMRel A pm' (realignRec A f q s) ∧
      t + 3 * cntN pm' ≤ 3 * cntN pm + (if pushed then 1 else 0) ∧
      ∀ (e : Nat) (stack : Array Nat),
        loopN (rStep A) (t + e) (s.out, pm, if pushed then stack.push q else stack) =
          loopN (rStep A) e ((realignRec A f q s).out, pm', stack) := by
  cases pushed with
  | true =>
    obtain ⟨t, pm', h1, h2, h3⟩ := h k hk q s pm hs hrel hq hlev
    exact ⟨t, pm', h1, by simpa using h2, fun e stack => by simpa using h3 e stack⟩
  | false =>
    obtain ⟨x, hx⟩ := hm rfl
    rw [realignRec_mapped A f q s x hx]
    exact ⟨0, pm, hrel, by simp, fun e stack => by simp⟩


theorem asU32_of_lt (x : Nat) (h : x < 4294967296) : Rust.asU32 x = x := Nat.mod_eq_of_lt h

theorem rloop_succ {A : Arr} {n : Nat} (hA : Red A n) (h32 : A.size ≤ 4294967296) (f : Nat) (ih : RLoop A n f) :
    RLoop A n (f + 1) := by
  intro k hk p s pm hs hrel hp hlev
  have hkn : k ≤ n := by have := varOf_le hA p; omega
  have hpm : p < pm.size := by rw [hrel.size]; exact hp
  show ∃ (t : Nat) (pm' : Array (Option Nat)), PMRel A pm' (realignStep A (realignRec A f) p s) ∧ _ ∧
    ∀ (e : Nat) (rest : Array Nat), _ = loopN (rStep A) e ((realignStep A (realignRec A f) p s).out, pm', rest)
  unfold realignStep
  cases hm : s.map[p]? with
  | some q =>
    simp only
    have hq : pm[p] = some q := by rw [← hrel.get p hpm]; exact hm
    refine ⟨1, pm, hrel, by omega, fun e rest => ?_⟩
    rw [Nat.add_comm, loopN_yield (rStep_mapped A s.out pm rest p q hpm hq)]
  | none =>
    simp only
    have hq : pm[p] = none := by rw [← hrel.get p hpm]; exact hm
    have hp2 : 2 ≤ p := by
      rcases Nat.lt_or_ge p 2 with h2 | h2
      · have : p = 0 ∨ p = 1 := by omega
        rcases this with rfl | rfl
        · rw [hs.t0] at hm; cases hm
        · rw [hs.t1] at hm; cases hm
      · exact h2
    have hnd : A[p]? = some A[p] := by simp [hp]
    have hna : nodeAt A p = A[p] := by simp [nodeAt, hnd]
    rw [hna]
    obtain ⟨hdn, hl, hh, hne, hvl, hvh⟩ := hA.inner p A[p] hp2 hnd
    have hvar : varOf A n p = A[p].var := varOf_node p _ hp2 hnd
    have hlA : A[p].low < A.size := by omega
    have hhA : A[p].high < A.size := by omega
    have hlpm : A[p].low < pm.size := by rw [hrel.size]; exact hlA
    have hhpm : A[p].high < pm.size := by rw [hrel.size]; exact hhA
    have hkf : n - (A[p].var + 1) < f := by omega
    -- the model's two recursive calls
    have O1 := realignRec_spec hA f (A[p].var + 1) hkf A[p].high s hs hhA (by omega)
    have O2 := realignRec_spec hA f (A[p].var + 1) hkf A[p].low _ O1.inv hlA (by omega)
    -- the loop's two sub-runs (each child is on the stack iff it had no translation at the first visit)
    obtain ⟨t1, pm1, r1, c1, l1⟩ := sub_call ih (A[p].var + 1) hkf A[p].high s pm hs hrel hhA (by omega)
      (pm[A[p].high].isNone) (by
        intro hf
        cases hx : pm[A[p].high] with
        | none => rw [hx] at hf; cases hf
        | some x => exact ⟨x, by rw [hrel.get _ hhpm]; exact hx⟩)
    obtain ⟨t2, pm2, r2, c2, l2⟩ := sub_call ih (A[p].var + 1) hkf A[p].low _ pm1 O1.inv r1 hlA (by omega)
      (pm[A[p].low].isNone) (by
        intro hf
        cases hx : pm[A[p].low] with
        | none => rw [hx] at hf; cases hf
        | some x => exact ⟨x, O1.mono _ _ (by rw [hrel.get _ hlpm]; exact hx)⟩)
    generalize realignRec A f A[p].high s = s1 at O1 O2 r1 l1 r2 l2 c2
    generalize realignRec A f A[p].low s1 = s2 at O2 r2 l2
    obtain ⟨q1, hm1, _⟩ := O1.res
    obtain ⟨q2, hm2, _⟩ := O2.res
    have hm1' : s2.map[A[p].high]? = some q1 := O2.mono _ _ hm1
    have hnone2 : s2.map[p]? = none := by
      rw [O2.frame p (by omega), O1.frame p (by omega)]; exact hm
    simp only [hm2, hm1']
    have hpm2 : p < pm2.size := by rw [r2.size]; exact hp
    have hlpm2 : A[p].low < pm2.size := by rw [r2.size]; exact hlA
    have hhpm2 : A[p].high < pm2.size := by rw [r2.size]; exact hhA
    have hq2 : pm2[p] = none := by rw [← r2.get p hpm2]; exact hnone2
    have hql : pm2[A[p].low] = some q2 := by rw [← r2.get _ hlpm2]; exact hm2
    have hqh : pm2[A[p].high] = some q1 := by rw [← r2.get _ hhpm2]; exact hm1'
    have hcnt := cntN_set pm2 p hpm2 hq2 s2.out.size
    have hbal := r2.bal
    have hu32 : Rust.asU32 s2.out.size = s2.out.size := asU32_of_lt _ (by omega)
    have hbuild := fun rest => rStep_build A s2.out pm2 rest p q2 q1 hpm2 hq2 hp hlpm2 hhpm2 hql hqh
    rw [hu32] at hbuild
    -- the relation after the node has been created
    have hrel' : PMRel A (pm2.set p (some s2.out.size))
        { out := s2.out.push ⟨A[p].var, q2, q1⟩, map := s2.map.insert p s2.out.size } := by
      refine ⟨by simp [r2.size], ?_, ?_⟩
      · intro p' hp'
        have hp'' : p' < pm2.size := by simpa using hp'
        simp only [HashMap.getElem?_insert, Array.getElem_set]
        by_cases hpp : p = p'
        · subst hpp; simp
        · simp [hpp, r2.get p' hp'']
      · simp only [Array.size_push]; omega
    by_cases hboth : pm[A[p].low].isNone = false ∧ pm[A[p].high].isNone = false
    · -- both children already translated at the first visit: the node is created at once
      obtain ⟨hbl, hbh⟩ := hboth
      rw [hbh] at l1 c1; rw [hbl] at l2 c2
      refine ⟨t1 + t2 + 1, _, hrel', by simp at c1 c2; omega, fun e rest => ?_⟩
      have e1 := l1 (t2 + 1 + e) (rest.push p)
      have e2 := l2 (1 + e) (rest.push p)
      simp only [Bool.false_eq_true, if_false] at e1 e2
      rw [show t1 + t2 + 1 + e = t1 + (t2 + 1 + e) by omega, e1, show t2 + 1 + e = t2 + (1 + e) by omega, e2,
        Nat.add_comm, loopN_yield (hbuild rest)]
    · -- first visit pushes the missing children, HIGH on top
      have hne' : pm[A[p].low] = none ∨ pm[A[p].high] = none := by
        cases hx : pm[A[p].low] with
        | none => exact Or.inl rfl
        | some x =>
          cases hy : pm[A[p].high] with
          | none => exact Or.inr rfl
          | some y => exact absurd ⟨by simp [hx], by simp [hy]⟩ hboth
      have hpush := fun rest => rStep_push A s.out pm rest p hpm hq hp hlpm hhpm hne'
      refine ⟨1 + t1 + t2 + 1, _, hrel', ?_, fun e rest => ?_⟩
      · have : (if pm[A[p].low].isNone = true then 1 else 0) + (if pm[A[p].high].isNone = true then 1 else 0) ≤ 2 := by
          split <;> split <;> omega
        omega
      have e1 := l1 (t2 + 1 + e) (if pm[A[p].low].isNone = true then (rest.push p).push A[p].low else rest.push p)
      have e2 := l2 (1 + e) (rest.push p)
      rw [show 1 + t1 + t2 + 1 + e = (t1 + t2 + 1 + e) + 1 by omega, loopN_yield (hpush rest)]
      rw [show t1 + t2 + 1 + e = t1 + (t2 + 1 + e) by omega, e1, show t2 + 1 + e = t2 + (1 + e) by omega, e2,
        Nat.add_comm, loopN_yield (hbuild rest)]


theorem rloop_all {A : Arr} {n : Nat} (hA : Red A n) (h32 : A.size ≤ 4294967296) : ∀ f, RLoop A n f
  | 0 => fun k hk => by omega
  | f + 1 => rloop_succ hA h32 f (rloop_all hA h32 f)

theorem pmrel_init {A : Arr} {n : Nat} (hA : Red A n)
    (h0 : 0 < (Array.replicate A.size (none : Option Nat)).size)
    (h1 : 1 < ((Array.replicate A.size (none : Option Nat)).set 0 (some 0) h0).size) :
    PMRel A (((Array.replicate A.size (none : Option Nat)).set 0 (some 0) h0).set 1 (some 1) h1) (realignInit n) := by
  have hs := hA.size2
  refine ⟨by simp, ?_, ?_⟩
  · intro p hp
    simp only [realignInit, HashMap.getElem?_insert, Array.getElem_set, Array.getElem_replicate]
    by_cases h1 : 1 = p
    · subst h1; simp
    · by_cases h0 : 0 = p
      · subst h0; simp
      · simp [h0, h1]
  · have c1 := cntN_set (Array.replicate A.size (none : Option Nat)) 0 h0 (by simp) 0
    have c2 := cntN_set ((Array.replicate A.size (none : Option Nat)).set 0 (some 0) h0) 1 h1
      (by simp [Array.getElem_set]) 1
    have c0 : cntN (Array.replicate A.size (none : Option Nat)) = A.size := by
      simp [cntN, Array.countP_replicate]
    simp only [realignInit, mkTrue_size]
    omega


theorem num_vars_eq (A : Arr) (h : 0 < A.size) : Algo.Bdd_num_vars A = .ok (numVars A) := by
  have : A[0]? = some A[0] := by simp [h]
  simp [Algo.Bdd_num_vars, idx_eq _ _ h, numVars, bind_ok, pure_eq, this]

theorem rStep_empty (A : Arr) (out : Arr) (pm : Array (Option Nat)) :
    rStep A (out, pm, #[]) = .ok (.done (out, pm, #[])) := rfl

/-- **`fix_bdd_alignment` = `realign`**: on a reduced post-order array (any amount of unreachable garbage) with at most
    `2^32` nodes and a root pointer in range, the function generated from the Rust text returns the hand model's array,
    for every fuel `≥ 3 * A.size`. -/
theorem fix_bdd_alignment_eq_model (A : Arr) (n r : Nat) (hA : Red A n) (hn : numVars A = n) (hr : r < A.size)
    (h32 : A.size ≤ 4294967296) (fuel : Nat) (hfuel : 3 * A.size ≤ fuel) :
    Algo.fix_bdd_alignment fuel A r = .ok (realign A r) := by
  have hs := hA.size2
  rw [fix_desugar, num_vars_eq A (by omega), hn]
  unfold realign
  rw [hn]
  by_cases h0 : r = 0
  · simp [h0, Outcome.bind]
  by_cases h1 : r = 1
  · simp [h1, Outcome.bind]
  simp only [h0, h1, if_false]
  have hz : 0 < (Array.replicate A.size (none : Option Nat)).size := by simp; omega
  have ho : 1 < ((Array.replicate A.size (none : Option Nat)).set 0 (some 0) hz).size := by simp; omega
  rw [setIdx_eq _ _ _ hz]
  simp only [Outcome.bind]
  rw [setIdx_eq _ _ _ ho]
  simp only []
  have hrel := pmrel_init (n := n) hA hz ho
  obtain ⟨t, pm', r', c', l'⟩ := rloop_all hA h32 (n + 2) 0 (by omega) r (realignInit n) _ (rinv_init hA) hrel hr
    (Nat.zero_le _)
  have hb := hrel.bal
  simp only [realignInit, mkTrue_size] at hb
  obtain ⟨e, rfl⟩ : ∃ e, fuel = t + e := ⟨fuel - t, by omega⟩
  have := l' e #[]
  simp only [realignInit] at this
  rw [show (#[r] : Array Nat) = (#[] : Array Nat).push r from rfl, this, loopN_fix (rStep_empty A _ _)]
  rfl


/-- chained with `realign_sim` (L5): the generated function returns the canonical array of the root's function -/
theorem fix_bdd_alignment_eq_canon (A : Arr) (n r : Nat) (hA : Red A n) (hn : numVars A = n) (hr : r < A.size)
    (h32 : A.size ≤ 4294967296) (fuel : Nat) (hfuel : 3 * A.size ≤ fuel) :
    Algo.fix_bdd_alignment fuel A r = .ok (canon n (fun v => ev A v r)) := by
  rw [fix_bdd_alignment_eq_model A n r hA hn hr h32 fuel hfuel, realign_sim hA hn r hr]

/-- panic case: an empty node array (`num_vars()` indexes node 0) -/
theorem fix_bdd_alignment_panic_empty (A : Arr) (r fuel : Nat) (hA : A.size = 0) :
    ∃ m, Algo.fix_bdd_alignment fuel A r = .panic m := by
  have : Algo.Bdd_num_vars A = .panic "index out of bounds" := by
    simp [Algo.Bdd_num_vars, Rust.idx, hA]; rfl
  rw [fix_desugar, this]
  refine ⟨"index out of bounds", ?_⟩
  split
  · rfl
  · split <;> rfl

/-- panic case: a non-terminal root pointer outside the array (`pointer_map[top]` is out of bounds) -/
theorem fix_bdd_alignment_panic_root (A : Arr) (r fuel : Nat) (hA : 2 ≤ A.size) (hr : A.size ≤ r) (hf : 0 < fuel) :
    ∃ m, Algo.fix_bdd_alignment fuel A r = .panic m := by
  have h0 : ¬ r = 0 := by omega
  have h1 : ¬ r = 1 := by omega
  have hz : 0 < (Array.replicate A.size (none : Option Nat)).size := by simp; omega
  have ho : 1 < ((Array.replicate A.size (none : Option Nat)).set 0 (some 0) hz).size := by simp; omega
  rw [fix_desugar, num_vars_eq A (by omega)]
  simp only [h0, h1, if_false, Outcome.bind]
  rw [setIdx_eq _ _ _ hz]
  simp only []
  rw [setIdx_eq _ _ _ ho]
  simp only []
  obtain ⟨e, rfl⟩ : ∃ e, fuel = e + 1 := ⟨fuel - 1, by omega⟩
  refine ⟨"index out of bounds", ?_⟩
  have : rStep A (mkTrue (numVars A), ((Array.replicate A.size (none : Option Nat)).set 0 (some 0) hz).set 1 (some 1) ho,
      #[r]) = .panic "index out of bounds" := by
    unfold rStep
    have : ¬ r < A.size := by omega
    simp [Rust.idx, this, Outcome.bind]
  simp only [loopN, this]

end B.AlgoEq
