import BddVerif.Lemmas.AlgoEqIterPath
import BddVerif.Props.C08
/-!
Whole enumerations of the TRANSLATED path iterator: iterating `B.Gen.Algo.BddPathIterator_next` from
`B.Gen.Algo.BddPathIterator_new` yields exactly `paths A (root A)` (chained with `Props.C08.path_iter_eq`).
-/
namespace B.AlgoEqIt
open B B.Gen B.Gen.Algo B.Iter
attribute [local instance 10000] Rust.monadOutcomeInline

/-- lifting of a per-step equality to `collect`: if (on states satisfying the invariant `P`) the step function
    `step` follows the model step `step'` through the representation functions, then so do the collected lists -/
theorem collect_eq_model {σ σ' α α' : Type} (step : σ → Outcome (Option α × σ))
    (step' : σ' → Outcome (Option α' × σ')) (repS : σ' → σ) (repA : α' → α) (P : σ' → Prop)
    (hstep : ∀ s' r, P s' → step' s' = .ok r → step (repS s') = .ok (r.1.map repA, repS r.2) ∧ P r.2) :
    ∀ fuel s' l, P s' → collect step' fuel s' = .ok l → collect step fuel (repS s') = .ok (l.map repA) := by
  intro fuel
  induction fuel with
  | zero => intro s' l _ h; simp [collect] at h
  | succ f ih =>
    intro s' l hP h
    unfold collect at h ⊢
    cases hs : step' s' with
    | err m => simp [hs] at h
    | panic m => simp [hs] at h
    | ok r =>
      obtain ⟨o, s2⟩ := r
      obtain ⟨hg, hP2⟩ := hstep s' _ hP hs
      rw [hg]
      simp only [hs] at h
      cases o with
      | none =>
        simp only [Outcome.ok.injEq] at h
        subst h; rfl
      | some a =>
        simp only [Option.map_some] at h ⊢
        cases hc : collect step' f s2 with
        | err m => simp [hc] at h
        | panic m => simp [hc] at h
        | ok l2 =>
          simp only [hc, Outcome.ok.injEq] at h
          subst h
          rw [ih s2 l2 hP2 hc]
          rfl

/-- a valid path in a reduced array is strictly increasing from the top: it has at most `A.size` entries -/
theorem pathOK_length {A : Arr} {n : Nat} (h : Red A n) : ∀ (rest : List Nat) (c t : Nat),
    PathOK A (c :: t :: rest) → c + rest.length + 1 < A.size := by
  intro rest
  induction rest with
  | nil =>
    intro c t hok
    obtain ⟨⟨nd, hnd, ht2, hlink, _⟩, _⟩ := hok
    obtain ⟨_, hl, hh, _, _, _⟩ := h.inner t nd ht2 hnd
    have hts : t < A.size := by
      rcases Nat.lt_or_ge t A.size with h' | h'
      · exact h'
      · simp [Array.getElem?_eq_none h'] at hnd
    simp
    rcases hlink with e | e <;> omega
  | cons t' rest ih =>
    intro c t hok
    obtain ⟨⟨nd, hnd, ht2, hlink, _⟩, hrest⟩ := hok
    obtain ⟨_, hl, hh, _, _, _⟩ := h.inner t nd ht2 hnd
    have := ih t t' hrest
    simp only [List.length_cons]
    rcases hlink with e | e <;> omega

theorem good_length {A : Arr} {n : Nat} (h : Red A n) (S : List Nat) (hg : Good A S) : S.length ≤ A.size := by
  have h2 := h.size2
  match S, hg with
  | [], _ => simp
  | [_], _ => simp; omega
  | c :: t :: rest, hg =>
    have := pathOK_length h rest c t hg.1
    simp only [List.length_cons]; omega

/-- one call of the translated `next` on a good state of a reduced array follows the model and keeps the state good -/
theorem path_next_step {A : Arr} {n : Nat} (h : Red A n) (fuel : Nat) (hfuel : A.size + 2 ≤ fuel)
    (S : List Nat) (r : Option PV × List Nat) (hg : Good A S) (hr : pathNext A S = .ok r) :
    BddPathIterator_next fuel (A, stkArr S) = .ok (r.1.map List.toArray, (A, stkArr r.2)) ∧ Good A r.2 := by
  refine ⟨path_next_eq_model A S r hr fuel (by have := good_length h S hg; omega) hfuel, ?_⟩
  rcases hg.2 with rfl | ⟨t, rfl⟩
  · simp [pathNext] at hr
    subst hr; exact hg
  · obtain ⟨S', hn, hg', _⟩ := pathNext_spec h t hg
    rw [hn] at hr
    simp only [Outcome.ok.injEq] at hr
    subst hr; exact hg'

/-- **The translated path iterator enumerates exactly `paths`.** For a reduced array `A` over `n` variables with at
    most `2^32` nodes, every `fuel ≥ A.size + 2` (for the internal loops of `new`/`next`) and every bound
    `k > number of paths` on the number of calls of `next`: the translated `BddPathIterator::new` succeeds, and
    collecting the translated `BddPathIterator::next` from that state yields exactly the clauses
    `paths A (root A) []` (as arrays), in order, without panic; seen over the `n` variables these are `pathsOf A`
    (by `Props.C08.paths_partition_root`: pairwise disjoint, covering exactly the satisfying valuations). -/
theorem path_iter_translated {A : Arr} {n : Nat} (h : Red A n) (hn : numVars A = n) (h32 : A.size ≤ 4294967296)
    (fuel : Nat) (hfuel : A.size + 2 ≤ fuel) (k : Nat) (hk : (pathsOf A).length < k) :
    ∃ st, BddPathIterator_new fuel A = .ok st ∧
      collect (BddPathIterator_next fuel) k st = .ok ((paths A (root A) []).map List.toArray) ∧
      (paths A (root A) []).map (pvNorm n) = pathsOf A := by
  obtain ⟨hlist, hnorm, _, _⟩ := Props.C08.path_iter_eq h hn k hk
  obtain ⟨S, hS, hg, _⟩ := pathInit_spec h
  unfold pathList at hlist
  rw [hS] at hlist
  simp only [] at hlist
  refine ⟨(A, stkArr S), path_new_eq_model A h32 S hS fuel hfuel, ?_, hnorm⟩
  exact collect_eq_model (BddPathIterator_next fuel) (pathNext A) (fun S => (A, stkArr S)) List.toArray (Good A)
    (fun s' r hP hr => path_next_step h fuel hfuel s' r hP hr) k S _ hg hlist

/-- after the last clause the translated iterator answers `None` and stays put (any fuel) -/
theorem path_next_exhausted (A : Arr) (fuel : Nat) :
    BddPathIterator_next fuel (A, #[]) = .ok (none, (A, #[])) := by
  rw [path_next_desugar]; rfl

/-- the constant false (one-node array): `new` gives the empty stack, nothing is enumerated -/
theorem path_iter_translated_false (A : Arr) (h1 : A.size = 1) (fuel k : Nat) :
    BddPathIterator_new fuel A = .ok (A, #[]) ∧
      collect (BddPathIterator_next fuel) (k + 1) (A, #[]) = .ok [] := by
  constructor
  · unfold BddPathIterator_new Bdd_is_false
    simp [h1]
  · unfold collect
    rw [path_next_exhausted]

/-! ## Non-vacuity: `exA` of `Props/C08.lean` (`(x0 ∧ ¬x2) ∨ (¬x0 ∧ x1)`, 5 nodes, 4 variables, 2 paths) -/

open B.Props.C08

/-- the GENERATED functions, run by the kernel (through the desugaring lemmas: `Std.Legacy.Range` loops do not
    reduce by themselves) -/
example : continue_path 3 exA #[4] = .ok #[4, 3, 1] := by rw [continue_path_desugar]; rfl
example : ∃ m, continue_path 2 exA #[4] = .panic m := by rw [continue_path_desugar]; exact ⟨_, rfl⟩
example : make_clause exA #[4, 3, 1] = .ok #[some false, some true] := by rw [make_clause_desugar]; rfl
/-- … and through the theorems, `rfl` on the model side -/
example : BddPathIterator_new 7 exA = .ok (exA, #[4, 3, 1]) :=
  path_new_eq_model exA (by decide) [1, 3, 4] rfl 7 (by decide)
example : BddPathIterator_next 7 (exA, #[4, 3, 1]) = .ok (some #[some false, some true], (exA, #[4, 2, 1])) :=
  path_next_eq_model exA [1, 3, 4] (some [some false, some true], [1, 2, 4]) rfl 7 (by decide) (by decide)
example : BddPathIterator_next 7 (exA, #[4, 2, 1]) = .ok (some #[some true, none, some false], (exA, #[])) :=
  path_next_eq_model exA [1, 2, 4] (some [some true, none, some false], []) rfl 7 (by decide) (by decide)
/-- the hypotheses of the main theorem are satisfiable, and its conclusion is the concrete enumeration -/
example : ∃ st, BddPathIterator_new 7 exA = .ok st ∧
    collect (BddPathIterator_next 7) 3 st = .ok [#[some false, some true], #[some true, none, some false]] :=
  let ⟨st, h1, h2, _⟩ := path_iter_translated exA_red rfl (by decide) 7 (by decide) 3 (by decide)
  ⟨st, h1, h2⟩
/-- a redundant test on the stack makes the translated `next` panic like the model (`path_iter_redundant_panics`) -/
example : ∃ m, BddPathIterator_next 9 (#[⟨1, 0, 0⟩, ⟨1, 1, 1⟩, ⟨0, 1, 1⟩], #[2, 1]) = .panic m := by
  rw [path_next_desugar, make_clause_desugar]; exact ⟨_, rfl⟩

end B.AlgoEqIt
