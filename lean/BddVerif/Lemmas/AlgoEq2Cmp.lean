import BddVerif.Gen.Algo2
import BddVerif.Lemmas.AlgoEqUtilCount
import BddVerif.Lemmas.AlgoEqUtilSpec
import BddVerif.Lemmas.AlgoEqLimit
import BddVerif.Props.C18
/-!
# Translated Rust (`Gen/Algo2.lean`) = hand model (`B.Cmp`): the five comparators of `_impl_sort.rs`

* `Bdd_cmp_size`, `Bdd_cmp_structural` — pure, equal to `Cmp.cmpSize` / `Cmp.cmpStructural` on ALL arrays;
* `Bdd_cmp_cardinality`, `Bdd_cmp_cardinality_strict` — through `AlgoEqUtil.Bdd_exact_cardinality_eq_model`
  (`WFo` operands, `len ≤ 2^32`, fuel `≥ 3·len + 1` for both operands);
* `Bdd_cmp_implies` — through `AlgoDL.apply_with_flip_and_limit_spec` (the translated limited apply returns `Some`
  of the unlimited model result iff that has at most `limit` nodes): the two `is_true()` tests of the Rust code are
  `Cmp.impliesB`; fuel `≥ 4·|a|·|b| + 2·n + 8`.
Each with the corollary for the fuel the driver `Drive/Algo2.lean` passes, and with the C18 contracts
(`cmp_structural_linear_order`, `cmp_cardinality_spec`, `cmp_implies_spec`) restated for the generated functions.
-/
namespace B.AlgoEq2Cmp
open B B.Gen B.Cmp B.Count B.AlgoEqUtil

attribute [local instance 10000] Rust.monadOutcomeInline

/-! ### `cmp_size` -/

theorem Bdd_cmp_size_eq_model (a b : Arr) : Algo2.Bdd_cmp_size a b = cmpSize a b := rfl

/-! ### `cmp_structural` -/

def triple (nd : Node) : Nat × Nat × Nat := (nd.var, nd.low, nd.high)

theorem go_eq_cmpNodes : ∀ (xs ys : List Node),
    Rust.cmpArrNat3.go (xs.map triple) (ys.map triple) = cmpNodes xs ys := by
  intro xs
  induction xs with
  | nil => intro ys; cases ys <;> rfl
  | cons x xs ih =>
    intro ys
    cases ys with
    | nil => rfl
    | cons y ys =>
      simp only [List.map_cons, Rust.cmpArrNat3.go, cmpNodes, cmpNode, triple, ih]
      cases compare x.var y.var <;> cases compare x.low y.low <;> cases compare x.high y.high <;> rfl

/-- `cmp_structural`, all arrays -/
theorem Bdd_cmp_structural_eq_model (a b : Arr) : Algo2.Bdd_cmp_structural a b = cmpStructural a b := by
  unfold Algo2.Bdd_cmp_structural Rust.cmpArrNat3 cmpStructural
  simp only [Array.toList_map]
  exact go_eq_cmpNodes a.toList b.toList

/-! ### `cmp_cardinality`, `cmp_cardinality_strict` -/

theorem Bdd_cmp_cardinality_eq_model {a b : Arr} {n m : Nat} (ha : WFo a n) (hb : WFo b m)
    (hsa : a.size ≤ 4294967296) (hsb : b.size ≤ 4294967296) (fuel : Nat)
    (hfa : 3 * a.size + 1 ≤ fuel) (hfb : 3 * b.size + 1 ≤ fuel) :
    Algo2.Bdd_cmp_cardinality fuel a b = cmpCardinality a b := by
  unfold Algo2.Bdd_cmp_cardinality cmpCardinality
  rw [Bdd_exact_cardinality_eq_model ha hsa fuel hfa, Bdd_exact_cardinality_eq_model hb hsb fuel hfb]
  cases exactCardO a <;> cases exactCardO b <;> rfl

theorem Bdd_cmp_cardinality_strict_eq_model {a b : Arr} {n m : Nat} (ha : WFo a n) (hb : WFo b m)
    (hsa : a.size ≤ 4294967296) (hsb : b.size ≤ 4294967296) (fuel : Nat)
    (hfa : 3 * a.size + 1 ≤ fuel) (hfb : 3 * b.size + 1 ≤ fuel) :
    Algo2.Bdd_cmp_cardinality_strict fuel a b = cmpCardinalityStrict a b := by
  unfold Algo2.Bdd_cmp_cardinality_strict cmpCardinalityStrict cmpCardinality
  rw [num_vars_eq a (WFo.size_pos ha), num_vars_eq b (WFo.size_pos hb)]
  simp only [bind_ok]
  by_cases h : numVars a = numVars b
  · simp only [h, beq_self_eq_true, if_true]
    rw [Bdd_exact_cardinality_eq_model ha hsa fuel hfa, Bdd_exact_cardinality_eq_model hb hsb fuel hfb]
    cases exactCardO a <;> cases exactCardO b <;> rfl
  · have : (numVars a == numVars b) = false := by simpa using h
    simp only [this, h, if_false, Bool.false_eq_true]
    rfl

theorem fuel1_sum (a b : Arr) : 3 * a.size + 1 ≤ Drive.Algo.fuel1 a + Drive.Algo.fuel1 b ∧
    3 * b.size + 1 ≤ Drive.Algo.fuel1 a + Drive.Algo.fuel1 b := by
  unfold Drive.Algo.fuel1; omega

theorem Bdd_cmp_cardinality_eq_model_driver {a b : Arr} {n m : Nat} (ha : WFo a n) (hb : WFo b m)
    (hsa : a.size ≤ 4294967296) (hsb : b.size ≤ 4294967296) :
    Algo2.Bdd_cmp_cardinality (Drive.Algo.fuel1 a + Drive.Algo.fuel1 b) a b = cmpCardinality a b :=
  Bdd_cmp_cardinality_eq_model ha hb hsa hsb _ (fuel1_sum a b).1 (fuel1_sum a b).2

theorem Bdd_cmp_cardinality_strict_eq_model_driver {a b : Arr} {n m : Nat} (ha : WFo a n) (hb : WFo b m)
    (hsa : a.size ≤ 4294967296) (hsb : b.size ≤ 4294967296) :
    Algo2.Bdd_cmp_cardinality_strict (Drive.Algo.fuel1 a + Drive.Algo.fuel1 b) a b = cmpCardinalityStrict a b :=
  Bdd_cmp_cardinality_strict_eq_model ha hb hsa hsb _ (fuel1_sum a b).1 (fuel1_sum a b).2

/-! ### `cmp_implies` -/

theorem imp_total : ∀ x y, (Gen.imp_ (some x) (some y)).isSome = true := by decide

/-- one `binary_op_with_limit(2, a, b, imp).unwrap_or_else(mk_false).is_true()` of the translated code -/
theorem implies_test {a b : Arr} {n : Nat} (ha : WFo a n) (hb : WFo b n)
    (hsa : a.size ≤ 4294967296) (hsb : b.size ≤ 4294967296) (fuel : Nat)
    (hf : 4 * (a.size * b.size) + 2 * n + 8 ≤ fuel) :
    ∃ o : Option Arr, Algo.Bdd_binary_op_with_limit fuel 2 a b Gen.imp_ = Outcome.ok o ∧
      ∀ k, Algo.Bdd_is_true (match o with | some v => v | none => Algo.Bdd_mk_false k) = impliesB a b := by
  unfold Algo.Bdd_binary_op_with_limit
  rw [AlgoDL.apply_with_flip_and_limit_spec fuel 2 a b none none none Gen.imp_ n ha hb imp_total rfl rfl rfl hsa hsb
    (Or.inl (by unfold AlgoDL.u32Range; omega)) hf]
  refine ⟨_, rfl, ?_⟩
  intro k
  unfold impliesB Algo.Bdd_is_true
  have hpos := Lim.applyWithFlip_size_pos a b Gen.imp_ none none none
  by_cases h : (applyWithFlip a b Gen.imp_ none none none).size ≤ 2
  · simp only [h, if_true]
  · simp only [h, if_false]
    have : ((applyWithFlip a b Gen.imp_ none none none).size == 2) = false := by
      simp only [beq_eq_false_iff_ne, ne_eq]; omega
    rw [this]; rfl

theorem chain (x y : Bool) :
    (if (x && y) = true then Outcome.ok (some Ordering.eq)
      else if x = true then Outcome.ok (some Ordering.lt)
      else if y = true then Outcome.ok (some Ordering.gt) else Outcome.ok none) =
    Outcome.ok (if (x && y) = true then some Ordering.eq
      else if x = true then some Ordering.lt else if y = true then some Ordering.gt else none) := by
  cases x <;> cases y <;> rfl

/-- **cmp_implies, translated code = hand model**: `WFo` operands over ANY two variable counts (`None` when they
    differ), `len ≤ 2^32`, fuel `≥ 4·|a|·|b| + 2·n + 8` -/
theorem Bdd_cmp_implies_eq_model {a b : Arr} {n m : Nat} (ha : WFo a n) (hb : WFo b m)
    (hsa : a.size ≤ 4294967296) (hsb : b.size ≤ 4294967296) (fuel : Nat)
    (hf : 4 * (a.size * b.size) + 2 * n + 8 ≤ fuel) :
    Algo2.Bdd_cmp_implies fuel a b = .ok (Cmp.cmpImplies a b) := by
  unfold Algo2.Bdd_cmp_implies Cmp.cmpImplies
  rw [num_vars_eq a (WFo.size_pos ha), num_vars_eq b (WFo.size_pos hb), numVars_of_wf ha, numVars_of_wf hb]
  simp only [bind_ok]
  by_cases h : n = m
  · subst h
    simp only [beq_self_eq_true, if_true]
    obtain ⟨o1, e1, t1⟩ := implies_test ha hb hsa hsb fuel hf
    obtain ⟨o2, e2, t2⟩ := implies_test hb ha hsb hsa fuel (by rw [Nat.mul_comm b.size]; exact hf)
    rw [e1, e2]
    have t1 := t1 n
    have t2 := t2 n
    cases o1 <;> cases o2 <;> simp only [bind_ok, pure_eq] at t1 t2 ⊢ <;> rw [← t1, ← t2] <;>
      exact chain _ _
  · have : (n == m) = false := by simpa using h
    simp only [this, h, if_false, Bool.false_eq_true]
    rfl

theorem Bdd_cmp_implies_eq_model_driver {a b : Arr} {n m : Nat} (ha : WFo a n) (hb : WFo b m)
    (hsa : a.size ≤ 4294967296) (hsb : b.size ≤ 4294967296) :
    Algo2.Bdd_cmp_implies (Drive.Algo.fuel2 a b) a b = .ok (Cmp.cmpImplies a b) :=
  Bdd_cmp_implies_eq_model ha hb hsa hsb _ (by unfold Drive.Algo.fuel2; rw [numVars_of_wf ha]; omega)

/-- the two hand models of `cmp_implies` (C05: `Lim.cmpImplies`, through `applyLimit`; C18: `Cmp.cmpImplies`, through
    the size of the unlimited result) agree on ALL arrays -/
theorem lim_cmpImplies_eq (a b : Arr) : Lim.cmpImplies a b = Cmp.cmpImplies a b := by
  have key : ∀ (x y : Arr) (k : Nat),
      Lim.isTrueB ((Lim.applyLimit 2 x y Gen.imp_ none none none).getD (mkFalse k)) = impliesB x y := by
    intro x y k
    rw [Lim.applyLimit_eq]
    unfold impliesB Lim.isTrueB
    have hpos := Lim.applyWithFlip_size_pos x y Gen.imp_ none none none
    by_cases h : (applyWithFlip x y Gen.imp_ none none none).size ≤ 2
    · simp only [h, if_true, Option.getD_some]
    · simp only [h, if_false, Option.getD_none]
      have : ((applyWithFlip x y Gen.imp_ none none none).size == 2) = false := by
        simp only [beq_eq_false_iff_ne, ne_eq]; omega
      rw [this]; rfl
  unfold Lim.cmpImplies Cmp.cmpImplies
  simp only [key]

theorem Bdd_cmp_implies_eq_lim_model {a b : Arr} {n m : Nat} (ha : WFo a n) (hb : WFo b m)
    (hsa : a.size ≤ 4294967296) (hsb : b.size ≤ 4294967296) (fuel : Nat)
    (hf : 4 * (a.size * b.size) + 2 * n + 8 ≤ fuel) :
    Algo2.Bdd_cmp_implies fuel a b = .ok (Lim.cmpImplies a b) := by
  rw [lim_cmpImplies_eq]; exact Bdd_cmp_implies_eq_model ha hb hsa hsb fuel hf

/-- the entry `self.0[0]` of `num_vars()` on an empty vector (not a `Bdd` value): the translated comparators panic -/
theorem Bdd_cmp_implies_panics_empty (fuel : Nat) (a b : Arr) (h : a.size = 0) :
    ∃ msg, Algo2.Bdd_cmp_implies fuel a b = .panic msg := by
  unfold Algo2.Bdd_cmp_implies
  rw [num_vars_empty a h]
  exact ⟨_, rfl⟩

/-! ## the C18 contracts, stated about the translated code -/

/-- `cmp_structural` (translated) is a linear order on node vectors whose `Equal` is `==` -/
theorem cmp_structural_linear_order :
    (∀ a b, Algo2.Bdd_cmp_structural a b = .eq ↔ a = b) ∧
    (∀ a b, Algo2.Bdd_cmp_structural b a = (Algo2.Bdd_cmp_structural a b).swap) ∧
    (∀ a b c, Algo2.Bdd_cmp_structural a b = .lt → Algo2.Bdd_cmp_structural b c = .lt →
      Algo2.Bdd_cmp_structural a c = .lt) := by
  simp only [Bdd_cmp_structural_eq_model]
  exact Props.C18.cmp_structural_linear_order

theorem cmp_structural_le :
    (∀ a, Algo2.Bdd_cmp_structural a a ≠ .gt) ∧
    (∀ a b c, Algo2.Bdd_cmp_structural a b ≠ .gt → Algo2.Bdd_cmp_structural b c ≠ .gt →
      Algo2.Bdd_cmp_structural a c ≠ .gt) ∧
    (∀ a b, Algo2.Bdd_cmp_structural a b ≠ .gt → Algo2.Bdd_cmp_structural b a ≠ .gt → a = b) ∧
    (∀ a b, Algo2.Bdd_cmp_structural a b ≠ .gt ∨ Algo2.Bdd_cmp_structural b a ≠ .gt) := by
  simp only [Bdd_cmp_structural_eq_model]
  exact Props.C18.cmp_structural_le

theorem cmp_size_spec (a b : Arr) : Algo2.Bdd_cmp_size a b = compare a.size b.size := rfl

/-- the translated `cmp_cardinality` orders by the exact model count, without panic -/
theorem cmp_cardinality_spec {a b : Arr} {n m : Nat} (ha : WFo a n) (hb : WFo b m)
    (hsa : a.size ≤ 4294967296) (hsb : b.size ≤ 4294967296) (fuel : Nat)
    (hfa : 3 * a.size + 1 ≤ fuel) (hfb : 3 * b.size + 1 ≤ fuel) :
    Algo2.Bdd_cmp_cardinality fuel a b =
      .ok (compare (cnt n (fun v => evW a n v (root a))) (cnt m (fun v => evW b m v (root b)))) := by
  rw [Bdd_cmp_cardinality_eq_model ha hb hsa hsb fuel hfa hfb, Props.C18.cmp_cardinality_spec ha hb]

theorem cmp_cardinality_strict_spec {a b : Arr} {n m : Nat} (ha : WFo a n) (hb : WFo b m)
    (hsa : a.size ≤ 4294967296) (hsb : b.size ≤ 4294967296) (fuel : Nat)
    (hfa : 3 * a.size + 1 ≤ fuel) (hfb : 3 * b.size + 1 ≤ fuel) :
    Algo2.Bdd_cmp_cardinality_strict fuel a b =
      .ok (if n = m then some (compare (cnt n (fun v => evW a n v (root a))) (cnt m (fun v => evW b m v (root b))))
           else none) := by
  rw [Bdd_cmp_cardinality_strict_eq_model ha hb hsa hsb fuel hfa hfb, Props.C18.cmp_cardinality_strict_spec ha hb]

/-- the translated `cmp_implies`: `None` for different variable counts; for equal counts the answer is decided by
    pointwise implication of the two denoted functions -/
theorem cmp_implies_spec {a b : Arr} {n m : Nat} (ha : WFo a n) (hb : WFo b m)
    (hsa : a.size ≤ 4294967296) (hsb : b.size ≤ 4294967296) (fuel : Nat)
    (hf : 4 * (a.size * b.size) + 2 * n + 8 ≤ fuel) :
    (n ≠ m → Algo2.Bdd_cmp_implies fuel a b = .ok none) ∧
    (n = m →
      let ab := ∀ v, evW a n v (root a) = true → evW b m v (root b) = true
      let ba := ∀ v, evW b m v (root b) = true → evW a n v (root a) = true
      (Algo2.Bdd_cmp_implies fuel a b = .ok (some .eq) ↔ ab ∧ ba) ∧
      (Algo2.Bdd_cmp_implies fuel a b = .ok (some .lt) ↔ ab ∧ ¬ ba) ∧
      (Algo2.Bdd_cmp_implies fuel a b = .ok (some .gt) ↔ ¬ ab ∧ ba) ∧
      (Algo2.Bdd_cmp_implies fuel a b = .ok none ↔ ¬ ab ∧ ¬ ba)) := by
  rw [Bdd_cmp_implies_eq_model ha hb hsa hsb fuel hf]
  obtain ⟨h1, h2⟩ := Props.C18.cmp_implies_spec ha hb
  refine ⟨fun hne => by rw [h1 hne], fun heq => ?_⟩
  have := h2 heq
  simp only [Outcome.ok.injEq]
  exact this

/-! ## non-vacuity -/

open Props.C18 in
/-- `x0 ∧ x2` against `x0` over three variables: all hypotheses hold, the driver's fuels suffice -/
example : Algo2.Bdd_cmp_implies (Drive.Algo.fuel2 exX0X2 exX0) exX0X2 exX0 = .ok (some .lt) ∧
    Algo2.Bdd_cmp_structural exX0X2 exX0 = .gt ∧ Algo2.Bdd_cmp_size exX0X2 exX0 = .gt ∧
    Algo2.Bdd_cmp_cardinality (Drive.Algo.fuel1 exX0X2 + Drive.Algo.fuel1 exX0) exX0X2 exX0 = .ok .lt := by
  refine ⟨?_, by rw [Bdd_cmp_structural_eq_model]; decide, by decide, ?_⟩
  · rw [Bdd_cmp_implies_eq_model_driver exX0X2_wf exX0_wf (by decide) (by decide)]
    congr 1
    refine ((Props.C18.cmp_implies_spec exX0X2_wf exX0_wf).2 rfl).2.1.2 ⟨?_, ?_⟩
    · intro v
      simp only [evW, root, exX0X2, exX0, List.size_toArray, List.length_cons, List.length_nil]
      cases h0 : v 0 <;> simp [evalF, h0, evalF_zero, evalF_one]
    · intro h
      have := h (fun i => i == 0)
      simp [evW, evalF, exX0X2, exX0, root, evalF_zero, evalF_one] at this
  · rw [Bdd_cmp_cardinality_eq_model_driver exX0X2_wf exX0_wf (by decide) (by decide)]
    rfl

end B.AlgoEq2Cmp
