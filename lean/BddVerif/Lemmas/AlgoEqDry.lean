import BddVerif.Lemmas.AlgoEqDrySim
import BddVerif.Lemmas.DryLimit
import BddVerif.Drive.Algo
/-!
**`Gen.Algo.estimated_apply_complexity` (regenerated from the Rust text on every run) = `Lim.dryRun` (hand model).**

* `estimated_apply_complexity_eq_model` — `WFo` operands, table total on terminals, flips `< n`, sizes `≤ 2^32`, any
  limit, any `fuel ≥ 2·|L|·|R| + 2`; `…_driver` for the fuel `Drive.Algo.fuel2` passes;
* `estimated_apply_complexity_panic_vars` / `_panic_flip` — the two intended panics, for arbitrary operands and fuel;
* `Bdd_check_fused_binary_flip_op_eq_model`, `Bdd_check_binary_op_eq_model`, `Bdd_check_fused_binary_flip_op_panic` — the
  public entry points against `Lim.checkFusedBinaryFlipOp`.

Nothing of the generated text is copied: the loop body is reached by `unfold` + `forIn_range_eq_loopN` and compared with
the hand-written step function `dryStep` by case analysis, so a change of the Rust loop breaks the proof.
-/
namespace B.AlgoDL
open B B.Gen B.Lim Std

/-- final loop state, depending on the answer of the model -/
def DryFinal (res : Option DSt) (σ : DS) : Prop :=
  match res with
  | some s' => σ = (none, s'.nonEmpty, #[], s'.visited)
  | none => σ.1 = some none

/-- the whole loop, from the initial state of `estimated_apply_complexity` -/
theorem dry_loop (Γ : Ctx) (ok : DOk Γ) (lim : Nat) (step : DS → Outcome (ForInStep DS)) (hstep : DryStepSpec Γ lim step)
    (l r : Nat) (hl : l < Γ.L.size) (hr : r < Γ.R.size) (V0 : HashSet (Nat × Nat)) (hV0 : V0.size = 0)
    (hin0 : InR Γ V0) (st0 : Array (Nat × Nat)) (hst : st0 = #[].push (l, r))
    (fuel : Nat) (hfuel : 2 * (Γ.L.size * Γ.R.size) + 2 ≤ fuel) :
    ∃ σ', DryFinal (dryRecLim Γ lim (Γ.n + 2) l r ⟨V0, false⟩) σ' ∧ loopN step fuel (none, false, st0, V0) = .ok σ' := by
  subst hst
  have hN : ∀ V, InR Γ V → V.size ≤ Γ.L.size * Γ.R.size := fun V h => hashSet_size_le _ _ V h
  have h := dry_sim Γ ok lim _ hN step hstep (Γ.n + 2) l r ⟨V0, false⟩ #[] hl hr (by omega) hin0
  cases e : dryRecLim Γ lim (Γ.n + 2) l r ⟨V0, false⟩ with
  | none =>
    rw [e] at h
    obtain ⟨k, σ', hσ, hk, hrun⟩ := h
    refine ⟨σ', hσ, ?_⟩
    have := hrun (fuel - k)
    rw [Nat.sub_add_cancel (by omega)] at this
    exact this
  | some s' =>
    rw [e] at h
    obtain ⟨hin', k, hk, hrun⟩ := h
    have hsz := hN _ hin'
    simp only [hV0] at hk
    have := hrun (fuel - k)
    rw [Nat.sub_add_cancel (by omega)] at this
    refine ⟨_, rfl, ?_⟩
    show loopN step fuel (mkD ⟨V0, false⟩ (#[].push (l, r))) = _
    rw [this]
    obtain ⟨j, hj⟩ : ∃ j, fuel - k = j + 1 := ⟨fuel - k - 1, by omega⟩
    rw [hj]
    have hlast := hstep (mkD s' #[]) (by intro t ht; simp [mkD] at ht)
    exact loopN_done (s' := (none, s'.nonEmpty, #[], s'.visited)) (by rw [hlast]; rfl) j

section
attribute [local instance 10000] Rust.monadOutcomeInline
theorem bind_loop_eq {σ β : Type} (step : σ → Outcome (ForInStep σ)) (fuel : Nat) (init : σ) (post : σ → Outcome β)
    (P : σ → Prop) (rhs : Outcome β) (h1 : ∃ σ', P σ' ∧ loopN step fuel init = .ok σ') (h2 : ∀ σ', P σ' → post σ' = rhs) :
    (loopN step fuel init >>= post) = rhs := by
  obtain ⟨σ', hP, h⟩ := h1
  rw [h, bind_ok]
  exact h2 σ' hP
end

/-- **`estimated_apply_complexity` (translated from the Rust text) = `Lim.dryRun` (hand-written model)**, for operands
    that are well-formed by level, a table that is total on terminals, flips in range, any limit and any fuel
    `≥ 2·|L|·|R| + 2`. (`u32Range`: `Bdd::root_pointer` truncates to `u32`.) -/
theorem estimated_apply_complexity_eq_model (fuel lim : Nat) (L R : Arr) (fl fr fo : Option Nat) (op : Op2) (n : Nat)
    (hL : WFo L n) (hR : WFo R n)
    (htot : ∀ a b, (op (some a) (some b)).isSome = true)
    (hfl : flipOk n fl = true) (hfr : flipOk n fr = true) (hfo : flipOk n fo = true)
    (h32L : L.size ≤ u32Range) (h32R : R.size ≤ u32Range) (hfuel : 2 * (L.size * R.size) + 2 ≤ fuel) :
    Gen.Algo.estimated_apply_complexity fuel lim L R fl fr fo op = .ok (dryRun lim L R op fl fr fo) := by
  have ok : DOk ⟨L, R, n, op, fl, fr, fo⟩ := ⟨hL, hR, htot⟩
  have hl : root L < L.size := by have := WFo.size_pos hL; unfold root; omega
  have hr : root R < R.size := by have := WFo.size_pos hR; unfold root; omega
  unfold Gen.Algo.estimated_apply_complexity
  simp only [forIn_range_eq_loopN]
  rw [num_vars_eq L (WFo.size_pos hL), num_vars_eq R (WFo.size_pos hR), WFo.numVars_eq hL, WFo.numVars_eq hR]
  simp only [bind_ok, bne_self_eq_false, Bool.false_eq_true, if_false]
  rw [check_flip_ok n fl hfl, check_flip_ok n fr hfr, check_flip_ok n fo hfo,
    root_pointer_eq L (WFo.size_pos hL) h32L, root_pointer_eq R (WFo.size_pos hR) h32R]
  simp only [bind_ok]
  refine bind_loop_eq _ _ _ _ _ _ (dry_loop ⟨L, R, n, op, fl, fr, fo⟩ ok lim _ ?_ (root L) (root R) hl hr
    (Rust.hashSetWithCapacity (max (Algo.Bdd_size L) (Algo.Bdd_size R))) (by simp [Rust.hashSetWithCapacity])
    (by intro p hp; simp [Rust.hashSetWithCapacity] at hp) _ rfl fuel hfuel) ?_
  · intro σ htop
    obtain ⟨ret, ne, st, V⟩ := σ
    simp only [dryStep]
    simp only [] at htop
    cases hb : st.back? with
    | none => rfl
    | some t =>
      obtain ⟨htl, htr⟩ := htop t hb
      simp only [as_bool_eq, var_of_eq _ _ htl, var_of_eq _ _ htr, low_link_of_eq _ _ htl, low_link_of_eq _ _ htr,
        high_link_of_eq _ _ htl, high_link_of_eq _ _ htr, bind_ok, pure_eq]
      cases hop : op (asBool t.1) (asBool t.2) with
      | some c => simp
      | none =>
        have e1 : ∀ x : Nat, (some x = fl) = (fl = some x) := fun x => propext eq_comm
        have e2 : ∀ x : Nat, (some x = fr) = (fr = some x) := fun x => propext eq_comm
        by_cases h1 : t ∈ V
        · simp [h1]
        by_cases h2 : lim < (V.insert t).size
        · simp [h1, h2]
        generalize min (nodeAt L t.1).var (nodeAt R t.2).var = d
        by_cases h3 : (nodeAt L t.1).var = d <;>
        by_cases h4 : fl = some d <;>
        by_cases h5 : (nodeAt R t.2).var = d <;>
        by_cases h6 : fr = some d <;>
        by_cases h7 : fo = some d <;>
        simp [kids, e1, e2, h1, h2, h3, h4, h5, h6, h7]
  · intro σ' hfin
    have hc := dryRecLim_congr ⟨L, R, n, op, fl, fr, fo⟩ lim (n + 2) (root L) (root R)
      ⟨Rust.hashSetWithCapacity (max (Algo.Bdd_size L) (Algo.Bdd_size R)), false⟩ initDSt ⟨empty_equiv _ _, rfl⟩
    simp only [dryRun, WFo.numVars_eq hL]
    revert hfin hc
    cases dryRecLim ⟨L, R, n, op, fl, fr, fo⟩ lim (n + 2) (root L) (root R)
      ⟨Rust.hashSetWithCapacity (max (Algo.Bdd_size L) (Algo.Bdd_size R)), false⟩ <;>
    cases dryRecLim ⟨L, R, n, op, fl, fr, fo⟩ lim (n + 2) (root L) (root R) initDSt <;> intro hfin hc
    · obtain ⟨a, b, c, d⟩ := σ'
      simp only [DryFinal] at hfin
      subst hfin
      rfl
    · exact hc.elim
    · exact hc.elim
    · simp only [DryFinal] at hfin
      subst hfin
      simp only [Option.map_some, Array.back?_empty, pure_eq, hc.1.size_eq, hc.2]

/-- the fuel passed by the driver (`Drive/Algo.lean`, `fuel2`) is sufficient -/
theorem estimated_apply_complexity_eq_model_driver (lim : Nat) (L R : Arr) (fl fr fo : Option Nat) (op : Op2) (n : Nat)
    (hL : WFo L n) (hR : WFo R n) (htot : ∀ a b, (op (some a) (some b)).isSome = true)
    (hfl : flipOk n fl = true) (hfr : flipOk n fr = true) (hfo : flipOk n fo = true)
    (h32L : L.size ≤ u32Range) (h32R : R.size ≤ u32Range) :
    Gen.Algo.estimated_apply_complexity (Drive.Algo.fuel2 L R) lim L R fl fr fo op = .ok (dryRun lim L R op fl fr fo) :=
  estimated_apply_complexity_eq_model _ lim L R fl fr fo op n hL hR htot hfl hfr hfo h32L h32R
    (by unfold Drive.Algo.fuel2; omega)

/-! ### the panics of the entry checks (any fuel, any operands) -/

theorem estimated_apply_complexity_panic_vars (fuel lim : Nat) (L R : Arr) (fl fr fo : Option Nat) (op : Op2)
    (h : numVars R ≠ numVars L) : ∃ m, Gen.Algo.estimated_apply_complexity fuel lim L R fl fr fo op = .panic m := by
  unfold Gen.Algo.estimated_apply_complexity
  rcases Nat.eq_zero_or_pos L.size with h0 | h0
  · obtain ⟨m, hm⟩ := num_vars_panic L h0
    exact ⟨m, by rw [hm]; rfl⟩
  rw [num_vars_eq L h0, bind_ok]
  rcases Nat.eq_zero_or_pos R.size with h1 | h1
  · obtain ⟨m, hm⟩ := num_vars_panic R h1
    exact ⟨m, by rw [hm]; rfl⟩
  rw [num_vars_eq R h1, bind_ok]
  have : (numVars R != numVars L) = true := by simpa using h
  simp only [this, if_true]
  exact ⟨_, rfl⟩

theorem estimated_apply_complexity_panic_flip (fuel lim : Nat) (L R : Arr) (fl fr fo : Option Nat) (op : Op2)
    (h : (flipOk (numVars L) fl && flipOk (numVars L) fr && flipOk (numVars L) fo) = false) :
    ∃ m, Gen.Algo.estimated_apply_complexity fuel lim L R fl fr fo op = .panic m := by
  by_cases hv : numVars R ≠ numVars L
  · exact estimated_apply_complexity_panic_vars fuel lim L R fl fr fo op hv
  have hv' : numVars R = numVars L := by omega
  unfold Gen.Algo.estimated_apply_complexity
  rcases Nat.eq_zero_or_pos L.size with h0 | h0
  · obtain ⟨m, hm⟩ := num_vars_panic L h0
    exact ⟨m, by rw [hm]; rfl⟩
  rw [num_vars_eq L h0, bind_ok]
  rcases Nat.eq_zero_or_pos R.size with h1 | h1
  · obtain ⟨m, hm⟩ := num_vars_panic R h1
    exact ⟨m, by rw [hm]; rfl⟩
  rw [num_vars_eq R h1, bind_ok]
  simp only [hv', bne_self_eq_false, Bool.false_eq_true, if_false]
  cases h1 : flipOk (numVars L) fl with
  | false =>
    obtain ⟨m, hm⟩ := check_flip_panic _ _ h1
    exact ⟨m, by rw [hm]; rfl⟩
  | true =>
    rw [check_flip_ok _ _ h1, bind_ok]
    cases h2 : flipOk (numVars L) fr with
    | false =>
      obtain ⟨m, hm⟩ := check_flip_panic _ _ h2
      exact ⟨m, by rw [hm]; rfl⟩
    | true =>
      rw [check_flip_ok _ _ h2, bind_ok]
      cases h3 : flipOk (numVars L) fo with
      | false =>
        obtain ⟨m, hm⟩ := check_flip_panic _ _ h3
        exact ⟨m, by rw [hm]; rfl⟩
      | true => simp [h1, h2, h3] at h

/-! ### the public entry points -/

theorem Bdd_check_fused_binary_flip_op_eq_model (fuel lim : Nat) (L R : Arr) (fl fr fo : Option Nat) (op : Op2) (n : Nat)
    (hL : WFo L n) (hR : WFo R n) (htot : ∀ a b, (op (some a) (some b)).isSome = true)
    (hfl : flipOk n fl = true) (hfr : flipOk n fr = true) (hfo : flipOk n fo = true)
    (h32L : L.size ≤ u32Range) (h32R : R.size ≤ u32Range) (hfuel : 2 * (L.size * R.size) + 2 ≤ fuel) :
    Gen.Algo.Bdd_check_fused_binary_flip_op fuel lim (L, fl) (R, fr) fo op = checkFusedBinaryFlipOp lim L R op fl fr fo := by
  unfold Gen.Algo.Bdd_check_fused_binary_flip_op checkFusedBinaryFlipOp
  rw [estimated_apply_complexity_eq_model fuel lim L R fl fr fo op n hL hR htot hfl hfr hfo h32L h32R hfuel]
  simp [WFo.numVars_eq hL, WFo.numVars_eq hR, hfl, hfr, hfo]

theorem Bdd_check_binary_op_eq_model (fuel lim : Nat) (L R : Arr) (op : Op2) (n : Nat)
    (hL : WFo L n) (hR : WFo R n) (htot : ∀ a b, (op (some a) (some b)).isSome = true)
    (h32L : L.size ≤ u32Range) (h32R : R.size ≤ u32Range) (hfuel : 2 * (L.size * R.size) + 2 ≤ fuel) :
    Gen.Algo.Bdd_check_binary_op fuel lim L R op = checkFusedBinaryFlipOp lim L R op none none none := by
  unfold Gen.Algo.Bdd_check_binary_op checkFusedBinaryFlipOp
  rw [estimated_apply_complexity_eq_model fuel lim L R none none none op n hL hR htot rfl rfl rfl h32L h32R hfuel]
  simp [WFo.numVars_eq hL, WFo.numVars_eq hR, flipOk]

/-- both sides panic together -/
theorem Bdd_check_fused_binary_flip_op_panic (fuel lim : Nat) (L R : Arr) (fl fr fo : Option Nat) (op : Op2)
    (h : numVars R ≠ numVars L ∨ (flipOk (numVars L) fl && flipOk (numVars L) fr && flipOk (numVars L) fo) = false) :
    (Gen.Algo.Bdd_check_fused_binary_flip_op fuel lim (L, fl) (R, fr) fo op).isPanic = true ∧
      (checkFusedBinaryFlipOp lim L R op fl fr fo).isPanic = true := by
  constructor
  · unfold Gen.Algo.Bdd_check_fused_binary_flip_op
    rcases h with h | h
    · obtain ⟨m, hm⟩ := estimated_apply_complexity_panic_vars fuel lim L R fl fr fo op h
      simp only [hm]; rfl
    · obtain ⟨m, hm⟩ := estimated_apply_complexity_panic_flip fuel lim L R fl fr fo op h
      simp only [hm]; rfl
  · unfold checkFusedBinaryFlipOp
    rcases h with h | h
    · simp [h, Outcome.isPanic]
    · by_cases hv : numVars R ≠ numVars L
      · simp [hv, Outcome.isPanic]
      · simp only [hv, if_false, h]; rfl

/-! ### non-vacuity -/

/-- `x0 ∧ x2` over three variables -/
def exA : Arr := #[⟨3, 0, 0⟩, ⟨3, 1, 1⟩, ⟨2, 0, 1⟩, ⟨0, 0, 2⟩]
/-- `x1` over three variables -/
def exB : Arr := #[⟨3, 0, 0⟩, ⟨3, 1, 1⟩, ⟨1, 0, 1⟩]
theorem exA_wf : WFo exA 3 := wfoB_sound (by decide)
theorem exB_wf : WFo exB 3 := wfoB_sound (by decide)
theorem and_total : ∀ a b, (Gen.and_ (some a) (some b)).isSome = true := by decide

/-- all hypotheses are satisfiable: all three flips, limit 2 (the dry run is refused by the generated function for
    every sufficient fuel because the model refuses it) -/
example (fuel : Nat) (h : 26 ≤ fuel) :
    Gen.Algo.estimated_apply_complexity fuel 2 exA exB (some 2) (some 1) (some 0) Gen.and_ =
      .ok (dryRun 2 exA exB Gen.and_ (some 2) (some 1) (some 0)) :=
  estimated_apply_complexity_eq_model fuel 2 exA exB (some 2) (some 1) (some 0) Gen.and_ 3 exA_wf exB_wf and_total
    (by decide) (by decide) (by decide) (by decide) (by decide) h

/-- with the driver's fuel and a generous limit -/
example : Gen.Algo.estimated_apply_complexity (Drive.Algo.fuel2 exA exB) 100 exA exB none none none Gen.and_ =
    .ok (dryRun 100 exA exB Gen.and_ none none none) :=
  estimated_apply_complexity_eq_model_driver 100 exA exB none none none Gen.and_ 3 exA_wf exB_wf and_total
    rfl rfl rfl (by decide) (by decide)

/-- flip variable out of range: panic -/
example (fuel : Nat) : ∃ m, Gen.Algo.estimated_apply_complexity fuel 5 exA exB (some 3) none none Gen.and_ = .panic m :=
  estimated_apply_complexity_panic_flip fuel 5 exA exB (some 3) none none Gen.and_ (by decide)

/-- variable counts differ: panic -/
example (fuel : Nat) : ∃ m, Gen.Algo.estimated_apply_complexity fuel 5 exA (mkTrue 2) none none none Gen.and_ = .panic m :=
  estimated_apply_complexity_panic_vars fuel 5 exA (mkTrue 2) none none none Gen.and_ (by decide)

end B.AlgoDL
