import BddVerif.Lemmas.SelectRandom
/-!
Executable tests of the hypotheses `Can` and `NoOrphan` (used for the non-vacuity examples), with
their soundness proofs.
-/
namespace B.Select
open B

/-- Boolean test of `Can A n` -/
def canB (A : Arr) (n : Nat) : Bool :=
  decide (2 ≤ A.size) && (A[0]? == some ⟨n, 0, 0⟩) && (A[1]? == some ⟨n, 1, 1⟩) &&
  (List.range A.size).all (fun p => decide (p < 2) ||
    match A[p]? with
    | none => true
    | some nd =>
      decide (nd.var < n) && decide (nd.low < p) && decide (nd.high < p) && decide (nd.low ≠ nd.high) &&
      decide (nd.var < varOf A n nd.low) && decide (nd.var < varOf A n nd.high) &&
      (List.range A.size).all (fun q => decide (q < 2) || decide (q = p) || (A[q]? != some nd)))

theorem canB_sound {A : Arr} {n : Nat} (h : canB A n = true) : Can A n := by
  unfold canB at h
  simp only [Bool.and_eq_true, Bool.or_eq_true, decide_eq_true_eq, beq_iff_eq, List.all_eq_true,
    List.mem_range] at h
  obtain ⟨⟨⟨h2, h0⟩, h1⟩, hin⟩ := h
  have hnode : ∀ p nd, 2 ≤ p → A[p]? = some nd →
      (nd.var < n ∧ nd.low < p ∧ nd.high < p ∧ nd.low ≠ nd.high ∧
       nd.var < varOf A n nd.low ∧ nd.var < varOf A n nd.high) ∧
      ∀ q, q < A.size → 2 ≤ q → q ≠ p → A[q]? ≠ some nd := by
    intro p nd hp hnd
    have := hin p (getElem?_lt hnd)
    rw [hnd] at this
    rcases this with h' | h'
    · omega
    · simp only [Bool.and_eq_true, decide_eq_true_eq, List.all_eq_true, List.mem_range, Bool.or_eq_true,
        bne_iff_ne, ne_eq, decide_not, Bool.not_eq_eq_eq_not, Bool.not_true, decide_eq_false_iff_not] at h'
      obtain ⟨⟨⟨⟨⟨⟨a, b⟩, c⟩, d⟩, e⟩, f⟩, g⟩ := h'
      refine ⟨⟨a, b, c, d, e, f⟩, ?_⟩
      intro q hq hq2 hqp
      rcases g q hq with (g' | g') | g'
      · omega
      · exact absurd g' hqp
      · exact g'
  refine ⟨⟨h2, fun p nd hp hnd => (hnode p nd hp hnd).1, ?_⟩, h0, h1⟩
  intro p q nd hp hq hnp hnq
  apply Classical.byContradiction
  intro hne
  exact (hnode p nd hp hnp).2 q (getElem?_lt hnq) hq (fun e => hne e.symm) hnq

/-- Boolean test of `NoOrphan A` -/
def noOrphanB (A : Arr) : Bool :=
  (List.range A.size).all (fun p => decide (p < 1) || decide (A.size ≤ p + 1) ||
    (List.range A.size).any (fun q => decide (p < q) &&
      match A[q]? with
      | none => false
      | some nd => decide (nd.low = p) || decide (nd.high = p)))

theorem noOrphanB_sound {A : Arr} (h : noOrphanB A = true) : NoOrphan A := by
  unfold noOrphanB at h
  simp only [List.all_eq_true, List.mem_range, Bool.or_eq_true, decide_eq_true_eq, List.any_eq_true,
    Bool.and_eq_true] at h
  intro p hp1 hps
  rcases h p (by omega) with (h' | h') | ⟨q, hq, hpq, hm⟩
  · omega
  · omega
  · cases hnd : A[q]? with
    | none => rw [hnd] at hm; cases hm
    | some nd =>
      rw [hnd] at hm
      simp only [Bool.or_eq_true, decide_eq_true_eq] at hm
      exact ⟨q, nd, hpq, hnd, hm⟩

/-- `(x0 ∧ x2) ∨ (¬x0 ∧ x3)` over five variables: levels 1 and 4 are skipped -/
def exGap : Arr := #[⟨5, 0, 0⟩, ⟨5, 1, 1⟩, ⟨2, 0, 1⟩, ⟨3, 0, 1⟩, ⟨0, 3, 2⟩]

theorem exGap_can : Can exGap 5 := canB_sound (by decide)
theorem exGap_noOrphan : NoOrphan exGap := noOrphanB_sound (by decide)

/-- the single valuation 101 over three variables -/
def exVal : Arr := #[⟨3, 0, 0⟩, ⟨3, 1, 1⟩, ⟨2, 0, 1⟩, ⟨1, 2, 0⟩, ⟨0, 0, 3⟩]
theorem exVal_can : Can exVal 3 := canB_sound (by decide)

end B.Select
