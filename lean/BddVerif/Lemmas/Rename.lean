import BddVerif.Core.ApplyCanon
import BddVerif.Model.Rename
/-! Helper lemmas for C17 (and the clash path of C07): support sets, adjacent-order checks, variable
    rewriting of decision nodes. -/
namespace B.Ren
/-! ### `insertU`, `supportSet`, `chainLt` -/

theorem mem_insertU (a x : Nat) (l : List Nat) : a ∈ insertU x l ↔ a = x ∨ a ∈ l := by
  induction l with
  | nil => simp [insertU]
  | cons y ys ih =>
    unfold insertU
    split
    · simp
    · split
      · rename_i h1 h2; subst h2; simp
      · simp [ih]; constructor
        · rintro (h | h | h) <;> simp [h]
        · rintro (h | h | h) <;> simp [h]

theorem sorted_insertU (x : Nat) (l : List Nat) (h : l.Pairwise (· < ·)) : (insertU x l).Pairwise (· < ·) := by
  induction l with
  | nil => simp [insertU]
  | cons y ys ih =>
    rw [List.pairwise_cons] at h
    unfold insertU
    split
    · rename_i hxy
      rw [List.pairwise_cons]
      refine ⟨?_, List.pairwise_cons.mpr h⟩
      intro a ha
      rcases List.mem_cons.mp ha with rfl | ha
      · exact hxy
      · exact Nat.lt_trans hxy (h.1 a ha)
    · split
      · exact List.pairwise_cons.mpr h
      · rename_i h1 h2
        rw [List.pairwise_cons]
        refine ⟨?_, ih h.2⟩
        intro a ha
        rcases (mem_insertU a x ys).mp ha with rfl | ha
        · omega
        · exact h.1 a ha

theorem mem_foldr_insertU (a : Nat) (l : List Nat) : a ∈ l.foldr insertU [] ↔ a ∈ l := by
  induction l with
  | nil => simp
  | cons y ys ih => simp [mem_insertU, ih]

theorem sorted_foldr_insertU (l : List Nat) : (l.foldr insertU []).Pairwise (· < ·) := by
  induction l with
  | nil => simp
  | cons y ys ih => exact sorted_insertU y _ ih

theorem sorted_supportSet (A : Arr) : (supportSet A).Pairwise (· < ·) := sorted_foldr_insertU _

theorem mem_supportSet (A : Arr) (x : Nat) :
    x ∈ supportSet A ↔ ∃ p nd, 2 ≤ p ∧ A[p]? = some nd ∧ nd.var = x := by
  unfold supportSet
  rw [mem_foldr_insertU, List.mem_map]
  constructor
  · rintro ⟨nd, hnd, rfl⟩
    obtain ⟨i, hi⟩ := List.mem_iff_getElem?.mp hnd
    rw [List.getElem?_drop, Array.getElem?_toList] at hi
    exact ⟨2 + i, nd, by omega, hi, rfl⟩
  · rintro ⟨p, nd, hp, hnd, rfl⟩
    refine ⟨nd, ?_, rfl⟩
    apply List.mem_iff_getElem?.mpr
    refine ⟨p - 2, ?_⟩
    rw [List.getElem?_drop, Array.getElem?_toList]
    have : 2 + (p - 2) = p := by omega
    rw [this]; exact hnd

theorem supportSet_eq_nil (A : Arr) : supportSet A = [] ↔ A.size ≤ 2 := by
  constructor
  · intro h
    rcases Nat.lt_or_ge 2 A.size with h2 | h2
    · have : A[2].var ∈ supportSet A := (mem_supportSet A _).mpr ⟨2, A[2], by omega, by simp [h2], rfl⟩
      rw [h] at this; cases this
    · exact h2
  · intro h
    cases hs : supportSet A with
    | nil => rfl
    | cons x xs =>
      have : x ∈ supportSet A := by rw [hs]; simp
      obtain ⟨p, nd, hp, hnd, _⟩ := (mem_supportSet A x).mp this
      rw [Array.getElem?_eq_none (by omega)] at hnd; cases hnd

theorem chainLt_iff (l : List Nat) : chainLt l = true ↔ l.Pairwise (· < ·) := by
  induction l with
  | nil => simp [chainLt]
  | cons a t ih =>
    cases t with
    | nil => simp [chainLt]
    | cons b t' =>
      simp only [chainLt, Bool.and_eq_true, decide_eq_true_eq, ih]
      constructor
      · rintro ⟨hab, hp⟩
        rw [List.pairwise_cons]
        refine ⟨?_, hp⟩
        intro c hc
        rcases List.mem_cons.mp hc with rfl | hc
        · exact hab
        · exact Nat.lt_trans hab ((List.pairwise_cons.mp hp).1 c hc)
      · intro hp
        rw [List.pairwise_cons] at hp
        exact ⟨hp.1 b (by simp), hp.2⟩

/-- strictly increasing list, strictly increasing image: the map is strictly monotone on the list -/
theorem mono_of_sorted_map (g : Nat → Nat) (l : List Nat) (h1 : l.Pairwise (· < ·))
    (h2 : (l.map g).Pairwise (· < ·)) : ∀ x ∈ l, ∀ y ∈ l, x < y → g x < g y := by
  induction l with
  | nil => intro x hx; cases hx
  | cons a t ih =>
    rw [List.pairwise_cons] at h1
    rw [List.map_cons, List.pairwise_cons] at h2
    intro x hx y hy hxy
    rcases List.mem_cons.mp hx with hxa | hxt
    · rcases List.mem_cons.mp hy with hya | hyt
      · omega
      · rw [hxa]; exact h2.1 _ (List.mem_map_of_mem hyt)
    · rcases List.mem_cons.mp hy with hya | hyt
      · have := h1.1 x hxt; omega
      · exact ih h1.2 h2.2 x hxt y hyt hxy

/-- conversely: a strictly monotone map keeps a strictly increasing list strictly increasing -/
theorem sorted_map_of_mono (g : Nat → Nat) (l : List Nat) (h1 : l.Pairwise (· < ·))
    (h2 : ∀ x ∈ l, ∀ y ∈ l, x < y → g x < g y) : (l.map g).Pairwise (· < ·) := by
  rw [List.pairwise_map]
  exact h1.imp_of_mem (fun ha hb hab => h2 _ ha _ hb hab)

/-! ### rewriting the variables of the decision nodes -/

theorem size_mapVars (g : Nat → Nat) (A : Arr) : (mapVars g A).size = A.size := by
  simp [mapVars]

theorem getElem?_mapVars_lt (g : Nat → Nat) (A : Arr) (p : Nat) (hp : p < 2) :
    (mapVars g A)[p]? = A[p]? := by
  simp [mapVars, Array.getElem?_mapIdx, hp]

theorem getElem?_mapVars_ge (g : Nat → Nat) (A : Arr) (p : Nat) (hp : 2 ≤ p) :
    (mapVars g A)[p]? = A[p]?.map (fun nd => { nd with var := g nd.var }) := by
  have : ¬ p < 2 := by omega
  simp [mapVars, Array.getElem?_mapIdx, this]

theorem numVars_mapVars (g : Nat → Nat) (A : Arr) : numVars (mapVars g A) = numVars A := by
  simp [numVars, getElem?_mapVars_lt]

theorem root_mapVars (g : Nat → Nat) (A : Arr) : root (mapVars g A) = root A := by
  simp [root, size_mapVars]

/-- the rewritten diagram reads, at every decision node, the value of the renamed variable: no
    hypothesis on `A` or `g` at all -/
theorem evalF_mapVars (g : Nat → Nat) (A : Arr) (v : Nat → Bool) :
    ∀ f p, evalF (mapVars g A) v f p = evalF A (fun x => v (g x)) f p := by
  intro f
  induction f with
  | zero =>
    intro p
    match p with
    | 0 => simp [evalF]
    | 1 => simp [evalF]
    | p + 2 => simp [evalF]
  | succ f ih =>
    intro p
    match p with
    | 0 => simp [evalF]
    | 1 => simp [evalF]
    | p + 2 =>
      simp only [evalF]
      rw [getElem?_mapVars_ge g A (p + 2) (by omega)]
      cases h : A[p + 2]? with
      | none => simp
      | some nd => simp only [Option.map_some]; exact ih _

theorem varOf_mapVars_node (g : Nat → Nat) (A : Arr) (n p : Nat) (nd : Node) (hp : 2 ≤ p)
    (h : A[p]? = some nd) : varOf (mapVars g A) n p = g nd.var := by
  have : ¬ p < 2 := by omega
  simp [varOf, this, getElem?_mapVars_ge g A p hp, h]

theorem varOf_terminal (A : Arr) (n p : Nat) (hp : p < 2) : varOf A n p = n := by
  simp [varOf, hp]

/-- a rewriting that is strictly monotone on the support and stays below `n` keeps validity -/
theorem wfo_mapVars {A : Arr} {n : Nat} (g : Nat → Nat) (h : WFo A n)
    (hlt : ∀ x ∈ supportSet A, g x < n)
    (hmono : ∀ x ∈ supportSet A, ∀ y ∈ supportSet A, x < y → g x < g y) :
    WFo (mapVars g A) n := by
  refine ⟨?_, ?_, ?_⟩
  · rw [getElem?_mapVars_lt g A 0 (by omega)]; exact h.zero
  · intro h2; rw [getElem?_mapVars_lt g A 1 (by omega)]; exact h.one (by rw [size_mapVars] at h2; exact h2)
  · intro p nd hp hnd
    rw [getElem?_mapVars_ge g A p hp] at hnd
    cases hA : A[p]? with
    | none => rw [hA] at hnd; cases hnd
    | some nd0 =>
      rw [hA] at hnd
      simp only [Option.map_some, Option.some.injEq] at hnd
      subst hnd
      obtain ⟨hv, hl, hh, hvl, hvh⟩ := h.inner p nd0 hp hA
      have hmem : nd0.var ∈ supportSet A := (mem_supportSet A _).mpr ⟨p, nd0, hp, hA, rfl⟩
      have child : ∀ q, q < A.size → nd0.var < varOf A n q → g nd0.var < varOf (mapVars g A) n q := by
        intro q hq hlt'
        by_cases hq2 : q < 2
        · rw [varOf_terminal _ _ _ hq2]; exact hlt _ hmem
        · have hqn : A[q]? = some A[q] := by simp [hq]
          rw [varOf_mapVars_node g A n q A[q] (by omega) hqn]
          rw [varOf_node q A[q] (by omega) hqn] at hlt'
          exact hmono _ hmem _ ((mem_supportSet A _).mpr ⟨q, A[q], by omega, hqn, rfl⟩) hlt'
      refine ⟨hlt _ hmem, by rw [size_mapVars]; exact hl, by rw [size_mapVars]; exact hh, ?_, ?_⟩
      · exact child _ hl hvl
      · exact child _ hh hvh

/-- the same for reduced post-order arrays: no two equal nodes appear, because a strictly monotone map
    is injective on the support -/
theorem red_mapVars {A : Arr} {n : Nat} (g : Nat → Nat) (h : Red A n)
    (hlt : ∀ x ∈ supportSet A, g x < n)
    (hmono : ∀ x ∈ supportSet A, ∀ y ∈ supportSet A, x < y → g x < g y) :
    Red (mapVars g A) n := by
  refine ⟨by rw [size_mapVars]; exact h.size2, ?_, ?_⟩
  · intro p nd hp hnd
    rw [getElem?_mapVars_ge g A p hp] at hnd
    cases hA : A[p]? with
    | none => rw [hA] at hnd; cases hnd
    | some nd0 =>
      rw [hA] at hnd
      simp only [Option.map_some, Option.some.injEq] at hnd
      subst hnd
      obtain ⟨hv, hl, hh, hne, hvl, hvh⟩ := h.inner p nd0 hp hA
      have hps : p < A.size := by
        rcases Nat.lt_or_ge p A.size with h' | h'
        · exact h'
        · simp [Array.getElem?_eq_none h'] at hA
      have hmem : nd0.var ∈ supportSet A := (mem_supportSet A _).mpr ⟨p, nd0, hp, hA, rfl⟩
      have child : ∀ q, q < A.size → nd0.var < varOf A n q → g nd0.var < varOf (mapVars g A) n q := by
        intro q hq hlt'
        by_cases hq2 : q < 2
        · rw [varOf_terminal _ _ _ hq2]; exact hlt _ hmem
        · have hqn : A[q]? = some A[q] := by simp [hq]
          rw [varOf_mapVars_node g A n q A[q] (by omega) hqn]
          rw [varOf_node q A[q] (by omega) hqn] at hlt'
          exact hmono _ hmem _ ((mem_supportSet A _).mpr ⟨q, A[q], by omega, hqn, rfl⟩) hlt'
      exact ⟨hlt _ hmem, hl, hh, hne, child _ (show nd0.low < A.size by omega) hvl, child _ (show nd0.high < A.size by omega) hvh⟩
  · intro p q nd hp hq hpn hqn
    rw [getElem?_mapVars_ge g A p hp] at hpn
    rw [getElem?_mapVars_ge g A q hq] at hqn
    cases hA : A[p]? with
    | none => rw [hA] at hpn; cases hpn
    | some a =>
      cases hB : A[q]? with
      | none => rw [hB] at hqn; cases hqn
      | some b =>
        rw [hA] at hpn; rw [hB] at hqn
        simp only [Option.map_some, Option.some.injEq] at hpn hqn
        have ha : a.var ∈ supportSet A := (mem_supportSet A _).mpr ⟨p, a, hp, hA, rfl⟩
        have hb : b.var ∈ supportSet A := (mem_supportSet A _).mpr ⟨q, b, hq, hB, rfl⟩
        rw [← hqn] at hpn
        have hv : g a.var = g b.var := by injection hpn
        have hl : a.low = b.low := by injection hpn
        have hh : a.high = b.high := by injection hpn
        have hvar : a.var = b.var := by
          rcases Nat.lt_trichotomy a.var b.var with h' | h' | h'
          · have := hmono _ ha _ hb h'; omega
          · exact h'
          · have := hmono _ hb _ ha h'; omega
        have hab : a = b := by
          cases a; cases b; simp_all
        subst hab
        exact h.nodup p q a hp hq hA hB

end B.Ren