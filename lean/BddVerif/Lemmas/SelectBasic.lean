import BddVerif.Core.Canon
import BddVerif.Model.Select
/-!
Shared lemmas for C11: the hypothesis `Can` (reduced post-ordered array with well-formed terminals),
"every non-zero pointer is satisfiable / every non-one pointer is falsifiable", paths, the valuation and
the clause written by a walk, the generic induction over `descend`.
-/
namespace B.Select
open B

/-- A reduced, post-ordered array over `n` variables whose two terminal entries are as the library writes
    them. (`Red` says nothing about entries 0 and 1; the selectors read the terminals' `var`.) -/
structure Can (A : Arr) (n : Nat) : Prop where
  red : Red A n
  zero : A[0]? = some ⟨n, 0, 0⟩
  one : A[1]? = some ⟨n, 1, 1⟩

/-- the valuation function of a list of Booleans (`false` beyond its end) -/
def fn (v : List Bool) : Nat → Bool := fun k => v.getD k false

theorem Can.size2 {A : Arr} {n : Nat} (h : Can A n) : 2 ≤ A.size := h.red.size2
theorem Can.numVars {A : Arr} {n : Nat} (h : Can A n) : numVars A = n := by
  simp [B.numVars, h.zero]
theorem Can.isFalse {A : Arr} {n : Nat} (h : Can A n) : isFalse A = false := by
  have := h.size2; simp [Select.isFalse]; omega
theorem Can.root_lt {A : Arr} {n : Nat} (h : Can A n) : root A < A.size := by
  have := h.size2; unfold root; omega
theorem Can.root_pos {A : Arr} {n : Nat} (h : Can A n) : 1 ≤ root A := by
  have := h.size2; unfold root; omega

theorem getElem?_lt {A : Arr} {p : Nat} {nd : Node} (h : A[p]? = some nd) : p < A.size := by
  rcases Nat.lt_or_ge p A.size with h' | h'
  · exact h'
  · simp [Array.getElem?_eq_none h'] at h

/-- the node stored at any in-range pointer has the variable `varOf` -/
theorem Can.var_eq {A : Arr} {n : Nat} (h : Can A n) {p : Nat} {nd : Node} (hnd : A[p]? = some nd) :
    nd.var = varOf A n p := by
  by_cases hp : 2 ≤ p
  · rw [varOf_node p nd hp hnd]
  · have : p = 0 ∨ p = 1 := by omega
    rcases this with rfl | rfl
    · rw [h.zero] at hnd; cases hnd; simp [varOf]
    · rw [h.one] at hnd; cases hnd; simp [varOf]

/-! ### satisfiable / falsifiable -/

/-- KEY FACT: in a reduced array every pointer other than `0` has a satisfying valuation -/
theorem sat_of_ne_zero {A : Arr} {n : Nat} (h : Red A n) {p : Nat} (hp : p < A.size) (h0 : p ≠ 0) :
    ∃ v, ev A v p = true := by
  apply Classical.byContradiction
  intro hne
  apply h0
  apply ev_inj h (max p 0) p 0 rfl hp (by have := h.size2; omega)
  intro v
  rw [ev_zero]
  cases hv : ev A v p
  · rfl
  · exact absurd ⟨v, hv⟩ hne

/-- KEY FACT: … and every pointer other than `1` has a falsifying valuation -/
theorem unsat_of_ne_one {A : Arr} {n : Nat} (h : Red A n) {p : Nat} (hp : p < A.size) (h1 : p ≠ 1) :
    ∃ v, ev A v p = false := by
  apply Classical.byContradiction
  intro hne
  apply h1
  apply ev_inj h (max p 1) p 1 rfl hp (by have := h.size2; omega)
  intro v
  rw [ev_one]
  cases hv : ev A v p
  · exact absurd ⟨v, hv⟩ hne
  · rfl

/-- distinct pointers of a reduced array are separated by some valuation -/
theorem separated {A : Arr} {n : Nat} (h : Red A n) {p q : Nat} (hp : p < A.size) (hq : q < A.size)
    (hne : p ≠ q) : ∃ v, ev A v p ≠ ev A v q := by
  apply Classical.byContradiction
  intro hno
  apply hne
  apply ev_inj h (max p q) p q rfl hp hq
  intro v
  apply Classical.byContradiction
  intro hv
  exact hno ⟨v, hv⟩

/-- a decision node: everything `Red` says, with the children in range -/
theorem Can.node {A : Arr} {n : Nat} (h : Can A n) {p : Nat} {nd : Node} (hp : 2 ≤ p) (hnd : A[p]? = some nd) :
    nd.var < n ∧ nd.low < p ∧ nd.high < p ∧ nd.low ≠ nd.high ∧
    nd.var < varOf A n nd.low ∧ nd.var < varOf A n nd.high ∧ p < A.size :=
  have ⟨a, b, c, d, e, f⟩ := h.red.inner p nd hp hnd
  ⟨a, b, c, d, e, f, getElem?_lt hnd⟩

/-! ### paths -/

/-- `ds` are the decisions `(variable, branch)` of a path from pointer `p` to pointer `t` -/
def IsPath (A : Arr) : Nat → List (Nat × Bool) → Nat → Prop
  | p, [], t => p = t
  | p, d :: ds, t => 2 ≤ p ∧ ∃ nd, A[p]? = some nd ∧ d.1 = nd.var ∧
      IsPath A (if d.2 then nd.high else nd.low) ds t

/-- a valuation follows a list of decisions -/
def Follows (w : Nat → Bool) (ds : List (Nat × Bool)) : Prop := ∀ d ∈ ds, w d.1 = d.2

theorem path_ev {A : Arr} {n : Nat} (h : Red A n) (w : Nat → Bool) :
    ∀ (ds : List (Nat × Bool)) (p t : Nat), IsPath A p ds t → Follows w ds → ev A w p = ev A w t := by
  intro ds
  induction ds with
  | nil => intro p t hp _; simp only [IsPath] at hp; rw [hp]
  | cons d ds ih =>
    intro p t hp hf
    obtain ⟨hp2, nd, hnd, hvar, hrest⟩ := hp
    rw [ev_node h w p hp2 nd hnd]
    have hd : w d.1 = d.2 := hf d (List.mem_cons_self ..)
    have hf' : Follows w ds := fun e he => hf e (List.mem_cons_of_mem _ he)
    rw [← hvar, hd]
    cases hb : d.2
    · simp only [hb] at hrest; simpa using ih _ _ hrest hf'
    · simp only [hb] at hrest; simpa using ih _ _ hrest hf'

/-- the variables along a path increase strictly, start at or after the first node's variable, stay below `n`,
    and the path stays inside the array -/
theorem path_sorted {A : Arr} {n : Nat} (h : Can A n) :
    ∀ (ds : List (Nat × Bool)) (p t : Nat), IsPath A p ds t → p < A.size →
      ds.Pairwise (fun a b => a.1 < b.1) ∧ (∀ d ∈ ds, varOf A n p ≤ d.1 ∧ d.1 < n) ∧ t ≤ p ∧
      varOf A n p ≤ varOf A n t := by
  intro ds
  induction ds with
  | nil => intro p t hp _; simp only [IsPath] at hp; subst hp; simp
  | cons d ds ih =>
    intro p t hp hps
    obtain ⟨hp2, nd, hnd, hvar, hrest⟩ := hp
    obtain ⟨hv, hl, hh, _, hvl, hvh, _⟩ := h.node hp2 hnd
    have hvp : varOf A n p = nd.var := varOf_node p nd hp2 hnd
    have hc : (if d.2 then nd.high else nd.low) < p ∧ nd.var < varOf A n (if d.2 then nd.high else nd.low) := by
      cases d.2 <;> simp <;> omega
    obtain ⟨ih1, ih2, ih3, ih4⟩ := ih _ _ hrest (by omega)
    refine ⟨?_, ?_, by omega, by omega⟩
    · rw [List.pairwise_cons]
      refine ⟨?_, ih1⟩
      intro e he
      have := (ih2 e he).1
      omega
    · intro e he
      rcases List.mem_cons.mp he with rfl | he
      · omega
      · have := ih2 e he
        omega

theorem lookup_of_mem {ds : List (Nat × Bool)} (hs : ds.Pairwise (fun a b => a.1 < b.1)) {d : Nat × Bool}
    (hd : d ∈ ds) : ds.lookup d.1 = some d.2 := by
  induction ds with
  | nil => cases hd
  | cons e ds ih =>
    rw [List.pairwise_cons] at hs
    obtain ⟨x, b⟩ := e
    rcases List.mem_cons.mp hd with rfl | hd'
    · simp [List.lookup]
    · have hlt := hs.1 d hd'
      have hne : (d.1 == x) = false := by simp; omega
      simp only [List.lookup, hne]
      exact ih hs.2 hd'

theorem lookup_none_of_lt {ds : List (Nat × Bool)} {k : Nat} (h : ∀ d ∈ ds, k < d.1) : ds.lookup k = none := by
  induction ds with
  | nil => rfl
  | cons e ds ih =>
    obtain ⟨x, b⟩ := e
    have hx := h (x, b) (List.mem_cons_self ..)
    have hne : (k == x) = false := by simp; simp at hx; omega
    simp only [List.lookup, hne]
    exact ih (fun d hd => h d (List.mem_cons_of_mem _ hd))

theorem mem_of_lookup {ds : List (Nat × Bool)} {k : Nat} {b : Bool} (h : ds.lookup k = some b) : (k, b) ∈ ds := by
  induction ds with
  | nil => simp [List.lookup] at h
  | cons e ds ih =>
    obtain ⟨x, c⟩ := e
    by_cases hk : k = x
    · subst hk; simp [List.lookup] at h; subst h; exact List.mem_cons_self ..
    · have hne : (k == x) = false := by simp [hk]
      simp only [List.lookup, hne] at h
      exact List.mem_cons_of_mem _ (ih h)

/-- the valuation a walk writes: the decision where there is one, the initial value elsewhere -/
def pathVal (init : Bool) (ds : List (Nat × Bool)) : Nat → Bool := fun k => (ds.lookup k).getD init

theorem pathVal_follows {init : Bool} {ds : List (Nat × Bool)} (hs : ds.Pairwise (fun a b => a.1 < b.1)) :
    Follows (pathVal init ds) ds := by
  intro d hd
  simp [pathVal, lookup_of_mem hs hd]

theorem pathVal_nil (init : Bool) (k : Nat) : pathVal init [] k = init := rfl

theorem pathVal_cons_self (init : Bool) (x : Nat) (b : Bool) (ds) : pathVal init ((x, b) :: ds) x = b := by
  simp [pathVal, List.lookup]

theorem pathVal_cons_ne (init : Bool) (x : Nat) (b : Bool) (ds) {k : Nat} (hk : k ≠ x) :
    pathVal init ((x, b) :: ds) k = pathVal init ds k := by
  have hne : (k == x) = false := by simp [hk]
  simp [pathVal, List.lookup, hne]

theorem pathVal_of_lt (init : Bool) {ds : List (Nat × Bool)} {k : Nat} (h : ∀ d ∈ ds, k < d.1) :
    pathVal init ds k = init := by
  simp [pathVal, lookup_none_of_lt h]

/-! ### what `foldV` and `foldC` write -/

theorem foldV_spec (init : Bool) :
    ∀ (ds : List (Nat × Bool)) (v0 : List Bool), ds.Pairwise (fun a b => a.1 < b.1) →
      (∀ d ∈ ds, d.1 < v0.length ∧ v0[d.1]? = some init) →
      ∃ v, foldV init ds v0 = some v ∧ v.length = v0.length ∧
        ∀ k, k < v0.length → v[k]? = some ((ds.lookup k).getD (v0.getD k init)) := by
  intro ds
  induction ds with
  | nil =>
    intro v0 _ _
    refine ⟨v0, rfl, rfl, ?_⟩
    intro k hk
    simp [List.lookup, List.getD, hk]
  | cons e ds ih =>
    intro v0 hs hin
    obtain ⟨x, b⟩ := e
    rw [List.pairwise_cons] at hs
    have hx := hin (x, b) (List.mem_cons_self ..)
    simp only at hx
    by_cases hb : b = init
    · have hin' : ∀ d ∈ ds, d.1 < v0.length ∧ v0[d.1]? = some init :=
        fun d hd => hin d (List.mem_cons_of_mem _ hd)
      obtain ⟨v, hv, hlen, hget⟩ := ih v0 hs.2 hin'
      refine ⟨v, by simp [foldV, hb, hv], hlen, ?_⟩
      intro k hk
      rw [hget k hk]
      by_cases hkx : k = x
      · subst hkx
        have : ds.lookup k = none := lookup_none_of_lt (fun d hd => hs.1 d hd)
        simp [List.lookup, this, hb, List.getD, hx.2]
      · have hne : (k == x) = false := by simp [hkx]
        simp [List.lookup, hne]
    · have hin' : ∀ d ∈ ds, d.1 < (v0.set x b).length ∧ (v0.set x b)[d.1]? = some init := by
        intro d hd
        have := hin d (List.mem_cons_of_mem _ hd)
        have hlt := hs.1 d hd
        simp only at hlt
        refine ⟨by simpa using this.1, ?_⟩
        rw [List.getElem?_set_ne (by omega)]
        exact this.2
      obtain ⟨v, hv, hlen, hget⟩ := ih (v0.set x b) hs.2 hin'
      refine ⟨v, ?_, by simpa using hlen, ?_⟩
      · simp [foldV, hb, setBit, hx.1, hv]
      · intro k hk
        rw [hget k (by simpa using hk)]
        by_cases hkx : k = x
        · subst hkx
          have : ds.lookup k = none := lookup_none_of_lt (fun d hd => hs.1 d hd)
          simp [List.lookup, this, List.getD, hk]
        · have hne : (k == x) = false := by simp [hkx]
          have hne' : x ≠ k := fun e => hkx e.symm
          simp [List.lookup, hne, List.getD, List.getElem?_set_ne hne']

/-- the valuation written by a walk over a path, as a function -/
theorem foldV_path {A : Arr} {n : Nat} (h : Can A n) (init : Bool) {ds : List (Nat × Bool)} {p t : Nat}
    (hp : IsPath A p ds t) (hps : p < A.size) :
    ∃ v, foldV init ds (List.replicate n init) = some v ∧ v.length = n ∧
      ∀ k, k < n → fn v k = pathVal init ds k := by
  obtain ⟨hs, hin, _, _⟩ := path_sorted h ds p t hp hps
  obtain ⟨v, hv, hlen, hget⟩ := foldV_spec init ds (List.replicate n init) hs (by
    intro d hd
    have := (hin d hd).2
    simp [this])
  refine ⟨v, hv, by simpa using hlen, ?_⟩
  intro k hk
  have := hget k (by simpa using hk)
  simp [fn, pathVal, List.getD, this, hk]

/-- the clause function of a list of decisions -/
theorem getC_setC (c : Clause) (x : Nat) (b : Bool) (k : Nat) :
    getC (setC c x b) k = if k = x then some b else getC c k := by
  unfold getC setC
  by_cases hk : k = x
  · subst hk
    simp
    rw [List.getElem?_set_self (by simp; omega)]
    rfl
  · have hne : x ≠ k := fun e => hk e.symm
    rw [List.getElem?_set_ne hne]
    simp only [hk, if_false]
    by_cases hkl : k < c.length
    · rw [List.getElem?_append_left hkl]
    · rw [List.getElem?_append_right (by omega)]
      have : c[k]? = none := List.getElem?_eq_none (by omega)
      rw [this]
      by_cases h2 : k - c.length < x + 1 - c.length
      · simp [h2]
      · simp [h2]

theorem getC_foldl (ds : List (Nat × Bool)) :
    ∀ (c : Clause), ds.Pairwise (fun a b => a.1 < b.1) → ∀ k,
      getC (ds.foldl (fun c d => setC c d.1 d.2) c) k = ((ds.lookup k).map some).getD (getC c k) := by
  induction ds with
  | nil => intro c _ k; simp [List.lookup]
  | cons e ds ih =>
    intro c hs k
    obtain ⟨x, b⟩ := e
    rw [List.pairwise_cons] at hs
    simp only [List.foldl_cons]
    rw [ih _ hs.2 k, getC_setC]
    by_cases hkx : k = x
    · subst hkx
      have : ds.lookup k = none := lookup_none_of_lt (fun d hd => hs.1 d hd)
      simp [List.lookup, this]
    · have hne : (k == x) = false := by simp [hkx]
      simp [List.lookup, hne, hkx]

theorem getC_foldC {ds : List (Nat × Bool)} (hs : ds.Pairwise (fun a b => a.1 < b.1)) (k : Nat) :
    getC (foldC ds) k = ds.lookup k := by
  unfold foldC
  rw [getC_foldl ds [] hs k]
  cases ds.lookup k <;> simp [getC]

/-! ### generic induction over `descend` with the terminal test -/

/-- Every walk of the selectors chooses, at a decision node, a child that is not the zero terminal. -/
def GoodChoice (A : Arr) (choose : Nat → Node → Option Bool) : Prop :=
  ∀ p nd, 2 ≤ p → A[p]? = some nd → ∃ b, choose p nd = some b ∧ (if b then nd.high else nd.low) ≠ 0

/-- induction principle: a property of (pointer, decisions) that holds at the one terminal and is inherited
    from the chosen non-zero child holds for the result of the walk -/
theorem descend_ind {A : Arr} {n : Nat} (h : Can A n) {choose : Nat → Node → Option Bool}
    (hg : GoodChoice A choose) (P : Nat → List (Nat × Bool) → Prop)
    (h1 : P 1 [])
    (hstep : ∀ p nd b ds, 2 ≤ p → A[p]? = some nd → choose p nd = some b →
        (if b then nd.high else nd.low) ≠ 0 → P (if b then nd.high else nd.low) ds → P p ((nd.var, b) :: ds)) :
    ∀ (fuel p : Nat), 1 ≤ p → p ≤ fuel → p < A.size →
      ∃ ds, descend A isTerminal choose fuel p = some ds ∧ P p ds := by
  intro fuel
  induction fuel with
  | zero => intro p h1 h2; omega
  | succ fuel ih =>
    intro p hp1 hpf hps
    by_cases hp : p = 1
    · subst hp
      exact ⟨[], by simp [descend, isTerminal], h1⟩
    · have hp2 : 2 ≤ p := by omega
      obtain ⟨nd, hnd⟩ : ∃ nd, A[p]? = some nd := ⟨A[p], by simp [hps]⟩
      obtain ⟨b, hb, hc⟩ := hg p nd hp2 hnd
      obtain ⟨_, hl, hh, _, _, _, _⟩ := h.node hp2 hnd
      have hlt : (if b then nd.high else nd.low) < p := by cases b <;> simp <;> omega
      obtain ⟨ds, hds, hP⟩ := ih (if b then nd.high else nd.low) (by omega) (by omega) (by omega)
      refine ⟨(nd.var, b) :: ds, ?_, hstep p nd b ds hp2 hnd hb hc hP⟩
      have hnt : isTerminal p = false := by simp [isTerminal]; omega
      simp only [descend, hnt, hnd, hb, hds]
      rfl

/-- the walk follows a path to the one terminal -/
theorem descend_path {A : Arr} {n : Nat} (h : Can A n) {choose : Nat → Node → Option Bool}
    (hg : GoodChoice A choose) (fuel p : Nat) (hp1 : 1 ≤ p) (hpf : p ≤ fuel) (hps : p < A.size) :
    ∃ ds, descend A isTerminal choose fuel p = some ds ∧ IsPath A p ds 1 := by
  apply descend_ind h hg (fun p ds => IsPath A p ds 1) rfl _ fuel p hp1 hpf hps
  intro p nd b ds hp2 hnd _ _ hP
  exact ⟨hp2, nd, hnd, rfl, hP⟩

theorem goodChoice_first {A : Arr} {n : Nat} (h : Can A n) : GoodChoice A chooseFirst := by
  intro p nd hp2 hnd
  obtain ⟨_, _, _, hne, _⟩ := h.node hp2 hnd
  refine ⟨nd.low == 0, rfl, ?_⟩
  by_cases hl : nd.low = 0
  · simp [hl]; omega
  · simp [hl]

theorem goodChoice_last {A : Arr} {n : Nat} (h : Can A n) : GoodChoice A chooseLast := by
  intro p nd hp2 hnd
  obtain ⟨_, _, _, hne, _⟩ := h.node hp2 hnd
  refine ⟨!(nd.high == 0), rfl, ?_⟩
  by_cases hl : nd.high = 0
  · simp [hl]; omega
  · simp [hl]

/-! ### the valuation order: derived `Ord` of `Vec<bool>` (lexicographic, variable 0 first, `false < true`) -/

/-- `v ≤ w` in the derived order of `BddValuation` -/
def lexLe : List Bool → List Bool → Bool
  | [], _ => true
  | _ :: _, [] => false
  | a :: as, b :: bs => (!a && b) || (a == b && lexLe as bs)

/-- the same order on valuation functions, over the variables `l, l+1, …, l+k-1` -/
def LexLe (f g : Nat → Bool) : Nat → Nat → Prop
  | _, 0 => True
  | l, k + 1 => (f l = false ∧ g l = true) ∨ (f l = g l ∧ LexLe f g (l + 1) k)

theorem lexLe_of_LexLe : ∀ (v w : List Bool) (f g : Nat → Bool) (l : Nat), v.length = w.length →
    (∀ j, j < v.length → f (l + j) = v.getD j false) → (∀ j, j < w.length → g (l + j) = w.getD j false) →
    LexLe f g l v.length → lexLe v w = true := by
  intro v
  induction v with
  | nil => intro w _ _ _ _ _ _ _; simp [lexLe]
  | cons a as ih =>
    intro w f g l hlen hf hg hle
    cases w with
    | nil => simp at hlen
    | cons b bs =>
      have hfa : f l = a := by simpa using hf 0 (by simp)
      have hgb : g l = b := by simpa using hg 0 (by simp)
      simp only [List.length_cons] at hle
      simp only [lexLe, Bool.or_eq_true, Bool.and_eq_true, Bool.not_eq_true', beq_iff_eq]
      rcases hle with ⟨h1, h2⟩ | ⟨h1, h2⟩
      · left; rw [← hfa, ← hgb]; exact ⟨h1, h2⟩
      · right
        refine ⟨by rw [← hfa, ← hgb]; exact h1, ?_⟩
        apply ih bs f g (l + 1) (by simpa using hlen) _ _ h2
        · intro j hj
          have := hf (j + 1) (by simp; omega)
          simpa [Nat.add_assoc, Nat.add_comm 1 j] using this
        · intro j hj
          have := hg (j + 1) (by simp; omega)
          simpa [Nat.add_assoc, Nat.add_comm 1 j] using this

/-- crossing a gap on which the left valuation is all `false` -/
theorem LexLe_gap_false (f g : Nat → Bool) : ∀ (d l k : Nat), (∀ j, l ≤ j → j < l + d → f j = false) →
    LexLe f g (l + d) k → LexLe f g l (d + k) := by
  intro d
  induction d with
  | zero => intro l k _ h; simpa using h
  | succ d ih =>
    intro l k hf h
    have : d + 1 + k = (d + k) + 1 := by omega
    rw [this]
    simp only [LexLe]
    have hfl := hf l (Nat.le_refl _) (by omega)
    cases hg : g l
    · right
      refine ⟨by rw [hfl], ?_⟩
      apply ih (l + 1) k (fun j h1 h2 => hf j (by omega) (by omega))
      have : l + 1 + d = l + (d + 1) := by omega
      rw [this]; exact h
    · left; exact ⟨hfl, rfl⟩

/-- crossing a gap on which the right valuation is all `true` -/
theorem LexLe_gap_true (f g : Nat → Bool) : ∀ (d l k : Nat), (∀ j, l ≤ j → j < l + d → g j = true) →
    LexLe f g (l + d) k → LexLe f g l (d + k) := by
  intro d
  induction d with
  | zero => intro l k _ h; simpa using h
  | succ d ih =>
    intro l k hg h
    have : d + 1 + k = (d + k) + 1 := by omega
    rw [this]
    simp only [LexLe]
    have hgl := hg l (Nat.le_refl _) (by omega)
    cases hf : f l
    · left; exact ⟨rfl, hgl⟩
    · right
      refine ⟨by rw [hgl], ?_⟩
      apply ih (l + 1) k (fun j h1 h2 => hg j (by omega) (by omega))
      have : l + 1 + d = l + (d + 1) := by omega
      rw [this]; exact h

/-- crossing a gap on which both valuations agree -/
theorem LexLe_gap_eq (f g : Nat → Bool) : ∀ (d l k : Nat), (∀ j, l ≤ j → j < l + d → f j = g j) →
    LexLe f g (l + d) k → LexLe f g l (d + k) := by
  intro d
  induction d with
  | zero => intro l k _ h; simpa using h
  | succ d ih =>
    intro l k hfg h
    have : d + 1 + k = (d + k) + 1 := by omega
    rw [this]
    simp only [LexLe]
    right
    refine ⟨hfg l (Nat.le_refl _) (by omega), ?_⟩
    apply ih (l + 1) k (fun j h1 h2 => hfg j (by omega) (by omega))
    have : l + 1 + d = l + (d + 1) := by omega
    rw [this]; exact h

end B.Select
