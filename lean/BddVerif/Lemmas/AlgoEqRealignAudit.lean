import BddVerif.Lemmas.AlgoEqRealign
/-! axiom audit of the `fix_bdd_alignment` equivalence -/
#print axioms B.AlgoEq.forIn_range_eq_loopN
#print axioms B.AlgoEq.fix_desugar
#print axioms B.AlgoEq.rloop_all
#print axioms B.AlgoEq.fix_bdd_alignment_eq_model
#print axioms B.AlgoEq.fix_bdd_alignment_eq_canon
#print axioms B.AlgoEq.fix_bdd_alignment_panic_empty
#print axioms B.AlgoEq.fix_bdd_alignment_panic_root
