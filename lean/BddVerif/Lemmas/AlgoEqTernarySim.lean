import BddVerif.Lemmas.AlgoEqApplySim
import BddVerif.Lemmas.AlgoEqTernaryModel
/-!
Equivalence "translated Rust = hand-written model" for `ternary_apply`, part 3: the SIMULATION
(cf. Lemmas/AlgoEqApplySim.lean).
-/
namespace B.AlgoEqT
open B B.Gen Std B.AlgoEqA

/-- the loop variables made of a model state and a stack -/
def ofSt3 (s : St3) (stk : Array Task3) : LS3 := (s.res, s.nonEmpty, s.existing, stk, s.finished)

theorem look3_none {op : Op3} {fin : HashMap Task3 Nat} {c : Task3} (h : look3 op fin c = none) :
    op (asBool c.1) (asBool c.2.1) (asBool c.2.2) = none ∧ fin[c]? = none := by
  unfold look3 at h
  cases hop : op (asBool c.1) (asBool c.2.1) (asBool c.2.2) with
  | some b => rw [hop] at h; cases h
  | none => rw [hop] at h; exact ⟨rfl, h⟩

theorem look3_of_none {op : Op3} {fin : HashMap Task3 Nat} {c : Task3}
    (h : op (asBool c.1) (asBool c.2.1) (asBool c.2.2) = none) : look3 op fin c = fin[c]? := by
  unfold look3; rw [h]

/-! ### the three kinds of iterations -/

theorem cstep3_pop (Γ : Ctx3) (s : St3) (stk : Array Task3) (t : Task3) (p : Nat)
    (h : s.finished[t]? = some p) : cstep3 Γ (ofSt3 s (stk.push t)) = .ok (.yield (ofSt3 s stk)) := by
  unfold cstep3 ofSt3
  simp only [Array.back?_push, Array.pop_push, HashMap.contains_eq_isSome_getElem?, h, Option.isSome_some,
    if_true]

theorem fin32_finish3 (s : St3) (t : Task3) (d a b : Nat) (fl : Bool)
    (hsz : (finish3 s t d a b fl).1.res.size ≤ U32) :
    fin32_3 s.res s.nonEmpty s.existing s.finished t d a b fl =
      ((finish3 s t d a b fl).1.res, (finish3 s t d a b fl).1.nonEmpty, (finish3 s t d a b fl).1.existing,
        (finish3 s t d a b fl).1.finished) := by
  obtain ⟨res, ex, fin, ne⟩ := s
  revert hsz
  unfold fin32_3 finish3 findOrPush3
  generalize (if fl = true then (⟨d, b, a⟩ : Node) else ⟨d, a, b⟩) = node
  by_cases hf : a = 1 ∨ b = 1
  · simp only [hf, if_true]
    by_cases hab : a = b
    · simp only [hab, if_true]; intro _; trivial
    · simp only [hab, if_false]
      cases ex[node]? with
      | some i => intro _; rfl
      | none =>
        simp only [Array.size_push]
        intro h
        have : u32 res.size = res.size := Nat.mod_eq_of_lt (by unfold U32 at h; omega)
        rw [this]
  · simp only [hf, if_false]
    by_cases hab : a = b
    · simp only [hab, if_true]; intro _; trivial
    · simp only [hab, if_false]
      cases ex[node]? with
      | some i => intro _; rfl
      | none =>
        simp only [Array.size_push]
        intro h
        have : u32 res.size = res.size := Nat.mod_eq_of_lt (by unfold U32 at h; omega)
        rw [this]

/-- both sub-results are known: the task is finished exactly as `finish3` does, and popped -/
theorem cstep3_known (Γ : Ctx3) (ok : COk3 Γ) (s : St3) (stk : Array Task3) (a b c : Nat)
    (ha : a < Γ.A.size) (hb : b < Γ.B.size) (hc : c < Γ.C.size) (hn : s.finished[(a, b, c)]? = none)
    (x y : Nat)
    (hx : look3 Γ.op s.finished ((kids Γ.A a (lv3 Γ a b c) Γ.fa).1, (kids Γ.B b (lv3 Γ a b c) Γ.fb).1,
      (kids Γ.C c (lv3 Γ a b c) Γ.fc).1) = some x)
    (hy : look3 Γ.op s.finished ((kids Γ.A a (lv3 Γ a b c) Γ.fa).2, (kids Γ.B b (lv3 Γ a b c) Γ.fb).2,
      (kids Γ.C c (lv3 Γ a b c) Γ.fc).2) = some y)
    (hsz : (finish3 s (a, b, c) (lv3 Γ a b c) x y (decide (Γ.fo = some (lv3 Γ a b c)))).1.res.size ≤ U32) :
    cstep3 Γ (ofSt3 s (stk.push (a, b, c))) =
      .ok (.yield (ofSt3 (finish3 s (a, b, c) (lv3 Γ a b c) x y (decide (Γ.fo = some (lv3 Γ a b c)))).1 stk)) := by
  unfold cstep3 ofSt3
  simp only [Array.back?_push, Array.pop_push, HashMap.contains_eq_isSome_getElem?, hn, Option.isSome_none,
    Bool.false_eq_true, if_false, getElem?_of_lt _ _ ha, getElem?_of_lt _ _ hb, getElem?_of_lt _ _ hc,
    lv3_nodeAt Γ ok a b c ha hb hc, hx, hy, fin32_finish3 s (a, b, c) _ x y _ hsz]

/-- some sub-result is unknown: the unknown sub-tasks are pushed -/
theorem cstep3_push (Γ : Ctx3) (ok : COk3 Γ) (s : St3) (stk : Array Task3) (a b c : Nat)
    (ha : a < Γ.A.size) (hb : b < Γ.B.size) (hc : c < Γ.C.size) (hn : s.finished[(a, b, c)]? = none)
    (hu : look3 Γ.op s.finished ((kids Γ.A a (lv3 Γ a b c) Γ.fa).1, (kids Γ.B b (lv3 Γ a b c) Γ.fb).1,
            (kids Γ.C c (lv3 Γ a b c) Γ.fc).1) = none ∨
          look3 Γ.op s.finished ((kids Γ.A a (lv3 Γ a b c) Γ.fa).2, (kids Γ.B b (lv3 Γ a b c) Γ.fb).2,
            (kids Γ.C c (lv3 Γ a b c) Γ.fc).2) = none) :
    cstep3 Γ (ofSt3 s (stk.push (a, b, c))) =
      .ok (.yield (ofSt3 s
        (if Γ.fo = some (lv3 Γ a b c) then
          pushIf3 (look3 Γ.op s.finished ((kids Γ.A a (lv3 Γ a b c) Γ.fa).1, (kids Γ.B b (lv3 Γ a b c) Γ.fb).1,
              (kids Γ.C c (lv3 Γ a b c) Γ.fc).1))
            ((kids Γ.A a (lv3 Γ a b c) Γ.fa).1, (kids Γ.B b (lv3 Γ a b c) Γ.fb).1, (kids Γ.C c (lv3 Γ a b c) Γ.fc).1)
            (pushIf3 (look3 Γ.op s.finished ((kids Γ.A a (lv3 Γ a b c) Γ.fa).2, (kids Γ.B b (lv3 Γ a b c) Γ.fb).2,
                (kids Γ.C c (lv3 Γ a b c) Γ.fc).2))
              ((kids Γ.A a (lv3 Γ a b c) Γ.fa).2, (kids Γ.B b (lv3 Γ a b c) Γ.fb).2,
                (kids Γ.C c (lv3 Γ a b c) Γ.fc).2) (stk.push (a, b, c)))
        else
          pushIf3 (look3 Γ.op s.finished ((kids Γ.A a (lv3 Γ a b c) Γ.fa).2, (kids Γ.B b (lv3 Γ a b c) Γ.fb).2,
              (kids Γ.C c (lv3 Γ a b c) Γ.fc).2))
            ((kids Γ.A a (lv3 Γ a b c) Γ.fa).2, (kids Γ.B b (lv3 Γ a b c) Γ.fb).2, (kids Γ.C c (lv3 Γ a b c) Γ.fc).2)
            (pushIf3 (look3 Γ.op s.finished ((kids Γ.A a (lv3 Γ a b c) Γ.fa).1, (kids Γ.B b (lv3 Γ a b c) Γ.fb).1,
                (kids Γ.C c (lv3 Γ a b c) Γ.fc).1))
              ((kids Γ.A a (lv3 Γ a b c) Γ.fa).1, (kids Γ.B b (lv3 Γ a b c) Γ.fb).1,
                (kids Γ.C c (lv3 Γ a b c) Γ.fc).1) (stk.push (a, b, c)))))) := by
  unfold cstep3 ofSt3
  simp only [Array.back?_push, HashMap.contains_eq_isSome_getElem?, hn, Option.isSome_none,
    Bool.false_eq_true, if_false, getElem?_of_lt _ _ ha, getElem?_of_lt _ _ hb, getElem?_of_lt _ _ hc,
    lv3_nodeAt Γ ok a b c ha hb hc]
  generalize look3 Γ.op s.finished ((kids Γ.A a (lv3 Γ a b c) Γ.fa).1, (kids Γ.B b (lv3 Γ a b c) Γ.fb).1,
    (kids Γ.C c (lv3 Γ a b c) Γ.fc).1) = x at hu ⊢
  generalize look3 Γ.op s.finished ((kids Γ.A a (lv3 Γ a b c) Γ.fa).2, (kids Γ.B b (lv3 Γ a b c) Γ.fb).2,
    (kids Γ.C c (lv3 Γ a b c) Γ.fc).2) = y at hu ⊢
  cases x with
  | none => cases y <;> by_cases hfo : Γ.fo = some (lv3 Γ a b c) <;> simp only [hfo, if_true, if_false]
  | some x =>
    cases y with
    | none => by_cases hfo : Γ.fo = some (lv3 Γ a b c) <;> simp only [hfo, if_true, if_false]
    | some y => rcases hu with h | h <;> cases h

theorem cstep3_done (Γ : Ctx3) (s : St3) : cstep3 Γ (ofSt3 s #[]) = .ok (.done (ofSt3 s #[])) := by
  unfold cstep3 ofSt3; rfl

/-! ### the simulation -/

def SIM3 (Γ : Ctx3) (f : Nat) : Prop :=
  ∀ (a b c : Nat) (s : St3) (stk : Array Task3), a < Γ.A.size → b < Γ.B.size → c < Γ.C.size →
    Γ.n - lv3 Γ a b c < f → s.finished[(a, b, c)]? = none → (applyRec3 Γ f a b c s).1.res.size ≤ U32 →
    ∃ k, runs (cstep3 Γ) k (ofSt3 s (stk.push (a, b, c))) (ofSt3 (applyRec3 Γ f a b c s).1 stk) ∧
      k + 2 + 3 * s.finished.size ≤ 3 * (applyRec3 Γ f a b c s).1.finished.size

theorem child_run3 (Γ : Ctx3) (m f' : Nat) (ih : SIM3 Γ f') (c : Task3) (s : St3) (stk : Array Task3)
    (hc : ChildOK3 Γ m f' c) (hop : Γ.op (asBool c.1) (asBool c.2.1) (asBool c.2.2) = none)
    (hsz : (solve3 Γ.op (applyRec3 Γ f') c.1 c.2.1 c.2.2 s).1.res.size ≤ U32) :
    ∃ k, runs (cstep3 Γ) k (ofSt3 s (stk.push c)) (ofSt3 (solve3 Γ.op (applyRec3 Γ f') c.1 c.2.1 c.2.2 s).1 stk) ∧
      k + 3 * s.finished.size ≤ 3 * (solve3 Γ.op (applyRec3 Γ f') c.1 c.2.1 c.2.2 s).1.finished.size + 1 ∧
      (s.finished[c]? = none →
        k + 2 + 3 * s.finished.size ≤ 3 * (solve3 Γ.op (applyRec3 Γ f') c.1 c.2.1 c.2.2 s).1.finished.size) := by
  cases hfin : s.finished[c]? with
  | some p =>
    have hl : look3 Γ.op s.finished c = some p := by rw [look3_of_none hop]; exact hfin
    rw [solve3_known Γ m f' c s p hc hl]
    exact ⟨1, runs_one (cstep3_pop Γ s stk c p hfin), by simp only; omega, fun h => by cases h⟩
  | none =>
    have hs : solve3 Γ.op (applyRec3 Γ f') c.1 c.2.1 c.2.2 s = applyRec3 Γ f' c.1 c.2.1 c.2.2 s := by
      unfold solve3; rw [hop]
    rw [hs] at hsz ⊢
    rcases hc with hc | ⟨h1, h2, h3, h4, _⟩
    · exact absurd hop hc
    · obtain ⟨k, hk, hcost⟩ := ih c.1 c.2.1 c.2.2 s stk h1 h2 h3 h4 hfin hsz
      exact ⟨k, hk, by omega, fun _ => hcost⟩

theorem parent_sim3 (Γ : Ctx3) (f' : Nat) (a b c : Nat) (c1 c2 : Task3) (F : St3 → Nat → Nat → St3 × Nat)
    (hc1 : ChildOK3 Γ (lv3 Γ a b c) f' c1) (hc2 : ChildOK3 Γ (lv3 Γ a b c) f' c2)
    (hpost : ∀ a b c s, a < Γ.A.size → b < Γ.B.size → c < Γ.C.size → Γ.n - lv3 Γ a b c < f' →
      Post3 Γ s a b c (applyRec3 Γ f' a b c s))
    (ih : SIM3 Γ f')
    (hK : ∀ (s' : St3) (stk : Array Task3) (p1 p2 : Nat), s'.finished[(a, b, c)]? = none →
      look3 Γ.op s'.finished c1 = some p1 → look3 Γ.op s'.finished c2 = some p2 →
      (F s' p1 p2).1.res.size ≤ U32 →
      cstep3 Γ (ofSt3 s' (stk.push (a, b, c))) = .ok (.yield (ofSt3 (F s' p1 p2).1 stk)))
    (hP : ∀ (s' : St3) (stk : Array Task3), s'.finished[(a, b, c)]? = none →
      (look3 Γ.op s'.finished c1 = none ∨ look3 Γ.op s'.finished c2 = none) →
      cstep3 Γ (ofSt3 s' (stk.push (a, b, c))) = .ok (.yield (ofSt3 s'
        (pushIf3 (look3 Γ.op s'.finished c1) c1 (pushIf3 (look3 Γ.op s'.finished c2) c2 (stk.push (a, b, c)))))))
    (hF : ∀ (s' : St3) (p1 p2 : Nat), s'.finished[(a, b, c)]? = none →
      Grow3 s' (F s' p1 p2).1 ∧ (F s' p1 p2).1.finished.size = s'.finished.size + 1)
    (s : St3) (stk : Array Task3) (hn : s.finished[(a, b, c)]? = none)
    (hsz : (F (solve3 Γ.op (applyRec3 Γ f') c2.1 c2.2.1 c2.2.2
        (solve3 Γ.op (applyRec3 Γ f') c1.1 c1.2.1 c1.2.2 s).1).1
      (solve3 Γ.op (applyRec3 Γ f') c1.1 c1.2.1 c1.2.2 s).2
      (solve3 Γ.op (applyRec3 Γ f') c2.1 c2.2.1 c2.2.2
        (solve3 Γ.op (applyRec3 Γ f') c1.1 c1.2.1 c1.2.2 s).1).2).1.res.size ≤ U32) :
    ∃ k, runs (cstep3 Γ) k (ofSt3 s (stk.push (a, b, c)))
      (ofSt3 (F (solve3 Γ.op (applyRec3 Γ f') c2.1 c2.2.1 c2.2.2
          (solve3 Γ.op (applyRec3 Γ f') c1.1 c1.2.1 c1.2.2 s).1).1
        (solve3 Γ.op (applyRec3 Γ f') c1.1 c1.2.1 c1.2.2 s).2
        (solve3 Γ.op (applyRec3 Γ f') c2.1 c2.2.1 c2.2.2
          (solve3 Γ.op (applyRec3 Γ f') c1.1 c1.2.1 c1.2.2 s).1).2).1 stk) ∧
      k + 2 + 3 * s.finished.size ≤
        3 * (F (solve3 Γ.op (applyRec3 Γ f') c2.1 c2.2.1 c2.2.2
            (solve3 Γ.op (applyRec3 Γ f') c1.1 c1.2.1 c1.2.2 s).1).1
          (solve3 Γ.op (applyRec3 Γ f') c1.1 c1.2.1 c1.2.2 s).2
          (solve3 Γ.op (applyRec3 Γ f') c2.1 c2.2.1 c2.2.2
            (solve3 Γ.op (applyRec3 Γ f') c1.1 c1.2.1 c1.2.2 s).1).2).1.finished.size := by
  have P1 := solve3_post Γ (lv3 Γ a b c) f' c1 s hpost hc1
  have P2 := solve3_post Γ (lv3 Γ a b c) f' c2 (solve3 Γ.op (applyRec3 Γ f') c1.1 c1.2.1 c1.2.2 s).1 hpost hc2
  generalize hr1 : solve3 Γ.op (applyRec3 Γ f') c1.1 c1.2.1 c1.2.2 s = r1 at *
  generalize hr2 : solve3 Γ.op (applyRec3 Γ f') c2.1 c2.2.1 c2.2.2 r1.1 = r2 at *
  have hn1 : r1.1.finished[(a, b, c)]? = none := by rw [P1.frame.below a b c (by omega)]; exact hn
  have hn2 : r2.1.finished[(a, b, c)]? = none := parent_none3 P1.frame P2.frame hn
  have k1 : look3 Γ.op r2.1.finished c1 = some r1.2 := look3_frame P2.frame c1 r1.2 P1.known
  have k2 := P2.known
  obtain ⟨GF, hFs⟩ := hF r2.1 r1.2 r2.2 hn2
  have hsz2 : r2.1.res.size ≤ U32 := Nat.le_trans GF.res hsz
  have hsz1 : r1.1.res.size ≤ U32 := Nat.le_trans P2.grow.res hsz2
  have hlast := hK r2.1 stk r1.2 r2.2 hn2 k1 k2 hsz
  have hmid : ∃ k', runs (cstep3 Γ) k' (ofSt3 s (stk.push (a, b, c))) (ofSt3 r2.1 (stk.push (a, b, c))) ∧
      k' + 3 * s.finished.size ≤ 3 * r2.1.finished.size := by
    cases hL1 : look3 Γ.op s.finished c1 with
    | some p1 =>
      have e1 : r1 = (s, p1) := by rw [← hr1]; exact solve3_known Γ _ f' c1 s p1 hc1 hL1
      subst e1
      cases hL2 : look3 Γ.op s.finished c2 with
      | some p2 =>
        have e2 : r2 = (s, p2) := by rw [← hr2]; exact solve3_known Γ _ f' c2 s p2 hc2 hL2
        subst e2
        exact ⟨0, rfl, by simp only; omega⟩
      | none =>
        obtain ⟨hop2, hf2⟩ := look3_none hL2
        have hstep := hP s stk hn (Or.inr hL2)
        rw [hL1, hL2] at hstep
        obtain ⟨k2', hk2, _, hcost⟩ := child_run3 Γ _ f' ih c2 s (stk.push (a, b, c)) hc2 hop2
          (by rw [hr2]; exact hsz2)
        rw [hr2] at hk2 hcost
        have := hcost hf2
        exact ⟨k2' + 1, by rw [Nat.add_comm]; exact runs_trans (runs_one hstep) hk2, by omega⟩
    | none =>
      obtain ⟨hop1, hf1⟩ := look3_none hL1
      cases hL2 : look3 Γ.op s.finished c2 with
      | some p2 =>
        have hstep := hP s stk hn (Or.inl hL1)
        rw [hL1, hL2] at hstep
        obtain ⟨k1', hk1, _, hcost⟩ := child_run3 Γ _ f' ih c1 s (stk.push (a, b, c)) hc1 hop1
          (by rw [hr1]; exact hsz1)
        rw [hr1] at hk1 hcost
        have hc := hcost hf1
        have e2 : r2 = (r1.1, p2) := by
          rw [← hr2]; exact solve3_known Γ _ f' c2 r1.1 p2 hc2 (look3_frame P1.frame c2 p2 hL2)
        subst e2
        exact ⟨k1' + 1, by rw [Nat.add_comm]; exact runs_trans (runs_one hstep) hk1,
          by show _ + 3 * _ ≤ 3 * r1.1.finished.size; omega⟩
      | none =>
        obtain ⟨hop2, _⟩ := look3_none hL2
        have hstep := hP s stk hn (Or.inl hL1)
        rw [hL1, hL2] at hstep
        obtain ⟨k1', hk1, _, hcost1⟩ := child_run3 Γ _ f' ih c1 s ((stk.push (a, b, c)).push c2) hc1 hop1
          (by rw [hr1]; exact hsz1)
        rw [hr1] at hk1 hcost1
        have hc1' := hcost1 hf1
        obtain ⟨k2', hk2, hcost2, _⟩ := child_run3 Γ _ f' ih c2 r1.1 (stk.push (a, b, c)) hc2 hop2
          (by rw [hr2]; exact hsz2)
        rw [hr2] at hk2 hcost2
        refine ⟨1 + (k1' + k2'), runs_trans (runs_one hstep) (runs_trans hk1 hk2), by omega⟩
  obtain ⟨k', hk', hcost'⟩ := hmid
  exact ⟨k' + 1, runs_trans hk' (runs_one hlast), by omega⟩

/-- SIMULATION THEOREM (all level fuels) -/
theorem sim3 (Γ : Ctx3) (ok : COk3 Γ) : ∀ f, SIM3 Γ f := by
  intro f
  induction f with
  | zero => intro a b c s stk _ _ _ h; omega
  | succ f' ih =>
    intro a b c s stk ha hb hc hf hn
    show (applyStep3 Γ (applyRec3 Γ f') a b c s).1.res.size ≤ U32 →
      ∃ k, runs (cstep3 Γ) k (ofSt3 s (stk.push (a, b, c))) (ofSt3 (applyStep3 Γ (applyRec3 Γ f') a b c s).1 stk) ∧
        k + 2 + 3 * s.finished.size ≤ 3 * (applyStep3 Γ (applyRec3 Γ f') a b c s).1.finished.size
    unfold applyStep3
    simp only [hn]
    rw [lv3_nodeAt Γ ok a b c ha hb hc]
    have CT := kids_childOK3 Γ ok a b c f' ha hb hc hf true
    have CF := kids_childOK3 Γ ok a b c f' ha hb hc hf false
    simp only [sel_true, sel_false] at CT CF
    have hpost := applyRec3_post Γ ok f'
    by_cases hfo : Γ.fo = some (lv3 Γ a b c)
    · simp only [hfo, if_true]
      intro hsz
      refine parent_sim3 Γ f' a b c _ _ (fun s' p1 p2 => finish3 s' (a, b, c) (lv3 Γ a b c) p1 p2 true)
        CF CT hpost ih ?_ ?_ ?_ s stk hn hsz
      · intro s' stk' p1 p2 h0 h1 h2 h3
        have := cstep3_known Γ ok s' stk' a b c ha hb hc h0 p1 p2 h1 h2
        simp only [hfo, decide_true] at this
        exact this h3
      · intro s' stk' h0 hu
        have := cstep3_push Γ ok s' stk' a b c ha hb hc h0 hu
        simp only [hfo, if_true] at this
        exact this
      · intro s' p1 p2 h0
        exact finish3_grow s' (a, b, c) _ p1 p2 true h0
    · simp only [hfo, if_false]
      intro hsz
      refine parent_sim3 Γ f' a b c _ _ (fun s' p1 p2 => finish3 s' (a, b, c) (lv3 Γ a b c) p2 p1 false)
        CT CF hpost ih ?_ ?_ ?_ s stk hn hsz
      · intro s' stk' p1 p2 h0 h1 h2 h3
        have := cstep3_known Γ ok s' stk' a b c ha hb hc h0 p2 p1 h2 h1
        simp only [hfo, decide_false] at this
        exact this h3
      · intro s' stk' h0 hu
        have := cstep3_push Γ ok s' stk' a b c ha hb hc h0 hu.symm
        simp only [hfo, if_false] at this
        exact this
      · intro s' p1 p2 h0
        exact finish3_grow s' (a, b, c) _ p2 p1 false h0

end B.AlgoEqT
