import BddVerif.Lemmas.AlgoEq2SelectTable
/-!
# `random_valuation`, `random_clause`: translated code = hand model

The `rand::Rng` argument of the Rust functions is the explicit list of coin flips (`Rust.genBool`, consumed in call
order; an exhausted list yields `false`), exactly as in the hand models `Select.randomValuation` /
`Select.randomClause`. The translated functions also return the remaining flips (the updated `&mut rng`); the hand
models do not, so the first component is compared (as the replay driver does).
`random_clause` has a `while` loop: compared at every fuel (`randomClauseF`), monotone in the fuel.
`random_valuation` has a `for` loop over the variables: no fuel.
-/
namespace B.AlgoEq2Sel
open B B.Gen B.Select B.AlgoEqUtil

attribute [local instance 10000] Rust.monadOutcomeInline

theorem set_value_eq (v : Array Bool) (x : Nat) (b : Bool) :
    Algo.BddValuation_set_value v x b = Rust.setIdx v x b := by
  unfold Algo.BddValuation_set_value
  show (Rust.setIdx v x b >>= fun a => pure a) = _
  generalize Rust.setIdx v x b = r
  cases r <;> rfl

/-! ## random_clause -/

/-- hand-written body of the `while !node.is_one()` loop; state = (`rng`, `path`, `node`) -/
def rcStep (A : Arr) (st : List Bool × Array (Option Bool) × Nat) :
    Outcome (ForInStep (List Bool × Array (Option Bool) × Nat)) :=
  if st.2.2 = 1 then .ok (.done st) else
  match A[st.2.2]? with
  | none => .panic "index out of bounds"
  | some nd =>
    .ok (.yield ((randChild nd st.1).2, Rust.pvalSetValue st.2.1 nd.var (randChild nd st.1).1,
      if (randChild nd st.1).1 then nd.high else nd.low))

def rcPost (st : List Bool × Array (Option Bool) × Nat) : Outcome (Option (Array (Option Bool)) × List Bool) :=
  if st.2.2 = 1 then .ok (some st.2.1, st.1) else .panic "fuel"

theorem random_clause_desugar (fuel : Nat) (A : Arr) (fl : List Bool) (h0 : 0 < A.size)
    (hs : A.size ≤ 4294967296) (h1 : A.size ≠ 1) :
    Algo2.Bdd_random_clause fuel A fl = (iter (rcStep A) fuel (fl, #[], root A)).bind rcPost := by
  unfold Algo2.Bdd_random_clause Algo.Bdd_is_false
  simp only [forIn_range_eq_iter, root_pointer_eq A h0 hs, bind_ok, beq_iff_eq, h1, if_false]
  rw [iter_congr _ (rcStep A)]
  · unfold Algo.BddPartialValuation_empty
    cases iter (rcStep A) fuel (fl, #[], root A) with
    | ok st =>
      obtain ⟨r, c, p⟩ := st
      simp only [bind_ok, Outcome.bind, rcPost, is_one_eq]
      by_cases hp : p = 1
      · simp [hp]
      · simp [hp]
    | err m => rfl
    | panic m => rfl
  · intro ⟨r, c, p⟩
    simp only [rcStep, randChild, coin, Rust.genBool, is_one_eq, is_zero_eq, low_link_eq, high_link_eq, var_of_eq,
      pure_eq]
    by_cases hp : p = 1
    · simp [hp]
    · simp only [hp, decide_false, Bool.not_false, Bool.not_true, Bool.false_eq_true, if_false]
      cases hA : A[p]? with
      | none => rfl
      | some nd =>
        simp only [bind_ok]
        by_cases hl : nd.low = 0
        · simp [hl]
        · by_cases hh : nd.high = 0
          · simp [hl, hh]
          · simp only [hl, hh, decide_false, Bool.false_eq_true, if_false]
            generalize r.headD false = b
            cases b <;> rfl

/-- the hand model with the fuel of the walk as a parameter -/
def randomClauseF (A : Arr) (fl : List Bool) (fuel : Nat) : Sel Clause :=
  if Select.isFalse A then Sel.none else ofOpt ((randClauseLoop A fuel (root A) fl).map foldC)

theorem randomClauseF_size (A : Arr) (fl : List Bool) : randomClauseF A fl A.size = randomClause A fl := rfl

theorem rc_sem (A : Arr) : ∀ (fuel p : Nat) (fl : List Bool) (c : Array (Option Bool)),
    RelO (((iter (rcStep A) fuel (fl, c, p)).bind rcPost).map fun r => (r.1.map Array.toList))
      ((randClauseLoop A fuel p fl).map fun ds => some (ds.foldl (fun c d => setC c d.1 d.2) c.toList)) := by
  intro fuel
  induction fuel with
  | zero =>
    intro p fl c
    rw [iter_zero]
    unfold randClauseLoop
    by_cases hp : p = 1
    · simp only [hp, Outcome.bind, rcPost, if_true, Outcome.map, Option.map, List.foldl_nil]; exact RelO.ok _
    · simp only [hp, Outcome.bind, rcPost, if_false, Outcome.map, Option.map]; exact RelO.panic _
  | succ n ih =>
    intro p fl c
    rw [iter_succ]
    unfold randClauseLoop
    simp only [rcStep]
    by_cases hp : p = 1
    · simp only [hp, Outcome.bind, rcPost, if_true, Outcome.map, Option.map, List.foldl_nil]; exact RelO.ok _
    · simp only [hp, if_false]
      cases hA : A[p]? with
      | none => exact RelO.panic _
      | some nd =>
        simp only
        have := ih (if (randChild nd fl).1 then nd.high else nd.low) (randChild nd fl).2
          (Rust.pvalSetValue c nd.var (randChild nd fl).1)
        rw [pvalSetValue_toList] at this
        cases hr : randClauseLoop A n (if (randChild nd fl).1 then nd.high else nd.low) (randChild nd fl).2 with
        | none => rw [hr] at this; exact this
        | some ds => rw [hr] at this; exact this

theorem randClauseLoop_mono (A : Arr) : ∀ (f f' p : Nat) (fl : List Bool) (ds : List (Nat × Bool)), f ≤ f' →
    randClauseLoop A f p fl = some ds → randClauseLoop A f' p fl = some ds := by
  intro f
  induction f with
  | zero =>
    intro f' p fl ds _ h
    unfold randClauseLoop at h
    by_cases hp : p = 1
    · cases f' <;> (unfold randClauseLoop; simpa [hp] using h)
    · simp [hp] at h
  | succ f ih =>
    intro f' p fl ds hle h
    obtain ⟨f'', rfl⟩ : ∃ k, f' = k + 1 := ⟨f' - 1, by omega⟩
    unfold randClauseLoop at h ⊢
    by_cases hp : p = 1
    · simpa [hp] using h
    · simp only [hp, if_false] at h ⊢
      cases hA : A[p]? with
      | none => rw [hA] at h; cases h
      | some nd =>
        rw [hA] at h
        simp only at h ⊢
        cases hr : randClauseLoop A f (if (randChild nd fl).1 then nd.high else nd.low) (randChild nd fl).2 with
        | none => rw [hr] at h; cases h
        | some ds' =>
          rw [hr] at h
          rw [ih f'' _ _ ds' (by omega) hr]
          exact h

theorem randomClauseF_mono {A : Arr} {fl : List Bool} {f f' : Nat} {c : Clause}
    (hle : f ≤ f') (h : randomClauseF A fl f = Sel.some c) : randomClauseF A fl f' = Sel.some c := by
  unfold randomClauseF at h ⊢
  cases hF : Select.isFalse A with
  | true => rw [hF] at h; cases h
  | false =>
    rw [hF] at h
    simp only [Bool.false_eq_true, if_false] at h ⊢
    cases hd : randClauseLoop A f (root A) fl with
    | none => rw [hd] at h; cases h
    | some ds => rw [randClauseLoop_mono A f f' _ _ ds hle hd]; rw [hd] at h; exact h

/-- **random_clause, every fuel** (first component: the clause) -/
theorem Bdd_random_clause_eq_loop (fuel : Nat) (A : Arr) (fl : List Bool) (h0 : 0 < A.size)
    (hs : A.size ≤ 4294967296) :
    selC ((Algo2.Bdd_random_clause fuel A fl).map (·.1)) = randomClauseF A fl fuel := by
  by_cases h1 : A.size = 1
  · unfold Algo2.Bdd_random_clause Algo.Bdd_is_false randomClauseF Select.isFalse
    simp [h1, selC, Outcome.map]
  rw [random_clause_desugar fuel A fl h0 hs h1]
  unfold randomClauseF Select.isFalse
  simp only [beq_iff_eq, h1, if_false]
  have := rc_sem A fuel (root A) fl #[]
  generalize (iter (rcStep A) fuel (fl, #[], root A)).bind rcPost = x at this ⊢
  cases hr : randClauseLoop A fuel (root A) fl with
  | none =>
    rw [hr] at this
    cases x with
    | ok a => cases this
    | err m => cases this
    | panic m => rfl
  | some ds =>
    rw [hr] at this
    cases x with
    | ok a =>
      obtain ⟨o, r⟩ := a
      simp only [Outcome.map, Option.map] at this
      generalize hy : some (some (List.foldl (fun c d => setC c d.1 d.2) (#[] : Array (Option Bool)).toList ds)) = y
        at this
      cases this
      cases o with
      | none => cases hy
      | some c =>
        simp only [Option.some.injEq] at hy
        simp only [Outcome.map, selC, Option.map, ofOpt, foldC]
        rw [hy]
    | err m => cases this
    | panic m => cases this

/-- **random_clause = hand model** (at the hand model's fuel `len`) -/
theorem Bdd_random_clause_eq_model (A : Arr) (fl : List Bool) (h0 : 0 < A.size) (hs : A.size ≤ 4294967296) :
    selC ((Algo2.Bdd_random_clause A.size A fl).map (·.1)) = randomClause A fl :=
  Bdd_random_clause_eq_loop A.size A fl h0 hs

theorem map_fst_some {x : Outcome (Option (Array (Option Bool)) × List Bool)} {c : Clause}
    (h : selC (x.map (·.1)) = Sel.some c) : ∃ rest, x = .ok (some c.toArray, rest) := by
  cases x with
  | ok a =>
    obtain ⟨o, r⟩ := a
    have := selC_some h
    simp only [Outcome.map, Outcome.ok.injEq] at this
    exact ⟨r, by rw [this]⟩
  | err m => cases h
  | panic m => cases h

/-- whenever the hand model returns a clause, the translated code returns it (and some remaining flips) for every
    fuel `≥ len` -/
theorem Bdd_random_clause_some (A : Arr) (fl : List Bool) (c : Clause) (h : randomClause A fl = Sel.some c)
    (h0 : 0 < A.size) (hs : A.size ≤ 4294967296) (fuel : Nat) (hfuel : A.size ≤ fuel) :
    ∃ rest, Algo2.Bdd_random_clause fuel A fl = .ok (some c.toArray, rest) :=
  map_fst_some ((Bdd_random_clause_eq_loop fuel A fl h0 hs).trans (randomClauseF_mono hfuel h))

/-! ## random_valuation -/

/-- hand-written body of `for i_var in 0..num_vars`; state = (`rng`, `valuation`, `node`) -/
def rvStep (A : Arr) (i : Nat) (st : List Bool × Array Bool × Nat) :
    Outcome (ForInStep (List Bool × Array Bool × Nat)) :=
  match A[st.2.2]? with
  | none => .panic "index out of bounds"
  | some nd =>
    if nd.var ≠ i then
      (Rust.setIdx st.2.1 i (coin st.1).1).bind fun v => .ok (.yield ((coin st.1).2, v, st.2.2))
    else
      (Rust.setIdx st.2.1 i (randChild nd st.1).1).bind fun v =>
        .ok (.yield ((randChild nd st.1).2, v, if (randChild nd st.1).1 then nd.high else nd.low))

theorem random_valuation_desugar (A : Arr) (fl : List Bool) (h0 : 0 < A.size)
    (hs : A.size ≤ 4294967296) (h1 : A.size ≠ 1) :
    Algo2.Bdd_random_valuation A fl =
      (iterL (rvStep A) (List.range' 0 (numVars A)) (fl, Array.replicate (numVars A) false, root A)).bind
        fun st => .ok (some st.2.1, st.1) := by
  unfold Algo2.Bdd_random_valuation Algo.Bdd_is_false
  simp only [forIn_range_eq_iterL, root_pointer_eq A h0 hs, num_vars_eq A h0, bind_ok, beq_iff_eq, h1, if_false,
    Nat.sub_zero]
  rw [iterL_congr _ (rvStep A)]
  · rw [bind_eq]; rfl
  · intro i _ ⟨r, v, p⟩
    simp only [rvStep, randChild, coin, Rust.genBool, is_zero_eq, low_link_eq, high_link_eq, var_of_eq,
      pure_eq, set_value_eq, setIdx_eq]
    cases hA : A[p]? with
    | none => rfl
    | some nd =>
      simp only [bind_ok]
      by_cases hv : nd.var = i
      · subst hv
        simp only [bne_self_eq_false, Bool.false_eq_true, if_false, ne_eq, not_true_eq_false]
        by_cases hx : nd.var < v.size
        · by_cases hl : nd.low = 0
          · simp [hl, hx, Outcome.bind]
          · by_cases hh : nd.high = 0
            · simp [hl, hh, hx, Outcome.bind]
            · simp only [hl, hh, hx, decide_false, Bool.false_eq_true, if_false, if_true, bind_ok, Outcome.bind]
              generalize r.headD false = b
              cases b <;> simp
        · by_cases hl : nd.low = 0
          · simp [hl, hx, Outcome.bind]
          · by_cases hh : nd.high = 0
            · simp [hl, hh, hx, Outcome.bind]
            · simp [hl, hh, hx, Outcome.bind]
      · have hb : (nd.var != i) = true := by simp [hv]
        simp only [hb, if_true, hv, ne_eq, not_false_eq_true]
        by_cases hx : i < v.size <;> simp [hx, Outcome.bind]

theorem take_set_succ (v : List Bool) (i : Nat) (b : Bool) (h : i < v.length) :
    (v.set i b).take (i + 1) = v.take i ++ [b] := by
  rw [List.take_add_one]
  simp [h, List.take_set]
  exact List.set_eq_of_length_le (by simp; omega)

theorem rv_sem (A : Arr) : ∀ (k i p : Nat) (fl : List Bool) (v : Array Bool), v.size = i + k →
    RelO ((iterL (rvStep A) (List.range' i k) (fl, v, p)).map fun st => st.2.1.toList)
      ((randValLoop A k i p fl).map fun l => v.toList.take i ++ l) := by
  intro k
  induction k with
  | zero =>
    intro i p fl v hsz
    unfold randValLoop
    simp only [List.range'_zero, iterL_nil, Outcome.map, Option.map, List.append_nil]
    rw [List.take_of_length_le (by simp; omega)]
    exact RelO.ok _
  | succ k ih =>
    intro i p fl v hsz
    rw [List.range'_succ, iterL_cons]
    unfold randValLoop
    simp only [rvStep]
    cases hA : A[p]? with
    | none => exact RelO.panic _
    | some nd =>
      simp only
      have hi : i < v.size := by omega
      by_cases hv : nd.var = i
      · simp only [hv, ne_eq, not_true_eq_false, if_false, setIdx_eq, hi, if_true, Outcome.bind]
        have := ih (i + 1) (if (randChild nd fl).1 then nd.high else nd.low) (randChild nd fl).2
          (v.setIfInBounds i (randChild nd fl).1) (by simp; omega)
        rw [Array.toList_setIfInBounds, take_set_succ _ _ _ (by simpa using hi)] at this
        cases hr : randValLoop A k (i + 1) (if (randChild nd fl).1 then nd.high else nd.low) (randChild nd fl).2 with
        | none => rw [hr] at this; exact this
        | some l =>
          rw [hr] at this
          simp only [Option.map, List.append_assoc, List.singleton_append] at this ⊢
          exact this
      · simp only [hv, ne_eq, not_false_eq_true, if_true, setIdx_eq, hi, Outcome.bind]
        have := ih (i + 1) p (coin fl).2 (v.setIfInBounds i (coin fl).1) (by simp; omega)
        rw [Array.toList_setIfInBounds, take_set_succ _ _ _ (by simpa using hi)] at this
        cases hr : randValLoop A k (i + 1) p (coin fl).2 with
        | none => rw [hr] at this; exact this
        | some l =>
          rw [hr] at this
          simp only [Option.map, List.append_assoc, List.singleton_append] at this ⊢
          exact this

/-- **random_valuation = hand model** (first component: the valuation), for every non-empty array of at most
    `2^32` nodes (also the malformed ones) -/
theorem Bdd_random_valuation_eq_model (A : Arr) (fl : List Bool) (h0 : 0 < A.size) (hs : A.size ≤ 4294967296) :
    selV ((Algo2.Bdd_random_valuation A fl).map (·.1)) = randomValuation A fl := by
  by_cases h1 : A.size = 1
  · unfold Algo2.Bdd_random_valuation Algo.Bdd_is_false randomValuation Select.isFalse
    simp [h1, selV, Outcome.map]
  rw [random_valuation_desugar A fl h0 hs h1]
  unfold randomValuation Select.isFalse
  simp only [beq_iff_eq, h1, if_false]
  have := rv_sem A (numVars A) 0 (root A) fl (Array.replicate (numVars A) false) (by simp)
  simp only [List.take_zero, List.nil_append, Option.map_id'] at this
  generalize iterL (rvStep A) (List.range' 0 (numVars A)) (fl, Array.replicate (numVars A) false, root A) = x
    at this ⊢
  generalize randValLoop A (numVars A) 0 (root A) fl = y at this ⊢
  cases x with
  | ok st =>
    cases y with
    | none => cases this
    | some l =>
      simp only [Outcome.map] at this
      generalize hz : some l = z at this
      cases this
      simp only [Option.some.injEq] at hz
      rfl
  | err m => cases this
  | panic m =>
    cases y with
    | none => rfl
    | some l => cases this

theorem map_fst_someV {x : Outcome (Option (Array Bool) × List Bool)} {v : Val}
    (h : selV (x.map (·.1)) = Sel.some v) : ∃ rest, x = .ok (some v.toArray, rest) := by
  cases x with
  | ok a =>
    obtain ⟨o, r⟩ := a
    have := selV_some h
    simp only [Outcome.map, Outcome.ok.injEq] at this
    exact ⟨r, by rw [this]⟩
  | err m => cases h
  | panic m => cases h

/-- whenever the hand model returns a valuation, the translated code returns it (and some remaining flips) -/
theorem Bdd_random_valuation_some (A : Arr) (fl : List Bool) (v : Val) (h : randomValuation A fl = Sel.some v)
    (h0 : 0 < A.size) (hs : A.size ≤ 4294967296) :
    ∃ rest, Algo2.Bdd_random_valuation A fl = .ok (some v.toArray, rest) :=
  map_fst_someV ((Bdd_random_valuation_eq_model A fl h0 hs).trans h)

/-- the contradiction: `None`, the flips untouched -/
theorem Bdd_random_none (A : Arr) (fl : List Bool) (h1 : A.size = 1) (fuel : Nat) :
    Algo2.Bdd_random_valuation A fl = .ok (none, fl) ∧ Algo2.Bdd_random_clause fuel A fl = .ok (none, fl) := by
  unfold Algo2.Bdd_random_valuation Algo2.Bdd_random_clause Algo.Bdd_is_false
  simp [h1]

end B.AlgoEq2Sel
