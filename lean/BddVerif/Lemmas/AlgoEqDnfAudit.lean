import BddVerif.Lemmas.AlgoEqIterDriver
/-! axiom audit: translated `Bdd::to_dnf` / `Bdd::to_cnf` = hand models (`Iter.toDnf`, `NF.toDnf`, `NF.toCnf`) -/
#print axioms B.AlgoEqIt.to_dnf_desugar
#print axioms B.AlgoEqIt.dnfLoop_eq
#print axioms B.AlgoEqIt.to_dnf_eq_toDnf
#print axioms B.AlgoEqIt.dnfLoop_count
#print axioms B.AlgoEqIt.toDnf_fuel
#print axioms B.AlgoEqIt.toDnf_unique
#print axioms B.AlgoEqIt.to_dnf_translated_eq_paths
#print axioms B.AlgoEqIt.nf_toDnf_eq
#print axioms B.AlgoEqIt.to_dnf_eq_model
#print axioms B.AlgoEqIt.to_dnf_sem_translated
#print axioms B.AlgoEqIt.to_dnf_translated_false
#print axioms B.AlgoEqIt.fuelPaths_ge
#print axioms B.AlgoEqIt.to_dnf_translated_driver
#print axioms B.AlgoEqIt.to_dnf_translated_driver_c09
#print axioms B.AlgoEqIt.build_recursive_eq_list
#print axioms B.AlgoEqIt.build_recursive_eq
#print axioms B.AlgoEqIt.cnfRec_mono_le
#print axioms B.AlgoEqIt.to_cnf_eq_cnfRec
#print axioms B.AlgoEqIt.to_cnf_eq_model
#print axioms B.AlgoEqIt.to_cnf_eq_model_driver
#print axioms B.AlgoEqIt.to_cnf_ok_or_fuel
#print axioms B.AlgoEqIt.to_cnf_sem_translated
#print axioms B.AlgoEqIt.to_cnf_sem_translated_driver
#print axioms B.AlgoEqIt.to_cnf_false_translated
#print axioms B.AlgoEqIt.to_cnf_translated_driver
