import BddVerif.Model.Valuation
/-!
Lemmas about the model of `BddPartialValuation` / `BddValuation` (`Model/Valuation.lean`): the
observable of a partial valuation is `get`; equality, hashing, `to_values`, `extends` and the
conversions are all characterised through it, independently of the padding of the vector.
-/
namespace B.Val
namespace PartialVal

/-! ### get -/

@[simp] theorem get_nil (x : Nat) : get [] x = none := by simp [get]
@[simp] theorem get_cons_zero (a : Option Bool) (p : PartialVal) : get (a :: p) 0 = a := by simp [get]
@[simp] theorem get_cons_succ (a : Option Bool) (p : PartialVal) (x : Nat) : get (a :: p) (x + 1) = get p x := by
  simp [get]

theorem get_of_length_le (p : PartialVal) (x : Nat) (h : p.length ≤ x) : get p x = none := by
  simp [get, List.getElem?_eq_none h]

theorem get_grow (p : PartialVal) (x y : Nat) : get (grow p x) y = get p y := by
  unfold get grow
  rw [List.getElem?_append]
  split
  · rfl
  · rename_i h
    rw [List.getElem?_replicate, List.getElem?_eq_none (by omega)]
    split <;> rfl

theorem length_grow (p : PartialVal) (x : Nat) : (grow p x).length = max p.length (x + 1) := by
  simp [grow]; omega

theorem length_setCell (p : PartialVal) (x : Nat) (c : Option Bool) :
    (setCell p x c).length = max p.length (x + 1) := by
  simp [setCell, length_grow]

/-- reading after one write (`set_value`, `unset_value`, `p[x] = c`) -/
theorem get_setCell (p : PartialVal) (x : Nat) (c : Option Bool) (y : Nat) :
    get (setCell p x c) y = if y = x then c else get p y := by
  unfold setCell
  by_cases h : y = x
  · subst h
    have hl : y < (grow p y).length := by rw [length_grow]; omega
    simp [get, List.getElem?_set, hl]
  · have h' : ¬ x = y := fun e => h e.symm
    rw [if_neg h, ← get_grow p x y]
    simp [get, List.getElem?_set, h']

theorem get_set (p : PartialVal) (x : Nat) (b : Bool) (y : Nat) :
    get (set p x b) y = if y = x then some b else get p y := get_setCell p x (some b) y
theorem get_unset (p : PartialVal) (x y : Nat) :
    get (unset p x) y = if y = x then none else get p y := get_setCell p x none y

/-! ### equality -/

theorem all_isNone_iff (l : PartialVal) : l.all (·.isNone) = true ↔ ∀ x, get l x = none := by
  induction l with
  | nil => simp
  | cons a l ih =>
    simp only [List.all_cons, Bool.and_eq_true, ih]
    constructor
    · rintro ⟨ha, hl⟩ x
      cases x with
      | zero => simpa using ha
      | succ x => simpa using hl x
    · intro h
      exact ⟨by simpa using h 0, fun x => by simpa using h (x + 1)⟩

theorem eq_nil_left (q : PartialVal) : eq [] q = q.all (·.isNone) := by
  cases q <;> simp [eq]

theorem eq_nil_right (p : PartialVal) : eq p [] = p.all (·.isNone) := by
  cases p <;> simp [eq]

theorem eq_cons_cons (a b : Option Bool) (p q : PartialVal) : eq (a :: p) (b :: q) = (a == b && eq p q) := by
  simp [eq]

/-- `==` holds exactly when the two valuations read the same on every variable -/
theorem eq_iff (p q : PartialVal) : eq p q = true ↔ ∀ x, get p x = get q x := by
  induction p generalizing q with
  | nil =>
    rw [eq_nil_left, all_isNone_iff]
    simp only [get_nil]
    exact ⟨fun h x => (h x).symm, fun h x => (h x).symm⟩
  | cons a p ih =>
    cases q with
    | nil =>
      rw [eq_nil_right, all_isNone_iff]
      simp only [get_nil]
    | cons b q =>
      rw [eq_cons_cons, Bool.and_eq_true, ih]
      constructor
      · rintro ⟨hab, h⟩ x
        cases x with
        | zero => simpa using hab
        | succ x => simpa using h x
      · intro h
        exact ⟨by simpa using h 0, fun x => by simpa using h (x + 1)⟩

/-! ### to_values and the hash writes -/

theorem mem_toValuesFrom (p : PartialVal) : ∀ (i y : Nat) (b : Bool),
    (y, b) ∈ toValuesFrom i p ↔ i ≤ y ∧ get p (y - i) = some b := by
  induction p with
  | nil => intro i y b; simp [toValuesFrom]
  | cons a p ih =>
    intro i y b
    cases a with
    | none =>
      simp only [toValuesFrom, ih]
      constructor
      · rintro ⟨h1, h2⟩
        refine ⟨by omega, ?_⟩
        have : y - i = (y - (i + 1)) + 1 := by omega
        rw [this, get_cons_succ]; exact h2
      · rintro ⟨h1, h2⟩
        have hne : y ≠ i := by
          intro e; subst e; simp at h2
        refine ⟨by omega, ?_⟩
        have : y - i = (y - (i + 1)) + 1 := by omega
        rw [this, get_cons_succ] at h2; exact h2
    | some c =>
      simp only [toValuesFrom, List.mem_cons, ih, Prod.mk.injEq]
      constructor
      · rintro (⟨rfl, rfl⟩ | ⟨h1, h2⟩)
        · simp
        · refine ⟨by omega, ?_⟩
          have : y - i = (y - (i + 1)) + 1 := by omega
          rw [this, get_cons_succ]; exact h2
      · rintro ⟨h1, h2⟩
        by_cases e : y = i
        · subst e; left; simpa using h2.symm
        · right
          refine ⟨by omega, ?_⟩
          have : y - i = (y - (i + 1)) + 1 := by omega
          rw [this, get_cons_succ] at h2; exact h2

/-- `to_values` lists exactly the fixed variables with their values -/
theorem mem_toValues (p : PartialVal) (y : Nat) (b : Bool) : (y, b) ∈ toValues p ↔ get p y = some b := by
  unfold toValues; rw [mem_toValuesFrom]; simp

/-- the two writes made for one fixed cell -/
def writesOf (yb : Nat × Bool) : List HashWrite := [HashWrite.usize yb.1, HashWrite.u8 (if yb.2 then 1 else 0)]

theorem hashFrom_eq_flatMap (p : PartialVal) : ∀ i, hashFrom i p = (toValuesFrom i p).flatMap writesOf := by
  induction p with
  | nil => intro i; simp [hashFrom, toValuesFrom]
  | cons a p ih =>
    intro i
    cases a with
    | none => simp [hashFrom, toValuesFrom, ih]
    | some c => simp [hashFrom, toValuesFrom, ih, writesOf]

theorem writesOf_inj : ∀ (l1 l2 : List (Nat × Bool)), l1.flatMap writesOf = l2.flatMap writesOf → l1 = l2 := by
  intro l1
  induction l1 with
  | nil =>
    intro l2 h
    cases l2 with
    | nil => rfl
    | cons b l2 => simp [writesOf] at h
  | cons a l1 ih =>
    intro l2 h
    cases l2 with
    | nil => simp [writesOf] at h
    | cons b l2 =>
      simp only [List.flatMap_cons, writesOf, List.cons_append, List.nil_append, List.cons.injEq,
        HashWrite.usize.injEq, HashWrite.u8.injEq] at h
      obtain ⟨h1, h2, h3⟩ := h
      have : a = b := by
        obtain ⟨a1, a2⟩ := a; obtain ⟨b1, b2⟩ := b
        simp only at h1 h2
        subst h1
        cases a2 <;> cases b2 <;> simp_all
      rw [this, ih l2 h3]

/-- the sequence of `Hasher` writes determines, and is determined by, the fixed variables and values -/
theorem hashWrites_eq_iff (p q : PartialVal) : hashWrites p = hashWrites q ↔ ∀ x, get p x = get q x := by
  unfold hashWrites
  rw [hashFrom_eq_flatMap, hashFrom_eq_flatMap]
  constructor
  · intro h x
    have hv : toValues p = toValues q := writesOf_inj _ _ h
    have key : ∀ b, get p x = some b ↔ get q x = some b := by
      intro b; rw [← mem_toValues, ← mem_toValues, hv]
    cases hp : get p x with
    | none =>
      cases hq : get q x with
      | none => rfl
      | some b => have := (key b).2 hq; rw [hp] at this; cases this
    | some b => exact ((key b).1 hp).symm
  · intro h
    have : ∀ (p q : PartialVal) i, (∀ x, get p x = get q x) → toValuesFrom i p = toValuesFrom i q := by
      intro p
      induction p with
      | nil =>
        intro q i h
        induction q generalizing i with
        | nil => rfl
        | cons b q ihq =>
          have hb : b = none := by simpa using (h 0).symm
          subst hb
          simp only [toValuesFrom]
          exact ihq (i + 1) (fun x => by simpa using h (x + 1))
      | cons a p ih =>
        intro q i h
        cases q with
        | nil =>
          have ha : a = none := by simpa using h 0
          subst ha
          simp only [toValuesFrom]
          exact ih [] (i + 1) (fun x => by simpa using h (x + 1))
        | cons b q =>
          have hab : a = b := by simpa using h 0
          subst hab
          have := ih q (i + 1) (fun x => by simpa using h (x + 1))
          cases a <;> simp [toValuesFrom, this]
    rw [this p q 0 h]

/-! ### histories of writes -/

/-- a history of `set_value` / `unset_value` / `p[x] = c` operations -/
def runOps (ops : List (Nat × Option Bool)) (p : PartialVal) : PartialVal :=
  ops.foldl (fun p o => setCell p o.1 o.2) p

/-- the last value written to `x`, if any -/
def lastWrite (ops : List (Nat × Option Bool)) (x : Nat) : Option (Option Bool) :=
  (ops.reverse.find? (·.1 == x)).map (·.2)

theorem lastWrite_cons (o : Nat × Option Bool) (ops : List (Nat × Option Bool)) (x : Nat) :
    lastWrite (o :: ops) x = match lastWrite ops x with
      | some c => some c
      | none => if o.1 = x then some o.2 else none := by
  unfold lastWrite
  rw [List.reverse_cons, List.find?_append]
  cases h : ops.reverse.find? (·.1 == x) with
  | some e => simp
  | none =>
    by_cases hx : o.1 = x
    · simp [hx]
    · simp [hx]

/-- after any history, a variable reads as its last write (or as before if it was never written) -/
theorem get_runOps (ops : List (Nat × Option Bool)) : ∀ (p : PartialVal) (x : Nat),
    get (runOps ops p) x = match lastWrite ops x with
      | some c => c
      | none => get p x := by
  induction ops with
  | nil => intro p x; simp [runOps, lastWrite]
  | cons o ops ih =>
    intro p x
    show get (runOps ops (setCell p o.1 o.2)) x = _
    rw [ih, lastWrite_cons]
    cases h : lastWrite ops x with
    | some c => rfl
    | none =>
      simp only
      rw [get_setCell]
      by_cases hx : o.1 = x
      · simp [hx]
      · have : ¬ x = o.1 := fun e => hx e.symm
        simp [hx, this]

theorem length_runOps (ops : List (Nat × Option Bool)) : ∀ (p : PartialVal) (N : Nat),
    p.length ≤ N → (∀ o ∈ ops, o.1 < N) → (runOps ops p).length ≤ N := by
  induction ops with
  | nil => intro p N h _; exact h
  | cons o ops ih =>
    intro p N h ho
    show (runOps ops (setCell p o.1 o.2)).length ≤ N
    apply ih
    · rw [length_setCell]
      have := ho o (List.mem_cons_self)
      omega
    · intro o' ho'; exact ho o' (List.mem_cons_of_mem _ ho')

/-- `from_values` is the history of its `set_value`s -/
theorem fromValues_eq_runOps (vals : List (Nat × Bool)) :
    fromValues vals = runOps (vals.map fun xb => (xb.1, some xb.2)) empty := by
  unfold fromValues runOps
  rw [List.foldl_map]; rfl

theorem lastWrite_some_mem (ops : List (Nat × Option Bool)) (x : Nat) (c : Option Bool)
    (h : lastWrite ops x = some c) : (x, c) ∈ ops := by
  unfold lastWrite at h
  rw [Option.map_eq_some_iff] at h
  obtain ⟨e, he, rfl⟩ := h
  have hm := List.mem_of_find?_eq_some he
  have hp := List.find?_some he
  simp only [beq_iff_eq] at hp
  rw [List.mem_reverse] at hm
  rw [← hp]; exact hm

theorem lastWrite_none (ops : List (Nat × Option Bool)) (x : Nat)
    (h : lastWrite ops x = none) : ∀ o ∈ ops, o.1 ≠ x := by
  unfold lastWrite at h
  rw [Option.map_eq_none_iff, List.find?_eq_none] at h
  intro o ho
  have := h o (List.mem_reverse.2 ho)
  simpa using this

/-! ### extends -/

theorem extAux_iff (q : PartialVal) : ∀ s : PartialVal,
    extAux s q = true ↔ ∀ x b, get q x = some b → get s x = some b := by
  induction q with
  | nil => intro s; simp [extAux]
  | cons e q ih =>
    intro s
    cases s with
    | nil =>
      simp only [extAux, Bool.and_eq_true, ih, get_nil]
      constructor
      · rintro ⟨he, h⟩ x b hx
        cases x with
        | zero => simp at hx; subst hx; simp at he
        | succ x => simp at hx; exact h x b hx
      · intro h
        refine ⟨?_, ?_⟩
        · cases e with
          | none => rfl
          | some b => have := h 0 b (by simp); cases this
        · intro x b hx; have := h (x + 1) b (by simpa using hx); cases this
    | cons a s =>
      simp only [extAux, Bool.and_eq_true, Bool.or_eq_true, ih]
      constructor
      · rintro ⟨he, h⟩ x b hx
        cases x with
        | zero =>
          simp at hx; subst hx
          rcases he with he | he
          · simp at he
          · simpa using he
        | succ x => simp at hx ⊢; exact h x b hx
      · intro h
        refine ⟨?_, fun x b hx => by simpa using h (x + 1) b (by simpa using hx)⟩
        cases e with
        | none => left; rfl
        | some b => right; have := h 0 b (by simp); simp at this; simp [this]

theorem u16_of_lt {i : Nat} (h : i < 65536) : u16 i = i := Nat.mod_eq_of_lt h

/-- the literal loop and the one-pass walk agree -/
theorem extends_eq_loop (s q : PartialVal) : extends_ s q = extendsLoop s q := by
  unfold extends_
  split
  · rename_i hlen
    rw [Bool.eq_iff_iff, extAux_iff]
    unfold extendsLoop
    simp only [List.all_eq_true, List.mem_range, Bool.not_eq_true', Bool.and_eq_false_iff]
    constructor
    · intro h i hi
      rw [u16_of_lt (by omega)]
      cases hq : get q i with
      | none => left; rfl
      | some b => right; rw [h i b hq]; simp
    · intro h x b hx
      have hxl : x < q.length := by
        rcases Nat.lt_or_ge x q.length with h' | h'
        · exact h'
        · rw [get_of_length_le q x h'] at hx; cases hx
      have := h x hxl
      rw [u16_of_lt (by omega), hx] at this
      rcases this with h1 | h1
      · simp at h1
      · simpa using h1
  · rfl

/-- `extends` holds exactly when every value fixed in the argument is fixed to the same value in `self` -/
theorem extends_iff (s q : PartialVal) (hq : q.length ≤ 65536) :
    extends_ s q = true ↔ ∀ x b, get q x = some b → get s x = some b := by
  unfold extends_; rw [if_pos hq]; exact extAux_iff q s

/-! ### conversions -/

theorem get_ofTotal (v : TotalVal) (x : Nat) : get (ofTotal v) x = v[x]? := by
  unfold get ofTotal
  rw [List.getElem?_map]
  cases v[x]? <;> rfl

theorem allSome_ofTotal (v : TotalVal) : allSome (ofTotal v) = some v := by
  induction v with
  | nil => rfl
  | cons b v ih => simp [ofTotal] at ih ⊢; simp [allSome, ih]

theorem allSome_eq_some : ∀ (p : PartialVal) (v : TotalVal), allSome p = some v → p = ofTotal v := by
  intro p
  induction p with
  | nil => intro v h; simp [allSome] at h; subst h; rfl
  | cons a p ih =>
    intro v h
    cases a with
    | none => simp [allSome] at h
    | some b =>
      simp only [allSome, Option.map_eq_some_iff] at h
      obtain ⟨w, hw, rfl⟩ := h
      rw [ih w hw]; rfl

/-- total → partial → total is the identity (and the explicit `Err` branch beyond `u16::MAX` cells) -/
theorem toTotal_ofTotal (v : TotalVal) :
    toTotal (ofTotal v) = if v.length ≤ 65535 then some v else none := by
  unfold toTotal
  have : (ofTotal v).length = v.length := by simp [ofTotal]
  rw [this]
  split
  · exact allSome_ofTotal v
  · rfl

/-- partial → total → partial is the identity whenever the conversion succeeds -/
theorem ofTotal_toTotal (p : PartialVal) (v : TotalVal) (h : toTotal p = some v) : ofTotal v = p := by
  unfold toTotal at h
  split at h
  · exact (allSome_eq_some p v h).symm
  · cases h

/-- the conversion succeeds exactly when the vector is short enough and has no unset cell -/
theorem toTotal_isSome_iff (p : PartialVal) :
    (toTotal p).isSome = true ↔ p.length ≤ 65535 ∧ ∀ x, x < p.length → get p x ≠ none := by
  unfold toTotal
  have key : ∀ p : PartialVal, (allSome p).isSome = true ↔ ∀ x, x < p.length → get p x ≠ none := by
    intro p
    induction p with
    | nil => simp [allSome]
    | cons a p ih =>
      cases a with
      | none =>
        simp only [allSome, Option.isSome_none, Bool.false_eq_true, false_iff]
        intro h; exact h 0 (by simp) (by simp)
      | some b =>
        simp only [allSome, Option.isSome_map, ih]
        constructor
        · intro h x hx
          cases x with
          | zero => simp
          | succ x => simp at hx ⊢; exact h x hx
        · intro h x hx; have := h (x + 1) (by simpa using hx); simpa using this
  split
  · rename_i hl; rw [key]; exact ⟨fun h => ⟨hl, h⟩, fun h => h.2⟩
  · rename_i hl; simp; intro h; omega

theorem mapM_get_range (p : PartialVal) : ∀ (pre : PartialVal),
    (List.range' pre.length p.length).mapM (fun x => get (pre ++ p) x) = allSome p := by
  induction p with
  | nil => intro pre; simp [allSome]
  | cons a p ih =>
    intro pre
    have hget : get (pre ++ a :: p) pre.length = a := by simp [get]
    have := ih (pre ++ [a])
    simp only [List.length_append, List.length_cons, List.length_nil, List.append_assoc, List.cons_append,
      List.nil_append] at this
    simp only [List.length_cons, List.range'_succ, List.mapM_cons, hget]
    cases a with
    | none => simp [allSome]
    | some b =>
      simp only [allSome]
      rw [this]
      cases allSome p <;> rfl

/-- the literal loop and the one-pass conversion agree -/
theorem toTotal_eq_loop (p : PartialVal) : toTotal p = toTotalLoop p := by
  unfold toTotal toTotalLoop
  split
  · rename_i hl
    rw [u16_of_lt (by omega)]
    have := mapM_get_range p []
    simp only [List.length_nil, List.nil_append] at this
    rw [List.range_eq_range', this]
  · rfl

end PartialVal

namespace TotalVal

theorem extAux_iff (s : TotalVal) : ∀ q : PartialVal,
    extAux s q = true ↔ ∀ x b, x < s.length → PartialVal.get q x = some b → s[x]? = some b := by
  induction s with
  | nil => intro q; simp [extAux]
  | cons a s ih =>
    intro q
    cases q with
    | nil => simp [extAux]
    | cons e q =>
      simp only [extAux, Bool.and_eq_true, ih]
      constructor
      · rintro ⟨he, h⟩ x b hx hq
        cases x with
        | zero => simp at hq; subst hq; simp at he; simp [he]
        | succ x => simp at hq hx ⊢; exact h x b hx hq
      · intro h
        refine ⟨?_, fun x b hx hq => by simpa using h (x + 1) b (by simpa using hx) (by simpa using hq)⟩
        cases e with
        | none => rfl
        | some b => have := h 0 b (by simp) (by simp); simp at this; simp [this]

/-- `BddValuation::extends`: every variable of the total valuation that the partial one fixes has
    that value (variables of the partial valuation beyond the total one are not looked at) -/
theorem extends_iff (v : TotalVal) (q : PartialVal) (hv : v.length ≤ 65535) :
    extends_ v q = true ↔ ∀ x b, x < v.length → PartialVal.get q x = some b → v.getD x false = b := by
  unfold extends_ numVars
  rw [PartialVal.u16_of_lt (by omega), List.take_length, extAux_iff]
  constructor
  · intro h x b hx hq
    have := h x b hx hq
    simp [List.getD, this]
  · intro h x b hx hq
    have := h x b hx hq
    rw [List.getElem?_eq_getElem hx]
    simp [List.getD, List.getElem?_eq_getElem hx] at this
    rw [this]

/-- the literal loop and the one-pass walk agree -/
theorem extends_eq_loop (v : TotalVal) (q : PartialVal) : extends_ v q = extendsLoop v q := by
  rw [Bool.eq_iff_iff]
  unfold extends_ extendsLoop
  rw [extAux_iff]
  simp only [List.all_eq_true, List.mem_range, List.length_take]
  have hmin : min (numVars v) v.length = numVars v := by
    unfold numVars u16
    have := Nat.mod_le v.length 65536
    omega
  rw [hmin]
  constructor
  · intro h x hx
    cases hq : PartialVal.get q x with
    | none => rfl
    | some b =>
      have := h x b hx hq
      rw [List.getElem?_take, if_pos hx] at this
      simp [List.getD, this]
  · intro h x b hx hq
    have := h x hx
    rw [hq] at this
    simp only at this
    rw [List.getElem?_take, if_pos hx]
    have hxl : x < v.length := by
      unfold numVars u16 at hx
      have := Nat.mod_le v.length 65536
      omega
    rw [List.getElem?_eq_getElem hxl]
    simp [List.getD, List.getElem?_eq_getElem hxl] at this
    rw [this]

end TotalVal
end B.Val
