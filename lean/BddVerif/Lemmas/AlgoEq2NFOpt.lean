import BddVerif.Lemmas.AlgoEq2NFOptOps
/-!
# `to_optimized_dnf`: translated Rust = hand-written model

`tOpt_eq`: on a canonical array, whenever the hand model `optRec exactCard m` returns `.ok r`, the translated recursion
(`tOpt F` = `Bdd__to_optimized_dnf___rec F · · · triv`, AlgoEq2NFOptDesugar.lean) returns `.ok (Ok(()), r.1, r.2)` for every
fuel `F ≥ m + M`, `M = 3·S·S + 1`: the fuel decreases by one per recursion level on both sides, and each level spends at
most `M` on any single operation (the same `fuel` is passed to every call of a level).
-/
namespace B.AlgoEq2NF
open B B.NF B.Gen B.Gen.Algo B.Gen.Algo2 B.AlgoEqUtil

attribute [local instance 10000] Rust.monadOutcomeInline

/-! ### representation: `Vec<BddPartialValuation>` ↔ `List PVal` -/

def fromL (l : List PVal) : Cl := (l.map List.toArray).toArray

@[simp] theorem toL_fromL (l : List PVal) : toL (fromL l) = l := by
  unfold toL fromL
  simp [Function.comp_def]

@[simp] theorem fromL_toL (a : Cl) : fromL (toL a) = a := by
  unfold toL fromL
  simp [Function.comp_def]

theorem toL_push (res : Cl) (pc : PVA) : toL (res.push pc) = toL res ++ [pc.toList] := by
  unfold toL; simp

theorem fromL_append_single (l : List PVal) (c : PVal) : fromL (l ++ [c]) = (fromL l).push c.toArray := by
  unfold fromL; simp

theorem pvalSet_some_toList (p : PVA) (x : Nat) (b : Bool) :
    (Rust.pvalSet p x (some b)).toList = PVal.set p.toList x b := AlgoEqR.pvalSet_toList p x b

theorem pvalSet_none_toList (p : PVA) (x : Nat) : (Rust.pvalSet p x none).toList = pvUnset p.toList x := by
  unfold Rust.pvalSet Rust.pvalGrow pvUnset
  by_cases h : p.size ≤ x
  · simp [h]
  · have : x + 1 - p.size = 0 := by omega
    simp [h, this]

/-- what the translated `_rec` returns when the model returns `r` -/
def lift (r : PVal × List PVal) : Ret := (Except.ok (), r.1.toArray, fromL r.2)

/-- "the translated recursive call agrees with the model at fuel `m`" -/
def RecEq (n m : Nat) (recf : RecF) : Prop :=
  ∀ (bdd : Arr) (pc : PVA) (res : Cl) (r : PVal × List PVal), Can n bdd →
    optRec exactCard m bdd pc.toList (toL res) = .ok r → recf bdd pc res = .ok (lift r)

section
variable {n S : Nat} (hB : Bnd n S) {F : Nat} (hF : 3 * (S * S) + 1 ≤ F)
include hB hF

/-- lines 277-307 -/
theorem tTail_eq {m : Nat} {recf : RecF} (hrec : RecEq n m recf) (s0 : Nat) (tl : List Nat)
    {rest : Arr} (hrest : Can n rest) (pc : PVA) (res : Cl) (r : PVal × List PVal)
    (hm : optBranch (optRec exactCard m) rest pc.toList (toL res) (s0 :: tl) s0 = .ok r) :
    tTail F recf (s0 :: tl).toArray rest pc res = .ok (lift r) := by
  unfold tTail
  have hidx : Rust.idx (s0 :: tl).toArray 0 = .ok s0 := by simp [Rust.idx]
  rw [hidx]
  simp only [Outcome.bind, List.forIn_toArray]
  rw [branch_loop hB hF hrest]
  simp only []
  unfold optBranch at hm
  have hbb : (List.foldl (fun (best : Nat × Nat) var =>
        let size := (varRestrict rest var true).size + (varRestrict rest var false).size
        if size < best.2 then (var, size) else best) (s0, 18446744073709551615) (s0 :: tl)) =
      bestBranch rest (s0 :: tl) s0 := rfl
  rw [hbb]
  generalize (bestBranch rest (s0 :: tl) s0).1 = x at hm ⊢
  simp only at hm
  rw [var_restrict_eq hB hF hrest x true]
  simp only []
  rcases e1 : optRec exactCard m (varRestrict rest x true) (PVal.set pc.toList x true) (toL res) with r1 | m1 | m1
  · rw [e1] at hm
    simp only at hm
    rw [hrec _ (Rust.pvalSet pc x (some true)) res r1 (can_varRestrict hrest x true)
      (by rw [pvalSet_some_toList]; exact e1)]
    simp only [lift]
    rw [var_restrict_eq hB hF hrest x false]
    simp only []
    rcases e2 : optRec exactCard m (varRestrict rest x false) (PVal.set r1.1 x false) r1.2 with r2 | m2 | m2
    · rw [e2] at hm
      simp only [Outcome.ok.injEq] at hm
      rw [hrec _ (Rust.pvalSet r1.1.toArray x (some false)) (fromL r1.2) r2 (can_varRestrict hrest x false)
        (by rw [pvalSet_some_toList, toL_fromL]; exact e2)]
      have hp : Rust.pvalSet r2.1.toArray x none = (pvUnset r2.1 x).toArray := by
        apply Array.toList_inj.mp
        rw [pvalSet_none_toList]
      simp only [lift, hp]
      rw [← hm]
    · rw [e2] at hm; cases hm
    · rw [e2] at hm; cases hm
  · rw [e1] at hm; cases hm
  · rw [e1] at hm; cases hm

/-- one level of the recursion -/
theorem tBody_eq {m : Nat} {recf : RecF} (hrec : RecEq n m recf) : RecEq n (m + 1) (tBody F recf) := by
  intro bdd pc res r hcan hr
  unfold tBody
  simp only [optRec] at hr
  by_cases h1 : bdd.size = 1
  · rw [if_pos h1] at hr
    have : Bdd_is_false bdd = true := by simp [Bdd_is_false, h1]
    rw [if_pos this]
    simp only [Outcome.ok.injEq] at hr
    rw [← hr]; simp [lift]
  rw [if_neg h1] at hr
  have hnf : ¬ Bdd_is_false bdd = true := by simp [Bdd_is_false, h1]
  rw [if_neg hnf]
  by_cases h2 : bdd.size = 2
  · rw [if_pos h2] at hr
    have : Bdd_is_true bdd = true := by simp [Bdd_is_true, h2]
    rw [if_pos this]
    simp only [Outcome.ok.injEq] at hr
    rw [← hr]; simp [lift, fromL_append_single]
  rw [if_neg h2] at hr
  have hnt : ¬ Bdd_is_true bdd = true := by simp [Bdd_is_true, h2]
  rw [if_neg hnt]
  obtain ⟨sset, hss, hsort⟩ := support_eq bdd
  rw [hss]
  simp only [Outcome.bind, hsort]
  rcases hsp : supportSorted bdd with _ | ⟨s0, tl⟩
  · rw [hsp] at hr; cases hr
  rw [hsp] at hr
  simp only at hr
  have hlt : ∀ y ∈ s0 :: tl, y < n := by rw [← hsp]; exact can_support_lt hcan
  rw [if_neg (by simp)]
  have hidx : Rust.idx (s0 :: tl).toArray 0 = .ok s0 := by simp [Rust.idx]
  rw [hidx]
  simp only [List.forIn_toArray]
  rw [core_loop hB hF hcan _ hlt]
  simp only []
  have hbc : (List.foldl (fun (best : Nat × Nat) var =>
        let c := exactCard (NF.varForAll bdd var)
        if c > best.2 then (var, c) else best) (s0, 0) (s0 :: tl)) = bestCore exactCard bdd (s0 :: tl) s0 := rfl
  rw [hbc]
  have hx : (bestCore exactCard bdd (s0 :: tl) s0).1 < n :=
    hlt _ (bestCore_mem exactCard bdd (s0 :: tl) s0 (List.mem_cons_self ..))
  rcases e0 : optAfterCore exactCard (optRec exactCard m) bdd pc.toList (toL res) (s0 :: tl) s0 with ⟨pc1, res1, rest⟩ | m0 | m0
  · rw [e0] at hr
    simp only at hr
    unfold optAfterCore at e0
    by_cases hbest : (bestCore exactCard bdd (s0 :: tl) s0).2 ≠ 0
    · simp only [hbest, ne_eq, not_false_eq_true, if_true] at e0
      have hb' : ((bestCore exactCard bdd (s0 :: tl) s0).2 != 0) = true := by simpa using hbest
      rw [if_pos hb']
      generalize (bestCore exactCard bdd (s0 :: tl) s0).1 = x at e0 hx ⊢
      have hcore := can_varForAll hcan hx
      rw [var_for_all_eq hB hF hcan hx]
      simp only []
      rcases ec : optRec exactCard m (NF.varForAll bdd x) pc.toList (toL res) with rc | mc | mc
      · rw [ec] at e0
        simp only at e0
        rw [hrec _ pc res rc hcore ec]
        simp only [lift]
        rw [and_not_eq hB hF hcan hcore]
        simp only []
        by_cases hsz : (NF.bddAndNot bdd (NF.varForAll bdd x)).size = 1
        · rw [if_pos hsz] at e0; cases e0
        · rw [if_neg hsz] at e0
          have hnf2 : ¬ (!!Bdd_is_false (NF.bddAndNot bdd (NF.varForAll bdd x))) = true := by
            simp [Bdd_is_false, hsz]
          rw [if_neg hnf2]
          obtain ⟨cset, hcs, hcsort⟩ := support_eq (NF.varForAll bdd x)
          rw [hcs]
          simp only [Outcome.bind, hcsort, List.forIn_toArray]
          obtain ⟨hpl, hpc⟩ := prune_loop hB hF hcore _ (can_support_lt hcore) _ (can_andNot hcan hcore) (bdd := bdd)
          rw [hpl]
          simp only []
          simp only [Outcome.ok.injEq, Prod.mk.injEq] at e0
          obtain ⟨rfl, rfl, rfl⟩ := e0
          exact tTail_eq hB hF hrec s0 tl hpc _ _ r (by rw [toL_fromL]; simpa using hr)
      · rw [ec] at e0; cases e0
      · rw [ec] at e0; cases e0
    · simp only [hbest, if_false] at e0
      have hb' : ¬ ((bestCore exactCard bdd (s0 :: tl) s0).2 != 0) = true := by simpa using hbest
      rw [if_neg hb']
      simp only [Outcome.ok.injEq, Prod.mk.injEq] at e0
      obtain ⟨rfl, rfl, rfl⟩ := e0
      exact tTail_eq hB hF hrec s0 tl hcan pc res r hr
  · rw [e0] at hr; cases hr
  · rw [e0] at hr; cases hr

end

/-- MAIN THEOREM (recursion level): the translated recursion returns what the hand model returns -/
theorem tOpt_eq {n S : Nat} (hB : Bnd n S) : ∀ (m F : Nat), m + (3 * (S * S) + 1) ≤ F → RecEq n m (tOpt F) := by
  intro m
  induction m with
  | zero => intro F _ bdd pc res r _ hr; simp [optRec] at hr
  | succ m ih =>
    intro F hF
    obtain ⟨F, rfl⟩ : ∃ F', F = F' + 1 := ⟨F - 1, by omega⟩
    exact tBody_eq hB (F := F) (by omega) (ih F (by omega))

/-! ### `Bdd::_to_optimized_dnf` / `Bdd::to_optimized_dnf` -/

/-- **`Bdd::_to_optimized_dnf::_rec` as translated = `optRec exactCard`** (trivial interrupt), on a canonical array:
    if the model with recursion fuel `m` returns `r`, the translated function with any fuel `≥ m + (3·S·S + 1)` returns
    `(Ok(()), partial_clause, results)` with the model's values -/
theorem Bdd__to_optimized_dnf___rec_eq_model {n S : Nat} (hB : Bnd n S) {bdd : Arr} (hb : Can n bdd) (m F : Nat)
    (hF : m + (3 * (S * S) + 1) ≤ F) (pc : PVA) (res : Cl) (r : PVal × List PVal)
    (hr : optRec exactCard m bdd pc.toList (toL res) = .ok r) :
    Bdd__to_optimized_dnf___rec F bdd pc res (fun _dnf => (Except.ok () : Except Unit Unit)) =
      .ok (Except.ok (), r.1.toArray, fromL r.2) := by
  show Bdd__to_optimized_dnf___rec F bdd pc res triv = _
  rw [gen_eq_tOpt]
  exact tOpt_eq hB m F hF bdd pc res r hb hr

/-- **`Bdd::_to_optimized_dnf` as translated** (trivial interrupt) `= Ok(toOptimizedDnf A)` -/
theorem Bdd__to_optimized_dnf_eq_model {n S : Nat} (hB : Bnd n S) {A : Arr} (hA : Can n A) (F : Nat)
    (hF : n + 2 + (3 * (S * S) + 1) ≤ F) :
    Bdd__to_optimized_dnf F A (fun _dnf => (Except.ok () : Except Unit Unit)) =
      (toOptimizedDnf A).map fun cs => Except.ok (fromL cs) := by
  obtain ⟨f, hf⟩ := hA
  obtain ⟨cs, ecs, _⟩ := Props.C10.opt_dnf_roundtrip_exactCard n f A hf.eq hf.dep
  rw [ecs]
  unfold toOptimizedDnf toOptimizedDnfWith at ecs
  unfold Bdd__to_optimized_dnf
  by_cases h1 : A.size = 1
  · rw [if_pos h1] at ecs
    have : Bdd_is_false A = true := by simp [Bdd_is_false, h1]
    rw [if_pos this]
    simp only [Outcome.ok.injEq] at ecs
    rw [← ecs]
    rfl
  rw [if_neg h1] at ecs
  have hnf : ¬ Bdd_is_false A = true := by simp [Bdd_is_false, h1]
  rw [if_neg hnf]
  by_cases h2 : A.size = 2
  · rw [if_pos h2] at ecs
    have : Bdd_is_true A = true := by simp [Bdd_is_true, h2]
    rw [if_pos this]
    simp only [Outcome.ok.injEq] at ecs
    rw [← ecs]
    rfl
  rw [if_neg h2] at ecs
  have hnt : ¬ Bdd_is_true A = true := by simp [Bdd_is_true, h2]
  rw [if_neg hnt]
  rw [hf.numVars] at ecs
  rcases e : optRec exactCard (n + 2) A [] [] with r | m0 | m0
  · rw [e] at ecs
    simp only [Outcome.ok.injEq] at ecs
    have hgen := Bdd__to_optimized_dnf___rec_eq_model hB ⟨f, hf⟩ (n + 2) F hF #[] #[] r e
    simp only [BddPartialValuation_empty, hgen]
    rw [← ecs]
    rfl
  · rw [e] at ecs; cases ecs
  · rw [e] at ecs; cases ecs

/-- **`Bdd::to_optimized_dnf` as translated = `B.NF.toOptimizedDnf`** on every canonical array over `n` variables
    (`S` bounds the canonical arrays over `n` variables, `S·S + 2 ≤ 2^32`), for every fuel `≥ n + 2 + (3·S·S + 1)`;
    the clause vectors are the model's clause lists (`fromL`). -/
theorem Bdd_to_optimized_dnf_eq_model {n S : Nat} (hB : Bnd n S) {A : Arr} (hA : Can n A) (F : Nat)
    (hF : n + 2 + (3 * (S * S) + 1) ≤ F) :
    Bdd_to_optimized_dnf F A = (toOptimizedDnf A).map fromL := by
  unfold Bdd_to_optimized_dnf
  rw [Bdd__to_optimized_dnf_eq_model hB hA F hF]
  cases toOptimizedDnf A <;> rfl

end B.AlgoEq2NF
