import BddVerif.Gen.Algo3
import BddVerif.Lemmas.AlgoEqIterChain
import BddVerif.Lemmas.AlgoEqIterVal
import BddVerif.Lemmas.AlgoEqUtilBase
/-!
# Translated `sat_valuations` / `BddSatisfyingValuations::next` / `sat_clauses` (`Gen/Algo3.lean`) = hand model (`Model/Iter.lean`)

The translated iterator state is `(bdd, (bdd, stack), (next valuation, clause))`; the model's is
`SatSt = ⟨stack (head = top), ⟨next valuation, clause⟩⟩` with the borrowed Bdd a parameter. `satOf A` is the explicit
conversion. This file proves, reusing the theorems about the two underlying iterators (`AlgoEqIterPath`,
`AlgoEqIterVal`; nothing is reproved):

* `sat_next_eq_model` — one call of the translated `next` on `satOf A s` returns the model's item and `satOf A` of
  the model's next state (domain form: wherever the model's `satNext` succeeds), and the side conditions are
  preserved;
* `Bdd_sat_valuations_eq_model` — the translated constructor returns `satOf A (satInit A)`;
* `Bdd_sat_clauses_eq_model` — `sat_clauses` is the path iterator's start state.
The whole enumeration on reduced arrays is in `AlgoEq3SatChain.lean`.
-/
namespace B.AlgoEq3Sat
open B B.Gen B.Gen.Algo B.Gen.Algo3 B.Iter B.AlgoEqIt
attribute [local instance 10000] Rust.monadOutcomeInline

/-- state of the translated `BddSatisfyingValuations` -/
abbrev GSt := Arr × (Arr × Array Nat) × (Option (Array Bool) × Array (Option Bool))

/-- the model's clause iterator as a translated one -/
def cvOf (cv : CV) : Option (Array Bool) × Array (Option Bool) := (cv.next.map List.toArray, cv.clause.toArray)

/-- **the conversion**: the model's iterator state (over the borrowed `A`) as a state of the translated iterator -/
def satOf (A : Arr) (s : SatSt) : GSt := (A, (A, stkArr s.stack), cvOf s.vals)

/-- and back (used to state that `satOf A` loses nothing) -/
def satBack (g : GSt) : SatSt := ⟨g.2.1.2.toList.reverse, ⟨g.2.2.1.map Array.toList, g.2.2.2.toList⟩⟩

theorem satBack_satOf (A : Arr) (s : SatSt) : satBack (satOf A s) = s := by
  obtain ⟨st, ⟨nx, cl⟩⟩ := s
  simp only [satBack, satOf, cvOf, stkArr_toList, List.reverse_reverse, Option.map_map]
  congr
  cases nx <;> simp

theorem cvRel_cvOf (cv : CV) : CVRel (cvOf cv) cv := by
  obtain ⟨nx, cl⟩ := cv
  constructor
  · cases nx <;> simp [cvOf]
  · simp [cvOf]

theorem cvOf_of_rel {a : Option (Array Bool) × Array (Option Bool)} {b : CV} (h : CVRel a b) : a = cvOf b := by
  obtain ⟨o, c⟩ := a
  obtain ⟨nx, cl⟩ := b
  obtain ⟨h1, h2⟩ := h
  simp only at h1 h2
  subst h1 h2
  simp only [cvOf, Option.map_map]
  congr
  cases o <;> simp

theorem opt_of_toList {o : Option (Array Bool)} {o' : Option Valn} (h : o.map Array.toList = o') :
    o = o'.map List.toArray := by
  subst h; cases o <;> simp

/-- the valuation held by the model's clause iterator fits the `u16` variable count -/
def CvSmall (cv : CV) : Prop := ∀ v, cv.next = some v → v.length < 65536

theorem cvInv_cvOf {cv : CV} (h : CvSmall cv) : CVInv (cvOf cv) := by
  intro v hv
  obtain ⟨nx, cl⟩ := cv
  cases nx with
  | none => simp [cvOf] at hv
  | some w =>
    simp only [cvOf, Option.map_some, Option.some.injEq] at hv
    subst hv
    simpa using h w rfl

theorem cvSmall_of_inv {a : Option (Array Bool) × Array (Option Bool)} {cv : CV} (hr : CVRel a cv) (hi : CVInv a) :
    CvSmall cv := by
  intro v hv
  obtain ⟨o, c⟩ := a
  obtain ⟨h1, _⟩ := hr
  simp only at h1
  rw [hv] at h1
  cases o with
  | none => simp at h1
  | some w =>
    simp only [Option.map_some, Option.some.injEq] at h1
    have := hi w rfl
    rw [← h1]; simpa using this

/-! ### the two clause-iterator functions in domain form over `cvOf` -/

theorem cv_next_eq_model (cv : CV) (r : Option Valn × CV) (h : cvNext cv = .ok r) (hs : CvSmall cv) :
    ValuationsOfClauseIterator_next (cvOf cv) = .ok (r.1.map List.toArray, cvOf r.2) ∧ CvSmall r.2 := by
  have hsim := ValuationsOfClauseIterator_next_sim (cvOf cv) cv (cvRel_cvOf cv) (cvInv_cvOf hs)
  rw [h] at hsim
  obtain ⟨a, ha, h1, h2, h3⟩ := hsim.ok_right
  refine ⟨?_, cvSmall_of_inv h2 h3⟩
  rw [ha]
  obtain ⟨a1, a2⟩ := a
  simp only at h1 h2
  rw [opt_of_toList h1, cvOf_of_rel h2]

theorem cv_new_eq_model (clause : PV) (n : Nat) (cv : CV) (h : cvNew clause n = .ok cv)
    (hc : clause.length ≤ 65536) (hn : n < 65536) :
    ValuationsOfClauseIterator_new clause.toArray n = .ok (cvOf cv) ∧ CvSmall cv := by
  have hsim := ValuationsOfClauseIterator_new_sim clause.toArray n (by simpa using hc)
  rw [List.toList_toArray, h] at hsim
  obtain ⟨a, ha, hr⟩ := hsim.ok_right
  have hinv := ValuationsOfClauseIterator_new_inv clause.toArray n (by simpa using hc) hn a ha
  exact ⟨by rw [ha, cvOf_of_rel hr], cvSmall_of_inv hr hinv⟩

theorem num_vars_eq (A : Arr) (h0 : 0 < A.size) : Bdd_num_vars A = .ok (numVars A) :=
  AlgoEqUtil.num_vars_eq A h0

/-! ### `BddSatisfyingValuations::next` -/

/-- side conditions of one step: the stack fits the fuel of the pop loop, the valuation held fits `u16`, the next
    clause (if the path iterator is asked for one) fits `u16` -/
structure StepOK (A : Arr) (fuel : Nat) (s : SatSt) : Prop where
  stack : s.stack.length ≤ fuel
  small : CvSmall s.vals
  clause : ∀ p st', pathNext A s.stack = .ok (some p, st') → p.length ≤ 65536

/-- **`BddSatisfyingValuations::next`, translated code = hand model**, per step, wherever the model succeeds: from
    the state `satOf A s` the translated `next` returns the model's item (as an array) and the state `satOf A s'` of
    the model's next state `s'`. Fuel `≥ A.size + 2` (for `continue_path` inside the path iterator) and `≥` the
    stack length (pop loop). -/
theorem sat_next_eq_model (A : Arr) (hA : 0 < A.size) (hn : numVars A < 65536) (s : SatSt)
    (r : Option Valn × SatSt) (h : satNext A s = .ok r) (fuel : Nat) (hfuel : A.size + 2 ≤ fuel)
    (hok : StepOK A fuel s) :
    BddSatisfyingValuations_next fuel (satOf A s) = .ok (r.1.map List.toArray, satOf A r.2) ∧ CvSmall r.2.vals := by
  obtain ⟨stk, cv⟩ := s
  unfold satNext at h
  simp only at h
  cases hcv : cvNext cv with
  | err m => simp [hcv] at h
  | panic m => simp [hcv] at h
  | ok x =>
    obtain ⟨o, cv1⟩ := x
    obtain ⟨g1, s1⟩ := cv_next_eq_model cv _ hcv hok.small
    unfold BddSatisfyingValuations_next
    simp only [satOf, g1, ok_bind]
    cases o with
    | some v =>
      simp only [hcv, Outcome.ok.injEq] at h
      subst h
      exact ⟨rfl, s1⟩
    | none =>
      simp only [hcv] at h
      simp only [Option.map_none, Option.isSome_none, Bool.false_eq_true, if_false]
      cases hp : pathNext A stk with
      | err m => simp [hp] at h
      | panic m => simp [hp] at h
      | ok y =>
        obtain ⟨op, st'⟩ := y
        have g2 := path_next_eq_model A stk _ hp fuel hok.stack hfuel
        simp only [g2, ok_bind]
        cases op with
        | none =>
          simp only [hp, Outcome.ok.injEq] at h
          subst h
          exact ⟨rfl, s1⟩
        | some p =>
          simp only [hp] at h
          cases hnew : cvNew p (numVars A) with
          | err m => simp [hnew] at h
          | panic m => simp [hnew] at h
          | ok cv2 =>
            simp only [hnew] at h
            obtain ⟨g3, s3⟩ := cv_new_eq_model p (numVars A) cv2 hnew (hok.clause p st' hp) hn
            cases hcv2 : cvNext cv2 with
            | err m => simp [hcv2] at h
            | panic m => simp [hcv2] at h
            | ok z =>
              obtain ⟨o2, cv3⟩ := z
              simp only [hcv2, Outcome.ok.injEq] at h
              subst h
              obtain ⟨g4, s4⟩ := cv_next_eq_model cv2 _ hcv2 s3
              refine ⟨?_, s4⟩
              simp only [Option.map_some, num_vars_eq A hA, ok_bind, g3, g4, pure_eq]

/-! ### `Bdd::sat_valuations`, `Bdd::sat_clauses` -/

theorem empty_eq : ValuationsOfClauseIterator_empty = cvOf cvEmpty := rfl

/-- **`Bdd::sat_valuations`, translated code = hand model** wherever the model's `satInit` succeeds: the translated
    constructor returns `satOf A` of the model's start state -/
theorem Bdd_sat_valuations_eq_model (A : Arr) (hA : 0 < A.size) (h32 : A.size ≤ 4294967296)
    (hn : numVars A < 65536) (s0 : SatSt) (h : satInit A = .ok s0) (fuel : Nat) (hfuel : A.size + 2 ≤ fuel)
    (hlen : ∀ S, pathInit A = .ok S → S.length ≤ fuel)
    (hcl : ∀ S p st', pathInit A = .ok S → pathNext A S = .ok (some p, st') → p.length ≤ 65536) :
    Bdd_sat_valuations fuel A = .ok (satOf A s0) ∧ CvSmall s0.vals := by
  unfold satInit at h
  cases hi : pathInit A with
  | err m => simp [hi] at h
  | panic m => simp [hi] at h
  | ok S =>
    simp only [hi] at h
    have g1 := path_new_eq_model A h32 S hi fuel hfuel
    unfold Bdd_sat_valuations
    simp only [g1, ok_bind]
    cases hp : pathNext A S with
    | err m => simp [hp] at h
    | panic m => simp [hp] at h
    | ok y =>
      obtain ⟨op, st'⟩ := y
      have g2 := path_next_eq_model A S _ hp fuel (hlen S hi) hfuel
      simp only [g2, ok_bind]
      cases op with
      | none =>
        simp only [hp, Outcome.ok.injEq] at h
        subst h
        refine ⟨rfl, ?_⟩
        intro v hv; simp [cvEmpty] at hv
      | some p =>
        simp only [hp] at h
        cases hnew : cvNew p (numVars A) with
        | err m => simp [hnew] at h
        | panic m => simp [hnew] at h
        | ok cv2 =>
          simp only [hnew, Outcome.ok.injEq] at h
          subst h
          obtain ⟨g3, s3⟩ := cv_new_eq_model p (numVars A) cv2 hnew (hcl S p st' hi hp) hn
          refine ⟨?_, s3⟩
          simp only [Option.map_some, num_vars_eq A hA, ok_bind, g3, pure_eq]
          rfl

/-- **`Bdd::sat_clauses`, translated code = the model's path iterator start state** -/
theorem Bdd_sat_clauses_eq_model (A : Arr) (h32 : A.size ≤ 4294967296) (S : List Nat) (h : pathInit A = .ok S)
    (fuel : Nat) (hfuel : A.size + 2 ≤ fuel) : Bdd_sat_clauses fuel A = .ok (A, stkArr S) := by
  unfold Bdd_sat_clauses
  rw [path_new_eq_model A h32 S h fuel hfuel]

/-- `ValuationsOfClauseIterator::empty()` is the model's exhausted clause iterator -/
theorem ValuationsOfClauseIterator_empty_eq_model : ValuationsOfClauseIterator_empty = cvOf cvEmpty := rfl

theorem ValuationsOfClauseIterator_empty_next :
    ValuationsOfClauseIterator_next ValuationsOfClauseIterator_empty = .ok (none, ValuationsOfClauseIterator_empty) := rfl

end B.AlgoEq3Sat
