import BddVerif.Lemmas.RelPVal
/-!
L7: the model of `restriction()` returns exactly the canonical array of `v ↦ operand (v overridden by the
partial valuation)`, for every well-formed operand (canonical or not) and every partial valuation (variables
outside the variable set are ignored). Same scheme as the simulation of `apply_with_flip` (`Core/Sim*.lean`):
an invariant over the memo tables (`node_cache`, `new_id`) and a contract "visiting pointer `p` at level `k`
delivers what the reference builder `ins` delivers for the task function of `p`".
-/
namespace B.Rel
open B Std

/-- `v` overridden with the fixed variables of `pv` -/
def ovr (pv : PVal) (v : Nat → Bool) : Nat → Bool := fun i => (pv.get i).getD (v i)

theorem ovr_upd_none {pv : PVal} {d : Nat} (h : pv.get d = none) (v : Nat → Bool) (b : Bool) :
    ovr pv (upd v d b) = upd (ovr pv v) d b := by
  funext i
  by_cases hi : i = d
  · subst hi; simp [ovr, upd, h]
  · simp [ovr, upd, hi]

theorem ovr_some {pv : PVal} {d : Nat} {c : Bool} (h : pv.get d = some c) (v : Nat → Bool) :
    ovr pv v = upd (ovr pv v) d c := by
  funext i
  by_cases hi : i = d
  · subst hi; simp [ovr, upd, h]
  · simp [upd, hi]

theorem ovr_agree (pv : PVal) {v w : Nat → Bool} {i : Nat} (h : v i = w i) : ovr pv v i = ovr pv w i := by
  simp [ovr, h]

/-- static context of one `restriction()` call -/
structure RCtx where
  A : Arr
  n : Nat
  pv : PVal

/-- the task function of pointer `p` -/
def RCtx.G (Γ : RCtx) (p : Nat) (v : Nat → Bool) : Bool := evW Γ.A Γ.n (ovr Γ.pv v) p

theorem RCtx.G_indep (Γ : RCtx) (hA : WFo Γ.A Γ.n) (p : Nat) (hp : p < Γ.A.size) (k : Nat)
    (hk : k ≤ varOf Γ.A Γ.n p) (v w : Nat → Bool) (hvw : ∀ i, k ≤ i → i < Γ.n → v i = w i) :
    Γ.G p v = Γ.G p w := by
  unfold RCtx.G
  apply evW_indep hA Γ.n p hp (by omega)
  intro i hi hin
  exact ovr_agree _ (hvw i (by omega) hin)

theorem child_node (A : Arr) (p : Nat) (b : Bool) :
    child A p (nodeAt A p).var b = if b then (nodeAt A p).high else (nodeAt A p).low := by
  simp [child]

/-- Shannon step on an unrestricted decision variable -/
theorem RCtx.G_split (Γ : RCtx) (hA : WFo Γ.A Γ.n) (p : Nat) (hp : p < Γ.A.size) (d : Nat)
    (hd : d = varOf Γ.A Γ.n p) (hdn : d < Γ.n) (hnone : Γ.pv.get d = none) (b : Bool) (v : Nat → Bool) :
    Γ.G p (upd v d b) = Γ.G (child Γ.A p d b) v := by
  unfold RCtx.G
  rw [ovr_upd_none hnone]
  exact (evW_child hA p hp d (by omega) hdn _ b).1

/-- on a restricted decision variable the task function is the one of the selected child -/
theorem RCtx.G_restricted (Γ : RCtx) (hA : WFo Γ.A Γ.n) (p : Nat) (hp : p < Γ.A.size) (d : Nat)
    (hd : d = varOf Γ.A Γ.n p) (hdn : d < Γ.n) (c : Bool) (hsome : Γ.pv.get d = some c) (v : Nat → Bool) :
    Γ.G p v = Γ.G (child Γ.A p d c) v := by
  unfold RCtx.G
  have := (evW_child hA p hp d (by omega) hdn (ovr Γ.pv v) c).1
  rw [← ovr_some hsome v] at this
  exact this

/-- invariant of the state of `restriction()` -/
structure RInv (Γ : RCtx) (s : RSt) : Prop where
  red : Red s.out Γ.n
  ex : ∀ (nd : Node) (i : Nat), nd.var < Γ.n → (s.cache[nd]? = some i ↔ 2 ≤ i ∧ s.out[i]? = some nd)
  fin : ∀ (p q : Nat), s.newId[p]? = some q →
      q < s.out.size ∧ varOf Γ.A Γ.n p ≤ varOf s.out Γ.n q ∧ ∀ v, ev s.out v q = Γ.G p v
  t0 : s.newId[0]? = some 0
  t1 : s.newId[1]? = some 1

/-- what a visit of pointer `p`, entered at level `k` from state `s`, must deliver -/
structure ROut (Γ : RCtx) (s : RSt) (p k : Nat) (out : RSt × Nat) : Prop where
  inv : RInv Γ out.1
  eq : (out.1.out, out.2) = ins Γ.n (Γ.n - k) k (Γ.G p) s.out

def RSpec (Γ : RCtx) (rec : Nat → RSt → RSt × Nat) (k : Nat) : Prop :=
  ∀ p s, RInv Γ s → p < Γ.A.size → k ≤ varOf Γ.A Γ.n p → ROut Γ s p k (rec p s)

/-- closing a visit of the decision node `p` (variable `d`): the state `o` carries the result of the
    reference builder at level `d`, extends `s2` and records `p ↦ o.2` -/
theorem restrict_close (Γ : RCtx) (hA : WFo Γ.A Γ.n) (s s2 : RSt) (p d k : Nat) (o : RSt × Nat)
    (hs : RInv Γ s) (hs2 : RInv Γ s2) (hp : p < Γ.A.size) (hp2 : 2 ≤ p)
    (hd : d = varOf Γ.A Γ.n p) (hk : k ≤ d) (hdn : d ≤ Γ.n)
    (heq : (o.1.out, o.2) = ins Γ.n (Γ.n - d) d (Γ.G p) s.out)
    (hpre : Prefix s2.out o.1.out)
    (hex : ∀ (nd : Node) (i : Nat), nd.var < Γ.n → (o.1.cache[nd]? = some i ↔ 2 ≤ i ∧ o.1.out[i]? = some nd))
    (hnew : o.1.newId = s2.newId.insert p o.2) :
    ROut Γ s p k o := by
  have hdep : ∀ v w : Nat → Bool, (∀ i, d ≤ i → i < Γ.n → v i = w i) → Γ.G p v = Γ.G p w :=
    fun v w hvw => Γ.G_indep hA p hp d (by omega) v w hvw
  obtain ⟨tred, _, tlt, tvar, tev⟩ := ins_spec (Γ.n - d) d (Γ.G p) s.out hs.red (by omega) hdep
  rw [← heq] at tred tlt tvar tev
  simp only at tred tlt tvar tev
  refine ⟨⟨tred, hex, ?_, ?_, ?_⟩, ?_⟩
  · intro p' q h
    rw [hnew, HashMap.getElem?_insert] at h
    split at h
    · rename_i hk'
      have hk'' : p = p' := by simpa using hk'
      subst hk''
      cases h
      exact ⟨tlt, by omega, tev⟩
    · obtain ⟨a, b, e⟩ := hs2.fin p' q h
      refine ⟨by have := hpre.1; omega, ?_, ?_⟩
      · rw [varOf_prefix hpre _ a]; exact b
      · intro v; rw [ev_prefix hs2.red tred hpre v _ a]; exact e v
  · rw [hnew, HashMap.getElem?_insert]
    have : (p == 0) = false := by simp; omega
    rw [this]; exact hs2.t0
  · rw [hnew, HashMap.getElem?_insert]
    have : (p == 1) = false := by simp; omega
    rw [this]; exact hs2.t1
  · rw [heq]
    exact (ins_skip_many hs.red (Γ.G p) (d - k) k d (by omega) hdn hdep).symm

/-- structural facts about `restrictFinish` (the find-or-push of `node_cache`) -/
theorem restrictFinish_facts (Γ : RCtx) (s : RSt) (hs : RInv Γ s) (p d p2 p1 : Nat) (hd : p1 ≠ p2 → d < Γ.n) :
    ((restrictFinish s p d p2 p1).1.out, (restrictFinish s p d p2 p1).2) = mkRes s.out d p1 p2 ∧
    (∀ (nd' : Node) (i : Nat), nd'.var < Γ.n →
      ((restrictFinish s p d p2 p1).1.cache[nd']? = some i ↔
        2 ≤ i ∧ (restrictFinish s p d p2 p1).1.out[i]? = some nd')) ∧
    (restrictFinish s p d p2 p1).1.newId = s.newId.insert p (restrictFinish s p d p2 p1).2 := by
  unfold restrictFinish mkRes
  by_cases h : p1 = p2
  · subst h
    simp only [if_true]
    exact ⟨trivial, hs.ex, trivial⟩
  · have h' : ¬ p2 = p1 := fun e => h e.symm
    simp only [h, h', if_false]
    have hv : (⟨d, p2, p1⟩ : Node).var < Γ.n := hd h
    cases hex : s.cache[(⟨d, p2, p1⟩ : Node)]? with
    | some i =>
      obtain ⟨hi2, hind⟩ := (hs.ex _ i hv).1 hex
      have := findNode_of_mem hs.red i _ hi2 hind
      simp only [this]
      exact ⟨trivial, hs.ex, trivial⟩
    | none =>
      have hfn : findNode s.out ⟨d, p2, p1⟩ = none := by
        cases hf : findNode s.out ⟨d, p2, p1⟩ with
        | none => rfl
        | some i =>
          obtain ⟨hi2, hind⟩ := findNode_some hf
          have := (hs.ex _ i hv).2 ⟨hi2, hind⟩
          rw [hex] at this; cases this
      simp only [hfn]
      refine ⟨trivial, ?_, trivial⟩
      intro nd' i hv'
      simp only [HashMap.getElem?_insert]
      by_cases hnn : (⟨d, p2, p1⟩ : Node) = nd'
      · subst hnn
        simp only [beq_self_eq_true, if_true, Option.some.injEq]
        constructor
        · intro h; subst h
          have := hs.red.size2
          exact ⟨by omega, by simp⟩
        · intro ⟨hi2, hind⟩
          rcases Nat.lt_or_ge i s.out.size with hlt | hge
          · have : s.out[i]? = some ⟨d, p2, p1⟩ := by
              rw [← (Prefix.push s.out _).2 i hlt]; exact hind
            have := (hs.ex _ i hv).2 ⟨hi2, this⟩
            rw [hex] at this; cases this
          · rcases Nat.lt_or_ge i (s.out.push ⟨d, p2, p1⟩).size with hlt' | hge'
            · simp at hlt'; omega
            · simp [Array.getElem?_eq_none hge'] at hind
      · have hbeq : ((⟨d, p2, p1⟩ : Node) == nd') = false := by simpa using hnn
        simp only [hbeq, Bool.false_eq_true, if_false]
        rw [hs.ex nd' i hv']
        constructor
        · intro ⟨hi2, hind⟩
          have hlt : i < s.out.size := by
            rcases Nat.lt_or_ge i s.out.size with h' | h'
            · exact h'
            · simp [Array.getElem?_eq_none h'] at hind
          exact ⟨hi2, by rw [(Prefix.push s.out _).2 i hlt]; exact hind⟩
        · intro ⟨hi2, hind⟩
          rcases Nat.lt_or_ge i s.out.size with hlt | hge
          · exact ⟨hi2, by rw [← (Prefix.push s.out _).2 i hlt]; exact hind⟩
          · exfalso
            have : i = s.out.size := by
              rcases Nat.lt_or_ge i (s.out.push ⟨d, p2, p1⟩).size with hlt' | hge'
              · simp at hlt'; omega
              · simp [Array.getElem?_eq_none hge'] at hind
            subst this
            simp at hind
            exact hnn hind

/-- one visit meets the contract at level `k` if the recursive visits do at all deeper levels -/
theorem restrictStep_out (Γ : RCtx) (hA : WFo Γ.A Γ.n) (rec : Nat → RSt → RSt × Nat) (k : Nat)
    (hrec : ∀ k', k < k' → k' ≤ Γ.n → RSpec Γ rec k') : RSpec Γ (restrictStep Γ.A Γ.pv rec) k := by
  intro p s hs hp hkp
  have hkn : k ≤ Γ.n := by have := hA.varOf_le p; omega
  unfold restrictStep
  cases hfin : s.newId[p]? with
  | some q =>
    simp only
    obtain ⟨hq, hv, he⟩ := hs.fin p q hfin
    have := ins_found hs.red (Γ.n - k) k (Γ.G p) q (by omega) hq (by omega) (fun v => (he v).symm)
    exact ⟨hs, this.symm⟩
  | none =>
    simp only
    have hp2 : 2 ≤ p := by
      rcases Nat.lt_or_ge p 2 with h2 | h2
      · have : p = 0 ∨ p = 1 := by omega
        rcases this with rfl | rfl
        · rw [hs.t0] at hfin; cases hfin
        · rw [hs.t1] at hfin; cases hfin
      · exact h2
    have hnd : Γ.A[p]? = some Γ.A[p] := by simp [hp]
    obtain ⟨hvn, _, _, _, _⟩ := hA.inner p Γ.A[p] hp2 hnd
    have hvar : (nodeAt Γ.A p).var = varOf Γ.A Γ.n p := nodeAt_var hA p hp
    generalize hd : (nodeAt Γ.A p).var = d at hvar
    have hdn : d < Γ.n := by
      rw [varOf_node p _ hp2 hnd] at hvar; rw [hvar]; exact hvn
    have hR := hrec (d + 1) (by omega) (by omega)
    have hch : ∀ b, child Γ.A p d b = if b then (nodeAt Γ.A p).high else (nodeAt Γ.A p).low := by
      intro b; rw [← hd]; exact child_node Γ.A p b
    have hchild : ∀ b, child Γ.A p d b < Γ.A.size ∧ d + 1 ≤ varOf Γ.A Γ.n (child Γ.A p d b) :=
      fun b => (evW_child hA p hp d (by omega) hdn (fun _ => false) b).2
    cases hpv : Γ.pv.get d with
    | some c =>
      simp only
      rw [← hch c]
      obtain ⟨hcl, hcv⟩ := hchild c
      have O := hR (child Γ.A p d c) s hs hcl hcv
      generalize rec (child Γ.A p d c) s = r at O
      refine restrict_close Γ hA s r.1 p d k ({ r.1 with newId := r.1.newId.insert p r.2 }, r.2) hs O.inv hp hp2
        hvar (by omega) (by omega) ?_ (Prefix.refl _) O.inv.ex rfl
      have hG : Γ.G p = Γ.G (child Γ.A p d c) := funext (Γ.G_restricted hA p hp d hvar hdn c hpv)
      show (r.1.out, r.2) = _
      rw [O.eq, hG]
      have hdep : ∀ v w : Nat → Bool, (∀ i, d + 1 ≤ i → i < Γ.n → v i = w i) →
          Γ.G (child Γ.A p d c) v = Γ.G (child Γ.A p d c) w :=
        fun v w hvw => Γ.G_indep hA _ hcl (d + 1) hcv v w hvw
      exact (ins_skip_many hs.red (Γ.G (child Γ.A p d c)) 1 d (d + 1) rfl (by omega) hdep).symm
    | none =>
      simp only
      have hhi := hch true
      have hlo := hch false
      simp only [if_true, Bool.false_eq_true, if_false] at hhi hlo
      rw [← hhi, ← hlo]
      obtain ⟨hcl1, hcv1⟩ := hchild true
      obtain ⟨hcl2, hcv2⟩ := hchild false
      have O1 := hR (child Γ.A p d true) s hs hcl1 hcv1
      generalize rec (child Γ.A p d true) s = o1 at O1
      have O2 := hR (child Γ.A p d false) o1.1 O1.inv hcl2 hcv2
      generalize rec (child Γ.A p d false) o1.1 = o2 at O2
      obtain ⟨fa, fb, fc⟩ := restrictFinish_facts Γ o2.1 O2.inv p d o2.2 o1.2 (fun _ => hdn)
      have e1 : (fun v => Γ.G p (upd v d true)) = Γ.G (child Γ.A p d true) :=
        funext (Γ.G_split hA p hp d hvar hdn hpv true)
      have e2 : (fun v => Γ.G p (upd v d false)) = Γ.G (child Γ.A p d false) :=
        funext (Γ.G_split hA p hp d hvar hdn hpv false)
      have htarget : ins Γ.n (Γ.n - d) d (Γ.G p) s.out = mkRes o2.1.out d o1.2 o2.2 := by
        have h1 : ins Γ.n (Γ.n - (d+1)) (d+1) (fun v => Γ.G p (upd v d true)) s.out = (o1.1.out, o1.2) := by
          rw [e1]; exact O1.eq.symm
        have h2 : ins Γ.n (Γ.n - (d+1)) (d+1) (fun v => Γ.G p (upd v d false)) o1.1.out = (o2.1.out, o2.2) := by
          rw [e2]; exact O2.eq.symm
        have : Γ.n - d = (Γ.n - (d+1)) + 1 := by omega
        rw [this, ins_succ' h1 h2]
        rfl
      apply restrict_close Γ hA s o2.1 p d k _ hs O2.inv hp hp2 hvar (by omega) (by omega) ?_ ?_ fb fc
      · rw [fa, htarget]
      · have := mkRes_prefix o2.1.out d o1.2 o2.2
        rw [← fa] at this; exact this

/-- fuel induction -/
theorem restrictRec_spec (Γ : RCtx) (hA : WFo Γ.A Γ.n) :
    ∀ fuel k, Γ.n - k < fuel → RSpec Γ (restrictRec Γ.A Γ.pv fuel) k := by
  intro fuel
  induction fuel with
  | zero => intro k hk; omega
  | succ fuel ih =>
    intro k hk
    show RSpec Γ (restrictStep Γ.A Γ.pv (restrictRec Γ.A Γ.pv fuel)) k
    apply restrictStep_out Γ hA
    intro k' h1 h2
    exact ih k' (by omega)

/-- the initial state satisfies the invariant -/
theorem rinv_init (Γ : RCtx) : RInv Γ (initRSt Γ.n) := by
  refine ⟨red_mkTrue Γ.n, ?_, ?_, ?_, ?_⟩
  · intro nd i hv
    have h0 : (zeroN Γ.n == nd) = false := by
      simp only [beq_eq_false_iff_ne, ne_eq]; intro e; rw [← e] at hv; simp [zeroN] at hv
    have h1 : (oneN Γ.n == nd) = false := by
      simp only [beq_eq_false_iff_ne, ne_eq]; intro e; rw [← e] at hv; simp [oneN] at hv
    have hnone : (initRSt Γ.n).cache[nd]? = none := by
      simp only [initRSt, HashMap.getElem?_insert, h0, h1, Bool.false_eq_true, if_false]
      exact HashMap.getElem?_emptyWithCapacity
    rw [hnone]
    constructor
    · intro h; cases h
    · intro ⟨hi, h⟩
      have : (initRSt Γ.n).out[i]? = none := Array.getElem?_eq_none (by simp [initRSt, mkTrue_size]; omega)
      rw [this] at h; cases h
  · intro p q h
    simp only [initRSt, HashMap.getElem?_insert] at h
    split at h
    · rename_i h1
      have hp1 : 1 = p := by simpa using h1
      subst hp1; cases h
      refine ⟨by simp [initRSt, mkTrue_size], by simp [varOf], ?_⟩
      intro v; rw [ev_one]; exact (evW_one _ _ _).symm
    · split at h
      · rename_i _ h0
        have hp0 : 0 = p := by simpa using h0
        subst hp0; cases h
        refine ⟨by simp [initRSt, mkTrue_size], by simp [varOf], ?_⟩
        intro v; rw [ev_zero]; exact (evW_zero _ _ _).symm
      · rw [HashMap.getElem?_emptyWithCapacity] at h; cases h
  · show (((HashMap.emptyWithCapacity 16 : HashMap Nat Nat).insert 0 0).insert 1 1)[0]? = some 0
    rw [HashMap.getElem?_insert, HashMap.getElem?_insert]; rfl
  · show (((HashMap.emptyWithCapacity 16 : HashMap Nat Nat).insert 0 0).insert 1 1)[1]? = some 1
    rw [HashMap.getElem?_insert]; rfl

theorem ovr_dep (A : Arr) (n : Nat) (hA : WFo A n) (pv : PVal) : DepN n (fun v => sem A (ovr pv v)) := by
  intro v w h
  exact sem_dep hA _ _ (fun i hi => ovr_agree pv (h i hi))

/-- a well-formed array with one node is the `false` Bdd, with two nodes the `true` Bdd -/
theorem wfo_size_one {A : Arr} {n : Nat} (h : WFo A n) (hs : A.size = 1) : A = mkFalse n := by
  apply Array.ext
  · rw [hs]; rfl
  · intro i h1 _
    have hi : i = 0 := by omega
    subst hi
    have := h.zero
    rw [Array.getElem?_eq_getElem h1] at this
    simp only [Option.some.injEq] at this
    rw [this]; rfl

theorem wfo_size_two {A : Arr} {n : Nat} (h : WFo A n) (hs : A.size = 2) : A = mkTrue n := by
  apply Array.ext
  · rw [hs]; rfl
  · intro i h1 _
    have hi : i = 0 ∨ i = 1 := by omega
    rcases hi with rfl | rfl
    · have := h.zero
      rw [Array.getElem?_eq_getElem h1] at this
      simp only [Option.some.injEq] at this
      rw [this]; rfl
    · have := h.one (by omega)
      rw [Array.getElem?_eq_getElem h1] at this
      simp only [Option.some.injEq] at this
      rw [this]; rfl

theorem canon_const_false (n : Nat) (f : (Nat → Bool) → Bool) (hf : ∀ v, f v = false) : canon n f = mkFalse n := by
  unfold canon
  rw [ins_false (red_mkTrue n) n 0 f (by omega) hf]
  rfl

theorem canon_const_true (n : Nat) (f : (Nat → Bool) → Bool) (hf : ∀ v, f v = true) : canon n f = mkTrue n := by
  unfold canon
  rw [ins_found (red_mkTrue n) n 0 f 1 (by omega) (by simp [mkTrue_size]) (by simp [varOf])
    (fun v => by rw [hf, ev_one])]
  rfl

/-- **L7**: `restriction()` returns the canonical array of the overridden function -/
theorem restriction_eq_canon {A : Arr} {n : Nat} (hA : WFo A n) (pv : PVal) :
    restriction A pv = canon n (fun v => sem A (ovr pv v)) := by
  unfold restriction
  by_cases hsz : A.size = 2 ∨ A.size = 1
  · simp only [hsz, if_true]
    rcases hsz with h2 | h1
    · have hA' := wfo_size_two hA h2
      rw [canon_const_true]
      · exact hA'
      · intro v; rw [sem_eq hA, hA']; simp [root, mkTrue_size, evW_one]
    · have hA' := wfo_size_one hA h1
      rw [canon_const_false]
      · exact hA'
      · intro v; rw [sem_eq hA, hA']; simp [root, mkFalse_size, evW_zero]
  · simp only [hsz, if_false]
    rw [numVars_of_wf hA]
    have hspec := restrictRec_spec ⟨A, n, pv⟩ hA (n + 2) 0 (by show n - 0 < n + 2; omega) (root A) (initRSt n)
      (rinv_init ⟨A, n, pv⟩) (root_lt hA) (Nat.zero_le _)
    have hG : (fun v => sem A (ovr pv v)) = RCtx.G ⟨A, n, pv⟩ (root A) := by
      funext v; rw [sem_eq hA]; rfl
    rw [hG]
    generalize restrictRec A pv (n + 2) (root A) (initRSt n) = out at hspec
    have heq : (out.1.out, out.2) = ins n n 0 (RCtx.G ⟨A, n, pv⟩ (root A)) (mkTrue n) := hspec.eq
    unfold canon
    rw [← heq]

end B.Rel
