import BddVerif.Lemmas.ValuationBdd
import BddVerif.Lemmas.Canonical
/-!
`Bdd::from(BddValuation)` produces the library-wide canonical array: the chain pushed by the loop is
exactly what the reference builder `ins` produces for the function "agrees with `v` on every variable".
-/
namespace B.Val.TotalVal
open B

/-- `w` agrees with `v` on the `m` variables `k … k+m-1` -/
def agreeFrom (v : TotalVal) : Nat → Nat → (Nat → Bool) → Bool
  | 0, _, _ => true
  | m + 1, k, w => (w k == v.getD k false) && agreeFrom v m (k + 1) w

theorem agreeFrom_iff (v : TotalVal) : ∀ m k (w : Nat → Bool),
    agreeFrom v m k w = true ↔ ∀ i, k ≤ i → i < k + m → w i = v.getD i false := by
  intro m
  induction m with
  | zero => intro k w; simp [agreeFrom]; intro i h1 h2; omega
  | succ m ih =>
    intro k w
    simp only [agreeFrom, Bool.and_eq_true, beq_iff_eq, ih]
    constructor
    · rintro ⟨h0, h⟩ i h1 h2
      by_cases hik : i = k
      · subst hik; exact h0
      · exact h i (by omega) (by omega)
    · intro h
      exact ⟨h k (Nat.le_refl _) (by omega), fun i h1 h2 => h i (by omega) (by omega)⟩

theorem agreeFrom_upd_lt (v : TotalVal) (m k i : Nat) (b : Bool) (w : Nat → Bool) (hi : i < k) :
    agreeFrom v m k (upd w i b) = agreeFrom v m k w := by
  rw [Bool.eq_iff_iff, agreeFrom_iff, agreeFrom_iff]
  constructor
  · intro h j h1 h2
    have := h j h1 h2
    have hne : j ≠ i := by omega
    simpa [upd, hne] using this
  · intro h j h1 h2
    have hne : j ≠ i := by omega
    simp [upd, hne]; exact h j h1 h2

theorem agreeFrom_dep (v : TotalVal) (m k : Nat) (w w' : Nat → Bool)
    (h : ∀ i, k ≤ i → i < k + m → w i = w' i) : agreeFrom v m k w = agreeFrom v m k w' := by
  rw [Bool.eq_iff_iff, agreeFrom_iff, agreeFrom_iff]
  exact ⟨fun h' i h1 h2 => by rw [← h i h1 h2]; exact h' i h1 h2,
         fun h' i h1 h2 => by rw [h i h1 h2]; exact h' i h1 h2⟩

/-- the array after `m` iterations of the loop (variables `n-1, …, n-m` pushed) -/
def chain (v : TotalVal) (n : Nat) : Nat → Arr
  | 0 => mkTrue n
  | m + 1 => (chain v n m).push (valNode v (n - m - 1) (root (chain v n m)))

theorem pushDown_chain (v : TotalVal) (n : Nat) : ∀ j m, m + j = n →
    pushDown v j (chain v n m) = chain v n n := by
  intro j
  induction j with
  | zero => intro m h; have : m = n := by omega
            subst this; rfl
  | succ j ih =>
    intro m h
    show pushDown v j ((chain v n m).push (valNode v j (root (chain v n m)))) = _
    have hj : n - m - 1 = j := by omega
    have e : chain v n (m + 1) = (chain v n m).push (valNode v j (root (chain v n m))) := by
      show (chain v n m).push (valNode v (n - m - 1) (root (chain v n m))) = _
      rw [hj]
    rw [← e]
    exact ih (m + 1) (by omega)

theorem toBdd_eq_chain (v : TotalVal) : toBdd v = chain v (numVars v) (numVars v) :=
  pushDown_chain v (numVars v) (numVars v) 0 (by omega)

theorem chainInv_chain (v : TotalVal) (n : Nat) : ∀ m, m ≤ n → ChainInv v n (n - m) (chain v n m) := by
  intro m
  induction m with
  | zero => intro _; exact chainInv_init v n
  | succ m ih =>
    intro hm
    have h := ih (by omega)
    have hk : n - m = (n - (m + 1)) + 1 := by omega
    rw [hk] at h
    have := chainInv_step (by omega) h
    have e : n - m - 1 = n - (m + 1) := by omega
    show ChainInv v n (n - (m + 1)) ((chain v n m).push (valNode v (n - m - 1) (root (chain v n m))))
    rw [e]; exact this

/-- the reference builder, run on "agrees with `v` from level `n-m` on", builds exactly the chain -/
theorem ins_agree_eq_chain (v : TotalVal) (n : Nat) : ∀ m, m ≤ n →
    ins n m (n - m) (agreeFrom v m (n - m)) (mkTrue n) = (chain v n m, root (chain v n m)) := by
  intro m
  induction m with
  | zero => intro _; simp [ins, agreeFrom, chain, root, mkTrue_size]
  | succ m ih =>
    intro hm
    have hI := ih (by omega)
    have hinv := chainInv_chain v n m (by omega)
    have hk : n - m = (n - (m + 1)) + 1 := by omega
    generalize hkk : n - (m + 1) = k at *
    rw [hk] at hI hinv
    have hs := hinv.size
    have hs2 := hinv.red.size2
    have hroot : root (chain v n m) < (chain v n m).size := by unfold root; omega
    have hroot1 : 1 ≤ root (chain v n m) := by unfold root; omega
    -- the two cofactors
    have hsame : ∀ b, (fun w => agreeFrom v (m + 1) k (upd w k b)) =
        if b = v.getD k false then agreeFrom v m (k + 1) else fun _ => false := by
      intro b
      funext w
      simp only [agreeFrom, agreeFrom_upd_lt v m (k + 1) k b w (by omega)]
      have : upd w k b k = b := by simp [upd]
      rw [this]
      by_cases hb : b = v.getD k false
      · rw [if_pos hb, ← hb]; simp
      · rw [if_neg hb, beq_eq_false_iff_ne.2 hb]; rfl
    have hfresh : ∀ nd : Node, nd.var = k → findNode (chain v n m) nd = none := by
      intro nd hv
      cases hf : findNode (chain v n m) nd with
      | none => rfl
      | some i =>
        obtain ⟨hi2, hi⟩ := findNode_some hf
        have := hinv.vars i nd hi2 hi
        omega
    have hfalse : ∀ (A : Arr), Red A n → ins n m (k + 1) (fun _ => false) A = (A, 0) :=
      fun A hA => ins_false hA m (k + 1) _ (by omega) (fun _ => rfl)
    show ins n (m + 1) k (agreeFrom v (m + 1) k) (mkTrue n) =
      ((chain v n m).push (valNode v (n - m - 1) (root (chain v n m))), root ((chain v n m).push _))
    have enk : n - m - 1 = k := by omega
    rw [enk]
    have hrootpush : root ((chain v n m).push (valNode v k (root (chain v n m)))) = (chain v n m).size := by
      simp [root]
    rw [hrootpush]
    cases hvk : v.getD k false
    · -- v k = false: high cofactor is the constant false, low cofactor is the chain
      have h1 : ins n m (k + 1) (fun w => agreeFrom v (m + 1) k (upd w k true)) (mkTrue n) = (mkTrue n, 0) := by
        rw [hsame true, hvk]; simp only [Bool.true_eq_false, if_false]
        exact hfalse _ (red_mkTrue n)
      have h2 : ins n m (k + 1) (fun w => agreeFrom v (m + 1) k (upd w k false)) (mkTrue n) =
          (chain v n m, root (chain v n m)) := by
        rw [hsame false, hvk]; simp only [if_true]; exact hI
      rw [ins_succ' h1 h2, if_neg (by omega)]
      have hnode : valNode v k (root (chain v n m)) = ⟨k, root (chain v n m), 0⟩ := by
        unfold valNode; rw [hvk]; simp
      rw [hfresh ⟨k, root (chain v n m), 0⟩ rfl, hnode]
    · have h1 : ins n m (k + 1) (fun w => agreeFrom v (m + 1) k (upd w k true)) (mkTrue n) =
          (chain v n m, root (chain v n m)) := by
        rw [hsame true, hvk]; simp only [if_true]; exact hI
      have h2 : ins n m (k + 1) (fun w => agreeFrom v (m + 1) k (upd w k false)) (chain v n m) =
          (chain v n m, 0) := by
        rw [hsame false, hvk]; simp only [Bool.false_eq_true, if_false]
        exact hfalse _ hinv.red
      rw [ins_succ' h1 h2, if_neg (by omega)]
      have hnode : valNode v k (root (chain v n m)) = ⟨k, 0, root (chain v n m)⟩ := by
        unfold valNode; rw [hvk]; simp
      rw [hfresh ⟨k, 0, root (chain v n m)⟩ rfl, hnode]

/-- `Bdd::from(valuation)` is the canonical array of "agrees with `v` on all `numVars v` variables" -/
theorem toBdd_eq_canon (v : TotalVal) :
    toBdd v = canon (numVars v) (agreeFrom v (numVars v) 0) := by
  have h := ins_agree_eq_chain v (numVars v) (numVars v) (Nat.le_refl _)
  rw [Nat.sub_self] at h
  unfold canon
  rw [h]
  have hinv := chainInv_chain v (numVars v) (numVars v) (Nat.le_refl _)
  have hs2 := hinv.red.size2
  have : root (chain v (numVars v) (numVars v)) ≠ 0 := by unfold root; omega
  simp only [this, if_false]
  exact toBdd_eq_chain v

theorem toBdd_canonical (v : TotalVal) : Canonical (toBdd v) := by
  rw [toBdd_eq_canon]
  apply canon_canonical
  intro w w' h
  exact agreeFrom_dep v _ 0 w w' (fun i _ hi => h i (by omega))

end B.Val.TotalVal
