import BddVerif.Lemmas.AlgoEq3Dot
import BddVerif.Lemmas.AlgoEq2VarSetSat
/-!
# The translated `.dot` export on canonical Bdds: no size hypothesis for `n ≤ 31`

`canon n f` has at most `2^n + 1` nodes (`AlgoEq2VS.canon_size_le'`), so for `n ≤ 31` variables the only remaining
hypothesis of the `AlgoEq3Dot` theorems (`A.size ≤ 2^32`) is automatic.
-/
namespace B.AlgoEq3Dot
open B B.Gen

theorem dotOK_canon_small (n : Nat) (f : (Nat → Bool) → Bool) (hdep : Lim.Dep n f) (hn31 : n ≤ 31)
    (names : Array String) (hn : names.size = n) : DotOK (canon n f) names := by
  refine dotOK_canon n f hdep ?_ names hn
  have h1 := AlgoEq2VS.canon_size_le' n f
  have h2 : 2 ^ n ≤ 2 ^ 31 := Nat.pow_le_pow_right (by omega) hn31
  omega

/-- the translated `to_dot_string` of a canonical Bdd over at most 31 named variables returns the model's text -/
theorem Bdd_to_dot_string_canon (n : Nat) (f : (Nat → Bool) → Bool) (hdep : Lim.Dep n f) (hn31 : n ≤ 31)
    (T : Nat × Array String × Std.HashMap String Nat) (hn : T.2.1.size = n) (zp : Bool) :
    Algo3.Bdd_to_dot_string (canon n f) T zp =
      .ok (Dot.render (Dot.stmtsOf (canon n f) T.2.1.toList zp)) := by
  have hok := dotOK_canon_small n f hdep hn31 T.2.1 hn
  exact (Bdd_to_dot_string_eq_model (canon n f) T zp hok.size).of_ok (hok.model zp)

end B.AlgoEq3Dot
