import BddVerif.Lemmas.AlgoEqIterBase
import BddVerif.Props.C08
/-!
Translated valuation iterators (`B.Gen.Algo.BddValuation_next`, `ValuationsOfClauseIterator_new`,
`ValuationsOfClauseIterator_next`, generated from src/_impl_bdd_valuation.rs and
src/_impl_iterator_valuations_of_clause.rs) = hand-written step functions of `Model/Iter.lean`
(`valNext`, `cvNew`, `cvNext`), for ALL inputs (`OSim`: same value, panic iff panic), and the C08 theorems
(`Props/C08.lean`) restated for the translated code.

Representation: `Array Bool ↦ .toList`, `Array (Option Bool) ↦ .toList`; iterator states by `CVRel`.

Size hypotheses (the Rust code counts variables in `u16`): `BddValuation::num_vars` is `len as u16`, so the loop
of `next` covers the whole valuation only for `v.size < 65536`; `to_values` casts the position to `u16`, the
identity for `clause.size ≤ 65536`.

Nothing of the generated text is copied: the loop bodies are tied to the hand-written `vnStep`/`flStep` in the
desugaring lemmas (`BddValuation_next_desugar`, `ValuationsOfClauseIterator_new_desugar`), which break when the
Rust source changes.
-/
namespace B.AlgoEqIt
open B B.Gen B.Gen.Algo B.Iter
attribute [local instance 10000] Rust.monadOutcomeInline

/-! ## `BddValuation::next` -/

theorem value_eq (v : Array Bool) (i : Nat) : BddValuation_value v i = Rust.idx v i := by
  unfold BddValuation_value
  first | rfl | exact bind_ok_right _

theorem set_value_eq (a : Array Bool) (i : Nat) (x : Bool) : BddValuation_set_value a i x = Rust.setIdx a i x := by
  unfold BddValuation_set_value
  first | rfl | exact bind_ok_right _

theorem setIdx_eq {α} (a : Array α) (i : Nat) (x : α) :
    Rust.setIdx a i x = if i < a.size then .ok (a.setIfInBounds i x) else .panic "index out of bounds" := by
  unfold Rust.setIdx
  by_cases h : i < a.size
  · simp [h, Array.setIfInBounds]
  · simp [h]

/-- loop state of `BddValuation::next`: `result` and `carry` -/
abbrev VnSt := Array Bool × Bool

/-- one iteration of the `for var_id in 0..self.num_vars()` loop (hand-written, for every state; tied to the
    generated body in `BddValuation_next_desugar`): fixed positions are checked against `self` (`assert_eq!`,
    then `continue`), free positions add the carry into `result` and `break` when the carry is gone -/
def vnStep (v : Array Bool) (clause : Array (Option Bool)) (i : Nat) (s : VnSt) : Outcome (ForInStep VnSt) :=
  match pvGet clause.toList i with
  | some x =>
    match v[i]? with
    | none => .panic "index out of bounds"
    | some b =>
      if x = b then .ok (.yield s)
      else .panic "assertion failed: assert_eq!(clause.get_value(variable), Some(self.value(variable)));"
  | none =>
    match v[i]? with
    | none => .panic "index out of bounds"
    | some b =>
      if i < s.1.size then
        if (b && s.2) = true then .ok (.yield (s.1.setIfInBounds i (b ^^ s.2), true))
        else .ok (.done (s.1.setIfInBounds i (b ^^ s.2), false))
      else .panic "index out of bounds"

/-- after the loop: `if carry { None } else { Some(result) }` -/
def vnPost (s : VnSt) : Outcome (Option (Array Bool)) :=
  if s.2 = true then .ok none else .ok (some s.1)

/-- desugaring: the generated `BddValuation_next` is `self.num_vars()` iterations of `vnStep` from `(self, true)` -/
theorem BddValuation_next_desugar (v : Array Bool) (clause : Array (Option Bool)) :
    BddValuation_next v clause = loopI (vnStep v clause) 0 (Rust.asU16 v.size) (v, true) >>= vnPost := by
  unfold BddValuation_next
  simp only [forIn_range_eq_loopI, Nat.sub_zero]
  rw [loopI_congr _ (vnStep v clause)]
  · rfl
  · intro i s
    unfold vnStep
    simp only [has_value_eq, get_value_eq, value_eq, set_value_eq, setIdx_eq, idx_eq, ok_bind]
    cases hg : pvGet clause.toList i with
    | none =>
      cases hv : v[i]? with
      | none => simp
      | some b =>
        by_cases hs : i < s.1.size
        · cases b <;> cases h2 : s.2 <;> simp [hs]
        · simp [hs]
    | some x =>
      cases hv : v[i]? with
      | none => simp
      | some b =>
        cases b <;> cases x <;> simp

/-- a simulation survives the model's `match … with | .ok r => .ok (f r) | …` re-wrapping -/
theorem OSim.map_right {α β γ} {R : α → β → Prop} {R' : α → γ → Prop} {x : Outcome α} {y : Outcome β} (f : β → γ) :
    OSim R x y → (∀ a b, R a b → R' a (f b)) → ∀ z : Outcome γ,
    z = (match y with | .ok r => .ok (f r) | .err m => .err m | .panic m => .panic m) → OSim R' x z := by
  intro h hR z hz
  subst hz
  cases x <;> cases y <;> first | exact hR _ _ h | exact h

theorem vnStep_fixed (v : Array Bool) (clause : Array (Option Bool)) (i : Nat) (s : VnSt) (b x : Bool)
    (hv : v[i]? = some b) (hg : pvGet clause.toList i = some x) :
    vnStep v clause i s = if x = b then .ok (.yield s)
      else .panic "assertion failed: assert_eq!(clause.get_value(variable), Some(self.value(variable)));" := by
  unfold vnStep; simp only [hv, hg]

theorem vnStep_free (v : Array Bool) (clause : Array (Option Bool)) (i : Nat) (s : VnSt) (b : Bool)
    (hv : v[i]? = some b) (hg : pvGet clause.toList i = none) (hs : i < s.1.size) :
    vnStep v clause i s =
      if (b && s.2) = true then .ok (.yield (s.1.setIfInBounds i (b ^^ s.2), true))
      else .ok (.done (s.1.setIfInBounds i (b ^^ s.2), false)) := by
  unfold vnStep; simp only [hv, hg, hs, if_true]

theorem drop_cons_getElem? {α} {l : List α} {i : Nat} {b : α} {rest : List α} (h : l.drop i = b :: rest) :
    l[i]? = some b ∧ l.drop (i + 1) = rest := by
  constructor
  · rw [← List.head?_drop, h]; rfl
  · rw [← List.drop_drop, h]; rfl

/-- the loop from index `i` (`result = pre ++ self[i..]`, carry `true`) against `valNextGo` from `i` -/
theorem vnLoop_sim (v : Array Bool) (clause : Array (Option Bool)) :
    ∀ (rest : List Bool) (i : Nat) (pre : List Bool) (res : Array Bool),
      v.toList.drop i = rest → res.toList = pre ++ rest → pre.length = i →
      OSim (fun a b => a.map Array.toList = b.map (pre ++ ·))
        (loopI (vnStep v clause) i rest.length (res, true) >>= vnPost)
        (valNextGo (pvGet clause.toList) i rest) := by
  intro rest
  induction rest with
  | nil =>
    intro i pre res _ _ _
    simp [loopI_zero, vnPost, valNextGo, OSim]
  | cons b rest ih =>
    intro i pre res hd hres hpre
    obtain ⟨hvi, hd'⟩ := drop_cons_getElem? hd
    have hvi' : v[i]? = some b := by rw [← Array.getElem?_toList]; exact hvi
    have hsz : i < res.size := by
      have := congrArg List.length hres
      simp at this; omega
    rw [List.length_cons, loopI_succ, valNextGo]
    cases hg : pvGet clause.toList i with
    | some x =>
      rw [vnStep_fixed v clause i _ b x hvi' hg]
      by_cases hx : x = b
      · simp only [hx, if_true]
        refine OSim.map_right (Option.map (b :: ·))
          (ih (i + 1) (pre ++ [b]) res hd' (by simp [hres]) (by simp [hpre])) ?_ _
          (by cases valNextGo (pvGet clause.toList) (i + 1) rest <;> rfl)
        intro a r h
        rw [h]; cases r <;> simp
      · simp [hx, OSim]
    | none =>
      rw [vnStep_free v clause i _ b hvi' hg hsz]
      cases b with
      | true =>
        simp only [Bool.and_self, if_true, Bool.xor_self]
        refine OSim.map_right (Option.map (false :: ·))
          (ih (i + 1) (pre ++ [false]) _ hd' ?_ (by simp [hpre])) ?_ _
          (by cases valNextGo (pvGet clause.toList) (i + 1) rest <;> rfl)
        · simp [hres, ← hpre]
        · intro a r h
          rw [h]; cases r <;> simp
      | false =>
        simp [vnPost, OSim, hres, ← hpre]

/-- **`BddValuation::next` = `valNext`**, all inputs with `len < 2^16`: same value; panic iff panic (the
    `assert_eq!` on a fixed position that disagrees with the clause) -/
theorem BddValuation_next_sim (v : Array Bool) (clause : Array (Option Bool)) (hv : v.size < 65536) :
    OSim (fun a b => a.map Array.toList = b) (BddValuation_next v clause) (valNext v.toList clause.toList) := by
  rw [BddValuation_next_desugar]
  have h16 : Rust.asU16 v.size = v.toList.length := by
    simp [Rust.asU16, Nat.mod_eq_of_lt hv]
  rw [h16]
  refine (vnLoop_sim v clause v.toList 0 [] v rfl rfl rfl).mono ?_
  intro a b h
  rw [h]; cases b <;> simp

/-! ## `ValuationsOfClauseIterator::new` -/

theorem flip_value_eq (a : Array Bool) (i : Nat) :
    BddValuation_flip_value a i =
      if h : i < a.size then .ok (a.set i (!a[i])) else .panic "index out of bounds" := by
  unfold BddValuation_flip_value
  by_cases h : i < a.size
  · simp [Rust.idx, Rust.setIdx, h]
  · simp [Rust.idx, h]

/-- one iteration of the `for (var, value) in clause.to_values()` loop of `new` -/
def flStep (x : Nat × Bool) (a : Array Bool) : Outcome (ForInStep (Array Bool)) :=
  if x.2 = true then BddValuation_flip_value a x.1 >>= fun r => .ok (.yield r) else .ok (.yield a)

/-- desugaring: the generated `new` folds `flStep` over `to_values` (as a list) from `all_false(num_vars)` -/
theorem ValuationsOfClauseIterator_new_desugar (clause : Array (Option Bool)) (n : Nat) :
    ValuationsOfClauseIterator_new clause n =
      forIn (BddPartialValuation_to_values clause).toList (BddValuation_all_false n) flStep >>=
        fun r => .ok (some r, clause) := by
  unfold ValuationsOfClauseIterator_new
  rw [Array.forIn_toList]
  have : ∀ f g : Nat × Bool → Array Bool → Outcome (ForInStep (Array Bool)), (∀ x a, f x a = g x a) → f = g :=
    fun f g h => funext fun x => funext fun a => h x a
  rw [this flStep _]
  · rfl
  · intro x a
    obtain ⟨i, b⟩ := x
    unfold flStep
    cases b <;> rfl

theorem flStep_false (i : Nat) (a : Array Bool) : flStep (i, false) a = .ok (.yield a) := rfl

theorem flStep_true (i : Nat) (a : Array Bool) :
    flStep (i, true) a =
      if h : i < a.size then .ok (.yield (a.set i (!a[i]))) else .panic "index out of bounds" := by
  unfold flStep
  simp only [flip_value_eq, if_true]
  by_cases h : i < a.size <;> simp [h]

/-- the `flip_value` loop = `flipAll` -/
theorem flLoop_sim : ∀ (l : List (Nat × Bool)) (a : Array Bool),
    OSim (fun r w => r.toList = w) (forIn l a flStep) (flipAll l a.toList) := by
  intro l
  induction l with
  | nil => intro a; simp [flipAll, OSim]
  | cons x l ih =>
    intro a
    obtain ⟨i, b⟩ := x
    rw [List.forIn_cons, flipAll]
    cases b with
    | false => rw [flStep_false]; simpa using ih a
    | true =>
      rw [flStep_true]
      by_cases h : i < a.size
      · have h' : i < a.toList.length := by simpa using h
        simp only [h, h', dite_true, if_true, ok_bind]
        have := ih (a.set i (!a[i]))
        simpa [h] using this
      · have h' : ¬ i < a.toList.length := by simpa using h
        simp [h, OSim]

theorem to_values_list_aux : ∀ (l : List (Option Bool)) (k : Nat), k + l.length ≤ 65536 →
    (l.mapIdx fun i x => (i + k, x)).filterMap
        (fun (p : Nat × Option Bool) => p.2.map fun value => (Rust.asU16 p.1, value)) =
      toValuesFrom k l := by
  intro l
  induction l with
  | nil => intro k _; rfl
  | cons x l ih =>
    intro k hk
    rw [List.mapIdx_cons]
    have hf : (fun i (y : Option Bool) => (i + 1 + k, y)) = fun i y => (i + (k + 1), y) := by
      funext i y; congr 1; omega
    simp only [hf, List.filterMap_cons]
    have hk' : k + 1 + l.length ≤ 65536 := by simp at hk; omega
    have h16 : Rust.asU16 (0 + k) = k := by
      simp at hk
      simp [Rust.asU16]; omega
    cases x with
    | none => simp only [Option.map_none, toValuesFrom]; exact ih (k + 1) hk'
    | some b => simp only [Option.map_some, toValuesFrom, h16, ih (k + 1) hk']

/-- the generated `to_values` = `toValues` (the `as u16` is the identity for at most `2^16` positions) -/
theorem to_values_toList (clause : Array (Option Bool)) (h : clause.size ≤ 65536) :
    (BddPartialValuation_to_values clause).toList = toValues clause.toList := by
  unfold BddPartialValuation_to_values Rust.enumerate toValues
  rw [Array.toList_filterMap, Array.toList_mapIdx]
  have := to_values_list_aux clause.toList 0 (by simpa using h)
  simpa using this

/-- related iterator states -/
def CVRel (a : Option (Array Bool) × Array (Option Bool)) (b : CV) : Prop :=
  a.1.map Array.toList = b.next ∧ a.2.toList = b.clause

/-- **`ValuationsOfClauseIterator::new` = `cvNew`**, all inputs with `clause.len() ≤ 2^16`: related states; panic
    iff panic (`flip_value` out of bounds) -/
theorem ValuationsOfClauseIterator_new_sim (clause : Array (Option Bool)) (n : Nat) (h : clause.size ≤ 65536) :
    OSim CVRel (ValuationsOfClauseIterator_new clause n) (cvNew clause.toList n) := by
  rw [ValuationsOfClauseIterator_new_desugar, to_values_toList clause h]
  unfold cvNew
  have := flLoop_sim (toValues clause.toList) (BddValuation_all_false n)
  have haf : (BddValuation_all_false n).toList = List.replicate n false := by
    simp [BddValuation_all_false, Rust.vecRepeat]
  rw [haf] at this
  revert this
  cases forIn (toValues clause.toList) (BddValuation_all_false n) flStep <;>
    cases flipAll (toValues clause.toList) (List.replicate n false) <;> simp [OSim, CVRel]

/-! ## `ValuationsOfClauseIterator::next` -/

theorem valNextGo_length (g : Nat → Option Bool) : ∀ (rest : Valn) (i : Nat) (w : Valn),
    valNextGo g i rest = .ok (some w) → w.length = rest.length := by
  intro rest
  induction rest with
  | nil => intro i w h; simp [valNextGo] at h
  | cons b rest ih =>
    intro i w h
    rw [valNextGo] at h
    cases hg : g i with
    | some x =>
      simp only [hg] at h
      by_cases hx : x = b
      · simp only [hx, if_true] at h
        cases hr : valNextGo g (i + 1) rest with
        | ok r =>
          simp only [hr] at h
          cases r with
          | none => simp at h
          | some w' =>
            simp at h
            subst h
            simp [ih _ _ hr]
        | err m => simp [hr] at h
        | panic m => simp [hr] at h
      · simp [hx] at h
    | none =>
      simp only [hg] at h
      cases b with
      | true =>
        simp only [if_true] at h
        cases hr : valNextGo g (i + 1) rest with
        | ok r =>
          simp only [hr] at h
          cases r with
          | none => simp at h
          | some w' =>
            simp at h
            subst h
            simp [ih _ _ hr]
        | err m => simp [hr] at h
        | panic m => simp [hr] at h
      | false =>
        simp at h
        subst h
        simp

/-- the successor valuation has the size of the given one -/
theorem BddValuation_next_size (v : Array Bool) (clause : Array (Option Bool)) (hv : v.size < 65536) (w : Array Bool)
    (h : BddValuation_next v clause = .ok (some w)) : w.size = v.size := by
  have hs := BddValuation_next_sim v clause hv
  rw [h] at hs
  obtain ⟨b, hb, hr⟩ := hs.ok_left
  simp only [Option.map_some] at hr
  subst hr
  have := valNextGo_length _ _ _ _ hb
  simpa using this

/-- the valuation held by an iterator state fits the `u16` variable count -/
def CVInv (a : Option (Array Bool) × Array (Option Bool)) : Prop := ∀ v, a.1 = some v → v.size < 65536

/-- **`ValuationsOfClauseIterator::next` = `cvNext`**, per step: related states (valuation shorter than `2^16`) give
    the same item and related states again; panic iff panic -/
theorem ValuationsOfClauseIterator_next_sim (a : Option (Array Bool) × Array (Option Bool)) (b : CV)
    (hr : CVRel a b) (hi : CVInv a) :
    OSim (fun x y => x.1.map Array.toList = y.1 ∧ CVRel x.2 y.2 ∧ CVInv x.2)
      (ValuationsOfClauseIterator_next a) (cvNext b) := by
  obtain ⟨o, c⟩ := a
  obtain ⟨bn, bc⟩ := b
  obtain ⟨h1, h2⟩ := hr
  simp only at h1 h2
  subst h1 h2
  cases o with
  | none =>
    unfold ValuationsOfClauseIterator_next cvNext
    simp [OSim, CVRel, CVInv]
  | some v =>
    have hv : v.size < 65536 := hi v rfl
    have hs := BddValuation_next_sim v c hv
    have hsz := BddValuation_next_size v c hv
    unfold ValuationsOfClauseIterator_next cvNext
    simp only [Option.map_some]
    revert hs hsz
    cases BddValuation_next v c with
    | ok r =>
      cases valNext v.toList c.toList with
      | ok r' =>
        intro hs hsz
        simp only [OSim] at hs
        simp only [ok_bind, pure_eq, OSim, CVRel, CVInv, Option.map_some, true_and, and_true]
        refine ⟨hs, ?_⟩
        intro w hw
        rw [hsz w (by rw [hw])]
        exact hv
      | err m => intro hs _; exact hs.elim
      | panic m => intro hs _; exact hs.elim
    | err m => cases valNext v.toList c.toList <;> intro hs _ <;> first | exact hs.elim | trivial
    | panic m => cases valNext v.toList c.toList <;> intro hs _ <;> first | exact hs.elim | trivial

/-! ## whole enumerations -/

/-- generic lifting: step functions that simulate each other on `R`-related states (`R` carries whatever invariant
    the steps need and preserve) have `collect`s that simulate each other, for every fuel -/
theorem collect_sim {σ τ α β : Type} (R : σ → τ → Prop) (q : α → β)
    (f : σ → Outcome (Option α × σ)) (g : τ → Outcome (Option β × τ))
    (h : ∀ s t, R s t → OSim (fun x y => x.1.map q = y.1 ∧ R x.2 y.2) (f s) (g t)) :
    ∀ fuel s t, R s t → OSim (fun l l' => l.map q = l') (collect f fuel s) (collect g fuel t) := by
  intro fuel
  induction fuel with
  | zero => intro s t _; simp [collect, OSim]
  | succ fuel ih =>
    intro s t hr
    have hst := h s t hr
    rw [collect, collect]
    revert hst
    cases f s with
    | ok x =>
      cases g t with
      | ok y =>
        obtain ⟨oa, s'⟩ := x
        obtain ⟨ob, t'⟩ := y
        intro hst
        simp only [OSim] at hst
        obtain ⟨h1, h2⟩ := hst
        subst h1
        cases oa with
        | none => simp [OSim]
        | some a =>
          simp only [Option.map_some]
          have := ih s' t' h2
          revert this
          cases collect f fuel s' <;> cases collect g fuel t' <;> simp [OSim]
      | err m => intro hst; exact hst.elim
      | panic m => intro hst; exact hst.elim
    | err m => cases g t <;> intro hst <;> first | exact hst.elim | trivial
    | panic m => cases g t <;> intro hst <;> first | exact hst.elim | trivial

theorem flipAll_length : ∀ (l : List (Nat × Bool)) (v w : Valn), flipAll l v = .ok w → w.length = v.length := by
  intro l
  induction l with
  | nil => intro v w h; simp [flipAll] at h; rw [h]
  | cons x l ih =>
    intro v w h
    obtain ⟨i, b⟩ := x
    rw [flipAll] at h
    cases b with
    | false => exact ih v w h
    | true =>
      by_cases hi : i < v.length
      · simp only [hi, if_true] at h
        rw [ih _ w h]; simp
      · simp [hi] at h

/-- the first valuation made by `new` has `num_vars` positions -/
theorem ValuationsOfClauseIterator_new_inv (clause : Array (Option Bool)) (n : Nat) (hc : clause.size ≤ 65536)
    (hn : n < 65536) (st : Option (Array Bool) × Array (Option Bool))
    (h : ValuationsOfClauseIterator_new clause n = .ok st) : CVInv st := by
  have hs := ValuationsOfClauseIterator_new_sim clause n hc
  rw [h] at hs
  obtain ⟨b, hb, hr1, _⟩ := hs.ok_left
  intro v hv
  rw [hv] at hr1
  unfold cvNew at hb
  cases hf : flipAll (toValues clause.toList) (List.replicate n false) with
  | ok w =>
    rw [hf] at hb
    simp only [Outcome.ok.injEq] at hb
    subst hb
    simp only [Option.map_some, Option.some.injEq] at hr1
    have := flipAll_length _ _ _ hf
    rw [← hr1] at this
    simp at this
    omega
  | err m => simp [hf] at hb
  | panic m => simp [hf] at hb

/-- stepwise simulation of the iterator, in the form `collect_sim` wants -/
theorem cv_step_sim (s : Option (Array Bool) × Array (Option Bool)) (t : CV) (h : CVRel s t ∧ CVInv s) :
    OSim (fun x y => x.1.map Array.toList = y.1 ∧ CVRel x.2 y.2 ∧ CVInv x.2)
      (ValuationsOfClauseIterator_next s) (cvNext t) :=
  ValuationsOfClauseIterator_next_sim s t h.1 h.2

/-- collecting the translated iterator from a state = collecting the model iterator from a related state
    (all fuels; same result, panic iff panic) -/
theorem ValuationsOfClauseIterator_collect_sim (fuel : Nat) (s : Option (Array Bool) × Array (Option Bool)) (t : CV)
    (hr : CVRel s t) (hi : CVInv s) :
    OSim (fun l l' => l.map Array.toList = l') (collect ValuationsOfClauseIterator_next fuel s)
      (collect cvNext fuel t) :=
  collect_sim (fun s t => CVRel s t ∧ CVInv s) Array.toList _ _ cv_step_sim fuel s t ⟨hr, hi⟩

/-- **C08 for the translated code**: `ValuationsOfClauseIterator::new(clause, n)` followed by `collect()` yields
    exactly the extensions of the clause over the `n` variables, in increasing order -/
theorem clause_vals_translated_eq (clause : Array (Option Bool)) (n : Nat) (h : NoTrueBeyond n clause.toList)
    (hn : n < 65536) (hc : clause.size ≤ 65536) (fuel : Nat)
    (hf : 2 ^ freeCount (pvNorm n clause.toList) < fuel) :
    ∃ st, ValuationsOfClauseIterator_new clause n = .ok st ∧
      ∃ l, collect ValuationsOfClauseIterator_next fuel st = .ok l ∧
        l.map Array.toList = extensions (pvNorm n clause.toList) := by
  obtain ⟨⟨st', hnew, hcol⟩, _⟩ := Props.C08.clause_vals_iter_eq clause.toList n h fuel hf
  have hs := ValuationsOfClauseIterator_new_sim clause n hc
  rw [hnew] at hs
  obtain ⟨st, hst, hrel⟩ := hs.ok_right
  refine ⟨st, hst, ?_⟩
  have hinv := ValuationsOfClauseIterator_new_inv clause n hc hn st hst
  have hcs := ValuationsOfClauseIterator_collect_sim fuel st st' hrel hinv
  rw [hcol] at hcs
  obtain ⟨l, hl, hlr⟩ := hcs.ok_right
  exact ⟨l, hl, hlr⟩

/-- after the last item the translated iterator answers `None` and stays put -/
theorem ValuationsOfClauseIterator_next_none (clause : Array (Option Bool)) :
    ValuationsOfClauseIterator_next (none, clause) = .ok (none, (none, clause)) := rfl

/-- the error branch of the translated `new`: it panics exactly when a position `≥ num_vars` is `true` -/
theorem ValuationsOfClauseIterator_new_panics (clause : Array (Option Bool)) (n : Nat) (hc : clause.size ≤ 65536) :
    (ValuationsOfClauseIterator_new clause n).isPanic = true ↔ ¬ NoTrueBeyond n clause.toList := by
  rw [(ValuationsOfClauseIterator_new_sim clause n hc).isPanic]
  exact Props.C08.clause_vals_new_panics clause.toList n

/-- the unconstrained iterator (`all_false(n)` with the empty clause) yields all `2^n` valuations in increasing
    order -/
theorem unconstrained_translated_eq (n fuel : Nat) (hn : n < 65536) (hf : 2 ^ n < fuel) :
    ∃ l, collect ValuationsOfClauseIterator_next fuel (some (BddValuation_all_false n), BddPartialValuation_empty) =
        .ok l ∧ l.map Array.toList = extensions (List.replicate n none) := by
  have hrel : CVRel (some (BddValuation_all_false n), BddPartialValuation_empty) (cvUnconstrained n) := by
    simp [CVRel, cvUnconstrained, BddValuation_all_false, Rust.vecRepeat, BddPartialValuation_empty]
  have hinv : CVInv (some (BddValuation_all_false n), BddPartialValuation_empty) := by
    intro v hv
    simp only [Option.some.injEq] at hv
    subst hv
    simpa [BddValuation_all_false, Rust.vecRepeat] using hn
  have hcs := ValuationsOfClauseIterator_collect_sim fuel _ _ hrel hinv
  rw [(Props.C08.unconstrained_iter_eq n fuel hf).1] at hcs
  obtain ⟨l, hl, hlr⟩ := hcs.ok_right
  exact ⟨l, hl, hlr⟩

/-! ## domain forms: where the model succeeds, the translated code returns the same value -/

theorem BddValuation_next_eq_model (v : Array Bool) (clause : Array (Option Bool)) (hv : v.size < 65536)
    (r : Option Valn) (h : valNext v.toList clause.toList = .ok r) :
    BddValuation_next v clause = .ok (r.map List.toArray) := by
  have hs := BddValuation_next_sim v clause hv
  rw [h] at hs
  obtain ⟨a, ha, rfl⟩ := hs.ok_right
  rw [ha]; cases a <;> simp

theorem ValuationsOfClauseIterator_collect_eq_model (fuel : Nat) (s : Option (Array Bool) × Array (Option Bool))
    (t : CV) (hr : CVRel s t) (hi : CVInv s) (l : List Valn) (h : collect cvNext fuel t = .ok l) :
    collect ValuationsOfClauseIterator_next fuel s = .ok (l.map List.toArray) := by
  have hs := ValuationsOfClauseIterator_collect_sim fuel s t hr hi
  rw [h] at hs
  obtain ⟨a, ha, rfl⟩ := hs.ok_right
  rw [ha]; simp [Function.comp_def]

/-! ## non-vacuity -/

/-- the GENERATED `new`, run by the kernel -/
example : ValuationsOfClauseIterator_new #[some true, none, none] 3 =
    .ok (some #[true, false, false], #[some true, none, none]) := by rfl

/-- … and its panic branch (`true` at position 3 with 3 variables) -/
example : ∃ m, ValuationsOfClauseIterator_new #[none, none, none, some true] 3 = .panic m := ⟨_, rfl⟩

/-- the GENERATED `BddValuation::next`, run by the kernel through the desugaring lemma -/
example : BddValuation_next #[true, true, false] #[some true, none, none] = .ok (some #[true, false, true]) := by
  rw [BddValuation_next_desugar]; rfl

example : BddValuation_next #[true, true, true] #[some true, none, none] = .ok none := by
  rw [BddValuation_next_desugar]; rfl

/-- the `assert_eq!` -/
example : ∃ m, BddValuation_next #[false, false, false] #[some true, none, none] = .panic m := by
  rw [BddValuation_next_desugar]; exact ⟨_, rfl⟩

/-- through the theorem -/
example : BddValuation_next #[true, true, false] #[some true, none, none] = .ok (some #[true, false, true]) :=
  BddValuation_next_eq_model _ _ (by decide) (some [true, false, true]) rfl

/-- the hypotheses of `clause_vals_translated_eq` are satisfiable -/
example : ∃ st, ValuationsOfClauseIterator_new #[some true, none, none] 3 = .ok st ∧
    ∃ l, collect ValuationsOfClauseIterator_next 5 st = .ok l ∧
      l.map Array.toList = [[true, false, false], [true, true, false], [true, false, true], [true, true, true]] :=
  clause_vals_translated_eq #[some true, none, none] 3
    (by intro j hj; have : pvGet [some true, none, none] j = none := by
          unfold pvGet; rw [List.getElem?_eq_none (by simpa using hj)]; rfl
        rw [this]; simp)
    (by decide) (by decide) 5 (by decide)

/-- the enumeration itself, from the state that the generated `new` returns -/
example : collect ValuationsOfClauseIterator_next 5 (some #[true, false, false], #[some true, none, none]) =
    .ok [#[true, false, false], #[true, true, false], #[true, false, true], #[true, true, true]] :=
  ValuationsOfClauseIterator_collect_eq_model 5 _ ⟨some [true, false, false], [some true, none, none]⟩
    ⟨rfl, rfl⟩ (by intro v hv; simp only [Option.some.injEq] at hv; subst hv; decide)
    [[true, false, false], [true, true, false], [true, false, true], [true, true, true]] rfl

end B.AlgoEqIt
