import BddVerif.Lemmas.AlgoEq2NFOpt
import BddVerif.Lemmas.AlgoEq2NFOptLen
/-!
# `to_optimized_dnf`: closed forms, the driver's fuel, and the chain with Props/C10

* `Bdd_to_optimized_dnf_eq_model_closed` — no size assumption, `n ≤ 15`, fuel `n + 3 + 3·(2^n + 1)²`;
* `Bdd_to_optimized_dnf_eq_model_driver` — the fuel `10^9` the driver passes suffices for `n ≤ 14`;
* `Bdd_to_optimized_dnf_spec` — chained with `Props.C10.opt_dnf_roundtrip_exactCard`: what THE TRANSLATED
  `to_optimized_dnf` returns on a canonical array: a clause list over the variable set (vectors of at most `n` cells)
  that denotes the function of the array;
* `opt_dnf_roundtrip_translated` — the round trip entirely in translated code:
  `BddVariableSet_mk_dnf (Bdd_to_optimized_dnf b) = Ok(b)` with the driver's fuel.
-/
namespace B.AlgoEq2NF
open B B.NF B.Gen B.Gen.Algo B.Gen.Algo2 B.AlgoEqUtil

attribute [local instance 10000] Rust.monadOutcomeInline

theorem can_of_canon {n : Nat} {f : (Nat → Bool) → Bool} {b : Arr} (hb : b = canon n f) (hf : Dep n f) : Can n b :=
  ⟨f, hb, hf⟩

theorem Bdd_to_optimized_dnf_eq_model_closed {n : Nat} (hn : n ≤ 15) {A : Arr} (hA : Can n A) (F : Nat)
    (hF : n + 2 + (3 * ((2 ^ n + 1) * (2 ^ n + 1)) + 1) ≤ F) :
    Bdd_to_optimized_dnf F A = (toOptimizedDnf A).map fromL :=
  Bdd_to_optimized_dnf_eq_model (bnd_closed hn) hA F hF

/-- with the fuel the driver passes (`Drive/Algo2.lean`: `fuelHuge = 10^9`): every canonical array over at most 14
    variables -/
theorem Bdd_to_optimized_dnf_eq_model_driver {n : Nat} (hn : n ≤ 14) {A : Arr} (hA : Can n A) :
    Bdd_to_optimized_dnf Drive.Algo2.fuelHuge A = (toOptimizedDnf A).map fromL := by
  refine Bdd_to_optimized_dnf_eq_model_closed (by omega) hA _ ?_
  have := closed_fuel hn
  unfold Drive.Algo2.fuelHuge
  have h : 2 ^ n ≤ 2 ^ 14 := Nat.pow_le_pow_right (by omega) hn
  have h2 : (2 ^ n + 1) * (2 ^ n + 1) ≤ (2 ^ 14 + 1) * (2 ^ 14 + 1) := Nat.mul_le_mul (by omega) (by omega)
  omega

/-- general form with the driver's fuel -/
theorem Bdd_to_optimized_dnf_eq_model_driver' {n S : Nat} (hB : Bnd n S) {A : Arr} (hA : Can n A)
    (hF : n + 2 + (3 * (S * S) + 1) ≤ 1000000000) :
    Bdd_to_optimized_dnf Drive.Algo2.fuelHuge A = (toOptimizedDnf A).map fromL :=
  Bdd_to_optimized_dnf_eq_model hB hA _ hF

/-- chained with `Props.C10.opt_dnf_roundtrip_exactCard`: THE TRANSLATED `to_optimized_dnf`, run on the canonical
    array `b` of a function of the first `n` variables, returns clause vectors of at most `n` cells over the variable
    set whose disjunction is the function of `b`, and from which the hand model of `mk_dnf` rebuilds `b` -/
theorem Bdd_to_optimized_dnf_spec {n S : Nat} (hB : Bnd n S) (f : (Nat → Bool) → Bool) (b : Arr)
    (hb : b = canon n f) (hf : Dep n f) (F : Nat) (hF : n + 2 + (3 * (S * S) + 1) ≤ F) :
    ∃ cs : Cl, Bdd_to_optimized_dnf F b = .ok cs ∧ (∀ c, c ∈ cs.toList → InRange n c.toList) ∧
      (∀ c, c ∈ cs.toList → c.size ≤ n) ∧ (∀ v, dnfFn (toL cs) v = den b v) ∧ mkDnf n (toL cs) = .ok b := by
  obtain ⟨cs, e, hr, hden, hmk⟩ := Props.C10.opt_dnf_roundtrip_exactCard n f b hb hf
  have hlen := toOptimizedDnfWith_len exactCard (can_of_canon hb hf) cs e
  refine ⟨fromL cs, ?_, ?_, ?_, ?_, ?_⟩
  · rw [Bdd_to_optimized_dnf_eq_model hB (can_of_canon hb hf) F hF, e]; rfl
  · intro c hc
    have : c.toList ∈ cs := by
      have := toL_fromL cs
      unfold toL at this
      rw [← this]
      exact List.mem_map_of_mem hc
    exact hr _ this
  · intro c hc
    have : c.toList ∈ cs := by
      have := toL_fromL cs
      unfold toL at this
      rw [← this]
      exact List.mem_map_of_mem hc
    simpa using hlen _ this
  · rw [toL_fromL]; exact hden
  · rw [toL_fromL]; exact hmk

/-- THE ROUND TRIP IN TRANSLATED CODE, with the driver's fuel: for the canonical array `b` of a function of at most 14
    variables, `BddVariableSet::mk_dnf(b.to_optimized_dnf()) == b` -/
theorem opt_dnf_roundtrip_translated (set : VarSet) (hn : set.1 ≤ 14) (f : (Nat → Bool) → Bool) (b : Arr)
    (hb : b = canon set.1 f) (hf : Dep set.1 f) :
    ∃ cs : Cl, Bdd_to_optimized_dnf Drive.Algo2.fuelHuge b = .ok cs ∧
      (∀ v, dnfFn (toL cs) v = den b v) ∧
      BddVariableSet_mk_dnf Drive.Algo2.fuelHuge set cs = .ok b := by
  have hfuel : set.1 + 2 + (3 * ((2 ^ set.1 + 1) * (2 ^ set.1 + 1)) + 1) ≤ Drive.Algo2.fuelHuge := by
    unfold Drive.Algo2.fuelHuge
    have h : 2 ^ set.1 ≤ 2 ^ 14 := Nat.pow_le_pow_right (by omega) hn
    have h2 : (2 ^ set.1 + 1) * (2 ^ set.1 + 1) ≤ (2 ^ 14 + 1) * (2 ^ 14 + 1) := Nat.mul_le_mul (by omega) (by omega)
    omega
  obtain ⟨cs, e, hr, hlen, hden, hmk⟩ :=
    Bdd_to_optimized_dnf_spec (bnd_closed (by omega : set.1 ≤ 15)) f b hb hf _ hfuel
  refine ⟨cs, e, hden, ?_⟩
  have hlen' : ∀ c, c ∈ cs.toList → c.size ≤ 65536 := fun c hc => by have := hlen c hc; omega
  unfold Drive.Algo2.fuelHuge
  rw [BddVariableSet_mk_dnf_eq_model set (2 ^ set.1 + 1) cs hr hlen' (fun ds _ => canon_size_le _ _)
    (closed_bounds (by omega)) _ (closed_fuel hn), hmk]

/-! ### non-vacuity -/

/-- `(x0 ∧ ¬x2) ∨ ¬x1` over three variables -/
def exB : Arr := canon 3 (dnfFn [Props.C10.exC1, Props.C10.exC2])

example : exB = #[⟨3, 0, 0⟩, ⟨3, 1, 1⟩, ⟨2, 1, 0⟩, ⟨1, 1, 2⟩, ⟨1, 1, 0⟩, ⟨0, 4, 3⟩] := by decide

/-- the hypotheses are satisfiable: the translated optimiser, run with the driver's fuel on a concrete six-node array,
    returns a clause list from which the translated `mk_dnf` (driver's fuel) rebuilds the array -/
example : ∃ cs : Cl, Bdd_to_optimized_dnf Drive.Algo2.fuelHuge exB = .ok cs ∧
    (∀ v, dnfFn (toL cs) v = den exB v) ∧
    BddVariableSet_mk_dnf Drive.Algo2.fuelHuge (3, #["a", "b", "c"], {}) cs = .ok exB :=
  opt_dnf_roundtrip_translated (3, #["a", "b", "c"], {}) (by decide) _ exB rfl Props.C10.exFn_dep

/-- … and with the minimal admissible fuel of the closed form (`3 + 2 + 3·9·9 + 1 = 249`) the translated function
    returns exactly what the hand model returns -/
example : Bdd_to_optimized_dnf 249 exB = (toOptimizedDnf exB).map fromL :=
  Bdd_to_optimized_dnf_eq_model_closed (by decide) (can_of_canon rfl Props.C10.exFn_dep) 249 (by decide)

/-- the constant functions: one-node `false`, two-node `true` -/
example : Bdd_to_optimized_dnf 0 (mkFalse 3) = .ok #[] := rfl
example : Bdd_to_optimized_dnf 0 (mkTrue 3) = .ok #[#[]] := rfl

end B.AlgoEq2NF
