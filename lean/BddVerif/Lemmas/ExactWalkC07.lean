import BddVerif.Drive.C07
import BddVerif.Lemmas.ExactWalkC17
/-!
# Soundness of the exact walk of `Drive/C07.lean`

`Drive.C07.compositionExact f g r x budget` walks `(p in r, a in f with x := 1, c in f with x := 0, q in g)`.
**Soundness of the answer `some true`**: for `f`, `g`, `r` ordered by level over the same `n` variables (`WFo`,
i.e. the driver's `wfoB` tests on `f`, `g` in `valid` and on `r` right before the walk), `n ≤ 1 000 000` (the
walk's sentinel for terminals) the answer `some true` — for ANY budget — implies
`r(v) = f(v[x := g v])` for EVERY valuation. Neither reducedness nor `x < n` is needed.
-/
namespace B.ExactWalk
open B B.Drive

/-- closed sets of states, abstractly -/
theorem closed_sound_gen {τ : Type} (E : τ → Prop) (mu : τ → Nat) (M : τ → Prop)
    (hcl : ∀ z, M z → E z ∨ ∃ y1 y2, M y1 ∧ M y2 ∧ mu y1 < mu z ∧ mu y2 < mu z ∧ (E y1 → E y2 → E z)) :
    ∀ z, M z → E z := by
  intro z
  induction hk : mu z using Nat.strongRecOn generalizing z with
  | _ k ih =>
    intro hz
    rcases hcl z hz with h | ⟨y1, y2, h1, h2, m1, m2, himp⟩
    · exact h
    · exact himp (ih _ (hk ▸ m1) y1 rfl h1) (ih _ (hk ▸ m2) y2 rfl h2)

/-! ### the body of the loop, matcher-free -/

abbrev T := Nat × Nat × Nat × Nat
abbrev St7 := Option (Option Bool) × Array T × Std.HashSet T

def skipX (f : Arr) (x a : Nat) (hi : Bool) : Nat :=
  if a < 2 then a else
    if ((f[a]?.getD default).var == x) = true then (if hi = true then (f[a]?.getD default).high else (f[a]?.getD default).low) else a
def varAt (A : Arr) (a : Nat) : Nat := if a < 2 then 1000000 else (A[a]?.getD default).var
def stepP (A : Arr) (a d : Nat) (β : Bool) : Nat :=
  if a < 2 then a else
    if ((A[a]?.getD default).var == d) = true then (if β = true then (A[a]?.getD default).high else (A[a]?.getD default).low) else a
def norm (f : Arr) (x : Nat) (t : T) : T :=
  (t.1, if (t.2.2.2 == 0) = true then skipX f x t.2.2.1 false else skipX f x t.2.1 true,
    if (t.2.2.2 == 1) = true then skipX f x t.2.1 true else skipX f x t.2.2.1 false, t.2.2.2)
def dOf (f g r : Arr) (z : T) : Nat :=
  min (min (varAt r z.1) (varAt f z.2.1)) (min (varAt f z.2.2.1) (varAt g z.2.2.2))
def kid (f g r : Arr) (z : T) (β : Bool) : T :=
  (stepP r z.1 (dOf f g r z) β, stepP f z.2.1 (dOf f g r z) β, stepP f z.2.2.1 (dOf f g r z) β,
    stepP g z.2.2.2 (dOf f g r z) β)
def wbody (f g r : Arr) (x budget : Nat) (st' : Array T) (seen : Std.HashSet T) (t : T) : ForInStep St7 :=
  if seen.contains (norm f x t) = true then ForInStep.yield (none, st', seen)
  else if (seen.insert (norm f x t)).size > budget then ForInStep.done (some none, st', seen.insert (norm f x t))
  else if (decide ((norm f x t).1 < 2) && decide ((norm f x t).2.1 < 2) && decide ((norm f x t).2.2.1 < 2) &&
      decide ((norm f x t).2.2.2 < 2)) = true then
    if ((norm f x t).1 != (if ((norm f x t).2.2.2 == 1) = true then (norm f x t).2.1 else (norm f x t).2.2.1)) = true then
      ForInStep.done (some (some false), st', seen.insert (norm f x t))
    else ForInStep.yield (none, st', seen.insert (norm f x t))
  else ForInStep.yield (none, (st'.push (kid f g r (norm f x t) false)).push (kid f g r (norm f x t) true),
    seen.insert (norm f x t))


/-! ### components -/

theorem comp_facts {A : Arr} {n : Nat} (hA : WFo A n) (_hn : n ≤ 1000000) {a : Nat} (ha : a < A.size) :
    (a < 2 ∧ varAt A a = 1000000 ∧ varOf A n a = n) ∨
    (2 ≤ a ∧ varAt A a = varOf A n a ∧ varOf A n a < n) := by
  by_cases h2 : a < 2
  · left; exact ⟨h2, by simp [varAt, h2], by simp [varOf, h2]⟩
  · right
    have hnd : A[a]? = some A[a] := by simp [ha]
    have hv := varOf_node (n := n) a _ (by omega) hnd
    have := (hA.inner a _ (by omega) hnd).1
    refine ⟨by omega, ?_, by omega⟩
    simp [varAt, h2, ha, hv]

theorem stepP_spec {A : Arr} {n : Nat} (hA : WFo A n) {a : Nat} (ha : a < A.size) (d : Nat) (hd : d < n)
    (hle : d ≤ varOf A n a) (β : Bool) :
    stepP A a d β < A.size ∧ d < varOf A n (stepP A a d β) ∧
      ∀ w : Nat → Bool, w d = β → evW A n w a = evW A n w (stepP A a d β) := by
  unfold stepP
  by_cases h2 : a < 2
  · simp only [h2, if_true]
    exact ⟨ha, by simp [varOf, h2]; exact hd, by simp⟩
  · have hnd : A[a]? = some A[a] := by simp [ha]
    have hgd : A[a]?.getD default = A[a] := by simp [ha]
    have hv := varOf_node (n := n) a _ (by omega) hnd
    obtain ⟨i1, i2, i3, i4, i5⟩ := hA.inner a _ (by omega) hnd
    simp only [h2, if_false, hgd]
    by_cases hvd : (A[a].var == d) = true
    · have hvd' : A[a].var = d := by simpa using hvd
      simp only [hvd, if_true]
      refine ⟨by split <;> assumption, by split <;> omega, ?_⟩
      intro w hw
      rw [evW_node hA w a (by omega) _ hnd, hvd', hw]
      cases β <;> simp
    · have hvd' : A[a].var ≠ d := by simpa using hvd
      simp only [hvd, if_false, Bool.false_eq_true]
      exact ⟨ha, by omega, by simp⟩

theorem stepP_id {A : Arr} {a d : Nat} (β : Bool) (h : a < 2 ∨ (A[a]?.getD default).var ≠ d) :
    stepP A a d β = a := by
  unfold stepP
  rcases h with h | h
  · simp [h]
  · have : ((A[a]?.getD default).var == d) = false := by simpa using h
    simp [this]

theorem skipX_spec {f : Arr} {n : Nat} (hf : WFo f n) (x : Nat) {a : Nat} (ha : a < f.size) (hi : Bool) :
    skipX f x a hi < f.size ∧ varOf f n a ≤ varOf f n (skipX f x a hi) ∧
      (skipX f x a hi < 2 ∨ (f[skipX f x a hi]?.getD default).var ≠ x) ∧
      ∀ w : Nat → Bool, w x = hi → evW f n w a = evW f n w (skipX f x a hi) := by
  unfold skipX
  by_cases h2 : a < 2
  · simp only [h2, if_true]
    exact ⟨ha, Nat.le_refl _, by simp, by simp⟩
  · have hnd : f[a]? = some f[a] := by simp [ha]
    have hgd : f[a]?.getD default = f[a] := by simp [ha]
    have hv := varOf_node (n := n) a _ (by omega) hnd
    obtain ⟨i1, i2, i3, i4, i5⟩ := hf.inner a _ (by omega) hnd
    simp only [h2, if_false, hgd]
    by_cases hvd : (f[a].var == x) = true
    · have hvd' : f[a].var = x := by simpa using hvd
      simp only [hvd, if_true]
      -- a child of an `x`-node is a terminal or has a larger variable
      have child : ∀ k, k < f.size → f[a].var < varOf f n k → (k < 2 ∨ (f[k]?.getD default).var ≠ x) := by
        intro k hk hlt
        by_cases hk2 : k < 2
        · exact Or.inl hk2
        · right
          have hndk : f[k]? = some f[k] := by simp [hk]
          have := varOf_node (n := n) k _ (by omega) hndk
          simp [hk]; omega
      refine ⟨by split <;> assumption, by split <;> omega, ?_, ?_⟩
      · cases hi
        · simpa using child _ i2 i4
        · simpa using child _ i3 i5
      · intro w hw
        rw [evW_node hf w a (by omega) _ hnd, hvd', hw]
        cases hi <;> simp
    · have hvd' : f[a].var ≠ x := by simpa using hvd
      simp only [hvd, if_false, Bool.false_eq_true]
      exact ⟨ha, Nat.le_refl _, Or.inr (by simpa [ha] using hvd'), by simp⟩

theorem evW_term (A : Arr) (n : Nat) (v : Nat → Bool) {t : Nat} (ht : t < 2) : evW A n v t = decide (t = 1) := by
  have : t = 0 ∨ t = 1 := by omega
  rcases this with rfl | rfl
  · simp [evW_zero]
  · simp [evW_one]

/-! ### states -/

section
variable (f g r : Arr) (n x : Nat)

/-- the state denotes the composition identity -/
def E7 (z : T) : Prop :=
  ∀ v, evW r n v z.1 = if evW g n v z.2.2.2 = true then evW f n (upd v x true) z.2.1
    else evW f n (upd v x false) z.2.2.1

def lev (z : T) : Nat :=
  min (min (varOf r n z.1) (varOf f n z.2.1)) (min (varOf f n z.2.2.1) (varOf g n z.2.2.2))

def mu7 (z : T) : Nat := n - lev f g r n z

def InB7 (z : T) : Prop := z.1 < r.size ∧ z.2.1 < f.size ∧ z.2.2.1 < f.size ∧ z.2.2.2 < g.size

/-- the two pointers into `f` are past the variable `x` -/
def Nrm (z : T) : Prop :=
  (z.2.1 < 2 ∨ (f[z.2.1]?.getD default).var ≠ x) ∧ (z.2.2.1 < 2 ∨ (f[z.2.2.1]?.getD default).var ≠ x)
end

theorem norm_spec {f g r : Arr} {n : Nat} (x : Nat) (hf : WFo f n) {t : T} (ht : InB7 f g r t) :
    InB7 f g r (norm f x t) ∧ Nrm f x (norm f x t) ∧ lev f g r n t ≤ lev f g r n (norm f x t) ∧
      (E7 f g r n x (norm f x t) → E7 f g r n x t) := by
  obtain ⟨p, a0, c0, q⟩ := t
  obtain ⟨hp, ha, hc, hq⟩ := ht
  simp only at hp ha hc hq
  obtain ⟨a1, a2, a3, a4⟩ := skipX_spec hf x ha true
  obtain ⟨c1, c2, c3, c4⟩ := skipX_spec hf x hc false
  unfold norm
  simp only
  by_cases hq0 : (q == 0) = true
  · have hq0' : q = 0 := by simpa using hq0
    have hq1 : (q == 1) = false := by simp [hq0']
    simp only [hq0, hq1, if_true, Bool.false_eq_true, if_false]
    refine ⟨⟨hp, c1, c1, hq⟩, ⟨c3, c3⟩, by simp only [lev]; omega, ?_⟩
    intro h v
    have := h v
    simp only [hq0', evW_zero, Bool.false_eq_true, if_false] at this ⊢
    rw [this]; exact (c4 _ (by simp [upd])).symm
  · by_cases hq1 : (q == 1) = true
    · have hq1' : q = 1 := by simpa using hq1
      simp only [hq0, hq1, if_true, if_false, Bool.false_eq_true]
      refine ⟨⟨hp, a1, a1, hq⟩, ⟨a3, a3⟩, by simp only [lev]; omega, ?_⟩
      intro h v
      have := h v
      simp only [hq1', evW_one, if_true] at this ⊢
      rw [this]; exact (a4 _ (by simp [upd])).symm
    · simp only [hq0, hq1, if_false, Bool.false_eq_true]
      refine ⟨⟨hp, a1, c1, hq⟩, ⟨a3, c3⟩, by simp only [lev]; omega, ?_⟩
      intro h v
      have := h v
      simp only at this ⊢
      rw [this, a4 (upd v x true) (by simp [upd]), c4 (upd v x false) (by simp [upd])]

theorem term_E {f g r : Arr} (n x : Nat) {z : T}
    (h1 : z.1 < 2) (h2 : z.2.1 < 2) (h3 : z.2.2.1 < 2) (h4 : z.2.2.2 < 2)
    (he : z.1 = if (z.2.2.2 == 1) = true then z.2.1 else z.2.2.1) : E7 f g r n x z := by
  obtain ⟨p, a, c, q⟩ := z
  simp only at h1 h2 h3 h4 he
  intro v
  simp only
  rw [evW_term r n v h1, evW_term g n v h4, evW_term f n _ h2, evW_term f n _ h3]
  have : q = 0 ∨ q = 1 := by omega
  rcases this with rfl | rfl
  · simp at he; subst he; simp
  · simp at he; subst he; simp

theorem kid_spec {f g r : Arr} {n : Nat} (x : Nat) (hf : WFo f n) (hg : WFo g n) (hr : WFo r n)
    (hn : n ≤ 1000000) {z : T} (hz : InB7 f g r z) (hnrm : Nrm f x z)
    (hnt : ¬ (z.1 < 2 ∧ z.2.1 < 2 ∧ z.2.2.1 < 2 ∧ z.2.2.2 < 2)) :
    (∀ β, InB7 f g r (kid f g r z β) ∧ mu7 f g r n (kid f g r z β) < mu7 f g r n z) ∧
      (E7 f g r n x (kid f g r z false) → E7 f g r n x (kid f g r z true) → E7 f g r n x z) := by
  obtain ⟨p, a, c, q⟩ := z
  obtain ⟨hp, ha, hc, hq⟩ := hz
  obtain ⟨na, nc⟩ := hnrm
  simp only at hp ha hc hq na nc hnt
  have fp := comp_facts hr hn hp
  have fa := comp_facts hf hn ha
  have fc := comp_facts hf hn hc
  have fq := comp_facts hg hn hq
  have hd : dOf f g r (p, a, c, q) < n ∧ dOf f g r (p, a, c, q) = lev f g r n (p, a, c, q) := by
    simp only [dOf, lev]; omega
  obtain ⟨hdn, hdl⟩ := hd
  generalize hdd : dOf f g r (p, a, c, q) = d at hdn hdl
  have hle : d ≤ varOf r n p ∧ d ≤ varOf f n a ∧ d ≤ varOf f n c ∧ d ≤ varOf g n q := by
    simp only [lev] at hdl; omega
  have sp := stepP_spec hr hp d hdn hle.1
  have sa := stepP_spec hf ha d hdn hle.2.1
  have sc := stepP_spec hf hc d hdn hle.2.2.1
  have sq := stepP_spec hg hq d hdn hle.2.2.2
  have hkid : ∀ β, kid f g r (p, a, c, q) β = (stepP r p d β, stepP f a d β, stepP f c d β, stepP g q d β) := by
    intro β; simp only [kid, hdd]
  refine ⟨?_, ?_⟩
  · intro β
    rw [hkid]
    refine ⟨⟨(sp β).1, (sa β).1, (sc β).1, (sq β).1⟩, ?_⟩
    have := (sp β).2.1; have := (sa β).2.1; have := (sc β).2.1; have := (sq β).2.1
    simp only [mu7, lev] at hdl ⊢
    omega
  · rw [hkid, hkid]
    intro h0 h1 v
    -- the `f`-pointers do not test `x`, so fixing `x` commutes with the step
    have fstep : ∀ (k : Nat), k < f.size → d ≤ varOf f n k → (k < 2 ∨ (f[k]?.getD default).var ≠ x) →
        ∀ b, evW f n (upd v x b) k = evW f n (upd v x b) (stepP f k d (v d)) := by
      intro k hk hkl hkn b
      by_cases hdx : d = x
      · rw [stepP_id (v d) (hdx ▸ hkn)]
      · exact (stepP_spec hf hk d hdn hkl (v d)).2.2 _ (by simp [upd, hdx])
    have e1 := (sp (v d)).2.2 v rfl
    have e4 := (sq (v d)).2.2 v rfl
    have e2 := fstep a ha hle.2.1 na true
    have e3 := fstep c hc hle.2.2.1 nc false
    simp only
    rw [e1, e4, e2, e3]
    cases hvd : v d
    · exact h0 v
    · exact h1 v

/-! ### the invariant of the loop -/

/-- normalised states seen, or waiting on the stack (before normalisation) -/
def Mem7 (f : Arr) (x : Nat) (seen : Std.HashSet T) (stack : Array T) (z : T) : Prop :=
  seen.contains z = true ∨ ∃ t, t ∈ stack ∧ norm f x t = z

def Loc7 (f g r : Arr) (n x : Nat) (M : T → Prop) (z : T) : Prop :=
  E7 f g r n x z ∨ ∃ y1 y2, M y1 ∧ M y2 ∧ mu7 f g r n y1 < mu7 f g r n z ∧ mu7 f g r n y2 < mu7 f g r n z ∧
    (E7 f g r n x y1 → E7 f g r n x y2 → E7 f g r n x z)

theorem Loc7.mono {f g r : Arr} {n x : Nat} {M M' : T → Prop} (h : ∀ z, M z → M' z) {z : T}
    (hz : Loc7 f g r n x M z) : Loc7 f g r n x M' z := by
  rcases hz with hz | ⟨y1, y2, h1, h2, rest⟩
  · exact Or.inl hz
  · exact Or.inr ⟨y1, y2, h y1 h1, h y2 h2, rest⟩

def Good7 (f g r : Arr) (n x : Nat) (seen : Std.HashSet T) (stack : Array T) : Prop :=
  Mem7 f x seen stack (norm f x (root r, root f, root f, root g)) ∧ (∀ t, t ∈ stack → InB7 f g r t) ∧
    ∀ z, seen.contains z = true → Loc7 f g r n x (Mem7 f x seen stack) z

/-- the clause of property C07: the result denotes the composition -/
def Target7 (f g r : Arr) (x : Nat) : Prop := ∀ v, evalArr r v = evalArr f (upd v x (evalArr g v))

theorem good_final7 {f g r : Arr} {n x : Nat} (hf : WFo f n) (hg : WFo g n) (hr : WFo r n)
    {seen : Std.HashSet T} (h : Good7 f g r n x seen #[]) : Target7 f g r x := by
  obtain ⟨h1, _, h3⟩ := h
  have hM : ∀ z, Mem7 f x seen #[] z → seen.contains z = true := by
    intro z hz; rcases hz with hz | ⟨t, ht, _⟩
    · exact hz
    · simp at ht
  have hE := closed_sound_gen (E7 f g r n x) (mu7 f g r n) (Mem7 f x seen #[])
    (fun z hz => h3 z (hM z hz)) _ h1
  have hroot : InB7 f g r (root r, root f, root f, root g) := ⟨root_lt hr, root_lt hf, root_lt hf, root_lt hg⟩
  have := (norm_spec x hf hroot).2.2.2 hE
  intro v
  have e1 : evalArr r v = evW r n v (root r) := by unfold evalArr evW; rw [numVars_of_wf hr]
  have e2 : evalArr g v = evW g n v (root g) := by unfold evalArr evW; rw [numVars_of_wf hg]
  have e3 : ∀ w, evalArr f w = evW f n w (root f) := by intro w; unfold evalArr evW; rw [numVars_of_wf hf]
  rw [e1, e2, e3, this v]
  simp only
  cases evW g n v (root g) <;> simp

/-- **Soundness of `Drive.C07.compositionExact`.** -/
theorem compositionExact_sound {f g r : Arr} {n : Nat} (x budget : Nat) (hf : WFo f n) (hg : WFo g n)
    (hr : WFo r n) (hn : n ≤ 1000000)
    (h : C07.compositionExact f g r x budget = some true) :
    ∀ v, evalArr r v = evalArr f (upd v x (evalArr g v)) := by
  unfold C07.compositionExact at h
  dsimp only [Id.run, bind, pure] at h
  rw [Std.Legacy.Range.forIn_eq_forIn_range'] at h
  generalize hfin : forIn (m := Id) (List.range' _ _ _) _ _ = fin at h
  refine forIn_inv_eq hfin
    (fun s : St7 => s.1 = none ∧ Good7 f g r n x s.2.2 s.2.1)
    (fun s : St7 => (s.1 = some (some true) ∨ (s.1 = none ∧ s.2.1.isEmpty = true)) → Target7 f g r x)
    ?_ ?_ ?_ (by
      obtain ⟨o, st, se⟩ := fin
      cases o with
      | none =>
        refine Or.inr ⟨rfl, ?_⟩
        simp only at h ⊢
        cases hemp : st.isEmpty with
        | true => rfl
        | false => simp [hemp] at h
      | some y => exact Or.inl (by simpa using h))
  · -- initially
    refine ⟨rfl, Or.inr ⟨_, by simp, rfl⟩, ?_, ?_⟩
    · intro t ht
      have : t = (root r, root f, root f, root g) := by simpa using ht
      subst this; exact ⟨root_lt hr, root_lt hf, root_lt hf, root_lt hg⟩
    · intro z hz; simp at hz
  · -- one iteration
    rintro _ ⟨o, stack, seen⟩ ⟨ho, hgood⟩
    simp only at ho hgood
    subst ho
    cases hback : stack.back? with
    | none =>
      have hst : stack = #[] := Array.back?_eq_none_iff.1 hback
      subst hst
      refine ⟨?_, fun s' h' => (by cases h')⟩
      intro s' h' _
      exact good_final7 hf hg hr hgood
    | some t =>
      obtain ⟨p, a0, c0, q⟩ := t
      show (∀ s', wbody f g r x budget stack.pop seen (p, a0, c0, q) = ForInStep.done s' →
          (s'.1 = some (some true) ∨ (s'.1 = none ∧ s'.2.1.isEmpty = true)) → Target7 f g r x) ∧
        (∀ s', wbody f g r x budget stack.pop seen (p, a0, c0, q) = ForInStep.yield s' →
          s'.1 = none ∧ Good7 f g r n x s'.2.2 s'.2.1)
      obtain ⟨st', hst⟩ := Array.back?_eq_some_iff.1 hback
      subst hst
      rw [Array.pop_push]
      generalize ht0 : ((p, a0, c0, q) : T) = t at *
      obtain ⟨g1, g2, g3⟩ := hgood
      have ht : InB7 f g r t := g2 _ (by simp)
      obtain ⟨zin, znrm, zlev, zE⟩ := norm_spec (g := g) (r := r) x hf ht
      unfold wbody
      generalize hz : norm f x t = z at *
      by_cases hseen : seen.contains z = true
      · rw [if_pos hseen]
        refine ⟨fun s' h' => (by cases h'), ?_⟩
        intro s' h'
        cases h'
        have hsub : ∀ z', Mem7 f x seen (st'.push t) z' → Mem7 f x seen st' z' := by
          intro z' hz'
          rcases hz' with hz' | ⟨t', ht', hn'⟩
          · exact Or.inl hz'
          · rcases Array.mem_push.1 ht' with ht' | rfl
            · exact Or.inr ⟨t', ht', hn'⟩
            · exact Or.inl (by rw [← hn', hz]; exact hseen)
        exact ⟨rfl, hsub _ g1, fun t' ht' => g2 t' (Array.mem_push.2 (Or.inl ht')),
          fun z' hz' => Loc7.mono hsub (g3 z' hz')⟩
      · rw [if_neg hseen]
        by_cases hbud : (seen.insert z).size > budget
        · rw [if_pos hbud]
          exact ⟨fun s' h' => (by cases h'; intro h; simp at h), fun s' h' => (by cases h')⟩
        · rw [if_neg hbud]
          have hmove : ∀ st'' : Array T, (∀ t', t' ∈ st' → t' ∈ st'') →
              ∀ z', Mem7 f x seen (st'.push t) z' → Mem7 f x (seen.insert z) st'' z' := by
            intro st'' hsub z' hz'
            rcases hz' with hz' | ⟨t', ht', hn'⟩
            · exact Or.inl (by simp [Std.HashSet.contains_insert, hz'])
            · rcases Array.mem_push.1 ht' with ht' | rfl
              · exact Or.inr ⟨t', hsub t' ht', hn'⟩
              · exact Or.inl (by rw [← hn', hz]; simp [Std.HashSet.contains_insert])
          have hins : ∀ z', (seen.insert z).contains z' = true → z' = z ∨ seen.contains z' = true := by
            intro z' hz'
            rw [Std.HashSet.contains_insert] at hz'
            rcases Bool.or_eq_true _ _ ▸ hz' with hz' | hz'
            · exact Or.inl (beq_iff_eq.1 hz').symm
            · exact Or.inr hz'
          by_cases hterm : (decide (z.1 < 2) && decide (z.2.1 < 2) && decide (z.2.2.1 < 2) &&
              decide (z.2.2.2 < 2)) = true
          · rw [if_pos hterm]
            by_cases hne : (z.1 != (if (z.2.2.2 == 1) = true then z.2.1 else z.2.2.1)) = true
            · rw [if_pos hne]
              exact ⟨fun s' h' => (by cases h'; intro h; simp at h), fun s' h' => (by cases h')⟩
            · rw [if_neg hne]
              refine ⟨fun s' h' => (by cases h'), ?_⟩
              intro s' h'
              cases h'
              have hm1 := hmove st' (fun _ h => h)
              refine ⟨rfl, hm1 _ g1, fun t' ht' => g2 t' (Array.mem_push.2 (Or.inl ht')), ?_⟩
              intro z' hz'
              rcases hins z' hz' with rfl | hz'
              · left
                simp only [Bool.and_eq_true, decide_eq_true_eq] at hterm
                exact term_E n x hterm.1.1.1 hterm.1.1.2 hterm.1.2 hterm.2 (by simpa using hne)
              · exact Loc7.mono hm1 (g3 z' hz')
          · rw [if_neg hterm]
            refine ⟨fun s' h' => (by cases h'), ?_⟩
            intro s' h'
            cases h'
            have hnt : ¬ (z.1 < 2 ∧ z.2.1 < 2 ∧ z.2.2.1 < 2 ∧ z.2.2.2 < 2) := by
              simpa [Bool.and_eq_true, decide_eq_true_eq, and_assoc] using hterm
            obtain ⟨kin, kE⟩ := kid_spec x hf hg hr hn zin znrm hnt
            have hm1 := hmove ((st'.push (kid f g r z false)).push (kid f g r z true))
              (fun t' ht' => Array.mem_push.2 (Or.inl (Array.mem_push.2 (Or.inl ht'))))
            refine ⟨rfl, hm1 _ g1, ?_, ?_⟩
            · intro t' ht'
              rcases Array.mem_push.1 ht' with ht' | rfl
              · rcases Array.mem_push.1 ht' with ht' | rfl
                · exact g2 t' (Array.mem_push.2 (Or.inl ht'))
                · exact (kin false).1
              · exact (kin true).1
            · intro z' hz'
              rcases hins z' hz' with rfl | hz'
              · right
                obtain ⟨_, _, l0, e0⟩ := norm_spec (g := g) (r := r) x hf (kin false).1
                obtain ⟨_, _, l1, e1⟩ := norm_spec (g := g) (r := r) x hf (kin true).1
                have m0 := (kin false).2
                have m1 := (kin true).2
                refine ⟨norm f x (kid f g r z' false), norm f x (kid f g r z' true),
                  Or.inr ⟨_, Array.mem_push.2 (Or.inl (Array.mem_push.2 (Or.inr rfl))), rfl⟩,
                  Or.inr ⟨_, Array.mem_push.2 (Or.inr rfl), rfl⟩, ?_, ?_, ?_⟩
                · simp only [mu7] at m0 ⊢; omega
                · simp only [mu7] at m1 ⊢; omega
                · exact fun h0 h1 => kE (e0 h0) (e1 h1)
              · exact Loc7.mono hm1 (g3 z' hz')
  · -- the range is exhausted
    rintro ⟨o, stack, seen⟩ ⟨ho, hgood⟩ hres
    simp only at ho hgood hres
    subst ho
    have hres' : stack.isEmpty = true := by
      rcases hres with hres | hres
      · cases hres
      · exact hres.2
    have : stack = #[] := Array.isEmpty_iff.1 hres'
    subst this
    exact good_final7 hf hg hr hgood

/-- with the driver's executable validity test -/
theorem compositionExact_sound_wfoB {f g r : Arr} {n : Nat} (x budget : Nat)
    (hf : wfoB f n = true) (hg : wfoB g n = true) (hr : wfoB r n = true) (hn : n ≤ 1000000)
    (h : C07.compositionExact f g r x budget = some true) :
    ∀ v, evalArr r v = evalArr f (upd v x (evalArr g v)) :=
  compositionExact_sound x budget (wfoB_sound hf) (wfoB_sound hg) (wfoB_sound hr) hn h

/-! ### non-vacuity -/

section Examples
/-- `x0 ∧ x1` -/
def ex7F : Arr := #[⟨3, 0, 0⟩, ⟨3, 1, 1⟩, ⟨1, 0, 1⟩, ⟨0, 0, 2⟩]
/-- `x2` -/
def ex7G : Arr := #[⟨3, 0, 0⟩, ⟨3, 1, 1⟩, ⟨2, 0, 1⟩]
/-- `x0 ∧ x2` = `ex7F [x1 := ex7G]`, with a duplicate node (not reduced) -/
def ex7R : Arr := #[⟨3, 0, 0⟩, ⟨3, 1, 1⟩, ⟨2, 0, 1⟩, ⟨2, 0, 1⟩, ⟨0, 0, 3⟩]

example : wfoB ex7F 3 = true ∧ wfoB ex7G 3 = true ∧ wfoB ex7R 3 = true := by decide
/-- the conclusion on this instance, by brute force (the walk itself is evaluated in ExactWalkAudit.lean) -/
example : ∀ i, i < 8 → evalArr ex7R (valOfIndex 3 i) =
    evalArr ex7F (upd (valOfIndex 3 i) 1 (evalArr ex7G (valOfIndex 3 i))) := by decide
end Examples

end B.ExactWalk
