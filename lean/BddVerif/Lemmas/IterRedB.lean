import BddVerif.Core.Basic
/-! Executable `Red` check with a soundness proof, used by the non-vacuity examples of C08. -/
namespace B.Iter
open B

def redB (A : Arr) (n : Nat) : Bool :=
  decide (2 ≤ A.size) &&
  (List.range A.size).all (fun p => decide (p < 2) ||
    (match A[p]? with
     | none => true
     | some nd => decide (nd.var < n) && decide (nd.low < p) && decide (nd.high < p) &&
        decide (nd.low ≠ nd.high) && decide (nd.var < varOf A n nd.low) && decide (nd.var < varOf A n nd.high)) &&
    (List.range A.size).all (fun q => decide (q < 2) || decide (p = q) || (A[p]? != A[q]?)))

theorem redB_sound {A : Arr} {n : Nat} (h : redB A n = true) : Red A n := by
  unfold redB at h
  simp only [Bool.and_eq_true, Bool.or_eq_true, decide_eq_true_eq, List.all_eq_true, List.mem_range] at h
  obtain ⟨hs, hin⟩ := h
  have lt_of_some : ∀ p nd, A[p]? = some nd → p < A.size := by
    intro p nd hnd
    rcases Nat.lt_or_ge p A.size with h' | h'
    · exact h'
    · simp [Array.getElem?_eq_none h'] at hnd
  refine ⟨hs, ?_, ?_⟩
  · intro p nd hp hnd
    rcases hin p (lt_of_some p nd hnd) with h' | ⟨h', _⟩
    · omega
    · rw [hnd] at h'
      simp only [Bool.and_eq_true, decide_eq_true_eq] at h'
      obtain ⟨⟨⟨⟨⟨a, b⟩, c⟩, d⟩, e⟩, f⟩ := h'
      exact ⟨a, b, c, d, e, f⟩
  · intro p q nd hp hq hnp hnq
    rcases hin p (lt_of_some p nd hnp) with h' | ⟨_, h'⟩
    · omega
    · rcases h' q (lt_of_some q nd hnq) with h'' | h''
      · rcases h'' with h'' | h''
        · omega
        · exact h''
      · rw [hnp, hnq] at h''; simp at h''

end B.Iter
