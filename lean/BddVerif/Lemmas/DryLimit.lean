import BddVerif.Model.Limit
/-!
Helper lemmas for C05, part 2: the limited dry run is the unlimited traversal cut off at the first insertion
that makes the task set larger than the limit — for arbitrary operands, tables and flips.
-/
namespace B.Lim
open B Std

def guardD (lim : Nat) (s out : DSt) : Option DSt :=
  if s.visited.size < out.visited.size ∧ lim < out.visited.size then none else some out

def MonoD (rec : Nat → Nat → DSt → DSt) : Prop := ∀ a b s, s.visited.size ≤ (rec a b s).visited.size

def RelD (lim : Nat) (recLim : Nat → Nat → DSt → Option DSt) (rec : Nat → Nat → DSt → DSt) : Prop :=
  ∀ a b s, recLim a b s = guardD lim s (rec a b s)

theorem guardD_same (lim : Nat) (s out : DSt) (h : out.visited.size = s.visited.size) :
    guardD lim s out = some out := by
  unfold guardD
  have : ¬ (s.visited.size < out.visited.size ∧ lim < out.visited.size) := by omega
  rw [if_neg this]

theorem size_insert_new (m : HashSet (Nat × Nat)) (k : Nat × Nat) (h : m.contains k = false) :
    (m.insert k).size = m.size + 1 := by
  rw [HashSet.size_insert]
  have : ¬ k ∈ m := by rw [HashSet.mem_iff_contains, h]; simp
  rw [if_neg this]

theorem dryVisit_mono (Γ : Ctx) (rec) (h : MonoD rec) : MonoD (dryVisit Γ rec) := by
  intro l r s
  unfold dryVisit
  cases Γ.op (asBool l) (asBool r) with
  | some c => exact Nat.le_refl _
  | none =>
    simp only
    cases hc : s.visited.contains (l, r) with
    | true => simp
    | false =>
      simp only [Bool.false_eq_true, if_false]
      have h0 : s.visited.size ≤ (s.visited.insert (l, r)).size := HashSet.size_le_size_insert
      generalize min (nodeAt Γ.L l).var (nodeAt Γ.R r).var = d
      split
      · have h1 := h (kids Γ.L l d Γ.fl).1 (kids Γ.R r d Γ.fr).1 { s with visited := s.visited.insert (l, r) }
        have h2 := h (kids Γ.L l d Γ.fl).2 (kids Γ.R r d Γ.fr).2
          (rec (kids Γ.L l d Γ.fl).1 (kids Γ.R r d Γ.fr).1 { s with visited := s.visited.insert (l, r) })
        simp only at h1
        omega
      · have h1 := h (kids Γ.L l d Γ.fl).2 (kids Γ.R r d Γ.fr).2 { s with visited := s.visited.insert (l, r) }
        have h2 := h (kids Γ.L l d Γ.fl).1 (kids Γ.R r d Γ.fr).1
          (rec (kids Γ.L l d Γ.fl).2 (kids Γ.R r d Γ.fr).2 { s with visited := s.visited.insert (l, r) })
        simp only at h1
        omega

theorem dryRec_mono (Γ : Ctx) : ∀ fuel, MonoD (dryRec Γ fuel) := by
  intro fuel
  induction fuel with
  | zero => intro a b s; exact Nat.le_refl _
  | succ fuel ih => exact dryVisit_mono Γ _ ih

/-- arithmetic of the two guarded children after an insertion that stayed within the limit -/
theorem guardD_chain (lim : Nat) (s s1 : DSt) (f1 f2 : DSt → DSt)
    (hs1 : s1.visited.size = s.visited.size + 1) (hl : ¬ s1.visited.size > lim)
    (h1 : ∀ t, t.visited.size ≤ (f1 t).visited.size) (h2 : ∀ t, t.visited.size ≤ (f2 t).visited.size) :
    (match guardD lim s1 (f1 s1) with
     | none => none
     | some s2 => guardD lim s2 (f2 s2)) = guardD lim s (f2 (f1 s1)) := by
  have a1 := h1 s1
  have a2 := h2 (f1 s1)
  unfold guardD
  by_cases c1 : s1.visited.size < (f1 s1).visited.size ∧ lim < (f1 s1).visited.size
  · have : s.visited.size < (f2 (f1 s1)).visited.size ∧ lim < (f2 (f1 s1)).visited.size := by omega
    simp [c1, this]
  · simp only [c1, if_false]
    by_cases c2 : (f1 s1).visited.size < (f2 (f1 s1)).visited.size ∧ lim < (f2 (f1 s1)).visited.size
    · have : s.visited.size < (f2 (f1 s1)).visited.size ∧ lim < (f2 (f1 s1)).visited.size := by omega
      simp [c2, this]
    · have : ¬ (s.visited.size < (f2 (f1 s1)).visited.size ∧ lim < (f2 (f1 s1)).visited.size) := by omega
      simp [c2, this]

theorem dryVisitLim_guard (Γ : Ctx) (lim : Nat) (recLim rec) (h : RelD lim recLim rec) (hm : MonoD rec) :
    RelD lim (dryVisitLim Γ lim recLim) (dryVisit Γ rec) := by
  intro l r s
  unfold dryVisitLim dryVisit
  cases Γ.op (asBool l) (asBool r) with
  | some c => exact (guardD_same lim s { s with nonEmpty := s.nonEmpty || c } rfl).symm
  | none =>
    simp only
    cases hc : s.visited.contains (l, r) with
    | true => simp only [if_true]; exact (guardD_same lim s s rfl).symm
    | false =>
      simp only [Bool.false_eq_true, if_false]
      have hsz := size_insert_new s.visited (l, r) hc
      generalize min (nodeAt Γ.L l).var (nodeAt Γ.R r).var = d
      by_cases hl : (s.visited.insert (l, r)).size > lim
      · rw [if_pos hl]
        -- the unlimited run only grows the set further
        by_cases hfo : Γ.fo = some d
        · rw [if_pos hfo]
          have h1 := hm (kids Γ.L l d Γ.fl).1 (kids Γ.R r d Γ.fr).1 { s with visited := s.visited.insert (l, r) }
          have h2 := hm (kids Γ.L l d Γ.fl).2 (kids Γ.R r d Γ.fr).2
            (rec (kids Γ.L l d Γ.fl).1 (kids Γ.R r d Γ.fr).1 { s with visited := s.visited.insert (l, r) })
          simp only at h1
          unfold guardD
          rw [if_pos (by omega)]
        · rw [if_neg hfo]
          have h1 := hm (kids Γ.L l d Γ.fl).2 (kids Γ.R r d Γ.fr).2 { s with visited := s.visited.insert (l, r) }
          have h2 := hm (kids Γ.L l d Γ.fl).1 (kids Γ.R r d Γ.fr).1
            (rec (kids Γ.L l d Γ.fl).2 (kids Γ.R r d Γ.fr).2 { s with visited := s.visited.insert (l, r) })
          simp only at h1
          unfold guardD
          rw [if_pos (by omega)]
      · rw [if_neg hl]
        by_cases hfo : Γ.fo = some d
        · rw [if_pos hfo, if_pos hfo]
          simp only [h _ _ _]
          exact guardD_chain lim s { s with visited := s.visited.insert (l, r) }
            (fun t => rec (kids Γ.L l d Γ.fl).1 (kids Γ.R r d Γ.fr).1 t)
            (fun t => rec (kids Γ.L l d Γ.fl).2 (kids Γ.R r d Γ.fr).2 t) hsz hl (fun t => hm _ _ t) (fun t => hm _ _ t)
        · rw [if_neg hfo, if_neg hfo]
          simp only [h _ _ _]
          exact guardD_chain lim s { s with visited := s.visited.insert (l, r) }
            (fun t => rec (kids Γ.L l d Γ.fl).2 (kids Γ.R r d Γ.fr).2 t)
            (fun t => rec (kids Γ.L l d Γ.fl).1 (kids Γ.R r d Γ.fr).1 t) hsz hl (fun t => hm _ _ t) (fun t => hm _ _ t)

theorem dryRecLim_guard (Γ : Ctx) (lim : Nat) : ∀ fuel, RelD lim (dryRecLim Γ lim fuel) (dryRec Γ fuel) := by
  intro fuel
  induction fuel with
  | zero => intro a b s; exact (guardD_same lim s _ rfl).symm
  | succ fuel ih => exact dryVisitLim_guard Γ lim _ _ ih (dryRec_mono Γ fuel)

/-- `estimated_apply_complexity` with a limit returns `None` exactly when the unlimited task count exceeds the
    limit, and the unlimited pair otherwise — for ALL operands, tables, flips and limits -/
theorem dryRun_eq (lim : Nat) (L R : Arr) (op : Op2) (fl fr fo : Option Nat) :
    dryRun lim L R op fl fr fo =
      if (dryFull L R op fl fr fo).2 ≤ lim then some (dryFull L R op fl fr fo) else none := by
  unfold dryRun dryFull
  simp only
  rw [dryRecLim_guard ⟨L, R, numVars L, op, fl, fr, fo⟩ lim (numVars L + 2) (root L) (root R) initDSt]
  generalize dryRec ⟨L, R, numVars L, op, fl, fr, fo⟩ (numVars L + 2) (root L) (root R) initDSt = out
  have h0 : initDSt.visited.size = 0 := HashSet.size_emptyWithCapacity
  unfold guardD
  rw [h0]
  by_cases hb : out.visited.size ≤ lim
  · have : ¬ (0 < out.visited.size ∧ lim < out.visited.size) := by omega
    simp [hb, this]
  · have : 0 < out.visited.size ∧ lim < out.visited.size := by omega
    simp [hb, this]

end B.Lim
