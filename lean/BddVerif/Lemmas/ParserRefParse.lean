import BddVerif.Lemmas.ParserRefLex
/-!
The recursive-descent reference parser `ParserRef.refParse` decides exactly the flat grammar `DerF`:
soundness (whatever it returns is a derivation of the consumed prefix), completeness with the explicit
fuel bound `8 * (length of the consumed prefix) + level + 1`, and the corollary for the fuel the driver
passes. Hence `ParserRef.reference s = (Parser.parse s).toOption` for every string.
-/
namespace B.ParserRef
open B B.Parser

abbrev cv (fl : List FT) : List FTok := fl.map conv

theorem cv_inj {a b : List FT} (h : cv a = cv b) : a = b := by
  induction a generalizing b with
  | nil => cases b <;> simp_all [cv]
  | cons x xs ih =>
    cases b with
    | nil => simp [cv] at h
    | cons y ys =>
      simp only [cv, List.map_cons, List.cons.injEq] at h
      rw [conv_inj h.1, ih h.2]

theorem kwTrue_eq : "true".toList = kwTrue := by decide
theorem kwFalse_eq : "false".toList = kwFalse := by decide

/-- level at which a token makes the descent continue (`:` never does) -/
def contLevel : FTok → Option Nat
  | .hat => some 1 | .amp => some 2 | .bar => some 3 | .quest => some 4 | .arrow => some 5 | .darrow => some 6
  | _ => none

/-- what may follow a complete level-`n` phrase without being absorbed by the level-`n` parser -/
def Follow (n : Nat) : List FTok → Prop
  | [] => True
  | t :: _ => ∀ m, contLevel t = some m → n < m

theorem Follow.mono {n : Nat} {rest : List FTok} (h : Follow (n + 1) rest) : Follow n rest := by
  cases rest with
  | nil => trivial
  | cons t r => intro m hm; have := h m hm; omega

theorem Follow.ne {n : Nat} {t : FTok} {r : List FTok} (h : Follow n (t :: r)) (op : FTok)
    (hop : contLevel op = some n) : t ≠ op := by
  intro e; subst e; have := h n hop; omega

/-! ### unfolding -/

theorem refParse_zero (n : Nat) (ts : List FTok) : refParse 0 n ts = none := by
  unfold refParse; rfl

theorem refParse_l1 (f : Nat) (ts : List FTok) :
    refParse (f + 1) 1 ts = binLevel (refParse f 0) (refParse f 1) .hat .xor ts := by simp only [refParse]
theorem refParse_l2 (f : Nat) (ts : List FTok) :
    refParse (f + 1) 2 ts = binLevel (refParse f 1) (refParse f 2) .amp .and ts := by simp only [refParse]
theorem refParse_l3 (f : Nat) (ts : List FTok) :
    refParse (f + 1) 3 ts = binLevel (refParse f 2) (refParse f 3) .bar .or ts := by simp only [refParse]
theorem refParse_l5 (f : Nat) (ts : List FTok) :
    refParse (f + 1) 5 ts = binLevel (refParse f 4) (refParse f 5) .arrow .imp ts := by simp only [refParse]
theorem refParse_l6 (f : Nat) (ts : List FTok) :
    refParse (f + 1) 6 ts = binLevel (refParse f 5) (refParse f 6) .darrow .iff ts := by simp only [refParse]
theorem refParse_l4 (f : Nat) (ts : List FTok) :
    refParse (f + 1) 4 ts =
      match refParse f 3 ts with
      | some (c, FTok.quest :: rest) =>
        match refParse f 3 rest with
        | some (t, FTok.colon :: rest') =>
          match refParse f 3 rest' with
          | some (e, rest'') => some (Expr.cond c t e, rest'')
          | none => none
        | _ => none
      | r => r := by simp only [refParse]; rfl
theorem refParse_l0 (f : Nat) (ts : List FTok) :
    refParse (f + 1) 0 ts =
      match ts with
      | FTok.bang :: rest => (refParse f 0 rest).map fun (e, r) => (Expr.not e, r)
      | FTok.ident s :: rest =>
        some ((if s = "true".toList then Expr.const true else if s = "false".toList then Expr.const false else Expr.var s), rest)
      | FTok.lp :: rest =>
        match refParse f 6 rest with
        | some (e, FTok.rp :: rest') => some (e, rest')
        | _ => none
      | _ => none := by
  cases ts with
  | nil => rfl
  | cons t tl => cases t <;> rfl

/-! ### one right-associative binary level -/

theorem binLevel_up {next self : List FTok → PRes} {op : FTok} {mk : Expr → Expr → Expr} {ts rest : List FTok}
    {e : Expr} (hn : next ts = some (e, rest)) (hr : ∀ t r, rest = t :: r → t ≠ op) :
    binLevel next self op mk ts = some (e, rest) := by
  unfold binLevel
  rw [hn]
  cases rest with
  | nil => rfl
  | cons t r => simp [hr t r rfl]

theorem binLevel_op {next self : List FTok → PRes} {op : FTok} {mk : Expr → Expr → Expr} {ts r1 rest : List FTok}
    {l r : Expr} (hn : next ts = some (l, op :: r1)) (hs : self r1 = some (r, rest)) :
    binLevel next self op mk ts = some (mk l r, rest) := by
  unfold binLevel
  rw [hn]
  simp [hs]

theorem binLevel_inv {next self : List FTok → PRes} {op : FTok} {mk : Expr → Expr → Expr} {ts rest : List FTok}
    {e : Expr} (h : binLevel next self op mk ts = some (e, rest)) :
    (next ts = some (e, rest)) ∨
    (∃ l r r1, next ts = some (l, op :: r1) ∧ self r1 = some (r, rest) ∧ e = mk l r) := by
  unfold binLevel at h
  cases hn : next ts with
  | none => rw [hn] at h; cases h
  | some p =>
    obtain ⟨l, rs⟩ := p
    rw [hn] at h
    cases rs with
    | nil => left; simpa using h
    | cons t r1 =>
      simp only at h
      by_cases ht : t = op
      · subst ht
        simp only [if_true] at h
        cases hs : self r1 with
        | none => rw [hs] at h; cases h
        | some q =>
          obtain ⟨r, rest'⟩ := q
          rw [hs] at h
          simp only [Option.some.injEq, Prod.mk.injEq] at h
          right
          exact ⟨l, r, r1, rfl, by rw [← h.2]; exact hs, h.1.symm⟩
      · simp only [ht, if_false] at h
        left; exact h

/-! ### completeness, with the fuel bound -/

theorem refParse_complete {n : Nat} {pre : List FT} {e : Expr} (h : DerF n pre e) :
    ∀ (rest : List FTok) (f : Nat), Follow n rest → 8 * pre.length + n + 1 ≤ f →
      refParse f n (cv pre ++ rest) = some (e, rest) := by
  induction h with
  | ident s h1 h2 =>
    intro rest f _ hf
    obtain ⟨f', rfl⟩ : ∃ f', f = f' + 1 := ⟨f - 1, by omega⟩
    rw [refParse_l0]
    simp [cv, conv, kwTrue_eq, kwFalse_eq, h1, h2]
  | tt =>
    intro rest f _ hf
    obtain ⟨f', rfl⟩ : ∃ f', f = f' + 1 := ⟨f - 1, by omega⟩
    rw [refParse_l0]
    simp [cv, conv, kwTrue_eq]
  | ff =>
    intro rest f _ hf
    obtain ⟨f', rfl⟩ : ∃ f', f = f' + 1 := ⟨f - 1, by omega⟩
    rw [refParse_l0]
    have : kwFalse ≠ kwTrue := by decide
    simp [cv, conv, kwTrue_eq, kwFalse_eq, this]
  | @neg fl e _ ih =>
    intro rest f hfol hf
    obtain ⟨f', rfl⟩ : ∃ f', f = f' + 1 := ⟨f - 1, by omega⟩
    rw [refParse_l0]
    simp only [cv, List.map_cons, conv, List.cons_append]
    rw [ih rest f' hfol (by simp only [List.length_cons] at hf; omega)]
    rfl
  | @par fl e _ ih =>
    intro rest f hfol hf
    obtain ⟨f', rfl⟩ : ∃ f', f = f' + 1 := ⟨f - 1, by omega⟩
    rw [refParse_l0]
    have hts : cv (FT.lp :: (fl ++ [FT.rp])) ++ rest = FTok.lp :: (cv fl ++ (FTok.rp :: rest)) := by
      simp [cv, conv]
    rw [hts]
    simp only
    rw [ih (FTok.rp :: rest) f' (by intro m hm; simp [contLevel] at hm)
      (by simp only [List.length_cons, List.length_append, List.length_nil] at hf; omega)]
  | @xorS a b l r _ _ iha ihb =>
    intro rest f hfol hf
    obtain ⟨f', rfl⟩ : ∃ f', f = f' + 1 := ⟨f - 1, by omega⟩
    simp only [List.length_append, List.length_cons] at hf
    rw [refParse_l1]
    have hts : cv (a ++ FT.xor :: b) ++ rest = cv a ++ (FTok.hat :: (cv b ++ rest)) := by simp [cv, conv]
    rw [hts]
    exact binLevel_op (iha _ f' (by intro m hm; simp [contLevel] at hm; omega) (by omega))
      (ihb rest f' hfol (by omega))
  | @andS a b l r _ _ iha ihb =>
    intro rest f hfol hf
    obtain ⟨f', rfl⟩ : ∃ f', f = f' + 1 := ⟨f - 1, by omega⟩
    simp only [List.length_append, List.length_cons] at hf
    rw [refParse_l2]
    have hts : cv (a ++ FT.and :: b) ++ rest = cv a ++ (FTok.amp :: (cv b ++ rest)) := by simp [cv, conv]
    rw [hts]
    exact binLevel_op (iha _ f' (by intro m hm; simp [contLevel] at hm; omega) (by omega))
      (ihb rest f' hfol (by omega))
  | @orS a b l r _ _ iha ihb =>
    intro rest f hfol hf
    obtain ⟨f', rfl⟩ : ∃ f', f = f' + 1 := ⟨f - 1, by omega⟩
    simp only [List.length_append, List.length_cons] at hf
    rw [refParse_l3]
    have hts : cv (a ++ FT.or :: b) ++ rest = cv a ++ (FTok.bar :: (cv b ++ rest)) := by simp [cv, conv]
    rw [hts]
    exact binLevel_op (iha _ f' (by intro m hm; simp [contLevel] at hm; omega) (by omega))
      (ihb rest f' hfol (by omega))
  | @condS a b d c t e _ _ _ iha ihb ihd =>
    intro rest f hfol hf
    obtain ⟨f', rfl⟩ : ∃ f', f = f' + 1 := ⟨f - 1, by omega⟩
    simp only [List.length_append, List.length_cons] at hf
    rw [refParse_l4]
    have hts : cv (a ++ FT.qmark :: (b ++ FT.colon :: d)) ++ rest =
        cv a ++ (FTok.quest :: (cv b ++ (FTok.colon :: (cv d ++ rest)))) := by simp [cv, conv]
    rw [hts]
    rw [iha _ f' (by intro m hm; simp [contLevel] at hm; omega) (by omega)]
    simp only
    rw [ihb _ f' (by intro m hm; simp [contLevel] at hm) (by omega)]
    simp only
    rw [ihd rest f' hfol.mono (by omega)]
  | @impS a b l r _ _ iha ihb =>
    intro rest f hfol hf
    obtain ⟨f', rfl⟩ : ∃ f', f = f' + 1 := ⟨f - 1, by omega⟩
    simp only [List.length_append, List.length_cons] at hf
    rw [refParse_l5]
    have hts : cv (a ++ FT.imp :: b) ++ rest = cv a ++ (FTok.arrow :: (cv b ++ rest)) := by simp [cv, conv]
    rw [hts]
    exact binLevel_op (iha _ f' (by intro m hm; simp [contLevel] at hm; omega) (by omega))
      (ihb rest f' hfol (by omega))
  | @iffS a b l r _ _ iha ihb =>
    intro rest f hfol hf
    obtain ⟨f', rfl⟩ : ∃ f', f = f' + 1 := ⟨f - 1, by omega⟩
    simp only [List.length_append, List.length_cons] at hf
    rw [refParse_l6]
    have hts : cv (a ++ FT.iff :: b) ++ rest = cv a ++ (FTok.darrow :: (cv b ++ rest)) := by simp [cv, conv]
    rw [hts]
    exact binLevel_op (iha _ f' (by intro m hm; simp [contLevel] at hm; omega) (by omega))
      (ihb rest f' hfol (by omega))
  | @up n fl e hn _ ih =>
    intro rest f hfol hf
    obtain ⟨f', rfl⟩ : ∃ f', f = f' + 1 := ⟨f - 1, by omega⟩
    have hnext := ih rest f' hfol.mono (by omega)
    have hcases : n = 0 ∨ n = 1 ∨ n = 2 ∨ n = 3 ∨ n = 4 ∨ n = 5 := by omega
    rcases hcases with rfl | rfl | rfl | rfl | rfl | rfl
    · rw [refParse_l1]; exact binLevel_up hnext (fun t r hr => by subst hr; exact hfol.ne _ rfl)
    · rw [refParse_l2]; exact binLevel_up hnext (fun t r hr => by subst hr; exact hfol.ne _ rfl)
    · rw [refParse_l3]; exact binLevel_up hnext (fun t r hr => by subst hr; exact hfol.ne _ rfl)
    · rw [refParse_l4, hnext]
      cases rest with
      | nil => rfl
      | cons t r =>
        have : t ≠ FTok.quest := hfol.ne _ rfl
        cases t <;> simp_all
    · rw [refParse_l5]; exact binLevel_up hnext (fun t r hr => by subst hr; exact hfol.ne _ rfl)
    · rw [refParse_l6]; exact binLevel_up hnext (fun t r hr => by subst hr; exact hfol.ne _ rfl)

/-! ### soundness -/

def SoundAt (f n : Nat) : Prop :=
  ∀ ts e rest, refParse f n ts = some (e, rest) → ∃ pre, ts = cv pre ++ rest ∧ DerF n pre e

theorem binLevel_sound {next self : List FTok → PRes} {op : FTok} {opF : FT} {mk : Expr → Expr → Expr} {k : Nat}
    (hk : k < 6) (hop : conv opF = op)
    (hnext : ∀ ts e rest, next ts = some (e, rest) → ∃ pre, ts = cv pre ++ rest ∧ DerF k pre e)
    (hself : ∀ ts e rest, self ts = some (e, rest) → ∃ pre, ts = cv pre ++ rest ∧ DerF (k + 1) pre e)
    (hmk : ∀ a b l r, DerF k a l → DerF (k + 1) b r → DerF (k + 1) (a ++ opF :: b) (mk l r))
    (ts : List FTok) (e : Expr) (rest : List FTok) (h : binLevel next self op mk ts = some (e, rest)) :
    ∃ pre, ts = cv pre ++ rest ∧ DerF (k + 1) pre e := by
  rcases binLevel_inv h with hn | ⟨l, r, r1, hn, hs, rfl⟩
  · obtain ⟨pre, h1, h2⟩ := hnext _ _ _ hn
    exact ⟨pre, h1, DerF.up hk h2⟩
  · obtain ⟨pa, ha1, ha2⟩ := hnext _ _ _ hn
    obtain ⟨pb, hb1, hb2⟩ := hself _ _ _ hs
    refine ⟨pa ++ opF :: pb, ?_, hmk _ _ _ _ ha2 hb2⟩
    rw [ha1, hb1]
    simp [cv, hop]

theorem refParse_sound : ∀ (f n : Nat), n ≤ 6 → SoundAt f n := by
  intro f
  induction f with
  | zero => intro n _ ts e rest h; rw [refParse_zero] at h; cases h
  | succ f ih =>
    intro n hn
    have hcases : n = 0 ∨ n = 1 ∨ n = 2 ∨ n = 3 ∨ n = 4 ∨ n = 5 ∨ n = 6 := by omega
    rcases hcases with rfl | rfl | rfl | rfl | rfl | rfl | rfl
    · -- terms
      intro ts e rest h
      rw [refParse_l0] at h
      cases ts with
      | nil => cases h
      | cons t tl =>
        cases t with
        | bang =>
          simp only [Option.map_eq_some_iff, Prod.mk.injEq, Prod.exists] at h
          obtain ⟨e', r', h1, h2, h3⟩ := h
          subst h2; subst h3
          obtain ⟨pre, hp1, hp2⟩ := ih 0 (by omega) _ _ _ h1
          exact ⟨.not :: pre, by simp [cv, conv, hp1], DerF.neg hp2⟩
        | ident s =>
          simp only [Option.some.injEq, Prod.mk.injEq] at h
          obtain ⟨h1, h2⟩ := h
          subst h2
          refine ⟨[.id s], by simp [cv, conv], ?_⟩
          rw [kwTrue_eq, kwFalse_eq] at h1
          by_cases ht : s = kwTrue
          · subst ht; simp at h1; subst h1; exact DerF.tt
          · by_cases hf : s = kwFalse
            · subst hf; simp [ht] at h1; subst h1; exact DerF.ff
            · simp [ht, hf] at h1; subst h1; exact DerF.ident s ht hf
        | lp =>
          simp only at h
          cases hr : refParse f 6 tl with
          | none => rw [hr] at h; cases h
          | some p =>
            obtain ⟨e', rs⟩ := p
            rw [hr] at h
            cases rs with
            | nil => cases h
            | cons t' rs' =>
              cases t' <;> simp only [Option.some.injEq, Prod.mk.injEq, reduceCtorEq] at h
              obtain ⟨h1, h2⟩ := h
              subst h1; subst h2
              obtain ⟨pre, hp1, hp2⟩ := ih 6 (by omega) _ _ _ hr
              exact ⟨.lp :: (pre ++ [.rp]), by simp [cv, conv, hp1], DerF.par hp2⟩
        | rp | amp | bar | hat | arrow | darrow | quest | colon => cases h
    · intro ts e rest h; rw [refParse_l1] at h
      exact binLevel_sound (by omega) rfl (ih 0 (by omega)) (ih 1 (by omega)) (fun _ _ _ _ => DerF.xorS) ts e rest h
    · intro ts e rest h; rw [refParse_l2] at h
      exact binLevel_sound (by omega) rfl (ih 1 (by omega)) (ih 2 (by omega)) (fun _ _ _ _ => DerF.andS) ts e rest h
    · intro ts e rest h; rw [refParse_l3] at h
      exact binLevel_sound (by omega) rfl (ih 2 (by omega)) (ih 3 (by omega)) (fun _ _ _ _ => DerF.orS) ts e rest h
    · -- conditional
      intro ts e rest h
      rw [refParse_l4] at h
      cases h1 : refParse f 3 ts with
      | none => rw [h1] at h; cases h
      | some p =>
        obtain ⟨c, r1⟩ := p
        rw [h1] at h
        obtain ⟨pa, ha1, ha2⟩ := ih 3 (by omega) _ _ _ h1
        have hup : ∀ (hh : some (c, r1) = some (e, rest)), ∃ pre, ts = cv pre ++ rest ∧ DerF 4 pre e := by
          intro hh
          simp only [Option.some.injEq, Prod.mk.injEq] at hh
          obtain ⟨rfl, rfl⟩ := hh
          exact ⟨pa, ha1, DerF.up (by omega) ha2⟩
        cases r1 with
        | nil => exact hup h
        | cons t r1' =>
          cases t with
          | quest =>
            simp only at h
            cases h2 : refParse f 3 r1' with
            | none => rw [h2] at h; cases h
            | some q =>
              obtain ⟨t', r2⟩ := q
              rw [h2] at h
              obtain ⟨pb, hb1, hb2⟩ := ih 3 (by omega) _ _ _ h2
              cases r2 with
              | nil => cases h
              | cons u r2' =>
                cases u <;> simp only [reduceCtorEq] at h
                cases h3 : refParse f 3 r2' with
                | none => rw [h3] at h; cases h
                | some w =>
                  obtain ⟨e', r3⟩ := w
                  rw [h3] at h
                  simp only [Option.some.injEq, Prod.mk.injEq] at h
                  obtain ⟨rfl, rfl⟩ := h
                  obtain ⟨pd, hd1, hd2⟩ := ih 3 (by omega) _ _ _ h3
                  refine ⟨pa ++ .qmark :: (pb ++ .colon :: pd), ?_, DerF.condS ha2 hb2 hd2⟩
                  rw [ha1, hb1, hd1]
                  simp [cv, conv]
          | lp | rp | bang | amp | bar | hat | arrow | darrow | colon | ident s => exact hup h
    · intro ts e rest h; rw [refParse_l5] at h
      exact binLevel_sound (by omega) rfl (ih 4 (by omega)) (ih 5 (by omega)) (fun _ _ _ _ => DerF.impS) ts e rest h
    · intro ts e rest h; rw [refParse_l6] at h
      exact binLevel_sound (by omega) rfl (ih 5 (by omega)) (ih 6 (by omega)) (fun _ _ _ _ => DerF.iffS) ts e rest h

/-! ### the whole reference parser -/

/-- on a whole flat string, with at least `8 * length + 7` fuel, the descent accepts exactly the
    derivations of the flat grammar -/
theorem refParse_iff (fl : List FT) (e : Expr) (f : Nat) (hf : 8 * fl.length + 7 ≤ f) :
    refParse f 6 (cv fl) = some (e, []) ↔ DerF 6 fl e := by
  constructor
  · intro h
    obtain ⟨pre, h1, h2⟩ := refParse_sound f 6 (by omega) _ _ _ h
    rw [List.append_nil] at h1
    rw [cv_inj h1]; exact h2
  · intro h
    have := refParse_complete h [] f trivial (by omega)
    rwa [List.append_nil] at this

/-- the fuel passed by the driver suffices -/
theorem driver_fuel (ts : List FTok) : 8 * ts.length + 7 ≤ 8 * ts.length + 16 := by omega

/-- **the reference parser decides the flat grammar** -/
theorem reference_iff (s : List Char) (e : Expr) :
    reference s = some e ↔ ∃ fl, lexFlat s = (fl, none) ∧ DerF 6 fl e := by
  unfold reference
  rw [refLex_eq]
  cases hl : lexFlat s with
  | mk fl tail =>
    cases tail with
    | some m => simp
    | none =>
      simp only
      have hlen : (cv fl).length = fl.length := by simp [cv]
      have key := refParse_iff fl e (8 * (List.map conv fl).length + 16) (by rw [hlen]; omega)
      constructor
      · intro h
        refine ⟨fl, rfl, key.mp ?_⟩
        cases hr : refParse (8 * (List.map conv fl).length + 16) 6 (List.map conv fl) with
        | none => rw [hr] at h; cases h
        | some p =>
          obtain ⟨e', rs⟩ := p
          rw [hr] at h
          cases rs with
          | nil => simp only [Option.some.injEq] at h; subst h; rfl
          | cons t r => cases h
      · rintro ⟨fl', h1, h2⟩
        simp only [Prod.mk.injEq, and_true] at h1
        subst h1
        have := key.mpr h2
        simp only [cv] at this
        rw [this]

/-- **the reference parser agrees with the model of the real parser on every string** -/
theorem reference_eq_parse (s : List Char) : reference s = (parse s).toOption := by
  apply Option.ext
  intro e
  rw [reference_iff]
  constructor
  · rintro ⟨fl, h1, h2⟩
    have hp : parse s = .ok e := by
      rw [parse]
      rw [tokGroup_eq_groupM, h1]
      simp only
      obtain ⟨ts, hg, hd⟩ := (derF_iff_der 6 fl e).mp h2
      rw [(groupM_none_eq fl ts).mpr hg]
      exact (parseFormula_iff_der ts e).mpr hd
    rw [hp]; rfl
  · intro h
    cases hp : parse s with
    | ok e' =>
      rw [hp] at h
      simp only [Outcome.toOption, Option.some.injEq] at h
      subst h
      -- parse s = ok e'  →  flat derivation
      rw [parse] at hp
      cases ht : tokGroup s true with
      | ok p =>
        obtain ⟨ts, rest⟩ := p
        rw [ht] at hp
        obtain ⟨_, fl, hl, hg⟩ := (tokGroup_ok_iff s ts rest).mp ht
        exact ⟨fl, hl, (derF_iff_der 6 fl e').mpr ⟨ts, hg, (parseFormula_iff_der ts e').mp hp⟩⟩
      | err m => rw [ht] at hp; cases hp
      | panic m => rw [ht] at hp; cases hp
    | err m => rw [hp] at h; simp [Outcome.toOption] at h
    | panic m => rw [hp] at h; simp [Outcome.toOption] at h

end B.ParserRef
