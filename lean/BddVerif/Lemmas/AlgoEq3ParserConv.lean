import BddVerif.Gen.Algo3
import BddVerif.Model.Parser
import BddVerif.Lemmas.ParserTotal
import BddVerif.Lemmas.AlgoEqUtilBase
/-!
# Equivalence "translated Rust = hand-written model" for the expression parser: conversions

`Gen/Algo3.lean` has its own generated inductives `B.Gen.Algo3.ExprToken` (`Vec` = `Array`, `String` = `String`) and
`B.Gen.Algo3.BooleanExpression`; the hand model (`Model/Parser.lean`) has `B.Tok` (lists, names = `List Char`) and `B.Expr`.
This file defines the structural conversions in both directions, proves that they are mutually inverse bijections, and
provides the small bridges (`char::is_whitespace`, `NOT_IN_VAR_NAME`, `index_of_first`, slices, keywords).

NOTE on `==` of tokens: `ExprToken` is a nested inductive (`Tokens (a0 : Array ExprToken)`); Lean's `deriving BEq` compiles
to a `partial def` for such types (an `opaque` constant about which nothing is provable). The translator therefore emits
a structural `mutual def ExprToken.beq / ExprToken.beqL` (= `derive(PartialEq)`); `beq_payloadFree` below evaluates it
against the eight payload-free tokens, the only comparisons the parser makes.
-/
namespace B.AlgoEq3Parser
open B B.Gen B.Parser

abbrev GT := B.Gen.Algo3.ExprToken
abbrev GE := B.Gen.Algo3.BooleanExpression

/-! ### tokens -/

mutual
/-- model token ↦ generated token -/
def convT : Tok → GT
  | .not => .Not | .and => .And | .or => .Or | .xor => .Xor | .imp => .Imp | .iff => .Iff
  | .colon => .Colon | .qmark => .QuestionMark
  | .id s => .Id (String.ofList s)
  | .group ts => .Tokens ⟨convL ts⟩
def convL : List Tok → List GT
  | [] => []
  | t :: ts => convT t :: convL ts
end

mutual
/-- generated token ↦ model token -/
def unconvT : GT → Tok
  | .Not => .not | .And => .and | .Or => .or | .Xor => .xor | .Imp => .imp | .Iff => .iff
  | .Colon => .colon | .QuestionMark => .qmark
  | .Id s => .id s.toList
  | .Tokens ⟨l⟩ => .group (unconvL l)
def unconvL : List GT → List Tok
  | [] => []
  | t :: ts => unconvT t :: unconvL ts
end

/-- a `Vec<ExprToken>` from a model token list -/
def convA (ts : List Tok) : Array GT := ⟨convL ts⟩
/-- a model token list from a `Vec<ExprToken>` / `&[ExprToken]` -/
def unconvA (a : Array GT) : List Tok := unconvL a.toList

theorem convL_eq_map (ts : List Tok) : convL ts = ts.map convT := by
  induction ts with
  | nil => rfl
  | cons t ts ih => simp [convL, ih]

theorem unconvL_eq_map (ts : List GT) : unconvL ts = ts.map unconvT := by
  induction ts with
  | nil => rfl
  | cons t ts ih => simp [unconvL, ih]

mutual
theorem unconvT_convT : ∀ t : Tok, unconvT (convT t) = t
  | .not => rfl | .and => rfl | .or => rfl | .xor => rfl | .imp => rfl | .iff => rfl
  | .colon => rfl | .qmark => rfl
  | .id s => by simp [convT, unconvT]
  | .group ts => by simp [convT, unconvT, unconvL_convL ts]
theorem unconvL_convL : ∀ ts : List Tok, unconvL (convL ts) = ts
  | [] => rfl
  | t :: ts => by simp [convL, unconvL, unconvT_convT t, unconvL_convL ts]
end

mutual
theorem convT_unconvT : ∀ t : GT, convT (unconvT t) = t
  | .Not => rfl | .And => rfl | .Or => rfl | .Xor => rfl | .Imp => rfl | .Iff => rfl
  | .Colon => rfl | .QuestionMark => rfl
  | .Id s => by simp [convT, unconvT]
  | .Tokens ⟨l⟩ => by simp [convT, unconvT, convL_unconvL l]
theorem convL_unconvL : ∀ ts : List GT, convL (unconvL ts) = ts
  | [] => rfl
  | t :: ts => by simp [convL, unconvL, convT_unconvT t, convL_unconvL ts]
end

theorem unconvA_convA (ts : List Tok) : unconvA (convA ts) = ts := unconvL_convL ts
theorem convA_unconvA (a : Array GT) : convA (unconvA a) = a := by
  cases a with | mk l => simp [convA, unconvA, convL_unconvL]

@[simp] theorem convA_size (ts : List Tok) : (convA ts).size = ts.length := by
  simp [convA, convL_eq_map]

theorem convA_nil : convA [] = #[] := rfl
theorem convA_append (a b : List Tok) : convA (a ++ b) = convA a ++ convA b := by
  simp [convA, convL_eq_map]
theorem convA_push (a : List Tok) (t : Tok) : (convA a).push (convT t) = convA (a ++ [t]) := by
  simp [convA, convL_eq_map]
theorem convA_cons (t : Tok) (ts : List Tok) : convA (t :: ts) = #[convT t] ++ convA ts := by
  simp [convA, convL_eq_map]

/-! ### `*t == token` for the payload-free tokens -/

/-- constructor number of a generated token (same numbering as `Parser.Tok.tag`) -/
def gtag : GT → Nat
  | .Not => 0 | .And => 1 | .Or => 2 | .Xor => 3 | .Imp => 4 | .Iff => 5 | .Colon => 6 | .QuestionMark => 7
  | .Id _ => 8 | .Tokens _ => 9

theorem gtag_convT (t : Tok) : gtag (convT t) = Tok.tag t := by
  cases t <;> rfl

/-- the translated `PartialEq` against a payload-free token is equality of constructors -/
theorem beq_payloadFree (t k : GT) (hk : gtag k < 8) : (t == k) = (gtag t == gtag k) := by
  show Algo3.ExprToken.beq t k = _
  cases k <;> simp [gtag] at hk <;> cases t <;> simp [gtag, Algo3.ExprToken.beq]

theorem beq_convT (t k : Tok) (hk : Tok.tag k < 8) : (convT t == convT k) = Tok.eqK t k := by
  rw [beq_payloadFree _ _ (by rw [gtag_convT]; exact hk), gtag_convT, gtag_convT]; rfl

/-- `index_of_first` on converted tokens is the model's `indexOfFirst` -/
theorem index_of_first_conv (ts : List Tok) (k : Tok) (hk : Tok.tag k < 8) :
    Algo3.index_of_first (convA ts) (convT k) = indexOfFirst ts k := by
  unfold Algo3.index_of_first convA
  rw [List.findIdx?_toArray]
  induction ts with
  | nil => rfl
  | cons t ts ih =>
    rw [convL, List.findIdx?_cons, indexOfFirst, beq_convT t k hk, ih]

/-! ### expressions -/

/-- model expression ↦ generated expression (`Drive/Algo3.lean: ofE`) -/
def convE : Expr → GE
  | .const b => .Const b
  | .var s => .Variable (String.ofList s)
  | .not e => .Not (convE e)
  | .and l r => .And (convE l) (convE r)
  | .or l r => .Or (convE l) (convE r)
  | .xor l r => .Xor (convE l) (convE r)
  | .imp l r => .Imp (convE l) (convE r)
  | .iff l r => .Iff (convE l) (convE r)
  | .cond c t e => .Cond (convE c) (convE t) (convE e)

/-- generated expression ↦ model expression (`Drive/Algo3.lean: toE`) -/
def unconvE : GE → Expr
  | .Const b => .const b
  | .Variable s => .var s.toList
  | .Not e => .not (unconvE e)
  | .And l r => .and (unconvE l) (unconvE r)
  | .Or l r => .or (unconvE l) (unconvE r)
  | .Xor l r => .xor (unconvE l) (unconvE r)
  | .Imp l r => .imp (unconvE l) (unconvE r)
  | .Iff l r => .iff (unconvE l) (unconvE r)
  | .Cond c t e => .cond (unconvE c) (unconvE t) (unconvE e)

theorem unconvE_convE (e : Expr) : unconvE (convE e) = e := by
  induction e <;> simp_all [convE, unconvE]

theorem convE_unconvE (e : GE) : convE (unconvE e) = e := by
  induction e <;> simp_all [convE, unconvE]

theorem convE_injective {a b : Expr} (h : convE a = convE b) : a = b := by
  rw [← unconvE_convE a, ← unconvE_convE b, h]

/-! ### outcomes -/

/-- the two messages of `terminal()` that contain a `{:?}` rendering of tokens: the hand model abbreviates them in
    words, the translator keeps the format string. All other messages are identical character for character. -/
def msgConv (m : String) : String :=
  if m = "Expected variable name or (...), but found several tokens." ∨
     m = "Expected variable name or (...), but found an operator." then
    "Expected variable name or (...), but found {:?}."
  else m

/-- model result ↦ result of the translated parsing functions (`Result<Box<BooleanExpression>, String>` inside the
    panic monad) -/
def convO : Outcome Expr → Outcome (Except String GE)
  | .ok e => .ok (.ok (convE e))
  | .err m => .ok (.error (msgConv m))
  | .panic m => .panic m

/-- the same as a plain `Result` (the model never panics: `Lemmas/ParserTotal.lean`) -/
def convR : Outcome Expr → Except String GE
  | .ok e => .ok (convE e)
  | .err m => .error (msgConv m)
  | .panic m => .error m

theorem convO_eq_convR {x : Outcome Expr} (h : x.isPanic = false) : convO x = .ok (convR x) := by
  cases x <;> simp_all [convO, convR, Outcome.isPanic]

/-! ### characters -/

theorem charIsWhitespace_eq (c : Char) : Rust.charIsWhitespace c = isWs c := by
  unfold Rust.charIsWhitespace isWs Rust.whiteSpaceCodes
  generalize c.toNat = n
  rw [Bool.eq_iff_iff]
  simp only [List.contains_eq_mem, List.mem_cons, List.not_mem_nil, or_false, decide_eq_true_eq,
    Bool.or_eq_true, Bool.and_eq_true, beq_iff_eq]
  omega

theorem notInVarName_contains (c : Char) : Algo3.NOT_IN_VAR_NAME.contains c = Gen.notInVarName.contains c := by
  simp [Algo3.NOT_IN_VAR_NAME, Gen.notInVarName]

theorem stops_eq (c : Char) : (Rust.charIsWhitespace c || Algo3.NOT_IN_VAR_NAME.contains c) = stopsName c := by
  rw [charIsWhitespace_eq, notInVarName_contains]; rfl

end B.AlgoEq3Parser
