import BddVerif.Lemmas.CanonicalStruct
import BddVerif.Lemmas.CanonicalPost
/-!
`isCanon_sound`: the executable canonicity test used by every driver (`Drive.isCanon`, frozen in
`Drive/Util.lean`) is sound with respect to the specification `Canonical`.
-/
namespace B
open Std B.Drive

theorem pre_two_eq_mkTrue {A : Arr} {n : Nat} (h0 : A[0]? = some (zeroN n)) (h1 : A[1]? = some (oneN n)) :
    pre A 2 = mkTrue n := by
  have hs : 2 ≤ A.size := by have := lt_of_getElem?_some h1; omega
  apply Array.ext_getElem?
  intro i
  by_cases hi : i < 2
  · rw [pre_get hs hi]
    have : i = 0 ∨ i = 1 := by omega
    rcases this with rfl | rfl
    · rw [h0]; rfl
    · rw [h1]; rfl
  · rw [pre_get_none hs (by omega), Array.getElem?_eq_none (by rw [mkTrue_size]; omega)]

/-- a reduced array whose high-first post-order numbering from the root is the identity is canonical -/
theorem canonical_of_postOrder {A : Arr} (hred : Red A (numVars A))
    (h0 : A[0]? = some (zeroN (numVars A))) (h1 : A[1]? = some (oneN (numVars A)))
    (hs : 3 ≤ A.size) {vis : Array Bool}
    (hpo : postOrder A (numVars A + 2) (root A) (Array.replicate A.size false, 2) = some (vis, A.size)) :
    Canonical A := by
  have hinv : PInv A (Array.replicate A.size false) 2 := by
    refine ⟨by simp, by omega, by omega, ?_⟩
    intro q hq2 hqs
    rw [Array.getD_eq_getD_getElem?, Array.getElem?_replicate, if_pos hqs]
    simp; omega
  have hroot : root A < A.size := by unfold root; omega
  obtain ⟨_, hins⟩ := postOrder_sim hred (numVars A + 2) (root A) _ 2 vis A.size hinv hroot (by omega) hpo
  have := hins 0 (Nat.zero_le _)
  rw [pre_full, pre_two_eq_mkTrue h0 h1, Nat.sub_zero] at this
  unfold Canonical canon
  have hd : den A = fun v => ev A v (root A) := rfl
  rw [hd, this]
  have : root A ≠ 0 := by unfold root; omega
  simp [this]

/-- soundness of the executable canonicity test -/
theorem isCanon_sound {A : Arr} (h : isCanon A = true) : Canonical A := by
  unfold isCanon at h
  rw [Bool.and_eq_true] at h
  obtain ⟨hr, hrest⟩ := h
  rcases isReduced_sound hr with e | ⟨hred, h0, h1⟩
  · rw [e]; exact canonical_mkFalse _
  · have hs2 := hred.size2
    by_cases hs : A.size = 2
    · have : A = mkTrue (numVars A) := by
        apply eq_mkTrue_of_prefix _ hs
        refine ⟨by rw [mkTrue_size]; omega, ?_⟩
        intro i hi
        rw [mkTrue_size] at hi
        have : i = 0 ∨ i = 1 := by omega
        rcases this with rfl | rfl
        · rw [h0]; rfl
        · rw [h1]; rfl
      rw [this]; exact canonical_mkTrue _
    · have hs3 : 3 ≤ A.size := by omega
      have hnle : ¬ A.size ≤ 2 := by omega
      simp only [Bool.or_eq_true, decide_eq_true_eq, hnle, false_or] at hrest
      rcases hpo : postOrder A (numVars A + 2) (root A) (Array.replicate A.size false, 2) with _ | ⟨vis, nx⟩
      · rw [hpo] at hrest; cases hrest
      · rw [hpo] at hrest
        simp only [beq_iff_eq] at hrest
        subst hrest
        exact canonical_of_postOrder hred h0 h1 hs3 hpo

end B
