import BddVerif.Core.ApplyCanon
import BddVerif.Lemmas.AlgoEqApplyLoop
/-!
Equivalence "translated Rust = hand-written model" for `apply_with_flip`, part 2: facts about the recursive model
`applyRec` alone (no loop): which entries of `finished` a sub-computation may touch (`Frame`), that its own entry is
present afterwards, growth of `res`/`finished`, and invariance under replacing the hash maps by extensionally equal
ones (`EqSt`, needed because the Rust code and the model allocate their maps with different capacities).
-/
namespace B.AlgoEqA
open B Std

/-- level of a task: the decision variable -/
def lv (Γ : Ctx) (l r : Nat) : Nat := min (varOf Γ.L Γ.n l) (varOf Γ.R Γ.n r)

/-- operands well formed by level, table total on pairs of terminals -/
structure COk (Γ : Ctx) : Prop where
  wfL : WFo Γ.L Γ.n
  wfR : WFo Γ.R Γ.n
  tot : ∀ x y, Γ.op (some x) (some y) ≠ none

/-- entries of `finished` never change; new keys are in range and have level at least `m` -/
def Frame (Γ : Ctx) (m : Nat) (s s' : St) : Prop :=
  ∀ a b : Nat, s'.finished[(a, b)]? = s.finished[(a, b)]? ∨
    (s.finished[(a, b)]? = none ∧ a < Γ.L.size ∧ b < Γ.R.size ∧ m ≤ lv Γ a b)

theorem Frame.refl (Γ : Ctx) (m : Nat) (s : St) : Frame Γ m s s := fun _ _ => Or.inl rfl

theorem Frame.mono {Γ : Ctx} {m m' : Nat} {s s' : St} (h : Frame Γ m s s') (hm : m' ≤ m) : Frame Γ m' s s' := by
  intro a b
  rcases h a b with h | ⟨h1, h2, h3, h4⟩
  · exact Or.inl h
  · exact Or.inr ⟨h1, h2, h3, by omega⟩

theorem Frame.trans {Γ : Ctx} {m : Nat} {s1 s2 s3 : St} (h12 : Frame Γ m s1 s2) (h23 : Frame Γ m s2 s3) :
    Frame Γ m s1 s3 := by
  intro a b
  rcases h23 a b with h | ⟨h1, h2, h3, h4⟩
  · rcases h12 a b with h' | h'
    · exact Or.inl (h.trans h')
    · exact Or.inr h'
  · rcases h12 a b with h' | h'
    · exact Or.inr ⟨by rw [← h']; exact h1, h2, h3, h4⟩
    · exact Or.inr h'

/-- a key below the frame level is untouched -/
theorem Frame.below {Γ : Ctx} {m : Nat} {s s' : St} (h : Frame Γ m s s') (a b : Nat) (hlt : lv Γ a b < m) :
    s'.finished[(a, b)]? = s.finished[(a, b)]? := by
  rcases h a b with h | ⟨_, _, _, h4⟩
  · exact h
  · omega

theorem Frame.some {Γ : Ctx} {m : Nat} {s s' : St} (h : Frame Γ m s s') (a b p : Nat)
    (hp : s.finished[(a, b)]? = some p) : s'.finished[(a, b)]? = some p := by
  rcases h a b with h | ⟨h1, _⟩
  · rw [h, hp]
  · rw [hp] at h1; cases h1

structure Grow (s s' : St) : Prop where
  res : s.res.size ≤ s'.res.size
  fin : s.finished.size ≤ s'.finished.size
  bal : s'.res.size + s.finished.size ≤ s.res.size + s'.finished.size

theorem Grow.refl (s : St) : Grow s s := ⟨Nat.le_refl _, Nat.le_refl _, Nat.le_refl _⟩
theorem Grow.trans {s1 s2 s3 : St} (h12 : Grow s1 s2) (h23 : Grow s2 s3) : Grow s1 s3 :=
  ⟨Nat.le_trans h12.res h23.res, Nat.le_trans h12.fin h23.fin, by have := h12.bal; have := h23.bal; omega⟩

theorem look_frame {Γ : Ctx} {m : Nat} {s s' : St} (h : Frame Γ m s s') (c : Nat × Nat) (p : Nat)
    (hp : look Γ.op s.finished c = some p) : look Γ.op s'.finished c = some p := by
  unfold look at hp ⊢
  cases hop : Γ.op (asBool c.1) (asBool c.2) with
  | some b => rw [hop] at hp; exact hp
  | none =>
    rw [hop] at hp
    simp only at hp ⊢
    exact h.some c.1 c.2 p hp

/-! ### `finish` -/

theorem finish_finished (s : St) (l r d a b : Nat) (fl : Bool) :
    (finish s l r d a b fl).1.finished = s.finished.insert (l, r) (finish s l r d a b fl).2 := by
  unfold finish findOrPush
  by_cases h1 : a = 1 ∨ b = 1 <;> by_cases h2 : a = b <;> simp only [h1, h2, if_true, if_false]
  all_goals (split <;> rfl)

theorem finish_res (s : St) (l r d a b : Nat) (fl : Bool) :
    s.res.size ≤ (finish s l r d a b fl).1.res.size ∧ (finish s l r d a b fl).1.res.size ≤ s.res.size + 1 := by
  unfold finish findOrPush
  by_cases h1 : a = 1 ∨ b = 1 <;> by_cases h2 : a = b <;> simp only [h1, h2, if_true, if_false]
  all_goals first
    | exact ⟨Nat.le_refl _, Nat.le_succ _⟩
    | (split <;> simp)

theorem finish_grow (s : St) (l r d a b : Nat) (fl : Bool) (hn : s.finished[(l, r)]? = none) :
    Grow s (finish s l r d a b fl).1 ∧ (finish s l r d a b fl).1.finished.size = s.finished.size + 1 := by
  have hf := finish_finished s l r d a b fl
  have hr := finish_res s l r d a b fl
  have hmem : ¬ (l, r) ∈ s.finished := by
    rw [HashMap.mem_iff_isSome_getElem?, hn]; simp
  have hsz : (finish s l r d a b fl).1.finished.size = s.finished.size + 1 := by
    rw [hf, HashMap.size_insert]; simp [hmem]
  exact ⟨⟨hr.1, by omega, by omega⟩, hsz⟩

/-! ### contracts of `solve` and `applyRec` -/

/-- contract of a sub-task `c` of a task at level `m` -/
structure PostS (Γ : Ctx) (m : Nat) (s : St) (c : Nat × Nat) (o : St × Nat) : Prop where
  known : look Γ.op o.1.finished c = some o.2
  frame : Frame Γ (m + 1) s o.1
  grow : Grow s o.1

/-- contract of a task computation -/
structure Post (Γ : Ctx) (s : St) (l r : Nat) (o : St × Nat) : Prop where
  fin : o.1.finished[(l, r)]? = some o.2
  frame : Frame Γ (lv Γ l r) s o.1
  grow : Grow s o.1

/-- a sub-task is either answered by the table or a proper task strictly below the parent level `m`, for which
    the remaining level fuel `f'` suffices -/
def ChildOK (Γ : Ctx) (m f' : Nat) (c : Nat × Nat) : Prop :=
  Γ.op (asBool c.1) (asBool c.2) ≠ none ∨
  (c.1 < Γ.L.size ∧ c.2 < Γ.R.size ∧ Γ.n - lv Γ c.1 c.2 < f' ∧ m < lv Γ c.1 c.2)

theorem lv_le (Γ : Ctx) (ok : COk Γ) (l r : Nat) : lv Γ l r ≤ Γ.n := by
  have := ok.wfL.varOf_le l; unfold lv; omega

theorem asBool_lt2 (p : Nat) (h : p < 2) : ∃ x, asBool p = some x := by
  have : p = 0 ∨ p = 1 := by omega
  rcases this with rfl | rfl
  · exact ⟨false, rfl⟩
  · exact ⟨true, rfl⟩

/-- the four sub-tasks of a task in range are `ChildOK` -/
theorem kids_childOK (Γ : Ctx) (ok : COk Γ) (l r f' : Nat) (hl : l < Γ.L.size) (hr : r < Γ.R.size)
    (hf : Γ.n - lv Γ l r < f' + 1) (b : Bool) :
    ChildOK Γ (lv Γ l r) f' (sel b (kids Γ.L l (lv Γ l r) Γ.fl), sel b (kids Γ.R r (lv Γ l r) Γ.fr)) := by
  have hle := lv_le Γ ok l r
  by_cases hdn : lv Γ l r < Γ.n
  · right
    have hdl : lv Γ l r ≤ varOf Γ.L Γ.n l := by unfold lv; omega
    have hdr : lv Γ l r ≤ varOf Γ.R Γ.n r := by unfold lv; omega
    have KL := evW_kids ok.wfL l hl (lv Γ l r) hdl hdn Γ.fl (fun _ => false) b
    have KR := evW_kids ok.wfR r hr (lv Γ l r) hdr hdn Γ.fr (fun _ => false) b
    refine ⟨KL.2.1, KR.2.1, ?_, ?_⟩
    · have h1 := KL.2.2; have h2 := KR.2.2
      dsimp only
      generalize lv Γ l r = d at *
      unfold lv
      omega
    · have h1 := KL.2.2; have h2 := KR.2.2
      dsimp only
      generalize lv Γ l r = d at *
      unfold lv
      omega
  · left
    have hde : lv Γ l r = Γ.n := by omega
    have hvl := ok.wfL.varOf_le l
    have hvr := ok.wfR.varOf_le r
    have hl2 := ok.wfL.terminal_of_varOf l hl (by unfold lv at hde; omega)
    have hr2 := ok.wfR.terminal_of_varOf r hr (by unfold lv at hde; omega)
    rw [kids_terminal ok.wfL l hl hl2, kids_terminal ok.wfR r hr hr2]
    obtain ⟨x, hx⟩ := asBool_lt2 l hl2
    obtain ⟨y, hy⟩ := asBool_lt2 r hr2
    have : sel b (l, l) = l := by cases b <;> rfl
    have : sel b (r, r) = r := by cases b <;> rfl
    simp only [*]
    exact ok.tot x y

theorem solve_post (Γ : Ctx) (m f' : Nat) (c : Nat × Nat) (s : St)
    (ih : ∀ l r s, l < Γ.L.size → r < Γ.R.size → Γ.n - lv Γ l r < f' → Post Γ s l r (applyRec Γ f' l r s))
    (hc : ChildOK Γ m f' c) : PostS Γ m s c (solve Γ.op (applyRec Γ f') c.1 c.2 s) := by
  unfold solve
  cases hop : Γ.op (asBool c.1) (asBool c.2) with
  | some b =>
    refine ⟨?_, Frame.refl _ _ _, Grow.refl _⟩
    simp only [look, hop]
  | none =>
    rcases hc with hc | ⟨h1, h2, h3, h4⟩
    · exact absurd hop hc
    · have P := ih c.1 c.2 s h1 h2 h3
      refine ⟨?_, P.frame.mono (by omega), P.grow⟩
      simp only [look, hop]
      exact P.fin

theorem solve_known (Γ : Ctx) (m f' : Nat) (c : Nat × Nat) (s : St) (p : Nat)
    (hc : ChildOK Γ m f' c) (hp : look Γ.op s.finished c = some p) :
    solve Γ.op (applyRec Γ f') c.1 c.2 s = (s, p) := by
  unfold solve
  unfold look at hp
  cases hop : Γ.op (asBool c.1) (asBool c.2) with
  | some b => rw [hop] at hp; simp only at hp ⊢; cases hp; rfl
  | none =>
    rw [hop] at hp
    simp only at hp ⊢
    rcases hc with hc | ⟨_, _, h3, _⟩
    · exact absurd hop hc
    · obtain ⟨f'', rfl⟩ : ∃ f'', f' = f'' + 1 := ⟨f' - 1, by omega⟩
      show applyStep Γ (applyRec Γ f'') c.1 c.2 s = (s, p)
      unfold applyStep
      have : s.finished[(c.1, c.2)]? = some p := hp
      simp only [this]

theorem lv_nodeAt (Γ : Ctx) (ok : COk Γ) (l r : Nat) (hl : l < Γ.L.size) (hr : r < Γ.R.size) :
    min (nodeAt Γ.L l).var (nodeAt Γ.R r).var = lv Γ l r := by
  rw [nodeAt_var ok.wfL l hl, nodeAt_var ok.wfR r hr]; rfl

/-- the parent entry is untouched by its two sub-computations -/
theorem parent_none {Γ : Ctx} {s s1 s2 : St} {l r : Nat} (h1 : Frame Γ (lv Γ l r + 1) s s1)
    (h2 : Frame Γ (lv Γ l r + 1) s1 s2) (hn : s.finished[(l, r)]? = none) : s2.finished[(l, r)]? = none := by
  rw [h2.below l r (by omega), h1.below l r (by omega)]; exact hn

/-- `finish` after the two sub-computations meets the task contract -/
theorem finish_post (Γ : Ctx) (s s1 s2 : St) (l r : Nat) (hl : l < Γ.L.size) (hr : r < Γ.R.size)
    (d a b : Nat) (fl : Bool) (hn : s.finished[(l, r)]? = none)
    (F1 : Frame Γ (lv Γ l r + 1) s s1) (F2 : Frame Γ (lv Γ l r + 1) s1 s2) (G1 : Grow s s1) (G2 : Grow s1 s2) :
    Post Γ s l r (finish s2 l r d a b fl) := by
  have hn2 := parent_none F1 F2 hn
  have hf := finish_finished s2 l r d a b fl
  obtain ⟨G3, _⟩ := finish_grow s2 l r d a b fl hn2
  refine ⟨?_, ?_, (G1.trans G2).trans G3⟩
  · rw [hf, HashMap.getElem?_insert]; simp
  · intro x y
    by_cases hxy : (l, r) = (x, y)
    · cases hxy
      exact Or.inr ⟨hn, hl, hr, Nat.le_refl _⟩
    · have hne : ((l, r) == (x, y)) = false := by simp [hxy]
      have : (finish s2 l r d a b fl).1.finished[(x, y)]? = s2.finished[(x, y)]? := by
        rw [hf, HashMap.getElem?_insert, hne]; simp
      rw [this]
      exact ((F1.trans F2).mono (Nat.le_succ _)) x y

theorem applyRec_post (Γ : Ctx) (ok : COk Γ) :
    ∀ f l r s, l < Γ.L.size → r < Γ.R.size → Γ.n - lv Γ l r < f → Post Γ s l r (applyRec Γ f l r s) := by
  intro f
  induction f with
  | zero => intro l r s _ _ h; omega
  | succ f' ih =>
    intro l r s hl hr hf
    show Post Γ s l r (applyStep Γ (applyRec Γ f') l r s)
    unfold applyStep
    cases hfin : s.finished[(l, r)]? with
    | some p => exact ⟨hfin, Frame.refl _ _ _, Grow.refl _⟩
    | none =>
      simp only
      rw [lv_nodeAt Γ ok l r hl hr]
      have CT := kids_childOK Γ ok l r f' hl hr hf true
      have CF := kids_childOK Γ ok l r f' hl hr hf false
      simp only [sel_true, sel_false] at CT CF
      by_cases hfo : Γ.fo = some (lv Γ l r)
      · simp only [hfo, if_true]
        have P1 := solve_post Γ _ f' _ s ih CF
        have P2 := solve_post Γ _ f' _ (solve Γ.op (applyRec Γ f') (kids Γ.L l (lv Γ l r) Γ.fl).1
          (kids Γ.R r (lv Γ l r) Γ.fr).1 s).1 ih CT
        exact finish_post Γ s _ _ l r hl hr _ _ _ _ hfin P1.frame P2.frame P1.grow P2.grow
      · simp only [hfo, if_false]
        have P1 := solve_post Γ _ f' _ s ih CT
        have P2 := solve_post Γ _ f' _ (solve Γ.op (applyRec Γ f') (kids Γ.L l (lv Γ l r) Γ.fl).2
          (kids Γ.R r (lv Γ l r) Γ.fr).2 s).1 ih CF
        exact finish_post Γ s _ _ l r hl hr _ _ _ _ hfin P1.frame P2.frame P1.grow P2.grow


/-! ### extensional equality of states -/

/-- same arrays and flags, hash maps with the same contents (capacities / bucket layout may differ) -/
structure EqSt (s s' : St) : Prop where
  res : s.res = s'.res
  ne : s.nonEmpty = s'.nonEmpty
  ex : ∀ k : Node, s.existing[k]? = s'.existing[k]?
  fin : ∀ k : Nat × Nat, s.finished[k]? = s'.finished[k]?

theorem EqSt.refl (s : St) : EqSt s s := ⟨rfl, rfl, fun _ => rfl, fun _ => rfl⟩

theorem finish_eqSt (s s' : St) (h : EqSt s s') (l r d a b : Nat) (fl : Bool) :
    EqSt (finish s l r d a b fl).1 (finish s' l r d a b fl).1 ∧
      (finish s l r d a b fl).2 = (finish s' l r d a b fl).2 := by
  obtain ⟨res, ex, fin, ne⟩ := s
  obtain ⟨res', ex', fin', ne'⟩ := s'
  obtain ⟨h1, h2, h3, h4⟩ := h
  simp only at h1 h2 h3 h4
  subst h1; subst h2
  unfold finish findOrPush
  generalize (if fl = true then (⟨d, b, a⟩ : Node) else ⟨d, a, b⟩) = node
  by_cases hf : a = 1 ∨ b = 1
  · simp only [hf, if_true]
    by_cases hab : a = b
    · simp only [hab, if_true]
      exact ⟨⟨rfl, rfl, h3, fun k => by simp only [HashMap.getElem?_insert, h4]⟩, trivial⟩
    · simp only [hab, if_false]
      rw [← h3 node]
      cases ex[node]? with
      | some i => exact ⟨⟨rfl, rfl, h3, fun k => by simp only [HashMap.getElem?_insert, h4]⟩, rfl⟩
      | none =>
        exact ⟨⟨rfl, rfl, fun k => by simp only [HashMap.getElem?_insert, h3],
          fun k => by simp only [HashMap.getElem?_insert, h4]⟩, rfl⟩
  · simp only [hf, if_false]
    by_cases hab : a = b
    · simp only [hab, if_true]
      exact ⟨⟨rfl, rfl, h3, fun k => by simp only [HashMap.getElem?_insert, h4]⟩, trivial⟩
    · simp only [hab, if_false]
      rw [← h3 node]
      cases ex[node]? with
      | some i => exact ⟨⟨rfl, rfl, h3, fun k => by simp only [HashMap.getElem?_insert, h4]⟩, rfl⟩
      | none =>
        exact ⟨⟨rfl, rfl, fun k => by simp only [HashMap.getElem?_insert, h3],
          fun k => by simp only [HashMap.getElem?_insert, h4]⟩, rfl⟩

theorem applyRec_eqSt (Γ : Ctx) : ∀ f l r s s', EqSt s s' →
    EqSt (applyRec Γ f l r s).1 (applyRec Γ f l r s').1 ∧ (applyRec Γ f l r s).2 = (applyRec Γ f l r s').2 := by
  intro f
  induction f with
  | zero => intro l r s s' h; exact ⟨h, rfl⟩
  | succ f' ih =>
    have hsolve : ∀ a b s s', EqSt s s' →
        EqSt (solve Γ.op (applyRec Γ f') a b s).1 (solve Γ.op (applyRec Γ f') a b s').1 ∧
        (solve Γ.op (applyRec Γ f') a b s).2 = (solve Γ.op (applyRec Γ f') a b s').2 := by
      intro a b s s' h
      unfold solve
      cases Γ.op (asBool a) (asBool b) with
      | some c => exact ⟨h, rfl⟩
      | none => exact ih a b s s' h
    intro l r s s' h
    show EqSt (applyStep Γ (applyRec Γ f') l r s).1 (applyStep Γ (applyRec Γ f') l r s').1 ∧
      (applyStep Γ (applyRec Γ f') l r s).2 = (applyStep Γ (applyRec Γ f') l r s').2
    unfold applyStep
    rw [← h.fin (l, r)]
    cases s.finished[(l, r)]? with
    | some p => exact ⟨h, rfl⟩
    | none =>
      simp only
      split
      · have E1 := hsolve (kids Γ.L l (min (nodeAt Γ.L l).var (nodeAt Γ.R r).var) Γ.fl).1
          (kids Γ.R r (min (nodeAt Γ.L l).var (nodeAt Γ.R r).var) Γ.fr).1 s s' h
        have E2 := hsolve (kids Γ.L l (min (nodeAt Γ.L l).var (nodeAt Γ.R r).var) Γ.fl).2
          (kids Γ.R r (min (nodeAt Γ.L l).var (nodeAt Γ.R r).var) Γ.fr).2 _ _ E1.1
        rw [E1.2, E2.2]
        exact finish_eqSt _ _ E2.1 _ _ _ _ _ _
      · have E1 := hsolve (kids Γ.L l (min (nodeAt Γ.L l).var (nodeAt Γ.R r).var) Γ.fl).2
          (kids Γ.R r (min (nodeAt Γ.L l).var (nodeAt Γ.R r).var) Γ.fr).2 s s' h
        have E2 := hsolve (kids Γ.L l (min (nodeAt Γ.L l).var (nodeAt Γ.R r).var) Γ.fl).1
          (kids Γ.R r (min (nodeAt Γ.L l).var (nodeAt Γ.R r).var) Γ.fr).1 _ _ E1.1
        rw [E1.2, E2.2]
        exact finish_eqSt _ _ E2.1 _ _ _ _ _ _

end B.AlgoEqA
