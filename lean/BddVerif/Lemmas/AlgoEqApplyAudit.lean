import BddVerif.Lemmas.AlgoEqApply
/-!
Audit of the equivalence "translated Rust `apply_with_flip` = hand-written model `applyWithFlip`":
axioms of every public theorem (allowed: propext, Classical.choice, Quot.sound).
-/
open B

#print axioms B.AlgoEqA.desugar_body
#print axioms B.AlgoEqA.desugar
#print axioms B.AlgoEqA.desugar_ok
#print axioms B.AlgoEqA.applyRec_post
#print axioms B.AlgoEqA.applyRec_eqSt
#print axioms B.AlgoEqA.sim
#print axioms B.AlgoEqA.run_loop
#print axioms B.apply_with_flip_eq_model'
#print axioms B.apply_with_flip_eq_model
#print axioms B.apply_with_flip_eq_canon
#print axioms B.apply_with_flip_eq_model_driver
#print axioms B.Bdd_binary_op_eq_model_driver
#print axioms B.Bdd_fused_binary_flip_op_eq_model_driver
#print axioms B.apply_with_flip_panics_mismatch
#print axioms B.apply_with_flip_panics_flip

/-- the statements, restated: a change of their shape breaks this file -/
example (L R : Arr) (n : Nat) (op : Op2) (c : Bool → Bool → Bool) (fl fr fo : Option Nat)
    (hL : WFo L n) (hR : WFo R n) (hc : Consistent op c)
    (hfl : ∀ x, fl = some x → x < n) (hfr : ∀ x, fr = some x → x < n) (hfo : ∀ x, fo = some x → x < n)
    (hsz : L.size * R.size + 2 ≤ 2 ^ 32) (fuel : Nat) (hfuel : 3 * (L.size * R.size) ≤ fuel) :
    Gen.Algo.apply_with_flip fuel L R fl fr fo op = .ok (applyWithFlip L R op fl fr fo) :=
  apply_with_flip_eq_model L R n op c fl fr fo hL hR hc hfl hfr hfo hsz fuel hfuel

example (L R : Arr) (n : Nat) (op : Op2) (c : Bool → Bool → Bool) (fl fr fo : Option Nat)
    (hL : WFo L n) (hR : WFo R n) (hc : Consistent op c)
    (hfl : ∀ x, fl = some x → x < n) (hfr : ∀ x, fr = some x → x < n) (hfo : ∀ x, fo = some x → x < n)
    (hsz : L.size * R.size + 2 ≤ 2 ^ 32) (fuel : Nat) (hfuel : 3 * (L.size * R.size) ≤ fuel) :
    Gen.Algo.apply_with_flip fuel L R fl fr fo op = .ok (canon n (specFn L R n c fl fr fo)) :=
  apply_with_flip_eq_canon L R n op c fl fr fo hL hR hc hfl hfr hfo hsz fuel hfuel
