import BddVerif.Core.ApplyCanon
import BddVerif.Model.VarSet
/-!
Bridge between the two denotations (`ev` by index on reduced result arrays, `evW` by level on operands) for
arrays produced by `canon`, and the resulting calculus `Sem n A f` ("`A` is the canonical array of `f`")
which is closed under `applyWithFlip` with consistent tables.
-/
namespace B.VS
open B

/-- `f` only looks at the first `n` variables -/
def Dep (n : Nat) (f : (Nat → Bool) → Bool) : Prop :=
  ∀ v w : Nat → Bool, (∀ i, i < n → v i = w i) → f v = f w

/-- a reduced array with exact terminals is well-formed as an operand -/
theorem wfo_of_red {A : Arr} {n : Nat} (h : Red A n) (h0 : A[0]? = some ⟨n, 0, 0⟩) (h1 : A[1]? = some ⟨n, 1, 1⟩) :
    WFo A n := by
  refine ⟨h0, fun _ => h1, ?_⟩
  intro p nd hp hnd
  have hps : p < A.size := by
    rcases Nat.lt_or_ge p A.size with h' | h'
    · exact h'
    · simp [Array.getElem?_eq_none h'] at hnd
  obtain ⟨a, b, c, _, d, e⟩ := h.inner p nd hp hnd
  exact ⟨a, by omega, by omega, d, e⟩

/-- on such an array the two evaluators agree -/
theorem evW_eq_ev {A : Arr} {n : Nat} (h : Red A n) (hw : WFo A n) (v : Nat → Bool) (p : Nat) (hp : p < A.size) :
    evW A n v p = ev A v p := by
  unfold evW ev
  have hv := hw.varOf_le p
  rw [← evalF_fuel h v p (p + n + 1) hp (by omega)]
  exact evalF_level hw v _ _ _ hp (by omega) (by omega)

theorem wfo_mkFalse (n : Nat) : WFo (mkFalse n) n := by
  refine ⟨rfl, ?_, ?_⟩
  · intro h; simp [mkFalse] at h
  · intro p nd hp hnd
    have : (mkFalse n)[p]? = none := Array.getElem?_eq_none (by simp [mkFalse]; omega)
    rw [this] at hnd; cases hnd

theorem mkTrue_get0 (n : Nat) : (mkTrue n)[0]? = some ⟨n, 0, 0⟩ := rfl
theorem mkTrue_get1 (n : Nat) : (mkTrue n)[1]? = some ⟨n, 1, 1⟩ := rfl

/-- an array that extends `mkTrue n` and is reduced is a well-formed operand -/
theorem wfo_of_prefix {A : Arr} {n : Nat} (h : Red A n) (hp : Prefix (mkTrue n) A) : WFo A n :=
  wfo_of_red h (by rw [hp.2 0 (by simp [mkTrue])]; rfl) (by rw [hp.2 1 (by simp [mkTrue])]; rfl)

theorem canon_wfo (n : Nat) (f : (Nat → Bool) → Bool) (hdep : Dep n f) : WFo (canon n f) n := by
  have hdep' : ∀ v w : Nat → Bool, (∀ i, 0 ≤ i → i < n → v i = w i) → f v = f w :=
    fun v w h => hdep v w (fun i hi => h i (Nat.zero_le _) hi)
  rcases canon_spec n f hdep with ⟨e, _⟩ | ⟨hred, heq, _, _⟩
  · rw [e]; exact wfo_mkFalse n
  · obtain ⟨_, hpre, _, _, _⟩ := ins_spec n 0 f (mkTrue n) (red_mkTrue n) (by omega) hdep'
    rw [heq] at hred ⊢
    exact wfo_of_prefix hred hpre

theorem root_mkFalse (n : Nat) : root (mkFalse n) = 0 := rfl

theorem canon_evW (n : Nat) (f : (Nat → Bool) → Bool) (hdep : Dep n f) (v : Nat → Bool) :
    evW (canon n f) n v (root (canon n f)) = f v := by
  rcases canon_spec n f hdep with ⟨e, hf⟩ | ⟨hred, _, _, hev⟩
  · rw [e, root_mkFalse, evW_zero, hf]
  · have hw := canon_wfo n f hdep
    rw [evW_eq_ev hred hw v _ (root_lt hw)]
    exact hev v

/-- `A` is the canonical array of the Boolean function `f` of the first `n` variables -/
structure Sem (n : Nat) (A : Arr) (f : (Nat → Bool) → Bool) : Prop where
  eq : A = canon n f
  dep : Dep n f

theorem Sem.wfo {n A f} (h : Sem n A f) : WFo A n := by rw [h.eq]; exact canon_wfo n f h.dep
theorem Sem.evW {n A f} (h : Sem n A f) (v : Nat → Bool) : B.evW A n v (root A) = f v := by
  rw [h.eq]; exact canon_evW n f h.dep v
theorem Sem.den {n A f} (h : Sem n A f) (v : Nat → Bool) : den A v = f v := by
  rw [h.eq]; exact den_canon n f h.dep v
theorem Sem.numVars {n A f} (h : Sem n A f) : numVars A = n := numVars_of_wf h.wfo
theorem Sem.congr {n A f g} (h : Sem n A f) (hfg : ∀ v, f v = g v) : Sem n A g := by
  have : f = g := funext hfg
  rw [← this]; exact h
/-- the canonical array is unique -/
theorem Sem.unique {n A B f g} (h : Sem n A f) (h' : Sem n B g) (hfg : ∀ v, f v = g v) : A = B := by
  rw [h.eq, h'.eq]; exact canon_congr hfg

theorem dep_inv {n : Nat} {f : (Nat → Bool) → Bool} (h : Dep n f) (fo : Option Nat) :
    Dep n (fun v => f (inv fo v)) :=
  fun v w hvw => h _ _ (fun i hi => inv_agree fo v w i (hvw i hi))

/-- `apply_with_flip` without input flips on two canonical arrays -/
theorem Sem.apply {n A B f g} (hA : Sem n A f) (hB : Sem n B g) (op : Op2) (c : Bool → Bool → Bool)
    (hc : Consistent op c) (fo : Option Nat) (hfo : ∀ x, fo = some x → x < n) :
    Sem n (applyWithFlip A B op none none fo) (fun v => c (f (inv fo v)) (g (inv fo v))) := by
  refine ⟨?_, ?_⟩
  · rw [applyWithFlip_eq_canon A B n op c none none fo hA.wfo hB.wfo hA.numVars hc (by simp) (by simp) hfo]
    apply canon_congr
    intro v
    simp only [inv]
    rw [hA.evW, hB.evW]
  · intro v w hvw
    have e1 := dep_inv hA.dep fo v w hvw
    have e2 := dep_inv hB.dep fo v w hvw
    simp only at e1 e2
    show c (f (inv fo v)) (g (inv fo v)) = c (f (inv fo w)) (g (inv fo w))
    rw [e1, e2]

theorem sem_mkFalse (n : Nat) : Sem n (mkFalse n) (fun _ => false) := by
  refine ⟨?_, fun _ _ _ => rfl⟩
  unfold canon
  rw [ins_false (red_mkTrue n) n 0 _ (by omega) (fun _ => rfl)]
  rfl

end B.VS
