import BddVerif.Lemmas.AlgoEqUtilBase
import BddVerif.Model.Serial
/-!
# `Bdd::eval_in` (src/_impl_bdd_valuation.rs:163): translated code = hand model `B.Serial.evalIn`

The hand model `evalIn A val fuel : Option (Outcome Bool)` says `none` when its fuel runs out; the translated code
then returns `panic "fuel"`. With that reading the two are EQUAL — outcome and panic message — for every fuel, every
valuation and every array of at most `2^32` nodes (`evalIn_eq`): release build, the `debug_assert!` is not compiled.
-/
namespace B.AlgoEqUtil
open B B.Gen B.Serial

attribute [local instance 10000] Rust.monadOutcomeInline

/-- hand-written loop body of `eval_in`; the state is `node` -/
def evalStep (A : Arr) (val : Array Bool) (p : Nat) : Outcome (ForInStep Nat) :=
  if p < 2 then .ok (.done p) else
  match A[p]? with
  | none => .panic "index out of bounds"
  | some nd =>
    match val[nd.var]? with
    | none => .panic "index out of bounds"
    | some b => .ok (.yield (if b then nd.high else nd.low))

def evalPost (p : Nat) : Outcome Bool := if p < 2 then .ok (p == 1) else .panic "fuel"

theorem eval_in_desugar (fuel : Nat) (A : Arr) (val : Array Bool) (h0 : 0 < A.size) (hs : A.size ≤ 4294967296) :
    Algo.Bdd_eval_in fuel A val = (iter (evalStep A val) fuel (root A)).bind evalPost := by
  unfold Algo.Bdd_eval_in
  simp only [forIn_range_eq_iter, root_pointer_eq A h0 hs, bind_ok]
  rw [iter_congr _ (evalStep A val)]
  · cases iter (evalStep A val) fuel (root A) with
    | ok p =>
      simp only [bind_ok, Outcome.bind, evalPost, Algo.BddPointer_is_terminal, is_one_eq]
      by_cases hp : p < 2 <;> simp [hp, BEq.beq]
    | err m => rfl
    | panic m => rfl
  · intro p
    simp only [evalStep, Algo.BddPointer_is_terminal, low_link_eq, high_link_eq, var_of_eq, idx_eq, pure_eq]
    by_cases hp : p < 2
    · simp [hp]
    simp only [hp, decide_false, Bool.not_false, Bool.not_true, Bool.false_eq_true, if_false]
    cases hA : A[p]? with
    | none => rfl
    | some nd =>
      simp only [bind_ok]
      cases hv : val[nd.var]? with
      | none => rfl
      | some b => cases b <;> simp

/-- the hand model's result as an `Outcome` (`none` = fuel exhausted) -/
def ofOO : Option (Outcome Bool) → Outcome Bool
  | none => .panic "fuel"
  | some o => o

theorem eval_sem (A : Arr) (val : Array Bool) : ∀ (fuel p : Nat),
    (iter (evalStep A val) fuel p).bind evalPost = ofOO (evalLoop A val fuel p) := by
  intro fuel
  induction fuel with
  | zero =>
    intro p
    rw [iter_zero]
    match p with
    | 0 => rfl
    | 1 => rfl
    | p + 2 =>
      unfold evalLoop
      simp [Outcome.bind, evalPost, ofOO]
  | succ n ih =>
    intro p
    rw [iter_succ]
    match p with
    | 0 => unfold evalLoop; rfl
    | 1 => unfold evalLoop; rfl
    | p + 2 =>
      unfold evalLoop
      simp only [evalStep, aidx, show ¬ p + 2 < 2 by omega, if_false]
      cases hA : A[p + 2]? with
      | none => rfl
      | some nd =>
        simp only
        cases hv : val[nd.var]? with
        | none => rfl
        | some b => exact ih _

/-- **eval_in, translated code = hand model**, every fuel, every valuation, every array of at most `2^32` nodes -/
theorem Bdd_eval_in_eq_model (fuel : Nat) (A : Arr) (val : Array Bool) (hs : A.size ≤ 4294967296) :
    Algo.Bdd_eval_in fuel A val = ofOO (evalIn A val fuel) := by
  rcases Nat.eq_zero_or_pos A.size with h0 | h0
  · unfold Algo.Bdd_eval_in evalIn
    rw [root_pointer_empty A h0, if_pos h0]; rfl
  · rw [eval_in_desugar fuel A val h0 hs, eval_sem]
    unfold evalIn root
    rw [if_neg (by omega)]

theorem evalLoop_mono (A : Arr) (val : Array Bool) : ∀ (f f' p : Nat) (o : Outcome Bool), f ≤ f' →
    evalLoop A val f p = some o → evalLoop A val f' p = some o := by
  intro f
  induction f with
  | zero =>
    intro f' p o _ h
    match p with
    | 0 => unfold evalLoop at h ⊢; exact h
    | 1 => unfold evalLoop at h ⊢; exact h
    | p + 2 => unfold evalLoop at h; cases h
  | succ f ih =>
    intro f' p o hle h
    obtain ⟨f'', rfl⟩ : ∃ k, f' = k + 1 := ⟨f' - 1, by omega⟩
    match p with
    | 0 => unfold evalLoop at h ⊢; exact h
    | 1 => unfold evalLoop at h ⊢; exact h
    | p + 2 =>
      unfold evalLoop at h ⊢
      cases hA : aidx A (p + 2) with
      | err m => rw [hA] at h; exact h
      | panic m => rw [hA] at h; exact h
      | ok nd =>
        rw [hA] at h
        simp only at h ⊢
        cases hv : aidx val nd.var with
        | err m => rw [hv] at h; exact h
        | panic m => rw [hv] at h; exact h
        | ok b =>
          rw [hv] at h
          exact ih _ _ _ (by omega) h

/-- whenever the hand model terminates with fuel `f`, the translated code returns the same outcome for every
    fuel `≥ f` -/
theorem Bdd_eval_in_of_model (A : Arr) (val : Array Bool) (hs : A.size ≤ 4294967296) (f : Nat) (o : Outcome Bool)
    (h : evalIn A val f = some o) (fuel : Nat) (hfuel : f ≤ fuel) : Algo.Bdd_eval_in fuel A val = o := by
  rw [Bdd_eval_in_eq_model fuel A val hs]
  have : evalIn A val fuel = some o := by
    unfold evalIn at h ⊢
    by_cases h0 : A.size = 0
    · rw [if_pos h0] at h ⊢; exact h
    · rw [if_neg h0] at h ⊢; exact evalLoop_mono A val _ _ _ _ hfuel h
  rw [this]; rfl

end B.AlgoEqUtil
