import BddVerif.Lemmas.AlgoEqNestedOuter
import BddVerif.Drive.Algo
import BddVerif.Props.C03
/-!
Driver corollaries and non-vacuity examples for the equivalences "generated Rust translation = hand model" of
`fix_bdd_alignment`, `inner_apply`, `nested_apply`.

The driver (`Drive/Algo.lean`) runs `nested_apply` (and through it `inner_apply` and `fix_bdd_alignment`) with the single
fuel `fuelN L R = 8 * ((|L|·|R| + 2)² + numVars L + 8)`. `nestedFuel` (the bound of `nested_apply_eq_model`) is computed
from the model's own run; it is NOT bounded by a polynomial in the operand sizes in general (the intermediate result
array of a quantification can be exponentially larger than the operands), so the unconditional driver statement is kept
as `nested_apply_eq_model_driver_statement` and the corollary carries the (decidable, per-case checkable) hypothesis
`nestedFuel … ≤ fuelN L R`.
-/
namespace B.AlgoEq
open B B.Gen Std

/-- driver corollary: with the fuel the driver passes, provided it covers the model-computed bound -/
theorem nested_apply_eq_model_driver (L R : Arr) (n : Nat) (trig : Nat → Bool) (outer inner : Op2)
    (c d : Bool → Bool → Bool)
    (hL : WFo L n) (hR : WFo R n) (hc : Consistent outer c) (hd : Consistent inner d) (hid : ∀ a, d a a = a)
    (hL32 : L.size ≤ 4294967296) (hR32 : R.size ≤ 4294967296)
    (h32 : (nestedRun L R trig outer inner).1.res.size ≤ 4294967296)
    (hdrv : nestedFuel L R trig outer inner ≤ Drive.Algo.fuelN L R) :
    Algo.nested_apply (Drive.Algo.fuelN L R) L R trig outer inner = .ok (nestedApply L R trig outer inner) :=
  nested_apply_eq_model L R n trig outer inner c d hL hR hc hd hid hL32 hR32 h32 _ hdrv

/-- the same for the public entry point `Bdd::binary_op_nested`, as called by the driver -/
theorem binary_op_nested_eq_model_driver (L R : Arr) (n : Nat) (trig : Nat → Bool) (outer inner : Op2)
    (c d : Bool → Bool → Bool)
    (hL : WFo L n) (hR : WFo R n) (hc : Consistent outer c) (hd : Consistent inner d) (hid : ∀ a, d a a = a)
    (hL32 : L.size ≤ 4294967296) (hR32 : R.size ≤ 4294967296)
    (h32 : (nestedRun L R trig outer inner).1.res.size ≤ 4294967296)
    (hdrv : nestedFuel L R trig outer inner ≤ Drive.Algo.fuelN L R) :
    Algo.Bdd_binary_op_nested (Drive.Algo.fuelN L R) L R trig outer inner = .ok (nestedApply L R trig outer inner) :=
  binary_op_nested_eq_model L R n trig outer inner c d hL hR hc hd hid hL32 hR32 h32 _ hdrv

/-- NOT PROVED (and not expected to hold for all operands): the driver's fuel always suffices -/
def nested_apply_eq_model_driver_statement : Prop :=
  ∀ (L R : Arr) (n : Nat) (trig : Nat → Bool) (outer inner : Op2) (c d : Bool → Bool → Bool),
    WFo L n → WFo R n → Consistent outer c → Consistent inner d → (∀ a, d a a = a) →
    L.size ≤ 4294967296 → R.size ≤ 4294967296 → (nestedRun L R trig outer inner).1.res.size ≤ 4294967296 →
    Algo.nested_apply (Drive.Algo.fuelN L R) L R trig outer inner = .ok (nestedApply L R trig outer inner)

/-! ### non-vacuity -/

/-- the model's run on `∃ x1. (x0 ∧ x2) ∧ x1` (lazy outer table, regenerated `or`): 4 nodes, 3 outer and 1 inner cache
    entries (`Std.HashMap` does not reduce in the kernel; `simp` evaluates the run with the map lemmas) -/
theorem ex_run : (nestedRun exX0X2 exX1 (fun x => x == 1) andLazy or_).1.res.size = 4 ∧
    (nestedRun exX0X2 exX1 (fun x => x == 1) andLazy or_).1.outer.size = 3 ∧
    (nestedRun exX0X2 exX1 (fun x => x == 1) andLazy or_).1.inner.size = 1 := by
  simp [nestedRun, nestedRec, nestedStep, nestedFinish, nSolve, innerApply, innerRec, innerStep, innerFinish,
    nFindOrPush, nestedInit, exX0X2, exX1, numVars, root, nodeAt, kids, asBool, ofBool, andLazy, or_, mkTrue, zeroN, oneN,
    HashMap.size_insert]

theorem ex_fuel : nestedFuel exX0X2 exX1 (fun x => x == 1) andLazy or_ = 13 := by
  simp [nestedFuel, ex_run]

/-- all hypotheses of `nested_apply_eq_model_driver` hold on non-trivial operands (level-skipping left operand, lazy
    outer table, trigger on variable 1, one `inner_apply` call); the GENERATED function, with the driver's fuel, returns
    the canonical array of `x0 ∧ x2` -/
example : Algo.nested_apply (Drive.Algo.fuelN exX0X2 exX1) exX0X2 exX1 (fun x => x == 1) andLazy or_ =
    .ok #[⟨3, 0, 0⟩, ⟨3, 1, 1⟩, ⟨2, 0, 1⟩, ⟨0, 0, 2⟩] :=
  (nested_apply_eq_model_driver exX0X2 exX1 3 _ andLazy or_ (fun a b => a && b) (fun a b => a || b)
    exX0X2_wf exX1_wf andLazy_consistent or_consistent Bool.or_self (by decide) (by decide)
    (by rw [ex_run.1]; decide) (by rw [ex_fuel]; decide)).trans
  (congrArg Outcome.ok ((Props.C03.nested_canon exX0X2 exX1 3 _ andLazy or_ (fun a b => a && b) (fun a b => a || b)
    exX0X2_wf exX1_wf andLazy_consistent or_consistent Bool.or_self).trans (by decide)))

/-- with the minimal fuel allowed by the theorem (13), chained to the canonical form -/
example : Algo.nested_apply 13 exX0X2 exX1 (fun x => x == 1) andLazy or_ =
    .ok (canon 3 (Qn (fun x => x == 1) (fun a b => a || b) 3
      (fun v => evW exX0X2 3 v (root exX0X2) && evW exX1 3 v (root exX1)))) :=
  nested_apply_eq_canon exX0X2 exX1 3 _ andLazy or_ (fun a b => a && b) (fun a b => a || b)
    exX0X2_wf exX1_wf andLazy_consistent or_consistent Bool.or_self (by decide) (by decide)
    (by rw [ex_run.1]; decide) 13 (by rw [ex_fuel]; decide)

/-- the panic case: operands over different variable counts -/
example : Algo.nested_apply 5 exX0X2 (mkTrue 2) (fun _ => false) and_ or_ =
    .panic "Var count mismatch: BDDs are not compatible. {} != {}" :=
  (nested_apply_panic exX0X2 (mkTrue 2) _ and_ or_ 5 (by decide) (by decide) (by decide)).1

/-- `fix_bdd_alignment` on the misaligned array of C03 (an unreachable node before the real root): the GENERATED function
    returns the canonical 5-node array of v1 ∧ ¬v2 ∧ v3, with fuel `3 * 6` -/
example : Algo.fix_bdd_alignment 18 Props.C03.exMisaligned 5 =
    .ok #[⟨3, 0, 0⟩, ⟨3, 1, 1⟩, ⟨2, 0, 1⟩, ⟨1, 2, 0⟩, ⟨0, 0, 3⟩] :=
  (fix_bdd_alignment_eq_canon Props.C03.exMisaligned 3 5 (Props.C03.redB_sound (by decide)) rfl (by decide) (by decide) 18
    (by decide)).trans (congrArg Outcome.ok (by decide))

/-- panic cases of `fix_bdd_alignment` -/
example : ∃ m, Algo.fix_bdd_alignment 18 Props.C03.exMisaligned 6 = .panic m :=
  fix_bdd_alignment_panic_root _ 6 18 (by decide) (by decide) (by decide)
example : ∃ m, Algo.fix_bdd_alignment 18 #[] 0 = .panic m := fix_bdd_alignment_panic_empty _ 0 18 rfl

/-- `inner_apply` from the initial state of a `nested_apply` run on the two terminals: `or(false, true)` -/
example : ∃ nc' tc', Algo.inner_apply 4 (mkTrue 3) 0 1 (nestedInit 3).nodes (nestedInit 3).inner or_ =
    .ok (1, mkTrue 3, nc', tc') := by
  have ok : NOk ⟨exX0X2, exX1, fun x => x == 1, andLazy, or_⟩ 3 (fun a b => a && b) (fun a b => a || b) :=
    ⟨exX0X2_wf, exX1_wf, andLazy_consistent, or_consistent, Bool.or_self⟩
  have hrun : (innerApply or_ 0 1 (nestedInit 3)).2 = 1 ∧ (innerApply or_ 0 1 (nestedInit 3)).1.res = mkTrue 3 ∧
      (innerApply or_ 0 1 (nestedInit 3)).1.inner.size = 1 := by
    simp [innerApply, innerRec, innerStep, innerFinish, nSolve, nestedInit, numVars, nodeAt, kids, asBool, ofBool, or_,
      mkTrue, zeroN, oneN, HashMap.size_insert]
  obtain ⟨nc', tc', e, _, _⟩ := inner_apply_eq_model ok (nestedInit 3) (ninv_init _ 3 _ _) 0 1 (by decide) (by decide)
    (nestedInit 3).nodes (nestedInit 3).inner (HashMap.Equiv.refl _) (HashMap.Equiv.refl _)
    (by rw [hrun.2.1]; decide) 4 (by rw [hrun.2.2]; simp [nestedInit])
  rw [hrun.1, hrun.2.1] at e
  exact ⟨nc', tc', e⟩

end B.AlgoEq
