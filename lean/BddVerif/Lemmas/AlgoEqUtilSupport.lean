import BddVerif.Lemmas.AlgoEqUtilBase
import BddVerif.Lemmas.CountSupport
/-!
# `Bdd::support_set` (src/_impl_bdd/_impl_util.rs:543): translated code = hand model `B.supportSet`

The Rust function returns a `HashSet<BddVariable>`; the translated code a `Std.HashSet Nat`; the hand model the
strictly increasing list of its elements. Equality is stated as: the translated code never fails (for EVERY array),
the returned set has exactly the members of `supportSet A`, and sorting its elements (what the harness and the
driver do before printing) yields `supportSet A` literally.
-/
namespace B.AlgoEqUtil
open B B.Gen B.Count Std

attribute [local instance 10000] Rust.monadOutcomeInline

/-- the set built by the loop -/
def supportFold (A : Arr) : HashSet Nat :=
  (decisionVars A).foldl (fun r x => r.insert x) (HashSet.emptyWithCapacity 8)

theorem extract_toList (A : Arr) : (Rust.skip (Algo.Bdd_nodes A) 2).toList = A.toList.drop 2 := by
  unfold Rust.skip Algo.Bdd_nodes
  rw [Array.toList_extract, List.extract_eq_take_drop]
  apply List.take_of_length_le
  simp

/-- desugaring + evaluation: the loop is a fold (no early exit, no failure) -/
theorem support_set_desugar (A : Arr) : Algo.Bdd_support_set A = .ok (supportFold A) := by
  unfold Algo.Bdd_support_set
  simp only [forIn_array_eq_iterL, extract_toList, pure_eq]
  rw [iterL_pure (fun (r : HashSet Nat) (nd : Node) => r.insert nd.var)]
  simp only [bind_ok]
  congr 1
  unfold supportFold decisionVars Rust.hashSetWithCapacity
  rw [List.foldl_map]

theorem mem_foldl_insert (x : Nat) : ∀ (xs : List Nat) (s : HashSet Nat),
    x ∈ xs.foldl (fun r y => r.insert y) s ↔ x ∈ s ∨ x ∈ xs := by
  intro xs
  induction xs with
  | nil => intro s; simp
  | cons y ys ih =>
    intro s
    rw [List.foldl_cons, ih, HashSet.mem_insert, List.mem_cons]
    simp only [beq_iff_eq]
    constructor
    · rintro ((h | h) | h)
      · exact Or.inr (Or.inl h.symm)
      · exact Or.inl h
      · exact Or.inr (Or.inr h)
    · rintro (h | h | h)
      · exact Or.inl (Or.inr h)
      · exact Or.inl (Or.inl h.symm)
      · exact Or.inr h

theorem mem_supportFold (A : Arr) (x : Nat) : x ∈ supportFold A ↔ x ∈ supportSet A := by
  unfold supportFold supportSet
  rw [mem_foldl_insert, mem_foldl_ins]
  simp [HashSet.not_mem_emptyWithCapacity]

/-- two strictly increasing lists with the same members are equal -/
theorem sorted_ext : ∀ (l1 l2 : List Nat), l1.Pairwise (· < ·) → l2.Pairwise (· < ·) →
    (∀ x, x ∈ l1 ↔ x ∈ l2) → l1 = l2 := by
  intro l1
  induction l1 with
  | nil =>
    intro l2 _ _ h
    cases l2 with
    | nil => rfl
    | cons b l2 => exact absurd ((h b).2 List.mem_cons_self) (by simp)
  | cons a l1 ih =>
    intro l2 h1 h2 h
    cases l2 with
    | nil => exact absurd ((h a).1 List.mem_cons_self) (by simp)
    | cons b l2 =>
      rw [List.pairwise_cons] at h1 h2
      have hab : a = b := by
        have ha := (h a).1 List.mem_cons_self
        have hb := (h b).2 List.mem_cons_self
        rw [List.mem_cons] at ha hb
        rcases ha with ha | ha
        · exact ha
        · rcases hb with hb | hb
          · exact hb.symm
          · have := h1.1 b hb; have := h2.1 a ha; omega
      subst hab
      congr 1
      apply ih l2 h1.2 h2.2
      intro x
      constructor
      · intro hx
        have := (h x).1 (List.mem_cons_of_mem _ hx)
        rw [List.mem_cons] at this
        rcases this with e | e
        · have := h1.1 x hx; omega
        · exact e
      · intro hx
        have := (h x).2 (List.mem_cons_of_mem _ hx)
        rw [List.mem_cons] at this
        rcases this with e | e
        · have := h2.1 x hx; omega
        · exact e

/-- sorting the elements of a hash set of naturals gives the strictly increasing list of its members -/
theorem sort_toList_sorted (s : HashSet Nat) :
    (s.toList.mergeSort (fun x y => decide (x ≤ y))).Pairwise (· < ·) := by
  have hp := List.mergeSort_perm s.toList (fun x y => decide (x ≤ y))
  have hle : (s.toList.mergeSort (fun x y => decide (x ≤ y))).Pairwise (fun a b => decide (a ≤ b) = true) :=
    List.pairwise_mergeSort (fun a b c h1 h2 => by simp only [decide_eq_true_eq] at *; omega)
      (fun a b => by simp only [Bool.or_eq_true, decide_eq_true_eq]; omega) _
  have hne : (s.toList.mergeSort (fun x y => decide (x ≤ y))).Pairwise (fun a b => (a == b) = false) :=
    (List.Perm.pairwise_iff (fun {x y} (h : (x == y) = false) => by
      simp only [beq_eq_false_iff_ne, ne_eq] at *; exact fun e => h e.symm) hp).2 HashSet.distinct_toList
  have := hle.and hne
  exact this.imp (fun {a b} ⟨h1, h2⟩ => by
    simp only [decide_eq_true_eq, beq_eq_false_iff_ne, ne_eq] at h1 h2; omega)

/-- **support_set, translated code = hand model**, for every array: the call returns a set `s` with exactly the
    members of `supportSet A`, and the sorted list of its elements (the driver's/harness' rendering) IS `supportSet A` -/
theorem Bdd_support_set_eq_model (A : Arr) :
    ∃ s : HashSet Nat, Algo.Bdd_support_set A = .ok s ∧ (∀ x, x ∈ s ↔ x ∈ supportSet A) ∧
      s.toList.mergeSort (fun x y => decide (x ≤ y)) = supportSet A := by
  refine ⟨supportFold A, support_set_desugar A, mem_supportFold A, ?_⟩
  apply sorted_ext _ _ (sort_toList_sorted _) (supportSet_sorted A)
  intro x
  rw [(List.mergeSort_perm _ _).mem_iff, HashSet.mem_toList, mem_supportFold]

end B.AlgoEqUtil
