import BddVerif.Lemmas.AlgoEq3DotRun
import BddVerif.Lemmas.AlgoEq3DotText
import BddVerif.Lemmas.DotGraph
/-!
# The fragments written by the translated `write_bdd_as_dot` spell the text of the hand model `Model/Dot.lean`

* `dotStrs_text` — concatenating the fragments `dotStrs A names zp` gives `Dot.render (Dot.stmtsOf A names.toList zp)`;
* `dotPieces_bytes` / `dotBytePieces_flatten` — the same on bytes (the shim's `Nat`s and the model's `UInt8`s);
* `dotStmts_ok_iff`, `dotStmts_panic_iff` — the model's three panic conditions in terms of `Good`.
-/
namespace B.AlgoEq3Dot
open B B.Gen B.AlgoEq2Bytes

/-- one line of the model's text -/
def line (s : Dot.Stmt) : List Char := Dot.renderStmt s ++ ['\n']

theorem render_eq (ss : List Dot.Stmt) : Dot.render ss = String.ofList (ss.flatMap line) := rfl

theorem lit_header : "digraph G {\n".toList = line .header := by decide
theorem lit_initNode : "init__ [label=\"\", style=invis, height=0, width=0];\n".toList = line .initNode := by decide
theorem lit_initEdge : "init__ -> ".toList = Dot.tInitEdge := by decide
theorem lit_semi : ";\n".toList = [';', '\n'] := by decide
theorem lit_zero : "0 [shape=box, label=\"0\", style=filled, shape=box, height=0.3, width=0.3];\n".toList =
    line (.terminal false) := by
  simp only [line, Dot.renderStmt, Dot.boolNat, Bool.false_eq_true, if_false, Dot.digits_zero]; decide
theorem lit_one : "1 [shape=box, label=\"1\", style=filled, shape=box, height=0.3, width=0.3];\n".toList =
    line (.terminal true) := by
  simp only [line, Dot.renderStmt, Dot.boolNat, if_true, Dot.digits_one]; decide
theorem lit_labelA : "[label=\"".toList = Dot.tLabelA := by decide
theorem lit_labelB : "\"];\n".toList = Dot.tLabelB ++ ['\n'] := by decide
theorem lit_arrow : " -> ".toList = Dot.tArrow := by decide
theorem lit_filled : " [style=filled];\n".toList = Dot.tFilled ++ ['\n'] := by decide
theorem lit_dotted : " [style=dotted];\n".toList = Dot.tDotted ++ ['\n'] := by decide
theorem lit_footer : "}\n".toList = line .footer := by decide

theorem toList_toString (n : Nat) : (toString n).toList = Dot.digits n := by
  rw [toString_nat, String.toList_ofList]

theorem preStrs_text (A : Arr) (zp : Bool) :
    (preStrs A zp).flatMap String.toList = (Dot.preamble A zp).flatMap line := by
  cases zp <;>
  simp only [preStrs, Dot.preamble, List.flatMap_cons, List.flatMap_nil, List.cons_append, List.nil_append,
    lit_header, lit_initNode, lit_initEdge, lit_semi, lit_zero, lit_one, toList_toString, Bool.false_eq_true, if_false,
    if_true, List.append_nil, line, Dot.renderStmt, List.append_assoc]

theorem edge_text (p q : Nat) (st : Dot.Style) (lit : String) (hl : lit.toList = Dot.styleText st ++ ['\n']) :
    [toString p, " -> ", toString q, lit].flatMap String.toList = line (.edge p q st) := by
  simp only [List.flatMap_cons, List.flatMap_nil, toList_toString, lit_arrow, hl, line, Dot.renderStmt,
    List.append_assoc, List.append_nil]

theorem getD_toList (names : Array String) (i : Nat) : names.toList[i]?.getD "" = names.getD i "" := by
  simp [Array.getD]
  split <;> simp_all

theorem ptrStrs_text (A : Arr) (names : Array String) (zp : Bool) (p : Nat) :
    (ptrStrs A names zp p).flatMap String.toList = (Dot.nodeStmts A names.toList zp p).flatMap line := by
  unfold ptrStrs nodeStrs Dot.nodeStmts
  simp only [List.flatMap_append, getD_toList]
  congr 1
  · congr 1
    · simp only [List.flatMap_cons, List.flatMap_nil, toList_toString, lit_labelA, lit_labelB, line, Dot.renderStmt,
        List.append_assoc, List.append_nil]
    · split
      · rw [edge_text p _ .filled _ lit_filled]; simp
      · rfl
  · split
    · rw [edge_text p _ .dotted _ lit_dotted]; simp
    · rfl

/-- **the fragments spell the model's text** -/
theorem dotStrs_text (A : Arr) (names : Array String) (zp : Bool) :
    String.ofList ((dotStrs A names zp).flatMap String.toList) = Dot.render (Dot.stmtsOf A names.toList zp) := by
  rw [render_eq]
  congr 1
  unfold dotStrs Dot.stmtsOf
  simp only [List.flatMap_append, preStrs_text, List.flatMap_cons, List.flatMap_nil, lit_footer, List.append_nil]
  congr 2
  simp only [List.flatMap_assoc]
  congr 1
  funext p
  exact ptrStrs_text A names zp p

/-- the bytes of all pieces, in order = the UTF-8 bytes of the model's text -/
theorem dotPieces_bytes (A : Arr) (names : Array String) (zp : Bool) :
    ((dotPieces A names zp).map Array.toList).flatten =
      (Rust.utf8Bytes (Dot.render (Dot.stmtsOf A names.toList zp))).toList := by
  unfold dotPieces
  rw [utf8Bytes_flatten, dotStrs_text]

/-- the pieces as the model's byte lists (the argument of `Dot.writeDotPieces`) -/
def dotBytePieces (A : Arr) (names : Array String) (zp : Bool) : List (List UInt8) :=
  (dotPieces A names zp).map fun p => p.toList.map byteOf

/-- they are a division of `Dot.textBytes` of the model's text -/
theorem dotBytePieces_flatten (A : Arr) (names : Array String) (zp : Bool) :
    (dotBytePieces A names zp).flatten = Dot.textBytes (Dot.render (Dot.stmtsOf A names.toList zp)) := by
  rw [textBytes_eq, ← dotPieces_bytes]
  unfold dotBytePieces
  simp only [List.map_flatten, List.map_map]
  rfl

theorem dotPieces_lt (A : Arr) (names : Array String) (zp : Bool) :
    ∀ b ∈ ((dotPieces A names zp).map Array.toList).flatten, b < 256 := by
  rw [dotPieces_bytes]
  exact utf8Bytes_lt _

/-! ### the model's panic conditions -/

theorem good_iff (A : Arr) (names : Array String) (p : Nat) (hp : p ∈ Dot.innerPtrs A) :
    Good A names p ↔ ¬ names.toList.length ≤ (nodeAt A p).var := by
  have := (Dot.mem_innerPtrs.1 hp).2
  unfold Good
  simp only [Array.length_toList]
  omega

/-- the model exports without panic iff the node vector is non-empty, there are as many names as variables and
    every decision node's variable has a name -/
theorem dotStmts_ok_iff (A : Arr) (names : Array String) (zp : Bool) :
    Dot.dotStmts A names.toList zp = .ok (Dot.stmtsOf A names.toList zp) ↔
      (0 < A.size ∧ names.size = numVars A ∧ ∀ p ∈ Dot.innerPtrs A, Good A names p) := by
  unfold Dot.dotStmts
  by_cases h0 : A.size = 0
  · rw [if_pos h0]
    constructor
    · intro h; cases h
    · intro h; omega
  rw [if_neg h0]
  by_cases hn : names.toList.length ≠ numVars A
  · rw [if_pos hn]
    constructor
    · intro h; cases h
    · intro h; exact absurd (by simpa using h.2.1) hn
  rw [if_neg hn]
  by_cases ha : ((Dot.innerPtrs A).any fun p => decide (names.toList.length ≤ (nodeAt A p).var)) = true
  · rw [if_pos ha]
    constructor
    · intro h; cases h
    · intro h
      rw [List.any_eq_true] at ha
      obtain ⟨p, hp, hd⟩ := ha
      exact absurd (of_decide_eq_true hd) ((good_iff A names p hp).1 (h.2.2 p hp))
  · rw [if_neg ha]
    refine ⟨fun _ => ⟨by omega, by simpa using hn, ?_⟩, fun _ => rfl⟩
    intro p hp
    rw [good_iff A names p hp]
    intro hle
    apply ha
    rw [List.any_eq_true]
    exact ⟨p, hp, decide_eq_true hle⟩

/-- the model's outcome is `ok (stmtsOf …)` or a panic -/
theorem dotStmts_cases (A : Arr) (names : List String) (zp : Bool) :
    Dot.dotStmts A names zp = .ok (Dot.stmtsOf A names zp) ∨ ∃ m, Dot.dotStmts A names zp = .panic m := by
  unfold Dot.dotStmts
  split
  · exact .inr ⟨_, rfl⟩
  · split
    · exact .inr ⟨_, rfl⟩
    · split
      · exact .inr ⟨_, rfl⟩
      · exact .inl rfl

theorem toDotString_ok {A : Arr} {names : List String} {zp : Bool} {text : String}
    (h : Dot.toDotString A names zp = .ok text) :
    Dot.dotStmts A names zp = .ok (Dot.stmtsOf A names zp) ∧ text = Dot.render (Dot.stmtsOf A names zp) := by
  unfold Dot.toDotString at h
  rcases dotStmts_cases A names zp with e | ⟨m, e⟩
  · rw [e] at h
    injection h with h
    exact ⟨e, h.symm⟩
  · rw [e] at h; cases h

theorem toDotString_cases (A : Arr) (names : List String) (zp : Bool) :
    Dot.toDotString A names zp = .ok (Dot.render (Dot.stmtsOf A names zp)) ∨
      ∃ m, Dot.toDotString A names zp = .panic m := by
  unfold Dot.toDotString
  rcases dotStmts_cases A names zp with e | ⟨m, e⟩
  · rw [e]; exact .inl rfl
  · rw [e]; exact .inr ⟨m, rfl⟩

end B.AlgoEq3Dot
