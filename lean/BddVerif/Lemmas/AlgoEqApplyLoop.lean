import BddVerif.Gen.Algo
import BddVerif.Model.Apply
/-!
Equivalence "translated Rust = hand-written model" for `apply_with_flip`
(src/_impl_bdd/_impl_boolean_ops.rs:234), part 0: generic loop machinery.

`loopN step fuel s` iterates an explicit step function with early exit; a `for _ in [0:fuel]` loop of the
generated code whose body ignores the counter is `loopN` of its body (`forIn_range_loopN`).
`runs step k a b`: exactly `k` iterations, none of which leaves the loop, lead from `a` to `b`.
-/
namespace B.AlgoEqA
open B B.Gen Std
attribute [local instance 10000] Rust.monadOutcomeInline

/-- `fuel` iterations of a loop body with early exit -/
def loopN {σ : Type} (step : σ → Outcome (ForInStep σ)) : Nat → σ → Outcome σ
  | 0, s => .ok s
  | k + 1, s =>
    match step s with
    | .ok (.done s') => .ok s'
    | .ok (.yield s') => loopN step k s'
    | .err m => .err m
    | .panic m => .panic m

theorem forIn_list_loopN {σ : Type} (g : σ → Outcome (ForInStep σ)) (f : Nat → σ → Outcome (ForInStep σ))
    (h : ∀ i s, f i s = g s) : ∀ (l : List Nat) (init : σ), forIn l init f = loopN g l.length init := by
  intro l
  induction l with
  | nil => intro init; rfl
  | cons a t ih =>
    intro init
    rw [List.forIn_cons, h]
    show Rust.bindFast _ _ = _
    simp only [List.length_cons, loopN]
    cases hg : g init with
    | ok r =>
      cases r with
      | done s' => rfl
      | yield s' => exact ih s'
    | err m => rfl
    | panic m => rfl

/-- a `for _ in [0:fuel]` loop whose body ignores the counter is `loopN` of the body -/
theorem forIn_range_loopN {σ : Type} (g : σ → Outcome (ForInStep σ)) (f : Nat → σ → Outcome (ForInStep σ))
    (h : ∀ i s, f i s = g s) (fuel : Nat) (init : σ) : forIn [:fuel] init f = loopN g fuel init := by
  rw [Legacy.Range.forIn_eq_forIn_range', forIn_list_loopN g f h]
  simp [Legacy.Range.size]

/-- exactly `k` iterations, none of which leaves the loop, lead from `a` to `b` -/
def runs {σ : Type} (step : σ → Outcome (ForInStep σ)) : Nat → σ → σ → Prop
  | 0, a, b => a = b
  | k + 1, a, b => ∃ c, step a = .ok (.yield c) ∧ runs step k c b

theorem runs_trans {σ : Type} {step : σ → Outcome (ForInStep σ)} :
    ∀ {k1 k2 : Nat} {a b c : σ}, runs step k1 a b → runs step k2 b c → runs step (k1 + k2) a c := by
  intro k1
  induction k1 with
  | zero => intro k2 a b c h1 h2; cases h1; simpa using h2
  | succ k ih =>
    intro k2 a b c h1 h2
    obtain ⟨d, hd, hr⟩ := h1
    have : k + 1 + k2 = (k + k2) + 1 := by omega
    rw [this]
    exact ⟨d, hd, ih hr h2⟩

theorem runs_one {σ : Type} {step : σ → Outcome (ForInStep σ)} {a b : σ} (h : step a = .ok (.yield b)) :
    runs step 1 a b := ⟨b, h, rfl⟩

theorem runs_cons {σ : Type} {step : σ → Outcome (ForInStep σ)} {k : Nat} {a b c : σ}
    (h : step a = .ok (.yield b)) (hr : runs step k b c) : runs step (k + 1) a c := ⟨b, h, hr⟩

theorem loopN_runs {σ : Type} {step : σ → Outcome (ForInStep σ)} :
    ∀ {k : Nat} {a b : σ} (m : Nat), runs step k a b → loopN step (k + m) a = loopN step m b := by
  intro k
  induction k with
  | zero => intro a b m h; cases h; simp
  | succ k ih =>
    intro a b m h
    obtain ⟨c, hc, hr⟩ := h
    have : k + 1 + m = (k + m) + 1 := by omega
    rw [this]
    simp only [loopN, hc]
    exact ih m hr

/-- a state in which the body breaks without changing anything absorbs all remaining fuel -/
theorem loopN_done {σ : Type} {step : σ → Outcome (ForInStep σ)} {b : σ} (h : step b = .ok (.done b)) :
    ∀ m, loopN step m b = .ok b
  | 0 => rfl
  | m + 1 => by simp only [loopN, h]

/-- `k ≤ fuel` iterations reach a state in which the body breaks: the loop returns that state -/
theorem loopN_of_runs {σ : Type} {step : σ → Outcome (ForInStep σ)} {k : Nat} {a b : σ}
    (hr : runs step k a b) (hd : step b = .ok (.done b)) (fuel : Nat) (hk : k ≤ fuel) :
    loopN step fuel a = .ok b := by
  obtain ⟨m, rfl⟩ : ∃ m, fuel = k + m := ⟨fuel - k, by omega⟩
  rw [loopN_runs m hr, loopN_done hd]

/-- lines 320-326: terminal look-up, else the `finished` cache -/
def look (op : Op2) (fin : HashMap (Nat × Nat) Nat) (c : Nat × Nat) : Option Nat :=
  match op (asBool c.1) (asBool c.2) with
  | some b => some (ofBool b)
  | none => fin[c]?

theorem bind_ok {α β : Type} (a : α) (f : α → Outcome β) : (Outcome.ok a >>= f) = f a := rfl
theorem bind_panic {α β : Type} (m : String) (f : α → Outcome β) :
    ((Outcome.panic m : Outcome α) >>= f) = .panic m := rfl
theorem bind_err {α β : Type} (m : String) (f : α → Outcome β) :
    ((Outcome.err m : Outcome α) >>= f) = .err m := rfl
theorem pure_eq {α : Type} (a : α) : (pure a : Outcome α) = .ok a := rfl

end B.AlgoEqA
