import BddVerif.Lemmas.ParserGrammar
/-!
The documented grammar over FLAT token strings (parentheses are ordinary tokens), and its relation to
the model of the parser, which works on token TREES:

* `FT` flat tokens; `flattenL` (tree list → flat list); `group` (flat list → tree list, fails exactly on
  unbalanced parentheses), implemented by the explicit-stack machine `groupM`;
* `lexFlat`: the flat lexer (same character classes and the same lexical errors as `tokenize_group`,
  no grouping); `tokGroup s true` is `groupM` run on `lexFlat s` — same tokens, same error messages;
* `DerF`: the declarative grammar over flat strings, parentheses as atoms, and
  `DerF n fl e ↔ ∃ ts, group fl = some ts ∧ Der n ts e`.
-/
namespace B.Parser

/-- flat tokens: operators, parentheses, identifiers -/
inductive FT where
  | lp | rp | not | and | or | xor | imp | iff | colon | qmark
  | id (s : Name)
deriving DecidableEq, Repr

/-- the tree token of a flat token that is not a parenthesis -/
def FT.tok : FT → Tok
  | .not => .not | .and => .and | .or => .or | .xor => .xor | .imp => .imp | .iff => .iff
  | .colon => .colon | .qmark => .qmark | .id s => .id s
  | .lp => .group [] | .rp => .group []     -- never used

mutual
/-- a token tree as a flat string: a group becomes `(` … `)` -/
def flattenT : Tok → List FT
  | .group ts => FT.lp :: (flattenL ts ++ [FT.rp])
  | .not => [.not] | .and => [.and] | .or => [.or] | .xor => [.xor] | .imp => [.imp] | .iff => [.iff]
  | .colon => [.colon] | .qmark => [.qmark] | .id s => [.id s]
def flattenL : List Tok → List FT
  | [] => []
  | t :: ts => flattenT t ++ flattenL ts
end

/-- explicit-stack grouping machine. `tail` = a lexical error that follows the flat tokens (reported when
    the tokens are used up); `st` = the enclosing unfinished groups (innermost first), each with its
    tokens so far in reverse; `cur` = tokens of the current group in reverse.
    Error messages are those of `tokenize_group`. -/
def groupM : List FT → Option String → List (List Tok) → List Tok → Outcome (List Tok)
  | [], none, [], cur => .ok cur.reverse
  | [], none, _ :: _, _ => .err "Expected ')'."
  | [], some m, _, _ => .err m
  | t :: fl, tail, st, cur =>
    if t = .lp then groupM fl tail (cur :: st) []
    else if t = .rp then
      match st with
      | [] => .err "Unexpected ')'."
      | parent :: st' => groupM fl tail st' (.group cur.reverse :: parent)
    else groupM fl tail st (t.tok :: cur)

/-- grouping of a flat token string; `none` exactly on unbalanced parentheses -/
def group (fl : List FT) : Option (List Tok) := (groupM fl none [] []).toOption

/-- parentheses are balanced: depth never negative, zero at the end -/
def balancedFrom : List FT → Nat → Bool
  | [], d => d == 0
  | t :: fl, d =>
    if t = .lp then balancedFrom fl (d + 1)
    else if t = .rp then (d != 0 && balancedFrom fl (d - 1))
    else balancedFrom fl d

def balanced (fl : List FT) : Bool := balancedFrom fl 0

/-! ### `flatten` and `group` are inverse -/

theorem flattenL_append (a b : List Tok) : flattenL (a ++ b) = flattenL a ++ flattenL b := by
  induction a with
  | nil => simp [flattenL]
  | cons t ts ih => simp [flattenL, ih]

theorem flattenL_singleton (t : Tok) : flattenL [t] = flattenT t := by simp [flattenL]

theorem groupM_simple (t : FT) (fl : List FT) (tail : Option String) (st : List (List Tok)) (cur : List Tok)
    (h1 : t ≠ .lp) (h2 : t ≠ .rp) : groupM (t :: fl) tail st cur = groupM fl tail st (t.tok :: cur) := by
  simp [groupM, h1, h2]

theorem groupM_lp (fl : List FT) (tail : Option String) (st : List (List Tok)) (cur : List Tok) :
    groupM (.lp :: fl) tail st cur = groupM fl tail (cur :: st) [] := by
  simp [groupM]

theorem groupM_rp (fl : List FT) (tail : Option String) (parent : List Tok) (st : List (List Tok)) (cur : List Tok) :
    groupM (.rp :: fl) tail (parent :: st) cur = groupM fl tail st (.group cur.reverse :: parent) := by
  simp [groupM]

theorem groupM_rp_nil (fl : List FT) (tail : Option String) (cur : List Tok) :
    groupM (.rp :: fl) tail [] cur = .err "Unexpected ')'." := by
  simp [groupM]

/-- the machine reads the flat form of a token tree (list) back as that tree (list) -/
theorem groupM_flatten : ∀ (n : Nat) (ts : List Tok), sizeL ts ≤ n →
    ∀ (rest : List FT) (tail : Option String) (st : List (List Tok)) (cur : List Tok),
      groupM (flattenL ts ++ rest) tail st cur = groupM rest tail st (ts.reverse ++ cur) := by
  intro n
  induction n with
  | zero =>
    intro ts h rest tail st cur
    cases ts with
    | nil => simp [flattenL]
    | cons t ts => have := Tok.size_pos t; simp only [sizeL] at h; omega
  | succ n ih =>
    intro ts h rest tail st cur
    cases ts with
    | nil => simp [flattenL]
    | cons t ts =>
      have hpos := Tok.size_pos t
      simp only [sizeL] at h
      have hts : sizeL ts ≤ n := by omega
      have key : ∀ (r : List FT) (c : List Tok),
          groupM (flattenT t ++ r) tail st c = groupM r tail st (t :: c) := by
        intro r c
        cases t with
        | group inner =>
          have hin : sizeL inner ≤ n := by simp only [Tok.size] at h; omega
          simp only [flattenT, List.cons_append, List.append_assoc, groupM_lp]
          rw [ih inner hin]
          simp [groupM_rp]
        | not | and | or | xor | imp | iff | colon | qmark =>
          simp only [flattenT, List.cons_append, List.nil_append]
          rw [groupM_simple _ _ _ _ _ (by decide) (by decide)]; rfl
        | id s =>
          simp only [flattenT, List.cons_append, List.nil_append]
          rw [groupM_simple _ _ _ _ _ (by simp) (by simp)]; rfl
      simp only [flattenL, List.append_assoc]
      rw [key, ih ts hts]
      simp

/-- **`group ∘ flatten = id`** -/
theorem group_flatten (ts : List Tok) : group (flattenL ts) = some ts := by
  have := groupM_flatten (sizeL ts) ts (Nat.le_refl _) [] none [] []
  simp only [List.append_nil] at this
  simp [group, this, groupM, Outcome.toOption]

/-- the flat string read so far, given the stack and the current group -/
def ctxFlat : List (List Tok) → List Tok → List FT
  | [], cur => flattenL cur.reverse
  | parent :: st, cur => ctxFlat st parent ++ FT.lp :: flattenL cur.reverse

theorem ctxFlat_cons (st : List (List Tok)) (t : Tok) (cur : List Tok) :
    ctxFlat st (t :: cur) = ctxFlat st cur ++ flattenT t := by
  cases st with
  | nil => simp [ctxFlat, flattenL_append, flattenL_singleton]
  | cons p st => simp [ctxFlat, flattenL_append, flattenL_singleton]

theorem flattenT_tok (t : FT) (h1 : t ≠ .lp) (h2 : t ≠ .rp) : flattenT t.tok = [t] := by
  cases t <;> simp_all [FT.tok, flattenT]

theorem groupM_sound : ∀ (fl : List FT) (st : List (List Tok)) (cur ts : List Tok),
    groupM fl none st cur = .ok ts → flattenL ts = ctxFlat st cur ++ fl := by
  intro fl
  induction fl with
  | nil =>
    intro st cur ts h
    cases st with
    | nil => simp only [groupM, Outcome.ok.injEq] at h; subst h; simp [ctxFlat]
    | cons p st => simp [groupM] at h
  | cons t fl ih =>
    intro st cur ts h
    by_cases h1 : t = .lp
    · subst h1
      rw [groupM_lp] at h
      have := ih _ _ _ h
      simp only [ctxFlat, List.reverse_nil, flattenL] at this
      simpa using this
    · by_cases h2 : t = .rp
      · subst h2
        cases st with
        | nil => rw [groupM_rp_nil] at h; cases h
        | cons p st =>
          rw [groupM_rp] at h
          have := ih _ _ _ h
          rw [ctxFlat_cons] at this
          simp only [flattenT] at this
          simp only [ctxFlat]
          simpa using this
      · rw [groupM_simple _ _ _ _ _ h1 h2] at h
        have := ih _ _ _ h
        rw [ctxFlat_cons, flattenT_tok t h1 h2] at this
        simpa using this

/-- **`flatten ∘ group = id`** where `group` succeeds -/
theorem flatten_of_group {fl : List FT} {ts : List Tok} (h : group fl = some ts) : flattenL ts = fl := by
  unfold group at h
  cases hg : groupM fl none [] [] with
  | ok ts' =>
    rw [hg] at h
    simp only [Outcome.toOption, Option.some.injEq] at h
    subst h
    have := groupM_sound fl [] [] ts' hg
    simpa [ctxFlat, flattenL] using this
  | err m => rw [hg] at h; simp [Outcome.toOption] at h
  | panic m => rw [hg] at h; simp [Outcome.toOption] at h

theorem group_eq_some_iff (fl : List FT) (ts : List Tok) : group fl = some ts ↔ flattenL ts = fl :=
  ⟨flatten_of_group, fun h => h ▸ group_flatten ts⟩

/-- the machine succeeds exactly when the parentheses are balanced w.r.t. the current depth -/
theorem groupM_isOk : ∀ (fl : List FT) (st : List (List Tok)) (cur : List Tok),
    (groupM fl none st cur).isOk = balancedFrom fl st.length := by
  intro fl
  induction fl with
  | nil => intro st cur; cases st <;> simp [groupM, balancedFrom, Outcome.isOk]
  | cons t fl ih =>
    intro st cur
    by_cases h1 : t = .lp
    · subst h1; rw [groupM_lp, ih]; simp [balancedFrom]
    · by_cases h2 : t = .rp
      · subst h2
        cases st with
        | nil => simp [groupM_rp_nil, balancedFrom, Outcome.isOk]
        | cons p st => rw [groupM_rp, ih]; simp [balancedFrom]
      · rw [groupM_simple _ _ _ _ _ h1 h2, ih]; simp [balancedFrom, h1, h2]

/-- **`group` fails exactly on unbalanced parentheses** -/
theorem group_isSome (fl : List FT) : (group fl).isSome = balanced fl := by
  have := groupM_isOk fl [] []
  unfold group balanced
  cases hg : groupM fl none [] [] <;> simp_all [Outcome.toOption, Outcome.isOk]

/-- the machine never panics, and without a lexical error its only errors are the two parenthesis errors -/
theorem groupM_err : ∀ (fl : List FT) (st : List (List Tok)) (cur : List Tok) (m : String),
    groupM fl none st cur = .err m → m = "Unexpected ')'." ∨ m = "Expected ')'." := by
  intro fl
  induction fl with
  | nil => intro st cur m h; cases st <;> simp [groupM] at h; exact Or.inr h.symm
  | cons t fl ih =>
    intro st cur m h
    by_cases h1 : t = .lp
    · subst h1; rw [groupM_lp] at h; exact ih _ _ _ h
    · by_cases h2 : t = .rp
      · subst h2
        cases st with
        | nil => rw [groupM_rp_nil] at h; cases h; exact Or.inl rfl
        | cons p st => rw [groupM_rp] at h; exact ih _ _ _ h
      · rw [groupM_simple _ _ _ _ _ h1 h2] at h; exact ih _ _ _ h

theorem groupM_no_panic : ∀ (fl : List FT) (tail : Option String) (st : List (List Tok)) (cur : List Tok),
    (groupM fl tail st cur).isPanic = false := by
  intro fl
  induction fl with
  | nil => intro tail st cur; cases tail <;> cases st <;> simp [groupM, Outcome.isPanic]
  | cons t fl ih =>
    intro tail st cur
    by_cases h1 : t = .lp
    · subst h1; rw [groupM_lp]; exact ih _ _ _
    · by_cases h2 : t = .rp
      · subst h2
        cases st with
        | nil => simp [groupM_rp_nil, Outcome.isPanic]
        | cons p st => rw [groupM_rp]; exact ih _ _ _
      · rw [groupM_simple _ _ _ _ _ h1 h2]; exact ih _ _ _

/-! ### the flat lexer and the tokenizer -/

abbrev LexRes := List FT × Option String

/-- emit a flat token and go on -/
def consF (t : FT) (r : LexRes) : LexRes := (t :: r.1, r.2)

/-- flat lexer: the character classes of `tokenize_group` without any grouping. Returns the flat tokens
    up to the first lexical error (a lone `=`, `<`, `<=`, `>`), and that error's message if there is one. -/
def lexFlat (data : List Char) : LexRes :=
  match data with
  | [] => ([], none)
  | c :: tl =>
    if isWs c then lexFlat tl
    else if c = '!' then consF .not (lexFlat tl)
    else if c = '&' then consF .and (lexFlat tl)
    else if c = '|' then consF .or (lexFlat tl)
    else if c = '^' then consF .xor (lexFlat tl)
    else if c = ':' then consF .colon (lexFlat tl)
    else if c = '?' then consF .qmark (lexFlat tl)
    else if c = '=' then
      match tl with
      | d :: tl' => if d = '>' then consF .imp (lexFlat tl') else ([], some "Expected '>' after '='.")
      | [] => ([], some "Expected '>' after '='.")
    else if c = '<' then
      match tl with
      | d :: tl' =>
        if d = '=' then
          match tl' with
          | e :: tl'' => if e = '>' then consF .iff (lexFlat tl'') else ([], some "Expected '>' after '='.")
          | [] => ([], some "Expected '>' after '='.")
        else ([], some "Expected '=' after '<'.")
      | [] => ([], some "Expected '=' after '<'.")
    else if c = '>' then ([], some "Unexpected '>'.")
    else if c = ')' then consF .rp (lexFlat tl)
    else if c = '(' then consF .lp (lexFlat tl)
    else consF (.id (c :: (nameRest tl).1)) (lexFlat (nameRest tl).2)
termination_by data.length
decreasing_by
  all_goals simp_wf
  all_goals (try simp only [List.length_cons] at *)
  all_goals (try (have := nameRest_le tl))
  all_goals omega

/-- the grouping machine run on the flat lexing of a string -/
def Tm (data : List Char) (st : List (List Tok)) (cur : List Tok) : Outcome (List Tok) :=
  groupM (lexFlat data).1 (lexFlat data).2 st cur

/-- how the result of `tokenize_group` on `data` (with `top_level = st.isEmpty`) determines the run of
    the machine from stack `st` and current group `cur` -/
def Rel (r : TokRes) (T : Outcome (List Tok)) (st : List (List Tok)) (cur : List Tok) : Prop :=
  match r with
  | .ok (ts, rest) =>
    match st with
    | [] => rest = [] ∧ T = .ok (cur.reverse ++ ts)
    | parent :: st' => T = Tm rest st' (.group (cur.reverse ++ ts) :: parent)
  | .err m => T = .err m
  | .panic _ => False

theorem Rel.push {r : TokRes} {T : Outcome (List Tok)} {st : List (List Tok)} {cur : List Tok} {t : Tok}
    (h : Rel r T st (t :: cur)) : Rel (Parser.push t r) T st cur := by
  cases r with
  | ok p =>
    obtain ⟨ts, rest⟩ := p
    cases st with
    | nil => simpa [Rel, Parser.push] using h
    | cons parent st' => simpa [Rel, Parser.push] using h
  | err m => exact h
  | panic m => exact h

theorem Tm_nil (st : List (List Tok)) (cur : List Tok) :
    Tm [] st cur = match st with | [] => .ok cur.reverse | _ :: _ => .err "Expected ')'." := by
  unfold Tm
  rw [lexFlat.eq_def []]
  cases st <;> simp [groupM]

theorem Tm_ws (c : Char) (tl : List Char) (st : List (List Tok)) (cur : List Tok) (h : isWs c = true) :
    Tm (c :: tl) st cur = Tm tl st cur := by
  unfold Tm
  rw [lexFlat.eq_def (c :: tl)]
  simp only [h, if_true]

theorem isWs_specials : isWs '!' = false ∧ isWs '&' = false ∧ isWs '|' = false ∧ isWs '^' = false ∧
    isWs ':' = false ∧ isWs '?' = false ∧ isWs '=' = false ∧ isWs '<' = false ∧ isWs '>' = false ∧
    isWs ')' = false ∧ isWs '(' = false := by decide

theorem Tm_not (tl : List Char) (st : List (List Tok)) (cur : List Tok) :
    Tm ('!' :: tl) st cur = Tm tl st (.not :: cur) := by
  unfold Tm; rw [lexFlat.eq_def ('!' :: tl)]; simp [isWs_specials, consF, groupM, FT.tok]

theorem Tm_and (tl : List Char) (st : List (List Tok)) (cur : List Tok) :
    Tm ('&' :: tl) st cur = Tm tl st (.and :: cur) := by
  unfold Tm; rw [lexFlat.eq_def ('&' :: tl)]; simp [isWs_specials, consF, groupM, FT.tok]

theorem Tm_or (tl : List Char) (st : List (List Tok)) (cur : List Tok) :
    Tm ('|' :: tl) st cur = Tm tl st (.or :: cur) := by
  unfold Tm; rw [lexFlat.eq_def ('|' :: tl)]; simp [isWs_specials, consF, groupM, FT.tok]

theorem Tm_xor (tl : List Char) (st : List (List Tok)) (cur : List Tok) :
    Tm ('^' :: tl) st cur = Tm tl st (.xor :: cur) := by
  unfold Tm; rw [lexFlat.eq_def ('^' :: tl)]; simp [isWs_specials, consF, groupM, FT.tok]

theorem Tm_colon (tl : List Char) (st : List (List Tok)) (cur : List Tok) :
    Tm (':' :: tl) st cur = Tm tl st (.colon :: cur) := by
  unfold Tm; rw [lexFlat.eq_def (':' :: tl)]; simp [isWs_specials, consF, groupM, FT.tok]

theorem Tm_qmark (tl : List Char) (st : List (List Tok)) (cur : List Tok) :
    Tm ('?' :: tl) st cur = Tm tl st (.qmark :: cur) := by
  unfold Tm; rw [lexFlat.eq_def ('?' :: tl)]; simp [isWs_specials, consF, groupM, FT.tok]

theorem Tm_imp (tl : List Char) (st : List (List Tok)) (cur : List Tok) :
    Tm ('=' :: '>' :: tl) st cur = Tm tl st (.imp :: cur) := by
  unfold Tm; rw [lexFlat.eq_def ('=' :: '>' :: tl)]; simp [isWs_specials, consF, groupM, FT.tok]

theorem Tm_iff (tl : List Char) (st : List (List Tok)) (cur : List Tok) :
    Tm ('<' :: '=' :: '>' :: tl) st cur = Tm tl st (.iff :: cur) := by
  unfold Tm; rw [lexFlat.eq_def ('<' :: '=' :: '>' :: tl)]; simp [isWs_specials, consF, groupM, FT.tok]

theorem Tm_lp (tl : List Char) (st : List (List Tok)) (cur : List Tok) :
    Tm ('(' :: tl) st cur = Tm tl (cur :: st) [] := by
  unfold Tm; rw [lexFlat.eq_def ('(' :: tl)]; simp [isWs_specials, consF, groupM]

theorem Tm_rp (tl : List Char) (st : List (List Tok)) (cur : List Tok) :
    Tm (')' :: tl) st cur =
      match st with
      | [] => .err "Unexpected ')'."
      | parent :: st' => Tm tl st' (.group cur.reverse :: parent) := by
  unfold Tm; rw [lexFlat.eq_def (')' :: tl)]
  cases st <;> simp [isWs_specials, consF, groupM]

theorem groupM_tail_err (m : String) (st : List (List Tok)) (cur : List Tok) :
    groupM [] (some m) st cur = .err m := by
  cases st <;> simp [groupM]

theorem Tm_id (c : Char) (tl : List Char) (st : List (List Tok)) (cur : List Tok)
    (h0 : ¬ isWs c = true) (h1 : ¬ c = '!') (h2 : ¬ c = '&') (h3 : ¬ c = '|') (h4 : ¬ c = '^') (h5 : ¬ c = ':')
    (h6 : ¬ c = '?') (h7 : ¬ c = '=') (h8 : ¬ c = '<') (h9 : ¬ c = '>') (h10 : ¬ c = ')') (h11 : ¬ c = '(') :
    Tm (c :: tl) st cur = Tm (nameRest tl).2 st (.id (c :: (nameRest tl).1) :: cur) := by
  unfold Tm; rw [lexFlat.eq_def (c :: tl)]
  simp [h0, h1, h2, h3, h4, h5, h6, h7, h8, h9, h10, h11, consF, groupM, FT.tok]

theorem tok_rel (data : List Char) (top : Bool) :
    ∀ (st : List (List Tok)) (cur : List Tok), top = st.isEmpty →
      Rel (tokGroup data top) (Tm data st cur) st cur := by
  fun_induction tokGroup data top
  case case1 =>
    intro st cur h
    cases st with
    | nil => simp [Rel, Tm_nil]
    | cons p st => simp at h
  case case2 =>
    intro st cur h
    rename_i top htop
    cases st with
    | nil => simp at h; exact absurd h htop
    | cons p st => simp [Rel, Tm_nil]
  case case3 ih => intro st cur h; rw [Tm_ws _ _ _ _ (by assumption)]; exact ih st cur h
  case case4 ih => intro st cur h; rw [Tm_not]; exact (ih st _ h).push
  case case5 ih => intro st cur h; rw [Tm_and]; exact (ih st _ h).push
  case case6 ih => intro st cur h; rw [Tm_or]; exact (ih st _ h).push
  case case7 ih => intro st cur h; rw [Tm_xor]; exact (ih st _ h).push
  case case8 ih => intro st cur h; rw [Tm_colon]; exact (ih st _ h).push
  case case9 ih => intro st cur h; rw [Tm_qmark]; exact (ih st _ h).push
  case case10 ih => intro st cur h; rw [Tm_imp]; exact (ih st _ h).push
  case case11 =>
    intro st cur h
    rename_i d tl hd _ _ _ _ _ _ _
    unfold Tm; rw [lexFlat.eq_def ('=' :: d :: tl)]
    simp [isWs_specials, hd, groupM_tail_err, Rel]
  case case12 =>
    intro st cur h
    unfold Tm; rw [lexFlat.eq_def ['=']]
    simp [isWs_specials, groupM_tail_err, Rel]
  case case13 ih => intro st cur h; rw [Tm_iff]; exact (ih st _ h).push
  case case14 =>
    intro st cur h
    rename_i d tl hd _ _ _ _ _ _ _ _
    unfold Tm; rw [lexFlat.eq_def ('<' :: '=' :: d :: tl)]
    simp [isWs_specials, hd, groupM_tail_err, Rel]
  case case15 =>
    intro st cur h
    unfold Tm; rw [lexFlat.eq_def ['<', '=']]
    simp [isWs_specials, groupM_tail_err, Rel]
  case case16 =>
    intro st cur h
    rename_i d tl hd _ _ _ _ _ _ _ _
    unfold Tm; rw [lexFlat.eq_def ('<' :: d :: tl)]
    simp [isWs_specials, hd, groupM_tail_err, Rel]
  case case17 =>
    intro st cur h
    unfold Tm; rw [lexFlat.eq_def ['<']]
    simp [isWs_specials, groupM_tail_err, Rel]
  case case18 =>
    intro st cur h
    rename_i tl _ _ _ _ _ _ _ _ _
    unfold Tm; rw [lexFlat.eq_def ('>' :: tl)]
    simp [isWs_specials, groupM_tail_err, Rel]
  case case19 =>
    intro st cur h
    rename_i top tl htop _ _ _ _ _ _ _ _ _ _
    rw [Tm_rp]
    cases st with
    | nil => simp at h; subst h; simp at htop
    | cons p st => simp [Rel]
  case case20 =>
    intro st cur h
    rename_i top tl htop _ _ _ _ _ _ _ _ _ _
    rw [Tm_rp]
    cases st with
    | nil => simp [Rel]
    | cons p st => simp at h; subst h; simp at htop
  case case21 =>
    intro st cur h
    rename_i x _ _ _ _ _ _ _ _ _ _ _ hlen ih2 ih1
    rw [Tm_lp]
    have h2 := ih2 (cur :: st) [] (by simp)
    rw [x] at h2
    simp only [Rel, List.reverse_nil, List.nil_append] at h2
    rw [h2]
    exact (ih1 st _ h).push
  case case22 =>
    intro st cur h
    rename_i top tl ts r x _ _ _ _ _ _ _ _ _ _ _ hlen ih
    have := tokGroup_good tl false
    rw [x] at this
    simp only [Good, List.length_cons] at this hlen
    omega
  case case23 =>
    intro st cur h
    rename_i x _ _ _ _ _ _ _ _ _ _ _ ih
    rw [Tm_lp]
    have h2 := ih (cur :: st) [] (by simp)
    rw [x] at h2
    exact h2
  case case24 =>
    intro st cur h
    rename_i top tl m x _ _ _ _ _ _ _ _ _ _ _ ih
    have := tokGroup_no_panic tl false
    rw [x] at this
    simp [Outcome.isPanic] at this
  case case25 ih =>
    intro st cur h
    rename_i h0 h1 h2 h3 h4 h5 h6 h7 h8 h9 h10 h11 hlen
    rw [Tm_id _ _ _ _ h0 h1 h2 h3 h4 h5 h6 h7 h8 h9 h10 h11]
    exact (ih st _ h).push
  case case26 =>
    intro st cur h
    rename_i hlen
    have := nameRest_le ‹List Char›
    simp only [List.length_cons] at hlen
    omega

/-- **the tokenizer is the grouping machine run on the flat lexing**: same token tree, same error message -/
theorem tokGroup_eq_groupM (s : List Char) :
    tokGroup s true =
      match groupM (lexFlat s).1 (lexFlat s).2 [] [] with
      | .ok ts => .ok (ts, [])
      | .err m => .err m
      | .panic m => .panic m := by
  have h := tok_rel s true [] [] rfl
  unfold Tm at h
  cases ht : tokGroup s true with
  | ok p =>
    obtain ⟨ts, rest⟩ := p
    rw [ht] at h
    simp only [Rel, List.reverse_nil, List.nil_append] at h
    rw [h.2, h.1]
  | err m => rw [ht] at h; simp only [Rel] at h; rw [h]
  | panic m => rw [ht] at h; exact absurd h (by simp [Rel])

/-! ### the documented grammar over flat token strings -/

/-- The documented grammar on flat token strings, parentheses as atoms. Levels as in `Der`:
    0 term (`!`, identifiers, `true`/`false`, `( iff )`), 1 `^`, 2 `&`, 3 `|`, 4 the non-nesting
    conditional `or ? or : or`, 5 `=>`, 6 `<=>`; binary operators associate to the right. -/
inductive DerF : Nat → List FT → Expr → Prop
  | ident (s : Name) : s ≠ kwTrue → s ≠ kwFalse → DerF 0 [.id s] (.var s)
  | tt : DerF 0 [.id kwTrue] (.const true)
  | ff : DerF 0 [.id kwFalse] (.const false)
  | neg {fl e} : DerF 0 fl e → DerF 0 (.not :: fl) (.not e)
  | par {fl e} : DerF 6 fl e → DerF 0 (.lp :: (fl ++ [.rp])) e
  | xorS {a b l r} : DerF 0 a l → DerF 1 b r → DerF 1 (a ++ .xor :: b) (.xor l r)
  | andS {a b l r} : DerF 1 a l → DerF 2 b r → DerF 2 (a ++ .and :: b) (.and l r)
  | orS {a b l r} : DerF 2 a l → DerF 3 b r → DerF 3 (a ++ .or :: b) (.or l r)
  | condS {a b d c t e} : DerF 3 a c → DerF 3 b t → DerF 3 d e →
      DerF 4 (a ++ .qmark :: (b ++ .colon :: d)) (.cond c t e)
  | impS {a b l r} : DerF 4 a l → DerF 5 b r → DerF 5 (a ++ .imp :: b) (.imp l r)
  | iffS {a b l r} : DerF 5 a l → DerF 6 b r → DerF 6 (a ++ .iff :: b) (.iff l r)
  | up {n fl e} : n < 6 → DerF n fl e → DerF (n + 1) fl e

theorem flattenL_cons_simple (a b : List Tok) (t : Tok) (ft : FT) (h : flattenT t = [ft]) :
    flattenL (a ++ t :: b) = flattenL a ++ ft :: flattenL b := by
  rw [flattenL_append]; simp [flattenL, h]

/-- a tree derivation flattens to a flat derivation -/
theorem Der.toFlat {n : Nat} {ts : List Tok} {e : Expr} (h : Der n ts e) : DerF n (flattenL ts) e := by
  induction h with
  | ident s h1 h2 => simpa [flattenL, flattenT] using DerF.ident s h1 h2
  | tt => simpa [flattenL, flattenT] using DerF.tt
  | ff => simpa [flattenL, flattenT] using DerF.ff
  | neg _ ih => simpa [flattenL, flattenT] using DerF.neg ih
  | grp _ ih => simpa [flattenL, flattenT] using DerF.par ih
  | xorS _ _ iha ihb => rw [flattenL_cons_simple _ _ _ .xor rfl]; exact DerF.xorS iha ihb
  | andS _ _ iha ihb => rw [flattenL_cons_simple _ _ _ .and rfl]; exact DerF.andS iha ihb
  | orS _ _ iha ihb => rw [flattenL_cons_simple _ _ _ .or rfl]; exact DerF.orS iha ihb
  | condS _ _ _ iha ihb ihd =>
    rw [flattenL_cons_simple _ _ _ .qmark rfl, flattenL_cons_simple _ _ _ .colon rfl]
    exact DerF.condS iha ihb ihd
  | impS _ _ iha ihb => rw [flattenL_cons_simple _ _ _ .imp rfl]; exact DerF.impS iha ihb
  | iffS _ _ iha ihb => rw [flattenL_cons_simple _ _ _ .iff rfl]; exact DerF.iffS iha ihb
  | up hn _ ih => exact DerF.up hn ih

/-- every flat derivation is the flat form of a tree derivation: in particular every string of the flat
    grammar has balanced parentheses, and an operator is only ever split at parenthesis depth 0 -/
theorem DerF.toTree {n : Nat} {fl : List FT} {e : Expr} (h : DerF n fl e) :
    ∃ ts, flattenL ts = fl ∧ Der n ts e := by
  induction h with
  | ident s h1 h2 => exact ⟨[.id s], by simp [flattenL, flattenT], Der.ident s h1 h2⟩
  | tt => exact ⟨[.id kwTrue], by simp [flattenL, flattenT], Der.tt⟩
  | ff => exact ⟨[.id kwFalse], by simp [flattenL, flattenT], Der.ff⟩
  | neg _ ih =>
    obtain ⟨ts, h1, h2⟩ := ih
    exact ⟨.not :: ts, by simp [flattenL, flattenT, h1], Der.neg h2⟩
  | par _ ih =>
    obtain ⟨ts, h1, h2⟩ := ih
    exact ⟨[.group ts], by simp [flattenL, flattenT, h1], Der.grp h2⟩
  | xorS _ _ iha ihb =>
    obtain ⟨ta, a1, a2⟩ := iha; obtain ⟨tb, b1, b2⟩ := ihb
    exact ⟨ta ++ .xor :: tb, by rw [flattenL_cons_simple _ _ _ .xor rfl, a1, b1], Der.xorS a2 b2⟩
  | andS _ _ iha ihb =>
    obtain ⟨ta, a1, a2⟩ := iha; obtain ⟨tb, b1, b2⟩ := ihb
    exact ⟨ta ++ .and :: tb, by rw [flattenL_cons_simple _ _ _ .and rfl, a1, b1], Der.andS a2 b2⟩
  | orS _ _ iha ihb =>
    obtain ⟨ta, a1, a2⟩ := iha; obtain ⟨tb, b1, b2⟩ := ihb
    exact ⟨ta ++ .or :: tb, by rw [flattenL_cons_simple _ _ _ .or rfl, a1, b1], Der.orS a2 b2⟩
  | condS _ _ _ iha ihb ihd =>
    obtain ⟨ta, a1, a2⟩ := iha; obtain ⟨tb, b1, b2⟩ := ihb; obtain ⟨td, d1, d2⟩ := ihd
    exact ⟨ta ++ .qmark :: (tb ++ .colon :: td),
      by rw [flattenL_cons_simple _ _ _ .qmark rfl, flattenL_cons_simple _ _ _ .colon rfl, a1, b1, d1],
      Der.condS a2 b2 d2⟩
  | impS _ _ iha ihb =>
    obtain ⟨ta, a1, a2⟩ := iha; obtain ⟨tb, b1, b2⟩ := ihb
    exact ⟨ta ++ .imp :: tb, by rw [flattenL_cons_simple _ _ _ .imp rfl, a1, b1], Der.impS a2 b2⟩
  | iffS _ _ iha ihb =>
    obtain ⟨ta, a1, a2⟩ := iha; obtain ⟨tb, b1, b2⟩ := ihb
    exact ⟨ta ++ .iff :: tb, by rw [flattenL_cons_simple _ _ _ .iff rfl, a1, b1], Der.iffS a2 b2⟩
  | up hn _ ih =>
    obtain ⟨ts, h1, h2⟩ := ih
    exact ⟨ts, h1, Der.up hn h2⟩

/-- **flat grammar = tree grammar after grouping** -/
theorem derF_iff_der (n : Nat) (fl : List FT) (e : Expr) :
    DerF n fl e ↔ ∃ ts, group fl = some ts ∧ Der n ts e := by
  constructor
  · intro h
    obtain ⟨ts, h1, h2⟩ := h.toTree
    exact ⟨ts, (group_eq_some_iff fl ts).mpr h1, h2⟩
  · rintro ⟨ts, h1, h2⟩
    rw [← (group_eq_some_iff fl ts).mp h1]
    exact h2.toFlat

/-! ### consequences for the tokenizer -/

/-- with a pending lexical error the machine ends in an error: that one, or an earlier unexpected `)` -/
theorem groupM_tail : ∀ (fl : List FT) (m : String) (st : List (List Tok)) (cur : List Tok),
    groupM fl (some m) st cur = .err m ∨ groupM fl (some m) st cur = .err "Unexpected ')'." := by
  intro fl
  induction fl with
  | nil => intro m st cur; exact Or.inl (groupM_tail_err m st cur)
  | cons t fl ih =>
    intro m st cur
    by_cases h1 : t = .lp
    · subst h1; rw [groupM_lp]; exact ih _ _ _
    · by_cases h2 : t = .rp
      · subst h2
        cases st with
        | nil => exact Or.inr (groupM_rp_nil _ _ _)
        | cons p st => rw [groupM_rp]; exact ih _ _ _
      · rw [groupM_simple _ _ _ _ _ h1 h2]; exact ih _ _ _

theorem groupM_none_eq (fl : List FT) (ts : List Tok) : groupM fl none [] [] = .ok ts ↔ group fl = some ts := by
  unfold group
  cases groupM fl none [] [] <;> simp [Outcome.toOption]

/-- the tokenizer accepts exactly the strings that lex without error into a balanced flat string, and
    returns its grouping (and nothing unread) -/
theorem tokGroup_ok_iff (s : List Char) (ts : List Tok) (rest : List Char) :
    tokGroup s true = .ok (ts, rest) ↔ rest = [] ∧ ∃ fl, lexFlat s = (fl, none) ∧ group fl = some ts := by
  rw [tokGroup_eq_groupM]
  cases hl : lexFlat s with
  | mk fl tail =>
    cases tail with
    | none =>
      simp only
      cases hg : groupM fl none [] [] with
      | ok ts' =>
        have := (groupM_none_eq fl ts').mp hg
        constructor
        · intro h; cases h; exact ⟨rfl, fl, rfl, this⟩
        · rintro ⟨rfl, fl', h1, h2⟩
          cases h1
          rw [this] at h2; cases h2; rfl
      | err m =>
        constructor
        · intro h; cases h
        · rintro ⟨_, fl', h1, h2⟩
          cases h1
          have := (groupM_none_eq _ ts).mpr h2
          rw [hg] at this; cases this
      | panic m =>
        have := groupM_no_panic fl none [] []
        rw [hg] at this; simp [Outcome.isPanic] at this
    | some m =>
      simp only
      rcases groupM_tail fl m [] [] with h | h <;> rw [h] <;> simp

end B.Parser
