import BddVerif.Gen.RustShim
/-!
Generic part of the proofs "translated Rust = hand model" for the nested-apply family:
a `for _ in [0:fuel]` loop of the generated code (whose body ignores the index) is `loopN step fuel`,
the `fuel`-fold iteration of an explicit step function with early exit on `done`.
-/
namespace B.AlgoEq
open B B.Gen
attribute [local instance 10000] Rust.monadOutcomeInline

/-- `fuel`-fold iteration of a step function in `Outcome`, stopping at the first `done` -/
def loopN {σ : Type} (step : σ → Outcome (ForInStep σ)) : Nat → σ → Outcome σ
  | 0, s => .ok s
  | k + 1, s =>
    match step s with
    | .ok (.yield s') => loopN step k s'
    | .ok (.done s') => .ok s'
    | .err m => .err m
    | .panic m => .panic m

theorem loopN_zero {σ : Type} (step : σ → Outcome (ForInStep σ)) (s : σ) : loopN step 0 s = .ok s := rfl

theorem loopN_yield {σ : Type} {step : σ → Outcome (ForInStep σ)} {s s' : σ} (h : step s = .ok (.yield s'))
    (k : Nat) : loopN step (k + 1) s = loopN step k s' := by
  simp only [loopN, h]

theorem loopN_done {σ : Type} {step : σ → Outcome (ForInStep σ)} {s s' : σ} (h : step s = .ok (.done s'))
    (k : Nat) : loopN step (k + 1) s = .ok s' := by
  simp only [loopN, h]

/-- once the step function answers `done s` on `s`, more fuel changes nothing -/
theorem loopN_fix {σ : Type} {step : σ → Outcome (ForInStep σ)} {s : σ} (h : step s = .ok (.done s)) :
    ∀ k, loopN step k s = .ok s
  | 0 => rfl
  | k + 1 => loopN_done h k

theorem forIn_list_eq_loopN {σ : Type} (f : Nat → σ → Outcome (ForInStep σ)) (step : σ → Outcome (ForInStep σ))
    (h : ∀ i s, f i s = step s) : ∀ (l : List Nat) (init : σ), forIn l init f = loopN step l.length init := by
  intro l
  induction l with
  | nil => intro init; rfl
  | cons a l ih =>
    intro init
    rw [List.forIn_cons, h a init]
    simp only [List.length_cons, loopN]
    cases hs : step init with
    | ok x =>
      cases x with
      | done b => rfl
      | yield b => exact ih b
    | err m => rfl
    | panic m => rfl

/-- the desugaring lemma: a `for _ in [0:fuel]` loop whose body ignores the index -/
theorem forIn_range_eq_loopN {σ : Type} (fuel : Nat) (init : σ) (f : Nat → σ → Outcome (ForInStep σ))
    (step : σ → Outcome (ForInStep σ)) (h : ∀ i s, f i s = step s) :
    forIn [0:fuel] init f = loopN step fuel init := by
  rw [Std.Legacy.Range.forIn_eq_forIn_range', forIn_list_eq_loopN f step h]
  simp [Std.Legacy.Range.size]

/-- bind in the inlined instance is `Outcome.bind` -/
theorem bind_ok {α β} (a : α) (f : α → Outcome β) : (Outcome.ok a >>= f) = f a := rfl
theorem bind_panic {α β} (m : String) (f : α → Outcome β) : (Outcome.panic m >>= f) = Outcome.panic m := rfl
theorem bind_err {α β} (m : String) (f : α → Outcome β) : (Outcome.err m >>= f) = Outcome.err m := rfl
theorem pure_eq {α} (a : α) : (pure a : Outcome α) = Outcome.ok a := rfl

theorem idx_eq {α} (a : Array α) (i : Nat) (h : i < a.size) : Rust.idx a i = .ok a[i] := by
  simp [Rust.idx, h]

theorem setIdx_eq {α} (a : Array α) (i : Nat) (x : α) (h : i < a.size) : Rust.setIdx a i x = .ok (a.set i x) := by
  simp [Rust.setIdx, h]

end B.AlgoEq
