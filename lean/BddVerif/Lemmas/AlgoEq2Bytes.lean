import BddVerif.Lemmas.AlgoEq2BytesIO
/-!
# Translated byte serialisation (`Gen/Algo2.lean`) = hand model (`Model/Serial.lean`)

* codecs: `BddVariable_to_le_bytes`, `BddPointer_to_le_bytes`, `…_from_le_bytes` are `Serial.leBytes` / `Serial.leVal`
  with the regenerated widths `Serial.varW/lowW/highW` (all inputs; round trip = value modulo `2^16` / `2^32`);
* `Bdd_write_as_bytes_eq_model` — every array, every scripted writer: desugaring into `writeSeq` (the sequence of
  `write_all(..)?` calls, three per node) + `writeSeq_repr` against `Serial.writePieces`;
* `Bdd_read_as_bytes_eq_model` — every scripted reader (any bytes, any script), fuel `≥ |data| / 10 + 1`: the
  loop is `Serial.readBytesIO` (`read_loop`), the generated body is swapped for the hand-written `rstep` under the
  loop invariant "the record buffer has 10 cells" (`iter_congr_inv`).
The generated text is not quoted: proofs start from `unfold Algo2.<fn>`.
-/
namespace B.AlgoEq2Bytes
open B B.Gen B.AlgoEqUtil
attribute [local instance 10000] Rust.monadOutcomeInline

/-! ### little-endian codecs -/

theorem toLeBytes_toList : ∀ (w x : Nat), (Rust.toLeBytes w x).toList.map byteOf = Serial.leBytes w x := by
  intro w
  induction w with
  | zero => intro x; rfl
  | succ w ih =>
    intro x
    simp only [Rust.toLeBytes, Serial.leBytes, Array.toList_append, List.map_append, ih]
    rfl

theorem toLeBytes_lt : ∀ (w x : Nat), ∀ b ∈ (Rust.toLeBytes w x).toList, b < 256 := by
  intro w
  induction w with
  | zero => intro x b hb; simp [Rust.toLeBytes] at hb
  | succ w ih =>
    intro x b hb
    simp only [Rust.toLeBytes, Array.toList_append, List.mem_append] at hb
    rcases hb with hb | hb
    · simp at hb; omega
    · exact ih _ b hb

theorem toLeBytes_size : ∀ (w x : Nat), (Rust.toLeBytes w x).size = w := by
  intro w
  induction w with
  | zero => intro x; rfl
  | succ w ih => intro x; simp only [Rust.toLeBytes, Array.size_append, ih]; simp; omega

theorem fromLeBytes_eq (l : List Nat) : Rust.fromLeBytes l.toArray = Serial.leVal (l.map byteOf) := by
  unfold Rust.fromLeBytes
  induction l with
  | nil => rfl
  | cons b l ih =>
    simp only [List.foldr_toArray, List.foldr_cons, List.map_cons, Serial.leVal, byteOf_toNat] at ih ⊢
    rw [ih]

theorem map_toNat_byteOf (l : List Nat) (h : ∀ b ∈ l, b < 256) : (l.map byteOf).map UInt8.toNat = l := by
  induction l with
  | nil => rfl
  | cons b l ih =>
    simp only [List.map_cons, byteOf_toNat_of_lt (h b List.mem_cons_self),
      ih (fun x hx => h x (List.mem_cons_of_mem _ hx))]

theorem map_byteOf_toNat (l : List UInt8) : (l.map UInt8.toNat).map byteOf = l := by
  induction l with
  | nil => rfl
  | cons b l ih => simp only [List.map_cons, byteOf_of_toNat, ih]

/-- `BddVariable::to_le_bytes` / `BddPointer::to_le_bytes` are the fields of the Serial record -/
theorem BddVariable_to_le_bytes_eq_model (x : Nat) :
    (Algo2.BddVariable_to_le_bytes x).toList.map byteOf = Serial.leBytes Serial.varW x :=
  toLeBytes_toList 2 x

theorem BddPointer_to_le_bytes_eq_model (x : Nat) :
    (Algo2.BddPointer_to_le_bytes x).toList.map byteOf = Serial.leBytes Serial.lowW x ∧
    (Algo2.BddPointer_to_le_bytes x).toList.map byteOf = Serial.leBytes Serial.highW x :=
  ⟨toLeBytes_toList 4 x, toLeBytes_toList 4 x⟩

theorem BddVariable_from_le_bytes_eq_model (l : List Nat) :
    Algo2.BddVariable_from_le_bytes l.toArray = Serial.leVal (l.map byteOf) := fromLeBytes_eq l

theorem BddPointer_from_le_bytes_eq_model (l : List Nat) :
    Algo2.BddPointer_from_le_bytes l.toArray = Serial.leVal (l.map byteOf) := fromLeBytes_eq l

/-- decoding what was encoded: the value modulo the width of the type (`u16` / `u32`) -/
theorem BddVariable_le_roundtrip (x : Nat) :
    Algo2.BddVariable_from_le_bytes (Algo2.BddVariable_to_le_bytes x) = x % 65536 := by
  have := fromLeBytes_eq (Algo2.BddVariable_to_le_bytes x).toList
  simp only [Array.toArray_toList] at this
  rw [Algo2.BddVariable_from_le_bytes, this, BddVariable_to_le_bytes_eq_model, Serial.leVal_leBytes]
  rfl

theorem BddPointer_le_roundtrip (x : Nat) :
    Algo2.BddPointer_from_le_bytes (Algo2.BddPointer_to_le_bytes x) = x % 4294967296 := by
  have := fromLeBytes_eq (Algo2.BddPointer_to_le_bytes x).toList
  simp only [Array.toArray_toList] at this
  rw [Algo2.BddPointer_from_le_bytes, this, (BddPointer_to_le_bytes_eq_model x).1, Serial.leVal_leBytes]
  rfl

/-! ### a sequence of `write_all(..)?` calls -/

/-- `output.write_all(p1)?; output.write_all(p2)?; …` on the shim's writer -/
def writeSeq (w : Rust.Writer) : List (Array Nat) → Except Rust.IoError Unit × Rust.Writer
  | [] => (.ok (), w)
  | p :: ps =>
    match Rust.writeAll w p with
    | (.ok _, w') => writeSeq w' ps
    | (.error e, w') => (.error e, w')

theorem writeSeq_append (w : Rust.Writer) (ps qs : List (Array Nat)) :
    writeSeq w (ps ++ qs) =
      match writeSeq w ps with
      | (.ok _, w') => writeSeq w' qs
      | (.error e, w') => (.error e, w') := by
  induction ps generalizing w with
  | nil => rfl
  | cons p ps ih =>
    simp only [List.cons_append, writeSeq]
    rcases Rust.writeAll w p with ⟨r, w'⟩
    cases r with
    | ok u => exact ih w'
    | error e => rfl

/-- **`writeSeq` on the shim's writer = `Serial.writePieces`** -/
theorem writeSeq_repr : ∀ (ps : List (Array Nat)) (w : Rust.Writer),
    ∃ taken : List Nat,
      RelWrite (writeSeq w ps).1 (Serial.writePieces (w.script.map evOf) (ps.map fun p => p.toList.map byteOf)).1 ∧
      (writeSeq w ps).2.out = w.out ++ taken.toArray ∧
      (Serial.writePieces (w.script.map evOf) (ps.map fun p => p.toList.map byteOf)).2.1 = taken.map byteOf ∧
      (writeSeq w ps).2.script.map evOf =
        (Serial.writePieces (w.script.map evOf) (ps.map fun p => p.toList.map byteOf)).2.2 ∧
      (writeSeq w ps).2.sp + (writeSeq w ps).2.script.length = w.sp + w.script.length ∧
      ((writeSeq w ps).1 = .ok () → taken = (ps.map Array.toList).flatten) ∧
      taken <+: (ps.map Array.toList).flatten := by
  intro ps
  induction ps with
  | nil =>
    intro w
    exact ⟨[], .ok, by simp [writeSeq], rfl, rfl, rfl, fun _ => rfl, List.prefix_refl _⟩
  | cons p ps ih =>
    intro w
    obtain ⟨t1, a1, a2, a3, a4, a5, a6, a7⟩ := writeAllGo_repr (p.size + w.script.length + 2) w p.toList (by omega)
    simp only [writeSeq, Rust.writeAll, List.map_cons, Serial.writePieces]
    rcases hx : Rust.writeAllGo (p.size + w.script.length + 2) w p.toList with ⟨r, w'⟩
    rcases hy : Serial.writeAll (w.script.map evOf) (p.toList.map byteOf) with ⟨ok, out, s'⟩
    rw [hx] at a1 a2 a4 a5 a6
    rw [hy] at a1 a3 a4
    simp only at a1 a2 a3 a4 a5 a6 ⊢
    cases a1 with
    | ok =>
      dsimp only
      obtain ⟨t2, b1, b2, b3, b4, b5, b6, b7⟩ := ih w'
      rw [a4] at b1 b3 b4
      have ht1 := a6 rfl
      subst ht1
      refine ⟨p.toList ++ t2, b1, ?_, ?_, b4, by omega, ?_, ?_⟩
      · rw [b2, a2]; apply Array.ext'; simp
      · rw [a3, b3, List.map_append]
      · intro h; rw [b6 h]; rfl
      · simp only [List.flatten_cons]
        exact (List.prefix_append_right_inj _).mpr b7
    | zero =>
      dsimp only
      refine ⟨t1, .zero, a2, a3, a4, a5, fun h => (by cases h), ?_⟩
      simp only [List.flatten_cons]
      exact a7.trans (List.prefix_append _ _)
    | failed =>
      dsimp only
      refine ⟨t1, .failed, a2, a3, a4, a5, fun h => (by cases h), ?_⟩
      simp only [List.flatten_cons]
      exact a7.trans (List.prefix_append _ _)

/-! ### `write_as_bytes` -/

def pieces3 (nd : Node) : List (Array Nat) :=
  [Algo2.BddVariable_to_le_bytes nd.var, Algo2.BddPointer_to_le_bytes nd.low, Algo2.BddPointer_to_le_bytes nd.high]

/-- the body of `for node in self.nodes()` -/
def wstep (nd : Node) (s : Option (Except Rust.IoError Unit × Rust.Writer) × Rust.Writer) :
    Outcome (ForInStep (Option (Except Rust.IoError Unit × Rust.Writer) × Rust.Writer)) :=
  match writeSeq s.2 (pieces3 nd) with
  | (.ok _, w') => .ok (.yield (none, w'))
  | (.error e, w') => .ok (.done (some (.error e, w'), w'))

theorem wstep_run : ∀ (nodes : List Node) (w : Rust.Writer),
    iterL wstep nodes (none, w) =
      .ok (match writeSeq w (nodes.flatMap pieces3) with
        | (.ok _, w') => (none, w')
        | (.error e, w') => (some (.error e, w'), w')) := by
  intro nodes
  induction nodes with
  | nil => intro w; rfl
  | cons nd nodes ih =>
    intro w
    rw [iterL_cons, List.flatMap_cons, writeSeq_append]
    simp only [wstep]
    rcases writeSeq w (pieces3 nd) with ⟨r, w'⟩
    cases r with
    | ok u => exact ih w'
    | error e => rfl

/-- desugaring: the translated `write_as_bytes` is the sequence of `write_all(..)?` calls, three per node -/
theorem write_as_bytes_desugar (A : Arr) (w : Rust.Writer) :
    Algo2.Bdd_write_as_bytes A w = .ok (writeSeq w (A.toList.flatMap pieces3)) := by
  unfold Algo2.Bdd_write_as_bytes
  simp only [forIn_array_eq_iterL]
  rw [iterL_congr _ wstep _ (by
    intro nd _ s
    simp only [wstep, pieces3, writeSeq]
    rcases Rust.writeAll s.2 (Algo2.BddVariable_to_le_bytes nd.var) with ⟨r1, w1⟩
    cases r1 with
    | error e => rfl
    | ok u1 =>
      dsimp only
      rcases Rust.writeAll w1 (Algo2.BddPointer_to_le_bytes nd.low) with ⟨r2, w2⟩
      cases r2 with
      | error e => rfl
      | ok u2 =>
        dsimp only
        rcases Rust.writeAll w2 (Algo2.BddPointer_to_le_bytes nd.high) with ⟨r3, w3⟩
        cases r3 with
        | error e => rfl
        | ok u3 => rfl), wstep_run]
  simp only [bind_ok, Algo.Bdd_nodes]
  rcases writeSeq w (A.toList.flatMap pieces3) with ⟨r, w'⟩
  cases r with
  | ok u => rfl
  | error e => rfl

theorem bytePieces_eq (A : Arr) :
    Serial.bytePieces A = (A.toList.flatMap pieces3).map fun p => p.toList.map byteOf := by
  have h : ∀ nd, Serial.nodeBytePieces nd = (pieces3 nd).map (fun p => p.toList.map byteOf) := by
    intro nd
    simp only [Serial.nodeBytePieces, pieces3, List.map_cons, List.map_nil, BddVariable_to_le_bytes_eq_model,
      (BddPointer_to_le_bytes_eq_model _).1]
    rfl
  unfold Serial.bytePieces
  rw [List.map_flatMap]
  have hf : Serial.nodeBytePieces = fun nd => (pieces3 nd).map (fun p => p.toList.map byteOf) := funext h
  rw [hf]

theorem pieces_lt (A : Arr) : ∀ b ∈ ((A.toList.flatMap pieces3).map Array.toList).flatten, b < 256 := by
  intro b hb
  simp only [List.mem_flatten, List.mem_map, List.mem_flatMap, pieces3, List.mem_cons, List.not_mem_nil, or_false] at hb
  obtain ⟨l, ⟨p, ⟨nd, _, hp⟩, rfl⟩, hb⟩ := hb
  rcases hp with rfl | rfl | rfl <;> exact toLeBytes_lt _ _ b hb

/-- **write_as_bytes, translated code = hand model** for EVERY array and EVERY scripted writer: the call never
    panics; it returns `Ok` iff `Serial.writeBytesIO` does (the error kind is `WriteZero` or the hard error); the sink
    received exactly the bytes of the model; the remaining script and the number of consumed entries agree -/
theorem Bdd_write_as_bytes_eq_model (A : Arr) (w : Rust.Writer) :
    ∃ (res : Except Rust.IoError Unit) (w' : Rust.Writer), Algo2.Bdd_write_as_bytes A w = .ok (res, w') ∧
      RelWrite res (Serial.writeBytesIO A (w.script.map evOf)).1 ∧
      w'.out = w.out ++ ((Serial.writeBytesIO A (w.script.map evOf)).2.1.map UInt8.toNat).toArray ∧
      w'.script.map evOf = (Serial.writeBytesIO A (w.script.map evOf)).2.2 ∧
      w'.sp + w'.script.length = w.sp + w.script.length := by
  obtain ⟨taken, h1, h2, h3, h4, h5, _, h7⟩ := writeSeq_repr (A.toList.flatMap pieces3) w
  rw [← bytePieces_eq] at h1 h3 h4
  refine ⟨_, _, write_as_bytes_desugar A w, h1, ?_, h4, h5⟩
  unfold Serial.writeBytesIO
  rw [h2, h3, map_toNat_byteOf]
  intro b hb
  exact pieces_lt A b (h7.subset hb)

/-! ### `read_as_bytes` -/

/-- `BddNode::mk_node(from_le_bytes([buf[0], buf[1]]), …)` on the record buffer -/
def nodeOfBuf (b : Array Nat) : Node :=
  Algo.BddNode_mk_node (Algo2.BddVariable_from_le_bytes #[b.getD 0 0, b.getD 1 0])
    (Algo2.BddPointer_from_le_bytes #[b.getD 2 0, b.getD 3 0, b.getD 4 0, b.getD 5 0])
    (Algo2.BddPointer_from_le_bytes #[b.getD 6 0, b.getD 7 0, b.getD 8 0, b.getD 9 0])

abbrev RSt := Option (Except Rust.IoError Arr × Rust.Reader) × Rust.Reader × Arr × Array Nat

/-- the body of `loop { match input.read_exact(&mut buf) … }` -/
def rstep (s : RSt) : Outcome (ForInStep RSt) :=
  match (Rust.readExact s.2.1 s.2.2.2).1 with
  | .ok _ => .ok (.yield (none, (Rust.readExact s.2.1 s.2.2.2).2.1,
      s.2.2.1.push (nodeOfBuf (Rust.readExact s.2.1 s.2.2.2).2.2), (Rust.readExact s.2.1 s.2.2.2).2.2))
  | .error e =>
    if e.kind == Rust.ErrorKind.unexpectedEof then
      .ok (.done (some (.ok s.2.2.1, (Rust.readExact s.2.1 s.2.2.2).2.1),
        (Rust.readExact s.2.1 s.2.2.2).2.1, s.2.2.1, (Rust.readExact s.2.1 s.2.2.2).2.2))
    else
      .ok (.done (some (.error e, (Rust.readExact s.2.1 s.2.2.2).2.1),
        (Rust.readExact s.2.1 s.2.2.2).2.1, s.2.2.1, (Rust.readExact s.2.1 s.2.2.2).2.2))

theorem readExact_ok_size (r : Rust.Reader) (buf : Array Nat) (u : Unit) (h : (Rust.readExact r buf).1 = .ok u) :
    (Rust.readExact r buf).2.2.size = buf.size := by
  obtain ⟨_, _, h3⟩ := readExact_repr r buf
  rcases hy : Serial.readExact (rdOf r) buf.size [] with ⟨sres, sr⟩
  rw [hy] at h3
  cases sres with
  | ok bs => exact h3.2.2
  | eof => simp only at h3; rw [h3.1] at h; cases h
  | failed => simp only at h3; rw [h3.1] at h; cases h

theorem getD_of_lt (b : Array Nat) (i : Nat) (h : i < b.size) : b.getD i 0 = b[i] := by
  simp [Array.getD, h]

theorem recordLen_ten : Gen.recordLen = 10 := by decide

/-- the record decoder of the Serial model on the bytes of a full buffer -/
theorem decodeNode_eq (b : Array Nat) (h : b.size = 10) :
    Serial.decodeNode (b.toList.map byteOf) = nodeOfBuf b := by
  obtain ⟨l⟩ := b
  match l, h with
  | [b0, b1, b2, b3, b4, b5, b6, b7, b8, b9], _ =>
    have f0 : Serial.fieldAt 0 = (0, 2) := by decide
    have f1 : Serial.fieldAt 1 = (2, 4) := by decide
    have f2 : Serial.fieldAt 2 = (6, 4) := by decide
    simp only [Serial.decodeNode, f0, f1, f2, Serial.slice, nodeOfBuf, Algo.BddNode_mk_node]
    have e0 := fromLeBytes_eq [b0, b1]
    have e1 := fromLeBytes_eq [b2, b3, b4, b5]
    have e2 := fromLeBytes_eq [b6, b7, b8, b9]
    simp only [Algo2.BddVariable_from_le_bytes, Algo2.BddPointer_from_le_bytes]
    simp only [List.map_cons, List.map_nil] at e0 e1 e2 ⊢
    simp [Array.getD, e0, e1, e2]

def toExcept : Outcome Arr → Except Rust.IoError Arr
  | .ok A => .ok A
  | _ => .error ⟨.other⟩

/-- replace a loop body by another one that agrees with it on an invariant of the loop -/
theorem iter_congr_inv {β} (Inv : β → Prop) (g g' : β → Outcome (ForInStep β))
    (hstep : ∀ b, Inv b → g b = g' b) (hpres : ∀ b b', Inv b → g' b = .ok (.yield b') → Inv b') :
    ∀ (n : Nat) (b : β), Inv b → iter g n b = iter g' n b := by
  intro n
  induction n with
  | zero => intro b _; rfl
  | succ n ih =>
    intro b hb
    rw [iter_succ, iter_succ, hstep b hb]
    cases hg : g' b with
    | ok st =>
      cases st with
      | done b' => rfl
      | yield b' => exact ih b' (hpres b b' hb hg)
    | err m => rfl
    | panic m => rfl

theorem rstep_inv (s s' : RSt) (hs : s.2.2.2.size = 10) (h : rstep s = .ok (.yield s')) : s'.2.2.2.size = 10 := by
  unfold rstep at h
  rcases hx : Rust.readExact s.2.1 s.2.2.2 with ⟨res, r1, b1⟩
  rw [hx] at h
  cases res with
  | error e =>
    simp only at h
    split at h <;> simp at h
  | ok u =>
    simp only [Outcome.ok.injEq, ForInStep.yield.injEq] at h
    have := readExact_ok_size s.2.1 s.2.2.2 u (by rw [hx])
    rw [hx, hs] at this
    rw [← h]; exact this

/-- the loop of `read_as_bytes`, run from any accumulator, is `Serial.readBytesIO` -/
theorem read_loop : ∀ (fuel : Nat) (rd : Rust.Reader) (acc : Arr) (buf : Array Nat), buf.size = 10 →
      rd.data.length / 10 + 1 ≤ fuel →
      ∃ (rd' : Rust.Reader) (acc' : Arr) (buf' : Array Nat),
        iter rstep fuel (none, rd, acc, buf) =
          .ok (some (toExcept (Serial.readBytesIO (rdOf rd) acc).1, rd'), rd', acc', buf') ∧
        rdOf rd' = (Serial.readBytesIO (rdOf rd) acc).2 ∧
        rd'.sp + rd'.script.length = rd.sp + rd.script.length := by
  intro fuel
  induction fuel with
  | zero => intro rd acc buf _ h; omega
  | succ fuel ih =>
    intro rd acc buf hb hf
    rw [iter_succ, sReadBytesIO_eq]
    obtain ⟨h1, h2, h3⟩ := readExact_repr rd buf
    rw [hb, ← recordLen_ten] at h1 h3
    simp only [rstep]
    rcases hy : Serial.readExact (rdOf rd) Gen.recordLen [] with ⟨sres, sr⟩
    rw [hy] at h1 h3
    cases sres with
    | ok bs =>
      obtain ⟨e1, e2, e3⟩ := h3
      simp only [e1]
      have hprog := (Serial.readExact_progress hy).1
      rw [rdOf_data_length, recordLen_ten] at hprog
      simp only at h1
      have hd : (Rust.readExact rd buf).2.1.data.length + 10 ≤ rd.data.length := by
        rw [← rdOf_data_length, h1]; exact hprog
      have hsz : (Rust.readExact rd buf).2.2.size = 10 := by rw [e3]; exact recordLen_ten
      obtain ⟨rd', acc', buf', i1, i2, i3⟩ := ih (Rust.readExact rd buf).2.1
        (acc.push (nodeOfBuf (Rust.readExact rd buf).2.2)) (Rust.readExact rd buf).2.2 hsz (by omega)
      have hdec : Serial.decodeNode bs = nodeOfBuf (Rust.readExact rd buf).2.2 := by
        rw [← e2]; exact decodeNode_eq _ hsz
      rw [h1] at i1 i2
      rw [hdec]
      exact ⟨rd', acc', buf', i1, i2, by omega⟩
    | eof =>
      obtain ⟨e1, e2⟩ := h3
      simp only [e1]
      exact ⟨_, _, _, rfl, h1, h2⟩
    | failed =>
      obtain ⟨e1, e2⟩ := h3
      simp only [e1]
      exact ⟨_, _, _, rfl, h1, h2⟩

/-- **read_as_bytes, translated code = hand model** for EVERY scripted reader (any data, any script) and every
    `fuel ≥ |data| / 10 + 1`: the call never panics (in particular the fuel is not exhausted); it returns `Ok(A)`
    iff `Serial.readBytesIO` returns `ok A`, and `Err` (kind `Other`: the scripted hard error) iff the model returns
    `err`; the reader is left in the state of the model -/
theorem Bdd_read_as_bytes_eq_model (fuel : Nat) (rd : Rust.Reader) (hf : rd.data.length / 10 + 1 ≤ fuel) :
    ∃ rd' : Rust.Reader,
      Algo2.Bdd_read_as_bytes fuel rd = .ok (toExcept (Serial.readBytesIO (rdOf rd) #[]).1, rd') ∧
      rdOf rd' = (Serial.readBytesIO (rdOf rd) #[]).2 ∧
      rd'.sp + rd'.script.length = rd.sp + rd.script.length := by
  unfold Algo2.Bdd_read_as_bytes
  simp only [forIn_range_eq_iter]
  rw [iter_congr_inv (fun s : RSt => s.2.2.2.size = 10) _ rstep (by
    intro s hs
    simp only [rstep]
    rcases hx : Rust.readExact s.2.1 s.2.2.2 with ⟨res, r1, b1⟩
    cases res with
    | error e => rfl
    | ok u =>
      have hsz : b1.size = 10 := by
        have := readExact_ok_size s.2.1 s.2.2.2 u (by rw [hx])
        rw [hx, hs] at this; exact this
      simp only [idx_of_lt b1 _ (by omega : 0 < b1.size), idx_of_lt b1 _ (by omega : 1 < b1.size),
        idx_of_lt b1 _ (by omega : 2 < b1.size), idx_of_lt b1 _ (by omega : 3 < b1.size),
        idx_of_lt b1 _ (by omega : 4 < b1.size), idx_of_lt b1 _ (by omega : 5 < b1.size),
        idx_of_lt b1 _ (by omega : 6 < b1.size), idx_of_lt b1 _ (by omega : 7 < b1.size),
        idx_of_lt b1 _ (by omega : 8 < b1.size), idx_of_lt b1 _ (by omega : 9 < b1.size), bind_ok, pure_eq, nodeOfBuf,
        getD_of_lt b1 _ (by omega : 0 < b1.size), getD_of_lt b1 _ (by omega : 1 < b1.size),
        getD_of_lt b1 _ (by omega : 2 < b1.size), getD_of_lt b1 _ (by omega : 3 < b1.size),
        getD_of_lt b1 _ (by omega : 4 < b1.size), getD_of_lt b1 _ (by omega : 5 < b1.size),
        getD_of_lt b1 _ (by omega : 6 < b1.size), getD_of_lt b1 _ (by omega : 7 < b1.size),
        getD_of_lt b1 _ (by omega : 8 < b1.size), getD_of_lt b1 _ (by omega : 9 < b1.size)])
    (fun s s' hs h => rstep_inv s s' hs h) fuel _ (by simp [Rust.vecRepeat])]
  obtain ⟨rd', acc', buf', h1, h2, h3⟩ := read_loop fuel rd #[] (Rust.vecRepeat 0 10) (by simp [Rust.vecRepeat]) hf
  rw [h1]
  exact ⟨rd', rfl, h2, h3⟩
end B.AlgoEq2Bytes


