import BddVerif.Lemmas.AlgoEq3TextDriver
/-! Axiom audit of the theorems "translated text serialisation (`Gen/Algo3.lean`) = hand model (`Model/Serial.lean`)". -/
open B.AlgoEq3Text

#print axioms toString_nat_toList
#print axioms parseUnsigned_eq
#print axioms splitChars_eq
#print axioms utf8Dec_eq
#print axioms lift_err_eq_model
#print axioms write_as_string_desugar
#print axioms Bdd_write_as_string_eq_model
#print axioms Bdd_write_as_string_accepting
#print axioms Bdd_write_as_string_vec
#print axioms Bdd_write_as_string_err_iff
#print axioms Bdd_fmt_eq_model
#print axioms Bdd_to_string_eq_model
#print axioms readToEndGo_repr
#print axioms readToString_repr
#print axioms recOf_rel
#print axioms read_as_string_desugar
#print axioms Bdd_read_as_string_eq_model
#print axioms Bdd_read_as_string_ok_iff
#print axioms Bdd_read_as_string_err_iff
#print axioms Bdd_read_as_string_never_panics
#print axioms Bdd_from_string_eq_model
#print axioms Bdd_from_string_ok
#print axioms Bdd_from_string_panics
#print axioms Bdd_from_string_to_string
#print axioms Bdd_write_as_string_driver
#print axioms Bdd_read_as_string_driver
#print axioms Bdd_read_as_string_slice
#print axioms nat_byte_artifact
