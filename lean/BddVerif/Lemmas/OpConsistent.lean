import BddVerif.Core.Sim
import BddVerif.Gen.OpTables
/-! The regenerated tables `or`, `and`, `imp` of `src/op_function.rs` are consistent with their
    connectives (in the `Prop` form needed by `applyWithFlip_eq_canon`). Re-checked whenever the
    tables are regenerated. -/
namespace B.Count

theorem or_consistent : Consistent Gen.or_ (fun x y => x || y) := by
  refine ⟨?_, ?_, ?_, ?_⟩
  · intro x y; cases x <;> cases y <;> rfl
  · intro x r h y; cases x <;> cases y <;> simp_all [Gen.or_]
  · intro y r h x; cases x <;> cases y <;> simp_all [Gen.or_]
  · intro r h; simp [Gen.or_] at h

theorem and_consistent : Consistent Gen.and_ (fun x y => x && y) := by
  refine ⟨?_, ?_, ?_, ?_⟩
  · intro x y; cases x <;> cases y <;> rfl
  · intro x r h y; cases x <;> cases y <;> simp_all [Gen.and_]
  · intro y r h x; cases x <;> cases y <;> simp_all [Gen.and_]
  · intro r h; simp [Gen.and_] at h

theorem imp_consistent : Consistent Gen.imp_ (fun x y => !x || y) := by
  refine ⟨?_, ?_, ?_, ?_⟩
  · intro x y; cases x <;> cases y <;> rfl
  · intro x r h y; cases x <;> cases y <;> simp_all [Gen.imp_]
  · intro y r h x; cases x <;> cases y <;> simp_all [Gen.imp_]
  · intro r h; simp [Gen.imp_] at h

end B.Count
