import BddVerif.Lemmas.AlgoEq3DotModel
import BddVerif.Lemmas.AlgoEq3DotUtf8
import BddVerif.Lemmas.AlgoEq2RenBase
import BddVerif.Props.C20
import BddVerif.Lemmas.Flip
/-!
# Translated `.dot` export (`Gen/Algo3.lean`, `src/_impl_bdd/_impl_export_dot.rs`) = hand model (`Model/Dot.lean`)

`write_bdd_as_dot`, `bdd_to_dot_string`, `Bdd::write_as_dot_string`, `Bdd::to_dot_string`. No fuel: the translated
functions have none. Only hypothesis on the Bdd beyond what the model itself tests: at most `2^32` nodes (the code
casts indices to `u32`; the model does not).

* `write_bdd_as_dot_eq_writeSeq` — model says `ok`: for EVERY scripted writer the translated function is the sequence
  of `write_all(..)?` calls on the pieces `dotPieces`, whose concatenation is the model's text (`dotPieces_bytes`);
* `write_bdd_as_dot_eq_model` — a writer without script (a `Vec<u8>`): `.ok (Ok(()), w ++ bytes of the model text)`;
* `write_bdd_as_dot_eq_model_ok` — a writer whose script has no fault: `Ok`, all bytes arrive;
* `write_bdd_as_dot_eq_model_io` — any writer: result, bytes and remaining script are those of `Dot.writeDotPieces`
  for the division `dotBytePieces` of the text (error propagation; `Props.C20.dot_write_faithful` applies);
* `write_bdd_as_dot_fail_first` — a hard error of the first `write` is returned, nothing is written;
* panics: `write_bdd_as_dot_empty`, `write_bdd_as_dot_mismatch` (any writer), `write_bdd_as_dot_panic` (model panics,
  writer without fault), `write_bdd_as_dot_bad` (model panics, any writer: panic or `Err`, with the exact formula);
* `bdd_to_dot_string_eq_model` / `Bdd_to_dot_string_eq_model` — `RelK` with `Dot.toDotString`, all inputs;
* chained with `Props/C20.lean`: `to_dot_string_translated_eval`.

FOUND AND REPAIRED (model vs code, invalid Bdds only): the first hand model `Dot.writeDotIO` panicked whenever the export
of `A` panics, whatever the sink does; the code (and its translation) returns the `Err` of a failing sink if the
failure comes before the node whose variable has no name. The model now follows the code (`discrepancy_example`).
-/
namespace B.AlgoEq3Dot
open B B.Gen B.AlgoEqUtil B.AlgoEq2Bytes B.AlgoEq2Ren
attribute [local instance 10000] Rust.monadOutcomeInline

/-- what the theorems need of the Bdd and the names: the node vector is non-empty and has at most `2^32` entries,
    there are as many names as variables, every decision node's variable has a name -/
structure DotOK (A : Arr) (names : Array String) : Prop where
  pos : 0 < A.size
  size : A.size ≤ 4294967296
  count : names.size = numVars A
  named : ∀ p ∈ Dot.innerPtrs A, Good A names p

theorem dotOK_of_model {A : Arr} {names : Array String} {zp : Bool} {text : String} (hs : A.size ≤ 4294967296)
    (ht : Dot.toDotString A names.toList zp = .ok text) : DotOK A names := by
  obtain ⟨h1, h2, h3⟩ := (dotStmts_ok_iff A names zp).1 (toDotString_ok ht).1
  exact ⟨h1, hs, h2, h3⟩

theorem DotOK.model {A : Arr} {names : Array String} (h : DotOK A names) (zp : Bool) :
    Dot.toDotString A names.toList zp = .ok (Dot.render (Dot.stmtsOf A names.toList zp)) := by
  unfold Dot.toDotString
  rw [(dotStmts_ok_iff A names zp).2 ⟨h.pos, h.count, h.named⟩]
  rfl

/-- a valid Bdd (`WFo`: what `validate()` accepts) with as many names as variables satisfies the hypotheses -/
theorem dotOK_of_wfo {A : Arr} {n : Nat} (hw : WFo A n) (hs : A.size ≤ 4294967296) (names : Array String)
    (hn : names.size = n) : DotOK A names := by
  have := Dot.dotStmts_ok hw names.toList (by simpa using hn) false
  obtain ⟨h1, h2, h3⟩ := (dotStmts_ok_iff A names false).1 this
  exact ⟨h1, hs, h2, h3⟩

/-! ## `write_bdd_as_dot` -/

/-- **every writer**: the translated function is the sequence of `write_all(..)?` calls on `dotPieces` -/
theorem write_bdd_as_dot_eq_writeSeq (w : Rust.Writer) (A : Arr) (names : Array String) (zp : Bool)
    (h : DotOK A names) :
    Algo3.write_bdd_as_dot w A names zp = .ok (writeSeq w (dotPieces A names zp)) := by
  rw [write_bdd_as_dot_desugar w A names zp h.pos h.size h.count, dotSkel_good w A names zp h.named]

/-- **a writer that cannot fail** (`script = []`: a `Vec<u8>`, a file that takes everything): `Ok(())`, and the sink
    has received exactly the UTF-8 bytes of the model's text -/
theorem write_bdd_as_dot_eq_model (w : Rust.Writer) (A : Arr) (names : Array String) (zp : Bool) (text : String)
    (hw : w.script = []) (hs : A.size ≤ 4294967296) (ht : Dot.toDotString A names.toList zp = .ok text) :
    Algo3.write_bdd_as_dot w A names zp = .ok (.ok (), { w with out := w.out ++ Rust.utf8Bytes text }) := by
  rw [write_bdd_as_dot_eq_writeSeq w A names zp (dotOK_of_model hs ht), writeSeq_plain _ w hw, dotPieces_bytes,
    (toDotString_ok ht).2]

/-- **a writer whose script has no fault** (any chunk sizes, any number of `Interrupted`): `Ok(())`, all bytes of the
    model's text arrive, the script is consumed consistently -/
theorem write_bdd_as_dot_eq_model_ok (w : Rust.Writer) (A : Arr) (names : Array String) (zp : Bool) (text : String)
    (hw : Serial.ScriptOk (w.script.map evOf)) (hs : A.size ≤ 4294967296)
    (ht : Dot.toDotString A names.toList zp = .ok text) :
    ∃ w', Algo3.write_bdd_as_dot w A names zp = .ok (.ok (), w') ∧ w'.out = w.out ++ Rust.utf8Bytes text ∧
      w'.sp + w'.script.length = w.sp + w.script.length := by
  obtain ⟨w', e, ho, hsp⟩ := writeSeq_scriptOk (dotPieces A names zp) w hw
  refine ⟨w', by rw [write_bdd_as_dot_eq_writeSeq w A names zp (dotOK_of_model hs ht), e], ?_, hsp⟩
  rw [ho, dotPieces_bytes, (toDotString_ok ht).2]

/-- **any writer** (error propagation): never a panic; `Ok` iff the model's `Dot.writeDotPieces` on the division
    `dotBytePieces` of the text says so (an `Err` is `WriteZero` or the hard error of the sink); the sink received
    exactly the model's bytes; the shim's script counter is consistent. `dotBytePieces_flatten`: the pieces are a
    division of `Dot.textBytes text`. -/
theorem write_bdd_as_dot_eq_model_io (w : Rust.Writer) (A : Arr) (names : Array String) (zp : Bool) (text : String)
    (hs : A.size ≤ 4294967296) (ht : Dot.toDotString A names.toList zp = .ok text) :
    ∃ (res : Except Rust.IoError Unit) (w' : Rust.Writer),
      Algo3.write_bdd_as_dot w A names zp = .ok (res, w') ∧
      RelWrite res (Dot.writeDotPieces (dotBytePieces A names zp) (w.script.map evOf)).1 ∧
      w'.out = w.out ++ ((Dot.writeDotPieces (dotBytePieces A names zp) (w.script.map evOf)).2.map UInt8.toNat).toArray ∧
      w'.sp + w'.script.length = w.sp + w.script.length ∧
      (dotBytePieces A names zp).flatten = Dot.textBytes text := by
  obtain ⟨taken, h1, h2, h3, _, h5, _, h7⟩ := writeSeq_repr (dotPieces A names zp) w
  refine ⟨(writeSeq w (dotPieces A names zp)).1, (writeSeq w (dotPieces A names zp)).2,
    write_bdd_as_dot_eq_writeSeq w A names zp (dotOK_of_model hs ht), h1, ?_, h5, ?_⟩
  · have e : (Dot.writeDotPieces (dotBytePieces A names zp) (w.script.map evOf)).2 = taken.map byteOf := h3
    rw [e, h2, map_toNat_byteOf]
    intro b hb
    exact dotPieces_lt A names zp b (h7.subset hb)
  · rw [dotBytePieces_flatten, (toDotString_ok ht).2]

/-- a hard error reported by the first `write` call ends the preamble at once -/
theorem prePieces_fail (w : Rust.Writer) (s : List Rust.IoEv) (A : Arr) (zp : Bool) (rest : List (Array Nat))
    (hw : w.script = .fail :: s) :
    writeSeq w (prePieces A zp ++ rest) = (.error ⟨.other⟩, { w with script := s, sp := w.sp + 1 }) := by
  have hne : (Rust.utf8Bytes "digraph G {\n").toList ≠ [] := by decide
  have e : Rust.writeAll w (Rust.utf8Bytes "digraph G {\n") =
      (.error ⟨.other⟩, { w with script := s, sp := w.sp + 1 }) := by
    unfold Rust.writeAll
    rw [go_step _ w _ hne]
    simp only [Rust.Writer.write, hw, reduceCtorEq, if_false]
  cases zp <;> simp only [prePieces, preStrs, List.map_cons, List.cons_append, writeSeq, e]

/-- a hard error reported by the first `write` call is returned at once: nothing reaches the sink -/
theorem write_bdd_as_dot_fail_first (w : Rust.Writer) (s : List Rust.IoEv) (A : Arr) (names : Array String)
    (zp : Bool) (hw : w.script = .fail :: s) (h : DotOK A names) :
    Algo3.write_bdd_as_dot w A names zp = .ok (.error ⟨.other⟩, { w with script := s, sp := w.sp + 1 }) := by
  rw [write_bdd_as_dot_eq_writeSeq w A names zp h, dotPieces_eq, List.append_assoc, prePieces_fail w s A zp _ hw]

/-! ### panics -/

/-- the model panics although the node vector is non-empty and the number of names is right: some decision node's
    variable has no name; then (any writer) the code writes everything up to that node and panics — unless one of
    these writes failed, whose `Err` is returned -/
theorem write_bdd_as_dot_bad (w : Rust.Writer) (A : Arr) (names : Array String) (zp : Bool) (h0 : 0 < A.size)
    (hs : A.size ≤ 4294967296) (hn : names.size = numVars A) (hb : ¬ ∀ p ∈ Dot.innerPtrs A, Good A names p) :
    ∃ good bad rest, Dot.innerPtrs A = good ++ bad :: rest ∧ (∀ p ∈ good, Good A names p) ∧ ¬ Good A names bad ∧
      Algo3.write_bdd_as_dot w A names zp =
        badRet (writeSeq w (prePieces A zp ++ good.flatMap (ptrPieces A names zp))) := by
  rcases first_bad A names (Dot.innerPtrs A) with h | ⟨good, bad, rest, h1, h2, h3⟩
  · exact absurd h hb
  · exact ⟨good, bad, rest, h1, h2, h3, by
      rw [write_bdd_as_dot_desugar w A names zp h0 hs hn, dotSkel_bad w A names zp good rest bad h1 h2 h3]⟩

/-- **the model panics ⇒ the translated function panics**, for every writer whose script has no fault (in
    particular for the `Vec<u8>` of `to_dot_string`) -/
theorem write_bdd_as_dot_panic (w : Rust.Writer) (A : Arr) (names : Array String) (zp : Bool) (m : String)
    (hw : Serial.ScriptOk (w.script.map evOf)) (hs : A.size ≤ 4294967296)
    (hp : Dot.toDotString A names.toList zp = .panic m) :
    ∃ m', Algo3.write_bdd_as_dot w A names zp = .panic m' := by
  by_cases h0 : A.size = 0
  · exact ⟨_, write_bdd_as_dot_empty w A names zp h0⟩
  have h0' : 0 < A.size := by omega
  by_cases hn : names.size = numVars A
  · by_cases hb : ∀ p ∈ Dot.innerPtrs A, Good A names p
    · have := DotOK.model ⟨h0', hs, hn, hb⟩ zp
      rw [hp] at this; cases this
    · obtain ⟨good, bad, rest, _, _, _, e⟩ := write_bdd_as_dot_bad w A names zp h0' hs hn hb
      obtain ⟨w', e', _⟩ := writeSeq_scriptOk (prePieces A zp ++ good.flatMap (ptrPieces A names zp)) w hw
      rw [e, e']
      exact ⟨_, rfl⟩
  · exact ⟨_, write_bdd_as_dot_mismatch w A names zp h0' hn⟩

/-- the model panics, ANY writer: the translated function panics or returns the `Err` of a failed write -/
theorem write_bdd_as_dot_panic_or_err (w : Rust.Writer) (A : Arr) (names : Array String) (zp : Bool) (m : String)
    (hs : A.size ≤ 4294967296) (hp : Dot.toDotString A names.toList zp = .panic m) :
    (∃ m', Algo3.write_bdd_as_dot w A names zp = .panic m') ∨
    (∃ e w', Algo3.write_bdd_as_dot w A names zp = .ok (.error e, w')) := by
  by_cases h0 : A.size = 0
  · exact .inl ⟨_, write_bdd_as_dot_empty w A names zp h0⟩
  have h0' : 0 < A.size := by omega
  by_cases hn : names.size = numVars A
  · by_cases hb : ∀ p ∈ Dot.innerPtrs A, Good A names p
    · have := DotOK.model ⟨h0', hs, hn, hb⟩ zp
      rw [hp] at this; cases this
    · obtain ⟨good, bad, rest, _, _, _, e⟩ := write_bdd_as_dot_bad w A names zp h0' hs hn hb
      rw [e]
      rcases writeSeq w (prePieces A zp ++ good.flatMap (ptrPieces A names zp)) with ⟨r, w'⟩
      cases r with
      | ok u => exact .inl ⟨_, rfl⟩
      | error e => exact .inr ⟨e, w', rfl⟩
  · exact .inl ⟨_, write_bdd_as_dot_mismatch w A names zp h0' hn⟩

/-- … and this also holds when some decision node's variable has no name: the `Err` comes before the panic. The hand
    model `Dot.writeDotIO` says `panic` here (see `discrepancy_example`). -/
theorem write_bdd_as_dot_fail_first_bad (w : Rust.Writer) (s : List Rust.IoEv) (A : Arr) (names : Array String)
    (zp : Bool) (hw : w.script = .fail :: s) (h0 : 0 < A.size) (hs : A.size ≤ 4294967296)
    (hn : names.size = numVars A) :
    Algo3.write_bdd_as_dot w A names zp = .ok (.error ⟨.other⟩, { w with script := s, sp := w.sp + 1 }) := by
  by_cases hb : ∀ p ∈ Dot.innerPtrs A, Good A names p
  · exact write_bdd_as_dot_fail_first w s A names zp hw ⟨h0, hs, hn, hb⟩
  · obtain ⟨good, bad, rest, _, _, _, e⟩ := write_bdd_as_dot_bad w A names zp h0 hs hn hb
    rw [e, prePieces_fail w s A zp _ hw]
    rfl

/-! ## `bdd_to_dot_string`, `Bdd::to_dot_string`, `Bdd::write_as_dot_string` -/

/-- **`bdd_to_dot_string` = `Dot.toDotString`** on all inputs with at most `2^32` nodes: the same text, or both
    panic (the two `expect`s of the Rust function never fire: a `Vec<u8>` does not fail and the bytes are UTF-8) -/
theorem bdd_to_dot_string_eq_model (A : Arr) (names : Array String) (zp : Bool) (hs : A.size ≤ 4294967296) :
    RelK (Algo3.bdd_to_dot_string A names zp) (Dot.toDotString A names.toList zp) := by
  unfold Algo3.bdd_to_dot_string
  dsimp only
  rcases toDotString_cases A names.toList zp with e | ⟨m, e⟩
  · rw [write_bdd_as_dot_eq_model (Rust.Writer.ofVec #[]) A names zp _ rfl hs e, e]
    simp only [bind_ok, Rust.unwrapR, Rust.Writer.ofVec, Array.empty_append, stringFromUtf8_utf8Bytes]
    exact .ok _
  · obtain ⟨m', e'⟩ := write_bdd_as_dot_panic (Rust.Writer.ofVec #[]) A names zp m
      (by intro ev hev; simp [Rust.Writer.ofVec] at hev) hs e
    rw [e', e]
    exact .panic _ _

theorem bdd_to_dot_string_ok (A : Arr) (names : Array String) (zp : Bool) (text : String) (hs : A.size ≤ 4294967296)
    (ht : Dot.toDotString A names.toList zp = .ok text) : Algo3.bdd_to_dot_string A names zp = .ok text :=
  (bdd_to_dot_string_eq_model A names zp hs).of_ok ht

/-- `Bdd::to_dot_string(variables, zero_pruned)` only passes `variables.var_names` on -/
theorem Bdd_to_dot_string_eq (A : Arr) (T : Nat × Array String × Std.HashMap String Nat) (zp : Bool) :
    Algo3.Bdd_to_dot_string A T zp = Algo3.bdd_to_dot_string A T.2.1 zp := by
  unfold Algo3.Bdd_to_dot_string
  cases Algo3.bdd_to_dot_string A T.2.1 zp <;> rfl

theorem Bdd_to_dot_string_eq_model (A : Arr) (T : Nat × Array String × Std.HashMap String Nat) (zp : Bool)
    (hs : A.size ≤ 4294967296) :
    RelK (Algo3.Bdd_to_dot_string A T zp) (Dot.toDotString A T.2.1.toList zp) := by
  rw [Bdd_to_dot_string_eq]; exact bdd_to_dot_string_eq_model A T.2.1 zp hs

/-- `Bdd::write_as_dot_string(output, variables, zero_pruned)` is `write_bdd_as_dot` on `variables.var_names` — all
    theorems about `write_bdd_as_dot` above apply verbatim -/
theorem Bdd_write_as_dot_string_eq (A : Arr) (w : Rust.Writer) (T : Nat × Array String × Std.HashMap String Nat)
    (zp : Bool) : Algo3.Bdd_write_as_dot_string A w T zp = Algo3.write_bdd_as_dot w A T.2.1 zp := by
  unfold Algo3.Bdd_write_as_dot_string
  rcases h : Algo3.write_bdd_as_dot w A T.2.1 zp with ⟨r, w'⟩ | m | m <;> simp only [h] <;> rfl

theorem Bdd_write_as_dot_string_eq_model (A : Arr) (w : Rust.Writer) (T : Nat × Array String × Std.HashMap String Nat)
    (zp : Bool) (text : String) (hw : w.script = []) (hs : A.size ≤ 4294967296)
    (ht : Dot.toDotString A T.2.1.toList zp = .ok text) :
    Algo3.Bdd_write_as_dot_string A w T zp = .ok (.ok (), { w with out := w.out ++ Rust.utf8Bytes text }) := by
  rw [Bdd_write_as_dot_string_eq]; exact write_bdd_as_dot_eq_model w A T.2.1 zp text hw hs ht

/-! ## chained with `Props/C20.lean` -/

/-- C20 for the TRANSLATED `to_dot_string`: for a valid Bdd (at most `2^32` nodes) and names without `"` / line feed,
    the translated function returns a text that can be read back, and the graph read back evaluates like the Bdd -/
theorem to_dot_string_translated_eval {A : Arr} {n : Nat} (hw : WFo A n) (hs : A.size ≤ 4294967296)
    (T : Nat × Array String × Std.HashMap String Nat) (hn : T.2.1.size = n)
    (hnames : ∀ s ∈ T.2.1.toList, Dot.SafeLabel s ∧ Dot.LineLabel s) (zp : Bool) :
    ∃ text S, Algo3.Bdd_to_dot_string A T zp = .ok text ∧ Dot.parseDot text = some S ∧
      ∀ val, Dot.evalDot S val (n + 1) = evW A n (fun x => val (T.2.1.toList[x]?.getD "")) (root A) := by
  obtain ⟨text, S, h1, h2, h3⟩ := Props.C20.dot_text_eval hw T.2.1.toList (by simpa using hn) hnames zp
  exact ⟨text, S, (Bdd_to_dot_string_eq_model A T zp hs).of_ok h1, h2, h3⟩

/-! ## canonical Bdds satisfy the hypotheses -/

/-- the canonical Bdd of a function of `n` variables, with `n` names: `DotOK` (the size bound is `2^n + 1 ≤ 2^32`
    for `n ≤ 31`, see `AlgoEq3DotCanon.lean`) -/
theorem dotOK_canon (n : Nat) (f : (Nat → Bool) → Bool) (hdep : Lim.Dep n f) (hs : (canon n f).size ≤ 4294967296)
    (names : Array String) (hn : names.size = n) : DotOK (canon n f) names :=
  dotOK_of_wfo (Lim.canon_wfo n f hdep) hs names hn

/-! ## non-vacuity -/

/-- `x0 ∧ x1` in canonical form -/
example : DotOK (canon 2 (fun v => v 0 && v 1)) #["x", "y"] :=
  dotOK_of_wfo (n := 2) (wfoB_sound (by decide)) (by decide) _ rfl

/-- the Bdd of `Props/C20.lean` (`x1 ∧ ¬x2` over 3 variables) -/
example : DotOK Props.C20.exA #["a", "b b", "é"] :=
  dotOK_of_wfo Props.C20.exA_wf (by decide) _ rfl

/-- the GENERATED `write_bdd_as_dot` on a sink that takes 7 bytes per call and interrupts: `Ok`, the whole text -/
example : ∃ w', Algo3.write_bdd_as_dot { script := [.give 7, .interrupted, .give 1, .interrupted, .give 4096] }
      Props.C20.exA #["a", "b b", "é"] true = .ok (.ok (), w') ∧
    w'.out = Rust.utf8Bytes (Dot.render (Dot.stmtsOf Props.C20.exA ["a", "b b", "é"] true)) := by
  have hok : DotOK Props.C20.exA #["a", "b b", "é"] := dotOK_of_wfo Props.C20.exA_wf (by decide) _ rfl
  obtain ⟨w', h1, h2, _⟩ := write_bdd_as_dot_eq_model_ok
    { script := [.give 7, .interrupted, .give 1, .interrupted, .give 4096] } Props.C20.exA #["a", "b b", "é"] true _
    (by intro e he; simp [evOf] at he; rcases he with rfl | rfl | rfl | rfl | rfl <;> exact ⟨by simp, by simp⟩)
    (by decide) (hok.model true)
  exact ⟨w', h1, by simpa using h2⟩

/-- an INVALID Bdd: one variable, but node 2 decides on variable 5 -/
def badA : Arr := #[⟨1, 0, 0⟩, ⟨1, 1, 1⟩, ⟨5, 0, 1⟩]

/-- the sink fails at its first `write` on an INVALID Bdd: the translated code — like the Rust code — returns the `Err`,
    and so does the hand model `Dot.writeDotIO` (an earlier version of the model rendered the whole text first and
    panicked here; this equivalence work found it and the model was made exact). -/
theorem discrepancy_example :
    Dot.writeDotIO badA ["x"] false [.fail] = .ok (false, []) ∧
    Algo3.write_bdd_as_dot { script := [.fail] } badA #["x"] false =
      .ok (.error ⟨.other⟩, { script := [], sp := 1 }) := by
  constructor
  · exact Dot.writeDotIO_fail_first _ _ _ _ (by decide) (by decide)
  · exact write_bdd_as_dot_fail_first_bad { script := [.fail] } [] badA #["x"] false rfl (by decide) (by decide)
      (by decide)

/-- on a sink that does not fail both panic -/
example : (∃ m, Dot.toDotString badA ["x"] false = .panic m) ∧
    ∃ m, Algo3.bdd_to_dot_string badA #["x"] false = .panic m := by
  have h : Dot.toDotString badA (#["x"] : Array String).toList false = .panic "index out of bounds: var_names[var]" :=
    rfl
  exact ⟨⟨_, h⟩, (bdd_to_dot_string_eq_model badA #["x"] false (by decide)).of_panic h⟩

end B.AlgoEq3Dot
