import BddVerif.Lemmas.AlgoEqApplyModel
import BddVerif.Lemmas.AlgoEqTernaryDesugar
/-!
Equivalence "translated Rust = hand-written model" for `ternary_apply`, part 2: facts about the recursive model
`applyRec3` alone (cf. Lemmas/AlgoEqApplyModel.lean).
-/
namespace B.AlgoEqT
open B Std B.AlgoEqA

/-- level of a task: the decision variable -/
def lv3 (Γ : Ctx3) (a b c : Nat) : Nat := min (varOf Γ.A Γ.n a) (min (varOf Γ.B Γ.n b) (varOf Γ.C Γ.n c))

/-- operands well formed by level, table total on triples of terminals -/
structure COk3 (Γ : Ctx3) : Prop where
  wfA : WFo Γ.A Γ.n
  wfB : WFo Γ.B Γ.n
  wfC : WFo Γ.C Γ.n
  tot : ∀ x y z, Γ.op (some x) (some y) (some z) ≠ none

/-- entries of `finished` never change; new keys are in range and have level at least `m` -/
def Frame3 (Γ : Ctx3) (m : Nat) (s s' : St3) : Prop :=
  ∀ a b c : Nat, s'.finished[(a, b, c)]? = s.finished[(a, b, c)]? ∨
    (s.finished[(a, b, c)]? = none ∧ a < Γ.A.size ∧ b < Γ.B.size ∧ c < Γ.C.size ∧ m ≤ lv3 Γ a b c)

theorem Frame3.refl (Γ : Ctx3) (m : Nat) (s : St3) : Frame3 Γ m s s := fun _ _ _ => Or.inl rfl

theorem Frame3.mono {Γ : Ctx3} {m m' : Nat} {s s' : St3} (h : Frame3 Γ m s s') (hm : m' ≤ m) :
    Frame3 Γ m' s s' := by
  intro a b c
  rcases h a b c with h | ⟨h1, h2, h3, h4, h5⟩
  · exact Or.inl h
  · exact Or.inr ⟨h1, h2, h3, h4, by omega⟩

theorem Frame3.trans {Γ : Ctx3} {m : Nat} {s1 s2 s3 : St3} (h12 : Frame3 Γ m s1 s2) (h23 : Frame3 Γ m s2 s3) :
    Frame3 Γ m s1 s3 := by
  intro a b c
  rcases h23 a b c with h | ⟨h1, h2, h3, h4, h5⟩
  · rcases h12 a b c with h' | h'
    · exact Or.inl (h.trans h')
    · exact Or.inr h'
  · rcases h12 a b c with h' | h'
    · exact Or.inr ⟨by rw [← h']; exact h1, h2, h3, h4, h5⟩
    · exact Or.inr h'

theorem Frame3.below {Γ : Ctx3} {m : Nat} {s s' : St3} (h : Frame3 Γ m s s') (a b c : Nat)
    (hlt : lv3 Γ a b c < m) : s'.finished[(a, b, c)]? = s.finished[(a, b, c)]? := by
  rcases h a b c with h | ⟨_, _, _, _, h4⟩
  · exact h
  · omega

theorem Frame3.some {Γ : Ctx3} {m : Nat} {s s' : St3} (h : Frame3 Γ m s s') (a b c p : Nat)
    (hp : s.finished[(a, b, c)]? = some p) : s'.finished[(a, b, c)]? = some p := by
  rcases h a b c with h | ⟨h1, _⟩
  · rw [h, hp]
  · rw [hp] at h1; cases h1

structure Grow3 (s s' : St3) : Prop where
  res : s.res.size ≤ s'.res.size
  fin : s.finished.size ≤ s'.finished.size
  bal : s'.res.size + s.finished.size ≤ s.res.size + s'.finished.size

theorem Grow3.refl (s : St3) : Grow3 s s := ⟨Nat.le_refl _, Nat.le_refl _, Nat.le_refl _⟩
theorem Grow3.trans {s1 s2 s3 : St3} (h12 : Grow3 s1 s2) (h23 : Grow3 s2 s3) : Grow3 s1 s3 :=
  ⟨Nat.le_trans h12.res h23.res, Nat.le_trans h12.fin h23.fin, by have := h12.bal; have := h23.bal; omega⟩

theorem look3_frame {Γ : Ctx3} {m : Nat} {s s' : St3} (h : Frame3 Γ m s s') (c : Task3) (p : Nat)
    (hp : look3 Γ.op s.finished c = some p) : look3 Γ.op s'.finished c = some p := by
  unfold look3 at hp ⊢
  cases hop : Γ.op (asBool c.1) (asBool c.2.1) (asBool c.2.2) with
  | some b => rw [hop] at hp; exact hp
  | none =>
    rw [hop] at hp
    simp only at hp ⊢
    exact h.some c.1 c.2.1 c.2.2 p hp

/-! ### `finish3` -/

theorem finish3_finished (s : St3) (t : Task3) (d a b : Nat) (fl : Bool) :
    (finish3 s t d a b fl).1.finished = s.finished.insert t (finish3 s t d a b fl).2 := by
  unfold finish3 findOrPush3
  by_cases h1 : a = 1 ∨ b = 1 <;> by_cases h2 : a = b <;> simp only [h1, h2, if_true, if_false]
  all_goals (split <;> rfl)

theorem finish3_res (s : St3) (t : Task3) (d a b : Nat) (fl : Bool) :
    s.res.size ≤ (finish3 s t d a b fl).1.res.size ∧ (finish3 s t d a b fl).1.res.size ≤ s.res.size + 1 := by
  unfold finish3 findOrPush3
  by_cases h1 : a = 1 ∨ b = 1 <;> by_cases h2 : a = b <;> simp only [h1, h2, if_true, if_false]
  all_goals first
    | exact ⟨Nat.le_refl _, Nat.le_succ _⟩
    | (split <;> simp)

theorem finish3_grow (s : St3) (t : Task3) (d a b : Nat) (fl : Bool) (hn : s.finished[t]? = none) :
    Grow3 s (finish3 s t d a b fl).1 ∧ (finish3 s t d a b fl).1.finished.size = s.finished.size + 1 := by
  have hf := finish3_finished s t d a b fl
  have hr := finish3_res s t d a b fl
  have hmem : ¬ t ∈ s.finished := by
    rw [HashMap.mem_iff_isSome_getElem?, hn]; simp
  have hsz : (finish3 s t d a b fl).1.finished.size = s.finished.size + 1 := by
    rw [hf, HashMap.size_insert]; simp [hmem]
  exact ⟨⟨hr.1, by omega, by omega⟩, hsz⟩

/-! ### contracts of `solve3` and `applyRec3` -/

structure PostS3 (Γ : Ctx3) (m : Nat) (s : St3) (c : Task3) (o : St3 × Nat) : Prop where
  known : look3 Γ.op o.1.finished c = some o.2
  frame : Frame3 Γ (m + 1) s o.1
  grow : Grow3 s o.1

structure Post3 (Γ : Ctx3) (s : St3) (a b c : Nat) (o : St3 × Nat) : Prop where
  fin : o.1.finished[(a, b, c)]? = some o.2
  frame : Frame3 Γ (lv3 Γ a b c) s o.1
  grow : Grow3 s o.1

def ChildOK3 (Γ : Ctx3) (m f' : Nat) (c : Task3) : Prop :=
  Γ.op (asBool c.1) (asBool c.2.1) (asBool c.2.2) ≠ none ∨
  (c.1 < Γ.A.size ∧ c.2.1 < Γ.B.size ∧ c.2.2 < Γ.C.size ∧ Γ.n - lv3 Γ c.1 c.2.1 c.2.2 < f' ∧
    m < lv3 Γ c.1 c.2.1 c.2.2)

theorem lv3_le (Γ : Ctx3) (ok : COk3 Γ) (a b c : Nat) : lv3 Γ a b c ≤ Γ.n := by
  have := ok.wfA.varOf_le a; unfold lv3; omega

theorem kids_childOK3 (Γ : Ctx3) (ok : COk3 Γ) (a b c f' : Nat) (ha : a < Γ.A.size) (hb : b < Γ.B.size)
    (hc : c < Γ.C.size) (hf : Γ.n - lv3 Γ a b c < f' + 1) (x : Bool) :
    ChildOK3 Γ (lv3 Γ a b c) f' (sel x (kids Γ.A a (lv3 Γ a b c) Γ.fa), sel x (kids Γ.B b (lv3 Γ a b c) Γ.fb),
      sel x (kids Γ.C c (lv3 Γ a b c) Γ.fc)) := by
  have hle := lv3_le Γ ok a b c
  by_cases hdn : lv3 Γ a b c < Γ.n
  · right
    have hda : lv3 Γ a b c ≤ varOf Γ.A Γ.n a := by unfold lv3; omega
    have hdb : lv3 Γ a b c ≤ varOf Γ.B Γ.n b := by unfold lv3; omega
    have hdc : lv3 Γ a b c ≤ varOf Γ.C Γ.n c := by unfold lv3; omega
    have KA := evW_kids ok.wfA a ha (lv3 Γ a b c) hda hdn Γ.fa (fun _ => false) x
    have KB := evW_kids ok.wfB b hb (lv3 Γ a b c) hdb hdn Γ.fb (fun _ => false) x
    have KC := evW_kids ok.wfC c hc (lv3 Γ a b c) hdc hdn Γ.fc (fun _ => false) x
    refine ⟨KA.2.1, KB.2.1, KC.2.1, ?_, ?_⟩
    · have h1 := KA.2.2; have h2 := KB.2.2; have h3 := KC.2.2
      dsimp only
      generalize lv3 Γ a b c = d at *
      unfold lv3
      omega
    · have h1 := KA.2.2; have h2 := KB.2.2; have h3 := KC.2.2
      dsimp only
      generalize lv3 Γ a b c = d at *
      unfold lv3
      omega
  · left
    have hde : lv3 Γ a b c = Γ.n := by omega
    have hva := ok.wfA.varOf_le a
    have hvb := ok.wfB.varOf_le b
    have hvc := ok.wfC.varOf_le c
    have ha2 := ok.wfA.terminal_of_varOf a ha (by unfold lv3 at hde; omega)
    have hb2 := ok.wfB.terminal_of_varOf b hb (by unfold lv3 at hde; omega)
    have hc2 := ok.wfC.terminal_of_varOf c hc (by unfold lv3 at hde; omega)
    rw [kids_terminal ok.wfA a ha ha2, kids_terminal ok.wfB b hb hb2, kids_terminal ok.wfC c hc hc2]
    obtain ⟨u, hu⟩ := asBool_lt2 a ha2
    obtain ⟨v, hv⟩ := asBool_lt2 b hb2
    obtain ⟨w, hw⟩ := asBool_lt2 c hc2
    have : sel x (a, a) = a := by cases x <;> rfl
    have : sel x (b, b) = b := by cases x <;> rfl
    have : sel x (c, c) = c := by cases x <;> rfl
    simp only [*]
    exact ok.tot u v w

theorem solve3_post (Γ : Ctx3) (m f' : Nat) (c : Task3) (s : St3)
    (ih : ∀ a b c s, a < Γ.A.size → b < Γ.B.size → c < Γ.C.size → Γ.n - lv3 Γ a b c < f' →
      Post3 Γ s a b c (applyRec3 Γ f' a b c s))
    (hc : ChildOK3 Γ m f' c) : PostS3 Γ m s c (solve3 Γ.op (applyRec3 Γ f') c.1 c.2.1 c.2.2 s) := by
  unfold solve3
  cases hop : Γ.op (asBool c.1) (asBool c.2.1) (asBool c.2.2) with
  | some b =>
    refine ⟨?_, Frame3.refl _ _ _, Grow3.refl _⟩
    simp only [look3, hop]
  | none =>
    rcases hc with hc | ⟨h1, h2, h3, h4, h5⟩
    · exact absurd hop hc
    · have P := ih c.1 c.2.1 c.2.2 s h1 h2 h3 h4
      refine ⟨?_, P.frame.mono (by omega), P.grow⟩
      simp only [look3, hop]
      exact P.fin

theorem solve3_known (Γ : Ctx3) (m f' : Nat) (c : Task3) (s : St3) (p : Nat)
    (hc : ChildOK3 Γ m f' c) (hp : look3 Γ.op s.finished c = some p) :
    solve3 Γ.op (applyRec3 Γ f') c.1 c.2.1 c.2.2 s = (s, p) := by
  unfold solve3
  unfold look3 at hp
  cases hop : Γ.op (asBool c.1) (asBool c.2.1) (asBool c.2.2) with
  | some b => rw [hop] at hp; simp only at hp ⊢; cases hp; rfl
  | none =>
    rw [hop] at hp
    simp only at hp ⊢
    rcases hc with hc | ⟨_, _, _, h3, _⟩
    · exact absurd hop hc
    · obtain ⟨f'', rfl⟩ : ∃ f'', f' = f'' + 1 := ⟨f' - 1, by omega⟩
      show applyStep3 Γ (applyRec3 Γ f'') c.1 c.2.1 c.2.2 s = (s, p)
      unfold applyStep3
      have : s.finished[(c.1, c.2.1, c.2.2)]? = some p := hp
      simp only [this]

theorem lv3_nodeAt (Γ : Ctx3) (ok : COk3 Γ) (a b c : Nat) (ha : a < Γ.A.size) (hb : b < Γ.B.size)
    (hc : c < Γ.C.size) :
    min (nodeAt Γ.A a).var (min (nodeAt Γ.B b).var (nodeAt Γ.C c).var) = lv3 Γ a b c := by
  rw [nodeAt_var ok.wfA a ha, nodeAt_var ok.wfB b hb, nodeAt_var ok.wfC c hc]; rfl

theorem parent_none3 {Γ : Ctx3} {s s1 s2 : St3} {a b c : Nat} (h1 : Frame3 Γ (lv3 Γ a b c + 1) s s1)
    (h2 : Frame3 Γ (lv3 Γ a b c + 1) s1 s2) (hn : s.finished[(a, b, c)]? = none) :
    s2.finished[(a, b, c)]? = none := by
  rw [h2.below a b c (by omega), h1.below a b c (by omega)]; exact hn

theorem finish3_post (Γ : Ctx3) (s s1 s2 : St3) (a b c : Nat) (ha : a < Γ.A.size) (hb : b < Γ.B.size)
    (hc : c < Γ.C.size) (d x y : Nat) (fl : Bool) (hn : s.finished[(a, b, c)]? = none)
    (F1 : Frame3 Γ (lv3 Γ a b c + 1) s s1) (F2 : Frame3 Γ (lv3 Γ a b c + 1) s1 s2)
    (G1 : Grow3 s s1) (G2 : Grow3 s1 s2) :
    Post3 Γ s a b c (finish3 s2 (a, b, c) d x y fl) := by
  have hn2 := parent_none3 F1 F2 hn
  have hf := finish3_finished s2 (a, b, c) d x y fl
  obtain ⟨G3, _⟩ := finish3_grow s2 (a, b, c) d x y fl hn2
  refine ⟨?_, ?_, (G1.trans G2).trans G3⟩
  · rw [hf, HashMap.getElem?_insert]; simp
  · intro u v w
    by_cases hxy : (a, b, c) = (u, v, w)
    · cases hxy
      exact Or.inr ⟨hn, ha, hb, hc, Nat.le_refl _⟩
    · have hne : ((a, b, c) == (u, v, w)) = false := by simp only [beq_eq_false_iff_ne, ne_eq]; exact hxy
      have : (finish3 s2 (a, b, c) d x y fl).1.finished[(u, v, w)]? = s2.finished[(u, v, w)]? := by
        rw [hf, HashMap.getElem?_insert, hne]; simp
      rw [this]
      exact ((F1.trans F2).mono (Nat.le_succ _)) u v w

theorem applyRec3_post (Γ : Ctx3) (ok : COk3 Γ) :
    ∀ f a b c s, a < Γ.A.size → b < Γ.B.size → c < Γ.C.size → Γ.n - lv3 Γ a b c < f →
      Post3 Γ s a b c (applyRec3 Γ f a b c s) := by
  intro f
  induction f with
  | zero => intro a b c s _ _ _ h; omega
  | succ f' ih =>
    intro a b c s ha hb hc hf
    show Post3 Γ s a b c (applyStep3 Γ (applyRec3 Γ f') a b c s)
    unfold applyStep3
    cases hfin : s.finished[(a, b, c)]? with
    | some p => exact ⟨hfin, Frame3.refl _ _ _, Grow3.refl _⟩
    | none =>
      simp only
      rw [lv3_nodeAt Γ ok a b c ha hb hc]
      have CT := kids_childOK3 Γ ok a b c f' ha hb hc hf true
      have CF := kids_childOK3 Γ ok a b c f' ha hb hc hf false
      simp only [sel_true, sel_false] at CT CF
      by_cases hfo : Γ.fo = some (lv3 Γ a b c)
      · simp only [hfo, if_true]
        have P1 := solve3_post Γ _ f' _ s ih CF
        have P2 := solve3_post Γ _ f' _ (solve3 Γ.op (applyRec3 Γ f') (kids Γ.A a (lv3 Γ a b c) Γ.fa).1
          (kids Γ.B b (lv3 Γ a b c) Γ.fb).1 (kids Γ.C c (lv3 Γ a b c) Γ.fc).1 s).1 ih CT
        exact finish3_post Γ s _ _ a b c ha hb hc _ _ _ _ hfin P1.frame P2.frame P1.grow P2.grow
      · simp only [hfo, if_false]
        have P1 := solve3_post Γ _ f' _ s ih CT
        have P2 := solve3_post Γ _ f' _ (solve3 Γ.op (applyRec3 Γ f') (kids Γ.A a (lv3 Γ a b c) Γ.fa).2
          (kids Γ.B b (lv3 Γ a b c) Γ.fb).2 (kids Γ.C c (lv3 Γ a b c) Γ.fc).2 s).1 ih CF
        exact finish3_post Γ s _ _ a b c ha hb hc _ _ _ _ hfin P1.frame P2.frame P1.grow P2.grow

/-! ### extensional equality of states -/

structure EqSt3 (s s' : St3) : Prop where
  res : s.res = s'.res
  ne : s.nonEmpty = s'.nonEmpty
  ex : ∀ k : Node, s.existing[k]? = s'.existing[k]?
  fin : ∀ k : Task3, s.finished[k]? = s'.finished[k]?

theorem finish3_eqSt (s s' : St3) (h : EqSt3 s s') (t : Task3) (d a b : Nat) (fl : Bool) :
    EqSt3 (finish3 s t d a b fl).1 (finish3 s' t d a b fl).1 ∧
      (finish3 s t d a b fl).2 = (finish3 s' t d a b fl).2 := by
  obtain ⟨res, ex, fin, ne⟩ := s
  obtain ⟨res', ex', fin', ne'⟩ := s'
  obtain ⟨h1, h2, h3, h4⟩ := h
  simp only at h1 h2 h3 h4
  subst h1; subst h2
  unfold finish3 findOrPush3
  generalize (if fl = true then (⟨d, b, a⟩ : Node) else ⟨d, a, b⟩) = node
  by_cases hf : a = 1 ∨ b = 1
  · simp only [hf, if_true]
    by_cases hab : a = b
    · simp only [hab, if_true]
      exact ⟨⟨rfl, rfl, h3, fun k => by simp only [HashMap.getElem?_insert, h4]⟩, trivial⟩
    · simp only [hab, if_false]
      rw [← h3 node]
      cases ex[node]? with
      | some i => exact ⟨⟨rfl, rfl, h3, fun k => by simp only [HashMap.getElem?_insert, h4]⟩, rfl⟩
      | none =>
        exact ⟨⟨rfl, rfl, fun k => by simp only [HashMap.getElem?_insert, h3],
          fun k => by simp only [HashMap.getElem?_insert, h4]⟩, rfl⟩
  · simp only [hf, if_false]
    by_cases hab : a = b
    · simp only [hab, if_true]
      exact ⟨⟨rfl, rfl, h3, fun k => by simp only [HashMap.getElem?_insert, h4]⟩, trivial⟩
    · simp only [hab, if_false]
      rw [← h3 node]
      cases ex[node]? with
      | some i => exact ⟨⟨rfl, rfl, h3, fun k => by simp only [HashMap.getElem?_insert, h4]⟩, rfl⟩
      | none =>
        exact ⟨⟨rfl, rfl, fun k => by simp only [HashMap.getElem?_insert, h3],
          fun k => by simp only [HashMap.getElem?_insert, h4]⟩, rfl⟩

theorem applyRec3_eqSt (Γ : Ctx3) : ∀ f a b c s s', EqSt3 s s' →
    EqSt3 (applyRec3 Γ f a b c s).1 (applyRec3 Γ f a b c s').1 ∧
      (applyRec3 Γ f a b c s).2 = (applyRec3 Γ f a b c s').2 := by
  intro f
  induction f with
  | zero => intro a b c s s' h; exact ⟨h, rfl⟩
  | succ f' ih =>
    have hsolve : ∀ a b c s s', EqSt3 s s' →
        EqSt3 (solve3 Γ.op (applyRec3 Γ f') a b c s).1 (solve3 Γ.op (applyRec3 Γ f') a b c s').1 ∧
        (solve3 Γ.op (applyRec3 Γ f') a b c s).2 = (solve3 Γ.op (applyRec3 Γ f') a b c s').2 := by
      intro a b c s s' h
      unfold solve3
      cases Γ.op (asBool a) (asBool b) (asBool c) with
      | some r => exact ⟨h, rfl⟩
      | none => exact ih a b c s s' h
    intro a b c s s' h
    show EqSt3 (applyStep3 Γ (applyRec3 Γ f') a b c s).1 (applyStep3 Γ (applyRec3 Γ f') a b c s').1 ∧
      (applyStep3 Γ (applyRec3 Γ f') a b c s).2 = (applyStep3 Γ (applyRec3 Γ f') a b c s').2
    unfold applyStep3
    rw [← h.fin (a, b, c)]
    cases s.finished[(a, b, c)]? with
    | some p => exact ⟨h, rfl⟩
    | none =>
      simp only
      generalize min (nodeAt Γ.A a).var (min (nodeAt Γ.B b).var (nodeAt Γ.C c).var) = d
      split
      · have E1 := hsolve (kids Γ.A a d Γ.fa).1 (kids Γ.B b d Γ.fb).1 (kids Γ.C c d Γ.fc).1 s s' h
        have E2 := hsolve (kids Γ.A a d Γ.fa).2 (kids Γ.B b d Γ.fb).2 (kids Γ.C c d Γ.fc).2 _ _ E1.1
        rw [E1.2, E2.2]
        exact finish3_eqSt _ _ E2.1 _ _ _ _ _
      · have E1 := hsolve (kids Γ.A a d Γ.fa).2 (kids Γ.B b d Γ.fb).2 (kids Γ.C c d Γ.fc).2 s s' h
        have E2 := hsolve (kids Γ.A a d Γ.fa).1 (kids Γ.B b d Γ.fb).1 (kids Γ.C c d Γ.fc).1 _ _ E1.1
        rw [E1.2, E2.2]
        exact finish3_eqSt _ _ E2.1 _ _ _ _ _

end B.AlgoEqT
