import BddVerif.Lemmas.Rename
import BddVerif.Drive.Util
/-! The common shape of every accepted result of `set_num_vars`, `rename_variables`, `rename_variable`
    and `transfer_from`: `mapVars g (setTerm m b)` — terminals relabelled with the new variable count,
    decision variables rewritten by a map that is strictly monotone on the support. -/
namespace B.Ren
open B B.Drive

theorem size_setTerm (m : Nat) (A : Arr) : (setTerm m A).size = A.size := by simp [setTerm]

theorem getElem?_setTerm_lt (m : Nat) (A : Arr) (p : Nat) (hp : p < 2) :
    (setTerm m A)[p]? = A[p]?.map (fun nd => { nd with var := m }) := by
  simp [setTerm, Array.getElem?_mapIdx, hp]

theorem getElem?_setTerm_ge (m : Nat) (A : Arr) (p : Nat) (hp : 2 ≤ p) : (setTerm m A)[p]? = A[p]? := by
  have : ¬ p < 2 := by omega
  simp [setTerm, Array.getElem?_mapIdx, this]

theorem supportSet_setTerm (m : Nat) (A : Arr) : supportSet (setTerm m A) = supportSet A := by
  unfold supportSet
  congr 2
  apply List.ext_getElem?
  intro i
  rw [List.getElem?_drop, List.getElem?_drop, Array.getElem?_toList, Array.getElem?_toList,
    getElem?_setTerm_ge m A (2 + i) (by omega)]

theorem root_setTerm (m : Nat) (A : Arr) : root (setTerm m A) = root A := by simp [root, size_setTerm]

theorem numVars_setTerm (m : Nat) (A : Arr) (h : 0 < A.size) : numVars (setTerm m A) = m := by
  have : A[0]? = some A[0] := by simp [h]
  simp [numVars, getElem?_setTerm_lt m A 0 (by omega), this]

/-- evaluation never reads the two terminal nodes -/
theorem evalF_setTerm (m : Nat) (A : Arr) (v : Nat → Bool) :
    ∀ f p, evalF (setTerm m A) v f p = evalF A v f p := by
  intro f
  induction f with
  | zero =>
    intro p
    match p with
    | 0 => simp [evalF]
    | 1 => simp [evalF]
    | p + 2 => simp [evalF]
  | succ f ih =>
    intro p
    match p with
    | 0 => simp [evalF]
    | 1 => simp [evalF]
    | p + 2 =>
      simp only [evalF]
      rw [getElem?_setTerm_ge m A (p + 2) (by omega)]
      cases h : A[p + 2]? with
      | none => rfl
      | some nd => exact ih _

theorem varOf_setTerm (m : Nat) (A : Arr) (n p : Nat) (hp : p < A.size) :
    varOf (setTerm m A) m p = if p < 2 then m else varOf A n p := by
  by_cases h2 : p < 2
  · simp [varOf, h2]
  · have : A[p]? = some A[p] := by simp [hp]
    simp [varOf, h2, getElem?_setTerm_ge m A p (by omega), this]

/-- changing the variable count to a value above every used variable keeps validity -/
theorem wfo_setTerm {A : Arr} {n : Nat} (m : Nat) (h : WFo A n) (hlt : ∀ x ∈ supportSet A, x < m) :
    WFo (setTerm m A) m := by
  refine ⟨?_, ?_, ?_⟩
  · rw [getElem?_setTerm_lt m A 0 (by omega), h.zero]; rfl
  · intro h2; rw [size_setTerm] at h2
    rw [getElem?_setTerm_lt m A 1 (by omega), h.one h2]; rfl
  · intro p nd hp hnd
    rw [getElem?_setTerm_ge m A p hp] at hnd
    obtain ⟨hv, hl, hh, hvl, hvh⟩ := h.inner p nd hp hnd
    have hm : nd.var < m := hlt _ ((mem_supportSet A _).mpr ⟨p, nd, hp, hnd, rfl⟩)
    refine ⟨hm, by rw [size_setTerm]; exact hl, by rw [size_setTerm]; exact hh, ?_, ?_⟩
    · rw [varOf_setTerm m A n _ hl]; split
      · exact hm
      · exact hvl
    · rw [varOf_setTerm m A n _ hh]; split
      · exact hm
      · exact hvh

theorem red_setTerm {A : Arr} {n : Nat} (m : Nat) (h : Red A n) (hlt : ∀ x ∈ supportSet A, x < m) :
    Red (setTerm m A) m := by
  refine ⟨by rw [size_setTerm]; exact h.size2, ?_, ?_⟩
  · intro p nd hp hnd
    rw [getElem?_setTerm_ge m A p hp] at hnd
    have hps : p < A.size := by
      rcases Nat.lt_or_ge p A.size with h' | h'
      · exact h'
      · simp [Array.getElem?_eq_none h'] at hnd
    obtain ⟨hv, hl, hh, hne, hvl, hvh⟩ := h.inner p nd hp hnd
    have hm : nd.var < m := hlt _ ((mem_supportSet A _).mpr ⟨p, nd, hp, hnd, rfl⟩)
    refine ⟨hm, hl, hh, hne, ?_, ?_⟩
    · rw [varOf_setTerm m A n _ (by omega)]; split
      · exact hm
      · exact hvl
    · rw [varOf_setTerm m A n _ (by omega)]; split
      · exact hm
      · exact hvh
  · intro p q nd hp hq hpn hqn
    rw [getElem?_setTerm_ge m A p hp] at hpn
    rw [getElem?_setTerm_ge m A q hq] at hqn
    exact h.nodup p q nd hp hq hpn hqn

/-! ### the layout (links) is untouched -/

/-- two arrays with the same links at every index -/
def SameLinks (A B : Arr) : Prop :=
  A.size = B.size ∧ ∀ p, (nodeAt A p).low = (nodeAt B p).low ∧ (nodeAt A p).high = (nodeAt B p).high

theorem sameLinks_setTerm (m : Nat) (A : Arr) : SameLinks (setTerm m A) A := by
  refine ⟨size_setTerm m A, ?_⟩
  intro p
  by_cases hp : p < 2
  · unfold nodeAt; rw [getElem?_setTerm_lt m A p hp]; cases A[p]? <;> simp
  · unfold nodeAt; rw [getElem?_setTerm_ge m A p (by omega)]; simp

theorem sameLinks_mapVars (g : Nat → Nat) (A : Arr) : SameLinks (mapVars g A) A := by
  refine ⟨size_mapVars g A, ?_⟩
  intro p
  by_cases hp : p < 2
  · unfold nodeAt; rw [getElem?_mapVars_lt g A p hp]; simp
  · unfold nodeAt; rw [getElem?_mapVars_ge g A p (by omega)]; cases A[p]? <;> simp

theorem SameLinks.trans {A B C : Arr} (h1 : SameLinks A B) (h2 : SameLinks B C) : SameLinks A C :=
  ⟨h1.1.trans h2.1, fun p => ⟨(h1.2 p).1.trans (h2.2 p).1, (h1.2 p).2.trans (h2.2 p).2⟩⟩

/-- the high-first post-order numbering test of `isCanon` only looks at the links -/
theorem postOrder_sameLinks {A B : Arr} (h : SameLinks A B) :
    ∀ fuel p st, postOrder A fuel p st = postOrder B fuel p st := by
  intro fuel
  induction fuel with
  | zero => intro p st; simp [postOrder]
  | succ fuel ih =>
    intro p st
    simp only [postOrder]
    have hl := (h.2 p).1
    have hh := (h.2 p).2
    unfold nodeAt at hl hh
    rw [hl, hh]
    split
    · rfl
    · split
      · rfl
      · rw [ih]
        cases postOrder B fuel (B[p]?.getD default).high st with
        | none => rfl
        | some st1 => simp only; rw [ih]

/-! ### the master lemma -/

theorem mapVars_small (g : Nat → Nat) (A : Arr) (h : A.size ≤ 2) : mapVars g A = A := by
  apply Array.ext_getElem?
  intro i
  by_cases hi : i < 2
  · exact getElem?_mapVars_lt g A i hi
  · rw [getElem?_mapVars_ge g A i (by omega), Array.getElem?_eq_none (by omega)]; rfl

theorem supportSet_mapVars_mem (g : Nat → Nat) (A : Arr) (y : Nat) :
    y ∈ supportSet (mapVars g A) ↔ ∃ x ∈ supportSet A, g x = y := by
  rw [mem_supportSet]
  constructor
  · rintro ⟨p, nd, hp, hnd, rfl⟩
    rw [getElem?_mapVars_ge g A p hp] at hnd
    cases hA : A[p]? with
    | none => rw [hA] at hnd; cases hnd
    | some nd0 =>
      rw [hA] at hnd; simp only [Option.map_some, Option.some.injEq] at hnd; subst hnd
      exact ⟨nd0.var, (mem_supportSet A _).mpr ⟨p, nd0, hp, hA, rfl⟩, rfl⟩
  · rintro ⟨x, hx, rfl⟩
    obtain ⟨p, nd, hp, hnd, rfl⟩ := (mem_supportSet A x).mp hx
    exact ⟨p, _, hp, by rw [getElem?_mapVars_ge g A p hp, hnd]; rfl, rfl⟩

/-- `evalArr` of a valid diagram does not depend on the fuel beyond the level bound -/
theorem evalF_root_fuel {A : Arr} {n : Nat} (h : WFo A n) (v : Nat → Bool) (f : Nat) (hf : n < f) :
    evalF A v f (root A) = evalF A v (n + 1) (root A) :=
  evalF_level h v f (root A) (n + 1) (root_lt h) (by omega) (by omega)

theorem evalArr_of_wf {A : Arr} {n : Nat} (h : WFo A n) (v : Nat → Bool) :
    evalArr A v = evW A n v (root A) := by
  unfold evalArr evW; rw [numVars_of_wf h]

/-- **Master lemma.** `b` valid over `n` variables, `g` strictly monotone on the support of `b` with
    values below `m`: the relabelled diagram is valid over `m` variables, denotes `v ↦ b (v ∘ g)`, stays
    reduced if `b` was, and has the same layout. -/
theorem retarget_spec {b : Arr} {n : Nat} (m : Nat) (g : Nat → Nat) (hb : WFo b n)
    (hlt : ∀ x ∈ supportSet b, g x < m)
    (hmono : ∀ x ∈ supportSet b, ∀ y ∈ supportSet b, x < y → g x < g y) :
    WFo (mapVars g (setTerm m b)) m ∧ numVars (mapVars g (setTerm m b)) = m ∧
    (∀ v, evalArr (mapVars g (setTerm m b)) v = evalArr b (fun x => v (g x))) ∧
    (Red b n → Red (mapVars g (setTerm m b)) m) ∧
    SameLinks (mapVars g (setTerm m b)) b := by
  -- first rewrite the variables inside `n + m` variables, then shrink the terminals: do it the other
  -- way round, through an intermediate count `N` that is above everything
  have hsz : 0 < b.size := hb.size_pos
  have hwf : WFo (mapVars g (setTerm m b)) m := by
    -- validity: direct, from the definition
    refine ⟨?_, ?_, ?_⟩
    · rw [getElem?_mapVars_lt g _ 0 (by omega), getElem?_setTerm_lt m b 0 (by omega), hb.zero]; rfl
    · intro h2; rw [size_mapVars, size_setTerm] at h2
      rw [getElem?_mapVars_lt g _ 1 (by omega), getElem?_setTerm_lt m b 1 (by omega), hb.one h2]; rfl
    · intro p nd hp hnd
      rw [getElem?_mapVars_ge g _ p hp, getElem?_setTerm_ge m b p hp] at hnd
      cases hA : b[p]? with
      | none => rw [hA] at hnd; cases hnd
      | some nd0 =>
        rw [hA] at hnd; simp only [Option.map_some, Option.some.injEq] at hnd; subst hnd
        obtain ⟨hv, hl, hh, hvl, hvh⟩ := hb.inner p nd0 hp hA
        have hmem : nd0.var ∈ supportSet b := (mem_supportSet b _).mpr ⟨p, nd0, hp, hA, rfl⟩
        have child : ∀ q, q < b.size → nd0.var < varOf b n q →
            g nd0.var < varOf (mapVars g (setTerm m b)) m q := by
          intro q hq hlt'
          by_cases hq2 : q < 2
          · rw [varOf_terminal _ _ _ hq2]; exact hlt _ hmem
          · have hqn : b[q]? = some b[q] := by simp [hq]
            have hqn' : (setTerm m b)[q]? = some b[q] := by rw [getElem?_setTerm_ge m b q (by omega)]; exact hqn
            rw [varOf_mapVars_node g _ m q b[q] (by omega) hqn']
            rw [varOf_node q b[q] (by omega) hqn] at hlt'
            exact hmono _ hmem _ ((mem_supportSet b _).mpr ⟨q, b[q], by omega, hqn, rfl⟩) hlt'
        refine ⟨hlt _ hmem, by rw [size_mapVars, size_setTerm]; exact hl,
          by rw [size_mapVars, size_setTerm]; exact hh, child _ hl hvl, child _ hh hvh⟩
  refine ⟨hwf, numVars_of_wf hwf, ?_, ?_, (sameLinks_mapVars g _).trans (sameLinks_setTerm m b)⟩
  · intro v
    rw [evalArr_of_wf hwf, evalArr_of_wf hb]
    unfold evW
    rw [root_mapVars, root_setTerm]
    rcases Nat.le_total m n with hmn | hmn
    · -- evaluate the result with the larger fuel `n + 1`
      have := evalF_level hwf v (m + 1) (root b) (n + 1)
        (by rw [size_mapVars, size_setTerm]; exact root_lt hb) (by omega) (by omega)
      rw [this, evalF_mapVars, evalF_setTerm]
    · rw [evalF_mapVars, evalF_setTerm]
      exact evalF_level hb _ (m + 1) (root b) (n + 1) (root_lt hb) (by omega) (by omega)
  · intro hred
    have hlt0 : ∀ x ∈ supportSet b, x < n := by
      intro x hx
      obtain ⟨p, nd, hp, hnd, rfl⟩ := (mem_supportSet b x).mp hx
      exact (hb.inner p nd hp hnd).1
    -- go through the count `N = n + m + 1`, where the original variables are still in range
    have h1 : Red (setTerm (n + m) b) (n + m) := red_setTerm (n + m) hred (fun x hx => by have := hlt0 x hx; omega)
    have h2 : Red (mapVars g (setTerm (n + m) b)) (n + m) :=
      red_mapVars g h1 (fun x hx => by rw [supportSet_setTerm] at hx; have := hlt x hx; omega)
        (fun x hx y hy => by rw [supportSet_setTerm] at hx hy; exact hmono x hx y hy)
    have h3 : Red (setTerm m (mapVars g (setTerm (n + m) b))) m :=
      red_setTerm m h2 (fun y hy => by
        obtain ⟨x, hx, rfl⟩ := (supportSet_mapVars_mem g _ y).mp hy
        rw [supportSet_setTerm] at hx; exact hlt x hx)
    have heq : setTerm m (mapVars g (setTerm (n + m) b)) = mapVars g (setTerm m b) := by
      apply Array.ext_getElem?
      intro i
      by_cases hi : i < 2
      · rw [getElem?_setTerm_lt m _ i hi, getElem?_mapVars_lt g _ i hi, getElem?_mapVars_lt g _ i hi,
          getElem?_setTerm_lt _ b i hi, getElem?_setTerm_lt m b i hi]
        cases b[i]? <;> rfl
      · rw [getElem?_setTerm_ge m _ i (by omega), getElem?_mapVars_ge g _ i (by omega),
          getElem?_mapVars_ge g _ i (by omega), getElem?_setTerm_ge _ b i (by omega),
          getElem?_setTerm_ge m b i (by omega)]
    rw [← heq]; exact h3

/-! ### small facts used by the property theorems -/

theorem mem_supportSet' (A : Arr) (x : Nat) : x ∈ supportSet A ↔ ∃ nd ∈ A.toList.drop 2, nd.var = x := by
  unfold supportSet
  rw [mem_foldr_insertU, List.mem_map]

theorem supportSet_lt {b : Arr} {n : Nat} (hb : WFo b n) : ∀ x ∈ supportSet b, x < n := by
  intro x hx
  obtain ⟨p, nd, hp, hnd, rfl⟩ := (mem_supportSet b x).mp hx
  exact (hb.inner p nd hp hnd).1

theorem mapVars_congr (g g' : Nat → Nat) (A : Arr) (h : ∀ x ∈ supportSet A, g x = g' x) :
    mapVars g A = mapVars g' A := by
  apply Array.ext_getElem?
  intro i
  by_cases hi : i < 2
  · rw [getElem?_mapVars_lt g A i hi, getElem?_mapVars_lt g' A i hi]
  · rw [getElem?_mapVars_ge g A i (by omega), getElem?_mapVars_ge g' A i (by omega)]
    cases hA : A[i]? with
    | none => rfl
    | some nd =>
      simp only [Option.map_some]
      rw [h nd.var ((mem_supportSet A _).mpr ⟨i, nd, by omega, hA, rfl⟩)]

theorem mapVars_id (A : Arr) : mapVars (fun x => x) A = A := by
  apply Array.ext_getElem?
  intro i
  by_cases hi : i < 2
  · rw [getElem?_mapVars_lt _ A i hi]
  · rw [getElem?_mapVars_ge _ A i (by omega)]; cases A[i]? <;> rfl

theorem setTerm_self {b : Arr} {n : Nat} (hb : WFo b n) : setTerm n b = b := by
  apply Array.ext_getElem?
  intro i
  by_cases hi : i < 2
  · rw [getElem?_setTerm_lt n b i hi]
    match i, hi with
    | 0, _ => rw [hb.zero]; rfl
    | 1, _ =>
      rcases Nat.lt_or_ge 1 b.size with h | h
      · rw [hb.one (by omega)]; rfl
      · rw [Array.getElem?_eq_none (by omega)]; rfl
  · exact getElem?_setTerm_ge n b i (by omega)

end B.Ren