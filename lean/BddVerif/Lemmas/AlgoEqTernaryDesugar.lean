import BddVerif.Lemmas.AlgoEqApplyDesugar
import BddVerif.Model.Ternary
/-!
Equivalence "translated Rust = hand-written model" for `ternary_apply` (src/_impl_bdd/_impl_ternary_ops.rs:40),
part 1: DESUGARING of the generated definition `B.Gen.Algo.ternary_apply` (referred to by name; regenerated from
the Rust text on every run). Same development as Lemmas/AlgoEqApply*.lean, with three operands.
-/
namespace B.AlgoEqT
open B B.Gen Std B.AlgoEqA
attribute [local instance 10000] Rust.monadOutcomeInline

abbrev Task3 := Nat × Nat × Nat

/-- the loop's `let mut` variables `(result, is_not_empty, existing, stack, finished)` -/
abbrev LS3 := Arr × Bool × HashMap Node Nat × Array Task3 × HashMap Task3 Nat

/-- lines 155-161: terminal look-up, else the `finished` cache -/
def look3 (op : Op3) (fin : HashMap Task3 Nat) (c : Task3) : Option Nat :=
  match op (asBool c.1) (asBool c.2.1) (asBool c.2.2) with
  | some b => some (ofBool b)
  | none => fin[c]?

def pushIf3 (o : Option Nat) (c : Task3) (stk : Array Task3) : Array Task3 :=
  if o.isNone then stk.push c else stk

/-- lines 164-187 on the loop variables, the new pointer being `result.root_pointer()` (an `as u32` cast) -/
def fin32_3 (res : Arr) (ne : Bool) (ex : HashMap Node Nat) (fin : HashMap Task3 Nat)
    (t : Task3) (d lo hi : Nat) (flipOut : Bool) : Arr × Bool × HashMap Node Nat × HashMap Task3 Nat :=
  let ne' : Bool := if lo = 1 ∨ hi = 1 then true else ne
  if lo = hi then (res, ne', ex, fin.insert t lo)
  else
    let node : Node := if flipOut then ⟨d, hi, lo⟩ else ⟨d, lo, hi⟩
    match ex[node]? with
    | some i => (res, ne', ex, fin.insert t i)
    | none => (res.push node, ne', ex.insert node (u32 res.size), fin.insert t (u32 res.size))

/-- body of `while let Some(on_stack) = stack.last()` (lines 105-208) written out by hand -/
def cstep3 (Γ : Ctx3) (σ : LS3) : Outcome (ForInStep LS3) :=
  match σ with
  | (res, ne, ex, stk, fin) =>
    match stk.back? with
    | none => .ok (.done (res, ne, ex, stk, fin))
    | some t =>
      if fin.contains t then .ok (.yield (res, ne, ex, stk.pop, fin))
      else
        match Γ.A[t.1]?, Γ.B[t.2.1]?, Γ.C[t.2.2]? with
        | some na, some nb, some nc =>
          let d := min na.var (min nb.var nc.var)
          let ka := kids Γ.A t.1 d Γ.fa
          let kb := kids Γ.B t.2.1 d Γ.fb
          let kc := kids Γ.C t.2.2 d Γ.fc
          let lo : Task3 := (ka.1, kb.1, kc.1)
          let hi : Task3 := (ka.2, kb.2, kc.2)
          match look3 Γ.op fin lo, look3 Γ.op fin hi with
          | some a, some b =>
            let o := fin32_3 res ne ex fin t d a b (decide (Γ.fo = some d))
            .ok (.yield (o.1, o.2.1, o.2.2.1, stk.pop, o.2.2.2))
          | a, b =>
            if Γ.fo = some d then .ok (.yield (res, ne, ex, pushIf3 a lo (pushIf3 b hi stk), fin))
            else .ok (.yield (res, ne, ex, pushIf3 b hi (pushIf3 a lo stk), fin))
        | _, _, _ => oob

/-- lines 56-104 and 211-215 around a loop with body `body` -/
def skel3 (body : Nat → LS3 → Outcome (ForInStep LS3)) (fuel : Nat) (a b c : Arr)
    (flip_a_if flip_b_if flip_c_if flip_out_if : Option Nat) : Outcome Arr := do
  let num_vars := (← Algo.Bdd_num_vars a)
  let c1__ ← if !((← Algo.Bdd_num_vars a) != (← Algo.Bdd_num_vars b)) then
    pure ((← Algo.Bdd_num_vars b) != (← Algo.Bdd_num_vars c))
    else pure true
  if c1__ then
    Outcome.panic "Var count mismatch: BDDs are not compatible. {} vs. {} vs. {}"
  Algo.ternary_ops__check_flip_bounds num_vars flip_a_if
  Algo.ternary_ops__check_flip_bounds num_vars flip_b_if
  Algo.ternary_ops__check_flip_bounds num_vars flip_c_if
  Algo.ternary_ops__check_flip_bounds num_vars flip_out_if
  let result : Arr := Algo.Bdd_mk_true num_vars
  let is_not_empty := false
  let expected_capacity := max (Algo.Bdd_size a) (max (Algo.Bdd_size b) (Algo.Bdd_size c))
  let existing : HashMap Node Nat := Rust.hashMapWithCapacity expected_capacity
  let existing := existing.insert (Algo.BddNode_mk_zero num_vars) Algo.BddPointer_zero
  let existing := existing.insert (Algo.BddNode_mk_one num_vars) Algo.BddPointer_one
  let stack : Array (Nat × Nat × Nat) := Rust.vecWithCapacity (2 * num_vars)
  let stack := stack.push ((← Algo.Bdd_root_pointer a), (← Algo.Bdd_root_pointer b), (← Algo.Bdd_root_pointer c))
  let finished : HashMap (Nat × Nat × Nat) Nat := Rust.hashMapWithCapacity expected_capacity
  let __s ← forIn [:fuel] (result, is_not_empty, existing, stack, finished) body
  let result : Arr := __s.fst
  let is_not_empty : Bool := __s.snd.fst
  let stack : Array (Nat × Nat × Nat) := __s.snd.snd.snd.fst
  match stack.back? with
  | some _ => Outcome.panic "fuel"
  | _ => pure ()
  if is_not_empty then
    pure result
  else
    pure (Algo.Bdd_mk_false num_vars)

theorem look3_eq (op : Op3) (fin : HashMap Task3 Nat) (a b c : Nat) :
    ((op (Algo.BddPointer_as_bool a) (Algo.BddPointer_as_bool b) (Algo.BddPointer_as_bool c)).map
      Algo.BddPointer_from_bool).orElse (fun _ => fin[(a, b, c)]?) = look3 op fin (a, b, c) := by
  unfold look3
  simp only [asBool_eq]
  cases op (asBool a) (asBool b) (asBool c) with
  | none => rfl
  | some c => simp [ofBool_eq]

/-- the generated definition is `skel3` around a loop whose body is `cstep3` (the body of the generated loop is
    obtained by unification from the unfolded definition, never restated) -/
theorem desugar_body3 (fuel : Nat) (A B C : Arr) (fa fb fc fo : Option Nat) (op : Op3) :
    ∃ body, Algo.ternary_apply fuel (A, B, C) (fa, fb, fc) fo op = skel3 body fuel A B C fa fb fc fo ∧
      ∀ i σ, body i σ = cstep3 ⟨A, B, C, 0, op, fa, fb, fc, fo⟩ σ :=
  ⟨_, by unfold Algo.ternary_apply skel3; rfl, by
    intro i σ
    obtain ⟨res, ne, ex, stk, fin⟩ := σ
    unfold cstep3
    simp only []
    cases hb : stk.back? with
    | none => rfl
    | some t =>
      obtain ⟨a, b, c⟩ := t
      simp only []
      by_cases hc : fin.contains (a, b, c) = true
      · simp only [hc, if_true]; rfl
      · simp only [hc, var_of_eq]
        cases ha : A[a]? with
        | none => rfl
        | some na =>
          cases hb' : B[b]? with
          | none => rfl
          | some nb =>
            cases hc' : C[c]? with
            | none => rfl
            | some nc =>
              simp only [bind_ok, kids_jp A a na ha, kids_jp B b nb hb', kids_jp C c nc hc', look3_eq]
              generalize min na.var (min nb.var nc.var) = d
              generalize kids A a d fa = ka
              generalize kids B b d fb = kb
              generalize kids C c d fc = kc
              generalize look3 op fin (ka.fst, kb.fst, kc.fst) = x
              generalize look3 op fin (ka.snd, kb.snd, kc.snd) = y
              cases x with
              | none =>
                cases y <;> by_cases hfo : fo = some d <;> simp [pushIf3, hfo, pure_eq]
              | some x =>
                cases y with
                | none => by_cases hfo : fo = some d <;> simp [pushIf3, hfo, pure_eq]
                | some y =>
                  simp only [root_push, bind_ok, mk_node_flip]
                  unfold fin32_3
                  generalize (if decide (fo = some d) = true then (⟨d, y, x⟩ : Node) else ⟨d, x, y⟩) = node
                  have h1 : (Algo.BddPointer_is_one x || Algo.BddPointer_is_one y) = true ↔ (x = 1 ∨ y = 1) := by
                    simp [Algo.BddPointer_is_one]
                  simp only [h1, beq_iff_eq, Algo.Bdd_push_node, Bool.false_eq_true, if_false]
                  by_cases h : x = 1 ∨ y = 1
                  · simp only [h, if_true]
                    by_cases hab : x = y
                    · simp only [hab, if_true]; rfl
                    · cases hex : ex[node]? <;> simp only [hab, if_false] <;> rfl
                  · simp only [h, if_false]
                    by_cases hab : x = y
                    · simp only [hab, if_true]; rfl
                    · cases hex : ex[node]? <;> simp only [hab, if_false] <;> rfl⟩


theorem cstep3_n (A B C : Arr) (n m : Nat) (op : Op3) (fa fb fc fo : Option Nat) :
    cstep3 ⟨A, B, C, n, op, fa, fb, fc, fo⟩ = cstep3 ⟨A, B, C, m, op, fa, fb, fc, fo⟩ := by
  funext σ; rfl

/-- DESUGARING LEMMA: `ternary_apply` = prologue; loop with body `cstep3`; epilogue -/
theorem desugar3 (fuel : Nat) (A B C : Arr) (n : Nat) (fa fb fc fo : Option Nat) (op : Op3) :
    Algo.ternary_apply fuel (A, B, C) (fa, fb, fc) fo op =
      skel3 (fun _ σ => cstep3 ⟨A, B, C, n, op, fa, fb, fc, fo⟩ σ) fuel A B C fa fb fc fo := by
  obtain ⟨body, h1, h2⟩ := desugar_body3 fuel A B C fa fb fc fo op
  have : body = fun _ σ => cstep3 ⟨A, B, C, n, op, fa, fb, fc, fo⟩ σ := by
    funext i σ; rw [h2, cstep3_n A B C 0 n]
  rw [h1, this]

/-- the loop variables at loop entry (lines 73-104) -/
def initLS3 (A B C : Arr) (n : Nat) : LS3 :=
  (mkTrue n, false,
   ((HashMap.emptyWithCapacity (max A.size (max B.size C.size))).insert (zeroN n) 0).insert (oneN n) 1,
   #[(u32 (A.size - 1), u32 (B.size - 1), u32 (C.size - 1))],
   HashMap.emptyWithCapacity (max A.size (max B.size C.size)))

/-- the fuel check and lines 211-215 -/
def post3 (n : Nat) (σ : LS3) : Outcome Arr :=
  match σ.2.2.2.1.back? with
  | some _ => .panic "fuel"
  | none => if σ.2.1 then .ok σ.1 else .ok (mkFalse n)

theorem check_flip3_ok (n : Nat) (f : Option Nat) (h : ∀ x, f = some x → x < n) :
    Algo.ternary_ops__check_flip_bounds n f = .ok () := by
  unfold Algo.ternary_ops__check_flip_bounds
  cases f with
  | none => rfl
  | some x =>
    have := h x rfl
    have h' : ¬ (x ≥ n) := by omega
    simp only [h', decide_false]; rfl

theorem check_flip3_bad (n : Nat) (x : Nat) (h : n ≤ x) :
    Algo.ternary_ops__check_flip_bounds n (some x) = .panic flipMsg := by
  unfold Algo.ternary_ops__check_flip_bounds
  have h' : x ≥ n := h
  simp only [h', decide_true]; rfl

theorem check_flip3_cases (n : Nat) (f : Option Nat) :
    ((∀ x, f = some x → x < n) ∧ Algo.ternary_ops__check_flip_bounds n f = .ok ()) ∨
    ((∃ x, f = some x ∧ n ≤ x) ∧ Algo.ternary_ops__check_flip_bounds n f = .panic flipMsg) := by
  by_cases h : ∀ x, f = some x → x < n
  · exact Or.inl ⟨h, check_flip3_ok n f h⟩
  · right
    cases f with
    | none => exact absurd (fun x hx => by cases hx) h
    | some y =>
      have hy : n ≤ y := by
        rcases Nat.lt_or_ge y n with h' | h'
        · exact absurd (fun x hx => by cases hx; exact h') h
        · exact h'
      exact ⟨⟨y, rfl, hy⟩, check_flip3_bad n y hy⟩

/-- the generated function in the model's domain (compatible variable counts, flips in range): prologue and
    epilogue evaluated -/
theorem desugar_ok3 (fuel : Nat) (A B C : Arr) (fa fb fc fo : Option Nat) (op : Op3) (za zb zc : Node)
    (hA : A[0]? = some za) (hB : B[0]? = some zb) (hC : C[0]? = some zc)
    (hvb : zb.var = za.var) (hvc : zc.var = za.var)
    (hfa : ∀ x, fa = some x → x < za.var) (hfb : ∀ x, fb = some x → x < za.var)
    (hfc : ∀ x, fc = some x → x < za.var) (hfo : ∀ x, fo = some x → x < za.var) :
    Algo.ternary_apply fuel (A, B, C) (fa, fb, fc) fo op =
      (loopN (cstep3 ⟨A, B, C, za.var, op, fa, fb, fc, fo⟩) fuel (initLS3 A B C za.var)).bind (post3 za.var) := by
  rw [desugar3 fuel A B C za.var]
  unfold skel3
  have ha1 := size_pos_of_get0 hA
  have hb1 := size_pos_of_get0 hB
  have hc1 := size_pos_of_get0 hC
  simp only [num_vars_eq, hA, hB, hC, bind_ok, hvb, hvc, bne_self_eq_false, Bool.not_false,
    Bool.false_eq_true, if_false, if_true, pure_eq,
    check_flip3_ok _ _ hfa, check_flip3_ok _ _ hfb, check_flip3_ok _ _ hfc, check_flip3_ok _ _ hfo,
    root_eq, ha1, hb1, hc1,
    forIn_range_loopN (cstep3 ⟨A, B, C, za.var, op, fa, fb, fc, fo⟩) _ (fun _ _ => rfl)]
  show Rust.bindFast _ _ = _
  rw [Rust.bindFast_eq]
  congr 1
  funext σ
  unfold post3
  cases σ.2.2.2.1.back? <;> rfl

def mismatchMsg3 : String := "Var count mismatch: BDDs are not compatible. {} vs. {} vs. {}"

/-- line 57: operands over different variable counts -/
theorem desugar_mismatch3 (fuel : Nat) (A B C : Arr) (fa fb fc fo : Option Nat) (op : Op3) (za zb zc : Node)
    (hA : A[0]? = some za) (hB : B[0]? = some zb) (hC : C[0]? = some zc)
    (hv : za.var ≠ zb.var ∨ zb.var ≠ zc.var) :
    Algo.ternary_apply fuel (A, B, C) (fa, fb, fc) fo op = .panic mismatchMsg3 := by
  rw [desugar3 fuel A B C za.var]
  unfold skel3
  simp only [num_vars_eq, hA, hB, hC, bind_ok]
  by_cases h1 : za.var = zb.var
  · have h2 : zb.var ≠ zc.var := by
      rcases hv with h | h
      · exact absurd h1 h
      · exact h
    have : (zb.var != zc.var) = true := by simp [h2]
    simp only [h1, bne_self_eq_false, Bool.not_false, if_true, bind_ok, pure_eq, this, bind_panic]
    rfl
  · have : (za.var != zb.var) = true := by simp [h1]
    simp only [this, Bool.not_true, Bool.false_eq_true, if_false, pure_eq, bind_ok, if_true, bind_panic]
    rfl

/-- lines 65-68 (`check_flip_bounds`): some flip variable is not a variable of the operands -/
theorem desugar_flip_panic3 (fuel : Nat) (A B C : Arr) (fa fb fc fo : Option Nat) (op : Op3) (za zb zc : Node)
    (hA : A[0]? = some za) (hB : B[0]? = some zb) (hC : C[0]? = some zc)
    (hvb : zb.var = za.var) (hvc : zc.var = za.var)
    (hbad : ∃ x, (fa = some x ∨ fb = some x ∨ fc = some x ∨ fo = some x) ∧ za.var ≤ x) :
    Algo.ternary_apply fuel (A, B, C) (fa, fb, fc) fo op = .panic flipMsg := by
  rw [desugar3 fuel A B C za.var]
  unfold skel3
  simp only [num_vars_eq, hA, hB, hC, bind_ok, hvb, hvc, bne_self_eq_false, Bool.not_false,
    Bool.false_eq_true, if_false, if_true, pure_eq]
  rcases check_flip3_cases za.var fa with ⟨oa, ha⟩ | ⟨_, ha⟩
  · rcases check_flip3_cases za.var fb with ⟨ob, hb⟩ | ⟨_, hb⟩
    · rcases check_flip3_cases za.var fc with ⟨oc, hc⟩ | ⟨_, hc⟩
      · rcases check_flip3_cases za.var fo with ⟨oo, ho⟩ | ⟨_, ho⟩
        · obtain ⟨x, hx, hn⟩ := hbad
          rcases hx with hx | hx | hx | hx
          · have := oa x hx; omega
          · have := ob x hx; omega
          · have := oc x hx; omega
          · have := oo x hx; omega
        · simp only [ha, hb, hc, ho, bind_ok, bind_panic]
      · simp only [ha, hb, hc, bind_ok, bind_panic]
    · simp only [ha, hb, bind_ok, bind_panic]
  · simp only [ha, bind_panic]

end B.AlgoEqT
