import BddVerif.Lemmas.C02Built
import BddVerif.Props.C17
/-!
Bridge for the C02 history theorem: **an order-preserving relabelling of a canonical array is canonical**.

`B.Props.C17.Kept b r m g` (the conclusion of `set_num_vars_safe`, `rename_variables_safe`,
`rename_variable_safe`, `transfer_some_iff`) says that `r` is valid over `m` variables, reduced if `b` was,
and has the very same links as `b`. The canonicity test `Drive.isCanon` = `isReduced` + "the high-first
post-order numbering from the root is the identity" looks at the links only (`postOrder_sameLinks`), and it
decides `Canonical` (`isCanon_iff`); the only wrinkle is the fuel `num_vars + 2` of the post-order walk, which
differs between `b` and `r` when the variable count changes — so the two directions of `isCanon_iff` are
re-proved here for an arbitrary sufficient fuel.
-/
namespace B.C02H
open B B.Drive B.Ren B.C02

theorem numVars_canon' (n : Nat) (f : (Nat → Bool) → Bool) : numVars (canon n f) = n := by
  rw [canon_restrict]; exact numVars_canon n _ (depBelow_restr n f)

/-- every `canon n f` is canonical over `n` variables (no side condition on `f`) -/
theorem canon_ok (n : Nat) (f : (Nat → Bool) → Bool) : Canonical (canon n f) ∧ numVars (canon n f) = n :=
  ⟨canon_canonical' n f, numVars_canon' n f⟩

/-- completeness of the post-order test for ANY fuel above the variable count -/
theorem canonical_postOrder {A : Arr} (h : Canonical A) (hs : 3 ≤ A.size) (F : Nat) (hF : numVars A < F) :
    ∃ vis, postOrder A F (root A) (Array.replicate A.size false, 2) = some (vis, A.size) := by
  have hdep := h.depBelow
  have hdep' : ∀ v w : Nat → Bool, (∀ i, 0 ≤ i → i < numVars A → v i = w i) → den A v = den A w :=
    fun v w h => hdep v w (fun i hi => h i (Nat.zero_le _) hi)
  rcases canon_spec (numVars A) (den A) hdep with ⟨e, _⟩ | ⟨_, e, hroot, _⟩
  · rw [← h] at e; rw [e, mkFalse_size] at hs; omega
  · rw [← h] at e hroot
    have hinv : PInv A (Array.replicate A.size false) (mkTrue (numVars A)).size := by
      rw [mkTrue_size]
      refine ⟨by simp, by omega, by omega, ?_⟩
      intro q hq2 hqs
      rw [Array.getD_eq_getD_getElem?, Array.getElem?_replicate, if_pos hqs]
      simp; omega
    obtain ⟨vis', hpo, _⟩ := ins_postOrder (numVars A) 0 (den A) (mkTrue (numVars A))
      (red_mkTrue _) (by omega) hdep' (by rw [← e]; exact Prefix.refl A) F _ hinv (by omega)
    rw [← e, ← hroot, mkTrue_size] at hpo
    exact ⟨vis', hpo⟩

/-- soundness of the post-order test for ANY fuel above the variable count -/
theorem canonical_of_postOrder_fuel {A : Arr} (hred : Red A (numVars A))
    (h0 : A[0]? = some (zeroN (numVars A))) (h1 : A[1]? = some (oneN (numVars A)))
    (hs : 3 ≤ A.size) {vis : Array Bool} (F : Nat) (hF : numVars A < F)
    (hpo : postOrder A F (root A) (Array.replicate A.size false, 2) = some (vis, A.size)) :
    Canonical A := by
  have hinv : PInv A (Array.replicate A.size false) 2 := by
    refine ⟨by simp, by omega, by omega, ?_⟩
    intro q hq2 hqs
    rw [Array.getD_eq_getD_getElem?, Array.getElem?_replicate, if_pos hqs]
    simp; omega
  have hroot : root A < A.size := by unfold root; omega
  obtain ⟨_, hins⟩ := postOrder_sim hred F (root A) _ 2 vis A.size hinv hroot (by omega) hpo
  have := hins 0 (Nat.zero_le _)
  rw [pre_full, pre_two_eq_mkTrue h0 h1, Nat.sub_zero] at this
  unfold Canonical canon
  have hd : den A = fun v => ev A v (root A) := rfl
  rw [hd, this]
  have : root A ≠ 0 := by unfold root; omega
  simp [this]

/-- **an array that is valid over `m` variables, reduced if `b` is, and has the links of a canonical `b` is
    canonical** -/
theorem canonical_of_sameLinks {b r : Arr} {m : Nat} (hb : Canonical b) (hw : WFo r m)
    (hred : Red b (numVars b) → Red r m) (hl : SameLinks r b) : Canonical r := by
  have hm : numVars r = m := numVars_of_wf hw
  rcases hb.cases with ⟨e, _⟩ | ⟨hrb, _, _⟩
  · -- the one-node array
    have hs : r.size = 1 := by rw [hl.1, e]; rfl
    have : r = mkFalse m := by
      apply Array.ext_getElem?
      intro i
      by_cases hi : i = 0
      · subst hi; rw [hw.zero]; rfl
      · rw [Array.getElem?_eq_none (by omega), Array.getElem?_eq_none (by rw [mkFalse_size]; omega)]
    rw [this]; exact canonical_mkFalse m
  · have hr := hred hrb
    have hs2 := hr.size2
    have h0 : r[0]? = some (zeroN (numVars r)) := by rw [hm]; exact hw.zero
    have h1 : r[1]? = some (oneN (numVars r)) := by rw [hm]; exact hw.one hs2
    by_cases hs : r.size = 2
    · have : r = mkTrue m := by
        apply eq_mkTrue_of_prefix _ hs
        refine ⟨by rw [mkTrue_size]; omega, ?_⟩
        intro i hi
        rw [mkTrue_size] at hi
        have : i = 0 ∨ i = 1 := by omega
        rcases this with rfl | rfl
        · rw [hw.zero]; rfl
        · rw [hw.one hs2]; rfl
      rw [this]; exact canonical_mkTrue m
    · have hs3 : 3 ≤ r.size := by omega
      obtain ⟨vis, hpo⟩ := canonical_postOrder hb (by rw [← hl.1]; exact hs3) (numVars b + m + 1) (by omega)
      have hroot : root r = root b := by unfold root; rw [hl.1]
      rw [← hm] at hr
      apply canonical_of_postOrder_fuel hr h0 h1 hs3 (numVars b + m + 1) (by omega) (vis := vis)
      rw [postOrder_sameLinks hl, hroot, hl.1]
      exact hpo

/-- the conclusion of the C17 theorems, for a canonical operand -/
theorem kept_canonical {b r : Arr} {m : Nat} {g : Nat → Nat} (hb : Canonical b)
    (h : B.Props.C17.Kept b r m g) : Canonical r ∧ numVars r = m :=
  ⟨canonical_of_sameLinks hb h.valid h.red h.layout, h.count⟩

end B.C02H
