import BddVerif.Lemmas.AlgoEqNestedDriver
/-! axiom audit of the `inner_apply` / `nested_apply` equivalences -/
#print axioms B.innerRec_spec2
#print axioms B.nestedRec_spec2
#print axioms B.AlgoEq.inner_desugar
#print axioms B.AlgoEq.iloop_all
#print axioms B.AlgoEq.inner_apply_eq_model
#print axioms B.AlgoEq.nested_desugar
#print axioms B.AlgoEq.oloop_all
#print axioms B.AlgoEq.nested_apply_eq_model
#print axioms B.AlgoEq.nested_apply_eq_canon
#print axioms B.AlgoEq.nested_apply_panic
#print axioms B.AlgoEq.nested_apply_eq_modelO
#print axioms B.AlgoEq.binary_op_nested_eq_model
#print axioms B.AlgoEq.nested_apply_eq_model_driver
#print axioms B.AlgoEq.binary_op_nested_eq_model_driver
#print axioms B.AlgoEq.ex_run
#print axioms B.AlgoEq.ex_fuel
