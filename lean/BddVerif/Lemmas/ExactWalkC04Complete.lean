import BddVerif.Lemmas.ExactWalkC04
/-!
# A rejecting exact walk of `Drive/C04.lean` is conclusive (given enough fuel)

`walk2` / `walk3` answer `false` (a) when the fuel is exhausted, (b) at a terminal tuple on which the identity
fails, (c) at a non-terminal tuple whose least level is `≥ n`, (d) when a recursive call answers `false`.
For arrays ordered by level over `n` variables (`WFo`) case (c) cannot occur, and case (a) cannot occur when the
fuel exceeds `n − (least level of the start tuple)`: every call raises the least level by at least one. The
driver's fuel `n + 2` from the roots is therefore sufficient, and then a `false` answer yields a valuation at which
the bit-inversion identity fails: the decision variables strictly increase along the path to the failing terminal
tuple, so the path is a consistent valuation. (With less fuel nothing is claimed.)
-/
namespace B.ExactWalk
open B B.Drive

theorem varOf_lt_of_node {A : Arr} {n : Nat} (hA : WFo A n) {p : Nat} (hp : p < A.size) (h2 : ¬ p < 2) :
    varOf A n p < n := by
  have hnd : A[p]? = some A[p] := by simp [hp]
  rw [varOf_node (n := n) p _ (by omega) hnd]
  exact (hA.inner p _ (by omega) hnd).1

/-! ### binary -/

section
variable (X L R : Arr) (n : Nat) (c : Bool → Bool → Bool) (fl fr fo : Option Nat)
/-- the identity at one triple and one valuation -/
def Eat3 (t : T3) (v : Nat → Bool) : Prop :=
  evW X n v t.1 = c (evW L n (inv fl (inv fo v)) t.2.1) (evW R n (inv fr (inv fo v)) t.2.2)
end

theorem kid3_at {X L R : Arr} {n : Nat} (c : Bool → Bool → Bool) (fl fr fo : Option Nat)
    (hX : WFo X n) (hL : WFo L n) (hR : WFo R n) {t : T3} (ht : InB3 X L R t) (hd : lev3 X L R n t < n)
    (v : Nat → Bool) :
    Eat3 X L R n c fl fr fo t v ↔ Eat3 X L R n c fl fr fo (kid3 X L R n fl fr fo t (v (lev3 X L R n t))) v := by
  obtain ⟨x, l, r⟩ := t
  obtain ⟨hx, hl, hr⟩ := ht
  simp only at hx hl hr
  generalize hdd : lev3 X L R n (x, l, r) = d at hd
  have hle : d ≤ varOf X n x ∧ d ≤ varOf L n l ∧ d ≤ varOf R n r := by
    simp only [lev3] at hdd; omega
  have hkid : kid3 X L R n fl fr fo (x, l, r) (v d) = (C04.cof X n x d (v d),
      C04.cof L n l d ((v d != C04.isF fo d) != C04.isF fl d), C04.cof R n r d ((v d != C04.isF fo d) != C04.isF fr d)) := by
    simp only [kid3, hdd]
  rw [hkid]
  have e1 := (cof_spec hX hx d hd hle.1 (v d)).2.2 v rfl
  have e2 := (cof_spec hL hl d hd hle.2.1 ((v d != C04.isF fo d) != C04.isF fl d)).2.2 (inv fl (inv fo v))
    (by rw [inv_at, inv_at])
  have e3 := (cof_spec hR hr d hd hle.2.2 ((v d != C04.isF fo d) != C04.isF fr d)).2.2 (inv fr (inv fo v))
    (by rw [inv_at, inv_at])
  unfold Eat3
  simp only
  rw [e1, e2, e3]

theorem term3_not_E {X L R : Arr} (n : Nat) (c : Bool → Bool → Bool) (fl fr fo : Option Nat) {t : T3}
    (h1 : t.1 < 2) (h2 : t.2.1 < 2) (h3 : t.2.2 < 2) (he : ((t.1 == 1) == c (t.2.1 == 1) (t.2.2 == 1)) = false)
    (v : Nat → Bool) : ¬ Eat3 X L R n c fl fr fo t v := by
  obtain ⟨x, l, r⟩ := t
  simp only at h1 h2 h3 he
  unfold Eat3
  simp only
  rw [evW_term X n v h1, evW_term L n _ h2, evW_term R n _ h3]
  have a1 : decide (x = 1) = (x == 1) := rfl
  have a2 : decide (l = 1) = (l == 1) := rfl
  have a3 : decide (r = 1) = (r == 1) := rfl
  rw [a1, a2, a3]
  intro heq
  rw [heq] at he
  simp at he

/-- a rejecting call with enough fuel yields, for every path prefix below the least level of the triple, an
    extension of the prefix on which the identity at the triple fails -/
theorem walk2_reject {X L R : Arr} {n : Nat} (c : Bool → Bool → Bool) (fl fr fo : Option Nat)
    (hX : WFo X n) (hL : WFo L n) (hR : WFo R n) :
    ∀ (fuel x l r : Nat) (S : Std.HashSet T3), InB3 X L R (x, l, r) → mu3 X L R n (x, l, r) < fuel →
      (C04.walk2 X L R n c fl fr fo fuel x l r S).1 = false →
      ∀ (u : Nat → Bool) (k : Nat), k ≤ lev3 X L R n (x, l, r) →
        ∃ v : Nat → Bool, (∀ i, i < k → v i = u i) ∧ ¬ Eat3 X L R n c fl fr fo (x, l, r) v := by
  intro fuel
  induction fuel with
  | zero => intro x l r S _ hmu; omega
  | succ fuel ih =>
    intro x l r S ht hmu h u k hk
    rw [C04.walk2] at h
    by_cases hterm : (decide (x < 2) && decide (l < 2) && decide (r < 2)) = true
    · rw [if_pos hterm] at h
      simp only [Bool.and_eq_true, decide_eq_true_eq] at hterm
      exact ⟨u, fun _ _ => rfl, term3_not_E n c fl fr fo hterm.1.1 hterm.1.2 hterm.2 h u⟩
    · rw [if_neg hterm] at h
      by_cases hseen : S.contains (x, l, r) = true
      · rw [if_pos hseen] at h; simp at h
      · rw [if_neg hseen] at h
        have hdeq : min (varOf X n x) (min (varOf L n l) (varOf R n r)) = lev3 X L R n (x, l, r) := rfl
        simp only [hdeq] at h
        -- a non-terminal triple of ordered arrays has a level below `n`
        have hdn : lev3 X L R n (x, l, r) < n := by
          obtain ⟨hx, hl, hr⟩ := ht
          simp only at hx hl hr
          simp only [Bool.and_eq_true, decide_eq_true_eq, not_and] at hterm
          simp only [lev3]
          by_cases h1 : x < 2
          · by_cases h2 : l < 2
            · have := varOf_lt_of_node hR hr (hterm ⟨h1, h2⟩); omega
            · have := varOf_lt_of_node hL hl h2; omega
          · have := varOf_lt_of_node hX hx h1; omega
        rw [if_neg (by omega)] at h
        obtain ⟨kin, _⟩ := kid3_spec c fl fr fo hX hL hR ht hdn
        -- the recursive call on the cofactor `β` that rejects
        have hrec : ∀ (β : Bool) (kx kl kr : Nat) (S1 : Std.HashSet T3),
            kid3 X L R n fl fr fo (x, l, r) β = (kx, kl, kr) →
            (C04.walk2 X L R n c fl fr fo fuel kx kl kr S1).1 = false →
            ∃ v : Nat → Bool, (∀ i, i < k → v i = u i) ∧ ¬ Eat3 X L R n c fl fr fo (x, l, r) v := by
          intro β kx kl kr S1 hkk hf
          have hin := (kin β).1
          have hm := (kin β).2
          have hat := fun v => kid3_at c fl fr fo hX hL hR ht hdn v
          rw [hkk] at hin hm
          obtain ⟨v, hv, hnot⟩ := ih kx kl kr S1 hin (by omega) hf (upd u (lev3 X L R n (x, l, r)) β)
            (lev3 X L R n (x, l, r) + 1) (by simp only [mu3] at hm; omega)
          have hvd : v (lev3 X L R n (x, l, r)) = β := by
            rw [hv _ (Nat.lt_succ_self _)]; simp [upd]
          refine ⟨v, ?_, ?_⟩
          · intro i hi
            rw [hv i (by omega)]
            have : i ≠ lev3 X L R n (x, l, r) := by omega
            simp [upd, this]
          · rw [hat v, hvd, hkk]; exact hnot
        generalize hr1 : C04.walk2 X L R n c fl fr fo fuel _ _ _ (S.insert (x, l, r)) = r1 at h
        by_cases hr1t : r1.1 = true
        · simp only [hr1t, Bool.not_true, Bool.false_eq_true, if_false] at h
          exact hrec false _ _ _ r1.2 rfl h
        · have hr1f : r1.1 = false := by simpa using hr1t
          exact hrec true _ _ _ (S.insert (x, l, r)) rfl (by rw [← hr1f, ← hr1])

/-- **A rejecting `Drive.C04.walk2` from the roots with fuel `> n` is conclusive.** -/
theorem walk2_complete {X L R : Arr} {n : Nat} (c : Bool → Bool → Bool) (fl fr fo : Option Nat)
    (hX : WFo X n) (hL : WFo L n) (hR : WFo R n) (fuel : Nat) (hfuel : n < fuel) (S : Std.HashSet T3)
    (h : (C04.walk2 X L R n c fl fr fo fuel (root X) (root L) (root R) S).1 = false) :
    ∃ v, evalArr X v ≠ c (evalArr L (inv fl (inv fo v))) (evalArr R (inv fr (inv fo v))) := by
  have hroot : InB3 X L R (root X, root L, root R) := ⟨root_lt hX, root_lt hL, root_lt hR⟩
  obtain ⟨v, _, hv⟩ := walk2_reject c fl fr fo hX hL hR fuel _ _ _ S hroot
    (by simp only [mu3]; omega) h (fun _ => false) 0 (Nat.zero_le _)
  refine ⟨v, ?_⟩
  have e1 : evalArr X v = evW X n v (root X) := by unfold evalArr evW; rw [numVars_of_wf hX]
  have e2 : ∀ w, evalArr L w = evW L n w (root L) := by intro w; unfold evalArr evW; rw [numVars_of_wf hL]
  have e3 : ∀ w, evalArr R w = evW R n w (root R) := by intro w; unfold evalArr evW; rw [numVars_of_wf hR]
  rw [e1, e2, e3]; exact hv

/-- in the driver's own terms (`checkBin`: fuel `n + 2`, empty memo table, `invV`) -/
theorem walk2_complete_driver {X L R : Arr} {n : Nat} (c : Bool → Bool → Bool) (fl fr fo : Option Nat)
    (hX : wfoB X n = true) (hL : wfoB L n = true) (hR : wfoB R n = true)
    (h : (C04.walk2 X L R n c fl fr fo (n + 2) (root X) (root L) (root R) {}).1 = false) :
    ∃ v, evalArr X v ≠ c (evalArr L (C04.invV fl (C04.invV fo v))) (evalArr R (C04.invV fr (C04.invV fo v))) := by
  obtain ⟨v, hv⟩ := walk2_complete c fl fr fo (wfoB_sound hX) (wfoB_sound hL) (wfoB_sound hR) (n + 2) (by omega) {} h
  exact ⟨v, by simpa only [invV_eq_inv] using hv⟩

/-! ### ternary -/

section
variable (X A B C : Arr) (n : Nat) (c : Bool → Bool → Bool → Bool) (fa fb fc fo : Option Nat)
def Eat4 (t : T) (v : Nat → Bool) : Prop :=
  evW X n v t.1 = c (evW A n (inv fa (inv fo v)) t.2.1) (evW B n (inv fb (inv fo v)) t.2.2.1)
    (evW C n (inv fc (inv fo v)) t.2.2.2)
end

theorem kid4_at {X A B C : Arr} {n : Nat} (c : Bool → Bool → Bool → Bool) (fa fb fc fo : Option Nat)
    (hX : WFo X n) (hA : WFo A n) (hB : WFo B n) (hC : WFo C n) {t : T} (ht : InB4 X A B C t)
    (hd : lev4 X A B C n t < n) (v : Nat → Bool) :
    Eat4 X A B C n c fa fb fc fo t v ↔
      Eat4 X A B C n c fa fb fc fo (kid4 X A B C n fa fb fc fo t (v (lev4 X A B C n t))) v := by
  obtain ⟨x, p, q, r⟩ := t
  obtain ⟨hx, hp, hq, hr⟩ := ht
  simp only at hx hp hq hr
  generalize hdd : lev4 X A B C n (x, p, q, r) = d at hd
  have hle : d ≤ varOf X n x ∧ d ≤ varOf A n p ∧ d ≤ varOf B n q ∧ d ≤ varOf C n r := by
    simp only [lev4] at hdd; omega
  have hkid : kid4 X A B C n fa fb fc fo (x, p, q, r) (v d) = (C04.cof X n x d (v d),
      C04.cof A n p d ((v d != C04.isF fo d) != C04.isF fa d), C04.cof B n q d ((v d != C04.isF fo d) != C04.isF fb d),
      C04.cof C n r d ((v d != C04.isF fo d) != C04.isF fc d)) := by
    simp only [kid4, hdd]
  rw [hkid]
  have e1 := (cof_spec hX hx d hd hle.1 (v d)).2.2 v rfl
  have e2 := (cof_spec hA hp d hd hle.2.1 ((v d != C04.isF fo d) != C04.isF fa d)).2.2 (inv fa (inv fo v))
    (by rw [inv_at, inv_at])
  have e3 := (cof_spec hB hq d hd hle.2.2.1 ((v d != C04.isF fo d) != C04.isF fb d)).2.2 (inv fb (inv fo v))
    (by rw [inv_at, inv_at])
  have e4 := (cof_spec hC hr d hd hle.2.2.2 ((v d != C04.isF fo d) != C04.isF fc d)).2.2 (inv fc (inv fo v))
    (by rw [inv_at, inv_at])
  unfold Eat4
  simp only
  rw [e1, e2, e3, e4]

theorem term4_not_E {X A B C : Arr} (n : Nat) (c : Bool → Bool → Bool → Bool) (fa fb fc fo : Option Nat) {t : T}
    (h1 : t.1 < 2) (h2 : t.2.1 < 2) (h3 : t.2.2.1 < 2) (h4 : t.2.2.2 < 2)
    (he : ((t.1 == 1) == c (t.2.1 == 1) (t.2.2.1 == 1) (t.2.2.2 == 1)) = false)
    (v : Nat → Bool) : ¬ Eat4 X A B C n c fa fb fc fo t v := by
  obtain ⟨x, p, q, r⟩ := t
  simp only at h1 h2 h3 h4 he
  unfold Eat4
  simp only
  rw [evW_term X n v h1, evW_term A n _ h2, evW_term B n _ h3, evW_term C n _ h4]
  have a1 : decide (x = 1) = (x == 1) := rfl
  have a2 : decide (p = 1) = (p == 1) := rfl
  have a3 : decide (q = 1) = (q == 1) := rfl
  have a4 : decide (r = 1) = (r == 1) := rfl
  rw [a1, a2, a3, a4]
  intro heq
  rw [heq] at he
  simp at he

theorem walk3_reject {X A B C : Arr} {n : Nat} (c : Bool → Bool → Bool → Bool) (fa fb fc fo : Option Nat)
    (hX : WFo X n) (hA : WFo A n) (hB : WFo B n) (hC : WFo C n) :
    ∀ (fuel x p q r : Nat) (S : Std.HashSet T), InB4 X A B C (x, p, q, r) → mu4 X A B C n (x, p, q, r) < fuel →
      (C04.walk3 X A B C n c fa fb fc fo fuel x p q r S).1 = false →
      ∀ (u : Nat → Bool) (k : Nat), k ≤ lev4 X A B C n (x, p, q, r) →
        ∃ v : Nat → Bool, (∀ i, i < k → v i = u i) ∧ ¬ Eat4 X A B C n c fa fb fc fo (x, p, q, r) v := by
  intro fuel
  induction fuel with
  | zero => intro x p q r S _ hmu; omega
  | succ fuel ih =>
    intro x p q r S ht hmu h u k hk
    rw [C04.walk3] at h
    by_cases hterm : (decide (x < 2) && decide (p < 2) && decide (q < 2) && decide (r < 2)) = true
    · rw [if_pos hterm] at h
      simp only [Bool.and_eq_true, decide_eq_true_eq] at hterm
      exact ⟨u, fun _ _ => rfl, term4_not_E n c fa fb fc fo hterm.1.1.1 hterm.1.1.2 hterm.1.2 hterm.2 h u⟩
    · rw [if_neg hterm] at h
      by_cases hseen : S.contains (x, p, q, r) = true
      · rw [if_pos hseen] at h; simp at h
      · rw [if_neg hseen] at h
        have hdeq : min (min (varOf X n x) (varOf A n p)) (min (varOf B n q) (varOf C n r)) =
            lev4 X A B C n (x, p, q, r) := rfl
        simp only [hdeq] at h
        have hdn : lev4 X A B C n (x, p, q, r) < n := by
          obtain ⟨hx, hp, hq, hr⟩ := ht
          simp only at hx hp hq hr
          simp only [Bool.and_eq_true, decide_eq_true_eq, not_and] at hterm
          simp only [lev4]
          by_cases h1 : x < 2
          · by_cases h2 : p < 2
            · by_cases h3 : q < 2
              · have := varOf_lt_of_node hC hr (hterm ⟨⟨h1, h2⟩, h3⟩); omega
              · have := varOf_lt_of_node hB hq h3; omega
            · have := varOf_lt_of_node hA hp h2; omega
          · have := varOf_lt_of_node hX hx h1; omega
        rw [if_neg (by omega)] at h
        obtain ⟨kin, _⟩ := kid4_spec c fa fb fc fo hX hA hB hC ht hdn
        have hrec : ∀ (β : Bool) (kx kp kq kr : Nat) (S1 : Std.HashSet T),
            kid4 X A B C n fa fb fc fo (x, p, q, r) β = (kx, kp, kq, kr) →
            (C04.walk3 X A B C n c fa fb fc fo fuel kx kp kq kr S1).1 = false →
            ∃ v : Nat → Bool, (∀ i, i < k → v i = u i) ∧ ¬ Eat4 X A B C n c fa fb fc fo (x, p, q, r) v := by
          intro β kx kp kq kr S1 hkk hf
          have hin := (kin β).1
          have hm := (kin β).2
          have hat := fun v => kid4_at c fa fb fc fo hX hA hB hC ht hdn v
          rw [hkk] at hin hm
          obtain ⟨v, hv, hnot⟩ := ih kx kp kq kr S1 hin (by omega) hf (upd u (lev4 X A B C n (x, p, q, r)) β)
            (lev4 X A B C n (x, p, q, r) + 1) (by simp only [mu4] at hm; omega)
          have hvd : v (lev4 X A B C n (x, p, q, r)) = β := by
            rw [hv _ (Nat.lt_succ_self _)]; simp [upd]
          refine ⟨v, ?_, ?_⟩
          · intro i hi
            rw [hv i (by omega)]
            have : i ≠ lev4 X A B C n (x, p, q, r) := by omega
            simp [upd, this]
          · rw [hat v, hvd, hkk]; exact hnot
        generalize hr1 : C04.walk3 X A B C n c fa fb fc fo fuel _ _ _ _ (S.insert (x, p, q, r)) = r1 at h
        by_cases hr1t : r1.1 = true
        · simp only [hr1t, Bool.not_true, Bool.false_eq_true, if_false] at h
          exact hrec false _ _ _ _ r1.2 rfl h
        · have hr1f : r1.1 = false := by simpa using hr1t
          exact hrec true _ _ _ _ (S.insert (x, p, q, r)) rfl (by rw [← hr1f, ← hr1])

/-- **A rejecting `Drive.C04.walk3` from the roots with fuel `> n` is conclusive.** -/
theorem walk3_complete {X A B C : Arr} {n : Nat} (c : Bool → Bool → Bool → Bool) (fa fb fc fo : Option Nat)
    (hX : WFo X n) (hA : WFo A n) (hB : WFo B n) (hC : WFo C n) (fuel : Nat) (hfuel : n < fuel)
    (S : Std.HashSet T)
    (h : (C04.walk3 X A B C n c fa fb fc fo fuel (root X) (root A) (root B) (root C) S).1 = false) :
    ∃ v, evalArr X v ≠ c (evalArr A (inv fa (inv fo v))) (evalArr B (inv fb (inv fo v)))
      (evalArr C (inv fc (inv fo v))) := by
  have hroot : InB4 X A B C (root X, root A, root B, root C) := ⟨root_lt hX, root_lt hA, root_lt hB, root_lt hC⟩
  obtain ⟨v, _, hv⟩ := walk3_reject c fa fb fc fo hX hA hB hC fuel _ _ _ _ S hroot
    (by simp only [mu4]; omega) h (fun _ => false) 0 (Nat.zero_le _)
  refine ⟨v, ?_⟩
  have e1 : evalArr X v = evW X n v (root X) := by unfold evalArr evW; rw [numVars_of_wf hX]
  have e2 : ∀ w, evalArr A w = evW A n w (root A) := by intro w; unfold evalArr evW; rw [numVars_of_wf hA]
  have e3 : ∀ w, evalArr B w = evW B n w (root B) := by intro w; unfold evalArr evW; rw [numVars_of_wf hB]
  have e4 : ∀ w, evalArr C w = evW C n w (root C) := by intro w; unfold evalArr evW; rw [numVars_of_wf hC]
  rw [e1, e2, e3, e4]; exact hv

/-- in the driver's own terms (`checkTer`) -/
theorem walk3_complete_driver {X A B C : Arr} {n : Nat} (c : Bool → Bool → Bool → Bool) (fa fb fc fo : Option Nat)
    (hX : wfoB X n = true) (hA : wfoB A n = true) (hB : wfoB B n = true) (hC : wfoB C n = true)
    (h : (C04.walk3 X A B C n c fa fb fc fo (n + 2) (root X) (root A) (root B) (root C) {}).1 = false) :
    ∃ v, evalArr X v ≠ c (evalArr A (C04.invV fa (C04.invV fo v))) (evalArr B (C04.invV fb (C04.invV fo v)))
      (evalArr C (C04.invV fc (C04.invV fo v))) := by
  obtain ⟨v, hv⟩ := walk3_complete c fa fb fc fo (wfoB_sound hX) (wfoB_sound hA) (wfoB_sound hB) (wfoB_sound hC)
    (n + 2) (by omega) {} h
  exact ⟨v, by simpa only [invV_eq_inv] using hv⟩

/-- the fuel hypothesis cannot be dropped: with fuel 0 the walk rejects a correct result -/
example : (C04.walk2 ex4X ex4L ex4R 2 (· && ·) (some 1) none none 0 (root ex4X) (root ex4L) (root ex4R) {}).1 = false := rfl

end B.ExactWalk
