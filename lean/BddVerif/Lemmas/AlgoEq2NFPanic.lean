import BddVerif.Lemmas.AlgoEq2NF
import BddVerif.Lemmas.AlgoEq2NFPanicSim
/-!
# `mk_cnf` / `mk_disjunctive_clause`: the deliberate panics

* `mk_disjunctive_clause_panics` — a clause that fixes a variable `≥ num_vars`: the translated constructor panics with
  the message of `assert!(index < self.num_vars as usize)` (line 207; the hand model `mkDisjClause` panics too:
  `Props.C10.clause_ctor_spec`);
* `Bdd_mk_cnf_singleton_panics` — `mk_cnf` on a one-clause list with such a clause panics with the same message, for every
  fuel `≥ 2`;
* `Bdd_mk_cnf_panics` — the translated counterpart of `Props.C10.mk_cnf_panics_iff`: a list with SOME clause outside the
  variable set makes the translated `mk_cnf` panic with the message of line 207 or of the `assert_eq!(*cx, c)` of
  line 19 (never `"fuel"`), for every fuel `≥ n + 2 + 3·S·S`; closed form `Bdd_mk_cnf_panics_closed` (`n ≤ 15`),
  driver's fuel `BddVariableSet_mk_cnf_panics_driver` (`n ≤ 14`).
(`mk_dnf` has no such assertion — `Props.C10`: a clause outside the variable set silently yields an invalid array.)
-/
namespace B.AlgoEq2NF
open B B.NF B.Gen B.Gen.Algo B.Gen.Algo2 B.AlgoEqUtil

attribute [local instance 10000] Rust.monadOutcomeInline

theorem disj_loop_panics (n : Nat) : ∀ (l : List (Option Bool)) (i : Nat), i + l.length ≤ 65536 →
    (∃ j b, l[j]? = some (some b) ∧ n ≤ i + j) →
    iterL (disjStep n) (l.mapIdx fun j x => (i + j, x)).reverse (mkTrue n, 0) = .panic disjMsg := by
  intro l
  induction l with
  | nil => intro i _ ⟨j, b, h, _⟩; simp at h
  | cons x t ih =>
    intro i hlen hbad
    simp only [List.length_cons] at hlen
    have hf : (fun (j : Nat) (x : Option Bool) => (i + (j + 1), x)) = (fun j x => (i + 1 + j, x)) := by
      funext j x; congr 1; omega
    rw [List.mapIdx_cons, hf, List.reverse_cons, iterL_append _ (disjStep_not_done n)]
    by_cases ht : ∃ j b, t[j]? = some (some b) ∧ n ≤ i + 1 + j
    · rw [ih (i + 1) (by omega) ht]; rfl
    · have hin : ∀ j b, t[j]? = some (some b) → i + 1 + j < n := by
        intro j b hj
        rcases Nat.lt_or_ge (i + 1 + j) n with h | h
        · exact h
        · exact absurd ⟨j, b, hj, h⟩ ht
      obtain ⟨A, sh, _, e2, _, _⟩ := disj_loop n t (i + 1) hin (by omega)
      rw [e2]
      obtain ⟨j, b, hj, hn⟩ := hbad
      cases j with
      | zero =>
        simp only [List.getElem?_cons_zero, Option.some.injEq] at hj
        subst hj
        have hi : ¬ i < n := by omega
        simp only [Outcome.bind, iterL_cons, disjStep, Nat.add_zero, hi, decide_false, Bool.not_false, if_true]
      | succ j =>
        exact absurd ⟨j, b, by simpa using hj, by omega⟩ ht

/-- **line 207 of src/_impl_bdd_variable_set.rs**: a clause that fixes a variable outside the variable set -/
theorem mk_disjunctive_clause_panics (ctx : VarSet) (c : Array (Option Bool)) (hr : ¬ InRange ctx.1 c.toList)
    (hlen : c.size ≤ 65536) : BddVariableSet_mk_disjunctive_clause ctx c = .panic disjMsg := by
  have hbad : ∃ j b, c.toList[j]? = some (some b) ∧ ctx.1 ≤ 0 + j := by
    apply Classical.byContradiction
    intro hno
    apply hr
    intro x b hx
    rcases Nat.lt_or_ge x ctx.1 with h | h
    · exact h
    · exfalso
      apply hno
      refine ⟨x, b, ?_, by omega⟩
      unfold PVal.get at hx
      rcases hq : c.toList[x]? with _ | o
      · rw [hq] at hx; cases hx
      · rw [hq] at hx; simp only [Option.getD_some] at hx; rw [hx]
  have hne : isEmptyClause c.toList = false := by
    obtain ⟨j, b, hj, _⟩ := hbad
    unfold isEmptyClause
    rw [List.all_eq_false]
    refine ⟨some b, List.mem_of_getElem? hj, by simp⟩
  unfold BddVariableSet_mk_disjunctive_clause
  have hemp : BddPartialValuation_is_empty c = isEmptyClause c.toList := by
    unfold BddPartialValuation_is_empty isEmptyClause
    rw [Array.all_toList]
  rw [hemp, hne]
  simp only [Bool.false_eq_true, if_false, forIn_array_eq_iterL]
  rw [iterL_congr _ (disjStep ctx.1) _ (by intro x _ s; rcases x with ⟨i, _ | b⟩ <;> rfl)]
  have henum : (Rust.enumerate c).reverse.toList = (c.toList.mapIdx fun j x => (0 + j, x)).reverse := by
    unfold Rust.enumerate
    rw [Array.toList_reverse, Array.toList_mapIdx]
    simp
  rw [henum]
  show (iterL (disjStep ctx.1) _ (mkTrue ctx.1, 0)).bind _ = _
  rw [disj_loop_panics ctx.1 c.toList 0 (by simpa using hlen) hbad]
  rfl

/-- `mk_cnf` on a single clause outside the variable set: the panic of `mk_disjunctive_clause`, for every fuel `≥ 2` -/
theorem Bdd_mk_cnf_singleton_panics (ctx : VarSet) (c : Array (Option Bool)) (hr : ¬ InRange ctx.1 c.toList)
    (hlen : c.size ≤ 65536) (fuel : Nat) (hfuel : 2 ≤ fuel) : Bdd_mk_cnf fuel ctx #[c] = .panic disjMsg := by
  unfold Bdd_mk_cnf
  show Bdd_mk_cnf___rec fuel 0 ctx #[c] = _
  rw [cnf_desugar]
  obtain ⟨f, rfl⟩ : ∃ f', fuel = f' + 2 := ⟨fuel - 2, by omega⟩
  rw [tRec, iter_succ]
  have hstep : nfStep (cnfCfg ctx) #[c] (tRec (cnfCfg ctx) (f + 1)) ((cnfCfg ctx).comb (f + 1)) (none, 0) =
      .panic disjMsg := by
    unfold nfStep
    have h1 : (#[c] : Cl).isEmpty = false := rfl
    have h2 : ((0 : Nat) == (cnfCfg ctx).n || (#[c] : Cl).size == 1) = true := by simp
    simp only [h1, Bool.false_eq_true, if_false, h2, if_true]
    have hidx : Rust.idx (#[c] : Cl) 0 = .ok c := rfl
    have hsl : Rust.sliceFrom (#[c] : Cl) 1 = .ok #[] := rfl
    rw [hidx, hsl]
    simp only [Outcome.bind]
    rw [dup_loop]
    simp only [List.all_nil, if_true]
    show ((cnfCfg ctx).leaf c).bind _ = _
    show (BddVariableSet_mk_disjunctive_clause ctx c).bind _ = _
    rw [mk_disjunctive_clause_panics ctx c hr hlen]
    rfl
  rw [hstep]
  rfl

/-! ### the general form -/

/-- every combination performed by `mkCnfRec` is on canonical operands, whatever the clause list (a group with a clause
    outside the variable set never returns normally) -/
theorem cnf_combOK_any (ctx : VarSet) (S : Nat) (hS : ∀ f, (canon ctx.1 f).size ≤ S) :
    ∀ (k : Nat) (cs : List PVal), k ≤ ctx.1 → Agree (ctx.1 - k) cs → CombOK (cnfCfg ctx) (PairOK ctx.1 S) k cs := by
  intro k
  induction k with
  | zero => intro cs _ _; trivial
  | succ k ih =>
    intro cs hk ha
    match cs, ha with
    | [], _ => trivial
    | [c], _ => trivial
    | c1 :: c2 :: t, ha =>
      have hvar : ctx.1 - (k + 1) + 1 = ctx.1 - k := by omega
      simp only [CombOK]
      dsimp only [cnfCfg_n]
      rcases hno : ((c1 :: c2 :: t).any fun c => (c.get (ctx.1 - (k + 1))).isSome) with _ | _
      · exact ih _ (by omega) (by rw [← hvar]; exact ha.skip hno)
      · simp only []
        have hag : ∀ o, Agree (ctx.1 - k) ((c1 :: c2 :: t).filter (fun c => c.get (ctx.1 - (k + 1)) == o)) :=
          fun o => by rw [← hvar]; exact ha.filter o
        refine ⟨ih _ (by omega) (hag none), ih _ (by omega) (hag _), ih _ (by omega) (hag _), ?_⟩
        intro dc ht hf e1 e2 e3
        rw [← mkCnfRec_eq_genRec] at e1 e2 e3
        have hin : ∀ (l : List PVal) (r : Arr), mkCnfRec ctx.1 k l = .ok r → ∀ c ∈ l, InRange ctx.1 c := by
          intro l r e c hc
          apply Classical.byContradiction
          intro hnot
          have := (mkCnfRec_total ctx.1 k l).2 ⟨c, hc, hnot⟩
          rw [e] at this; cases this
        obtain ⟨r1, e1', s1⟩ := mkCnfRec_spec ctx.1 k _ (by omega) (hin _ _ e1) (hag none)
        obtain ⟨r2, e2', s2⟩ := mkCnfRec_spec ctx.1 k _ (by omega) (hin _ _ e2) (hag (some true))
        obtain ⟨r3, e3', s3⟩ := mkCnfRec_spec ctx.1 k _ (by omega) (hin _ _ e3) (hag (some false))
        have h1 : r1 = dc := Outcome.ok.inj (e1'.symm.trans e1)
        have h2 : r2 = ht := Outcome.ok.inj (e2'.symm.trans e2)
        have h3 : r3 = hf := Outcome.ok.inj (e3'.symm.trans e3)
        subst h1 h2 h3
        have s12 := s1.and s2
        have hz : ∀ {A : Arr} {f : (Nat → Bool) → Bool}, Sem ctx.1 A f → A.size ≤ S := fun h => by rw [h.eq]; exact hS _
        exact ⟨⟨s1.wfo, s2.wfo, hz s1, hz s2⟩, ⟨s12.wfo, s3.wfo, hz s12, hz s3⟩⟩

/-- **the deliberate panics of `mk_cnf`, translated code**: some clause fixes a variable outside the variable set ⇒ the
    translated function panics with the message of `assert!(index < self.num_vars)` (`mk_disjunctive_clause`) or of
    `assert_eq!(*cx, c)` — for every fuel `≥ n + 2 + 3·S·S`, `S` a bound on the canonical arrays over `n` variables -/
theorem Bdd_mk_cnf_panics (ctx : VarSet) (S : Nat) (hS : ∀ f, (canon ctx.1 f).size ≤ S) (h32 : S * S + 2 ≤ 2 ^ 32)
    (cnf : Cl) (hlen : ∀ c, c ∈ cnf.toList → c.size ≤ 65536)
    (hbad : ∃ c, c ∈ cnf.toList ∧ ¬ InRange ctx.1 c.toList) (fuel : Nat) (hfuel : ctx.1 + 2 + 3 * (S * S) ≤ fuel) :
    Bdd_mk_cnf fuel ctx cnf = .panic disjMsg ∨ Bdd_mk_cnf fuel ctx cnf = .panic dupMsg := by
  obtain ⟨c, hc, hcbad⟩ := hbad
  have hp := (mkCnfRec_total ctx.1 ctx.1 (toL cnf)).2 ⟨c.toList, List.mem_map_of_mem hc, hcbad⟩
  rcases e : mkCnfRec ctx.1 ctx.1 (toL cnf) with r | m | mm
  · rw [e] at hp; cases hp
  · rw [e] at hp; cases hp
  · rw [mkCnfRec_eq_genRec] at e
    unfold Bdd_mk_cnf
    show Bdd_mk_cnf___rec fuel 0 ctx cnf = _ ∨ Bdd_mk_cnf___rec fuel 0 ctx cnf = _
    rw [cnf_desugar]
    refine tRec_panic_genRec (cnfCfg ctx) (PairOK ctx.1 S) (3 * (S * S)) disjMsg
      (fun f A B hP hf => Bdd_and_eq_model h32 f A B hP hf) ctx.1 fuel 0 cnf mm (by simp) hfuel ?_ ?_
      (cnf_combOK_any ctx S hS ctx.1 (toL cnf) (Nat.le_refl _) (by intro c _ d _ i hi; omega)) e
    · intro x hx r h
      have hin : InRange ctx.1 x.toList := by
        apply Classical.byContradiction
        intro hnot
        have : mkDisjClause ctx.1 x.toList = .ok r := h
        rw [mkDisjClause_foreign hnot] at this; cases this
      exact (mk_disjunctive_clause_eq_model ctx x hin (hlen x hx)).trans h
    · intro x hx m h
      have hout : ¬ InRange ctx.1 x.toList := by
        intro hin
        obtain ⟨r, er, _⟩ := mkDisjClause_inRange hin
        have : mkDisjClause ctx.1 x.toList = .panic m := h
        rw [er] at this; cases this
      exact mk_disjunctive_clause_panics ctx x hout (hlen x hx)

/-- closed form: at most 15 variables -/
theorem Bdd_mk_cnf_panics_closed (ctx : VarSet) (hn : ctx.1 ≤ 15) (cnf : Cl) (hlen : ∀ c, c ∈ cnf.toList → c.size ≤ 65536)
    (hbad : ∃ c, c ∈ cnf.toList ∧ ¬ InRange ctx.1 c.toList) (fuel : Nat)
    (hfuel : ctx.1 + 2 + 3 * ((2 ^ ctx.1 + 1) * (2 ^ ctx.1 + 1)) ≤ fuel) :
    Bdd_mk_cnf fuel ctx cnf = .panic disjMsg ∨ Bdd_mk_cnf fuel ctx cnf = .panic dupMsg :=
  Bdd_mk_cnf_panics ctx _ (canon_size_le _) (closed_bounds hn) cnf hlen hbad fuel hfuel

/-- the driver's call: at most 14 variables -/
theorem BddVariableSet_mk_cnf_panics_driver (set : VarSet) (hn : set.1 ≤ 14) (cnf : Cl)
    (hlen : ∀ c, c ∈ cnf.toList → c.size ≤ 65536) (hbad : ∃ c, c ∈ cnf.toList ∧ ¬ InRange set.1 c.toList) :
    BddVariableSet_mk_cnf Drive.Algo2.fuelHuge set cnf = .panic disjMsg ∨
      BddVariableSet_mk_cnf Drive.Algo2.fuelHuge set cnf = .panic dupMsg := by
  unfold BddVariableSet_mk_cnf Drive.Algo2.fuelHuge
  exact Bdd_mk_cnf_panics_closed set (by omega) cnf hlen hbad _ (closed_fuel hn)

/-! ### non-vacuity -/

/-- `x0 ∧ ¬x2` over TWO variables -/
example (fuel : Nat) (h : 2 ≤ fuel) : Bdd_mk_cnf fuel (2, #["a", "b"], {}) #[#[some true, none, some false]] =
    .panic "assertion failed: assert!(index < self.num_vars as usize);" :=
  Bdd_mk_cnf_singleton_panics (2, #["a", "b"], {}) _ (by
    intro hin
    have := hin 2 false (by simp [PVal.get])
    omega) (by decide) fuel h

/-- two different clauses that agree on the two variables of the set and differ outside it: whichever assertion the run
    reaches first, the translated function panics (driver's fuel) -/
example : BddVariableSet_mk_cnf Drive.Algo2.fuelHuge (2, #["a", "b"], {})
      #[#[some true, none, some false], #[some true, none, some true]] = .panic disjMsg ∨
    BddVariableSet_mk_cnf Drive.Algo2.fuelHuge (2, #["a", "b"], {})
      #[#[some true, none, some false], #[some true, none, some true]] = .panic dupMsg :=
  BddVariableSet_mk_cnf_panics_driver (2, #["a", "b"], {}) (by decide) _ (by decide)
    ⟨#[some true, none, some false], by simp, by
      intro hin
      have := hin 2 false (by simp [PVal.get])
      omega⟩

end B.AlgoEq2NF
