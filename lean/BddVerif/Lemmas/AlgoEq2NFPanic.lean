import BddVerif.Lemmas.AlgoEq2NF
/-!
# `mk_cnf` / `mk_disjunctive_clause`: the deliberate panic `assert!(index < self.num_vars as usize)`

* `mk_disjunctive_clause_panics` — a clause that fixes a variable `≥ num_vars`: the translated constructor panics with
  the message of line 207 (the hand model `mkDisjClause` panics too: `Props.C10.clause_ctor_spec`);
* `Bdd_mk_cnf_singleton_panics` — `mk_cnf` on a one-clause list with such a clause panics with the same message, for every
  fuel `≥ 2`.
The general statement "a list with SOME clause outside the variable set makes the translated `mk_cnf` panic with the
message of line 207 or of the `assert_eq!` of line 19" is recorded as `Bdd_mk_cnf_panics_statement` (not proved: the
simulation of AlgoEq2NFBase.lean follows the runs on which the hand model returns normally).
-/
namespace B.AlgoEq2NF
open B B.NF B.Gen B.Gen.Algo B.Gen.Algo2 B.AlgoEqUtil

attribute [local instance 10000] Rust.monadOutcomeInline

theorem disj_loop_panics (n : Nat) : ∀ (l : List (Option Bool)) (i : Nat), i + l.length ≤ 65536 →
    (∃ j b, l[j]? = some (some b) ∧ n ≤ i + j) →
    iterL (disjStep n) (l.mapIdx fun j x => (i + j, x)).reverse (mkTrue n, 0) = .panic disjMsg := by
  intro l
  induction l with
  | nil => intro i _ ⟨j, b, h, _⟩; simp at h
  | cons x t ih =>
    intro i hlen hbad
    simp only [List.length_cons] at hlen
    have hf : (fun (j : Nat) (x : Option Bool) => (i + (j + 1), x)) = (fun j x => (i + 1 + j, x)) := by
      funext j x; congr 1; omega
    rw [List.mapIdx_cons, hf, List.reverse_cons, iterL_append _ (disjStep_not_done n)]
    by_cases ht : ∃ j b, t[j]? = some (some b) ∧ n ≤ i + 1 + j
    · rw [ih (i + 1) (by omega) ht]; rfl
    · have hin : ∀ j b, t[j]? = some (some b) → i + 1 + j < n := by
        intro j b hj
        rcases Nat.lt_or_ge (i + 1 + j) n with h | h
        · exact h
        · exact absurd ⟨j, b, hj, h⟩ ht
      obtain ⟨A, sh, _, e2, _, _⟩ := disj_loop n t (i + 1) hin (by omega)
      rw [e2]
      obtain ⟨j, b, hj, hn⟩ := hbad
      cases j with
      | zero =>
        simp only [List.getElem?_cons_zero, Option.some.injEq] at hj
        subst hj
        have hi : ¬ i < n := by omega
        simp only [Outcome.bind, iterL_cons, disjStep, Nat.add_zero, hi, decide_false, Bool.not_false, if_true]
      | succ j =>
        exact absurd ⟨j, b, by simpa using hj, by omega⟩ ht

/-- **line 207 of src/_impl_bdd_variable_set.rs**: a clause that fixes a variable outside the variable set -/
theorem mk_disjunctive_clause_panics (ctx : VarSet) (c : Array (Option Bool)) (hr : ¬ InRange ctx.1 c.toList)
    (hlen : c.size ≤ 65536) : BddVariableSet_mk_disjunctive_clause ctx c = .panic disjMsg := by
  have hbad : ∃ j b, c.toList[j]? = some (some b) ∧ ctx.1 ≤ 0 + j := by
    apply Classical.byContradiction
    intro hno
    apply hr
    intro x b hx
    rcases Nat.lt_or_ge x ctx.1 with h | h
    · exact h
    · exfalso
      apply hno
      refine ⟨x, b, ?_, by omega⟩
      unfold PVal.get at hx
      rcases hq : c.toList[x]? with _ | o
      · rw [hq] at hx; cases hx
      · rw [hq] at hx; simp only [Option.getD_some] at hx; rw [hx]
  have hne : isEmptyClause c.toList = false := by
    obtain ⟨j, b, hj, _⟩ := hbad
    unfold isEmptyClause
    rw [List.all_eq_false]
    refine ⟨some b, List.mem_of_getElem? hj, by simp⟩
  unfold BddVariableSet_mk_disjunctive_clause
  have hemp : BddPartialValuation_is_empty c = isEmptyClause c.toList := by
    unfold BddPartialValuation_is_empty isEmptyClause
    rw [Array.all_toList]
  rw [hemp, hne]
  simp only [Bool.false_eq_true, if_false, forIn_array_eq_iterL]
  rw [iterL_congr _ (disjStep ctx.1) _ (by intro x _ s; rcases x with ⟨i, _ | b⟩ <;> rfl)]
  have henum : (Rust.enumerate c).reverse.toList = (c.toList.mapIdx fun j x => (0 + j, x)).reverse := by
    unfold Rust.enumerate
    rw [Array.toList_reverse, Array.toList_mapIdx]
    simp
  rw [henum]
  show (iterL (disjStep ctx.1) _ (mkTrue ctx.1, 0)).bind _ = _
  rw [disj_loop_panics ctx.1 c.toList 0 (by simpa using hlen) hbad]
  rfl

/-- `mk_cnf` on a single clause outside the variable set: the panic of `mk_disjunctive_clause`, for every fuel `≥ 2` -/
theorem Bdd_mk_cnf_singleton_panics (ctx : VarSet) (c : Array (Option Bool)) (hr : ¬ InRange ctx.1 c.toList)
    (hlen : c.size ≤ 65536) (fuel : Nat) (hfuel : 2 ≤ fuel) : Bdd_mk_cnf fuel ctx #[c] = .panic disjMsg := by
  unfold Bdd_mk_cnf
  show Bdd_mk_cnf___rec fuel 0 ctx #[c] = _
  rw [cnf_desugar]
  obtain ⟨f, rfl⟩ : ∃ f', fuel = f' + 2 := ⟨fuel - 2, by omega⟩
  rw [tRec, iter_succ]
  have hstep : nfStep (cnfCfg ctx) #[c] (tRec (cnfCfg ctx) (f + 1)) ((cnfCfg ctx).comb (f + 1)) (none, 0) =
      .panic disjMsg := by
    unfold nfStep
    have h1 : (#[c] : Cl).isEmpty = false := rfl
    have h2 : ((0 : Nat) == (cnfCfg ctx).n || (#[c] : Cl).size == 1) = true := by simp
    simp only [h1, Bool.false_eq_true, if_false, h2, if_true]
    have hidx : Rust.idx (#[c] : Cl) 0 = .ok c := rfl
    have hsl : Rust.sliceFrom (#[c] : Cl) 1 = .ok #[] := rfl
    rw [hidx, hsl]
    simp only [Outcome.bind]
    rw [dup_loop]
    simp only [List.all_nil, if_true]
    show ((cnfCfg ctx).leaf c).bind _ = _
    show (BddVariableSet_mk_disjunctive_clause ctx c).bind _ = _
    rw [mk_disjunctive_clause_panics ctx c hr hlen]
    rfl
  rw [hstep]
  rfl

/-- NOT PROVED — the general form of the deliberate panics of `mk_cnf`: some clause outside the variable set ⇒ the
    translated function panics with the message of `assert!(index < self.num_vars)` or of `assert_eq!(*cx, c)`
    (the hand model: `Props.C10.mk_cnf_panics_iff`) -/
def Bdd_mk_cnf_panics_statement : Prop :=
  ∀ (ctx : VarSet) (cnf : Cl), (∀ c, c ∈ cnf.toList → c.size ≤ 65536) → (∃ c, c ∈ cnf.toList ∧ ¬ InRange ctx.1 c.toList) →
    ∃ F, ∀ fuel, F ≤ fuel → Bdd_mk_cnf fuel ctx cnf = .panic disjMsg ∨ Bdd_mk_cnf fuel ctx cnf = .panic dupMsg

/-! ### non-vacuity -/

/-- `x0 ∧ ¬x2` over TWO variables -/
example (fuel : Nat) (h : 2 ≤ fuel) : Bdd_mk_cnf fuel (2, #["a", "b"], {}) #[#[some true, none, some false]] =
    .panic "assertion failed: assert!(index < self.num_vars as usize);" :=
  Bdd_mk_cnf_singleton_panics (2, #["a", "b"], {}) _ (by
    intro hin
    have := hin 2 false (by simp [PVal.get])
    omega) (by decide) fuel h

end B.AlgoEq2NF
