import BddVerif.Lemmas.AlgoEq2VarSetClause
import BddVerif.Lemmas.AlgoEqApply
import BddVerif.Lemmas.AlgoEqRestrictThm
import BddVerif.Lemmas.VarSetSat
import BddVerif.Props.C16
/-!
# `mk_sat_exactly_k` / `mk_sat_up_to_k` (src/_impl_bdd_variable_set.rs:243-299) as translated = `VS.mkSatExactlyK/UpToK`

Composition of `mk_conjunctive_clause_rel_vs` (prologue) with the PROVED equivalence of the translated `apply_with_flip`
(`B.apply_with_flip_eq_model`) inside the two nested `for` loops. The operands of every `apply` are canonical
(`VS.Sem`, from `Lemmas/VarSetSat.lean`), hence well formed; what `apply_with_flip_eq_model` needs in addition is a
bound on their sizes (pointers must fit `u32`, fuel `≥ 3·|L|·|R|`). No a-priori bound on the size of a canonical
array is available in this development, so the bound is a hypothesis about the MODEL's run: `ExactlyOK n M vars k c`
/ `UpToOK …` ("every operand of every apply has at most `M` nodes"), discharged on concrete inputs by evaluating
`canon` (see `ex_exactly_ok`). Then `M² + 2 ≤ 2^32` and fuel `≥ 3·M²` suffice.
-/
namespace B.AlgoEq2VS
open B B.Gen B.AlgoEqUtil B.AlgoEq2Ren Std
attribute [local instance 10000] Rust.monadOutcomeInline

theorem obind_ok {α β} (a : α) (f : α → Outcome β) : (Outcome.ok a).bind f = f a := rfl

/-! ### the valuation `vars ↦ false` -/

theorem allFalse_loop (vars : List Nat) : ∀ (p : Array (Option Bool)),
    iterL (fun var (s : Array (Option Bool)) => (pure (ForInStep.yield (Rust.pvalSetValue s var false)) : Outcome _)) vars p =
      .ok (vars.foldl (fun r x => Rust.pvalSetValue r x false) p) := by
  induction vars with
  | nil => intro p; rfl
  | cons a t ih => intro p; rw [iterL_cons]; exact ih _

theorem foldl_pvalSet_toList (vars : List Nat) : ∀ (p : Array (Option Bool)),
    (vars.foldl (fun r x => Rust.pvalSetValue r x false) p).toList = vars.foldl (fun (pv : PVal) x => PVal.set pv x false) p.toList := by
  induction vars with
  | nil => intro p; rfl
  | cons a t ih => intro p; simp only [List.foldl_cons]; rw [ih, AlgoEqR.pvalSet_toList]

/-! ### size side conditions, computed along the model's run -/

/-- every `apply` of one inner loop (`for var in variables`) has operands of at most `M` nodes -/
def RoundOK (n M : Nat) (result : Arr) : List Nat → Arr → Prop
  | [], _ => True
  | x :: xs, acc =>
    result.size ≤ M ∧ acc.size ≤ M ∧ (VS.propagate n result x).size ≤ M ∧
      RoundOK n M result xs (applyWithFlip acc (VS.propagate n result x) Gen.or_ none none none)

/-- … for the `k` rounds of `mk_sat_exactly_k` -/
def ExactlyOK (n M : Nat) (vars : List Nat) : Nat → Arr → Prop
  | 0, _ => True
  | k + 1, r => RoundOK n M r vars (mkFalse n) ∧ ExactlyOK n M vars k (VS.satRound n vars r (mkFalse n))

/-- … for the `k` rounds of `mk_sat_up_to_k` -/
def UpToOK (n M : Nat) (vars : List Nat) : Nat → Arr → Prop
  | 0, _ => True
  | k + 1, r => RoundOK n M r vars r ∧ UpToOK n M vars k (VS.satRound n vars r r)

/-- hand-written body of the inner loop -/
def satStep (fuel n : Nat) (result : Arr) (x : Nat) (acc : Arr) : Outcome (ForInStep Arr) :=
  (Algo.Bdd_fused_binary_flip_op fuel (result, none) (Algo.Bdd_mk_not_var n x, none) (some x) Gen.and_).bind fun p =>
    (Algo2.Bdd_or fuel acc p).bind fun r => .ok (.yield r)

theorem inner_loop (fuel n M : Nat) (hM : 3 ≤ M) (h32 : M * M + 2 ≤ 2 ^ 32) (hfuel : 3 * (M * M) ≤ fuel)
    {R : Arr} {f : (Nat → Bool) → Bool} (hR : VS.Sem n R f) :
    ∀ (xs : List Nat), (∀ x ∈ xs, x < n) → ∀ (acc : Arr) (g : (Nat → Bool) → Bool), VS.Sem n acc g →
      RoundOK n M R xs acc → iterL (satStep fuel n R) xs acc = .ok (VS.satRound n xs R acc) := by
  intro xs
  induction xs with
  | nil => intro _ acc g _ _; rfl
  | cons x t ih =>
    intro hv acc g hg hok
    obtain ⟨s1, s2, s3, hrest⟩ := hok
    have hx : x < n := hv x (by simp)
    have hp := VS.sem_propagate hR x hx
    have hstep := hg.apply hp Gen.or_ _ VS.or_consistent none (by simp)
    have hmul : ∀ a b, a ≤ M → b ≤ M → a * b ≤ M * M := fun a b ha hb => Nat.mul_le_mul ha hb
    have e1 : Algo.Bdd_fused_binary_flip_op fuel (R, none) (Algo.Bdd_mk_not_var n x, none) (some x) Gen.and_ =
        .ok (VS.propagate n R x) := by
      unfold Algo.Bdd_fused_binary_flip_op
      simp only []
      have hnv : Algo.Bdd_mk_not_var n x = mkNotVar n x := rfl
      rw [hnv]
      have hsz3 : (mkNotVar n x).size = 3 := rfl
      rw [apply_with_flip_eq_model R (mkNotVar n x) n Gen.and_ _ none none (some x) hR.wfo (VS.sem_mkNotVar n x hx).wfo
        VS.and_consistent (by simp) (by simp) (by intro y hy; cases hy; exact hx)
        (by rw [hsz3]; have := hmul R.size 3 s1 hM; omega) fuel
        (by rw [hsz3]; have := hmul R.size 3 s1 hM; omega)]
      rfl
    have e2 : Algo2.Bdd_or fuel acc (VS.propagate n R x) =
        .ok (applyWithFlip acc (VS.propagate n R x) Gen.or_ none none none) := by
      unfold Algo2.Bdd_or Algo.apply
      rw [apply_with_flip_eq_model acc (VS.propagate n R x) n Gen.or_ _ none none none hg.wfo hp.wfo
        VS.or_consistent (by simp) (by simp) (by simp)
        (by have := hmul _ _ s2 s3; omega) fuel (by have := hmul _ _ s2 s3; omega)]
    rw [iterL_cons]
    have : satStep fuel n R x acc = .ok (.yield (applyWithFlip acc (VS.propagate n R x) Gen.or_ none none none)) := by
      unfold satStep; rw [e1]; simp only [Outcome.bind]; rw [e2]
    rw [this]
    simp only []
    rw [ih (fun y hy => hv y (by simp [hy])) _ _ hstep hrest]
    rfl

theorem outer_exactly (fuel n M : Nat) (hM : 3 ≤ M) (h32 : M * M + 2 ≤ 2 ^ 32) (hfuel : 3 * (M * M) ≤ fuel)
    (vars : List Nat) (hv : ∀ x ∈ vars, x < n) : ∀ (k j : Nat) (R : Arr),
      VS.Sem n R (fun v => decide (VS.cnt n vars v = j)) → ExactlyOK n M vars k R →
      iter (fun (r : Arr) => (iterL (satStep fuel n r) vars (mkFalse n)).bind fun a => Outcome.ok (ForInStep.yield a)) k R =
        .ok (VS.exactlyRounds n vars k R) := by
  intro k
  induction k with
  | zero => intro j R _ _; rfl
  | succ k ih =>
    intro j R hR hok
    obtain ⟨h1, h2⟩ := hok
    rw [iter_succ, inner_loop fuel n M hM h32 hfuel hR vars hv (mkFalse n) _ (VS.sem_mkFalse n) h1]
    rw [obind_ok]; simp only []
    have hround := VS.sem_satRound hR vars hv (mkFalse n) _ (VS.sem_mkFalse n)
    have hround' : VS.Sem n (VS.satRound n vars R (mkFalse n)) (fun v => decide (VS.cnt n vars v = j + 1)) :=
      hround.congr (fun v => by simp only [Bool.false_or]; exact VS.any_flip_exact n vars hv j v)
    rw [ih (j + 1) _ hround' h2]
    rfl

theorem outer_upto (fuel n M : Nat) (hM : 3 ≤ M) (h32 : M * M + 2 ≤ 2 ^ 32) (hfuel : 3 * (M * M) ≤ fuel)
    (vars : List Nat) (hv : ∀ x ∈ vars, x < n) : ∀ (k j : Nat) (R : Arr),
      VS.Sem n R (fun v => decide (VS.cnt n vars v ≤ j)) → UpToOK n M vars k R →
      iter (fun (r : Arr) => (iterL (satStep fuel n r) vars r).bind fun a => Outcome.ok (ForInStep.yield a)) k R =
        .ok (VS.upToRounds n vars k R) := by
  intro k
  induction k with
  | zero => intro j R _ _; rfl
  | succ k ih =>
    intro j R hR hok
    obtain ⟨h1, h2⟩ := hok
    rw [iter_succ, inner_loop fuel n M hM h32 hfuel hR vars hv R _ hR h1]
    rw [obind_ok]; simp only []
    have hround := VS.sem_satRound hR vars hv R _ hR
    have hround' : VS.Sem n (VS.satRound n vars R R) (fun v => decide (VS.cnt n vars v ≤ j + 1)) :=
      hround.congr (fun v => VS.any_flip_upto n vars hv j v)
    rw [ih (j + 1) _ hround' h2]
    rfl

/-- desugaring of `mk_sat_exactly_k`: the prologue, then `k` rounds of the hand-written inner step -/
theorem exactly_desugar (fuel : Nat) (T : VSet) (k : Nat) (vars : Array Nat) :
    Algo2.BddVariableSet_mk_sat_exactly_k fuel T k vars =
      (Algo2.BddVariableSet_mk_conjunctive_clause T (vars.toList.foldl (fun r x => Rust.pvalSetValue r x false) #[])).bind fun c =>
        iter (fun (r : Arr) => (iterL (satStep fuel T.1 r) vars.toList (mkFalse T.1)).bind fun a =>
          Outcome.ok (ForInStep.yield a)) k c := by
  unfold Algo2.BddVariableSet_mk_sat_exactly_k
  simp only [forIn_array_eq_iterL, forIn_range_eq_iter]
  rw [allFalse_loop]
  simp only [bind_ok]
  have he : Algo.BddPartialValuation_empty = #[] := rfl
  rw [he]
  generalize Algo2.BddVariableSet_mk_conjunctive_clause T _ = cc
  cases cc with
  | ok c =>
    rw [obind_ok]
    simp only [bind_ok]
    have : (fun (__s : Arr) => (iterL (fun var (__s_1 : Arr) =>
          (Algo.Bdd_fused_binary_flip_op fuel (__s, none) (Algo2.BddVariableSet_mk_not_var T var, none) (some var) Gen.and_ >>= fun p =>
            Algo2.Bdd_or fuel __s_1 p >>= fun q => pure (ForInStep.yield q))) vars.toList (Algo2.BddVariableSet_mk_false T)) >>= fun a =>
          (pure (ForInStep.yield a) : Outcome _)) =
        (fun (r : Arr) => (iterL (satStep fuel T.1 r) vars.toList (mkFalse T.1)).bind fun a => Outcome.ok (ForInStep.yield a)) := by
      funext r
      have hb : (fun var (acc : Arr) =>
          (Algo.Bdd_fused_binary_flip_op fuel (r, none) (Algo2.BddVariableSet_mk_not_var T var, none) (some var) Gen.and_ >>= fun p =>
            Algo2.Bdd_or fuel acc p >>= fun q => (pure (ForInStep.yield q) : Outcome _))) = satStep fuel T.1 r := by
        funext var acc
        unfold satStep
        have : Algo2.BddVariableSet_mk_not_var T var = Algo.Bdd_mk_not_var T.1 var := rfl
        rw [this]
        cases Algo.Bdd_fused_binary_flip_op fuel (r, none) (Algo.Bdd_mk_not_var T.1 var, none) (some var) Gen.and_ with
        | ok p => simp only [bind_ok, Outcome.bind]; cases Algo2.Bdd_or fuel acc p <;> rfl
        | err m => rfl
        | panic m => rfl
      rw [hb]
      have : Algo2.BddVariableSet_mk_false T = mkFalse T.1 := rfl
      rw [this]
      cases iterL (satStep fuel T.1 r) vars.toList (mkFalse T.1) <;> rfl
    rw [this]
    generalize iter _ k c = r
    cases r <;> rfl
  | err m => rfl
  | panic m => rfl
/-- desugaring of `mk_sat_up_to_k`: the prologue, then `k` rounds of the hand-written inner step -/
theorem upto_desugar (fuel : Nat) (T : VSet) (k : Nat) (vars : Array Nat) :
    Algo2.BddVariableSet_mk_sat_up_to_k fuel T k vars =
      (Algo2.BddVariableSet_mk_conjunctive_clause T (vars.toList.foldl (fun r x => Rust.pvalSetValue r x false) #[])).bind fun c =>
        iter (fun (r : Arr) => (iterL (satStep fuel T.1 r) vars.toList r).bind fun a =>
          Outcome.ok (ForInStep.yield a)) k c := by
  unfold Algo2.BddVariableSet_mk_sat_up_to_k
  simp only [forIn_array_eq_iterL, forIn_range_eq_iter]
  rw [allFalse_loop]
  simp only [bind_ok]
  have he : Algo.BddPartialValuation_empty = #[] := rfl
  rw [he]
  generalize Algo2.BddVariableSet_mk_conjunctive_clause T _ = cc
  cases cc with
  | ok c =>
    rw [obind_ok]
    simp only [bind_ok]
    have : (fun (__s : Arr) => (iterL (fun var (__s_1 : Arr) =>
          (Algo.Bdd_fused_binary_flip_op fuel (__s, none) (Algo2.BddVariableSet_mk_not_var T var, none) (some var) Gen.and_ >>= fun p =>
            Algo2.Bdd_or fuel __s_1 p >>= fun q => pure (ForInStep.yield q))) vars.toList __s) >>= fun a =>
          (pure (ForInStep.yield a) : Outcome _)) =
        (fun (r : Arr) => (iterL (satStep fuel T.1 r) vars.toList r).bind fun a => Outcome.ok (ForInStep.yield a)) := by
      funext r
      have hb : (fun var (acc : Arr) =>
          (Algo.Bdd_fused_binary_flip_op fuel (r, none) (Algo2.BddVariableSet_mk_not_var T var, none) (some var) Gen.and_ >>= fun p =>
            Algo2.Bdd_or fuel acc p >>= fun q => (pure (ForInStep.yield q) : Outcome _))) = satStep fuel T.1 r := by
        funext var acc
        unfold satStep
        have : Algo2.BddVariableSet_mk_not_var T var = Algo.Bdd_mk_not_var T.1 var := rfl
        rw [this]
        cases Algo.Bdd_fused_binary_flip_op fuel (r, none) (Algo.Bdd_mk_not_var T.1 var, none) (some var) Gen.and_ with
        | ok p => simp only [bind_ok, Outcome.bind]; cases Algo2.Bdd_or fuel acc p <;> rfl
        | err m => rfl
        | panic m => rfl
      rw [hb]
      cases iterL (satStep fuel T.1 r) vars.toList r <;> rfl
    rw [this]
    generalize iter _ k c = r
    cases r <;> rfl
  | err m => rfl
  | panic m => rfl

/-- the prologue of both functions: the clause `vars ↦ false` -/
theorem sat_clause (T : VSet) (vars : Array Nat) (hn : T.1 ≤ 65536) :
    RelK (Algo2.BddVariableSet_mk_conjunctive_clause T (vars.toList.foldl (fun r x => Rust.pvalSetValue r x false) #[]))
      (VS.mkConjunctiveClause T.1 (VS.allFalse vars.toList)) := by
  have := mk_conjunctive_clause_rel_vs T (vars.toList.foldl (fun r x => Rust.pvalSetValue r x false) #[]) hn
  rw [foldl_pvalSet_toList] at this
  exact this

/-- **`mk_sat_exactly_k` as translated = `VS.mkSatExactlyK`** for variables of the set: every `apply` of the run has
    operands of at most `M` nodes (`ExactlyOK`, a condition on the MODEL's run), `M² + 2 ≤ 2^32`, fuel `≥ 3·M²` -/
theorem mk_sat_exactly_k_eq_model (fuel : Nat) (T : VSet) (k : Nat) (vars : Array Nat) (hn : T.1 ≤ 65536)
    (hv : ∀ x ∈ vars.toList, x < T.1) (M : Nat) (hM : 3 ≤ M) (h32 : M * M + 2 ≤ 2 ^ 32) (hfuel : 3 * (M * M) ≤ fuel)
    (hok : ExactlyOK T.1 M vars.toList k (clauseArr T.1 (VS.allFalse vars.toList).toValues)) :
    Algo2.BddVariableSet_mk_sat_exactly_k fuel T k vars = VS.mkSatExactlyK T.1 k vars.toList := by
  rw [exactly_desugar]
  have hc := sat_clause T vars hn
  have hco := VS.clause_ok T.1 vars.toList hv
  rw [hco] at hc
  rw [hc.of_ok rfl, obind_ok]
  unfold VS.mkSatExactlyK
  rw [hco]
  simp only []
  exact outer_exactly fuel T.1 M hM h32 hfuel vars.toList hv k 0 _ (VS.sem_allFalse T.1 vars.toList hv) hok

/-- **`mk_sat_up_to_k` as translated = `VS.mkSatUpToK`** -/
theorem mk_sat_up_to_k_eq_model (fuel : Nat) (T : VSet) (k : Nat) (vars : Array Nat) (hn : T.1 ≤ 65536)
    (hv : ∀ x ∈ vars.toList, x < T.1) (M : Nat) (hM : 3 ≤ M) (h32 : M * M + 2 ≤ 2 ^ 32) (hfuel : 3 * (M * M) ≤ fuel)
    (hok : UpToOK T.1 M vars.toList k (clauseArr T.1 (VS.allFalse vars.toList).toValues)) :
    Algo2.BddVariableSet_mk_sat_up_to_k fuel T k vars = VS.mkSatUpToK T.1 k vars.toList := by
  rw [upto_desugar]
  have hc := sat_clause T vars hn
  have hco := VS.clause_ok T.1 vars.toList hv
  rw [hco] at hc
  rw [hc.of_ok rfl, obind_ok]
  unfold VS.mkSatUpToK
  rw [hco]
  simp only []
  have hsem : VS.Sem T.1 (clauseArr T.1 (VS.allFalse vars.toList).toValues) (fun v => decide (VS.cnt T.1 vars.toList v ≤ 0)) :=
    (VS.sem_allFalse T.1 vars.toList hv).congr (fun v => by simp)
  exact outer_upto fuel T.1 M hM h32 hfuel vars.toList hv k 0 _ hsem hok

/-- a listed variable outside the set: both functions panic in `mk_conjunctive_clause`, whatever the fuel -/
theorem mk_sat_k_panics (fuel : Nat) (T : VSet) (k : Nat) (vars : Array Nat) (hn : T.1 ≤ 65536)
    (x : Nat) (hx : x ∈ vars.toList) (hxn : T.1 ≤ x) :
    (∃ m, Algo2.BddVariableSet_mk_sat_exactly_k fuel T k vars = .panic m) ∧
    (∃ m, Algo2.BddVariableSet_mk_sat_up_to_k fuel T k vars = .panic m) ∧
    (∃ m, VS.mkSatExactlyK T.1 k vars.toList = .panic m) ∧ ∃ m, VS.mkSatUpToK T.1 k vars.toList = .panic m := by
  obtain ⟨m, hm⟩ := VS.clause_panic T.1 vars.toList x hx hxn
  obtain ⟨m', hm'⟩ := (sat_clause T vars hn).of_panic hm
  refine ⟨⟨m', ?_⟩, ⟨m', ?_⟩, ⟨m, ?_⟩, ⟨m, ?_⟩⟩
  · rw [exactly_desugar, hm']; rfl
  · rw [upto_desugar, hm']; rfl
  · simp [VS.mkSatExactlyK, hm]
  · simp [VS.mkSatUpToK, hm]

/-! ### chained with `Props/C16.lean` -/

/-- the translated `mk_sat_exactly_k` returns the canonical array of "exactly `k` of the listed variables are true" -/
theorem mk_sat_exactly_k_canon (fuel : Nat) (T : VSet) (k : Nat) (vars : Array Nat) (hn : T.1 ≤ 65536)
    (hv : ∀ x ∈ vars.toList, x < T.1) (M : Nat) (hM : 3 ≤ M) (h32 : M * M + 2 ≤ 2 ^ 32) (hfuel : 3 * (M * M) ≤ fuel)
    (hok : ExactlyOK T.1 M vars.toList k (clauseArr T.1 (VS.allFalse vars.toList).toValues)) :
    Algo2.BddVariableSet_mk_sat_exactly_k fuel T k vars =
      .ok (canon T.1 (fun v => decide (VS.cnt T.1 vars.toList v = k))) := by
  rw [mk_sat_exactly_k_eq_model fuel T k vars hn hv M hM h32 hfuel hok]
  exact Props.C16.sat_exactly_k_canon T.1 k vars.toList hv

theorem mk_sat_up_to_k_canon (fuel : Nat) (T : VSet) (k : Nat) (vars : Array Nat) (hn : T.1 ≤ 65536)
    (hv : ∀ x ∈ vars.toList, x < T.1) (M : Nat) (hM : 3 ≤ M) (h32 : M * M + 2 ≤ 2 ^ 32) (hfuel : 3 * (M * M) ≤ fuel)
    (hok : UpToOK T.1 M vars.toList k (clauseArr T.1 (VS.allFalse vars.toList).toValues)) :
    Algo2.BddVariableSet_mk_sat_up_to_k fuel T k vars =
      .ok (canon T.1 (fun v => decide (VS.cnt T.1 vars.toList v ≤ k))) := by
  rw [mk_sat_up_to_k_eq_model fuel T k vars hn hv M hM h32 hfuel hok]
  exact Props.C16.sat_up_to_k_canon T.1 k vars.toList hv

/-! ### non-vacuity -/

theorem sem_size {n : Nat} {A : Arr} {f : (Nat → Bool) → Bool} (h : VS.Sem n A f) : A.size = (canon n f).size := by
  rw [← h.eq]

/-- the side condition holds with `M = 8` for "exactly one of `x2`, `x0`" over three variables … -/
theorem ex_exactly_ok : ExactlyOK 3 8 [2, 0] 1 (clauseArr 3 (VS.allFalse [2, 0]).toValues) := by
  have hv : ∀ x ∈ [2, 0], x < 3 := by decide
  have hc := VS.sem_allFalse 3 [2, 0] hv
  have hp2 := VS.sem_propagate hc 2 (by decide)
  have hp0 := VS.sem_propagate hc 0 (by decide)
  have ha := (VS.sem_mkFalse 3).apply hp2 Gen.or_ _ VS.or_consistent none (by simp)
  refine ⟨⟨?_, ?_, ?_, ?_, ?_, ?_, trivial⟩, trivial⟩
  · rw [sem_size hc]; decide
  · decide
  · rw [sem_size hp2]; decide
  · rw [sem_size hc]; decide
  · rw [sem_size ha]; decide
  · rw [sem_size hp0]; decide

/-- … so the GENERATED constructor, on the set built by the GENERATED `new_anonymous(3)`, with fuel `3·8²`, returns
    the canonical array of "exactly one of x0, x2" -/
example : ∃ T, Algo2.BddVariableSet_new_anonymous 3 = .ok T ∧
    Algo2.BddVariableSet_mk_sat_exactly_k 192 T 1 #[2, 0] =
      .ok #[⟨3, 0, 0⟩, ⟨3, 1, 1⟩, ⟨2, 1, 0⟩, ⟨2, 0, 1⟩, ⟨0, 3, 2⟩] := by
  obtain ⟨T, hT, hs⟩ := new_anonymous_ok 3 (by decide)
  have h3 : T.1 = 3 := by rw [hs.count]; rfl
  refine ⟨T, hT, ?_⟩
  have := mk_sat_exactly_k_canon 192 T 1 #[2, 0] (by omega) (by rw [h3]; decide) 8 (by decide) (by decide) (by decide)
    (by rw [h3]; exact ex_exactly_ok)
  rw [this, h3]
  exact congrArg Outcome.ok (by decide)

/-- a variable outside the set: panic -/
example : ∃ T, Algo2.BddVariableSet_new_anonymous 3 = .ok T ∧
    ∃ m, Algo2.BddVariableSet_mk_sat_up_to_k 192 T 1 #[2, 5] = .panic m := by
  obtain ⟨T, hT, hs⟩ := new_anonymous_ok 3 (by decide)
  have h3 : T.1 = 3 := by rw [hs.count]; rfl
  exact ⟨T, hT, (mk_sat_k_panics 192 T 1 #[2, 5] (by omega) 5 (by simp) (by omega)).2.1⟩

/-! ### an a-priori bound: all operands are canonical, and a canonical array over `n` variables has at most `2^n + 1` nodes -/

theorem ins_size_le' (n : Nat) : ∀ (fuel k : Nat) (f : (Nat → Bool) → Bool) (A : Arr),
    (ins n fuel k f A).1.size + 1 ≤ A.size + 2 ^ fuel := by
  intro fuel
  induction fuel with
  | zero => intro k f A; simp [ins]
  | succ fuel ih =>
    intro k f A
    have h1 := ih (k + 1) (fun v => f (upd v k true)) A
    have h2 := ih (k + 1) (fun v => f (upd v k false)) (ins n fuel (k + 1) (fun v => f (upd v k true)) A).1
    have hp : 2 ^ (fuel + 1) = 2 ^ fuel + 2 ^ fuel := by rw [Nat.pow_succ]; omega
    simp only [ins]
    split
    · simp only; omega
    · split
      · simp only; omega
      · simp only [Array.size_push]; omega

theorem canon_size_le' (n : Nat) (f : (Nat → Bool) → Bool) : (canon n f).size ≤ 2 ^ n + 1 := by
  unfold canon
  have h := ins_size_le' n n 0 f (mkTrue n)
  have h2 : (mkTrue n).size = 2 := rfl
  have h1 : (mkFalse n).size = 1 := rfl
  rw [h2] at h
  simp only
  split
  · rw [h1]; have : 0 < 2 ^ n := Nat.two_pow_pos n; omega
  · omega

theorem sem_size_le {n : Nat} {A : Arr} {f : (Nat → Bool) → Bool} (h : VS.Sem n A f) : A.size ≤ 2 ^ n + 2 := by
  rw [h.eq]; have := canon_size_le' n f; omega

theorem roundOK_of_sem {n : Nat} {R : Arr} {f : (Nat → Bool) → Bool} (hR : VS.Sem n R f) :
    ∀ (xs : List Nat), (∀ x ∈ xs, x < n) → ∀ (acc : Arr) (g : (Nat → Bool) → Bool), VS.Sem n acc g →
      RoundOK n (2 ^ n + 2) R xs acc := by
  intro xs
  induction xs with
  | nil => intro _ _ _ _; trivial
  | cons x t ih =>
    intro hv acc g hg
    have hx : x < n := hv x (by simp)
    have hp := VS.sem_propagate hR x hx
    have hstep := hg.apply hp Gen.or_ _ VS.or_consistent none (by simp)
    exact ⟨sem_size_le hR, sem_size_le hg, sem_size_le hp, ih (fun y hy => hv y (by simp [hy])) _ _ hstep⟩

theorem exactlyOK_of_sem (n : Nat) (vars : List Nat) (hv : ∀ x ∈ vars, x < n) : ∀ (k j : Nat) (R : Arr),
    VS.Sem n R (fun v => decide (VS.cnt n vars v = j)) → ExactlyOK n (2 ^ n + 2) vars k R := by
  intro k
  induction k with
  | zero => intro _ _ _; trivial
  | succ k ih =>
    intro j R hR
    have hround := VS.sem_satRound hR vars hv (mkFalse n) _ (VS.sem_mkFalse n)
    have hround' : VS.Sem n (VS.satRound n vars R (mkFalse n)) (fun v => decide (VS.cnt n vars v = j + 1)) :=
      hround.congr (fun v => by simp only [Bool.false_or]; exact VS.any_flip_exact n vars hv j v)
    exact ⟨roundOK_of_sem hR vars hv _ _ (VS.sem_mkFalse n), ih (j + 1) _ hround'⟩

theorem upToOK_of_sem (n : Nat) (vars : List Nat) (hv : ∀ x ∈ vars, x < n) : ∀ (k j : Nat) (R : Arr),
    VS.Sem n R (fun v => decide (VS.cnt n vars v ≤ j)) → UpToOK n (2 ^ n + 2) vars k R := by
  intro k
  induction k with
  | zero => intro _ _ _; trivial
  | succ k ih =>
    intro j R hR
    have hround := VS.sem_satRound hR vars hv R _ hR
    have hround' : VS.Sem n (VS.satRound n vars R R) (fun v => decide (VS.cnt n vars v ≤ j + 1)) :=
      hround.congr (fun v => VS.any_flip_upto n vars hv j v)
    exact ⟨roundOK_of_sem hR vars hv _ _ hR, ih (j + 1) _ hround'⟩

theorem pow_bound {n : Nat} (hn : n ≤ 15) : (2 ^ n + 2) * (2 ^ n + 2) + 2 ≤ 2 ^ 32 := by
  have h : 2 ^ n ≤ 2 ^ 15 := Nat.pow_le_pow_right (by omega) hn
  have : (2 ^ n + 2) * (2 ^ n + 2) ≤ (2 ^ 15 + 2) * (2 ^ 15 + 2) := Nat.mul_le_mul (by omega) (by omega)
  omega

/-- **unconditional form for sets of at most 15 variables**: no side condition on the model's run, fuel `3·(2^n+2)²` -/
theorem mk_sat_exactly_k_eq_model_small (fuel : Nat) (T : VSet) (k : Nat) (vars : Array Nat) (hn : T.1 ≤ 15)
    (hv : ∀ x ∈ vars.toList, x < T.1) (hfuel : 3 * ((2 ^ T.1 + 2) * (2 ^ T.1 + 2)) ≤ fuel) :
    Algo2.BddVariableSet_mk_sat_exactly_k fuel T k vars = VS.mkSatExactlyK T.1 k vars.toList :=
  mk_sat_exactly_k_eq_model fuel T k vars (by omega) hv (2 ^ T.1 + 2) (by have := Nat.two_pow_pos T.1; omega) (pow_bound hn) hfuel
    (exactlyOK_of_sem T.1 vars.toList hv k 0 _ (VS.sem_allFalse T.1 vars.toList hv))

theorem mk_sat_up_to_k_eq_model_small (fuel : Nat) (T : VSet) (k : Nat) (vars : Array Nat) (hn : T.1 ≤ 15)
    (hv : ∀ x ∈ vars.toList, x < T.1) (hfuel : 3 * ((2 ^ T.1 + 2) * (2 ^ T.1 + 2)) ≤ fuel) :
    Algo2.BddVariableSet_mk_sat_up_to_k fuel T k vars = VS.mkSatUpToK T.1 k vars.toList :=
  mk_sat_up_to_k_eq_model fuel T k vars (by omega) hv (2 ^ T.1 + 2) (by have := Nat.two_pow_pos T.1; omega) (pow_bound hn) hfuel
    (upToOK_of_sem T.1 vars.toList hv k 0 _
      ((VS.sem_allFalse T.1 vars.toList hv).congr (fun v => by simp)))

/-- … hence, without any side condition: "at most one of x0, x1, x3" over four variables, fuel `3·18²` -/
example : ∃ T, Algo2.BddVariableSet_new_anonymous 4 = .ok T ∧
    Algo2.BddVariableSet_mk_sat_up_to_k 972 T 1 #[3, 0, 1] =
      .ok (canon 4 (fun v => decide (VS.cnt 4 [3, 0, 1] v ≤ 1))) := by
  obtain ⟨T, hT, hs⟩ := new_anonymous_ok 4 (by decide)
  have h4 : T.1 = 4 := by rw [hs.count]; rfl
  refine ⟨T, hT, ?_⟩
  rw [mk_sat_up_to_k_eq_model_small 972 T 1 #[3, 0, 1] (by omega) (by rw [h4]; decide) (by rw [h4]; decide), h4]
  exact Props.C16.sat_up_to_k_canon 4 1 [3, 0, 1] (by decide)

end B.AlgoEq2VS
