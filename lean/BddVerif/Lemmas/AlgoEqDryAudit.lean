import BddVerif.Lemmas.AlgoEqDry
/-! axiom audit of the equivalence `Gen.Algo.estimated_apply_complexity` = `Lim.dryRun` -/
#print axioms B.AlgoDL.forIn_range_eq_loopN
#print axioms B.AlgoDL.dry_sim
#print axioms B.AlgoDL.dryRecLim_congr
#print axioms B.AlgoDL.dry_loop
#print axioms B.AlgoDL.estimated_apply_complexity_eq_model
#print axioms B.AlgoDL.estimated_apply_complexity_eq_model_driver
#print axioms B.AlgoDL.estimated_apply_complexity_panic_vars
#print axioms B.AlgoDL.estimated_apply_complexity_panic_flip
#print axioms B.AlgoDL.Bdd_check_fused_binary_flip_op_eq_model
#print axioms B.AlgoDL.Bdd_check_binary_op_eq_model
#print axioms B.AlgoDL.Bdd_check_fused_binary_flip_op_panic
