import BddVerif.Lemmas.AlgoEq3SatChain
import BddVerif.Lemmas.AlgoEqIterDriver
import BddVerif.Drive.Algo3
/-!
Corollaries for the fuel that the driver of the third batch (`Drive/Algo3.lean`) passes to the translated
`sat_valuations` iterator: `fuelVals A = 8 · (size + numVars + 8)` to `Bdd_sat_valuations` and to every
`BddSatisfyingValuations_next`; and the driver's collecting loop `genSatVals` is `collect` of the translated `next`.
(This file uses the ordinary `Monad Outcome` instance, like `Drive/Algo3.lean`.)
-/
namespace B.AlgoEq3Sat
open B B.Gen B.Gen.Algo B.Gen.Algo3 B.Iter B.AlgoEqIt B.Drive.Algo3

/-- the driver's `genSatVals` = the translated constructor, then `collect` of the translated `next` with `limit + 1`
    calls -/
theorem genSatVals_eq_collect (A : Arr) (limit : Nat) :
    genSatVals A limit =
      Bdd_sat_valuations (fuelVals A) A >>= fun st =>
        collect (BddSatisfyingValuations_next (fuelVals A)) (limit + 1) st := by
  unfold genSatVals
  simp only [Std.Legacy.Range.forIn_eq_forIn_range', Std.Legacy.Range.size]
  apply outcome_bind_congr
  intro st
  have e : (limit + 1 - 0 + 1 - 1) / 1 = limit + 1 := by simp
  rw [e]
  have key : ∀ (body : Nat → GSt × List (Array Bool) × Bool → Outcome (ForInStep (GSt × List (Array Bool) × Bool))),
      (∀ x s, body x s = drvStep (BddSatisfyingValuations_next (fuelVals A)) s) →
      forIn (List.range' 0 (limit + 1)) (st, ([] : List (Array Bool)), false) body =
        forIn (List.range' 0 (limit + 1)) (st, [], false)
          (fun _ s => drvStep (BddSatisfyingValuations_next (fuelVals A)) s) := by
    intro body hb
    have : body = fun _ s => drvStep (BddSatisfyingValuations_next (fuelVals A)) s :=
      funext fun x => funext fun s => hb x s
    rw [this]
  rw [key]
  · have := drvLoop_eq (BddSatisfyingValuations_next (fuelVals A)) (limit + 1) 0 st []
    simp only [List.reverse_nil, List.nil_append] at this
    have hid : ∀ (o : Outcome (List (Array Bool))), o.map (fun l => l) = o := by
      intro o; cases o <;> rfl
    rw [hid] at this
    rw [← this]
    apply outcome_bind_congr
    intro s
    unfold drvPost
    cases s.2.2 <;> rfl
  · intro x s
    unfold drvStep
    cases BddSatisfyingValuations_next (fuelVals A) s.fst with
    | err m => rfl
    | panic m => rfl
    | ok r =>
      obtain ⟨o, it'⟩ := r
      cases o <;> rfl

theorem fuelVals_ge (A : Arr) : A.size + 2 ≤ fuelVals A := by unfold fuelVals; omega

/-- **driver, `sat_valuations`**: with the fuel of the driver and a limit `≥` the number of satisfying valuations,
    `genSatVals` (the translated constructor + the translated `next` collected) returns exactly `satSpec A` -/
theorem sat_iter_translated_driver {A : Arr} {n : Nat} (h : Red A n) (hn : numVars A = n) (hn16 : n < 65536)
    (h32 : A.size ≤ 4294967296) (limit : Nat) (hl : (satSpec A).length ≤ limit) :
    genSatVals A limit = .ok ((satSpec A).map List.toArray) := by
  obtain ⟨s0, _, hnew, hcol⟩ :=
    sat_iter_translated h hn hn16 h32 (fuelVals A) (fuelVals_ge A) (limit + 1) (by omega)
  rw [genSatVals_eq_collect, hnew]
  exact hcol

/-- the driver's constructor call and each of its `next` calls, separately -/
theorem Bdd_sat_valuations_driver {A : Arr} {n : Nat} (h : Red A n) (hn : numVars A = n) (hn16 : n < 65536)
    (h32 : A.size ≤ 4294967296) (s0 : SatSt) (h0 : satInit A = .ok s0) :
    Bdd_sat_valuations (fuelVals A) A = .ok (satOf A s0) ∧ SatInv A s0 :=
  satInv_init h hn hn16 h32 (fuelVals A) (fuelVals_ge A) s0 h0

theorem BddSatisfyingValuations_next_driver {A : Arr} {n : Nat} (h : Red A n) (hn : numVars A = n) (hn16 : n < 65536)
    (s : SatSt) (r : Option Valn × SatSt) (hi : SatInv A s) (hr : satNext A s = .ok r) :
    BddSatisfyingValuations_next (fuelVals A) (satOf A s) = .ok (r.1.map List.toArray, satOf A r.2) ∧ SatInv A r.2 :=
  sat_next_step h hn hn16 (fuelVals A) (fuelVals_ge A) s r hi hr

theorem Bdd_sat_clauses_driver {A : Arr} {n : Nat} (h : Red A n) (h32 : A.size ≤ 4294967296) :
    ∃ S, pathInit A = .ok S ∧ Bdd_sat_clauses (fuelVals A) A = .ok (A, stkArr S) := by
  obtain ⟨S, hS, _, _⟩ := pathInit_spec h
  exact ⟨S, hS, Bdd_sat_clauses_eq_model A h32 S hS (fuelVals A) (fuelVals_ge A)⟩

/-- the constant false through the driver -/
theorem sat_iter_translated_false_driver (A : Arr) (h1 : A.size = 1) (limit : Nat) : genSatVals A limit = .ok [] := by
  obtain ⟨hnew, _, hcol⟩ := sat_iter_translated_false A h1 (fuelVals A) limit
  rw [genSatVals_eq_collect, hnew]
  exact hcol

open B.Props.C08 in
/-- non-vacuity: the driver's loop on `exA` yields the 8 satisfying valuations -/
example : ∃ l, genSatVals exA 8 = .ok l ∧ l.length = 8 :=
  ⟨_, sat_iter_translated_driver exA_red rfl (by decide) (by decide) 8 (by decide), by
    rw [List.length_map]; decide⟩

end B.AlgoEq3Sat
