import BddVerif.Lemmas.NormalFormExt
/-!
Lemmas for C10, part 8: `to_dnf` and `to_cnf` on ANY valid operand. The two extractions only follow links and
read variables, so all they need is `WFo` (exact terminals, variables `< n`, links in range, variables strictly
increasing along links — what `validate()` guarantees): a redundant test `(v, p, p)`, duplicated or unreachable
nodes and any numbering are handled (a redundant test simply yields the two clauses `v = 0 …`, `v = 1 …`;
contrast `BddPathIterator`, which panics on it). The function of the operand is its evaluation by level `evW`
(= `Drive.evalArr` = `eval_in`); the induction is on the level instead of the index.
-/
namespace B.NF
open B

/-- one entry `(p, Some(true))` of the stack of `to_dnf`, operand well-formed by level -/
theorem dnfLoop_sub_wfo {A : Arr} {n : Nat} (h : WFo A n) :
    ∀ m p, p < A.size → n - varOf A n p ≤ m → ∀ path, Free path (varOf A n p) →
      ∃ k path' R, (∀ fuel stk res, dnfLoop A (fuel + k) ((p, some true) :: stk) path res =
            dnfLoop A fuel stk path' (res ++ R)) ∧
        (∀ i, path'.get i = path.get i) ∧
        (∀ v, dnfFn R v = (conjFn path v && evW A n v p)) ∧
        (∀ c ∈ R, ∀ x b, c.get x = some b → x < n ∨ path.get x = some b) ∧
        k + 3 ≤ 4 * 2 ^ (n - varOf A n p) := by
  intro m
  induction m with
  | zero =>
    intro p hp hm path hfree
    -- level 0: a terminal
    have hterm : p < 2 := by
      rcases Nat.lt_or_ge p 2 with h2 | h2
      · exact h2
      · have hnd : A[p]? = some A[p] := by simp [hp]
        have := (h.inner p A[p] h2 hnd).1
        rw [varOf_node p _ h2 hnd] at hm; omega
    have hpow : 1 ≤ 2 ^ (n - varOf A n p) := Nat.one_le_two_pow
    rcases (by omega : p = 0 ∨ p = 1) with rfl | rfl
    · refine ⟨1, path, [], fun fuel stk res => by rw [dnfLoop_zero]; simp, fun _ => rfl, ?_, ?_, by omega⟩
      · intro v; simp [dnfFn, evW_zero]
      · intro c hc; cases hc
    · refine ⟨1, path, [path], fun fuel stk res => by rw [dnfLoop_one], fun _ => rfl, ?_, ?_, by omega⟩
      · intro v; simp [dnfFn, evW_one]
      · intro c hc x b hg
        rw [List.mem_singleton] at hc; subst hc
        right; exact hg
  | succ m ih =>
    intro p hp hm path hfree
    have hpow : 1 ≤ 2 ^ (n - varOf A n p) := Nat.one_le_two_pow
    by_cases h0 : p = 0
    · subst h0
      refine ⟨1, path, [], fun fuel stk res => by rw [dnfLoop_zero]; simp, fun _ => rfl, ?_, ?_, by omega⟩
      · intro v; simp [dnfFn, evW_zero]
      · intro c hc; cases hc
    by_cases h1 : p = 1
    · subst h1
      refine ⟨1, path, [path], fun fuel stk res => by rw [dnfLoop_one], fun _ => rfl, ?_, ?_, by omega⟩
      · intro v; simp [dnfFn, evW_one]
      · intro c hc x b hg
        rw [List.mem_singleton] at hc; subst hc
        right; exact hg
    have hp2 : 2 ≤ p := by omega
    have hnd : A[p]? = some A[p] := by simp [hp]
    obtain ⟨hv, hl, hh, hvl, hvh⟩ := h.inner p A[p] hp2 hnd
    have hvar : varOf A n p = A[p].var := varOf_node p _ hp2 hnd
    have hnone : path.get A[p].var = none := hfree _ (by omega)
    rw [hvar] at hm
    have hfl : Free (path.set A[p].var false) (varOf A n A[p].low) := hfree.set false hvl (by omega)
    obtain ⟨kl, path1, Rl, hrunl, hextl, hRl, hrl, hkl⟩ :=
      ih _ hl (by omega) (path.set A[p].var false) hfl
    have hext1 : ∀ j, (path1.set A[p].var true).get j = (path.set A[p].var true).get j := by
      intro j
      rw [get_set, get_set]
      split
      · rfl
      · rename_i hj; rw [hextl, get_set, if_neg hj]
    have hfh : Free (path1.set A[p].var true) (varOf A n A[p].high) :=
      Free.congr (hfree.set true hvh (by omega)) hext1
    obtain ⟨kh, path2, Rh, hrunh, hexth, hRh, hrh, hkh⟩ :=
      ih _ hh (by omega) (path1.set A[p].var true) hfh
    refine ⟨kl + kh + 3, pvUnset path2 A[p].var, Rl ++ Rh, ?_, ?_, ?_, ?_, ?_⟩
    · intro fuel stk res
      have e : fuel + (kl + kh + 3) = (fuel + 1 + kh + 1 + kl) + 1 := by omega
      rw [e, dnfLoop_low A _ p stk path res hp2 _ hnd, hrunl,
        dnfLoop_high A _ p stk path1 _ hp2 _ hnd, hrunh, dnfLoop_done A _ p stk path2 _ hp2 _ hnd,
        List.append_assoc]
    · intro j
      rw [get_unset]
      split
      · rename_i hj; rw [hj, hnone]
      · rename_i hj
        rw [hexth, get_set, if_neg hj, hextl, get_set, if_neg hj]
    · intro v
      have e1 := hRl v
      have e2 := hRh v
      rw [conjFn_congr hext1 v] at e2
      rw [conjFn_set _ _ _ _ hnone] at e1 e2
      unfold dnfFn at e1 e2 ⊢
      rw [List.any_append, e1, e2, evW_node h v p hp2 _ hnd]
      cases hvx : v A[p].var <;> simp
    · intro c hc x b hg
      rw [List.mem_append] at hc
      rcases hc with hc | hc
      · rcases hrl c hc x b hg with hx | hx
        · left; exact hx
        · rw [get_set] at hx
          split at hx
          · rename_i hxv; left; rw [hxv]; exact hv
          · right; exact hx
      · rcases hrh c hc x b hg with hx | hx
        · left; exact hx
        · rw [hext1, get_set] at hx
          split at hx
          · rename_i hxv; left; rw [hxv]; exact hv
          · right; exact hx
    · have e1 : 2 ^ (n - varOf A n A[p].low) ≤ 2 ^ (n - A[p].var - 1) :=
        Nat.pow_le_pow_right (by omega) (by omega)
      have e2 : 2 ^ (n - varOf A n A[p].high) ≤ 2 ^ (n - A[p].var - 1) :=
        Nat.pow_le_pow_right (by omega) (by omega)
      have e3 : 2 ^ (n - A[p].var) = 2 * 2 ^ (n - A[p].var - 1) := by
        obtain ⟨q, hq⟩ : ∃ q, n - A[p].var = q + 1 := ⟨n - A[p].var - 1, by omega⟩
        rw [hq, Nat.pow_succ, Nat.add_sub_cancel, Nat.mul_comm]
      rw [hvar, e3]
      omega

/-- `to_dnf` of any valid operand over `n` variables (this includes the one-node `false`): it terminates within
    the fuel, no index is out of bounds, every clause only fixes variables below `n`, and the disjunction of the
    clauses is the function of the operand -/
theorem toDnf_wfo {A : Arr} {n : Nat} (h : WFo A n) :
    ∃ cs, toDnf A = .ok cs ∧ (∀ c ∈ cs, InRange n c) ∧ ∀ v, dnfFn cs v = evW A n v (root A) := by
  have hroot : root A < A.size := root_lt h
  have hfree : Free ([] : PVal) (varOf A n (root A)) := fun i _ => get_nil i
  obtain ⟨k, path', R, hrun, _, hR, hr, hk⟩ := dnfLoop_sub_wfo h n (root A) hroot (by omega) [] hfree
  refine ⟨R, ?_, ?_, ?_⟩
  · unfold toDnf dnfFuel
    rw [numVars_of_wf h]
    have hle : k ≤ 4 * 2 ^ n := by
      have : 2 ^ (n - varOf A n (root A)) ≤ 2 ^ n := Nat.pow_le_pow_right (by omega) (by omega)
      omega
    obtain ⟨f, hf⟩ : ∃ f, 4 * 2 ^ n = f + k := ⟨4 * 2 ^ n - k, by omega⟩
    rw [hf, hrun, dnfLoop_nil]
    simp
  · intro c hc x b hg
    rcases hr c hc x b hg with hx | hx
    · exact hx
    · rw [get_nil] at hx; cases hx
  · intro v
    rw [hR v, conjFn_nil]
    rfl

/-- `build_recursive` of `to_cnf` on the sub-diagram `p`, operand well-formed by level -/
theorem cnfRec_sub_wfo {A : Arr} {n : Nat} (h : WFo A n) :
    ∀ fuel p, p < A.size → n - varOf A n p < fuel → ∀ path res, Free path (varOf A n p) →
      ∃ path' R, cnfRec A fuel p path res = some (path', res ++ R) ∧
        (∀ i, path'.get i = path.get i) ∧
        (∀ v, cnfFn R v = (disjFn path v || evW A n v p)) ∧
        (∀ c ∈ R, ∀ x b, c.get x = some b → x < n ∨ path.get x = some b) := by
  intro fuel
  induction fuel with
  | zero => intro p _ hf; omega
  | succ fuel ih =>
    intro p hp hfuel path res hfree
    by_cases h0 : p = 0
    · subst h0
      refine ⟨path, [path], by simp [cnfRec], fun _ => rfl, ?_, ?_⟩
      · intro v; simp [cnfFn, evW_zero]
      · intro c hc x b hg
        rw [List.mem_singleton] at hc; subst hc
        right; exact hg
    by_cases h1 : p = 1
    · subst h1
      refine ⟨path, [], by simp [cnfRec], fun _ => rfl, ?_, ?_⟩
      · intro v; simp [cnfFn, evW_one]
      · intro c hc; cases hc
    have hp2 : 2 ≤ p := by omega
    have hnd : A[p]? = some A[p] := by simp [hp]
    obtain ⟨hv, hl, hh, hvl, hvh⟩ := h.inner p A[p] hp2 hnd
    have hvar : varOf A n p = A[p].var := varOf_node p _ hp2 hnd
    have hnone : path.get A[p].var = none := hfree _ (by omega)
    rw [hvar] at hfuel
    have hlow : ∃ path1 Rl, (if A[p].low ≠ 1 then
          (cnfRec A fuel A[p].low (path.set A[p].var true) res).map fun r => (pvUnset r.1 A[p].var, r.2)
        else some (path, res)) = some (path1, res ++ Rl) ∧
        (∀ i, path1.get i = path.get i) ∧
        (∀ v, cnfFn Rl v = (disjFn path v || (v A[p].var || evW A n v A[p].low))) ∧
        (∀ c ∈ Rl, ∀ x b, c.get x = some b → x < n ∨ path.get x = some b) := by
      by_cases hl1 : A[p].low = 1
      · refine ⟨path, [], by simp [hl1], fun _ => rfl, ?_, fun c hc => by cases hc⟩
        intro v; simp [cnfFn, hl1, evW_one]
      · have hfl : Free (path.set A[p].var true) (varOf A n A[p].low) := hfree.set true hvl (by omega)
        obtain ⟨pa, R, hrun, hext, hR, hr⟩ := ih _ hl (by omega) (path.set A[p].var true) res hfl
        refine ⟨pvUnset pa A[p].var, R, by simp [hl1, hrun], ?_, ?_, ?_⟩
        · intro j
          rw [get_unset]
          split
          · rename_i hj; rw [hj, hnone]
          · rename_i hj; rw [hext, get_set, if_neg hj]
        · intro v
          rw [hR v, disjFn_set _ _ _ _ hnone]
          cases v A[p].var <;> simp
        · intro c hc x b hg
          rcases hr c hc x b hg with hx | hx
          · left; exact hx
          · rw [get_set] at hx
            split at hx
            · rename_i hxv; left; rw [hxv]; exact hv
            · right; exact hx
    obtain ⟨path1, Rl, hrunl, hextl, hRl, hrl⟩ := hlow
    have hnone1 : path1.get A[p].var = none := by rw [hextl]; exact hnone
    have hfree1 : Free path1 A[p].var := fun i hi => by rw [hextl]; exact hfree i (by omega)
    have hhigh : ∃ path2 Rh, (if A[p].high ≠ 1 then
          (cnfRec A fuel A[p].high (path1.set A[p].var false) (res ++ Rl)).map fun r => (pvUnset r.1 A[p].var, r.2)
        else some (path1, res ++ Rl)) = some (path2, (res ++ Rl) ++ Rh) ∧
        (∀ i, path2.get i = path.get i) ∧
        (∀ v, cnfFn Rh v = (disjFn path v || (!v A[p].var || evW A n v A[p].high))) ∧
        (∀ c ∈ Rh, ∀ x b, c.get x = some b → x < n ∨ path.get x = some b) := by
      by_cases hh1 : A[p].high = 1
      · refine ⟨path1, [], by simp [hh1], hextl, ?_, fun c hc => by cases hc⟩
        intro v; simp [cnfFn, hh1, evW_one]
      · have hfh : Free (path1.set A[p].var false) (varOf A n A[p].high) := hfree1.set false hvh (by omega)
        obtain ⟨pa, R, hrun, hext, hR, hr⟩ :=
          ih _ hh (by omega) (path1.set A[p].var false) (res ++ Rl) hfh
        refine ⟨pvUnset pa A[p].var, R, by simp [hh1, hrun], ?_, ?_, ?_⟩
        · intro j
          rw [get_unset]
          split
          · rename_i hj; rw [hj, hnone]
          · rename_i hj; rw [hext, get_set, if_neg hj, hextl]
        · intro v
          rw [hR v, disjFn_set _ _ _ _ hnone1, disjFn_congr hextl v]
          cases v A[p].var <;> simp
        · intro c hc x b hg
          rcases hr c hc x b hg with hx | hx
          · left; exact hx
          · rw [get_set] at hx
            split at hx
            · rename_i hxv; left; rw [hxv]; exact hv
            · right; rw [← hextl]; exact hx
    obtain ⟨path2, Rh, hrunh, hexth, hRh, hrh⟩ := hhigh
    refine ⟨path2, Rl ++ Rh, ?_, hexth, ?_, ?_⟩
    · have h0' : ¬ p = 0 := h0
      have h1' : ¬ p = 1 := h1
      simp only [cnfRec, h0', h1', if_false, nodeAt_eq hnd]
      rw [hrunl]
      simp only
      rw [hrunh, List.append_assoc]
    · intro v
      have e1 := hRl v
      have e2 := hRh v
      unfold cnfFn at e1 e2 ⊢
      rw [List.all_append, e1, e2, evW_node h v p hp2 _ hnd]
      cases hvx : v A[p].var <;> cases disjFn path v <;> simp
    · intro c hc x b hg
      rw [List.mem_append] at hc
      rcases hc with hc | hc
      · exact hrl c hc x b hg
      · exact hrh c hc x b hg

/-- `to_cnf` of any valid operand over `n` variables: the recursion stays within the fuel, every clause only
    fixes variables below `n`, and the conjunction of the disjunctive clauses is the function of the operand -/
theorem toCnf_wfo {A : Arr} {n : Nat} (h : WFo A n) :
    ∃ cs, toCnf A = .ok cs ∧ (∀ c ∈ cs, InRange n c) ∧ ∀ v, cnfFn cs v = evW A n v (root A) := by
  have hroot : root A < A.size := root_lt h
  have hfree : Free ([] : PVal) (varOf A n (root A)) := fun i _ => get_nil i
  obtain ⟨path', R, hrun, _, hR, hr⟩ := cnfRec_sub_wfo h (n + 2) (root A) hroot (by omega) [] [] hfree
  refine ⟨R, ?_, ?_, ?_⟩
  · unfold toCnf
    rw [numVars_of_wf h, hrun]
    simp
  · intro c hc x b hg
    rcases hr c hc x b hg with hx | hx
    · exact hx
    · rw [get_nil] at hx; cases hx
  · intro v
    rw [hR v, disjFn_nil]
    rfl

end B.NF
