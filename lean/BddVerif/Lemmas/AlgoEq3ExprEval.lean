import BddVerif.Lemmas.AlgoEq3ExprFmt
import BddVerif.Lemmas.AlgoEq3ExprIte
import BddVerif.Lemmas.AlgoEq2VarSet
import BddVerif.Lemmas.AlgoEq2RelBool
import BddVerif.Lemmas.AlgoEqUtilNot
import BddVerif.Lemmas.ExprEval
/-!
# Equivalence "translated Rust = hand-written model", third generated file: evaluation of expressions

`BddVariableSet::safe_eval_expression`, `eval_expression`, `eval_expression_string`
(`src/boolean_expression/_impl_boolean_expression.rs:65-121`) as translated (`B.Gen.Algo3.…`, recursion on fuel) against the
hand model `B.ExprM.evalExpr` / `evalExprO` / `evalStringO` (Model/Expr.lean).

The variable set is the translated triple `(num_vars, var_names, var_index_mapping)`; the hypothesis `SetOf T names`
(Lemmas/AlgoEq2VarSet.lean) says that it is the set of the names `names` (what `BddVariableSet::new`, the builder,
`new_anonymous` and the drivers' `varSetOfNames` produce). On the model side the set is the list of names as
`List Char`s: `names.map String.toList`.

The translated evaluator calls the translated engines (`Bdd::and` … `Bdd::iff` = `apply_with_flip`, `Bdd::not`,
`Bdd::if_then_else` = `ternary_apply`); their equivalence theorems (Lemmas/AlgoEq2RelBool, AlgoEqUtilNot,
AlgoEq3ExprIte — reused, not reproved) need operands well formed by level — which the intermediate results are, being
canonical (`ExprM.evalExpr_sem`) — and the size / fuel side conditions `|a|·|b| + 2 ≤ 2^32`, `3·|a|·|b| ≤ fuel`
(resp. the triple product). `EvalOK vars e fuel` collects exactly these conditions along the evaluation of `e`
(recursion fuel decreasing by one per level, the engines receiving the decreased fuel; a right operand is only
evaluated if the left one is not `None`, as in the code). Closed-form sufficient conditions are in
`AlgoEq3ExprEvalBound.lean`.
-/
namespace B.AlgoEq3Expr
open B B.Gen B.Gen.Algo3 B.Parser B.AlgoEqUtil B.AlgoEq2VS B.AlgoEq2Ren B.ExprM
attribute [local instance 10000] Rust.monadOutcomeInline

/-- side conditions of one binary engine call at engine fuel `f` -/
def Op2OK (a b : Arr) (f : Nat) : Prop := a.size * b.size + 2 ≤ 2 ^ 32 ∧ 3 * (a.size * b.size) ≤ f
/-- side conditions of one ternary engine call at engine fuel `f` -/
def Op3OK (a b c : Arr) (f : Nat) : Prop :=
  a.size * b.size * c.size + 2 ≤ 2 ^ 32 ∧ 3 * (a.size * b.size * c.size) ≤ f

instance (a b : Arr) (f : Nat) : Decidable (Op2OK a b f) := by unfold Op2OK; infer_instance
instance (a b c : Arr) (f : Nat) : Decidable (Op3OK a b c f) := by unfold Op3OK; infer_instance

/-- binary connective: both operands evaluate within fuel `f`, and if both are defined the engine call is in range -/
def BinOK (vars : List Name) (okl okr : Nat → Prop) (l r : Expr) (f : Nat) : Prop :=
  okl f ∧ ∀ a, evalExpr vars l = some a → okr f ∧ ∀ b, evalExpr vars r = some b → Op2OK a b f

/-- the evaluation of `e` with recursion fuel `fuel` stays inside the domain of the engine theorems -/
def EvalOK (vars : List Name) : Expr → Nat → Prop
  | .const _, f => 1 ≤ f
  | .var _, f => 1 ≤ f
  | .not e, f => 1 ≤ f ∧ EvalOK vars e (f - 1)
  | .and l r, f => 1 ≤ f ∧ BinOK vars (EvalOK vars l) (EvalOK vars r) l r (f - 1)
  | .or l r, f => 1 ≤ f ∧ BinOK vars (EvalOK vars l) (EvalOK vars r) l r (f - 1)
  | .xor l r, f => 1 ≤ f ∧ BinOK vars (EvalOK vars l) (EvalOK vars r) l r (f - 1)
  | .imp l r, f => 1 ≤ f ∧ BinOK vars (EvalOK vars l) (EvalOK vars r) l r (f - 1)
  | .iff l r, f => 1 ≤ f ∧ BinOK vars (EvalOK vars l) (EvalOK vars r) l r (f - 1)
  | .cond c t e, f => 1 ≤ f ∧ EvalOK vars c (f - 1) ∧ ∀ a, evalExpr vars c = some a →
      EvalOK vars t (f - 1) ∧ ∀ b, evalExpr vars t = some b →
      EvalOK vars e (f - 1) ∧ ∀ d, evalExpr vars e = some d → Op3OK a b d (f - 1)

theorem EvalOK.pos {vars : List Name} {e : Expr} {f : Nat} (h : EvalOK vars e f) : 1 ≤ f := by
  cases e <;> first | exact h | exact h.1

/-- `var_by_name` on the model side (position in the list of names) and `List.idxOf?` on `String`s -/
theorem index_eq (names : List String) (s : String) :
    indexOfName (names.map String.toList) s.toList = names.idxOf? s := by
  induction names with
  | nil => rfl
  | cons x xs ih =>
    rw [List.map_cons, indexOfName, ih, List.idxOf?_cons]
    by_cases h : x = s
    · simp [h]
    · have : ¬ x.toList = s.toList := fun h' => h (String.toList_inj.mp h')
      simp [h, this]

/-- the translated `var_by_name` on a `SetOf` set is the model's `indexOfName` -/
theorem var_by_name_eq_model (T : VSet) (names : List String) (hT : SetOf T names) (s : String) :
    Algo2.BddVariableSet_var_by_name T s = indexOfName (names.map String.toList) s.toList := by
  unfold Algo2.BddVariableSet_var_by_name
  rw [hT.index, index_eq]
  cases names.idxOf? s <;> rfl

section eval
variable (T : VSet) (names : List String) (hT : SetOf T names)
include hT

/-- proof script shared by the five binary connectives (`ihl`, `ihr`: induction hypotheses; `thm`: the engine
    theorem `AlgoEq2Rel.Bdd_<op>_eq_model`) -/
local macro "bin_case" l:ident r:ident ihl:ident ihr:ident thm:ident : tactic => `(tactic| (
  intro fuel h
  cases fuel with
  | zero => exact absurd h.pos (by decide)
  | succ fuel =>
    unfold BddVariableSet_safe_eval_expression
    simp only [toE, EvalOK, BinOK, Nat.add_sub_cancel] at h
    obtain ⟨_, h1, h2⟩ := h
    simp only [$ihl:ident fuel h1, bind_ok, toE, evalExpr]
    cases hl : evalExpr (names.map String.toList) (toE $l:ident) with
    | none => rfl
    | some a =>
      obtain ⟨h3, h4⟩ := h2 a hl
      simp only [$ihr:ident fuel h3, bind_ok]
      cases hr : evalExpr (names.map String.toList) (toE $r:ident) with
      | none => rfl
      | some b =>
        have wa := (evalExpr_sem _ _ a hl).wfo
        have wb := (evalExpr_sem _ _ b hr).wfo
        simp only [$thm:ident a b _ wa wb (h4 b hr).1 fuel (h4 b hr).2, bind_ok, pure_eq, Option.bind]
        try rfl))

/-- **`BddVariableSet::safe_eval_expression` as translated = `ExprM.evalExpr`** (`None` included: exactly when the
    model says `none`, i.e. when some name of the expression is not a variable of the set — `safe_eval_none_iff`). -/
theorem safe_eval_eq_model (e : GE) : ∀ (fuel : Nat), EvalOK (names.map String.toList) (toE e) fuel →
    BddVariableSet_safe_eval_expression fuel T e = .ok (evalExpr (names.map String.toList) (toE e)) := by
  have hn : (names.map String.toList).length = T.1 := by rw [List.length_map, hT.count]
  induction e with
  | Const b =>
    intro fuel h
    cases fuel with
    | zero => exact absurd h.pos (by decide)
    | succ fuel =>
      unfold BddVariableSet_safe_eval_expression
      simp only [pure_eq, toE, evalExpr, hn]
      cases b <;> rfl
  | Variable s =>
    intro fuel h
    cases fuel with
    | zero => exact absurd h.pos (by decide)
    | succ fuel =>
      unfold BddVariableSet_safe_eval_expression
      simp only [pure_eq, toE, evalExpr, hn, var_by_name_eq_model T names hT]
      cases indexOfName (names.map String.toList) s.toList <;> rfl
  | Not e ih =>
    intro fuel h
    cases fuel with
    | zero => exact absurd h.pos (by decide)
    | succ fuel =>
      unfold BddVariableSet_safe_eval_expression
      simp only [toE, EvalOK, Nat.add_sub_cancel] at h
      simp only [ih fuel h.2, bind_ok, toE, evalExpr]
      cases evalExpr (names.map String.toList) (toE e) with
      | none => rfl
      | some a => simp only [Bdd_not_eq_model, bind_ok, pure_eq, Option.map]
  | And l r ihl ihr => bin_case l r ihl ihr AlgoEq2Rel.Bdd_and_eq_model
  | Or l r ihl ihr => bin_case l r ihl ihr AlgoEq2Rel.Bdd_or_eq_model
  | Xor l r ihl ihr => bin_case l r ihl ihr AlgoEq2Rel.Bdd_xor_eq_model
  | Imp l r ihl ihr => bin_case l r ihl ihr AlgoEq2Rel.Bdd_imp_eq_model
  | Iff l r ihl ihr => bin_case l r ihl ihr AlgoEq2Rel.Bdd_iff_eq_model
  | Cond c t e ihc iht ihe =>
    intro fuel h
    cases fuel with
    | zero => exact absurd h.pos (by decide)
    | succ fuel =>
      unfold BddVariableSet_safe_eval_expression
      simp only [toE, EvalOK, Nat.add_sub_cancel] at h
      obtain ⟨_, h1, h2⟩ := h
      simp only [ihc fuel h1, bind_ok, toE, evalExpr]
      cases hc : evalExpr (names.map String.toList) (toE c) with
      | none => rfl
      | some a =>
        obtain ⟨h3, h4⟩ := h2 a hc
        simp only [iht fuel h3, bind_ok]
        cases ht : evalExpr (names.map String.toList) (toE t) with
        | none => rfl
        | some b =>
          obtain ⟨h5, h6⟩ := h4 b ht
          simp only [ihe fuel h5, bind_ok]
          cases he : evalExpr (names.map String.toList) (toE e) with
          | none => rfl
          | some d =>
            have wa := (evalExpr_sem _ _ a hc).wfo
            have wb := (evalExpr_sem _ _ b ht).wfo
            have wd := (evalExpr_sem _ _ d he).wfo
            simp only [Bdd_if_then_else_eq_model a b d _ wa wb wd (h6 d he).1 fuel (h6 d he).2, bind_ok, pure_eq,
              Option.bind]

/-- the translated evaluator returns `None` exactly when some name of the expression is not a variable of the set -/
theorem safe_eval_none_iff (e : GE) (fuel : Nat) (h : EvalOK (names.map String.toList) (toE e) fuel) :
    BddVariableSet_safe_eval_expression fuel T e = .ok none ↔ ∃ s ∈ ExprM.names (toE e), String.ofList s ∉ names := by
  rw [safe_eval_eq_model T names hT e fuel h]
  have key : ∀ s : Name, s ∉ names.map String.toList ↔ String.ofList s ∉ names := by
    intro s
    constructor
    · intro h1 h2; exact h1 (List.mem_map.mpr ⟨_, h2, String.toList_ofList⟩)
    · intro h1 h2
      obtain ⟨x, hx, rfl⟩ := List.mem_map.mp h2
      rw [String.ofList_toList] at h1; exact h1 hx
  constructor
  · intro h1
    have h2 : evalExpr (names.map String.toList) (toE e) = none := by injection h1
    obtain ⟨s, hs1, hs2⟩ := (evalExpr_none_iff _ _).mp h2
    exact ⟨s, hs1, (key s).mp hs2⟩
  · rintro ⟨s, hs1, hs2⟩
    rw [(evalExpr_none_iff _ _).mpr ⟨s, hs1, (key s).mpr hs2⟩]

/-- … and otherwise the canonical array of the pointwise meaning of the expression (`ExprM.evalExpr_sem`) -/
theorem safe_eval_some_canon (e : GE) (fuel : Nat) (h : EvalOK (names.map String.toList) (toE e) fuel)
    (hs : ∀ s ∈ ExprM.names (toE e), String.ofList s ∈ names) :
    BddVariableSet_safe_eval_expression fuel T e =
      .ok (some (canon T.1 (fun v => evalBool (toE e) (envOf (names.map String.toList) v)))) := by
  rw [safe_eval_eq_model T names hT e fuel h]
  cases hr : evalExpr (names.map String.toList) (toE e) with
  | none =>
    obtain ⟨s, hs1, hs2⟩ := (evalExpr_none_iff _ _).mp hr
    exact absurd (List.mem_map.mpr ⟨_, hs s hs1, String.toList_ofList⟩) hs2
  | some r =>
    have := (evalExpr_sem _ _ r hr).eq
    rw [List.length_map, ← hT.count] at this
    rw [this]

/-- **`BddVariableSet::eval_expression` as translated = `ExprM.evalExprO`**: the same array, or the panic of
    `Option::unwrap` (same message) exactly when `safe_eval_expression` returns `None`. -/
theorem eval_expression_eq_model (e : GE) (fuel : Nat) (h : EvalOK (names.map String.toList) (toE e) fuel) :
    BddVariableSet_eval_expression fuel T e = evalExprO (names.map String.toList) (toE e) := by
  unfold BddVariableSet_eval_expression evalExprO
  rw [safe_eval_eq_model T names hT e fuel h]
  cases evalExpr (names.map String.toList) (toE e) <;> rfl

/-- `eval_expression` panics exactly when `safe_eval_expression` returns `None` -/
theorem eval_expression_panic_iff (e : GE) (fuel : Nat) (h : EvalOK (names.map String.toList) (toE e) fuel) :
    BddVariableSet_eval_expression fuel T e = .panic "called `Option::unwrap()` on a `None` value" ↔
      BddVariableSet_safe_eval_expression fuel T e = .ok none := by
  rw [eval_expression_eq_model T names hT e fuel h, safe_eval_eq_model T names hT e fuel h]
  unfold evalExprO
  cases evalExpr (names.map String.toList) (toE e) <;> simp

end eval

/-! ## `eval_expression_string`: relative to `parse_boolean_expression` (not unfolded) -/

/-- the translated `eval_expression_string` is `try_from(..).unwrap()` followed by `eval_expression` -/
theorem eval_expression_string_unfold (fuel : Nat) (T : VSet) (s : String) :
    BddVariableSet_eval_expression_string fuel T s =
      match parse_boolean_expression fuel s with
      | .ok (.ok g) => BddVariableSet_eval_expression fuel T g
      | .ok (.error _) => .panic "called `Result::unwrap()` on an `Err` value"
      | .err m => .err m
      | .panic m => .panic m := by
  unfold BddVariableSet_eval_expression_string
  rw [BooleanExpression_try_from_eq]
  cases parse_boolean_expression fuel s with
  | ok r =>
    cases r with
    | ok g => simp only [bind_ok, Rust.unwrapR]
    | error m => rfl
  | err m => rfl
  | panic m => rfl

/-- model expressions as generated ones inside an outcome -/
def liftE : Outcome Expr → Outcome GE
  | .ok e => .ok (ofE e)
  | .err m => .err m
  | .panic m => .panic m

/-- **`eval_expression_string` as translated ~ `ExprM.evalStringO`**, GIVEN the parser equivalence for this input
    (`hp`: the translated parser returns the model's expression, an `Err` for an `err`, a panic for a panic — the
    statement `AlgoEq3Parser*` proves) and the side conditions for the parsed expression: the same array, or a
    panic where the model panics (unparsable string: `Result::unwrap`; unknown name: `Option::unwrap`). -/
theorem eval_expression_string_rel_model (T : VSet) (names : List String) (hT : SetOf T names) (fuel : Nat)
    (s : String) (hp : RelE (parse_boolean_expression fuel s) (liftE (Parser.parse s.toList)))
    (hok : ∀ e, Parser.parse s.toList = .ok e → EvalOK (names.map String.toList) e fuel) :
    RelK (BddVariableSet_eval_expression_string fuel T s) (evalStringO (names.map String.toList) s.toList) := by
  rw [eval_expression_string_unfold]
  unfold evalStringO
  cases hq : Parser.parse s.toList with
  | ok e =>
    rw [hq] at hp
    have := (hp.ok_iff (ofE e)).2 rfl
    rw [this]
    simp only
    have hok' := hok e hq
    rw [← toE_ofE e] at hok'
    rw [eval_expression_eq_model T names hT (ofE e) fuel hok', toE_ofE]
    unfold evalExprO
    cases evalExpr (names.map String.toList) e with
    | none => exact .panic _ _
    | some r => exact .ok _
  | err m =>
    rw [hq] at hp
    obtain ⟨m', hm⟩ := hp.err_iff.2 ⟨m, rfl⟩
    rw [hm]
    exact .panic _ _
  | panic m =>
    rw [hq] at hp
    obtain ⟨m', hm⟩ := hp.panic_iff.2 ⟨m, rfl⟩
    rw [hm]
    exact .panic _ _

end B.AlgoEq3Expr
