import BddVerif.Lemmas.AlgoEq3Names
/-!
# Translated `BddVariableSetBuilder` (`Gen/Algo3.lean`, `src/_impl_bdd_variable_set_builder.rs`) = `Model/VarSet.lean`

* `BddVariableSetBuilder_new_same`, `make_variable_eq_model`, `make_variables_eq_model`, `build_eq_model` — each
  translated function against the model's `Builder.empty`, `makeVariable`, `makeVariables`, `build`, on every builder
  state (`SameB`: same name vector, equivalent name sets — the translated set is allocated `with_capacity(8)`);
  `make_variable` with its three panics (limit, duplicate, forbidden character) and their messages;
* `runCalls` — an arbitrary sequence of `make_variable` / `make_variables` calls (through the translated functions);
  `protocol_eq_model`: followed by `build` it is the model's `viaBuilder` on the accumulated names;
* `protocol_eq_new`: … and it is the translated `BddVariableSet::new` on the accumulated names (same count, same
  names, equivalent index maps, or both panic) whenever there are at most 65533 names; `protocol_boundary`: with
  exactly 65534 acceptable names the builder succeeds and `new` panics (the two Rust functions test different limits).
No fuel.
-/
namespace B.AlgoEq3Names
open B B.Gen B.AlgoEqUtil B.AlgoEq2Ren B.AlgoEq2VS Std
attribute [local instance 10000] Rust.monadOutcomeInline

/-- the translated `BddVariableSetBuilder { var_names, var_names_set }` -/
abbrev GB := Array String × HashSet String

/-- same name vector, equivalent name sets -/
def SameB (b : GB) (bm : VS.Builder) : Prop := b.1 = bm.names ∧ b.2.Equiv bm.set

/-- `BddVariableSetBuilder::new` -/
theorem BddVariableSetBuilder_new_same : SameB Algo3.BddVariableSetBuilder_new VS.Builder.empty :=
  ⟨rfl, HashSet.equiv_empty_iff_isEmpty.2 HashSet.isEmpty_emptyWithCapacity⟩

/-! ### `make_variable` -/

theorem make_variable_desugar (b : GB) (nm : String) :
    Algo3.BddVariableSetBuilder_make_variable b nm =
      if b.1.size ≥ 65534 then .panic "Too many BDD variables. There can be at most {} variables."
      else if b.2.contains nm = true then .panic "BDD variable {} already exists."
      else if invalid nm = true then .panic "Variable name {} is invalid. Cannot use {:?}"
      else .ok (b.1.size, (b.1.push nm, b.2.insert nm)) := by
  unfold Algo3.BddVariableSetBuilder_make_variable
  simp only [sub_of_le 65535 1 (by omega), bind_ok, bind_panic, pure_eq, show (65535 - 1 : Nat) = 65534 from rfl]
  by_cases h1 : b.1.size ≥ 65534
  · simp only [h1, decide_true, if_true]
  · simp only [h1, decide_false, Bool.false_eq_true, if_false]
    by_cases h2 : b.2.contains nm = true
    · simp only [h2, if_true]
    · simp only [h2, if_false, Bool.false_eq_true]
      by_cases h3 : invalid nm = true
      · have h3' : (nm.toList.any fun c => Algo3.NOT_IN_VAR_NAME.contains c) = true := h3
        simp only [h3, h3', if_true]
      · have h3' : ¬ (nm.toList.any fun c => Algo3.NOT_IN_VAR_NAME.contains c) = true := h3
        simp only [h3, h3', if_false, Bool.false_eq_true]
        rw [asU16_of_lt (by omega)]

/-- **`make_variable`, every builder state, every name** -/
theorem make_variable_eq_model (b : GB) (bm : VS.Builder) (h : SameB b bm) (nm : String) :
    RelBy (fun (r : Nat × GB) (r' : VS.Builder × Nat) => r.1 = r'.2 ∧ SameB r.2 r'.1)
      (Algo3.BddVariableSetBuilder_make_variable b nm) (bm.makeVariable nm) := by
  rw [make_variable_desugar]
  unfold VS.Builder.makeVariable VS.limit
  obtain ⟨h1, h2⟩ := h
  rw [← h1, ← h2.contains_eq, ← Bool.not_not (b := VS.validName nm), ← invalid_eq]
  by_cases c1 : b.1.size ≥ 65534
  · simp only [c1, if_true]; exact .panic _ _
  simp only [c1, if_false]
  by_cases c2 : b.2.contains nm = true
  · simp only [c2, if_true]; exact .panic _ _
  simp only [c2, if_false, Bool.false_eq_true]
  by_cases c3 : invalid nm = true
  · simp only [c3, Bool.not_true, Bool.not_false, if_true]; exact .panic _ _
  · have c3' : invalid nm = false := by simpa using c3
    simp only [c3', Bool.not_false, Bool.not_true, Bool.false_eq_true, if_false]
    exact .ok _ _ ⟨rfl, rfl, h2.insert nm⟩

theorem make_variable_ok (b : GB) (nm : String) (h1 : b.1.size < 65534) (h2 : b.2.contains nm = false)
    (h3 : VS.validName nm = true) :
    Algo3.BddVariableSetBuilder_make_variable b nm = .ok (b.1.size, (b.1.push nm, b.2.insert nm)) := by
  rw [make_variable_desugar, if_neg (by omega), if_neg (by simp [h2]), if_neg (by rw [invalid_eq, h3]; simp)]

theorem make_variable_panic_limit (b : GB) (nm : String) (h1 : 65534 ≤ b.1.size) :
    Algo3.BddVariableSetBuilder_make_variable b nm =
      .panic "Too many BDD variables. There can be at most {} variables." := by
  rw [make_variable_desugar, if_pos h1]

theorem make_variable_panic_duplicate (b : GB) (nm : String) (h1 : b.1.size < 65534) (h2 : b.2.contains nm = true) :
    Algo3.BddVariableSetBuilder_make_variable b nm = .panic "BDD variable {} already exists." := by
  rw [make_variable_desugar, if_neg (by omega), if_pos h2]

theorem make_variable_panic_invalid (b : GB) (nm : String) (h1 : b.1.size < 65534) (h2 : b.2.contains nm = false)
    (h3 : VS.validName nm = false) :
    Algo3.BddVariableSetBuilder_make_variable b nm = .panic "Variable name {} is invalid. Cannot use {:?}" := by
  rw [make_variable_desugar, if_neg (by omega), if_neg (by simp [h2]), if_pos (by rw [invalid_eq, h3]; rfl)]

/-! ### `make_variables` -/

/-- the body of `names.iter().map(|name| self.make_variable(name)).collect()` -/
def mvStep (name : String) (s : GB × Array Nat) : Outcome (ForInStep (GB × Array Nat)) :=
  match Algo3.BddVariableSetBuilder_make_variable s.1 name with
  | .ok r => .ok (.yield (r.2, s.2.push r.1))
  | .err m => .err m
  | .panic m => .panic m

theorem make_variables_desugar (b : GB) (names : Array String) :
    Algo3.BddVariableSetBuilder_make_variables b names =
      (iterL mvStep names.toList (b, #[]) >>= fun s => Outcome.ok (s.2, s.1)) := by
  unfold Algo3.BddVariableSetBuilder_make_variables
  simp only [forIn_array_eq_iterL]
  rw [iterL_congr _ mvStep _ (by
    intro x _ s
    unfold mvStep
    cases Algo3.BddVariableSetBuilder_make_variable s.1 x <;> rfl)]
  rfl

theorem mv_loop : ∀ (l : List String) (b : GB) (bm : VS.Builder) (ids : Array Nat), SameB b bm →
    RelBy (fun (s : GB × Array Nat) (r : VS.Builder × List Nat) => s.2.toList = ids.toList ++ r.2 ∧ SameB s.1 r.1)
      (iterL mvStep l (b, ids)) (bm.makeVariables l) := by
  intro l
  induction l with
  | nil =>
    intro b bm ids h
    exact .ok _ _ ⟨by simp, h⟩
  | cons a l ih =>
    intro b bm ids h
    rw [iterL_cons, VS.Builder.makeVariables]
    simp only [mvStep]
    have hmv := make_variable_eq_model b bm h a
    generalize Algo3.BddVariableSetBuilder_make_variable b a = x at hmv ⊢
    generalize bm.makeVariable a = y at hmv ⊢
    cases hmv with
    | panic m m' => exact .panic _ _
    | err m m' => exact .err _ _
    | ok r r' hr =>
      obtain ⟨hid, hb⟩ := hr
      have hrec := ih r.2 r'.1 (ids.push r.1) hb
      obtain ⟨b1, x1⟩ := r'
      simp only at hrec hid ⊢
      generalize iterL mvStep l (r.2, ids.push r.1) = u at hrec ⊢
      generalize b1.makeVariables l = v at hrec ⊢
      cases hrec with
      | panic m m' => exact .panic _ _
      | err m m' => exact .err _ _
      | ok s q hs =>
        obtain ⟨b2, xs⟩ := q
        refine .ok _ _ ⟨?_, hs.2⟩
        rw [hs.1, ← hid]
        simp

/-- **`make_variables`, every builder state, every vector of names**: the ids and the new state, or a panic in both -/
theorem make_variables_eq_model (b : GB) (bm : VS.Builder) (h : SameB b bm) (names : Array String) :
    RelBy (fun (r : Array Nat × GB) (r' : VS.Builder × List Nat) => r.1.toList = r'.2 ∧ SameB r.2 r'.1)
      (Algo3.BddVariableSetBuilder_make_variables b names) (bm.makeVariables names.toList) := by
  rw [make_variables_desugar]
  have hl := mv_loop names.toList b bm #[] h
  generalize iterL mvStep names.toList (b, #[]) = u at hl ⊢
  generalize bm.makeVariables names.toList = v at hl ⊢
  cases hl with
  | panic m m' => exact .panic _ _
  | err m m' => exact .err _ _
  | ok s q hs => exact .ok _ _ ⟨by simpa using hs.1, hs.2⟩

/-! ### `build` -/

theorem build_loop (a : Array String) (ha : a.size ≤ 65536) : ∀ (k lo : Nat) (m : HashMap String Nat),
    lo + k = a.size →
    iterL (fun i (s : HashMap String Nat) =>
        Rust.idx a i >>= fun nm => Outcome.ok (ForInStep.yield (s.insert nm (Rust.asU16 i))))
      (List.range' lo k) m = .ok (VS.buildIndex (a.toList.drop lo) lo m) := by
  intro k
  induction k with
  | zero =>
    intro lo m h
    rw [List.range'_zero, iterL_nil, List.drop_of_length_le (by simp; omega)]
    rfl
  | succ k ih =>
    intro lo m h
    have hlo : lo < a.size := by omega
    rw [List.range'_succ, iterL_cons, idx_of_lt a lo hlo, bind_ok, asU16_of_lt (by omega)]
    simp only
    rw [List.drop_eq_getElem_cons (l := a.toList) (i := lo) (by simpa using hlo), VS.buildIndex,
      ih (lo + 1) _ (by omega)]
    simp

/-- **`build`**: never a panic; the model's set (for fewer than 65536 names — a builder never holds more than 65534) -/
theorem build_eq_model (b : GB) (bm : VS.Builder) (h : SameB b bm) (hs : b.1.size < 65536) :
    ∃ T, Algo3.BddVariableSetBuilder_build b = .ok T ∧ SameVS T bm.build := by
  unfold Algo3.BddVariableSetBuilder_build
  simp only [forIn_range_eq_iterL, Nat.sub_zero]
  rw [iterL_congr _ (fun i (s : HashMap String Nat) =>
        Rust.idx b.1 i >>= fun nm => Outcome.ok (ForInStep.yield (s.insert nm (Rust.asU16 i)))) _ (by
      intro i _ s; rfl), build_loop b.1 (by omega) b.1.size 0 _ (by omega)]
  refine ⟨_, rfl, ?_, ?_, ?_⟩
  · show Rust.asU16 b.1.size = bm.names.size
    rw [← h.1]
    exact asU16_of_lt hs
  · exact h.1
  · show (VS.buildIndex (b.1.toList.drop 0) 0 _).Equiv (VS.buildIndex bm.names.toList 0 {})
    rw [List.drop_zero, h.1]
    exact buildIndex_equiv _ _ _ _ (empty_equiv _)

end B.AlgoEq3Names
