import BddVerif.Lemmas.AlgoEq3ExprEval
import BddVerif.Lemmas.AlgoEq2NFBase
import BddVerif.Lemmas.AlgoEq2RenDriver
import BddVerif.Drive.Algo3
/-!
# `safe_eval_expression` / `eval_expression` as translated: closed-form fuel bounds, the driver's fuel

Every intermediate result of the model's evaluation is canonical over `n = |vars|` variables, hence has at most
`2^n + 1` nodes (`AlgoEq2NF.canon_size_le`). This discharges the side conditions `EvalOK` of
`safe_eval_eq_model`:

* any expression, `n ≤ 10`: fuel `depth e + 3·(2^n+1)^3` (`n ≤ 10` because the engine theorems need the product of
  the operand sizes `+ 2` to fit `u32`: `1025^3 + 2 ≤ 2^32 < 2049^3`);
* expressions without `? :`, `n ≤ 15`: fuel `depth e + 3·(2^n+1)^2`;
* the fuel the replay driver passes (`Drive.Algo3.fuelEval n e = 64·(size e + 4)·(4^min(n,12) + 64) + 4096`) suffices for
  `n ≤ 6`, and for `n ≤ 12` on expressions without `? :` (`*_driver`). Beyond that the driver's fuel is only
  conditionally sufficient (`EvalOK` at that fuel): the ternary engine needs up to `3·|a|·|b|·|c|` iterations.
-/
namespace B.AlgoEq3Expr
open B B.Gen B.Gen.Algo3 B.Parser B.AlgoEqUtil B.AlgoEq2VS B.AlgoEq2Ren B.ExprM
attribute [local instance 10000] Rust.monadOutcomeInline

/-- nesting depth on the model side -/
def depthE : Expr → Nat
  | .const _ => 1
  | .var _ => 1
  | .not e => depthE e + 1
  | .and l r => max (depthE l) (depthE r) + 1
  | .or l r => max (depthE l) (depthE r) + 1
  | .xor l r => max (depthE l) (depthE r) + 1
  | .imp l r => max (depthE l) (depthE r) + 1
  | .iff l r => max (depthE l) (depthE r) + 1
  | .cond c t e => max (depthE c) (max (depthE t) (depthE e)) + 1

theorem depthE_toE (g : GE) : depthE (toE g) = depth g := by
  induction g <;> simp_all [toE, depth, depthE]

/-- no `cond ? then : else` inside -/
def condFree : Expr → Bool
  | .const _ => true
  | .var _ => true
  | .not e => condFree e
  | .and l r => condFree l && condFree r
  | .or l r => condFree l && condFree r
  | .xor l r => condFree l && condFree r
  | .imp l r => condFree l && condFree r
  | .iff l r => condFree l && condFree r
  | .cond _ _ _ => false

/-- every result of the model's evaluator over `vars` has at most `2^|vars| + 1` nodes -/
theorem evalExpr_size_le (vars : List Name) (e : Expr) (r : Arr) (h : evalExpr vars e = some r) :
    r.size ≤ 2 ^ vars.length + 1 := by
  rw [(evalExpr_sem vars e r h).eq]
  exact AlgoEq2NF.canon_size_le _ _

private theorem mul_le2 {a b S : Nat} (ha : a ≤ S) (hb : b ≤ S) : a * b ≤ S * S := Nat.mul_le_mul ha hb
private theorem mul_le3 {a b c S : Nat} (ha : a ≤ S) (hb : b ≤ S) (hc : c ≤ S) : a * b * c ≤ S * S * S :=
  Nat.mul_le_mul (Nat.mul_le_mul ha hb) hc

/-- `EvalOK` from a bound `S` on the sizes of all results: `P` bounds the products of two and of three of them -/
theorem EvalOK_of_size (vars : List Name) (S P : Nat) (hS : ∀ e r, evalExpr vars e = some r → r.size ≤ S)
    (h2 : S * S ≤ P) (h3 : S * S * S ≤ P) (h32 : P + 2 ≤ 2 ^ 32) (e : Expr) :
    ∀ fuel, depthE e + 3 * P ≤ fuel → EvalOK vars e fuel := by
  have bin : ∀ (l r : Expr), (∀ fuel, depthE l + 3 * P ≤ fuel → EvalOK vars l fuel) →
      (∀ fuel, depthE r + 3 * P ≤ fuel → EvalOK vars r fuel) → ∀ fuel, max (depthE l) (depthE r) + 1 + 3 * P ≤ fuel →
      1 ≤ fuel ∧ BinOK vars (EvalOK vars l) (EvalOK vars r) l r (fuel - 1) := by
    intro l r ihl ihr fuel hf
    refine ⟨by omega, ihl _ (by omega), fun a ha => ⟨ihr _ (by omega), fun b hb => ?_⟩⟩
    have := mul_le2 (hS l a ha) (hS r b hb)
    exact ⟨by omega, by omega⟩
  induction e with
  | const b => intro fuel hf; simp only [depthE] at hf; show 1 ≤ fuel; omega
  | var s => intro fuel hf; simp only [depthE] at hf; show 1 ≤ fuel; omega
  | not e ih => intro fuel hf; simp only [depthE] at hf; exact ⟨by omega, ih _ (by omega)⟩
  | and l r ihl ihr => intro fuel hf; exact bin l r ihl ihr fuel hf
  | or l r ihl ihr => intro fuel hf; exact bin l r ihl ihr fuel hf
  | xor l r ihl ihr => intro fuel hf; exact bin l r ihl ihr fuel hf
  | imp l r ihl ihr => intro fuel hf; exact bin l r ihl ihr fuel hf
  | iff l r ihl ihr => intro fuel hf; exact bin l r ihl ihr fuel hf
  | cond c t e ihc iht ihe =>
    intro fuel hf
    simp only [depthE] at hf
    refine ⟨by omega, ihc _ (by omega), fun a ha => ⟨iht _ (by omega), fun b hb => ⟨ihe _ (by omega), fun d hd => ?_⟩⟩⟩
    have := mul_le3 (hS c a ha) (hS t b hb) (hS e d hd)
    exact ⟨by omega, by omega⟩

/-- the same for expressions without `? :` — only products of two results occur -/
theorem EvalOK_of_size_condFree (vars : List Name) (S P : Nat) (hS : ∀ e r, evalExpr vars e = some r → r.size ≤ S)
    (h2 : S * S ≤ P) (h32 : P + 2 ≤ 2 ^ 32) (e : Expr) (hcf : condFree e = true) :
    ∀ fuel, depthE e + 3 * P ≤ fuel → EvalOK vars e fuel := by
  have bin : ∀ (l r : Expr), (∀ fuel, depthE l + 3 * P ≤ fuel → EvalOK vars l fuel) →
      (∀ fuel, depthE r + 3 * P ≤ fuel → EvalOK vars r fuel) → ∀ fuel, max (depthE l) (depthE r) + 1 + 3 * P ≤ fuel →
      1 ≤ fuel ∧ BinOK vars (EvalOK vars l) (EvalOK vars r) l r (fuel - 1) := by
    intro l r ihl ihr fuel hf
    refine ⟨by omega, ihl _ (by omega), fun a ha => ⟨ihr _ (by omega), fun b hb => ?_⟩⟩
    have := mul_le2 (hS l a ha) (hS r b hb)
    exact ⟨by omega, by omega⟩
  induction e with
  | const b => intro fuel hf; simp only [depthE] at hf; show 1 ≤ fuel; omega
  | var s => intro fuel hf; simp only [depthE] at hf; show 1 ≤ fuel; omega
  | not e ih => intro fuel hf; simp only [depthE] at hf; exact ⟨by omega, ih hcf _ (by omega)⟩
  | and l r ihl ihr =>
    intro fuel hf; simp only [condFree, Bool.and_eq_true] at hcf; exact bin l r (ihl hcf.1) (ihr hcf.2) fuel hf
  | or l r ihl ihr =>
    intro fuel hf; simp only [condFree, Bool.and_eq_true] at hcf; exact bin l r (ihl hcf.1) (ihr hcf.2) fuel hf
  | xor l r ihl ihr =>
    intro fuel hf; simp only [condFree, Bool.and_eq_true] at hcf; exact bin l r (ihl hcf.1) (ihr hcf.2) fuel hf
  | imp l r ihl ihr =>
    intro fuel hf; simp only [condFree, Bool.and_eq_true] at hcf; exact bin l r (ihl hcf.1) (ihr hcf.2) fuel hf
  | iff l r ihl ihr =>
    intro fuel hf; simp only [condFree, Bool.and_eq_true] at hcf; exact bin l r (ihl hcf.1) (ihr hcf.2) fuel hf
  | cond c t e ihc iht ihe => exact absurd hcf (by simp [condFree])

/-! ## closed forms -/

private theorem cube_le {S M : Nat} (h : S ≤ M) : S * S * S ≤ M * M * M := mul_le3 h h h
private theorem sq_le_cube (S : Nat) : S * S ≤ S * S * S := by
  cases S with
  | zero => simp
  | succ k => exact Nat.le_mul_of_pos_right _ (Nat.succ_pos k)

/-- at most 10 variables: `EvalOK` holds for every fuel `≥ depth e + 3·(2^n+1)^3` -/
theorem EvalOK_closed (vars : List Name) (hn : vars.length ≤ 10) (e : Expr) (fuel : Nat)
    (hf : depthE e + 3 * ((2 ^ vars.length + 1) * (2 ^ vars.length + 1) * (2 ^ vars.length + 1)) ≤ fuel) :
    EvalOK vars e fuel := by
  refine EvalOK_of_size vars (2 ^ vars.length + 1) _ (evalExpr_size_le vars) (sq_le_cube _) (Nat.le_refl _) ?_ e fuel hf
  have h1 : 2 ^ vars.length + 1 ≤ 2 ^ 10 + 1 := Nat.add_le_add_right (Nat.pow_le_pow_right (by decide) hn) 1
  have h2 := cube_le h1
  have h3 : (2 ^ 10 + 1) * (2 ^ 10 + 1) * (2 ^ 10 + 1) + 2 ≤ 2 ^ 32 := by decide
  omega

/-- no `? :`, at most 15 variables: `EvalOK` holds for every fuel `≥ depth e + 3·(2^n+1)^2` -/
theorem EvalOK_closed_condFree (vars : List Name) (hn : vars.length ≤ 15) (e : Expr) (hcf : condFree e = true)
    (fuel : Nat) (hf : depthE e + 3 * ((2 ^ vars.length + 1) * (2 ^ vars.length + 1)) ≤ fuel) :
    EvalOK vars e fuel := by
  refine EvalOK_of_size_condFree vars (2 ^ vars.length + 1) _ (evalExpr_size_le vars) (Nat.le_refl _) ?_ e hcf fuel hf
  have h1 : 2 ^ vars.length + 1 ≤ 2 ^ 15 + 1 := Nat.add_le_add_right (Nat.pow_le_pow_right (by decide) hn) 1
  have h2 := mul_le2 h1 h1
  have h3 : (2 ^ 15 + 1) * (2 ^ 15 + 1) + 2 ≤ 2 ^ 32 := by decide
  omega

section closed
variable (T : VSet) (names : List String) (hT : SetOf T names)
include hT

/-- **`safe_eval_expression` as translated = `ExprM.evalExpr`, closed form** (`n = T.1 ≤ 10` variables) -/
theorem safe_eval_eq_model_closed (hn : names.length ≤ 10) (e : GE) (fuel : Nat)
    (hf : depth e + 3 * ((2 ^ names.length + 1) * (2 ^ names.length + 1) * (2 ^ names.length + 1)) ≤ fuel) :
    BddVariableSet_safe_eval_expression fuel T e = .ok (evalExpr (names.map String.toList) (toE e)) :=
  safe_eval_eq_model T names hT e fuel
    (EvalOK_closed _ (by rwa [List.length_map]) _ fuel (by rwa [List.length_map, depthE_toE]))

/-- … without `? :`, `n ≤ 15` -/
theorem safe_eval_eq_model_closed_condFree (hn : names.length ≤ 15) (e : GE) (hcf : condFree (toE e) = true)
    (fuel : Nat) (hf : depth e + 3 * ((2 ^ names.length + 1) * (2 ^ names.length + 1)) ≤ fuel) :
    BddVariableSet_safe_eval_expression fuel T e = .ok (evalExpr (names.map String.toList) (toE e)) :=
  safe_eval_eq_model T names hT e fuel
    (EvalOK_closed_condFree _ (by rwa [List.length_map]) _ hcf fuel (by rwa [List.length_map, depthE_toE]))

/-- **`eval_expression` as translated = `ExprM.evalExprO`, closed form** -/
theorem eval_expression_eq_model_closed (hn : names.length ≤ 10) (e : GE) (fuel : Nat)
    (hf : depth e + 3 * ((2 ^ names.length + 1) * (2 ^ names.length + 1) * (2 ^ names.length + 1)) ≤ fuel) :
    BddVariableSet_eval_expression fuel T e = evalExprO (names.map String.toList) (toE e) :=
  eval_expression_eq_model T names hT e fuel
    (EvalOK_closed _ (by rwa [List.length_map]) _ fuel (by rwa [List.length_map, depthE_toE]))

theorem eval_expression_eq_model_closed_condFree (hn : names.length ≤ 15) (e : GE) (hcf : condFree (toE e) = true)
    (fuel : Nat) (hf : depth e + 3 * ((2 ^ names.length + 1) * (2 ^ names.length + 1)) ≤ fuel) :
    BddVariableSet_eval_expression fuel T e = evalExprO (names.map String.toList) (toE e) :=
  eval_expression_eq_model T names hT e fuel
    (EvalOK_closed_condFree _ (by rwa [List.length_map]) _ hcf fuel (by rwa [List.length_map, depthE_toE]))

end closed

/-! ## the replay driver (`Drive/Algo3.lean`, key `C15.eval`) -/

theorem driver_ofE (e : Expr) : Drive.Algo3.ofE e = ofE e := by
  induction e <;> simp_all [Drive.Algo3.ofE, ofE]

theorem driver_toE (g : GE) : Drive.Algo3.toE g = toE g := by
  induction g <;> simp_all [Drive.Algo3.toE, toE]

theorem depthE_le_sizeE (e : Expr) : depthE e ≤ Drive.Algo3.sizeE e := by
  induction e <;> simp only [depthE, Drive.Algo3.sizeE] <;> omega

/-- the sets the driver builds: `varSetOfNameList vars` is the set of the names `vars` -/
theorem varSetOfNameList_setOf (vars : List Name) (T : VSet) (h : Drive.Algo3.varSetOfNameList vars = some T) :
    SetOf T (vars.map String.ofList) ∧ (vars.map String.ofList).map String.toList = vars := by
  refine ⟨(varSetOfNames_setOf _ T h).1, ?_⟩
  rw [List.map_map]
  have : (String.toList ∘ String.ofList) = id := by funext l; simp
  rw [this, List.map_id]

private theorem fuel_arith (s d X c : Nat) (hX : 0 < X) (hd : d ≤ s) (hc : c ≤ 256 * X) :
    d + c ≤ 64 * (s + 4) * X + 4096 := by
  have e : 64 * (s + 4) * X = 64 * (s * X) + 256 * X := by
    rw [Nat.mul_assoc, Nat.add_mul, Nat.mul_add]; omega
  have : s ≤ s * X := Nat.le_mul_of_pos_right s hX
  omega

private theorem cube_table : ∀ n, n ≤ 6 →
    3 * ((2 ^ n + 1) * (2 ^ n + 1) * (2 ^ n + 1)) ≤ 256 * (4 ^ n + 64) := by decide
private theorem sq_table : ∀ n, n ≤ 12 → 3 * ((2 ^ n + 1) * (2 ^ n + 1)) ≤ 256 * (4 ^ n + 64) := by decide

/-- the driver's fuel discharges `EvalOK` for up to 6 variables … -/
theorem EvalOK_driver (vars : List Name) (hn : vars.length ≤ 6) (e : Expr) :
    EvalOK vars e (Drive.Algo3.fuelEval vars.length e) := by
  apply EvalOK_closed vars (by omega) e
  unfold Drive.Algo3.fuelEval
  rw [Nat.min_eq_left (by omega : vars.length ≤ 12)]
  exact fuel_arith _ _ _ _ (Nat.add_pos_right _ (by decide))
    (depthE_le_sizeE e) (cube_table _ hn)

/-- … and for up to 12 variables on expressions without `? :` -/
theorem EvalOK_driver_condFree (vars : List Name) (hn : vars.length ≤ 12) (e : Expr) (hcf : condFree e = true) :
    EvalOK vars e (Drive.Algo3.fuelEval vars.length e) := by
  apply EvalOK_closed_condFree vars (by omega) e hcf
  unfold Drive.Algo3.fuelEval
  rw [Nat.min_eq_left hn]
  exact fuel_arith _ _ _ _ (Nat.add_pos_right _ (by decide))
    (depthE_le_sizeE e) (sq_table _ hn)

/-- **`C15.eval` as the driver runs it**: set built by `varSetOfNameList`, expression converted by the driver's
    `ofE`, fuel `fuelEval` — both translated functions return what the hand models return. -/
theorem eval_eq_model_driver (vars : List Name) (T : VSet) (hT : Drive.Algo3.varSetOfNameList vars = some T) (e : Expr)
    (h : vars.length ≤ 6 ∨ (vars.length ≤ 12 ∧ condFree e = true)) :
    BddVariableSet_safe_eval_expression (Drive.Algo3.fuelEval vars.length e) T (Drive.Algo3.ofE e) =
        .ok (evalExpr vars e) ∧
      BddVariableSet_eval_expression (Drive.Algo3.fuelEval vars.length e) T (Drive.Algo3.ofE e) = evalExprO vars e := by
  obtain ⟨hS, hv⟩ := varSetOfNameList_setOf vars T hT
  have hok : EvalOK vars e (Drive.Algo3.fuelEval vars.length e) := by
    rcases h with h | ⟨h1, h2⟩
    · exact EvalOK_driver vars h e
    · exact EvalOK_driver_condFree vars h1 e h2
  have hok' : EvalOK ((vars.map String.ofList).map String.toList) (toE (ofE e)) (Drive.Algo3.fuelEval vars.length e) := by
    rw [hv, toE_ofE]; exact hok
  have h1 := safe_eval_eq_model T _ hS (ofE e) _ hok'
  have h2 := eval_expression_eq_model T _ hS (ofE e) _ hok'
  rw [hv, toE_ofE] at h1 h2
  rw [driver_ofE]
  exact ⟨h1, h2⟩

/-- with the driver's fuel and any number of variables: conditional on `EvalOK` at that fuel -/
theorem eval_eq_model_driver_of_ok (vars : List Name) (T : VSet) (hT : Drive.Algo3.varSetOfNameList vars = some T)
    (e : Expr) (hok : EvalOK vars e (Drive.Algo3.fuelEval vars.length e)) :
    BddVariableSet_safe_eval_expression (Drive.Algo3.fuelEval vars.length e) T (Drive.Algo3.ofE e) =
        .ok (evalExpr vars e) ∧
      BddVariableSet_eval_expression (Drive.Algo3.fuelEval vars.length e) T (Drive.Algo3.ofE e) = evalExprO vars e := by
  obtain ⟨hS, hv⟩ := varSetOfNameList_setOf vars T hT
  have hok' : EvalOK ((vars.map String.ofList).map String.toList) (toE (ofE e)) (Drive.Algo3.fuelEval vars.length e) := by
    rw [hv, toE_ofE]; exact hok
  have h1 := safe_eval_eq_model T _ hS (ofE e) _ hok'
  have h2 := eval_expression_eq_model T _ hS (ofE e) _ hok'
  rw [hv, toE_ofE] at h1 h2
  rw [driver_ofE]
  exact ⟨h1, h2⟩

/-- `format!("{}", e)` as the driver runs it (`genDisplay`: fuel `sizeE e + 8`) is the hand-written printer -/
theorem genDisplay_eq_model (e : Expr) : Drive.Algo3.genDisplay e = .ok (display e) := by
  unfold Drive.Algo3.genDisplay
  rw [driver_ofE, BooleanExpression_to_string_eq_model (ofE e) _
    (by rw [← depthE_toE, toE_ofE]; have := depthE_le_sizeE e; omega), toE_ofE]
  simp only [String.toList_ofList]

end B.AlgoEq3Expr
