import BddVerif.Lemmas.ExactWalkC17
/-! axiom audit: soundness of the drivers' exact memoised walks (Lemmas/ExactWalkC17.lean; C07 and C04 not done) -/
#print axioms B.ExactWalk.forIn_inv_eq
#print axioms B.ExactWalk.Loc.mono
#print axioms B.ExactWalk.closed_sound
#print axioms B.ExactWalk.varOf_term
#print axioms B.ExactWalk.step_sound
#print axioms B.ExactWalk.good_final
#print axioms B.ExactWalk.sameFunctionUnder_sound
#print axioms B.ExactWalk.sameFunctionUnder_sound_wfoB
/-! the hypothesis `sameFunctionUnder … = true` is satisfiable (compiled evaluation; the kernel cannot unfold `HashSet`),
    and the walk does accept the out-of-range renaming of the counterexample in ExactWalkC17.lean: both print `true` -/
open B B.Drive B.ExactWalk in
#eval C17.sameFunctionUnder exB exR exG
open B B.Drive B.ExactWalk in
#eval C17.sameFunctionUnder (#[⟨1, 0, 0⟩, ⟨1, 1, 1⟩, ⟨0, 0, 1⟩] : Arr) (#[⟨1, 0, 0⟩] : Arr) (fun _ => some 2000000)
