import BddVerif.Lemmas.ExactWalkC17
import BddVerif.Lemmas.ExactWalkC07
import BddVerif.Lemmas.ExactWalkC04
import BddVerif.Lemmas.ExactWalkC07Complete
import BddVerif.Lemmas.ExactWalkC04Complete
import BddVerif.Lemmas.ExactWalkC17Complete
/-! axiom audit: soundness of the drivers' exact memoised walks (Lemmas/ExactWalkC17.lean, ExactWalkC07.lean, ExactWalkC04.lean) -/
#print axioms B.ExactWalk.forIn_inv_eq
#print axioms B.ExactWalk.Loc.mono
#print axioms B.ExactWalk.closed_sound
#print axioms B.ExactWalk.varOf_term
#print axioms B.ExactWalk.step_sound
#print axioms B.ExactWalk.good_final
#print axioms B.ExactWalk.sameFunctionUnder_sound
#print axioms B.ExactWalk.sameFunctionUnder_sound_wfoB
/-! the hypothesis `sameFunctionUnder … = true` is satisfiable (compiled evaluation; the kernel cannot unfold `HashSet`),
    and the walk does accept the out-of-range renaming of the counterexample in ExactWalkC17.lean: both print `true` -/
open B B.Drive B.ExactWalk in
#eval C17.sameFunctionUnder exB exR exG
open B B.Drive B.ExactWalk in
#eval C17.sameFunctionUnder (#[⟨1, 0, 0⟩, ⟨1, 1, 1⟩, ⟨0, 0, 1⟩] : Arr) (#[⟨1, 0, 0⟩] : Arr) (fun _ => some 2000000)
/-! C07 `compositionExact` -/
#print axioms B.ExactWalk.closed_sound_gen
#print axioms B.ExactWalk.comp_facts
#print axioms B.ExactWalk.stepP_spec
#print axioms B.ExactWalk.stepP_id
#print axioms B.ExactWalk.skipX_spec
#print axioms B.ExactWalk.evW_term
#print axioms B.ExactWalk.norm_spec
#print axioms B.ExactWalk.term_E
#print axioms B.ExactWalk.kid_spec
#print axioms B.ExactWalk.Loc7.mono
#print axioms B.ExactWalk.good_final7
#print axioms B.ExactWalk.compositionExact_sound
#print axioms B.ExactWalk.compositionExact_sound_wfoB
/-! satisfiable hypothesis: prints `some true`; a wrong result (`r := f`) is rejected: prints `some false` -/
open B B.Drive B.ExactWalk in
#eval C07.compositionExact ex7F ex7G ex7R 1 6000000
open B B.Drive B.ExactWalk in
#eval C07.compositionExact ex7F ex7G ex7F 1 6000000
/-! C04 `walk2` / `walk3` -/
#print axioms B.ExactWalk.invV_eq_inv
#print axioms B.ExactWalk.inv_at
#print axioms B.ExactWalk.cof_spec
#print axioms B.ExactWalk.M3.mono
#print axioms B.ExactWalk.Loc3.mono
#print axioms B.ExactWalk.kid3_spec
#print axioms B.ExactWalk.term3_E
#print axioms B.ExactWalk.walk2_post
#print axioms B.ExactWalk.walk2_sound
#print axioms B.ExactWalk.walk2_sound_driver
#print axioms B.ExactWalk.M4.mono
#print axioms B.ExactWalk.Loc4.mono
#print axioms B.ExactWalk.kid4_spec
#print axioms B.ExactWalk.term4_E
#print axioms B.ExactWalk.walk3_post
#print axioms B.ExactWalk.walk3_sound
#print axioms B.ExactWalk.walk3_sound_driver
/-! satisfiable hypothesis: prints `true`; without the flip the same result is rejected: prints `false` -/
open B B.Drive B.ExactWalk in
#eval (C04.walk2 ex4X ex4L ex4R 2 (· && ·) (some 1) none none 4 (root ex4X) (root ex4L) (root ex4R) {}).1
open B B.Drive B.ExactWalk in
#eval (C04.walk2 ex4X ex4L ex4R 2 (· && ·) none none none 4 (root ex4X) (root ex4L) (root ex4R) {}).1
open B B.Drive B.ExactWalk in
#eval (C04.walk3 ex4X ex4L ex4R ex4R 2 (fun a b c => a && b && c) (some 1) none none none 4 (root ex4X) (root ex4L) (root ex4R) (root ex4R) {}).1
/-! rejecting answers are conclusive (ExactWalkC07Complete.lean, ExactWalkC04Complete.lean) -/
#print axioms B.ExactWalk.norm_at
#print axioms B.ExactWalk.kid_at
#print axioms B.ExactWalk.term_not_E
#print axioms B.ExactWalk.compositionExact_reject
#print axioms B.ExactWalk.compositionExact_reject_wfoB
#print axioms B.ExactWalk.varOf_lt_of_node
#print axioms B.ExactWalk.kid3_at
#print axioms B.ExactWalk.term3_not_E
#print axioms B.ExactWalk.walk2_reject
#print axioms B.ExactWalk.walk2_complete
#print axioms B.ExactWalk.walk2_complete_driver
#print axioms B.ExactWalk.kid4_at
#print axioms B.ExactWalk.term4_not_E
#print axioms B.ExactWalk.walk3_reject
#print axioms B.ExactWalk.walk3_complete
#print axioms B.ExactWalk.walk3_complete_driver
/-! C17 reject direction (ExactWalkC17Complete.lean) -/
#print axioms B.ExactWalk.forIn_range'_inv
#print axioms B.ExactWalk.forIn_range'_inv_eq
#print axioms B.ExactWalk.rstep
#print axioms B.ExactWalk.bstep
#print axioms B.ExactWalk.vb_ne
#print axioms B.ExactWalk.sameFunctionUnder_reject
#print axioms B.ExactWalk.sameFunctionUnder_reject_wfoB
/-! false alarms of the walk for renamings that are not increasing on the support: equal functions (proved in
    ExactWalkC17Complete.lean), valid reduced arrays, answer `false` twice -/
open B B.Drive B.ExactWalk in
#eval C17.sameFunctionUnder ex17B ex17B ex17Swap
open B B.Drive B.ExactWalk in
#eval C17.sameFunctionUnder ex17B ex17R3 ex17Merge
open B B.Drive B.ExactWalk in
#eval (isReduced ex17B, isReduced ex17R3)
