import BddVerif.Core.ApplyCanon
import BddVerif.Drive.Util
import BddVerif.Lemmas.CountSupport
import BddVerif.Lemmas.Rename
/-!
# Soundness of support compression

The per-property drivers decide "the observed array denotes function `F` of the operands" for diagrams over
many variables by computing the set `S` of variables tested by any decision node of the arrays involved and
comparing the functions on all `2^|S|` assignments of `S` under a fixed background assignment of the other
variables. This file proves that step:

* `evalF_congr_tested` — the evaluator `evalF` (any fuel, any pointer, ANY array — no well-formedness
  is needed) reads a valuation only at the variables stored in decision nodes (index ≥ 2);
  `evW_congr_tested`, `evalArr_congr_tested`, `den_congr_tested` are its instances for the three
  denotations in use (`evalArr` is what the drivers call);
* `evalArr_congr_supportSet` — the same with the model's `supportSet` (`B.supportSet`, and `B.Ren.supportSet`);
* `DetBy S F` — "`F` is determined by the variables in `S`", closed under connectives, cofactors (`upd`),
  quantification of a variable, pre-composition with an `S`-local transformation of the valuation;
* `compress_eq` — two functions determined by `S` that agree on the `2^|S|` overlays of ONE arbitrary
  background agree everywhere; `compress_evalArr_eq`, `compress_evalArr_conn`, `compress_evalArr_conn3`,
  `compress_evalArr_quant`, `compress_evalArr_not` are the instances the drivers rely on;
* `compress_eq_idx` … — the same with the assignments of `S` numbered `0 … 2^|S| - 1`, first variable of `S`
  most significant (`overlayIdx`, the drivers' `valOn`).
-/
namespace B.SupportCongr
open B B.Drive

/-! ### 1. evaluation reads only tested variables -/

/-- `evalF` — whatever the fuel, the pointer and the array — looks at a valuation only at variables stored
    in decision nodes (nodes of index ≥ 2). No well-formedness hypothesis. -/
theorem evalF_congr_tested (A : Arr) (v w : Nat → Bool)
    (hvw : ∀ p nd, 2 ≤ p → A[p]? = some nd → v nd.var = w nd.var) :
    ∀ f p, evalF A v f p = evalF A w f p := by
  intro f
  induction f with
  | zero =>
    intro p
    match p with
    | 0 => simp [evalF]
    | 1 => simp [evalF]
    | p + 2 => simp [evalF]
  | succ f ih =>
    intro p
    match p with
    | 0 => simp [evalF]
    | 1 => simp [evalF]
    | p + 2 =>
      simp only [evalF]
      cases hA : A[p + 2]? with
      | none => rfl
      | some nd =>
        simp only
        rw [hvw (p + 2) nd (by omega) hA]; exact ih _

/-- operand denotation (`evW`, fuel by level): depends only on the variables tested by decision nodes.
    (`h` and the bound on `p` are not needed; they are kept so that the lemma can be used wherever the
    level-indexed `evW_indep` is.) -/
theorem evW_congr_tested {A : Arr} {n : Nat} (_h : WFo A n) (v w : Nat → Bool)
    (hvw : ∀ p nd, 2 ≤ p → A[p]? = some nd → v nd.var = w nd.var) :
    ∀ p, p < A.size → evW A n v p = evW A n w p := by
  intro p _
  exact evalF_congr_tested A v w hvw (n + 1) p

/-- the same without the unused hypotheses -/
theorem evW_congr_tested' (A : Arr) (n : Nat) (v w : Nat → Bool)
    (hvw : ∀ p nd, 2 ≤ p → A[p]? = some nd → v nd.var = w nd.var) (p : Nat) :
    evW A n v p = evW A n w p :=
  evalF_congr_tested A v w hvw (n + 1) p

/-- the drivers' evaluator -/
theorem evalArr_congr_tested (A : Arr) (v w : Nat → Bool)
    (hvw : ∀ p nd, 2 ≤ p → A[p]? = some nd → v nd.var = w nd.var) :
    evalArr A v = evalArr A w :=
  evalF_congr_tested A v w hvw _ _

/-- pointer denotation `ev` -/
theorem ev_congr_tested (A : Arr) (v w : Nat → Bool)
    (hvw : ∀ p nd, 2 ≤ p → A[p]? = some nd → v nd.var = w nd.var) (p : Nat) :
    ev A v p = ev A w p :=
  evalF_congr_tested A v w hvw p p

/-- whole-array denotation `den` -/
theorem den_congr_tested (A : Arr) (v w : Nat → Bool)
    (hvw : ∀ p nd, 2 ≤ p → A[p]? = some nd → v nd.var = w nd.var) :
    den A v = den A w :=
  ev_congr_tested A v w hvw (root A)

/-- for a well-formed operand the drivers' evaluator is the operand denotation of the root -/
theorem evalArr_eq_evW {A : Arr} {n : Nat} (h : WFo A n) (v : Nat → Bool) :
    evalArr A v = evW A n v (root A) := by
  unfold evalArr evW; rw [numVars_of_wf h]

/-! ### 2. `supportSet` form -/

theorem evalArr_congr_supportSet (A : Arr) (v w : Nat → Bool)
    (hvw : ∀ x ∈ supportSet A, v x = w x) : evalArr A v = evalArr A w :=
  evalArr_congr_tested A v w fun p nd hp hnd =>
    hvw nd.var ((Count.mem_supportSet A nd.var).2 ⟨p, nd, hp, hnd, rfl⟩)

/-- the form asked for (the well-formedness hypothesis is not used) -/
theorem evalArr_congr_supportSet_wf {A : Arr} {n : Nat} (_h : WFo A n) (v w : Nat → Bool)
    (hvw : ∀ x ∈ supportSet A, v x = w x) : evalArr A v = evalArr A w :=
  evalArr_congr_supportSet A v w hvw

theorem evW_congr_supportSet (A : Arr) (n : Nat) (v w : Nat → Bool)
    (hvw : ∀ x ∈ supportSet A, v x = w x) (p : Nat) : evW A n v p = evW A n w p :=
  evW_congr_tested' A n v w (fun p nd hp hnd =>
    hvw nd.var ((Count.mem_supportSet A nd.var).2 ⟨p, nd, hp, hnd, rfl⟩)) p

theorem den_congr_supportSet (A : Arr) (v w : Nat → Bool)
    (hvw : ∀ x ∈ supportSet A, v x = w x) : den A v = den A w :=
  den_congr_tested A v w fun p nd hp hnd =>
    hvw nd.var ((Count.mem_supportSet A nd.var).2 ⟨p, nd, hp, hnd, rfl⟩)

/-- with the `support_set` model of the rename / substitute family (`B.Ren.supportSet`) -/
theorem evalArr_congr_renSupportSet (A : Arr) (v w : Nat → Bool)
    (hvw : ∀ x ∈ Ren.supportSet A, v x = w x) : evalArr A v = evalArr A w :=
  evalArr_congr_tested A v w fun p nd hp hnd =>
    hvw nd.var ((Ren.mem_supportSet A nd.var).2 ⟨p, nd, hp, hnd, rfl⟩)

/-- the two models of `support_set` have the same elements -/
theorem mem_supportSet_iff_ren (A : Arr) (x : Nat) : x ∈ supportSet A ↔ x ∈ Ren.supportSet A := by
  rw [Count.mem_supportSet, Ren.mem_supportSet]

/-! ### 3. overlays -/

/-- the valuation that gives the variable `S[i]` (first occurrence) the value `bits[i]` (`false` if `bits` is
    too short) and every variable outside `S` its background value -/
def overlay (bg : Nat → Bool) : List Nat → List Bool → Nat → Bool
  | [], _, x => bg x
  | s :: S, bits, x => if x = s then bits.headD false else overlay bg S bits.tail x

theorem overlay_not_mem (bg : Nat → Bool) (x : Nat) :
    ∀ (S : List Nat) (bits : List Bool), x ∉ S → overlay bg S bits x = bg x := by
  intro S
  induction S with
  | nil => intro _ _; rfl
  | cons s S ih =>
    intro bits hx
    simp only [List.mem_cons, not_or] at hx
    simp only [overlay, if_neg hx.1]
    exact ih _ hx.2

/-- `overlay` in closed form: position of the first occurrence -/
theorem overlay_eq_idxOf? (bg : Nat → Bool) (x : Nat) :
    ∀ (S : List Nat) (bits : List Bool),
      overlay bg S bits x = match S.idxOf? x with
        | some i => bits.getD i false
        | none => bg x := by
  intro S
  induction S with
  | nil => intro bits; simp [overlay]
  | cons s S ih =>
    intro bits
    by_cases hx : x = s
    · subst hx
      cases bits <;> simp [overlay, List.idxOf?_cons]
    · have hx' : ¬ s = x := fun h => hx h.symm
      simp only [overlay, if_neg hx, ih, List.idxOf?_cons, beq_iff_eq, hx', if_false]
      cases S.idxOf? x with
      | none => rfl
      | some i => cases bits <;> simp

/-- at the first occurrence of a variable the overlay has the corresponding bit -/
theorem overlay_getElem (bg : Nat → Bool) :
    ∀ (S : List Nat) (bits : List Bool) (i : Nat) (hi : i < S.length) (hb : i < bits.length),
      (∀ j (hj : j < i), S[j]'(Nat.lt_trans hj hi) ≠ S[i]) → overlay bg S bits S[i] = bits[i] := by
  intro S
  induction S with
  | nil => intro _ i hi; simp at hi
  | cons s S ih =>
    intro bits i hi hb hfirst
    match bits, i with
    | [], _ => simp at hb
    | b :: bits, 0 => simp [overlay]
    | b :: bits, i + 1 =>
      have hne : S[i]'(by simpa using hi) ≠ s := by
        have := hfirst 0 (by omega); simpa using fun h => this h.symm
      simp only [List.getElem_cons_succ, overlay, if_neg hne, List.tail_cons]
      apply ih bits i (by simpa using hi) (by simpa using hb)
      intro j hj
      have := hfirst (j + 1) (by omega)
      simpa using this

/-- the overlay of the restriction of `v` to `S` is `v` on `S` -/
theorem overlay_map (bg v : Nat → Bool) (x : Nat) :
    ∀ S : List Nat, x ∈ S → overlay bg S (S.map v) x = v x := by
  intro S
  induction S with
  | nil => intro h; cases h
  | cons s S ih =>
    intro hx
    by_cases hxs : x = s
    · subst hxs; simp [overlay]
    · simp only [List.map_cons, overlay, if_neg hxs, List.tail_cons]
      exact ih ((List.mem_cons.1 hx).resolve_left hxs)

/-! ### functions determined by a set of variables -/

/-- `F` is determined by the values of the variables listed in `S` -/
def DetBy (S : List Nat) (F : (Nat → Bool) → Bool) : Prop :=
  ∀ v w : Nat → Bool, (∀ x ∈ S, v x = w x) → F v = F w

theorem DetBy.mono {S T : List Nat} {F : (Nat → Bool) → Bool} (h : DetBy S F) (hST : ∀ x ∈ S, x ∈ T) :
    DetBy T F := fun v w hvw => h v w fun x hx => hvw x (hST x hx)

theorem detBy_const (S : List Nat) (b : Bool) : DetBy S (fun _ => b) := fun _ _ _ => rfl

theorem detBy_var {S : List Nat} {x : Nat} (hx : x ∈ S) : DetBy S (fun v => v x) := fun _ _ h => h x hx

theorem detBy_evalArr {A : Arr} {S : List Nat} (hA : ∀ x ∈ supportSet A, x ∈ S) : DetBy S (evalArr A) :=
  fun v w hvw => evalArr_congr_supportSet A v w fun x hx => hvw x (hA x hx)

theorem detBy_evalArr_ren {A : Arr} {S : List Nat} (hA : ∀ x ∈ Ren.supportSet A, x ∈ S) : DetBy S (evalArr A) :=
  fun v w hvw => evalArr_congr_renSupportSet A v w fun x hx => hvw x (hA x hx)

theorem detBy_den {A : Arr} {S : List Nat} (hA : ∀ x ∈ supportSet A, x ∈ S) : DetBy S (den A) :=
  fun v w hvw => den_congr_supportSet A v w fun x hx => hvw x (hA x hx)

theorem detBy_evW {A : Arr} {S : List Nat} (hA : ∀ x ∈ supportSet A, x ∈ S) (n p : Nat) :
    DetBy S (fun v => evW A n v p) :=
  fun v w hvw => evW_congr_supportSet A n v w (fun x hx => hvw x (hA x hx)) p

theorem DetBy.map {S : List Nat} {F : (Nat → Bool) → Bool} (hF : DetBy S F) (c : Bool → Bool) :
    DetBy S (fun v => c (F v)) := fun v w h => by simp only [hF v w h]

theorem DetBy.map2 {S : List Nat} {F G : (Nat → Bool) → Bool} (hF : DetBy S F) (hG : DetBy S G)
    (c : Bool → Bool → Bool) : DetBy S (fun v => c (F v) (G v)) :=
  fun v w h => by simp only [hF v w h, hG v w h]

theorem DetBy.map3 {S : List Nat} {F G H : (Nat → Bool) → Bool} (hF : DetBy S F) (hG : DetBy S G)
    (hH : DetBy S H) (c : Bool → Bool → Bool → Bool) : DetBy S (fun v => c (F v) (G v) (H v)) :=
  fun v w h => by simp only [hF v w h, hG v w h, hH v w h]

/-- pre-composition with a transformation of the valuation that is local to `S` -/
theorem DetBy.comp {S : List Nat} {F : (Nat → Bool) → Bool} (hF : DetBy S F)
    (T : (Nat → Bool) → Nat → Bool)
    (hT : ∀ v w : Nat → Bool, (∀ x ∈ S, v x = w x) → ∀ x ∈ S, T v x = T w x) :
    DetBy S (fun v => F (T v)) := fun v w h => hF _ _ (hT v w h)

/-- cofactor: fixing ANY variable (in `S` or not) keeps the function determined by `S` -/
theorem DetBy.upd {S : List Nat} {F : (Nat → Bool) → Bool} (hF : DetBy S F) (x : Nat) (b : Bool) :
    DetBy S (fun v => F (upd v x b)) := by
  apply hF.comp (fun v => B.upd v x b)
  intro v w h y hy
  by_cases hyx : y = x
  · simp [B.upd, hyx]
  · simp [B.upd, hyx, h y hy]

/-- flipping any variable -/
theorem DetBy.flip {S : List Nat} {F : (Nat → Bool) → Bool} (hF : DetBy S F) (x : Nat) :
    DetBy S (fun v => F (B.upd v x (!v x))) := by
  intro v w h
  by_cases hx : x ∈ S
  · apply hF
    intro y hy
    by_cases hyx : y = x
    · subst hyx; simp [B.upd, h y hy]
    · simp [B.upd, hyx, h y hy]
  · -- `x ∉ S`: the flip is invisible
    have e1 : F (B.upd v x (!v x)) = F v := hF _ _ fun y hy => by
      have : y ≠ x := fun e => hx (e ▸ hy)
      simp [B.upd, this]
    have e2 : F (B.upd w x (!w x)) = F w := hF _ _ fun y hy => by
      have : y ≠ x := fun e => hx (e ▸ hy)
      simp [B.upd, this]
    simp only [e1, e2]; exact hF v w h

/-- quantification of one variable with an arbitrary combinator (`||` = ∃, `&&` = ∀, `^^` = unique …) -/
theorem DetBy.quant {S : List Nat} {F : (Nat → Bool) → Bool} (hF : DetBy S F) (d : Bool → Bool → Bool)
    (x : Nat) : DetBy S (fun v => d (F (B.upd v x false)) (F (B.upd v x true))) :=
  (hF.upd x false).map2 (hF.upd x true) d

/-- quantification of a list of variables, one after the other -/
def quantL (d : Bool → Bool → Bool) : List Nat → ((Nat → Bool) → Bool) → (Nat → Bool) → Bool
  | [], F => F
  | x :: xs, F => fun v => d (quantL d xs F (B.upd v x false)) (quantL d xs F (B.upd v x true))

theorem DetBy.quantL {S : List Nat} (d : Bool → Bool → Bool) :
    ∀ (xs : List Nat) {F : (Nat → Bool) → Bool}, DetBy S F → DetBy S (quantL d xs F) := by
  intro xs
  induction xs with
  | nil => intro F hF; exact hF
  | cons x xs ih => intro F hF; exact (ih hF).quant d x

/-! ### the compression theorem -/

/-- **Compression.** Two functions determined by the variables `S` that agree on the `2^|S|` overlays of
    one arbitrary background agree on every valuation. -/
theorem compress_eq {S : List Nat} {F G : (Nat → Bool) → Bool} (hF : DetBy S F) (hG : DetBy S G)
    (bg : Nat → Bool)
    (hcmp : ∀ bits : List Bool, bits.length = S.length → F (overlay bg S bits) = G (overlay bg S bits)) :
    ∀ v, F v = G v := by
  intro v
  have hov : ∀ x ∈ S, v x = overlay bg S (S.map v) x := fun x hx => (overlay_map bg v x S hx).symm
  rw [hF v _ hov, hG v _ hov]
  exact hcmp _ (by simp)

/-- the converse direction is trivial: the check never rejects equal functions -/
theorem compress_eq_conv {F G : (Nat → Bool) → Bool} (h : ∀ v, F v = G v) (bg : Nat → Bool) (S : List Nat)
    (bits : List Bool) : F (overlay bg S bits) = G (overlay bg S bits) := h _

/-- two arrays whose supports lie in `S` and that agree on all assignments of `S` over one background denote
    the same function -/
theorem compress_evalArr_eq {A B : Arr} {S : List Nat}
    (hA : ∀ x ∈ supportSet A, x ∈ S) (hB : ∀ x ∈ supportSet B, x ∈ S) (bg : Nat → Bool)
    (hcmp : ∀ bits : List Bool, bits.length = S.length →
      evalArr A (overlay bg S bits) = evalArr B (overlay bg S bits)) :
    ∀ v, evalArr A v = evalArr B v :=
  compress_eq (detBy_evalArr hA) (detBy_evalArr hB) bg hcmp

/-- the form asked for, with the (unused) well-formedness hypotheses -/
theorem compress_evalArr_eq_wf {A B : Arr} {n : Nat} (_hA : WFo A n) (_hB : WFo B n) {S : List Nat}
    (hSA : ∀ x ∈ supportSet A, x ∈ S) (hSB : ∀ x ∈ supportSet B, x ∈ S) (bg : Nat → Bool)
    (hcmp : ∀ bits : List Bool, bits.length = S.length →
      evalArr A (overlay bg S bits) = evalArr B (overlay bg S bits)) :
    ∀ v, evalArr A v = evalArr B v :=
  compress_evalArr_eq hSA hSB bg hcmp

/-- unary connective (complement …) -/
theorem compress_evalArr_not {R A : Arr} {S : List Nat} (c : Bool → Bool)
    (hR : ∀ x ∈ supportSet R, x ∈ S) (hA : ∀ x ∈ supportSet A, x ∈ S) (bg : Nat → Bool)
    (hcmp : ∀ bits : List Bool, bits.length = S.length →
      evalArr R (overlay bg S bits) = c (evalArr A (overlay bg S bits))) :
    ∀ v, evalArr R v = c (evalArr A v) :=
  compress_eq (detBy_evalArr hR) ((detBy_evalArr hA).map c) bg hcmp

/-- binary connective -/
theorem compress_evalArr_conn {R A B : Arr} {S : List Nat} (c : Bool → Bool → Bool)
    (hR : ∀ x ∈ supportSet R, x ∈ S) (hA : ∀ x ∈ supportSet A, x ∈ S) (hB : ∀ x ∈ supportSet B, x ∈ S)
    (bg : Nat → Bool)
    (hcmp : ∀ bits : List Bool, bits.length = S.length →
      evalArr R (overlay bg S bits) = c (evalArr A (overlay bg S bits)) (evalArr B (overlay bg S bits))) :
    ∀ v, evalArr R v = c (evalArr A v) (evalArr B v) :=
  compress_eq (detBy_evalArr hR) ((detBy_evalArr hA).map2 (detBy_evalArr hB) c) bg hcmp

/-- ternary connective -/
theorem compress_evalArr_conn3 {R A B C : Arr} {S : List Nat} (c : Bool → Bool → Bool → Bool)
    (hR : ∀ x ∈ supportSet R, x ∈ S) (hA : ∀ x ∈ supportSet A, x ∈ S) (hB : ∀ x ∈ supportSet B, x ∈ S)
    (hC : ∀ x ∈ supportSet C, x ∈ S) (bg : Nat → Bool)
    (hcmp : ∀ bits : List Bool, bits.length = S.length →
      evalArr R (overlay bg S bits) =
        c (evalArr A (overlay bg S bits)) (evalArr B (overlay bg S bits)) (evalArr C (overlay bg S bits))) :
    ∀ v, evalArr R v = c (evalArr A v) (evalArr B v) (evalArr C v) :=
  compress_eq (detBy_evalArr hR) ((detBy_evalArr hA).map3 (detBy_evalArr hB) (detBy_evalArr hC) c) bg hcmp

/-- quantification of one variable `x` (which need not even belong to `S`): `d = (· || ·)` is `∃ x`,
    `d = (· && ·)` is `∀ x` -/
theorem compress_evalArr_quant {R A : Arr} {S : List Nat} (d : Bool → Bool → Bool) (x : Nat)
    (hR : ∀ y ∈ supportSet R, y ∈ S) (hA : ∀ y ∈ supportSet A, y ∈ S) (bg : Nat → Bool)
    (hcmp : ∀ bits : List Bool, bits.length = S.length →
      evalArr R (overlay bg S bits) =
        d (evalArr A (upd (overlay bg S bits) x false)) (evalArr A (upd (overlay bg S bits) x true))) :
    ∀ v, evalArr R v = d (evalArr A (upd v x false)) (evalArr A (upd v x true)) :=
  compress_eq (detBy_evalArr hR) ((detBy_evalArr hA).quant d x) bg hcmp

/-- `∃ x` -/
theorem compress_evalArr_exists {R A : Arr} {S : List Nat} (x : Nat)
    (hR : ∀ y ∈ supportSet R, y ∈ S) (hA : ∀ y ∈ supportSet A, y ∈ S) (bg : Nat → Bool)
    (hcmp : ∀ bits : List Bool, bits.length = S.length →
      evalArr R (overlay bg S bits) =
        (evalArr A (upd (overlay bg S bits) x false) || evalArr A (upd (overlay bg S bits) x true))) :
    ∀ v, (evalArr R v = true ↔ ∃ b, evalArr A (upd v x b) = true) := by
  intro v
  rw [compress_evalArr_quant (· || ·) x hR hA bg hcmp v]
  simp

/-- `∀ x` -/
theorem compress_evalArr_forall {R A : Arr} {S : List Nat} (x : Nat)
    (hR : ∀ y ∈ supportSet R, y ∈ S) (hA : ∀ y ∈ supportSet A, y ∈ S) (bg : Nat → Bool)
    (hcmp : ∀ bits : List Bool, bits.length = S.length →
      evalArr R (overlay bg S bits) =
        (evalArr A (upd (overlay bg S bits) x false) && evalArr A (upd (overlay bg S bits) x true))) :
    ∀ v, (evalArr R v = true ↔ ∀ b, evalArr A (upd v x b) = true) := by
  intro v
  rw [compress_evalArr_quant (· && ·) x hR hA bg hcmp v]
  simp

/-- projection of a binary connective over a list of variables (the shape of the C03 predicate:
    `R = d-quantify xs (c A B)`) -/
theorem compress_evalArr_proj {R A B : Arr} {S : List Nat} (c d : Bool → Bool → Bool) (xs : List Nat)
    (hR : ∀ y ∈ supportSet R, y ∈ S) (hA : ∀ y ∈ supportSet A, y ∈ S) (hB : ∀ y ∈ supportSet B, y ∈ S)
    (bg : Nat → Bool)
    (hcmp : ∀ bits : List Bool, bits.length = S.length →
      evalArr R (overlay bg S bits) =
        quantL d xs (fun v => c (evalArr A v) (evalArr B v)) (overlay bg S bits)) :
    ∀ v, evalArr R v = quantL d xs (fun v => c (evalArr A v) (evalArr B v)) v :=
  compress_eq (detBy_evalArr hR) (DetBy.quantL d xs ((detBy_evalArr hA).map2 (detBy_evalArr hB) c)) bg hcmp

/-! ### the assignments of `S` numbered `0 … 2^|S| - 1`

The drivers enumerate the assignments of the compressed support by number, first variable of `S` most
significant: `Drive.C03.valOn U i bg` is (definitionally) `overlayIdx bg U i`, and the valuation under
`Drive.C06.ttC X R` at index `i` is `overlayIdx (fun _ => false) R.toList i` (`posIn R x` is
`R.toList.idxOf? x`). -/

/-- bit `k` of `i` written with `m` bits, most significant first (`Drive.C06.bitOf`) -/
def bitMSB (m i k : Nat) : Bool := (i >>> (m - 1 - k)) % 2 == 1

/-- the number of a bit vector, first bit most significant -/
def encode : List Bool → Nat
  | [] => 0
  | b :: bs => b.toNat * 2 ^ bs.length + encode bs

theorem encode_lt : ∀ bs : List Bool, encode bs < 2 ^ bs.length := by
  intro bs
  induction bs with
  | nil => simp [encode]
  | cons b bs ih =>
    simp only [encode, List.length_cons, Nat.pow_succ]
    cases b <;> simp <;> omega

theorem bitMSB_encode : ∀ (bs : List Bool) (k : Nat) (hk : k < bs.length),
    bitMSB bs.length (encode bs) k = bs[k] := by
  intro bs
  induction bs with
  | nil => intro k hk; simp at hk
  | cons b bs ih =>
    intro k hk
    have hlt := encode_lt bs
    match k with
    | 0 =>
      simp only [bitMSB, encode, List.length_cons, List.getElem_cons_zero, Nat.shiftRight_eq_div_pow]
      have : bs.length + 1 - 1 - 0 = bs.length := by omega
      rw [this, Nat.add_comm, Nat.add_mul_div_right _ _ (Nat.two_pow_pos _), Nat.div_eq_of_lt hlt]
      cases b <;> simp
    | k + 1 =>
      have hk' : k < bs.length := by simpa using hk
      rw [List.getElem_cons_succ, ← ih k hk']
      simp only [bitMSB, encode, List.length_cons, Nat.shiftRight_eq_div_pow]
      have e1 : bs.length + 1 - 1 - (k + 1) = bs.length - 1 - k := by omega
      rw [e1]
      generalize hj : bs.length - 1 - k = j
      obtain ⟨d, hd⟩ : ∃ d, bs.length = j + (d + 1) := ⟨bs.length - j - 1, by omega⟩
      have h2 : b.toNat * 2 ^ bs.length = (2 * (b.toNat * 2 ^ d)) * 2 ^ j := by
        rw [hd, Nat.pow_add, Nat.pow_succ]; ac_rfl
      rw [h2, Nat.add_comm, Nat.add_mul_div_right _ _ (Nat.two_pow_pos _)]
      generalize b.toNat * 2 ^ d = z
      generalize encode bs / 2 ^ j = y
      have : (y + 2 * z) % 2 = y % 2 := by omega
      rw [this]

/-- assignment number `i` of the variables `S` (first variable most significant), `bg` elsewhere -/
def overlayIdx (bg : Nat → Bool) (S : List Nat) (i : Nat) (x : Nat) : Bool :=
  match S.idxOf? x with
  | some k => bitMSB S.length i k
  | none => bg x

/-- the bits of `i`, most significant first -/
def bitsOf (m i : Nat) : List Bool := (List.range m).map (bitMSB m i)

theorem idxOf?_lt {S : List Nat} {x k : Nat} (h : S.idxOf? x = some k) : k < S.length := by
  unfold List.idxOf? at h
  exact (List.findIdx?_eq_some_iff_getElem.1 h).1

theorem idxOf?_getElem {S : List Nat} {x k : Nat} (h : S.idxOf? x = some k) :
    S[k]'(idxOf?_lt h) = x := by
  unfold List.idxOf? at h
  obtain ⟨_, h1, _⟩ := List.findIdx?_eq_some_iff_getElem.1 h
  simpa using h1

/-- the numbered overlay is the overlay of the bits of the number -/
theorem overlayIdx_eq_overlay (bg : Nat → Bool) (S : List Nat) (i : Nat) :
    overlayIdx bg S i = overlay bg S (bitsOf S.length i) := by
  funext x
  rw [overlay_eq_idxOf?]
  unfold overlayIdx
  cases h : S.idxOf? x with
  | none => rfl
  | some k =>
    have hk := idxOf?_lt h
    simp [bitsOf, List.getD_eq_getElem?_getD, hk]

/-- every overlay of a bit vector of the right length is a numbered overlay -/
theorem overlay_eq_overlayIdx (bg : Nat → Bool) (S : List Nat) (bits : List Bool) (hb : bits.length = S.length) :
    overlay bg S bits = overlayIdx bg S (encode bits) := by
  funext x
  rw [overlay_eq_idxOf?]
  unfold overlayIdx
  cases h : S.idxOf? x with
  | none => rfl
  | some k =>
    have hk : k < bits.length := hb ▸ idxOf?_lt h
    simp only [← hb, bitMSB_encode bits k hk]
    simp [List.getD_eq_getElem?_getD, hk]

/-- **Compression, numbered form.** -/
theorem compress_eq_idx {S : List Nat} {F G : (Nat → Bool) → Bool} (hF : DetBy S F) (hG : DetBy S G)
    (bg : Nat → Bool)
    (hcmp : ∀ i, i < 2 ^ S.length → F (overlayIdx bg S i) = G (overlayIdx bg S i)) :
    ∀ v, F v = G v := by
  apply compress_eq hF hG bg
  intro bits hb
  rw [overlay_eq_overlayIdx bg S bits hb]
  exact hcmp _ (hb ▸ encode_lt bits)

theorem compress_evalArr_eq_idx {A B : Arr} {S : List Nat}
    (hA : ∀ x ∈ supportSet A, x ∈ S) (hB : ∀ x ∈ supportSet B, x ∈ S) (bg : Nat → Bool)
    (hcmp : ∀ i, i < 2 ^ S.length → evalArr A (overlayIdx bg S i) = evalArr B (overlayIdx bg S i)) :
    ∀ v, evalArr A v = evalArr B v :=
  compress_eq_idx (detBy_evalArr hA) (detBy_evalArr hB) bg hcmp

theorem compress_evalArr_conn_idx {R A B : Arr} {S : List Nat} (c : Bool → Bool → Bool)
    (hR : ∀ x ∈ supportSet R, x ∈ S) (hA : ∀ x ∈ supportSet A, x ∈ S) (hB : ∀ x ∈ supportSet B, x ∈ S)
    (bg : Nat → Bool)
    (hcmp : ∀ i, i < 2 ^ S.length →
      evalArr R (overlayIdx bg S i) = c (evalArr A (overlayIdx bg S i)) (evalArr B (overlayIdx bg S i))) :
    ∀ v, evalArr R v = c (evalArr A v) (evalArr B v) :=
  compress_eq_idx (detBy_evalArr hR) ((detBy_evalArr hA).map2 (detBy_evalArr hB) c) bg hcmp

theorem compress_evalArr_proj_idx {R A B : Arr} {S : List Nat} (c d : Bool → Bool → Bool) (xs : List Nat)
    (hR : ∀ y ∈ supportSet R, y ∈ S) (hA : ∀ y ∈ supportSet A, y ∈ S) (hB : ∀ y ∈ supportSet B, y ∈ S)
    (bg : Nat → Bool)
    (hcmp : ∀ i, i < 2 ^ S.length →
      evalArr R (overlayIdx bg S i) =
        quantL d xs (fun v => c (evalArr A v) (evalArr B v)) (overlayIdx bg S i)) :
    ∀ v, evalArr R v = quantL d xs (fun v => c (evalArr A v) (evalArr B v)) v :=
  compress_eq_idx (detBy_evalArr hR) (DetBy.quantL d xs ((detBy_evalArr hA).map2 (detBy_evalArr hB) c)) bg hcmp

/-! ### an executable checker and its soundness

`sameOn bg S A B` is the comparison a driver performs; it is sound for ANY two arrays whose decision
variables lie in `S`. -/

/-- all `2^|S|` numbered overlays agree -/
def sameOn (bg : Nat → Bool) (S : List Nat) (A B : Arr) : Bool :=
  (List.range (2 ^ S.length)).all fun i => evalArr A (overlayIdx bg S i) == evalArr B (overlayIdx bg S i)

/-- the decision variables of `A` lie in `S` (executable) -/
def supportIn (A : Arr) (S : List Nat) : Bool := (A.toList.drop 2).all fun nd => S.contains nd.var

theorem supportIn_sound {A : Arr} {S : List Nat} (h : supportIn A S = true) : ∀ x ∈ supportSet A, x ∈ S := by
  intro x hx
  obtain ⟨p, nd, hp, hnd, rfl⟩ := (Count.mem_supportSet A x).1 hx
  unfold supportIn at h
  rw [List.all_eq_true] at h
  have hmem : nd ∈ A.toList.drop 2 := by
    apply List.mem_iff_getElem?.2
    refine ⟨p - 2, ?_⟩
    rw [List.getElem?_drop]
    have : 2 + (p - 2) = p := by omega
    rw [this]; simpa using hnd
  simpa using h nd hmem

/-- soundness and completeness of the executable comparison -/
theorem sameOn_iff {A B : Arr} {S : List Nat} (hA : supportIn A S = true) (hB : supportIn B S = true)
    (bg : Nat → Bool) : sameOn bg S A B = true ↔ ∀ v, evalArr A v = evalArr B v := by
  constructor
  · intro h
    apply compress_evalArr_eq_idx (supportIn_sound hA) (supportIn_sound hB) bg
    intro i hi
    unfold sameOn at h
    rw [List.all_eq_true] at h
    simpa using h i (List.mem_range.2 hi)
  · intro h
    unfold sameOn
    rw [List.all_eq_true]
    intro i _
    simp [h]

/-! ### 4. non-vacuity: concrete wide arrays (65 533 variables) -/

section Examples

/-- `x3 ∧ x65000`, canonical -/
def exA : Arr := #[⟨65533, 0, 0⟩, ⟨65533, 1, 1⟩, ⟨65000, 0, 1⟩, ⟨3, 0, 2⟩]
/-- the same function with a duplicate node and a redundant test of `x700` (support `{3, 700, 65000}`) -/
def exB : Arr := #[⟨65533, 0, 0⟩, ⟨65533, 1, 1⟩, ⟨65000, 0, 1⟩, ⟨65000, 0, 1⟩, ⟨700, 2, 3⟩, ⟨3, 0, 4⟩]
/-- `x700` -/
def exC : Arr := #[⟨65533, 0, 0⟩, ⟨65533, 1, 1⟩, ⟨700, 0, 1⟩]
/-- `x3 ∧ x700 ∧ x65000` -/
def exR : Arr := #[⟨65533, 0, 0⟩, ⟨65533, 1, 1⟩, ⟨65000, 0, 1⟩, ⟨700, 0, 2⟩, ⟨3, 0, 3⟩]
/-- `x3` -/
def exD : Arr := #[⟨65533, 0, 0⟩, ⟨65533, 1, 1⟩, ⟨3, 0, 1⟩]

def exS : List Nat := [3, 700, 65000]

example : WFo exA 65533 := wfoB_sound (by decide)
example : WFo exB 65533 := wfoB_sound (by decide)
example : WFo exR 65533 := wfoB_sound (by decide)
example : supportSet exB = [3, 700, 65000] := by decide
example : supportIn exA exS = true ∧ supportIn exB exS = true := by decide

/-- the hypothesis of `evW_congr_tested` / `evalArr_congr_tested` on two different valuations -/
example : evalArr exA (fun x => x == 3 || x == 65000) = evalArr exA (fun x => x == 3 || x == 65000 || x == 9) :=
  evalArr_congr_tested exA _ _ (by
    intro p nd hp hnd
    have hlt : p < exA.size := by
      rcases Nat.lt_or_ge p exA.size with h | h
      · exact h
      · rw [Array.getElem?_eq_none h] at hnd; cases hnd
    have hsz : exA.size = 4 := by decide
    have : p = 2 ∨ p = 3 := by omega
    rcases this with rfl | rfl
    · have : nd = ⟨65000, 0, 1⟩ := by
        have h2 : exA[2]? = some ⟨65000, 0, 1⟩ := by decide
        rw [h2] at hnd; exact (Option.some.inj hnd).symm
      subst this; decide
    · have : nd = ⟨3, 0, 2⟩ := by
        have h2 : exA[3]? = some ⟨3, 0, 2⟩ := by decide
        rw [h2] at hnd; exact (Option.some.inj hnd).symm
      subst this; decide)

/-- `supportSet` form -/
example : evalArr exB (fun x => x == 3) = evalArr exB (fun x => x == 3 || x == 4 || x == 65532) :=
  evalArr_congr_supportSet exB _ _ (by
    have : supportSet exB = [3, 700, 65000] := by decide
    rw [this]; decide)

/-- compression, list-of-bits form, on 65 533 variables with 3 relevant ones, with the well-formedness
    hypotheses of the requested statement discharged -/
example : ∀ v, evalArr exA v = evalArr exB v :=
  compress_evalArr_eq_wf (n := 65533) (wfoB_sound (by decide)) (wfoB_sound (by decide)) (S := exS)
    (supportIn_sound (by decide)) (supportIn_sound (by decide)) (fun x => x % 2 == 1)
    (by
      intro bits hb
      match bits, hb with
      | [a, b, c], _ => cases a <;> cases b <;> cases c <;> decide)

/-- compression, numbered form, through the executable comparison -/
example : ∀ v, evalArr exA v = evalArr exB v :=
  (sameOn_iff (S := exS) (by decide) (by decide) (fun _ => false)).1 (by decide)

/-- the comparison does reject different functions -/
example : sameOn (fun _ => false) exS exA exR = false := by decide

/-- binary connective: `exR = exA ∧ exC` -/
example : ∀ v, evalArr exR v = (evalArr exA v && evalArr exC v) :=
  compress_evalArr_conn_idx (S := exS) (· && ·) (supportIn_sound (by decide)) (supportIn_sound (by decide))
    (supportIn_sound (by decide)) (fun _ => true) (by decide)

/-- quantification: `exA = ∃ x700. exR` -/
example : ∀ v, (evalArr exA v = true ↔ ∃ b, evalArr exR (upd v 700 b) = true) :=
  compress_evalArr_exists (S := exS) 700 (supportIn_sound (by decide)) (supportIn_sound (by decide))
    (fun _ => false) (by
      intro bits hb
      match bits, hb with
      | [a, b, c], _ => cases a <;> cases b <;> cases c <;> decide)

/-- projection of a connective over a list of variables, numbered form: `exD = ∃ x700 x65000. exA ∧ exC` -/
example : ∀ v, evalArr exD v =
    quantL (· || ·) [700, 65000] (fun v => evalArr exA v && evalArr exC v) v :=
  compress_evalArr_proj_idx (S := exS) (· && ·) (· || ·) [700, 65000] (supportIn_sound (by decide))
    (supportIn_sound (by decide)) (supportIn_sound (by decide)) (fun _ => false) (by decide)

/-- the hypothesis "the supports lie in `S`" cannot be dropped: with `S = [3]` and the all-true background
    `x3 ∧ x65000` and `x3` agree on every overlay, yet they are different functions -/
example : sameOn (fun _ => true) [3] exA exD = true ∧
    evalArr exA (fun x => x == 3) ≠ evalArr exD (fun x => x == 3) := by decide

end Examples

end B.SupportCongr
