import BddVerif.Lemmas.CountSupport
import BddVerif.Props.C08
/-!
Tie between `exact_clause_cardinality` (C09) and the `sat_clauses` iterator (C08): the unweighted
cache recursion `cardF … false` counts exactly the path list `Iter.paths` that `path_iter_eq` shows the
iterator to yield.
-/
namespace B.Count
open B B.Iter

/-- the unweighted recursion is the length of C08's path list — for every array, fuel and accumulator -/
theorem iterPaths_length (A : Arr) : ∀ f p (acc : PV), (Iter.pathsF A f p acc).length = cardF A false f p := by
  intro f
  induction f with
  | zero =>
    intro p acc
    match p with
    | 0 => simp [Iter.pathsF, cardF]
    | 1 => simp [Iter.pathsF, cardF]
    | p + 2 => simp [Iter.pathsF, cardF]
  | succ f ih =>
    intro p acc
    match p with
    | 0 => simp [Iter.pathsF, cardF]
    | 1 => simp [Iter.pathsF, cardF]
    | p + 2 =>
      simp only [Iter.pathsF, cardF, cardNode]
      cases h : A[p + 2]? with
      | none =>
        simp only [nodeAt, h, Option.getD_none, List.length_nil]
        have : (default : Node) = ⟨0, 0, 0⟩ := rfl
        rw [this]; simp [cardF_zero]
      | some nd =>
        simp only [nodeAt, h, Option.getD_some, List.length_append, ih]
        simp

/-- in a post-order array the index of a pointer is enough fuel for the cache recursion -/
theorem cardF_fuel_red {A : Arr} {n : Nat} (h : Red A n) (w : Bool) :
    ∀ p f, p < A.size → p ≤ f → cardF A w f p = cardF A w p p := by
  intro p
  induction p using Nat.strongRecOn with
  | _ p ih =>
    intro f hp hf
    by_cases h0 : p = 0
    · subst h0; simp [cardF_zero]
    by_cases h1 : p = 1
    · subst h1; simp [cardF_one]
    have hp2 : 2 ≤ p := by omega
    have hnd : A[p]? = some A[p] := by simp [hp]
    obtain ⟨_, hl, hh, _, _, _⟩ := h.inner p A[p] hp2 hnd
    obtain ⟨f', rfl⟩ : ∃ f', f = f' + 1 := ⟨f - 1, by omega⟩
    obtain ⟨p', hp'⟩ : ∃ p', p = p' + 1 := ⟨p - 1, by omega⟩
    rw [cardF_succ A w f' p hp2]
    conv => rhs; rw [hp']
    rw [cardF_succ A w p' (p' + 1) (by omega), ← hp', nodeAt_eq hp]
    rw [ih _ (by omega) f' (by omega) (by omega), ih _ (by omega) f' (by omega) (by omega),
      ih _ (by omega) p' (by omega) (by omega), ih _ (by omega) p' (by omega) (by omega)]

/-- for a post-order reduced array with its terminals in place, `exact_clause_cardinality` is the
    length of C08's path list of the root -/
theorem clauseCardO_eq_iterPaths {A : Arr} {n : Nat} (h : Red A n) (hw : WFo A n) :
    clauseCardO A = .ok (Iter.paths A (root A) []).length := by
  rw [clauseCardO_wfo hw]
  congr 1
  unfold Iter.paths
  rw [iterPaths_length]
  have hs := h.size2
  have hr : root A < A.size := by unfold root; omega
  have hle := varOf_le_wfo hw (root A)
  rw [← cardF_fuel_red h false (root A) (max (root A) (n + 1)) hr (Nat.le_max_left _ _)]
  exact cardF_level hw false _ _ _ hr (by omega) (by omega)

end B.Count
