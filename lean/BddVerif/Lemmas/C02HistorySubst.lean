import BddVerif.Lemmas.C02HistoryKept
import BddVerif.Props.C07
/-!
Bridge for the C02 history theorem: **`substitute` returns a canonical array on all three paths**
(variable absent: the operand itself; safe path: `substitute_safe_canonical`; clash path: the nested
`and`+`exists` result is `canon …` (`exists_and_canon`), and the two reverse relabelling steps
`rename_variables(shiftDown)` / `set_num_vars(n)` keep canonicity by `kept_canonical`).
This closes the part C07 left open ("clash path: only `Red` + identical links").
-/
namespace B.C02H
open B B.Drive B.Ren B.Ren.Subst B.Props.C17 B.Props.C07 B.C02

/-- `f.substitute(x, g)` for a canonical `f` and a valid `g` over the same `n < 65535` variables is `ok r`
    with `r` canonical over `n` variables -/
theorem substitute_canonical (f g : Arr) (n x : Nat) (hcf : Canonical f) (hnf : numVars f = n)
    (hg : WFo g n) (hn : n + 1 < 65536) :
    ∃ r, substitute f x g = .ok r ∧ Canonical r ∧ numVars r = n := by
  have hf : WFo f n := by have := Canonical.wfo hcf; rwa [hnf] at this
  have hng : numVars g = n := numVars_of_wf hg
  by_cases hxf : x ∉ supportSet f
  · refine ⟨f, ?_, hcf, hnf⟩
    have : (supportSet f).contains x = false := by simpa using hxf
    simp only [substitute, this, Bool.not_false, if_true]
  have hxf : x ∈ supportSet f := Decidable.not_not.mp hxf
  have hx : x < n := supportSet_lt hf x hxf
  have hcf' : (supportSet f).contains x = true := by simpa using hxf
  by_cases hxg : x ∉ supportSet g
  · exact ⟨_, substitute_safe_canonical f g n x hf hg hxf hxg, (canon_ok _ _).1, (canon_ok _ _).2⟩
  -- clash path
  have hxg : x ∈ supportSet g := Decidable.not_not.mp hxg
  have hcg : (supportSet g).contains x = true := by simpa using hxg
  obtain ⟨ef1, ef2, hf2, _⟩ := shift_operand f n x hf
  obtain ⟨eg1, eg2, hg2, _⟩ := shift_operand g n (x + 1) hg
  obtain ⟨hiw, _⟩ := iff_var_spec _ (n + 1) (x + 1) hg2 (by omega)
  obtain ⟨hsw, hsno, _, _⟩ := exists_and_spec _ _ (n + 1) (x + 1) hf2 hiw (by omega)
  have hScan := exists_and_canon _ _ (n + 1) (x + 1) hf2 hiw (by omega)
  generalize hF2 : mapVars (applyMap (shiftUp x n)) (setTerm (n + 1) f) = F2 at ef2 hf2 hiw hsw hsno hScan
  generalize hG2 : mapVars (applyMap (shiftUp (x + 1) n)) (setTerm (n + 1) g) = G2 at eg2 hg2 hiw hsw hsno hScan
  generalize hI : applyWithFlip (mkVar (n + 1) (x + 1)) G2 Gen.iff_ none none none = I at hiw hsw hsno hScan
  generalize hS : binaryOpWithExists F2 I Gen.and_ [x + 1] = S at hsw hsno hScan
  have hcS : Canonical S := by rw [hScan]; exact canon_canonical' _ _
  have hnS : numVars S = n + 1 := numVars_of_wf hsw
  have hsS := supportSet_lt hsw
  have hadm : Admissible S (applyMap (shiftDown x n)) := by
    rw [Admissible, hnS]
    constructor
    · intro y hy; have := hsS y hy; rw [applyMap_shiftDown]; split <;> omega
    · intro y hy z hz hyz
      have := hsS y hy; have := hsS z hz
      have : y ≠ x + 1 := fun h => hsno (h ▸ hy)
      have : z ≠ x + 1 := fun h => hsno (h ▸ hz)
      rw [applyMap_shiftDown, applyMap_shiftDown]; split <;> split <;> omega
  have hS' : WFo S (numVars S) := by rw [hnS]; exact hsw
  obtain ⟨er, kr⟩ := (rename_variables_safe S (shiftDown x n) hS').1 hadm
  obtain ⟨hcS1, _⟩ := kept_canonical hcS kr
  rw [hnS] at kr
  generalize hS1 : mapVars (applyMap (shiftDown x n)) S = S1 at er kr hcS1
  have hnS1 : numVars S1 = n + 1 := kr.count
  have hS1' : WFo S1 (numVars S1) := by rw [hnS1]; exact kr.valid
  have hlt1 : ∀ y ∈ supportSet S1, y < n := by
    intro y hy
    rw [← hS1] at hy
    obtain ⟨z, hz, rfl⟩ := (supportSet_mapVars_mem _ S y).mp hy
    have := hsS z hz
    have : z ≠ x + 1 := fun h => hsno (h ▸ hz)
    rw [applyMap_shiftDown]; split <;> omega
  obtain ⟨e9, k9⟩ := (set_num_vars_safe S1 n hS1').1 hlt1
  obtain ⟨hc9, hn9⟩ := kept_canonical hcS1 k9
  refine ⟨setTerm n S1, ?_, hc9, hn9⟩
  have hnF2 : numVars F2 = n + 1 := numVars_of_wf hf2
  have hnI : numVars I = n + 1 := numVars_of_wf hiw
  have h1 : ¬ 65536 ≤ n + 1 := by omega
  have h3 : ¬ n + 1 = 0 := by omega
  simp only [substitute, hcf', hcg, Bool.not_true, Bool.false_eq_true, if_false, hnf, hng, h1, ef1, ok_bind,
    ef2, hx, not_true_eq_false, eg1, eg2, hnF2, hI, binaryOpWithExistsO, hnI, ne_eq, hS, er, hnS1, h3,
    Nat.add_sub_cancel, e9]

/-- non-vacuity: the clash-path operands of the fixed defect (`f = ¬x0 ∧ ¬x2`, `g = ¬x0 ∧ ¬x1 ∧ ¬x2`, `x = x0`) -/
example : ∃ r, substitute exF 0 exG = .ok r ∧ Canonical r ∧ numVars r = 3 :=
  substitute_canonical exF exG 3 0 (by show exF = canon 3 _; decide) rfl exG_wf (by omega)

end B.C02H
