import BddVerif.Lemmas.AlgoEq2RenBase
import BddVerif.Lemmas.VarSetNames
import BddVerif.Lemmas.VarSetSat
/-!
# `BddVariableSet` as translated (src/_impl_bdd_variable_set.rs) = the hand model `Model/VarSet.lean`

`new_anonymous`, `var_by_name`, `name_of`, `mk_true/mk_false/mk_var/mk_not_var/mk_literal`, `mk_var_by_name`,
`mk_not_var_by_name`; the clause constructors and `Bdd::from(BddValuation)` are in `AlgoEq2VarSetClause.lean`,
the threshold constructors in `AlgoEq2VarSetSat.lean`.
-/
namespace B.AlgoEq2VS
open B B.Gen B.AlgoEqUtil B.AlgoEq2Ren Std
attribute [local instance 10000] Rust.monadOutcomeInline

/-- the translated `BddVariableSet { num_vars, var_names, var_index_mapping }` -/
abbrev VSet := Nat × Array String × HashMap String Nat

/-- the hand model's structure with the same three fields -/
def toVS (T : VSet) : VS.VarSet := ⟨T.1, T.2.1, T.2.2⟩

/-- `T` is the variable set of the (pairwise distinct) names `names`, in declaration order -/
structure SetOf (T : VSet) (names : List String) : Prop where
  count : T.1 = names.length
  arr : T.2.1 = names.toArray
  index : ∀ s, T.2.2[s]? = names.idxOf? s

theorem foldl_zipIdx_eq_buildIndex : ∀ (l : List String) (i : Nat) (m : HashMap String Nat),
    (l.zipIdx i).foldl (fun m kv => m.insert kv.1 kv.2) m = VS.buildIndex l i m := by
  intro l
  induction l with
  | nil => intro i m; rfl
  | cons a t ih => intro i m; rw [List.zipIdx_cons, List.foldl_cons, VS.buildIndex, ih]

theorem buildIndex_idxOf (names : List String) (hnd : names.Nodup) (m : HashMap String Nat) (hm : ∀ s : String, m[s]? = none) (s : String) :
    (VS.buildIndex names 0 m)[s]? = names.idxOf? s := by
  by_cases hs : s ∈ names
  · obtain ⟨j, hj, rfl⟩ := List.getElem_of_mem hs
    rw [VS.buildIndex_get_mem names 0 m hnd j hj, Nat.zero_add]
    symm
    rw [List.idxOf?_eq_some_iff]
    refine ⟨hj, rfl, ?_⟩
    intro k hk hkj
    have := (List.getElem_inj (h₀ := by omega) (h₁ := hj) hnd).mp hkj
    omega
  · rw [VS.buildIndex_get_other names 0 m s hs, hm]
    symm
    rw [List.idxOf?_eq_none_iff]; exact hs


theorem foldl_range'_eq_buildIndex (f : Nat → String) (n : Nat) : ∀ (k : Nat) (m : HashMap String Nat),
    ((List.range' k n).map (fun i => (f i, i))).foldl (fun m kv => m.insert kv.1 kv.2) m =
      VS.buildIndex ((List.range' k n).map f) k m := by
  induction n with
  | zero => intro k m; rfl
  | succ n ih =>
    intro k m
    rw [List.range'_succ, List.map_cons, List.map_cons, List.foldl_cons, VS.buildIndex, ih]

theorem anon_eq (i : Nat) : "x_" ++ toString i ++ "" = VS.anonName i := by
  unfold VS.anonName; simp

theorem new_anonymous_ok (n : Nat) (h : n < 65534) :
    ∃ T, Algo2.BddVariableSet_new_anonymous n = .ok T ∧ SetOf T ((List.range n).map VS.anonName) := by
  unfold Algo2.BddVariableSet_new_anonymous
  have : ¬ n ≥ 65534 := by omega
  simp only [sub_of_le 65535 1 (by omega), bind_ok, this, decide_false, Bool.false_eq_true, if_false, pure_eq, anon_eq]
  refine ⟨_, rfl, ?_, ?_, ?_⟩
  · simp
  · simp only []
    rw [← Array.toArray_toList (xs := Array.map _ _)]
    simp
  · intro s
    simp only [Rust.hashMapFromArr]
    rw [← Array.foldl_toList]
    simp only [Array.toList_map, Array.toList_range, List.range_eq_range']
    rw [foldl_range'_eq_buildIndex]
    have hnd := VS.anon_nodup n
    rw [List.range_eq_range'] at hnd
    exact buildIndex_idxOf _ hnd _ (fun s => HashMap.getElem?_emptyWithCapacity) s

theorem new_anonymous_panic (n : Nat) (h : 65534 ≤ n) : ∃ m, Algo2.BddVariableSet_new_anonymous n = .panic m := by
  unfold Algo2.BddVariableSet_new_anonymous
  have : n ≥ 65534 := h
  simp only [sub_of_le 65535 1 (by omega), bind_ok, this, decide_true, if_true, bind_panic]
  exact ⟨_, rfl⟩

/-- the translated constructor against the hand model `VS.newAnonymous`: same kind of outcome, same three fields
    (the index maps are compared through `get`: `Std.HashMap`s built with different capacities are not equal as
    values) -/
theorem new_anonymous_eq_model (n : Nat) :
    (n < 65534 → ∃ T vs, Algo2.BddVariableSet_new_anonymous n = .ok T ∧ VS.newAnonymous n = .ok vs ∧
      T.1 = vs.numVars ∧ T.2.1 = vs.names ∧ ∀ s : String, T.2.2[s]? = vs.index[s]?) ∧
    (65534 ≤ n → (∃ m, Algo2.BddVariableSet_new_anonymous n = .panic m) ∧ ∃ m, VS.newAnonymous n = .panic m) := by
  constructor
  · intro h
    obtain ⟨T, hT, hs⟩ := new_anonymous_ok n h
    have hm : ¬ n ≥ VS.limit := by unfold VS.limit; omega
    refine ⟨T, _, hT, by unfold VS.newAnonymous; rw [if_neg hm], ?_, ?_, ?_⟩
    · rw [hs.count]; simp
    · rw [hs.arr]
    · intro s
      rw [hs.index]
      exact (buildIndex_idxOf _ (VS.anon_nodup n) _ (fun s => HashMap.getElem?_empty) s).symm
  · intro h
    refine ⟨new_anonymous_panic n h, ?_⟩
    have hm : n ≥ VS.limit := h
    exact ⟨_, by unfold VS.newAnonymous; rw [if_pos hm]⟩

/-! ## accessors and literal constructors -/

theorem var_by_name_eq (T : VSet) (s : String) : Algo2.BddVariableSet_var_by_name T s = (toVS T).varByName s := by
  unfold Algo2.BddVariableSet_var_by_name VS.VarSet.varByName toVS
  simp

theorem name_of_rel (T : VSet) (x : Nat) : RelK (Algo2.BddVariableSet_name_of T x) ((toVS T).nameOf x) := by
  unfold Algo2.BddVariableSet_name_of VS.VarSet.nameOf toVS
  rw [idx_eq]
  cases T.2.1[x]? with
  | none => exact .panic _ _
  | some nm => exact .ok _

theorem mk_true_eq (T : VSet) : Algo2.BddVariableSet_mk_true T = (toVS T).mkTrue := rfl
theorem mk_false_eq (T : VSet) : Algo2.BddVariableSet_mk_false T = (toVS T).mkFalse := rfl
theorem mk_var_eq (T : VSet) (x : Nat) : Algo2.BddVariableSet_mk_var T x = (toVS T).mkVar x := rfl
theorem mk_not_var_eq (T : VSet) (x : Nat) : Algo2.BddVariableSet_mk_not_var T x = (toVS T).mkNotVar x := rfl
theorem mk_literal_eq (T : VSet) (x : Nat) (b : Bool) :
    Algo2.BddVariableSet_mk_literal T x b = (toVS T).mkLiteral x b := by
  cases b <;> rfl

theorem mk_var_by_name_rel (T : VSet) (s : String) :
    RelK (Algo2.BddVariableSet_mk_var_by_name T s) ((toVS T).mkVarByName s) := by
  unfold Algo2.BddVariableSet_mk_var_by_name VS.VarSet.mkVarByName
  rw [var_by_name_eq]
  cases (toVS T).varByName s with
  | none => exact .panic _ _
  | some x => exact .ok _

theorem mk_not_var_by_name_rel (T : VSet) (s : String) :
    RelK (Algo2.BddVariableSet_mk_not_var_by_name T s) ((toVS T).mkNotVarByName s) := by
  unfold Algo2.BddVariableSet_mk_not_var_by_name VS.VarSet.mkNotVarByName
  rw [var_by_name_eq]
  cases (toVS T).varByName s with
  | none => exact .panic _ _
  | some x => exact .ok _

/-! ## chained with `Props/C16.lean` (statements about the TRANSLATED constructors) -/

/-- `mk_var`, `mk_not_var`, `mk_literal` of the translated variable set, for a variable of the set: the literal, in
    canonical form (`Props.C16.literal_spec`) -/
theorem mk_literal_translated_spec (T : VSet) (x : Nat) (hx : x < T.1) :
    Algo2.BddVariableSet_mk_var T x = canon T.1 (fun v => v x) ∧
    Algo2.BddVariableSet_mk_not_var T x = canon T.1 (fun v => !v x) ∧
    ∀ b, Algo2.BddVariableSet_mk_literal T x b = canon T.1 (fun v => v x == b) := by
  refine ⟨?_, ?_, ?_⟩
  · rw [mk_var_eq]; exact (VS.sem_mkVar T.1 x hx).eq
  · rw [mk_not_var_eq]; exact (VS.sem_mkNotVar T.1 x hx).eq
  · intro b; rw [mk_literal_eq]; exact (VS.sem_mkLiteral T.1 x b hx).eq

/-- a `SetOf` set is `Faithful` in the sense of `Lemmas/VarSetNames.lean` (so `Props.C16.name_round_trips` and
    `literal_by_name_spec` apply to the translated `var_by_name` / `name_of` / `mk_var_by_name`) -/
theorem SetOf.faithful {T : VSet} {names : List String} (h : SetOf T names) (hnd : names.Nodup) :
    VS.Faithful (toVS T) names := by
  have hidx : ∀ j (hj : j < names.length), names.idxOf? names[j] = some j := by
    intro j hj
    rw [List.idxOf?_eq_some_iff]
    refine ⟨hj, rfl, ?_⟩
    intro k hk hkj
    have := (List.getElem_inj (h₀ := by omega) (h₁ := hj) hnd).mp hkj
    omega
  refine ⟨h.count, ?_, ?_, ?_, ?_, ?_, ?_⟩
  · simp [VS.VarSet.variables, toVS, h.count]
  · simp [VS.VarSet.variableNames, toVS, h.arr]
  · intro j hj
    show T.2.2[names[j]]? = some j
    rw [h.index, hidx j hj]
  · intro s hs
    show T.2.2[s]? = none
    rw [h.index, List.idxOf?_eq_none_iff]; exact hs
  · intro j hj
    simp [VS.VarSet.nameOf, toVS, h.arr, hj]
  · intro j hj
    have : (toVS T).names[j]? = none := by simp [toVS, h.arr, hj]
    simp only [VS.VarSet.nameOf, this]
    exact ⟨_, rfl⟩

/-- the set built by the translated `new_anonymous(k)` is faithful for the names `x_0 … x_{k-1}` -/
theorem new_anonymous_faithful (k : Nat) (hk : k < 65534) :
    ∃ T, Algo2.BddVariableSet_new_anonymous k = .ok T ∧ VS.Faithful (toVS T) ((List.range k).map VS.anonName) := by
  obtain ⟨T, h1, h2⟩ := new_anonymous_ok k hk
  exact ⟨T, h1, h2.faithful (VS.anon_nodup k)⟩

/-! ## non-vacuity -/

/-- on the set built by the GENERATED `new_anonymous(3)`: look-ups by name, names of variables, literals by name -/
example : ∃ T, Algo2.BddVariableSet_new_anonymous 3 = .ok T ∧
    Algo2.BddVariableSet_var_by_name T "x_1" = some 1 ∧ Algo2.BddVariableSet_var_by_name T "y" = none ∧
    Algo2.BddVariableSet_name_of T 2 = .ok "x_2" ∧ (∃ m, Algo2.BddVariableSet_name_of T 3 = .panic m) ∧
    Algo2.BddVariableSet_mk_var_by_name T "x_1" = .ok #[⟨3, 0, 0⟩, ⟨3, 1, 1⟩, ⟨1, 0, 1⟩] ∧
    (∃ m, Algo2.BddVariableSet_mk_not_var_by_name T "y" = .panic m) := by
  obtain ⟨T, h1, hs⟩ := new_anonymous_ok 3 (by decide)
  have h3 : T.1 = 3 := by rw [hs.count]; rfl
  have hx1 : Algo2.BddVariableSet_var_by_name T "x_1" = some 1 := by
    rw [var_by_name_eq]; show T.2.2["x_1"]? = _; rw [hs.index]; decide
  have hy : Algo2.BddVariableSet_var_by_name T "y" = none := by
    rw [var_by_name_eq]; show T.2.2["y"]? = _; rw [hs.index]; decide
  refine ⟨T, h1, hx1, hy, ?_, ?_, ?_, ?_⟩
  · unfold Algo2.BddVariableSet_name_of; rw [hs.arr]; rfl
  · unfold Algo2.BddVariableSet_name_of; rw [hs.arr]; exact ⟨_, rfl⟩
  · unfold Algo2.BddVariableSet_mk_var_by_name; rw [hx1]
    show Outcome.ok (Algo.Bdd_mk_var T.1 1) = _
    rw [h3]; rfl
  · unfold Algo2.BddVariableSet_mk_not_var_by_name; rw [hy]; exact ⟨_, rfl⟩

/-- 65534 variables are refused -/
example : ∃ m, Algo2.BddVariableSet_new_anonymous 65534 = .panic m := new_anonymous_panic _ (by decide)

end B.AlgoEq2VS
